/-
Model of the typing of binary operators of the nsl compiler (property C09).

Python source mirrored (repaired sources): `nsl/types.py`
  `ResolveBinaryExpressionType`, `_GetCommonScalarType`, `_GetCommonPrimitiveType`,
  `_GetRowsColumns`, the constructors `VectorType.__init__` / `MatrixType.__init__`
  (their `assert componentCount > 0` / `assert rows > 0 and columns > 0`),
  `WithComponentType`, and `nsl/op.py` `Operation` (enum values) / `IsComparison`.

A raised `CompileException` and a failing `assert` are both modelled by `none`.

The second half of the file (`namespace Spec`) is the specification written from the
English statement of C09 only; it deliberately has a different structure.
-/

namespace Nsl.Types

/-- Component (scalar) types: `Float ()`, `Integer ()`, `UnsignedInteger ()`. -/
inductive Comp
  | float | int | uint
  deriving DecidableEq, Repr

/-- The primitive type universe of nsl: `ScalarType`, `VectorType (c, n)`,
`MatrixType (c, rows, columns)`.  Python `PrimitiveType.__eq__` compares `repr`, which is
injective on this universe, so Python `==` is structural equality here (in particular
`vec float 1 ≠ scalar float`). -/
inductive Ty
  | scalar (c : Comp)
  | vec (c : Comp) (n : Nat)
  | mat (c : Comp) (r k : Nat)
  deriving DecidableEq, Repr

/-- The 13 binary operators `+ - * / % < <= > >= == != && ||`. -/
inductive BOp
  | add | sub | mul | div | mod | lt | le | gt | ge | eq | ne | land | lor
  deriving DecidableEq, Repr

/-- Well-formed types: what the Python constructors accept (all sizes ≥ 1). -/
def WF : Ty → Bool
  | .scalar _ => true
  | .vec _ n => decide (1 ≤ n)
  | .mat _ r k => decide (1 ≤ r) && decide (1 ≤ k)

namespace Ty

/-- `IsScalar ()` -/
def isScalar : Ty → Bool
  | .scalar _ => true
  | _ => false

/-- `IsVector ()` -/
def isVec : Ty → Bool
  | .vec _ _ => true
  | _ => false

/-- `IsMatrix ()` -/
def isMat : Ty → Bool
  | .mat _ _ _ => true
  | _ => false

/-- `GetComponentType ()` (a scalar type is its own component type). -/
def comp : Ty → Comp
  | .scalar c => c
  | .vec c _ => c
  | .mat c _ _ => c

end Ty

/-- `PrimitiveTypeKind` -/
inductive Kind
  | scalar | vector | matrix
  deriving DecidableEq, Repr

/-- `GetKind ()` -/
def Ty.kind : Ty → Kind
  | .scalar _ => .scalar
  | .vec _ _ => .vector
  | .mat _ _ _ => .matrix

/-! ### `op.py` -/

/-- The numeric values of the `Operation` enum members in `op.py`. -/
def opValue : BOp → Nat
  | .add => 102
  | .sub => 103
  | .mul => 104
  | .div => 105
  | .mod => 106
  | .gt => 200
  | .lt => 201
  | .le => 202
  | .ge => 203
  | .ne => 204
  | .eq => 205
  | .lor => 300
  | .land => 301

/-- `op.IsComparison`: `200 <= op.value < 210`. -/
def isComparison (o : BOp) : Bool :=
  decide (200 ≤ opValue o) && decide (opValue o < 210)

/-! ### Mirror of `types.py` -/

/-- `VectorType (componentType, componentCount)`; the constructor asserts `componentCount > 0`. -/
def mkVec (c : Comp) (n : Nat) : Option Ty :=
  if 0 < n then some (.vec c n) else none

/-- `MatrixType (componentType, rows, columns)`; asserts `rows > 0 and columns > 0`. -/
def mkMat (c : Comp) (r k : Nat) : Option Ty :=
  if 0 < r ∧ 0 < k then some (.mat c r k) else none

/-- `left.WithComponentType (c)` for a vector or matrix `left` (the call sites assert
`isinstance (left, VectorType) or isinstance (left, MatrixType)`, hence `none` for a scalar). -/
def withComp (t : Ty) (c : Comp) : Option Ty :=
  match t with
  | .vec _ n => mkVec c n
  | .mat _ r k => mkMat c r k
  | .scalar _ => none

/-- `_GetCommonScalarType`: float if either is float, else int if either is int, else uint. -/
def commonScalar (a b : Comp) : Comp :=
  if a = .float ∨ b = .float then .float
  else if a = .int ∨ b = .int then .int
  else .uint

/-- `_GetCommonPrimitiveType`.  The `assert left.GetSize () == right.GetSize ()` give `none`;
so does the fall-through for operands of different kinds (Python would return `None`; the
callers never reach it). -/
def commonPrimitive (l r : Ty) : Option Ty :=
  match l, r with
  | .scalar a, .scalar b => some (.scalar (commonScalar a b))
  | .vec a n, .vec b m =>
      if n = m then mkVec (commonScalar a b) n else none
  | .mat a r1 k1, .mat b r2 k2 =>
      if (r1, k1) = (r2, k2) then mkMat (commonScalar a b) r1 k1 else none
  | _, _ => none

/-- `_GetRowsColumns`: matrix ↦ its size, vector of `n` ↦ `(n, 1)`, scalar ↦ `(1, 1)`. -/
def rowsColumns (t : Ty) : Nat × Nat :=
  if t.isMat then
    match t with
    | .mat _ r k => (r, k)
    | _ => (0, 0)        -- unreachable
  else if t.isVec then
    match t with
    | .vec _ n => (n, 1)
    | _ => (0, 0)        -- unreachable
  else (1, 1)

/-- `ResolveBinaryExpressionType (operation, left, right)`, same order of tests as the Python.
Result: `(GetReturnType (), GetOperandType (0), GetOperandType (1))`. -/
def resolveBinary (o : BOp) (l r : Ty) : Option (Ty × Ty × Ty) :=
  if isComparison o then
    if l.kind ≠ r.kind ∨ l.isMat then none
    else
      match commonPrimitive l r with
      | none => none
      | some baseType =>
        if l.isVec ∧ r.isVec then
          match l, r with
          | .vec _ n, .vec _ m =>
            if n = m then
              match mkVec .int n with
              | some res => some (res, baseType, baseType)
              | none => none
            else none
          | _, _ => none
        else some (.scalar .int, baseType, baseType)
  else
    let leftRightIsScalar := l.isScalar && r.isScalar
    if (o = .mul ∨ o = .div) ∧ ¬ leftRightIsScalar then
      let baseType := commonScalar l.comp r.comp
      if o = .div then
        if ¬ r.isScalar then none
        else if l.isScalar then none
        else
          match withComp l baseType with
          | some resultType => some (resultType, resultType, .scalar baseType)
          | none => none
      else if o ≠ .mul then none
      else if l.isScalar then
        match withComp r baseType with
        | some resultType => some (resultType, .scalar baseType, resultType)
        | none => none
      else if r.isScalar then
        match withComp l baseType with
        | some resultType => some (resultType, resultType, .scalar baseType)
        | none => none
      else
        let leftShape := rowsColumns l
        let rightShape := rowsColumns r
        if ¬ l.isMat ∨ leftShape.2 ≠ rightShape.1 then none
        else
          let resultShape := (leftShape.1, rightShape.2)
          if resultShape.2 = 1 then
            match mkVec baseType resultShape.1, withComp l baseType, withComp r baseType with
            | some res, some lt, some rt => some (res, lt, rt)
            | _, _, _ => none
          else if resultShape.2 > 1 then
            match mkMat baseType resultShape.1 resultShape.2,
                  withComp l baseType, withComp r baseType with
            | some res, some lt, some rt => some (res, lt, rt)
            | _, _, _ => none
          else none
    else if l = r then some (l, l, r)
    else if l.kind ≠ r.kind then none
    else
      match commonPrimitive l r with
      | some baseType => some (baseType, baseType, baseType)
      | none => none

/-! ## Specification (from the text of C09)

"two scalars promote to the wider of float > int > uint; the six comparisons yield int for two
scalars and an int vector for two equal-sized vectors (comparing two matrices is left
undefined); +, -, %, && and || combine two vectors or two matrices of identical shape
component-wise; / takes a scalar right operand under any left shape; * takes a scalar on either
side, or a matrix times a matrix or vector whose inner dimensions agree (result shaped
rows(left) x columns(right)), but never vector times vector. Each operand is converted to the
component type of the result, and every other combination is rejected." -/

namespace Spec

/-- float > int > uint -/
def rank : Comp → Nat
  | .float => 2
  | .int => 1
  | .uint => 0

/-- The wider of two component types. -/
def wider (a b : Comp) : Comp :=
  if rank b ≤ rank a then a else b

/-- The four families of operators the statement distinguishes. -/
inductive OpClass
  | comparison      -- < <= > >= == !=
  | additive        -- + - % && ||
  | division        -- /
  | multiplication  -- *
  deriving DecidableEq, Repr

def classify : BOp → OpClass
  | .lt | .le | .gt | .ge | .eq | .ne => .comparison
  | .add | .sub | .mod | .land | .lor => .additive
  | .div => .division
  | .mul => .multiplication

/-- The shape of a type, without its component type. -/
inductive Shape
  | scalar
  | vec (n : Nat)
  | mat (r k : Nat)
  deriving DecidableEq, Repr

def shapeOf : Ty → Shape
  | .scalar _ => .scalar
  | .vec _ n => .vec n
  | .mat _ r k => .mat r k

def compOf : Ty → Comp
  | .scalar c | .vec c _ | .mat c _ _ => c

/-- The type with component type `c` and shape `s`. -/
def build (c : Comp) : Shape → Ty
  | .scalar => .scalar c
  | .vec n => .vec c n
  | .mat r k => .mat c r k

/-- Shape of a product with `r` rows and `c` columns: one column is a vector. -/
def productShape (r c : Nat) : Shape :=
  if c = 1 then .vec r else .mat r c

/-- Which shape combinations are defined, and the shape of the result. -/
def resultShape : OpClass → Shape → Shape → Option Shape
  -- two scalars: every operator
  | _, .scalar, .scalar => some .scalar
  -- comparisons: two equal-sized vectors (two matrices: left undefined, here rejected)
  | .comparison, .vec n, .vec m => if n = m then some (.vec n) else none
  -- + - % && ||: two vectors or two matrices of identical shape
  | .additive, .vec n, .vec m => if n = m then some (.vec n) else none
  | .additive, .mat r k, .mat r' k' => if r = r' ∧ k = k' then some (.mat r k) else none
  -- / : scalar right operand, any left shape
  | .division, s, .scalar => some s
  -- * : scalar on either side
  | .multiplication, s, .scalar => some s
  | .multiplication, .scalar, s => some s
  -- * : matrix times matrix or vector, inner dimensions agree; rows(left) x columns(right)
  | .multiplication, .mat r k, .mat k' c => if k = k' then some (productShape r c) else none
  | .multiplication, .mat r k, .vec n => if k = n then some (productShape r 1) else none
  -- every other combination is rejected (in particular vector * vector, vector * matrix)
  | _, _, _ => none

/-- Component type of the result: `int` for comparisons, else the wider operand component. -/
def resultComp (cls : OpClass) (common : Comp) : Comp :=
  match cls with
  | .comparison => .int
  | _ => common

/-- The specification: `(result type, left operand type, right operand type)` or `none`.
Each operand keeps its own shape and is converted to the common (wider) component type. -/
def binary (o : BOp) (l r : Ty) : Option (Ty × Ty × Ty) :=
  let common := wider (compOf l) (compOf r)
  (resultShape (classify o) (shapeOf l) (shapeOf r)).map fun s =>
    (build (resultComp (classify o) common) s,
     build common (shapeOf l),
     build common (shapeOf r))

end Spec

/-! ## Printing / parsing helpers for the line-protocol driver -/

def Comp.toStr : Comp → String
  | .float => "float"
  | .int => "int"
  | .uint => "uint"

def Comp.ofStr? : String → Option Comp
  | "float" => some .float
  | "int" => some .int
  | "uint" => some .uint
  | _ => none

/-- `s:float`, `v:int:3`, `m:float:3:4` -/
def Ty.toStr : Ty → String
  | .scalar c => "s:" ++ c.toStr
  | .vec c n => "v:" ++ c.toStr ++ ":" ++ toString n
  | .mat c r k => "m:" ++ c.toStr ++ ":" ++ toString r ++ ":" ++ toString k

/-- Inverse of `Ty.toStr`.  Only well-formed types (all sizes ≥ 1) are accepted, matching the
Python constructors. -/
def parseTy? (s : String) : Option Ty :=
  match s.splitOn ":" with
  | ["s", c] => (Comp.ofStr? c).map .scalar
  | ["v", c, n] =>
      match Comp.ofStr? c, n.toNat? with
      | some c, some n => if 1 ≤ n then some (.vec c n) else none
      | _, _ => none
  | ["m", c, r, k] =>
      match Comp.ofStr? c, r.toNat?, k.toNat? with
      | some c, some r, some k => if 1 ≤ r ∧ 1 ≤ k then some (.mat c r k) else none
      | _, _, _ => none
  | _ => none

def BOp.ofStr? : String → Option BOp
  | "+" => some .add
  | "-" => some .sub
  | "*" => some .mul
  | "/" => some .div
  | "%" => some .mod
  | "<" => some .lt
  | "<=" => some .le
  | ">" => some .gt
  | ">=" => some .ge
  | "==" => some .eq
  | "!=" => some .ne
  | "&&" => some .land
  | "||" => some .lor
  | _ => none

def BOp.toStr : BOp → String
  | .add => "+"
  | .sub => "-"
  | .mul => "*"
  | .div => "/"
  | .mod => "%"
  | .lt => "<"
  | .le => "<="
  | .gt => ">"
  | .ge => ">="
  | .eq => "=="
  | .ne => "!="
  | .land => "&&"
  | .lor => "||"

/-- `reject` or `ok <res> <l> <r>`. -/
def resultStr : Option (Ty × Ty × Ty) → String
  | none => "reject"
  | some (res, l, r) => "ok " ++ res.toStr ++ " " ++ l.toStr ++ " " ++ r.toStr

end Nsl.Types
