import Nsl.Model.VM
/-!
# A type checker for the linear IR  (property C05 at the IR level)

`valOK t v`         – what a *variable* (local, argument, global), a call argument or a returned value of static type `t`
                      may hold at run time: a pure tree, never an alias.
`RI`                – what the checker knows about a *register* at a program point: `val t` (holds a tree of type `t`),
                      `ptr t root` (holds an alias `.ptr root path` into the variable `root`, and `path` leads to a
                      component of type `t`), `stale` (nothing is known; the register cannot be used).
`St`                – checker state inside a basic block: typed registers of the block, the locals declared on every path
                      to this point with their types, and a flag "this point is not reachable".
`Cert`              – for every block label the locals (with types) that are declared on entry of the block.  It is computed
                      by the untrusted `inferD` and *verified* edge by edge by the checker.
`instrOK` / `step`  – the typing rule of one instruction and its effect on the state.
`irTypeCheck`       – the whole check.  `strict := true` additionally refuses float → int casts (the one place where the VM
                      has an internal failure that no static typing can exclude: `math.floor` of a NaN or an infinity).

Soundness: `Nsl/Proofs/IRType*.lean`, statements in `Nsl/Props/C05IR.lean`.
-/
namespace Nsl
namespace IRType
open VM

/-! ## Types: equality, navigation -/

def scInt : Sc → Bool
  | .float => false
  | _ => true

/-- a component of kind `a` may be used where kind `b` is expected (`int`/`uint` are both Python ints; a float-typed
slot may hold an int) -/
def scLe : Sc → Sc → Bool
  | _, .float => true
  | .float, _ => false
  | _, _ => true

mutual
def tyBeq : ITy → ITy → Bool
  | .sc a, .sc b => a == b
  | .vec a n, .vec b m => a == b && n == m
  | .mat a r c, .mat b r' c' => a == b && r == r' && c == c'
  | .arr e ds, .arr e' ds' => tyBeq e e' && ds == ds'
  | .struct n fs, .struct n' fs' => n == n' && fieldsBeq fs fs'
  | .void, .void => true
  | _, _ => false
def fieldsBeq : List (String × ITy) → List (String × ITy) → Bool
  | [], [] => true
  | (n, t) :: r, (m, u) :: s => n == m && tyBeq t u && fieldsBeq r s
  | _, _ => false
end

/-- a value of type `a` is also a value of type `b` -/
def compat (a b : ITy) : Bool :=
  match a, b with
  | .sc x, .sc y => scLe x y
  | .vec x n, .vec y m => scLe x y && n == m
  | .mat x r c, .mat y r' c' => scLe x y && r == r' && c == c'
  | a, b => tyBeq a b

/-- type of `a[i]` for `a : arr e (d :: ds)` -/
def elemTy (e : ITy) (ds : List Nat) : ITy :=
  match ds with
  | [] => e
  | _ :: _ => .arr e ds

def tyAtKey : ITy → Key → Option ITy
  | .arr e (d :: ds), .idx k => if k < d then some (elemTy e ds) else none
  | .struct _ fs, .fld n => Map.get fs n
  | _, _ => none

def tyAt : ITy → List Key → Option ITy
  | t, [] => some t
  | t, k :: ks => match tyAtKey t k with
    | some t' => tyAt t' ks
    | none => none

mutual
/-- every array type inside has at least one dimension -/
def wfTy : ITy → Bool
  | .arr e ds => !ds.isEmpty && wfTy e
  | .struct _ fs => wfFields fs
  | _ => true
def wfFields : List (String × ITy) → Bool
  | [] => true
  | (_, t) :: r => wfTy t && wfFields r
end

/-! ## Value typing -/

def scOK : Sc → Val → Bool
  | _, .int _ => true
  | .float, .flt _ => true
  | _, _ => false

/-- nested lists of the given dimensions with leaves satisfying `leaf` -/
def dimsOK (leaf : Val → Bool) : List Nat → Val → Bool
  | [], v => leaf v
  | d :: ds, .list vs => vs.length == d && vs.all (dimsOK leaf ds)
  | _ :: _, _ => false

mutual
def valOK : ITy → Val → Bool
  | .sc s, v => scOK s v
  | .vec s n, v => dimsOK (scOK s) [n] v
  | .mat s r c, v => dimsOK (scOK s) [r, c] v
  | .arr e ds, v => !ds.isEmpty && dimsOK (valOK e) ds v
  | .struct _ fs, v => match v with
    | .struct vs => fieldsOK fs vs
    | _ => false
  | .void, v => match v with
    | .none => true
    | _ => false
def fieldsOK : List (String × ITy) → List (String × Val) → Bool
  | [], vs => vs.isEmpty
  | (n, t) :: r, vs => match vs with
    | (m, v) :: s => n == m && valOK t v && fieldsOK r s
    | [] => false
end

/-- argument lists: same length, pointwise typed -/
def valsOK : List ITy → List Val → Bool
  | [], [] => true
  | t :: ts, v :: vs => valOK t v && valsOK ts vs
  | _, _ => false

/-! ## Checker state -/

inductive RI
  | val (ty : ITy)
  | ptr (ty : ITy) (root : Root)
  | stale
  deriving Inhabited

abbrev Locs := Map String ITy
abbrev Cert := Map Nat Locs

structure St where
  regs : Map Nat RI := []
  locs : Locs := []
  dead : Bool := false
  deriving Inhabited

/-- everything the rules of one function refer to -/
structure Ctx where
  P : Program
  params : List (String × ITy)
  ret : ITy
  code : List Instr
  D : Cert
  strict : Bool

def rootTy (cx : Ctx) (locs : Locs) : Root → Option ITy
  | .loc n => Map.get locs n
  | .arg i => (cx.params[i]?).map (·.2)
  | .glob n => Map.get cx.P.globals n

def rootOfKey : Scope → VarKey → Option Root
  | .global, .name n => some (.glob n)
  | .local, .name n => some (.loc n)
  | .arg, .index i => some (.arg i)
  | _, _ => none

/-- static type of an operand, as seen through `evalVal` (aliases resolved) -/
def opdTy (st : St) : Opd → Option ITy
  | .ref r => match Map.get st.regs r with
    | some (.val t) => some t
    | some (.ptr t _) => some t
    | _ => none
  | .cInt _ => some (.sc .int)
  | .cFlt _ => some (.sc .float)

/-- static type of an operand that holds a tree (not an alias), as seen through `evalOpd` -/
def opdValTy (st : St) : Opd → Option ITy
  | .ref r => match Map.get st.regs r with
    | some (.val t) => some t
    | _ => none
  | .cInt _ => some (.sc .int)
  | .cFlt _ => some (.sc .float)

/-- an operand that holds an alias -/
def opdPtr (st : St) : Opd → Option (ITy × Root)
  | .ref r => match Map.get st.regs r with
    | some (.ptr t root) => some (t, root)
    | _ => none
  | _ => none

def fits (st : St) (o : Opd) (t : ITy) : Bool :=
  match opdTy st o with
  | some a => compat a t
  | none => false

def isIntOpd (st : St) (o : Opd) : Bool :=
  match opdTy st o with
  | some (.sc s) => scInt s
  | _ => false

def locsSub (d cur : Locs) : Bool :=
  d.all fun p => match Map.get cur p.1 with
    | some T => tyBeq p.2 T
    | none => false

def killRI (name : String) : RI → RI
  | .ptr t root => if root = .loc name then .stale else .ptr t root
  | ri => ri

def killRegs (name : String) (m : Map Nat RI) : Map Nat RI :=
  m.map fun p => (p.1, killRI name p.2)

/-! ## The rules

Every rule first looks up the static types of the operands and then applies a predicate on types only. -/

/-- does the result of a scalar operation on components of kinds `sa`, `sb` fit the declared component kind `s`?
(comparisons, `&&`, `||`, `%` and integer `/` give ints; `+ - *` give an int only on two ints) -/
def arithOK (o : SOp) (s sa sb : Sc) : Bool :=
  match s with
  | .float => true
  | _ => match o with
    | .add | .sub | .mul => scInt sa && scInt sb
    | _ => true

/-- sums of products of components of kinds `sa`, `sb` fit kind `s` -/
def dotOK (s sa sb : Sc) : Bool := !scInt s || (scInt sa && scInt sb)

def binTyOK (op : BinOp) (ty ta tb : ITy) : Bool :=
  match op, ty, ta, tb with
  | .s o, .sc s, .sc sa, .sc sb => arithOK o s sa sb
  | .v o, .vec s n, .vec sa na, .vec sb nb => na == n && nb == n && arithOK o s sa sb
  | .vMulS, .vec s n, .vec sa na, .sc sb => na == n && arithOK .mul s sa sb
  | .vDivS, .vec _ n, .vec _ na, .sc _ => na == n
  | .mMulM, .mat s r c, .mat sa ra _, .mat sb _ cb => ra == r && cb == c && dotOK s sa sb
  | .mMulV, .vec s n, .mat sa ra _, .vec sb _ => ra == n && dotOK s sa sb
  | _, _, _, _ => false

/-- with `strict`, a conversion to an integer kind must start from an integer kind -/
def castKindOK (strict : Bool) (s sa : Sc) : Bool := !strict || !scInt s || scInt sa

def castTyOK (strict : Bool) (ty ta : ITy) : Bool :=
  match ty, ta with
  | .sc s, .sc sa => castKindOK strict s sa
  | .vec s n, .vec sa na => na == n && castKindOK strict s sa
  | .mat s r c, .mat sa ra ca => ra == r && ca == c && castKindOK strict s sa
  | _, _ => false

def targetOK (cx : Ctx) (st : St) (l : Nat) : Bool :=
  (labelPos cx.code l).isSome &&
  match Map.get cx.D l with
  | some d => locsSub d st.locs
  | none => false

/-- the value written by a `store*`: an alias (the VM then stops with `unsupported`) or a tree of the right type -/
def srcOK (st : St) (src : Opd) (t : ITy) : Bool :=
  (opdPtr st src).isSome ||
  match opdValTy st src with
  | some a => compat a t
  | none => false

/-- static types of an operand list (all must be known) -/
def opdTys (st : St) : List Opd → Option (List ITy)
  | [] => some []
  | o :: os => match opdTy st o, opdTys st os with
    | some t, some ts => some (t :: ts)
    | _, _ => none

def compatAll : List ITy → List ITy → Bool
  | [], [] => true
  | a :: as, b :: bs => compat a b && compatAll as bs
  | _, _ => false

/-- component kind and number of components of a scalar or vector type -/
def widthOf : ITy → Option (Sc × Nat)
  | .sc s => some (s, 1)
  | .vec s n => some (s, n)
  | _ => none

/-- components contributed by the operands of a vector constructor of component kind `s` -/
def consWidth (s : Sc) : List ITy → Option Nat
  | [] => some 0
  | t :: ts => match widthOf t, consWidth s ts with
    | some (sa, k), some n => if scLe sa s then some (k + n) else none
    | _, _ => none

def rowsFit (s : Sc) (c : Nat) : List ITy → Bool
  | [] => true
  | t :: ts => (match t with
    | .vec sa ca => ca == c && scLe sa s
    | _ => false) && rowsFit s c ts

def constructTyOK (ty : ITy) (ts : List ITy) : Bool :=
  match ty with
  | .vec s n => consWidth s ts == some n
  | .mat s r c => ts.length == r && rowsFit s c ts
  | .sc s => match ts with
    | [.sc sa] => scLe sa s
    | _ => false
  | _ => false

def shuffleTyOK (ty ta tb : ITy) (idx : List Nat) : Bool :=
  match widthOf ta, widthOf tb with
  | some (sa, na), some (sb, nb) =>
    idx.all (fun i => i < na + nb) &&
    (match ty with
     | .sc s => idx.length == 1 && scLe sa s && scLe sb s
     | .vec s n => idx.length == n && scLe sa s && scLe sb s
     | _ => false)
  | _, _ => false

def getTyOK (ty tv : ITy) : Bool :=
  match tv, ty with
  | .vec s _, .sc s' => scLe s s'
  | .mat s _ c, .vec s' c' => scLe s s' && c == c'
  | _, _ => false

def setTyOK (tv tsrc : ITy) : Bool :=
  match tv, tsrc with
  | .vec s _, .sc s' => scLe s' s
  | .mat s _ c, .vec s' c' => scLe s' s && c' == c
  | _, _ => false

/-- The typing rule of an instruction that is reachable (`st.dead = false`). -/
def ruleOK (cx : Ctx) (st : St) : Instr → Bool
  | .label l => match Map.get cx.D l with
    | some d => locsSub d st.locs
    | none => false
  | .load _ ty sc var => match rootOfKey sc var with
    | some root => (match rootTy cx st.locs root with
      | some t => tyBeq ty t
      | none => false)
    | none => false
  | .store sc var src => match rootOfKey sc var with
    | some root => (match rootTy cx st.locs root with
      | some t => srcOK st src t
      | none => false)
    | none => false
  | .newVar _ ty _ => wfTy ty
  | .bin _ op ty a b => match opdTy st a, opdTy st b with
    | some ta, some tb => binTyOK op ty ta tb
    | _, _ => false
  | .cast _ ty a => match opdTy st a with
    | some ta => castTyOK cx.strict ty ta
    | none => false
  | .br l => targetOK cx st l
  | .brc p t f => (opdTy st p).isSome && targetOK cx st t && targetOK cx st f
  | .ret none => tyBeq cx.ret .void
  | .ret (some o) => fits st o cx.ret
  | .call _ ty fn args => match cx.P.find fn, opdTys st args with
    | some callee, some ts => compatAll ts (callee.params.map (·.2)) && compat callee.ret ty
    | _, _ => false
  | .loadArr _ ty arr idx => match opdPtr st arr with
    | some (.arr e (_ :: ds), _) => isIntOpd st idx && tyBeq ty (elemTy e ds)
    | _ => false
  | .storeArr arr idx src => match opdPtr st arr with
    | some (.arr e (_ :: ds), _) => isIntOpd st idx && srcOK st src (elemTy e ds)
    | _ => false
  | .loadMem _ ty obj field => match opdPtr st obj with
    | some (.struct _ fs, _) => (match Map.get fs field with
      | some t => tyBeq ty t
      | none => false)
    | _ => false
  | .storeMem obj field src => match opdPtr st obj with
    | some (.struct _ fs, _) => (match Map.get fs field with
      | some t => srcOK st src t
      | none => false)
    | _ => false
  | .vecGet _ ty v idx | .matGet _ ty v idx => match opdTy st v with
    | some tv => isIntOpd st idx && getTyOK ty tv
    | none => false
  | .vecSet _ _ v idx src | .matSet _ _ v idx src => match opdTy st v, opdTy st src with
    | some tv, some ts => isIntOpd st idx && setTyOK tv ts
    | _, _ => false
  | .shuffle _ ty a b idx => match opdTy st a, opdTy st b with
    | some ta, some tb => shuffleTyOK ty ta tb idx
    | _, _ => false
  | .construct _ ty vals => match opdTys st vals with
    | some ts => constructTyOK ty ts
    | none => false

def instrOK (cx : Ctx) (st : St) (ins : Instr) : Bool := st.dead || ruleOK cx st ins

def setReg (st : St) (d : Nat) (ri : RI) : St := { st with regs := Map.set st.regs d ri }

/-- what is known about the register defined by `load`/`loadArr`/`loadMem`/`newVar` of type `ty` out of `root` -/
def mkRI (ty : ITy) (root : Root) : RI := if ty.isAggregate then .ptr ty root else .val ty

/-- Effect of an instruction on the checker state. -/
def step (cx : Ctx) (st : St) : Instr → St
  | .label l => match Map.get cx.D l with
    | some d => { regs := [], locs := d, dead := false }
    | none => { regs := [], locs := [], dead := true }
  | .load d ty sc var => match rootOfKey sc var with
    | some root => setReg st d (mkRI ty root)
    | none => setReg st d .stale
  | .store _ _ _ => st
  | .newVar d ty name =>
    { st with regs := Map.set (killRegs name st.regs) d (mkRI ty (.loc name)), locs := Map.set st.locs name ty }
  | .bin d _ ty _ _ => setReg st d (.val ty)
  | .cast d ty _ => setReg st d (.val ty)
  | .br _ => { st with dead := true }
  | .brc _ _ _ => { st with dead := true }
  | .ret _ => { st with dead := true }
  | .call d ty _ _ => setReg st d (.val ty)
  | .loadArr d ty arr _ => match opdPtr st arr with
    | some (_, root) => setReg st d (mkRI ty root)
    | none => setReg st d .stale
  | .storeArr _ _ _ => st
  | .loadMem d ty obj _ => match opdPtr st obj with
    | some (_, root) => setReg st d (mkRI ty root)
    | none => setReg st d .stale
  | .storeMem _ _ _ => st
  | .vecGet d ty _ _ => setReg st d (.val ty)
  | .matGet d ty _ _ => setReg st d (.val ty)
  | .vecSet d _ v _ _ => match opdTy st v with
    | some t => setReg st d (.val t)      -- the result is the updated vector, whatever type the instruction declares
    | none => setReg st d .stale
  | .matSet d _ m _ _ => match opdTy st m with
    | some t => setReg st d (.val t)
    | none => setReg st d .stale
  | .shuffle d ty _ _ _ => setReg st d (.val ty)
  | .construct d ty _ => setReg st d (.val ty)

def isTerm : Instr → Bool
  | .br _ | .brc _ _ _ | .ret _ => true
  | _ => false

/-- One forward pass over the flattened code.  Besides the rule of every instruction: control does not run off the end
of a function that has to return a value (after a branch / return, and after a label no checked jump leads to, the
state is `dead`). -/
def checkCode (cx : Ctx) : St → List Instr → Bool
  | _, [] => true
  | st, ins :: rest =>
    instrOK cx st ins && ((step cx st ins).dead || tyBeq cx.ret .void || !rest.isEmpty) &&
      checkCode cx (step cx st ins) rest

/-! ## Untrusted inference of the certificate (forward data flow: locals declared on all paths) -/

def meetLocs (a b : Locs) : Locs :=
  a.filter fun p => match Map.get b p.1 with
    | some T => tyBeq p.2 T
    | none => false

def meetInto (D : Cert) (l : Nat) (cur : Option Locs) : Cert × Bool :=
  match cur with
  | none => (D, false)
  | some c => match Map.get D l with
    | none => (Map.set D l c, true)
    | some d =>
      let m := meetLocs d c
      if m.length == d.length then (D, false) else (Map.set D l m, true)

def inferPass : List Instr → Option Locs → Cert → Bool → Cert × Bool
  | [], _, D, ch => (D, ch)
  | ins :: rest, cur, D, ch =>
    match ins with
    | .label l =>
      let r := meetInto D l cur
      inferPass rest (Map.get r.1 l) r.1 (ch || r.2)
    | .newVar _ ty name => inferPass rest (cur.map fun c => Map.set c name ty) D ch
    | .br t =>
      let r := meetInto D t cur
      inferPass rest none r.1 (ch || r.2)
    | .brc _ t f =>
      let r := meetInto D t cur
      let r2 := meetInto r.1 f cur
      inferPass rest none r2.1 (ch || r.2 || r2.2)
    | .ret _ => inferPass rest none D ch
    | _ => inferPass rest cur D ch

def inferIter (code : List Instr) : Nat → Cert → Cert
  | 0, D => D
  | n + 1, D =>
    let r := inferPass code (some []) D false
    if r.2 then inferIter code n r.1 else r.1

def inferD (code : List Instr) : Cert := inferIter code (code.length + 2) []

/-! ## The whole check -/

def mkCtx (strict : Bool) (P : Program) (f : Func) (D : Cert) : Ctx :=
  { P := P, params := f.params, ret := f.ret, code := f.code, D := D, strict := strict }

/-- a function, given a certificate -/
def checkFnWith (strict : Bool) (P : Program) (f : Func) (D : Cert) : Bool :=
  (!f.code.isEmpty || tyBeq f.ret .void) && checkCode (mkCtx strict P f D) {} f.code

def checkFn (strict : Bool) (P : Program) (f : Func) : Bool := checkFnWith strict P f (inferD f.code)

def irTypeCheckG (strict : Bool) (P : Program) : Bool := P.funcs.all (checkFn strict P)

/-- The IR type checker. -/
def irTypeCheck (P : Program) : Bool := irTypeCheckG false P

/-- The IR type checker that also refuses float → int conversions. -/
def irTypeCheckStrict (P : Program) : Bool := irTypeCheckG true P

/-! ### Layers (syntactic restrictions on top of the same rules) -/

def scalarTy : ITy → Bool
  | .sc _ | .void => true
  | _ => false

def flatTy : ITy → Bool
  | .arr _ _ | .struct _ _ => false
  | _ => true

/-- the instruction forms of a layer, with every mentioned type satisfying `okTy` -/
def layerInstr (okTy : ITy → Bool) (vecOps : Bool) : Instr → Bool
  | .label _ | .br _ | .brc _ _ _ | .ret _ | .store _ _ _ => true
  | .load _ ty _ _ | .newVar _ ty _ | .cast _ ty _ | .call _ ty _ _ => okTy ty
  | .bin _ op ty _ _ => okTy ty && (vecOps || match op with | .s _ => true | _ => false)
  | .vecGet _ ty _ _ | .vecSet _ ty _ _ _ | .matGet _ ty _ _ | .matSet _ ty _ _ _ | .shuffle _ ty _ _ _
  | .construct _ ty _ => vecOps && okTy ty
  | .loadArr _ _ _ _ | .storeArr _ _ _ | .loadMem _ _ _ _ | .storeMem _ _ _ => false

def layerProg (okTy : ITy → Bool) (vecOps : Bool) (P : Program) : Bool :=
  P.globals.all (fun p => okTy p.2) &&
  P.funcs.all fun f => f.params.all (fun p => okTy p.2) && okTy f.ret && f.code.all (layerInstr okTy vecOps)

/-- layer 1: scalars, control flow, calls, globals -/
def irTypeCheckScalar (P : Program) : Bool := layerProg scalarTy false P && irTypeCheck P
/-- layer 2: + vectors and matrices -/
def irTypeCheckFlat (P : Program) : Bool := layerProg flatTy true P && irTypeCheck P

/-! ### Reporting (driver) -/

def firstBad (cx : Ctx) : St → List Instr → Nat → Option (Nat × Instr × Bool)
  | _, [], _ => none
  | st, ins :: rest, pc =>
    if !instrOK cx st ins then some (pc, ins, false)
    else if !((step cx st ins).dead || tyBeq cx.ret .void || !rest.isEmpty) then some (pc, ins, true)
    else firstBad cx (step cx st ins) rest (pc + 1)

end IRType
end Nsl
