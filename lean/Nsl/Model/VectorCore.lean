import Nsl.Model.CoreSem
import Nsl.Model.ScalarCore
/-!
# The vector core of the typed language (domain of the C04 simulation theorem, stage 3 of C01)

`ScalarCore`-style programs extended by vector and matrix VALUES (`vec s n`, `mat s r c`) in local variables,
parameters and globals: declarations with and without initialiser, whole-value assignment, `construct`, swizzle
reads and (non-repeating) swizzle writes, element / row reads and writes with constant or dynamic index,
component-wise operators, vector ∘ scalar, scalar * vector, matrix product, matrix · vector, row-wise matrix
operators, calls with vector arguments and results.

Unlike `ScalarCore` the predicate is a *shape discipline*: the lowering picks opcodes, shuffle indices
(`storeShuffleIdx (vecSize bt) …`) and row counts (`rowsMM … (rowCount lt)`) from the static annotations while the
reference semantics works on the run-time values, so the two only agree when a value annotated `vec s n` really is
a list of `n` numbers (see `C04Sim`: both counter-examples are proved there).  Component types (`int`/`float`/
`uint`) are not part of the discipline — both semantics take `scIsInt` from the same annotation.
-/
namespace Nsl
namespace Core
open VM

/-- Shape of a type: what the discipline tracks (`unit` is `void`: a call of a procedure yields `None`). -/
inductive Sh
  | atom | vec (n : Nat) | mat (r c : Nat) | unit | bad
  deriving DecidableEq, Repr, Inhabited

def shape : ITy → Sh
  | .sc _ => .atom
  | .vec _ n => .vec n
  | .mat _ r c => .mat r c
  | .void => .unit
  | _ => .bad

/-- Shapes whose values are single slots (`None` fits). -/
def Sh.slot : Sh → Bool
  | .atom | .unit => true
  | _ => false

/-- A scalar slot holds a Python number or `None`. -/
def isAtom : Val → Bool
  | .int _ | .flt _ | .none => true
  | _ => false

def fitsVec (n : Nat) : Val → Bool
  | .list vs => vs.length == n && vs.all isAtom
  | _ => false

/-- The value has the shape: a number, a list of `n` numbers, a list of `r` rows of `c` numbers. -/
def fits : Sh → Val → Bool
  | .atom, v => isAtom v
  | .unit, v => isAtom v
  | .vec n, v => fitsVec n v
  | .mat r c, .list rows => rows.length == r && rows.all (fitsVec c)
  | _, _ => false

/-! ## The checker -/

/-- Declared shape of a variable: locals from the declarations of the body, arguments from the parameter list,
globals from the module. -/
def varSh (M : Module) (ps : List (String × ITy)) (Γ : Map String Sh) : Scope → VarKey → Option Sh
  | .local, .name x => Map.get Γ x
  | .arg, .index i => (ps[i]?).map (fun p => shape p.2)
  | .global, .name n => (Map.get M.globals n).map shape
  | _, _ => none

/-- Operator/type combinations with an opcode, and for which the lowering's choice (made from the annotations
`ty`, `lt`, `rt`) is the one `CoreSem.binSem` makes. -/
def okBinSh (op : BOp) (ty lt rt : Sh) : Bool :=
  match lt, rt, ty with
  | .atom, .atom, .atom => true
  | .vec n, .vec m, .vec k => n == k && m == k
  | .vec n, .atom, .vec k => n == k && (op == .mul || op == .div)
  | .atom, .vec n, .vec k => n == k && op == .mul
  | .mat r k, .mat k' c, .mat r' c' =>
    if op == .mul then r == r' && k == k' && c == c' else r == r' && k == c' && k' == r' && c == c'
  | .mat r c, .vec n, .vec k => op == .mul && c == n && r == k
  | .mat r c, .atom, .mat r' c' => (op == .mul || op == .div) && r == r' && c == c'
  | .atom, .mat r c, .mat r' c' => op == .mul && r == r' && c == c'
  | _, _, _ => false

def okBin (op : BOp) (ty lt rt : ITy) : Bool := okBinSh op (shape ty) (shape lt) (shape rt)

/-- Result annotation of a swizzle with mask `idxs`: a scalar for one component, else a vector of `idxs.length`. -/
def okSwz (ty : ITy) (idxs : List Nat) : Bool :=
  match ty with
  | .sc _ => idxs.length == 1
  | .vec _ n => idxs.length == n
  | _ => false

/-- Number of components a constructor argument list contributes (scalars and smaller vectors). -/
def consSize : Args → Option Nat
  | .nil => some 0
  | .cons e rest =>
    match shape (Expr.ty e), consSize rest with
    | .atom, some m => some (m + 1)
    | .vec k, some m => some (m + k)
    | _, _ => none

def allRows (c : Nat) : Args → Bool
  | .nil => true
  | .cons e rest => shape (Expr.ty e) == .vec c && allRows c rest

def okCons (ty : ITy) (args : Args) : Bool :=
  match ty with
  | .vec _ n => consSize args == some n
  | .mat _ r c => allRows c args && argCount args == r
  | .sc _ => match args with
    | .cons e .nil => shape (Expr.ty e) == .atom
    | _ => false
  | _ => false

/-- Call arguments have the shapes of the callee's parameters (position by position). -/
def argsMatch : Args → List (String × ITy) → Bool
  | .cons e rest, p :: ps => shape (Expr.ty e) == shape p.2 && argsMatch rest ps
  | _, _ => true

/-- Structure of a store target: a variable, an element/row of a target, a non-repeating swizzle of a target. -/
def lhsForm : Expr → Bool
  | .var _ _ _ => true
  | .index .vec _ base _ => lhsForm base
  | .index .mat _ base _ => lhsForm base
  | .swizzle _ base idxs => idxs.Nodup && lhsForm base
  | _ => false

def okIdx (k : IdxKind) (ty bt it : ITy) : Bool :=
  match k, shape bt, shape ty with
  | .vec, .vec _, .atom => it.isScalar
  | .mat, .mat _ c, .vec n => c == n && it.isScalar
  | _, _, _ => false

def okCast (ty et : ITy) : Bool :=
  match ty with
  | .sc _ => true
  | .vec _ _ | .mat _ _ _ => shape ty == shape et
  | _ => false

mutual
  def okEV (M : Module) (ps : List (String × ITy)) (Γ : Map String Sh) : Expr → Bool
    | .litI _ => true
    | .litF _ => true
    | .var sc key ty => shape ty != .bad && varSh M ps Γ sc key == some (shape ty)
    | .bin op ty l r => okBin op ty (Expr.ty l) (Expr.ty r) && okEV M ps Γ l && okEV M ps Γ r
    | .cast ty e => okCast ty (Expr.ty e) && okEV M ps Γ e
    | .assign lhs rhs => lhsForm lhs && shape (Expr.ty lhs) == shape (Expr.ty rhs) && okEV M ps Γ lhs && okEV M ps Γ rhs
    | .affix _ _ x => lhsForm x && (Expr.ty x).isScalar && okEV M ps Γ x
    | .call fn ty args =>
      (match CoreSem.findFn M fn with
       | some callee => shape ty == shape callee.ret && argsMatch args callee.params
       | none => false) && okArgsV M ps Γ args
    | .index k ty base idx => okIdx k ty (Expr.ty base) (Expr.ty idx) && okEV M ps Γ base && okEV M ps Γ idx
    | .member _ _ _ => false
    | .swizzle ty base idxs => (Expr.ty base).isVector && okSwz ty idxs && okEV M ps Γ base
    | .construct ty args => okCons ty args && okArgsV M ps Γ args
  def okArgsV (M : Module) (ps : List (String × ITy)) (Γ : Map String Sh) : Args → Bool
    | .nil => true
    | .cons e rest => okEV M ps Γ e && okArgsV M ps Γ rest
end

def okOptEV (M : Module) (ps : List (String × ITy)) (Γ : Map String Sh) : Option Expr → Bool
  | none => true
  | some e => okEV M ps Γ e

/-- `rs` is the shape of the function's result type. -/
def okSV (M : Module) (ps : List (String × ITy)) (Γ : Map String Sh) (rs : Sh) (inLoop : Bool) : Stmt → Bool
  | .skip => true
  | .decl x ty none => shape ty != .bad && Map.get Γ x == some (shape ty)
  | .decl x ty (some e) =>
    shape ty != .bad && Map.get Γ x == some (shape ty) && shape (Expr.ty e) == shape ty && okEV M ps Γ e
  | .expr e => okEV M ps Γ e
  | .seq a b => okSV M ps Γ rs inLoop a && okSV M ps Γ rs inLoop b
  | .ite1 c t => okEV M ps Γ c && okSV M ps Γ rs inLoop t
  | .ite2 c t e => okEV M ps Γ c && okSV M ps Γ rs inLoop t && okSV M ps Γ rs inLoop e
  | .whileL c body => okEV M ps Γ c && okSV M ps Γ rs true body
  | .doL body c => okSV M ps Γ rs true body && okEV M ps Γ c
  | .forL init c next body =>
    okSV M ps Γ rs inLoop init && okOptEV M ps Γ c && okOptEV M ps Γ next && okSV M ps Γ rs true body
  | .brk => inLoop
  | .cont => inLoop
  | .ret none => rs.slot
  | .ret (some e) => shape (Expr.ty e) == rs && okEV M ps Γ e

/-- The declarations of a body with the shape of their type (a name has the shape of its first declaration; `okSV`
checks that every declaration of the name agrees). -/
def declShapes : Stmt → List (String × Sh)
  | .decl x ty _ => [(x, shape ty)]
  | .seq a b => declShapes a ++ declShapes b
  | .ite1 _ t => declShapes t
  | .ite2 _ t e => declShapes t ++ declShapes e
  | .whileL _ body => declShapes body
  | .doL body _ => declShapes body
  | .forL init _ _ body => declShapes init ++ declShapes body
  | _ => []

/-- Syntactic "every path ends in `return e`" (needed only for functions whose result is a vector or matrix: falling
off the end yields `None`). -/
def alwaysRet : Stmt → Bool
  | .ret (some _) => true
  | .seq a b => alwaysRet a || alwaysRet b
  | .ite2 _ t e => alwaysRet t && alwaysRet e
  | _ => false

def okFnV (M : Module) (f : FnDef) : Bool :=
  shape f.ret != .bad && okSV M f.params (declShapes f.body) (shape f.ret) false f.body &&
    ((shape f.ret).slot || alwaysRet f.body)

def VectorCore (M : Module) : Prop := ∀ f ∈ M.fns, okFnV M f = true

instance (M : Module) : Decidable (VectorCore M) := by unfold VectorCore; infer_instance

/-! ## What the host has to respect: values of the declared shapes -/

def ArgsFit (ps : List (String × ITy)) (args : List Val) : Prop :=
  ∀ (i : Nat) (p : String × ITy) (a : Val), ps[i]? = some p → args[i]? = some a → fits (shape p.2) a = true

def GlobalsFit (gs : List (String × ITy)) (g : Globals) : Prop :=
  ∀ n t v, Map.get gs n = some t → Map.get g n = some v → fits (shape t) v = true

end Core
end Nsl
