import Nsl.Model.ScalarCore
/-!
# The storage core: the scalar core plus local arrays and structs used as storage
(domain of the C01 simulation theorem, stage 2)

On top of `ScalarCore`:
* declarations without initialiser of any type (in particular arrays of any number of dimensions, structs,
  arrays of structs);
* reads `a[i]`, `a[i][j]`, `s.f`, `a[i].f` of scalar type whose base is a *local* aggregate variable (index
  expressions are arbitrary expressions of the storage core);
* assignments and `++`/`--` whose target is such an element / field.

The lowered code keeps, in a register, an alias (`.ptr (.loc x) path`) to the aggregate local it navigates, and the
VM decides between "alias" and "value" by looking at the static type annotation *and* the run-time value.  For the
two semantics to agree the static annotations must therefore be consistent with what the variable holds.  This is
the (decidable) typing discipline below: every local name has one *rank* `Γ x` (number of index/member steps down
to its leaves; `0` for a variable used as a scalar); every declaration of `x` has a type of that rank; a scalar
access `x` needs rank 0; an access chain starts at a local of positive rank, consumes exactly `Γ x` steps, is
annotated with an aggregate type at the intermediate nodes and with a scalar type at the leaf.
`Γ` is computed from the declarations of the function body (`envOf`).

Global aggregates, aggregate parameters, whole-aggregate assignment, vectors/matrices stay outside.
-/
namespace Nsl
namespace Core

/-- Rank environment of a function body: navigation depth of every local name. -/
abbrev Env := String → Nat

/-- Navigation depth of a freshly created instance of a type: an `n`-dimensional array has rank `n` (`n + 1` if
its elements are structs, whose fields are then the leaves), a struct has rank 1, everything else is a leaf. -/
def rank : ITy → Nat
  | .arr (.struct _ _) dims => dims.length + 1
  | .arr _ dims => dims.length
  | .struct _ _ => 1
  | _ => 0

/-- A variable that may be used as a scalar: well-formed key, and a local must have rank 0. -/
def varOKS (Γ : Env) : Scope → VarKey → Bool
  | .global, .name _ => true
  | .local, .name x => Γ x == 0
  | .arg, .index _ => true
  | _, _ => false

/-- Syntactic form of an assignment target. -/
def isLhs : Expr → Bool
  | .var _ _ _ => true
  | .index .arr _ _ _ => true
  | .member _ _ _ => true
  | _ => false

mutual
  /-- Expressions of the storage core (all of scalar type). -/
  def okES (Γ : Env) : Expr → Bool
    | .litI _ => true
    | .litF _ => true
    | .var sc key ty => ty.isScalar && varOKS Γ sc key
    | .bin _ ty l r => ty.isScalar && (Expr.ty l).isScalar && (Expr.ty r).isScalar && okES Γ l && okES Γ r
    | .cast ty e => ty.isScalar && okES Γ e
    | .assign lhs rhs => isLhs lhs && okES Γ lhs && okES Γ rhs
    | .affix _ _ x => isLhs x && okES Γ x
    | .call _ _ args => okArgsS Γ args
    | .index .arr ty base idx => ty.isScalar && placeRank Γ base == some 1 && okES Γ idx
    | .index _ _ _ _ => false
    | .member ty base _ => ty.isScalar && placeRank Γ base == some 1
    | .swizzle _ _ _ => false
    | .construct _ _ => false
  def okArgsS (Γ : Env) : Args → Bool
    | .nil => true
    | .cons e rest => okES Γ e && okArgsS Γ rest
  /-- `placeRank Γ e = some d` (`d ≥ 1`): `e` is an access chain `x[i]…[j]` of aggregate type, rooted at a local
  aggregate, that denotes a subtree of depth `d` of that local. -/
  def placeRank (Γ : Env) : Expr → Option Nat
    | .var .local (.name x) ty => if ty.isAggregate && Γ x != 0 then some (Γ x) else none
    | .index .arr ty base idx =>
      match placeRank Γ base with
      | some (d + 2) => if ty.isAggregate && okES Γ idx then some (d + 1) else none
      | _ => none
    | _ => none
end

def okOptES (Γ : Env) : Option Expr → Bool
  | none => true
  | some e => okES Γ e

def okSS (Γ : Env) (inLoop : Bool) : Stmt → Bool
  | .skip => true
  | .decl x ty none => Γ x == rank ty
  | .decl x ty (some e) => ty.isScalar && Γ x == 0 && okES Γ e
  | .expr e => okES Γ e
  | .seq a b => okSS Γ inLoop a && okSS Γ inLoop b
  | .ite1 c t => okES Γ c && okSS Γ inLoop t
  | .ite2 c t e => okES Γ c && okSS Γ inLoop t && okSS Γ inLoop e
  | .whileL c body => okES Γ c && okSS Γ true body
  | .doL body c => okSS Γ true body && okES Γ c
  | .forL init c next body => okSS Γ inLoop init && okOptES Γ c && okOptES Γ next && okSS Γ true body
  | .brk => inLoop
  | .cont => inLoop
  | .ret none => true
  | .ret (some e) => okES Γ e

/-- The declarations of a body with the rank of their type. -/
def declRanks : Stmt → List (String × Nat)
  | .decl x ty _ => [(x, rank ty)]
  | .seq a b => declRanks a ++ declRanks b
  | .ite1 _ t => declRanks t
  | .ite2 _ t e => declRanks t ++ declRanks e
  | .whileL _ body => declRanks body
  | .doL body _ => declRanks body
  | .forL init _ _ body => declRanks init ++ declRanks body
  | _ => []

/-- The rank environment of a body: rank of the first declaration of the name, 0 for undeclared names. -/
def envOf (s : Stmt) : Env := fun x => (Map.get (declRanks s) x).getD 0

def okFnS (f : FnDef) : Bool := okSS (envOf f.body) false f.body

def StorageCore (M : Module) : Prop := ∀ f ∈ M.fns, okFnS f = true

instance (M : Module) : Decidable (StorageCore M) := by unfold StorageCore; infer_instance

end Core
end Nsl
