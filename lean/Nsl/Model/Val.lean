import Nsl.Model.Map
/-!
# Run-time values of the VM model

Mirrors what the Python VM (`nsl/VM.py`) keeps in `localScope` / the global scope:
Python `int`, `float`, `None`, `list` (vectors, matrices as lists of rows, arrays) and `dict`
(struct instances).

Python lists and dicts are mutable and `LOAD` of an aggregate variable aliases it.  The model
keeps every *declared* aggregate variable as a pure tree and lets temporaries that alias (part
of) such a variable hold a `ptr root path`; see DESIGN.md §3 ("Aggregates in the VM").
-/
namespace Nsl

/-- Where a variable lives (mirror of `VariableAccessScope`). -/
inductive Scope | global | arg | local
  deriving DecidableEq, Repr, Inhabited

/-- Root of an aggregate reference. -/
inductive Root
  | loc (name : String) | arg (i : Nat) | glob (name : String)
  deriving DecidableEq, Repr, Inhabited

inductive Key
  | idx (i : Nat) | fld (name : String)
  deriving DecidableEq, Repr, Inhabited

inductive Val
  | int (i : Int)
  | flt (f : Float)
  | none
  | list (vs : List Val)
  | struct (fs : List (String × Val))
  | ptr (root : Root) (path : List Key)
  deriving Inhabited

/-- Outcomes other than a normal result.  `divZero` and `indexOOB` are the two *defined*
run-time failures of the language (C05); `internal` is any other Python exception, tagged with
the site that raises it; `unsupported` marks behaviour the model deliberately does not define
(cases are then skipped by the correspondence, and counted). -/
inductive Err
  | divZero
  | indexOOB
  | internal (site : String)
  | unsupported (what : String)
  | timeout
  deriving DecidableEq, Repr, Inhabited

namespace Val

def isScalar : Val → Bool
  | .int _ | .flt _ => true
  | _ => false

/-- Python truthiness (`if predicate:`) of the values the VM can meet. -/
def truthy : Val → Bool
  | .int i => i != 0
  | .flt f => !(f == 0.0)
  | .none => false
  | .list vs => !vs.isEmpty
  | .struct fs => !fs.isEmpty
  | .ptr _ _ => true

def ofBool (b : Bool) : Val := .int (if b then 1 else 0)

/-- Python `float(v)` for the numeric values. -/
def toFloat? : Val → Option Float
  | .int i => some (Float.ofInt i)
  | .flt f => some f
  | _ => Option.none

end Val

/-- Scalar arithmetic/comparison/logic opcodes (mirror of the scalar part of `OpCode`). -/
inductive SOp
  | add | sub | mul | div | mod
  | lgAnd | lgOr
  | gt | lt | le | ge | ne | eq
  deriving DecidableEq, Repr, Inhabited

namespace SOp
def isCmp : SOp → Bool
  | gt | lt | le | ge | ne | eq => true
  | _ => false
end SOp

/-- Integer division truncating toward zero (the repaired `DIV` on two Python ints). -/
def truncDiv (a b : Int) : Int := Int.tdiv a b

/-- Python `a % b` on ints: the result has the sign of the divisor. -/
def pyMod (a b : Int) : Int := Int.fmod a b

def cmpInt (o : SOp) (a b : Int) : Bool :=
  match o with
  | .gt => decide (a > b) | .lt => decide (a < b) | .le => decide (a ≤ b) | .ge => decide (a ≥ b)
  | .ne => decide (a ≠ b) | .eq => decide (a = b)
  | _ => false

def cmpFlt (o : SOp) (a b : Float) : Bool :=
  match o with
  | .gt => decide (a > b) | .lt => decide (a < b) | .le => decide (a ≤ b) | .ge => decide (a ≥ b)
  | .ne => a != b | .eq => a == b
  | _ => false

/-- The scalar binary operations of the VM on two Python numbers.  int ∘ int stays int; as soon as
one operand is a float Python converts the other with `float()`.  `intTy` says whether the
instruction's declared result type is an integer type: the (repaired) VM uses it to choose between
truncating and true division. -/
def scalarBin (o : SOp) (intTy : Bool) (a b : Val) : Except Err Val :=
  match o with
  | .lgAnd => .ok (Val.ofBool (a.truthy && b.truthy))
  | .lgOr => .ok (Val.ofBool (a.truthy || b.truthy))
  | .div =>
    if intTy then
      match a, b with
      | .int x, .int y => if y = 0 then .error .divZero else .ok (.int (truncDiv x y))
      | _, _ => .error (.unsupported "int-typed-division-of-non-ints")
    else
      match a.toFloat?, b.toFloat? with
      | some x, some y => if y == 0.0 then .error .divZero else .ok (.flt (x / y))
      | _, _ => .error (.internal "scalar-binop-on-non-number")
  | _ =>
    match a, b with
    | .int x, .int y =>
      match o with
      | .add => .ok (.int (x + y))
      | .sub => .ok (.int (x - y))
      | .mul => .ok (.int (x * y))
      | .mod => if y = 0 then .error .divZero else .ok (.int (pyMod x y))
      | c => .ok (Val.ofBool (cmpInt c x y))
    | _, _ =>
      match a.toFloat?, b.toFloat? with
      | some x, some y =>
        match o with
        | .add => .ok (.flt (x + y))
        | .sub => .ok (.flt (x - y))
        | .mul => .ok (.flt (x * y))
        | .mod => if y == 0.0 then .error .divZero else .error (.unsupported "float-mod")
        | c => .ok (Val.ofBool (cmpFlt c x y))
      | _, _ => .error (.internal "scalar-binop-on-non-number")

/-- Conversion of a float to a Python int by `math.floor`. NaN/inf raise in Python. -/
def floorToInt (f : Float) : Except Err Int :=
  if f.isNaN || f.isInf then .error (.internal "floor-of-nan-or-inf")
  else
    let g := f.floor
    -- exact for |g| < 2^63; beyond that the model gives up (outside every compared domain)
    if g.abs < 9.0e18 then .ok g.toInt64.toInt else .error (.unsupported "floor-of-huge-float")

end Nsl
