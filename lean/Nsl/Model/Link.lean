import Nsl.Model.IR
/-!
# Modules, loader, linker (mirror of `LinearIR.Module`, `ModuleLoader`, `Linker`)

A compiled module carries its functions (by IR name), its globals and the names of the modules it imports.
`Linker.AddModule` merges the tables and asserts that no name is defined twice; `Linker.Link` loads every pending
import through the loader – transitively, each module name once – and returns the program.

The pending imports are a Python `set`; the model keeps them in a list and always takes the head, and the theorems
(`Props/C16.lean`) show that the linked program does not depend on that order.
-/
namespace Nsl
namespace Link

structure LModule where
  funcs : List (String × Func)
  globals : List (String × ITy)
  imports : List String
  deriving Inhabited

abbrev Loader := String → Option LModule

inductive LErr
  | dupFunction (name : String)
  | dupGlobal (name : String)
  | missing (module : String)
  | fuel
  deriving Repr, DecidableEq

structure LState where
  funcs : List (String × Func) := []
  globals : List (String × ITy) := []
  loaded : List String := []          -- names of modules loaded through the loader, most recent first
  pending : List String := []
  mods : List LModule := []           -- every module merged so far (ghost: used by the theorems only)
  deriving Inhabited

def hasKey {α : Type} (l : List (String × α)) (k : String) : Bool := l.any (fun p => p.1 == k)

/-- Append bindings one by one; a key that is already bound is an error (the `assert k not in …`). -/
def addAll {α : Type} (mkErr : String → LErr) : List (String × α) → List (String × α) → Except LErr (List (String × α))
  | tbl, [] => .ok tbl
  | tbl, (k, v) :: rest => if hasKey tbl k then .error (mkErr k) else addAll mkErr (tbl ++ [(k, v)]) rest

/-- `Linker.AddModule`. -/
def addModule (s : LState) (m : LModule) : Except LErr LState := do
  let fs ← addAll .dupFunction s.funcs m.funcs
  let gs ← addAll .dupGlobal s.globals m.globals
  .ok { s with funcs := fs, globals := gs, pending := s.pending ++ m.imports, mods := s.mods ++ [m] }

/-- `Linker.Link`: work off the pending imports; a name that has been loaded before is skipped. -/
def linkLoop (loader : Loader) : Nat → LState → Except LErr LState
  | 0, _ => .error .fuel
  | fuel + 1, s =>
    match s.pending with
    | [] => .ok s
    | name :: rest =>
      if s.loaded.contains name then linkLoop loader fuel { s with pending := rest }
      else
        match loader name with
        | none => .error (.missing name)
        | some m =>
          match addModule { s with pending := rest, loaded := name :: s.loaded } m with
          | .error e => .error e
          | .ok s' => linkLoop loader fuel s'

def addModules : LState → List LModule → Except LErr LState
  | s, [] => .ok s
  | s, m :: ms => do let s' ← addModule s m; addModules s' ms

/-- Add the given modules in order, then link. -/
def link (loader : Loader) (fuel : Nat) (added : List LModule) : Except LErr LState := do
  let s ← addModules {} added
  linkLoop loader fuel s

def LState.program (s : LState) : Program := { funcs := s.funcs.map (·.2), globals := s.globals }

def LState.findFn (s : LState) (name : String) : Option Func := (s.funcs.find? (fun p => p.1 == name)).map (·.2)

end Link
end Nsl
