import Nsl.Model.Wasm
/-!
# Evaluator for the WebAssembly subset of `Nsl.Model.Wasm` (WebAssembly 1.0 execution semantics)

* an `i32` value is kept as its canonical unsigned representative, an `Int` in `[0, 2^32)`
  (`wrap x = x mod 2^32`); signed instructions reinterpret it with `toS`;
* `f32` arithmetic is abstract: the evaluator takes a structure `F32Ops` (carrier and operations);
* a trap (`i32.div_*` by zero, `i32.div_s` overflow) and a stuck configuration (operand stack
  underflow, local index out of range, ill-typed operands — none of which can happen in a
  validated module) both give `none`.
-/
namespace Nsl.Wasm

/-- The f32 operations the subset needs, abstractly. -/
structure F32Ops (F : Type) where
  ofBits : Nat → F
  add : F → F → F
  sub : F → F → F
  mul : F → F → F
  div : F → F → F
  eq : F → F → Bool
  lt : F → F → Bool
  gt : F → F → Bool

inductive WVal (F : Type)
  | i32 (v : Int)
  | f32 (x : F)
  deriving DecidableEq, Repr, Inhabited

def WVal.vt {F : Type} : WVal F → VT
  | .i32 _ => .i32
  | .f32 _ => .f32

/-- Reduction modulo 2^32 to the canonical representative in `[0, 2^32)`. -/
def wrap (x : Int) : Int := x % 4294967296

/-- Signed interpretation of a canonical i32 value. -/
def toS (x : Int) : Int := if x < 2147483648 then x else x - 4294967296

def boolV {F : Type} (b : Bool) : WVal F := .i32 (if b then 1 else 0)

/-- `evalNum op a b`: `a` is the first operand (pushed first), `b` the second (top of stack). -/
def evalNum {F : Type} (O : F32Ops F) : NumOp → WVal F → WVal F → Option (WVal F)
  | .i32Add, .i32 a, .i32 b => some (.i32 (wrap (a + b)))
  | .i32Sub, .i32 a, .i32 b => some (.i32 (wrap (a - b)))
  | .i32Mul, .i32 a, .i32 b => some (.i32 (wrap (a * b)))
  | .i32DivS, .i32 a, .i32 b =>
    if b = 0 then none                                            -- trap: division by zero
    else if toS a = -2147483648 ∧ toS b = -1 then none            -- trap: result 2^31 not representable
    else some (.i32 (wrap (Int.tdiv (toS a) (toS b))))            -- truncating division
  | .i32DivU, .i32 a, .i32 b => if b = 0 then none else some (.i32 (a / b))
  | .i32Eq, .i32 a, .i32 b => some (boolV (a = b))
  | .i32LtS, .i32 a, .i32 b => some (boolV (toS a < toS b))
  | .i32LtU, .i32 a, .i32 b => some (boolV (a < b))
  | .i32GtS, .i32 a, .i32 b => some (boolV (toS a > toS b))
  | .i32GtU, .i32 a, .i32 b => some (boolV (a > b))
  | .f32Add, .f32 a, .f32 b => some (.f32 (O.add a b))
  | .f32Sub, .f32 a, .f32 b => some (.f32 (O.sub a b))
  | .f32Mul, .f32 a, .f32 b => some (.f32 (O.mul a b))
  | .f32Div, .f32 a, .f32 b => some (.f32 (O.div a b))
  | .f32Eq, .f32 a, .f32 b => some (boolV (O.eq a b))
  | .f32Lt, .f32 a, .f32 b => some (boolV (O.lt a b))
  | .f32Gt, .f32 a, .f32 b => some (boolV (O.gt a b))
  | _, _, _ => none

/-- Runs an instruction sequence followed by `end`.  `nres` is the number of results of the
function (at most one in WebAssembly 1.0): `return` and `end` deliver the top `nres` stack values.
`none` = trap or stuck. -/
def runBody {F : Type} (O : F32Ops F) (nres : Nat) :
    List WInstr → List (WVal F) → List (WVal F) → Option (List (WVal F))
  | [], _, st => some (st.take nres)
  | .ret :: _, _, st => some (st.take nres)
  | .localGet i :: is, ls, st =>
    match ls[i]? with
    | some v => runBody O nres is ls (v :: st)
    | none => none
  | .localSet i :: is, ls, st =>
    match st with
    | v :: st' => if i < ls.length then runBody O nres is (ls.set i v) st' else none
    | [] => none
  | .i32Const v :: is, ls, st => runBody O nres is ls (.i32 (wrap v) :: st)
  | .f32Const b :: is, ls, st => runBody O nres is ls (.f32 (O.ofBits b) :: st)
  | .num op :: is, ls, st =>
    match st with
    | b :: a :: st' =>
      match evalNum O op a b with
      | some r => runBody O nres is ls (r :: st')
      | none => none
    | _ => none

/-- Declared locals start as zero. -/
def zeroOf {F : Type} (O : F32Ops F) : VT → WVal F
  | .i32 => .i32 0
  | .f32 => .f32 (O.ofBits 0)

/-- Invocation of function `idx` of module `m` on `args` (which must have the parameter types).
Result: the list of result values (empty for a function without result), `none` for a trap. -/
def evalFunc {F : Type} (O : F32Ops F) (m : WModule) (idx : Nat) (args : List (WVal F)) :
    Option (List (WVal F)) :=
  match m.funcs[idx]?, m.codes[idx]? with
  | some ti, some c =>
    match m.types[ti]? with
    | some ft =>
      if args.map WVal.vt = ft.params then
        runBody O ft.results.length c.body (args ++ (expandLocals c.locals).map (zeroOf O)) []
      else none
    | none => none
  | _, _ => none

/-- `x` is a signed 32-bit number. -/
def inS32 (x : Int) : Prop := -2147483648 ≤ x ∧ x < 2147483648

/-- `x` is an unsigned 32-bit number. -/
def inU32 (x : Int) : Prop := 0 ≤ x ∧ x < 4294967296

/-! ## Classes of IR instructions used by property C06 -/

/-- The IR instructions the generator translates (everything else must be refused). -/
def supported : Instr → Bool
  | .label _ => true
  | .load _ _ .arg (.index _) => true
  | .store .arg (.index _) _ => true
  | .bin _ (.s op) _ _ _ =>
    op == .add || op == .sub || op == .mul || op == .div || op == .eq || op == .lt || op == .gt
  | .ret _ => true
  | _ => false

def isI32Ty : ITy → Bool
  | .sc .int => true
  | .sc .uint => true
  | _ => false

def ringOpd : Opd → Bool
  | .ref _ => true
  | .cInt _ => true
  | .cFlt _ => false

/-- Straight-line integer code over `+ - *`: argument loads, stores to arguments, `add/sub/mul`
of integer type on references and integer constants, `return v`. -/
def ringInstr : Instr → Bool
  | .label _ => true
  | .load _ ty .arg (.index _) => isI32Ty ty
  | .store .arg (.index _) src => ringOpd src
  | .bin _ (.s op) ty a b =>
    (op == .add || op == .sub || op == .mul) && isI32Ty ty && ringOpd a && ringOpd b
  | .ret (some v) => ringOpd v
  | _ => false

/-- An integer function (integer parameters and result) whose body is ring code. -/
def ringFunc (f : Func) : Bool :=
  f.params.all (fun p => isI32Ty p.2) && isI32Ty f.ret && f.code.all ringInstr

end Nsl.Wasm
