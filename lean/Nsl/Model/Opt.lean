import Nsl.Model.VM
import Nsl.Model.WF
/-!
# The two IR optimisations (mirror of `OptimizeConstantCasts.py`, `OptimizeLoadAfterStore.py` and of the deferred
`Replace` / `ReplaceUses` bookkeeping of `LinearIR.BasicBlock._Traverse`)

Both passes have the same shape on the flattened code: some value-defining instructions are *removed* and every use of
their reference is *rewired* to an operand that holds the same value:
* a cast of a constant is removed, its users get the folded constant;
* a load that directly follows (in the same basic block) a store to the same variable is removed, its users get the
  stored operand — resolved through earlier rewirings, as `BasicBlock.ReplaceUses` does for chains.
`scan` decides what is removed and builds the substitution in one left-to-right pass; `applySubst` rewires.
-/
namespace Nsl
namespace Opt

/-- removed reference ↦ the operand its users are rewired to -/
abbrev Subst := Map Nat Opd

def substOpd (σ : Subst) : Opd → Opd
  | .ref r => (Map.get σ r).getD (.ref r)
  | o => o

def substInstr (σ : Subst) : Instr → Instr
  | .label l => .label l
  | .load d t sc v => .load d t sc v
  | .store sc v src => .store sc v (substOpd σ src)
  | .newVar d t n => .newVar d t n
  | .bin d op t a b => .bin d op t (substOpd σ a) (substOpd σ b)
  | .cast d t a => .cast d t (substOpd σ a)
  | .br l => .br l
  | .brc p t f => .brc (substOpd σ p) t f
  | .ret none => .ret none
  | .ret (some v) => .ret (some (substOpd σ v))
  | .call d t fn args => .call d t fn (args.map (substOpd σ))
  | .loadArr d t a i => .loadArr d t (substOpd σ a) (substOpd σ i)
  | .storeArr a i v => .storeArr (substOpd σ a) (substOpd σ i) (substOpd σ v)
  | .loadMem d t o f => .loadMem d t (substOpd σ o) f
  | .storeMem o f v => .storeMem (substOpd σ o) f (substOpd σ v)
  | .vecGet d t v i => .vecGet d t (substOpd σ v) (substOpd σ i)
  | .vecSet d t v i s => .vecSet d t (substOpd σ v) (substOpd σ i) (substOpd σ s)
  | .matGet d t m i => .matGet d t (substOpd σ m) (substOpd σ i)
  | .matSet d t m i s => .matSet d t (substOpd σ m) (substOpd σ i) (substOpd σ s)
  | .shuffle d t a b idx => .shuffle d t (substOpd σ a) (substOpd σ b) idx
  | .construct d t vals => .construct d t (vals.map (substOpd σ))

/-! ## Constant casts -/

/-- `OptimizeConstantCastVisitor.v_CastInstruction`: the constant a cast of a constant is folded to
(`float(c)` / `math.floor(c)` / `abs(math.floor(c))`), `none` if the cast is left alone. -/
def foldCast (ty : ITy) (o : Opd) : Option Opd :=
  match ty, o with
  | .sc .float, .cInt i => some (.cFlt (Float.ofInt i))
  | .sc .float, .cFlt f => some (.cFlt f)
  | .sc .int, .cInt i => some (.cInt i)
  | .sc .uint, .cInt i => some (.cInt i.natAbs)
  | .sc .int, .cFlt f => match floorToInt f with | .ok i => some (.cInt i) | .error _ => none
  | .sc .uint, .cFlt f => match floorToInt f with | .ok i => some (.cInt i.natAbs) | .error _ => none
  | _, _ => none

/-- One pass deciding which instructions are removed. `ccDecide`/`lasDecide` look at the instruction, the previous
instruction of the same block (before this pass) and the substitution so far. -/
def ccDecide (_prev : Option Instr) (ins : Instr) (_σ : Subst) : Option (Nat × Opd) :=
  match ins with
  | .cast d ty o => (foldCast ty o).map (fun c => (d, c))
  | _ => none

/-- `OptimizeLoadAfterStoreVisitor`: a load whose predecessor in the block is a store to a variable with the same
name (the Python compares `Variable` only, not the scope). -/
def lasDecide (prev : Option Instr) (ins : Instr) (σ : Subst) : Option (Nat × Opd) :=
  match ins, prev with
  | .load d _ _ var, some (.store _ var' src) => if var' = var then some (d, substOpd σ src) else none
  | _, _ => none

def scan (decide : Option Instr → Instr → Subst → Option (Nat × Opd)) :
    Option Instr → List Instr → Subst → List Instr × Subst
  | _, [], σ => ([], σ)
  | prev, ins :: rest, σ =>
    match decide prev ins σ with
    | some (d, o) => scan decide (some ins) rest (Map.set σ d o)
    | none =>
      let (out, σ') := scan decide (some ins) rest σ
      (ins :: out, σ')

def pass (decide : Option Instr → Instr → Subst → Option (Nat × Opd)) (code : List Instr) : List Instr :=
  let (out, σ) := scan decide none code []
  out.map (substInstr σ)

def optCode (code : List Instr) : List Instr := pass lasDecide (pass ccDecide code)

def optFn (f : Func) : Func := { f with code := optCode f.code }

def optProgram (P : Program) : Program := { P with funcs := P.funcs.map optFn }

/-! ## Side conditions under which the rewiring is proved sound (checked on every IR the implementation produces) -/

/-- Every forwarded load reads the variable of the store's scope and is not an aggregate alias. -/
def forwardOK : Option Instr → List Instr → Bool
  | _, [] => true
  | prev, ins :: rest =>
    (match ins, prev with
     | .load _ ty sc var, some (.store sc' var' _) => if var' = var then (sc' == sc && !ty.isAggregate) else true
     | _, _ => true) && forwardOK (some ins) rest

/-- Value references are block-local: every reference an instruction reads is defined by an EARLIER instruction of
the SAME basic block (a block starts at a label marker), and no reference is defined twice in a block.
`seen` = the references defined so far in the current block. -/
def blockLocal : List Nat → List Instr → Bool
  | _, [] => true
  | seen, ins :: rest =>
    match ins with
    | .label _ => blockLocal [] rest
    | _ =>
      (WF.usesOf ins).all (fun r => seen.contains r) &&
      (match WF.defOf ins with
       | some d => !seen.contains d && blockLocal (d :: seen) rest
       | none => blockLocal seen rest)

/-! ## Additional side conditions for the global simulation theorem (C02) -/

/-- no element occurs twice -/
def distinct : List Nat → Bool
  | [] => true
  | x :: xs => !xs.contains x && distinct xs

/-- Every value reference is defined by at most one instruction of the function (references are numbered
consecutively per function in the implementation). -/
def defsDistinct (code : List Instr) : Bool := distinct (code.filterMap WF.defOf)

/-- One pass, as a function / program transformer. -/
def passFn (decide : Option Instr → Instr → Subst → Option (Nat × Opd)) (f : Func) : Func :=
  { f with code := pass decide f.code }

def passProgram (decide : Option Instr → Instr → Subst → Option (Nat × Opd)) (P : Program) : Program :=
  { P with funcs := P.funcs.map (passFn decide) }

/-- The decidable side conditions of the global simulation theorem, checked by the harness on every real IR. -/
def optOK (f : Func) : Bool :=
  blockLocal [] f.code && forwardOK none (pass ccDecide f.code) && defsDistinct f.code

/-! ## Structural well-formedness checkers (property C14; soundness in `Nsl/Proofs/WFBlock.lean`) -/
section
open WF

/-- no two markers carry the same label -/
def labelsDistinct (code : List Instr) : Bool := distinct (code.filterMap labelOf)

/-- every branch target is the label of a marker of the same code -/
def targetsOK (code : List Instr) : Bool :=
  code.all fun ins => (targetsOf ins).all fun l => (labelPos code l).isSome

/-- a call names a function of `P` with as many parameters as the call has arguments -/
def callOK (P : Program) : Instr → Bool
  | .call _ _ f args =>
    match P.find f with
    | some callee => callee.params.length == args.length
    | none => false
  | _ => true

def callsOK (fn : Func) (P : Program) : Bool := fn.code.all (callOK P)

/-- all five structural conditions -/
def wfChecks (fn : Func) (P : Program) : Bool :=
  blockLocal [] fn.code && defsDistinct fn.code && labelsDistinct fn.code && targetsOK fn.code && callsOK fn P

end

end Opt
end Nsl
