import Nsl.Model.Leb
import Nsl.Model.IR
/-!
# WebAssembly writer and generator (mirror of `nsl/WebAssembly.py` and `nsl/passes/GenerateWasm.py`)

* abstract syntax of exactly what the (repaired) generator can emit: `VT`, `FuncType`, `WInstr`,
  `WCode`, `WExport`, `WModule`;
* `encModule` — byte-exact mirror of `Module.WriteTo` (sizes through the standard unsigned LEB128
  encoder `Leb.encU`); `Py.encModule` — the same written literally through `Leb.packInteger`
  (`PackInteger`), proved equal in `Nsl.Proofs.Wasm`;
* `decModule` — a decoder written from the WebAssembly 1.0 binary format (restricted to the subset),
  independent of the encoder;
* `validModule` — the WebAssembly 1.0 validation rules for the subset;
* `genWasmWith`/`genWasm` — model of `GenerateWasmVisitor` on the linear IR of `Nsl.Model.IR`.

Bytes are `Nat` (as in `Nsl.Model.Leb`).  Executable definitions only, no Mathlib.
-/
namespace Nsl.Wasm
open Nsl.Leb

/-! ## 1. Abstract syntax -/

/-- Value types the generator uses (`ValueType.i32 = 0x7F`, `ValueType.f32 = 0x7D`). -/
inductive VT | i32 | f32
  deriving DecidableEq, Repr, Inhabited

def VT.byte : VT → Nat
  | .i32 => 0x7F
  | .f32 => 0x7D

structure FuncType where
  params : List VT
  results : List VT
  deriving DecidableEq, Repr, Inhabited

/-- The numeric binary instructions `v_BinaryInstruction` can select. -/
inductive NumOp
  | i32Add | i32Sub | i32Mul | i32DivS | i32DivU | i32Eq | i32LtS | i32LtU | i32GtS | i32GtU
  | f32Add | f32Sub | f32Mul | f32Div | f32Eq | f32Lt | f32Gt
  deriving DecidableEq, Repr, Inhabited

/-- Opcode byte (table `opcodes` of `WebAssembly.py`; identical to the WebAssembly 1.0 numbering). -/
def NumOp.byte : NumOp → Nat
  | .i32Eq => 0x46 | .i32LtS => 0x48 | .i32LtU => 0x49 | .i32GtS => 0x4A | .i32GtU => 0x4B
  | .f32Eq => 0x5B | .f32Lt => 0x5D | .f32Gt => 0x5E
  | .i32Add => 0x6A | .i32Sub => 0x6B | .i32Mul => 0x6C | .i32DivS => 0x6D | .i32DivU => 0x6E
  | .f32Add => 0x92 | .f32Sub => 0x93 | .f32Mul => 0x94 | .f32Div => 0x95

/-- Operand type (both operands) and result type of a numeric instruction
(WebAssembly 1.0: `t.binop : [t t] → [t]`, `t.relop : [t t] → [i32]`). -/
def NumOp.sig : NumOp → VT × VT
  | .i32Add | .i32Sub | .i32Mul | .i32DivS | .i32DivU => (.i32, .i32)
  | .i32Eq | .i32LtS | .i32LtU | .i32GtS | .i32GtU => (.i32, .i32)
  | .f32Add | .f32Sub | .f32Mul | .f32Div => (.f32, .f32)
  | .f32Eq | .f32Lt | .f32Gt => (.f32, .i32)

inductive WInstr
  | localGet (i : Nat)
  | localSet (i : Nat)
  | i32Const (v : Int)          -- the signed immediate
  | f32Const (bits : Nat)       -- the 32-bit IEEE 754 pattern
  | num (op : NumOp)
  | ret
  deriving DecidableEq, Repr, Inhabited

/-- A function body: local declarations as `(count, type)` groups and the instruction sequence
(the terminating `end` is not part of `body`). -/
structure WCode where
  locals : List (Nat × VT)
  body : List WInstr
  deriving DecidableEq, Repr, Inhabited

/-- An export of kind `ExternalKind.Function`. -/
structure WExport where
  name : String
  index : Nat
  deriving DecidableEq, Repr, Inhabited

/-- `tables`: one entry per table, the `min` of its limits (element type `funcref`, no `max`). -/
structure WModule where
  types : List FuncType
  funcs : List Nat
  tables : List Nat
  exports : List WExport
  codes : List WCode
  deriving DecidableEq, Repr, Inhabited

/-! ## 2. Encoder (mirror of `WebAssembly.py`) -/

/-- `WriteInteger(len(xs)); for x in xs: x.WriteTo(...)`. -/
def encVec {α : Type} (f : α → List Nat) (xs : List α) : List Nat :=
  encU xs.length ++ xs.flatMap f

def encVT (t : VT) : List Nat := [t.byte]

/-- `FunctionType.WriteTo`. -/
def encFuncType (ft : FuncType) : List Nat :=
  0x60 :: (encVec encVT ft.params ++ encVec encVT ft.results)

/-- `Table.WriteTo`: element type `funcref`, limits flag `0x00`, `min`. -/
def encTable (min : Nat) : List Nat := 0x70 :: 0x00 :: encU min

/-- `Export.WriteTo`: name, kind `0x00`, index. -/
def encExport (e : WExport) : List Nat := writeString e.name ++ 0x00 :: encU e.index

/-- `Local.WriteTo`. -/
def encLocal (g : Nat × VT) : List Nat := encU g.1 ++ [g.2.byte]

/-- `struct.pack("<I", bits)`: four little-endian bytes. -/
def le32 (n : Nat) : List Nat := [n % 256, n / 256 % 256, n / 65536 % 256, n / 16777216 % 256]

/-- `Instruction.WriteTo`: opcode byte, then the immediates (`i32.const`: signed LEB128 through
`PackSignedInteger` = `Leb.encS`; `f32.const`: 4 bytes little endian; indices: unsigned LEB128). -/
def encInstr : WInstr → List Nat
  | .localGet i => 0x20 :: encU i
  | .localSet i => 0x21 :: encU i
  | .i32Const v => 0x41 :: encS v
  | .f32Const b => 0x43 :: le32 b
  | .num op => [op.byte]
  | .ret => [0x0F]

/-- `Code.Encode`: vector of local groups, instructions, `end`. -/
def encCodeBody (c : WCode) : List Nat :=
  encVec encLocal c.locals ++ (c.body.flatMap encInstr ++ [0x0B])

/-- One entry of the code section: `WriteInteger(len(codeContent)); write(codeContent)`. -/
def encCode (c : WCode) : List Nat := frame (encCodeBody c)

/-- A section that is omitted when it has no entries (`if not self.__xs: return`). -/
def encOptSection {α : Type} (id : Nat) (f : α → List Nat) (xs : List α) : List Nat :=
  if xs.isEmpty then [] else sectionBytes id (encVec f xs)

def magic : List Nat := [0x00, 0x61, 0x73, 0x6D]
def version : List Nat := [0x01, 0x00, 0x00, 0x00]

/-- `Module.WriteTo`.  The type section is always written; import (2), memory (5), global (6),
start (8), element (9) and data (11) sections are never filled by the generator and write nothing. -/
def encModule (m : WModule) : List Nat :=
  magic ++ (version ++
    (sectionBytes 1 (encVec encFuncType m.types) ++
      (encOptSection 3 encU m.funcs ++
        (encOptSection 4 encTable m.tables ++
          (encOptSection 7 encExport m.exports ++
            encOptSection 10 encCode m.codes)))))

/-! ### The same writer literally through `PackInteger` -/
namespace Py

def wInt (n : Nat) : List Nat := packInteger (n : Int)

def encVec {α : Type} (f : α → List Nat) (xs : List α) : List Nat :=
  wInt xs.length ++ xs.flatMap f

def encFuncType (ft : FuncType) : List Nat :=
  0x60 :: (encVec encVT ft.params ++ encVec encVT ft.results)

def encTable (min : Nat) : List Nat := 0x70 :: 0x00 :: wInt min

def encExport (e : WExport) : List Nat := writeStringPy e.name ++ 0x00 :: wInt e.index

def encLocal (g : Nat × VT) : List Nat := wInt g.1 ++ [g.2.byte]

def encInstr : WInstr → List Nat
  | .localGet i => 0x20 :: wInt i
  | .localSet i => 0x21 :: wInt i
  | .i32Const v => 0x41 :: encS v
  | .f32Const b => 0x43 :: le32 b
  | .num op => [op.byte]
  | .ret => [0x0F]

def encCodeBody (c : WCode) : List Nat :=
  encVec encLocal c.locals ++ (c.body.flatMap encInstr ++ [0x0B])

def encCode (c : WCode) : List Nat := framePy (encCodeBody c)

def encOptSection {α : Type} (id : Nat) (f : α → List Nat) (xs : List α) : List Nat :=
  if xs.isEmpty then [] else sectionBytesPy id (encVec f xs)

def encModule (m : WModule) : List Nat :=
  magic ++ (version ++
    (sectionBytesPy 1 (encVec encFuncType m.types) ++
      (encOptSection 3 wInt m.funcs ++
        (encOptSection 4 encTable m.tables ++
          (encOptSection 7 encExport m.exports ++
            encOptSection 10 encCode m.codes)))))

end Py

/-! ### The section structure of the output, and a content-independent section scanner -/

def optSectionEntry {α : Type} (id : Nat) (f : α → List Nat) (xs : List α) : List (Nat × List Nat) :=
  if xs.isEmpty then [] else [(id, encVec f xs)]

/-- The sections `Module.WriteTo` writes, as `(id, payload)` pairs in output order. -/
def sectionsOf (m : WModule) : List (Nat × List Nat) :=
  (1, encVec encFuncType m.types) ::
    (optSectionEntry 3 encU m.funcs ++ (optSectionEntry 4 encTable m.tables ++
      (optSectionEntry 7 encExport m.exports ++ optSectionEntry 10 encCode m.codes)))

/-- Reads `id, size, size bytes` repeatedly until the input is exhausted (fuel: one per section). -/
def scanSections : Nat → List Nat → Option (List (Nat × List Nat))
  | _, [] => some []
  | 0, _ :: _ => none
  | fuel + 1, b :: bs =>
    match unsection (b :: bs) with
    | none => none
    | some (id, p, rest) =>
      match scanSections fuel rest with
      | none => none
      | some ss => some ((id, p) :: ss)

/-! ## 3. Decoder (WebAssembly 1.0 binary format, restricted to the subset)

Every parser has the type `List Nat → Option (α × List Nat)` (value and unread rest).
Integers are decoded by the textbook LEB128 decoders `Leb.decU`/`Leb.decS`.  Deviation from the
specification: `u32` fields are not rejected when they exceed 32 bits / 5 bytes (the model has
unbounded naturals); `i32.const` immediates are range-checked. -/

/-- `n` items. -/
def decVecN {α : Type} (p : List Nat → Option (α × List Nat)) :
    Nat → List Nat → Option (List α × List Nat)
  | 0, bs => some ([], bs)
  | n + 1, bs =>
    match p bs with
    | none => none
    | some (x, r) =>
      match decVecN p n r with
      | none => none
      | some (xs, r') => some (x :: xs, r')

/-- `vec(B)`: a `u32` count followed by that many items. -/
def decVec {α : Type} (p : List Nat → Option (α × List Nat)) (bs : List Nat) :
    Option (List α × List Nat) :=
  match decU bs with
  | none => none
  | some (n, r) => decVecN p n r

/-- `valtype`: `0x7F` = i32, `0x7D` = f32 (i64 `0x7E`, f64 `0x7C` are outside the subset). -/
def decVT : List Nat → Option (VT × List Nat)
  | [] => none
  | b :: r => if b = 0x7F then some (.i32, r) else if b = 0x7D then some (.f32, r) else none

/-- `functype ::= 0x60 vec(valtype) vec(valtype)`. -/
def decFuncType : List Nat → Option (FuncType × List Nat)
  | [] => none
  | b :: r =>
    if b = 0x60 then
      match decVec decVT r with
      | none => none
      | some (ps, r1) =>
        match decVec decVT r1 with
        | none => none
        | some (rs, r2) => some (⟨ps, rs⟩, r2)
    else none

/-- `typeidx` (function section entry). -/
def decIdx (bs : List Nat) : Option (Nat × List Nat) := decU bs

/-- `tabletype ::= reftype limits`, `reftype = 0x70`, `limits ::= 0x00 min | 0x01 min max`
(a table with a maximum is outside the abstract syntax). -/
def decTable : List Nat → Option (Nat × List Nat)
  | et :: flag :: r => if et = 0x70 ∧ flag = 0x00 then decU r else none
  | _ => none

/-- Bytes to a string; `none` if they are not valid UTF-8 (names must be valid UTF-8). -/
def bytesToString (bs : List Nat) : Option String :=
  if bs.all (· < 256) then String.fromUTF8? (ByteArray.mk (bs.map UInt8.ofNat).toArray) else none

/-- `export ::= name exportdesc`, `name = vec(byte)`, `exportdesc ::= 0x00 funcidx | …`. -/
def decExport (bs : List Nat) : Option (WExport × List Nat) :=
  match unframe bs with
  | none => none
  | some (nameBytes, r) =>
    match bytesToString nameBytes with
    | none => none
    | some name =>
      match r with
      | [] => none
      | kind :: r1 =>
        if kind = 0x00 then
          match decU r1 with
          | none => none
          | some (i, r2) => some (⟨name, i⟩, r2)
        else none

/-- `locals ::= n:u32 t:valtype`. -/
def decLocal (bs : List Nat) : Option ((Nat × VT) × List Nat) :=
  match decU bs with
  | none => none
  | some (n, r) =>
    match decVT r with
    | none => none
    | some (t, r') => some ((n, t), r')

/-- Numeric opcodes of the subset, from the instruction table of the specification. -/
def NumOp.ofByte (b : Nat) : Option NumOp :=
  if b = 0x46 then some .i32Eq else if b = 0x48 then some .i32LtS
  else if b = 0x49 then some .i32LtU else if b = 0x4A then some .i32GtS
  else if b = 0x4B then some .i32GtU
  else if b = 0x5B then some .f32Eq else if b = 0x5D then some .f32Lt
  else if b = 0x5E then some .f32Gt
  else if b = 0x6A then some .i32Add else if b = 0x6B then some .i32Sub
  else if b = 0x6C then some .i32Mul else if b = 0x6D then some .i32DivS
  else if b = 0x6E then some .i32DivU
  else if b = 0x92 then some .f32Add else if b = 0x93 then some .f32Sub
  else if b = 0x94 then some .f32Mul else if b = 0x95 then some .f32Div
  else none

/-- One instruction of the subset.  `0x20 x` local.get, `0x21 x` local.set, `0x41 n:i32`,
`0x43 z:f32` (four bytes, little endian), `0x0F` return, numeric opcodes. -/
def decInstr : List Nat → Option (WInstr × List Nat)
  | [] => none
  | op :: r =>
    if op = 0x20 then
      match decU r with
      | none => none
      | some (i, r') => some (.localGet i, r')
    else if op = 0x21 then
      match decU r with
      | none => none
      | some (i, r') => some (.localSet i, r')
    else if op = 0x41 then
      match decS r with
      | none => none
      | some (v, r') => if -2 ^ 31 ≤ v ∧ v < 2 ^ 31 then some (.i32Const v, r') else none
    else if op = 0x43 then
      match r with
      | b0 :: b1 :: b2 :: b3 :: r' =>
        if b0 < 256 ∧ b1 < 256 ∧ b2 < 256 ∧ b3 < 256 then
          some (.f32Const (b0 + 256 * b1 + 65536 * b2 + 16777216 * b3), r')
        else none
      | _ => none
    else if op = 0x0F then some (.ret, r)
    else
      match NumOp.ofByte op with
      | none => none
      | some o => some (.num o, r)

/-- `expr ::= instr* 0x0B` where the `0x0B` must be the last byte of the input.
Every instruction consumes at least one byte, so fuel = number of bytes suffices. -/
def decExpr : Nat → List Nat → Option (List WInstr)
  | 0, _ => none
  | fuel + 1, bs =>
    if bs = [0x0B] then some []
    else
      match decInstr bs with
      | none => none
      | some (i, r) =>
        match decExpr fuel r with
        | none => none
        | some is => some (i :: is)

/-- `func ::= vec(locals) expr`, consuming the whole body. -/
def decCodeBody (body : List Nat) : Option WCode :=
  match decVec decLocal body with
  | none => none
  | some (locals, r) =>
    match decExpr r.length r with
    | none => none
    | some is => some ⟨locals, is⟩

/-- `code ::= size:u32 func` with `size` = byte length of `func`. -/
def decCode (bs : List Nat) : Option (WCode × List Nat) :=
  match unframe bs with
  | none => none
  | some (body, rest) =>
    match decCodeBody body with
    | none => none
    | some c => some (c, rest)

/-- A section with id `id` holding a vector, if it is the next section; otherwise it is absent
(= empty vector).  The payload must be consumed exactly. -/
def decSectionOpt {α : Type} (id : Nat) (p : List Nat → Option (α × List Nat)) (bs : List Nat) :
    Option (List α × List Nat) :=
  match bs with
  | [] => some ([], [])
  | b :: _ =>
    if b = id then
      match unsection bs with
      | none => none
      | some (_, payload, rest) =>
        match decVec p payload with
        | some (xs, []) => some (xs, rest)
        | _ => none
    else some ([], bs)

/-- `module ::= magic version typesec? funcsec? tablesec? exportsec? codesec?` in this order
(so section ids are strictly ascending and no section occurs twice); any other section id
(including custom sections, id 0) leaves unread input and is rejected. -/
def decModule (bs : List Nat) : Option WModule :=
  if bs.take 8 = [0x00, 0x61, 0x73, 0x6D, 0x01, 0x00, 0x00, 0x00] then
    match decSectionOpt 1 decFuncType (bs.drop 8) with
    | none => none
    | some (types, r1) =>
      match decSectionOpt 3 decIdx r1 with
      | none => none
      | some (funcs, r2) =>
        match decSectionOpt 4 decTable r2 with
        | none => none
        | some (tables, r3) =>
          match decSectionOpt 7 decExport r3 with
          | none => none
          | some (exports, r4) =>
            match decSectionOpt 10 decCode r4 with
            | none => none
            | some (codes, r5) =>
              if r5 = [] then some ⟨types, funcs, tables, exports, codes⟩ else none
  else none

/-! ## 4. Validation (WebAssembly 1.0, appendix "Validation Algorithm", for the subset) -/

/-- The locals of a function: parameters, then the declared groups expanded. -/
def expandLocals (gs : List (Nat × VT)) : List VT := gs.flatMap fun g => List.replicate g.1 g.2

/-- Operand stack (top first) and the `unreachable` flag of the single control frame. -/
structure TcSt where
  stack : List VT
  unr : Bool
  deriving DecidableEq, Repr, Inhabited

/-- `pop_val(expect)`: on an empty stack this succeeds iff the frame is unreachable. -/
def TcSt.pop (s : TcSt) (t : VT) : Option TcSt :=
  match s.stack with
  | x :: r => if x = t then some { s with stack := r } else none
  | [] => if s.unr then some s else none

def TcSt.push (s : TcSt) (t : VT) : TcSt := { s with stack := t :: s.stack }

/-- `pop_vals`: pops the given types in list order (callers pass the reversed result list). -/
def TcSt.popN (s : TcSt) : List VT → Option TcSt
  | [] => some s
  | t :: ts =>
    match s.pop t with
    | none => none
    | some s' => s'.popN ts

def checkInstr (locals results : List VT) (s : TcSt) : WInstr → Option TcSt
  | .localGet i =>
    match locals[i]? with
    | some t => some (s.push t)
    | none => none
  | .localSet i =>
    match locals[i]? with
    | some t => s.pop t
    | none => none
  | .i32Const _ => some (s.push .i32)
  | .f32Const _ => some (s.push .f32)
  | .num op =>
    match s.pop op.sig.1 with
    | none => none
    | some s1 =>
      match s1.pop op.sig.1 with
      | none => none
      | some s2 => some (s2.push op.sig.2)
  | .ret =>
    -- pop_vals(results); unreachable(): the stack is reset and becomes polymorphic
    match s.popN results.reverse with
    | none => none
    | some _ => some { stack := [], unr := true }

/-- The instruction sequence, then `end`: `pop_vals(results)` and the stack must be empty. -/
def checkBody (locals results : List VT) : TcSt → List WInstr → Bool
  | s, [] =>
    match s.popN results.reverse with
    | none => false
    | some s' => s'.stack.isEmpty
  | s, i :: is =>
    match checkInstr locals results s i with
    | none => false
    | some s' => checkBody locals results s' is

def checkCode (ft : FuncType) (c : WCode) : Bool :=
  checkBody (ft.params ++ expandLocals c.locals) ft.results ⟨[], false⟩ c.body

/-- Function `i` has type `types[funcs[i]]` and body `codes[i]`; both vectors have the same length. -/
def checkFuncs (types : List FuncType) : List Nat → List WCode → Bool
  | [], [] => true
  | ti :: tis, c :: cs =>
    (match types[ti]? with
      | some ft => checkCode ft c
      | none => false) && checkFuncs types tis cs
  | _, _ => false

def distinct : List String → Bool
  | [] => true
  | x :: xs => !xs.contains x && distinct xs

/-- Module validation: function types may have at most one result (WebAssembly 1.0); every
function's type index exists and its body type-checks; export indices exist and export names are
pairwise distinct; at most one table, whose minimum fits `u32`. -/
def validModule (m : WModule) : Bool :=
  m.types.all (fun ft => decide (ft.results.length ≤ 1)) &&
  checkFuncs m.types m.funcs m.codes &&
  m.exports.all (fun e => decide (e.index < m.funcs.length)) &&
  distinct (m.exports.map (·.name)) &&
  decide (m.tables.length ≤ 1) &&
  m.tables.all (fun n => decide (n < 2 ^ 32))

/-! ## 5. What can be encoded canonically -/

def instrWF : WInstr → Bool
  | .i32Const v => decide (-2 ^ 31 ≤ v ∧ v < 2 ^ 31)
  | .f32Const b => decide (b < 2 ^ 32)
  | _ => true

def wellFormed (m : WModule) : Bool := m.codes.all fun c => c.body.all instrWF

/-- The only restrictions: an `i32.const` immediate is a signed 32-bit number and an `f32.const`
immediate is a 32-bit pattern.  (Counts, indices, sizes and names are unrestricted.) -/
def WellFormed (m : WModule) : Prop := wellFormed m = true

instance (m : WModule) : Decidable (WellFormed m) := by unfold WellFormed; infer_instance

/-! ## 6. The generator (mirror of `GenerateWasm.py`) -/

/-- `_ConvertValueType`: only scalars have a value type. -/
def convertVT : ITy → Except String VT
  | .sc .int => .ok .i32
  | .sc .uint => .ok .i32
  | .sc .float => .ok .f32
  | _ => .error "Unsupported type for a WebAssembly value"

def convertVTs : List ITy → Except String (List VT)
  | [] => .ok []
  | t :: ts =>
    match convertVT t with
    | .error e => .error e
    | .ok v =>
      match convertVTs ts with
      | .error e => .error e
      | .ok vs => .ok (v :: vs)

/-- `_ConvertFunctionType`: a `void` return type gives no results. -/
def convertFuncType (f : Func) : Except String FuncType :=
  match convertVTs (f.params.map (·.2)) with
  | .error e => .error e
  | .ok ps =>
    match f.ret with
    | .void => .ok ⟨ps, []⟩
    | t =>
      match convertVT t with
      | .error e => .error e
      | .ok r => .ok ⟨ps, [r]⟩

/-- An entry of `valueReferenceTypes`: the reference (`none` for an instruction that has no
reference in the IR model, i.e. a store) and the instruction's IR type. -/
abbrev Entry := Option Nat × ITy

def nonVoid (r : Option Nat) (ty : ITy) : Option Entry := if ty.isVoid then none else some (r, ty)

/-- First loop of `v_Function` for one instruction: `Type.IsVoid()` and `RETURN` are skipped, every
other instruction is recorded with its type.

Modelling choices (the IR model does not carry a type for store-like instructions):
* a store to an argument has, in the Python, the declared type of the variable; the model looks it
  up in the parameter list (error if the index is out of range);
* stores to non-arguments, `storeArr` and `storeMem` have a type in the Python that the model does
  not know; `v_VariableAccessInstruction`/`v_Instruction` raise for them anyway, so the model
  reports the error here. -/
def instrEntry (params : List (String × ITy)) : Instr → Except String (Option Entry)
  | .label _ => .ok none
  | .load dst ty _ _ => .ok (nonVoid (some dst) ty)
  | .store .arg (.index i) _ =>
    match params[i]? with
    | some p => .ok (nonVoid none p.2)
    | none => .error "store to an argument that does not exist"
  | .store _ _ _ => .error "Unsupported: access to a variable that is not a function argument"
  | .newVar dst ty _ => .ok (nonVoid (some dst) ty)
  | .bin dst _ ty _ _ => .ok (nonVoid (some dst) ty)
  | .cast dst ty _ => .ok (nonVoid (some dst) ty)
  | .br _ => .ok none
  | .brc _ _ _ => .ok none
  | .ret _ => .ok none
  | .call dst ty _ _ => .ok (nonVoid (some dst) ty)
  | .loadArr dst ty _ _ => .ok (nonVoid (some dst) ty)
  | .storeArr _ _ _ => .error "Unsupported instruction for WebAssembly"
  | .loadMem dst ty _ _ => .ok (nonVoid (some dst) ty)
  | .storeMem _ _ _ => .error "Unsupported instruction for WebAssembly"
  | .vecGet dst ty _ _ => .ok (nonVoid (some dst) ty)
  | .vecSet dst ty _ _ _ => .ok (nonVoid (some dst) ty)
  | .matGet dst ty _ _ => .ok (nonVoid (some dst) ty)
  | .matSet dst ty _ _ _ => .ok (nonVoid (some dst) ty)
  | .shuffle dst ty _ _ _ => .ok (nonVoid (some dst) ty)
  | .construct dst ty _ => .ok (nonVoid (some dst) ty)

def hasRef (acc : List Entry) (r : Nat) : Bool := acc.any fun e => e.1 == some r

/-- `if ref not in valueReferenceTypes: valueReferenceTypes[ref] = instruction.Type`
(a Python dict keeps insertion order). -/
def addEntry (acc : List Entry) (e : Entry) : List Entry :=
  match e.1 with
  | some r => if hasRef acc r then acc else acc ++ [e]
  | none => acc ++ [e]

def collectEntries (params : List (String × ITy)) : List Instr → List Entry → Except String (List Entry)
  | [], acc => .ok acc
  | i :: is, acc =>
    match instrEntry params i with
    | .error e => .error e
    | .ok none => collectEntries params is acc
    | .ok (some e) => collectEntries params is (addEntry acc e)

/-- Position (= value returned by `Code.AddLocal`) and IR type of the first entry for `r`. -/
def lookupRef : List Entry → Nat → Option (Nat × ITy)
  | [], _ => none
  | (some r', t) :: es, r =>
    if r' = r then some (0, t)
    else match lookupRef es r with
      | some (i, t') => some (i + 1, t')
      | none => none
  | (none, _) :: es, r =>
    match lookupRef es r with
    | some (i, t') => some (i + 1, t')
    | none => none

/-- The repaired `Code.AddLocal` on the list of groups kept in reverse (last group first):
a local of the type of the last group increments that group's count. -/
def addLocalRev (acc : List (Nat × VT)) (t : VT) : List (Nat × VT) :=
  match acc with
  | (n, t') :: r => if t' = t then (n + 1, t') :: r else (1, t) :: acc
  | [] => [(1, t)]

/-- All `AddLocal` calls of a function, in order. -/
def groupLocals (ts : List VT) : List (Nat × VT) := (ts.foldl addLocalRev []).reverse

/-- `struct.pack("<f", v)` of a Python float: the IEEE single nearest to the double, as a 32-bit
pattern; a finite double that rounds to an infinity raises `OverflowError`.
(Evaluated with Lean's `Float32`; the bit pattern chosen for a NaN is the platform's.) -/
def packF32 (f : Float) : Option Nat :=
  let g := f.toFloat32
  if g.isInf && !f.isInf then none else some g.toBits.toNat

/-- `_GenerateConstant` / `__PushValueOntoStack`.  `fb` is the float packer (`packF32`); it is a
parameter because `Float` operations are opaque to the Lean kernel.
The Python raises the float `OverflowError` only while writing the module; the model raises it
here (in both cases no binary is produced). -/
def pushOpd (fb : Float → Option Nat) (argc : Nat) (ents : List Entry) : Opd → Except String WInstr
  | .cInt v =>
    if -2 ^ 31 ≤ v ∧ v < 2 ^ 31 then .ok (.i32Const v)
    else .error "Integer constant does not fit into 32 bit"
  | .cFlt f =>
    match fb f with
    | some b => .ok (.f32Const b)
    | none => .error "float too large to pack with f format"
  | .ref r =>
    match lookupRef ents r with
    | some (i, _) => .ok (.localGet (argc + i))
    | none => .error "KeyError: reference without a local"

/-- `operationType` and `unsigned` of `v_BinaryInstruction`. -/
inductive OT | i32s | i32u | f32
  deriving DecidableEq, Repr, Inhabited

def otOfITy : ITy → Except String OT
  | .sc .int => .ok .i32s
  | .sc .uint => .ok .i32u
  | .sc .float => .ok .f32
  | _ => .error "Unsupported type for binary operation"

/-- `Value.Type` of an operand.  An inlined integer constant is taken to be a signed `int`
(the IR model does not record the declared signedness of integer constants; this only matters for
the choice between `lt_s`/`lt_u` and `gt_s`/`gt_u` when the first operand of a comparison is a
constant). -/
def opdITy (ents : List Entry) : Opd → Except String ITy
  | .cInt _ => .ok (.sc .int)
  | .cFlt _ => .ok (.sc .float)
  | .ref r =>
    match lookupRef ents r with
    | some (_, t) => .ok t
    | none => .error "KeyError: reference without a local"

/-- `opCodeMap` plus the `_s`/`_u` suffix rule; operations without a WebAssembly opcode in the
writer's table are a `KeyError`. -/
def numOpFor (op : SOp) (ot : OT) : Except String NumOp :=
  match op with
  | .add => .ok (match ot with | .f32 => .f32Add | _ => .i32Add)
  | .sub => .ok (match ot with | .f32 => .f32Sub | _ => .i32Sub)
  | .mul => .ok (match ot with | .f32 => .f32Mul | _ => .i32Mul)
  | .div => .ok (match ot with | .f32 => .f32Div | .i32s => .i32DivS | .i32u => .i32DivU)
  | .eq => .ok (match ot with | .f32 => .f32Eq | _ => .i32Eq)
  | .lt => .ok (match ot with | .f32 => .f32Lt | .i32s => .i32LtS | .i32u => .i32LtU)
  | .gt => .ok (match ot with | .f32 => .f32Gt | .i32s => .i32GtS | .i32u => .i32GtU)
  | _ => .error "KeyError: no WebAssembly opcode for this operation"

def isSelCmp : SOp → Bool
  | .eq | .lt | .gt => true
  | _ => false

/-- The instruction `v_BinaryInstruction` selects: the operand type is the instruction type, except
for `CMP_EQ`/`CMP_LT`/`CMP_GT` where it is the type of the first operand. -/
def selectOp (ents : List Entry) (op : SOp) (ty : ITy) (a : Opd) : Except String NumOp :=
  match (if isSelCmp op then opdITy ents a else .ok ty) with
  | .error e => .error e
  | .ok oty =>
    match otOfITy oty with
    | .error e => .error e
    | .ok ot => numOpFor op ot

/-- Second loop of `v_Function`: the visitor methods. -/
def transInstr (fb : Float → Option Nat) (argc : Nat) (ents : List Entry) :
    Instr → Except String (List WInstr)
  | .label _ => .ok []
  | .load dst _ .arg (.index i) =>
    match lookupRef ents dst with
    | some (k, _) => .ok [.localGet i, .localSet (argc + k)]
    | none => .error "KeyError: reference without a local"
  | .store .arg (.index i) src =>
    match pushOpd fb argc ents src with
    | .error e => .error e
    | .ok p => .ok [p, .localSet i]
  | .bin dst (.s op) ty a b =>
    match selectOp ents op ty a with
    | .error e => .error e
    | .ok nop =>
      match pushOpd fb argc ents a with
      | .error e => .error e
      | .ok pa =>
        match pushOpd fb argc ents b with
        | .error e => .error e
        | .ok pb =>
          match lookupRef ents dst with
          | some (k, _) => .ok [pa, pb, .num nop, .localSet (argc + k)]
          | none => .error "KeyError: reference without a local"
  | .ret none => .ok [.ret]
  | .ret (some v) =>
    match pushOpd fb argc ents v with
    | .error e => .error e
    | .ok p => .ok [p, .ret]
  | _ => .error "Unsupported instruction for WebAssembly"

def transCode (fb : Float → Option Nat) (argc : Nat) (ents : List Entry) :
    List Instr → Except String (List WInstr)
  | [] => .ok []
  | i :: is =>
    match transInstr fb argc ents i with
    | .error e => .error e
    | .ok ws =>
      match transCode fb argc ents is with
      | .error e => .error e
      | .ok rest => .ok (ws ++ rest)

/-- `_ConvertValueType(ri.Value.Type)` of a returned operand. -/
def retVT (ents : List Entry) : Opd → Option VT
  | .cInt _ => some .i32
  | .cFlt _ => some .f32
  | .ref r =>
    match lookupRef ents r with
    | some (_, t) => (match convertVT t with | .ok v => some v | .error _ => none)
    | none => none

/-- `v_ReturnInstruction` (repaired): the returned value must be what the signature announces. -/
def retInstrOK (results : List VT) (ents : List Entry) : Instr → Bool
  | .ret none => results.isEmpty
  | .ret (some v) =>
    match retVT ents v with
    | some t => results == [t]
    | none => false
  | _ => true

def isReturn : Instr → Bool
  | .ret _ => true
  | _ => false

/-- The two refusals of the repaired `v_Function` / `v_ReturnInstruction`: a return that does not match the result
type, and a function with a result that contains no return at all. -/
def retOK (results : List VT) (ents : List Entry) (code : List Instr) : Bool :=
  code.all (retInstrOK results ents) && (results.isEmpty || code.any isReturn)

/-- `v_Function`: signature, locals, body. -/
def genFunc (fb : Float → Option Nat) (f : Func) : Except String (FuncType × WCode) :=
  match convertFuncType f with
  | .error e => .error e
  | .ok ft =>
    match collectEntries f.params f.code [] with
    | .error e => .error e
    | .ok ents =>
      match convertVTs (ents.map (·.2)) with
      | .error e => .error e
      | .ok vts =>
        match transCode fb ft.params.length ents f.code with
        | .error e => .error e
        | .ok body =>
          if retOK ft.results ents f.code then .ok (ft, ⟨groupLocals vts, body⟩)
          else .error "Unsupported: a return does not match the result type of the function"

def genFuncs (fb : Float → Option Nat) : List Func → Except String (List (FuncType × WCode))
  | [] => .ok []
  | f :: fs =>
    match genFunc fb f with
    | .error e => .error e
    | .ok x =>
      match genFuncs fb fs with
      | .error e => .error e
      | .ok xs => .ok (x :: xs)

/-- `OnEnterFunction`: one export per function, index = running function count. -/
def mkExports : Nat → List Func → List WExport
  | _, [] => []
  | i, f :: fs => ⟨f.name, i⟩ :: mkExports (i + 1) fs

/-- The pass on a whole program: function `i` gets type `i`, function-section entry `i`, export
`i` and code `i`; `Finalize` adds one table of size 0. -/
def genWasmWith (fb : Float → Option Nat) (P : List Func) : Except String WModule :=
  match genFuncs fb P with
  | .error e => .error e
  | .ok fcs =>
    .ok { types := fcs.map (·.1), funcs := List.range fcs.length, tables := [0],
          exports := mkExports 0 P, codes := fcs.map (·.2) }

def genWasm (P : List Func) : Except String WModule := genWasmWith packF32 P

/-! ## 7. Typing of the IR, as far as validity of the generated code needs it -/

def vtOfITy : ITy → Option VT
  | .sc .int => some .i32
  | .sc .uint => some .i32
  | .sc .float => some .f32
  | _ => none

/-- Value type of the local that holds reference `r`. -/
def refVT (ents : List Entry) (r : Nat) : Option VT :=
  match lookupRef ents r with
  | some (_, t) => vtOfITy t
  | none => none

def opdVT (ents : List Entry) : Opd → Option VT
  | .cInt _ => some .i32
  | .cFlt _ => some .f32
  | .ref r => refVT ents r

def paramVT (params : List (String × ITy)) (i : Nat) : Option VT :=
  match params[i]? with
  | some p => vtOfITy p.2
  | none => none

/-- Operands have the types the instruction expects (only instructions the generator translates
are constrained). -/
def typedInstr (params : List (String × ITy)) (results : List VT) (ents : List Entry) : Instr → Bool
  | .load dst _ .arg (.index i) => refVT ents dst == paramVT params i
  | .store .arg (.index i) src => opdVT ents src == paramVT params i
  | .bin dst (.s op) ty a b =>
    match selectOp ents op ty a with
    | .error _ => true
    | .ok nop =>
      opdVT ents a == some nop.sig.1 && opdVT ents b == some nop.sig.1 &&
        refVT ents dst == some nop.sig.2
  | .ret none => results.isEmpty
  | .ret (some v) =>
    results.isEmpty ||
      (match opdVT ents v with
        | some t => results == [t]
        | none => false)
  | _ => true

def isRet : Instr → Bool
  | .ret _ => true
  | _ => false

/-- A function is typed if every translated instruction is, and a function with a result
contains a `return`. -/
def typedFunc (f : Func) : Bool :=
  match convertFuncType f, collectEntries f.params f.code [] with
  | .ok ft, .ok ents =>
    f.code.all (typedInstr f.params ft.results ents) && (ft.results.isEmpty || f.code.any isRet)
  | _, _ => true

def irTyped (P : List Func) : Bool := distinct (P.map (·.name)) && P.all typedFunc

/-- Function names are pairwise distinct (a Python dict) and every function is typed. -/
def IRTyped (P : List Func) : Prop := irTyped P = true

instance (P : List Func) : Decidable (IRTyped P) := by unfold IRTyped; infer_instance

end Nsl.Wasm
