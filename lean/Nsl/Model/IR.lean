import Nsl.Model.Val
/-!
# Linear IR (mirror of `nsl/LinearIR.py`)

A function body is kept *flattened*: one instruction list in which every basic block is
introduced by a `label` marker.  This is exactly how the Python VM executes a function
(`__Execute` concatenates the blocks and records `blockOffsets[bb.Reference]`); a `label` is a
no-op and a branch jumps to the position of its label.

Constants are inlined in operands (`Opd.cInt`/`Opd.cFlt`) instead of being registered values of
the function: the VM preloads every constant into `localScope` before the first instruction, so
reading a constant never depends on control flow.
-/
namespace Nsl

/-- Component (scalar) types of the IR: `IntegerType(unsigned)` / `FloatType`. -/
inductive Sc | float | int | uint
  deriving DecidableEq, Repr, Inhabited

/-- IR types (mirror of the `LinearIR.Type` hierarchy). -/
inductive ITy
  | sc (s : Sc)
  | vec (s : Sc) (n : Nat)
  | mat (s : Sc) (rows cols : Nat)
  | arr (elem : ITy) (dims : List Nat)
  | struct (name : String) (fields : List (String × ITy))
  | void
  deriving Repr, Inhabited

namespace ITy
def isAggregate : ITy → Bool
  | .arr _ _ | .struct _ _ => true
  | _ => false
def isScalar : ITy → Bool
  | .sc _ => true
  | _ => false
def isVector : ITy → Bool
  | .vec _ _ => true
  | _ => false
def isMatrix : ITy → Bool
  | .mat _ _ _ => true
  | _ => false
def isVoid : ITy → Bool
  | .void => true
  | _ => false
end ITy

/-- An operand: a value reference or an inlined constant. -/
inductive Opd
  | ref (n : Nat)
  | cInt (i : Int)
  | cFlt (f : Float)
  deriving Inhabited

/-- How a variable is addressed after `RewriteFunctionArgAccess`: arguments by position. -/
inductive VarKey
  | name (s : String)
  | index (i : Nat)
  deriving DecidableEq, Repr, Inhabited

/-- Opcodes of `BinaryInstruction` (the `(opCode.value >> 16) == 1` group of the VM). -/
inductive BinOp
  | s (o : SOp)            -- scalar ADD … CMP_EQ, LG_AND, LG_OR
  | v (o : SOp)            -- VECTOR_ADD/SUB/MUL/DIV, VECTOR_CMP_*
  | vMulS | vDivS          -- VECTOR_MUL_SCALAR, VECTOR_DIV_SCALAR
  | mMulM                  -- MATRIX_MUL_MATRIX
  | mMulV                  -- MATRIX_MUL_VECTOR (added by the repair of matrix × vector)
  | invalid                -- no opcode exists for this operator/type combination (Python: ICE or KeyError while lowering)
  deriving DecidableEq, Repr, Inhabited

inductive Instr
  | label (l : Nat)
  | load (dst : Nat) (ty : ITy) (sc : Scope) (var : VarKey)
  | store (sc : Scope) (var : VarKey) (src : Opd)
  | newVar (dst : Nat) (ty : ITy) (name : String)
  | bin (dst : Nat) (op : BinOp) (ty : ITy) (a b : Opd)
  | cast (dst : Nat) (ty : ITy) (a : Opd)
  | br (target : Nat)
  | brc (p : Opd) (t f : Nat)
  | ret (v : Option Opd)
  | call (dst : Nat) (ty : ITy) (fn : String) (args : List Opd)
  | loadArr (dst : Nat) (ty : ITy) (arr idx : Opd)
  | storeArr (arr idx src : Opd)
  | loadMem (dst : Nat) (ty : ITy) (obj : Opd) (field : String)
  | storeMem (obj : Opd) (field : String) (src : Opd)
  | vecGet (dst : Nat) (ty : ITy) (v idx : Opd)
  | vecSet (dst : Nat) (ty : ITy) (v idx src : Opd)
  | matGet (dst : Nat) (ty : ITy) (m idx : Opd)
  | matSet (dst : Nat) (ty : ITy) (m idx src : Opd)
  | shuffle (dst : Nat) (ty : ITy) (a b : Opd) (idx : List Nat)
  | construct (dst : Nat) (ty : ITy) (vals : List Opd)
  deriving Inhabited

structure Func where
  name : String
  params : List (String × ITy)
  ret : ITy
  code : List Instr
  deriving Inhabited

structure Program where
  funcs : List Func
  globals : List (String × ITy)
  deriving Inhabited

namespace Program
def find (p : Program) (name : String) : Option Func :=
  p.funcs.find? (fun f => f.name == name)
end Program

/-- Position of the marker `label l` in a code list (`blockOffsets`). -/
def labelPos (code : List Instr) (l : Nat) : Option Nat :=
  let rec go : List Instr → Nat → Option Nat
    | [], _ => none
    | .label l' :: rest, i => if l' = l then some i else go rest (i + 1)
    | _ :: rest, i => go rest (i + 1)
  go code 0

end Nsl
