import Nsl.Model.IR
/-!
# Typed core language

What the lowering pass consumes: the AST after `RewriteAssignEqual`, `ComputeTypes`,
`AddImplicitCasts` — every expression carries its (IR-adapted) type, variables are resolved to a
scope, calls name the mangled callee, implicit casts are explicit nodes.

Statement lists are nested `seq`; `ite1`/`ite2` are `if` without/with `else`.
-/
namespace Nsl
namespace Core

/-- The thirteen binary source operators. -/
inductive BOp
  | add | sub | mul | div | mod | lt | le | gt | ge | eq | ne | land | lor
  deriving DecidableEq, Repr, Inhabited

def BOp.toSOp : BOp → SOp
  | .add => .add | .sub => .sub | .mul => .mul | .div => .div | .mod => .mod
  | .lt => .lt | .le => .le | .gt => .gt | .ge => .ge | .eq => .eq | .ne => .ne
  | .land => .lgAnd | .lor => .lgOr

inductive IdxKind | arr | vec | mat
  deriving DecidableEq, Repr, Inhabited

mutual
  inductive Expr
    | litI (i : Int)
    | litF (f : Float)
    | var (sc : Scope) (key : VarKey) (ty : ITy)
    | bin (op : BOp) (ty : ITy) (l r : Expr)
    | cast (ty : ITy) (e : Expr)
    | assign (lhs rhs : Expr)
    | affix (post inc : Bool) (x : Expr)
    | call (fn : String) (ty : ITy) (args : Args)
    | index (k : IdxKind) (ty : ITy) (base idx : Expr)
    | member (ty : ITy) (base : Expr) (field : String)
    | swizzle (ty : ITy) (base : Expr) (idxs : List Nat)
    | construct (ty : ITy) (args : Args)
  inductive Args
    | nil
    | cons (e : Expr) (rest : Args)
end

instance : Inhabited Expr := ⟨.litI 0⟩

inductive Stmt
  | skip
  | decl (name : String) (ty : ITy) (init : Option Expr)
  | expr (e : Expr)
  | seq (a b : Stmt)
  | ite1 (c : Expr) (t : Stmt)
  | ite2 (c : Expr) (t e : Stmt)
  | whileL (c : Expr) (body : Stmt)
  | doL (body : Stmt) (c : Expr)
  | forL (init : Stmt) (c : Option Expr) (next : Option Expr) (body : Stmt)
  | brk
  | cont
  | ret (e : Option Expr)
  deriving Inhabited

structure FnDef where
  name : String
  params : List (String × ITy)
  ret : ITy
  body : Stmt
  deriving Inhabited

structure Module where
  globals : List (String × ITy)
  fns : List FnDef
  deriving Inhabited

/-- Static type of an expression (as annotated). -/
def Expr.ty : Expr → ITy
  | .litI _ => .sc .int
  | .litF _ => .sc .float
  | .var _ _ t => t
  | .bin _ t _ _ => t
  | .cast t _ => t
  | .assign l _ => Expr.ty l
  | .affix _ _ x => Expr.ty x
  | .call _ t _ => t
  | .index _ t _ _ => t
  | .member t _ _ => t
  | .swizzle t _ _ => t
  | .construct t _ => t

end Core
end Nsl
