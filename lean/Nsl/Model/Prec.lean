/-
  Operator-precedence parsing of binary-operator chains (property C08).

  A chain `x0 o1 x1 o2 x2 …` is represented as a first operand `a : α` and a list of
  `(operator, operand)` pairs.  `parse` is the explicit shift/reduce loop that a yacc/PLY
  LALR(1) parser performs for productions `expr : expr OP expr`, each carrying the precedence
  level of `OP`, when every level is declared `left`:

  with `expr o_k expr` on top of the stack and lookahead operator `o` it REDUCES iff
  `lvl o_k ≥ lvl o` (higher level, or equal level and `left`), otherwise it SHIFTS;
  at end of input everything is reduced.

  The level table `lvl : Op → Nat` is a parameter (bigger number = binds tighter).

  Executable definitions only; no imports.
-/

namespace Nsl.Prec

/-- Binary expression trees over operators `Op` and operands `α`. -/
inductive Tree (Op : Type) (α : Type) where
  | leaf (a : α)
  | node (op : Op) (l r : Tree Op α)
  deriving Repr, DecidableEq, Inhabited

variable {Op α : Type}

/-! ### The shift/reduce machine

The stack is a list of pending `expr o` pairs, top of the stack first: the entry `(l, p)` means
"`l p` has been shifted and waits for its right operand". -/

/-- Reduce while the operator on top of the stack has level `≥` the lookahead's level
(all levels are left-associative). Returns the remaining stack and the reduced expression. -/
def reduceWhile (lvl : Op → Nat) :
    List (Tree Op α × Op) → Tree Op α → Op → List (Tree Op α × Op) × Tree Op α
  | [], t, _ => ([], t)
  | (l, p) :: stk, t, o =>
    if lvl o ≤ lvl p then reduceWhile lvl stk (.node p l t) o
    else ((l, p) :: stk, t)

/-- End of input: reduce everything that is still on the stack. -/
def reduceAll : List (Tree Op α × Op) → Tree Op α → Tree Op α
  | [], t => t
  | (l, p) :: stk, t => reduceAll stk (.node p l t)

/-- The parser loop: `cur` is the expression on top of the stack, `rest` the remaining input. -/
def parseLoop (lvl : Op → Nat) :
    List (Tree Op α × Op) → Tree Op α → List (Op × α) → Tree Op α
  | stack, cur, [] => reduceAll stack cur
  | stack, cur, (o, a) :: rest =>
    parseLoop lvl (((reduceWhile lvl stack cur o).2, o) :: (reduceWhile lvl stack cur o).1)
      (.leaf a) rest

/-- Parse the chain `a o1 x1 o2 x2 …`. -/
def parse (lvl : Op → Nat) (a : α) (rest : List (Op × α)) : Tree Op α :=
  parseLoop lvl [] (.leaf a) rest

/-! ### Specification side -/

/-- In-order traversal: the first operand and the following `(operator, operand)` pairs. -/
def yield : Tree Op α → α × List (Op × α)
  | .leaf a => (a, [])
  | .node op l r => ((yield l).1, (yield l).2 ++ (op, (yield r).1) :: (yield r).2)

/-- The root operator of `t` (if `t` is not a leaf) has level `≥ n`. -/
def rootGe (lvl : Op → Nat) (n : Nat) : Tree Op α → Prop
  | .leaf _ => True
  | .node p _ _ => n ≤ lvl p

/-- The root operator of `t` (if `t` is not a leaf) has level `> n`. -/
def rootGt (lvl : Op → Nat) (n : Nat) : Tree Op α → Prop
  | .leaf _ => True
  | .node p _ _ => n < lvl p

/-- The grouping prescribed by the precedence levels with left associativity:
at every node the root operator of the left child (if it is a node) has level `≥` the node's
level and the root operator of the right child (if it is a node) has level `>` the node's. -/
def WellGrouped (lvl : Op → Nat) : Tree Op α → Prop
  | .leaf _ => True
  | .node op l r =>
    rootGe lvl (lvl op) l ∧ rootGt lvl (lvl op) r ∧ WellGrouped lvl l ∧ WellGrouped lvl r

def rootGeB (lvl : Op → Nat) (n : Nat) : Tree Op α → Bool
  | .leaf _ => true
  | .node p _ _ => decide (n ≤ lvl p)

def rootGtB (lvl : Op → Nat) (n : Nat) : Tree Op α → Bool
  | .leaf _ => true
  | .node p _ _ => decide (n < lvl p)

/-- Decidable version of `WellGrouped`. -/
def wellGroupedB (lvl : Op → Nat) : Tree Op α → Bool
  | .leaf _ => true
  | .node op l r =>
    rootGeB lvl (lvl op) l && rootGtB lvl (lvl op) r && wellGroupedB lvl l && wellGroupedB lvl r

/-! ### Parentheses

A chain whose operands are atoms or parenthesised sub-chains (i.e. a balanced token sequence). -/

mutual
  /-- An operand of a chain: an atom or a parenthesised chain `( … )`. -/
  inductive Operand (Op : Type) (α : Type) where
    | atom (a : α)
    | group (c : Chain Op α)
  /-- A non-empty chain `x0 o1 x1 o2 x2 …` of operands. -/
  inductive Chain (Op : Type) (α : Type) where
    | one (x : Operand Op α)
    | cons (x : Operand Op α) (o : Op) (c : Chain Op α)
end

/-- `c o d`: the chain `c`, then operator `o`, then the chain `d`. -/
def Chain.append : Chain Op α → Op → Chain Op α → Chain Op α
  | .one x, o, d => .cons x o d
  | .cons x p c, o, d => .cons x p (Chain.append c o d)

/-- The parenthesis-free chain `a o1 x1 o2 x2 …` of atoms. -/
def Chain.ofList : α → List (Op × α) → Chain Op α
  | a, [] => .one (.atom a)
  | a, (o, b) :: rest => .cons (.atom a) o (Chain.ofList b rest)

/-- Substitute the parsed sub-expressions for the operands. -/
def join : Tree Op (Tree Op α) → Tree Op α
  | .leaf t => t
  | .node op l r => .node op (join l) (join r)

mutual
  /-- Parse an operand: a parenthesised group is parsed on its own (the `(` on the LR stack hides
  everything below it) and then behaves like an atom of the enclosing chain. -/
  def parseOperand (lvl : Op → Nat) : Operand Op α → Tree Op α
    | .atom a => .leaf a
    | .group c =>
      join (parse lvl (chainOperands lvl c).1 (chainOperands lvl c).2)
  /-- Parse every operand of a chain. -/
  def chainOperands (lvl : Op → Nat) : Chain Op α → Tree Op α × List (Op × Tree Op α)
    | .one x => (parseOperand lvl x, [])
    | .cons x o c =>
      (parseOperand lvl x, (o, (chainOperands lvl c).1) :: (chainOperands lvl c).2)
end

/-- Parse a chain with parenthesised groups. -/
def parseFull (lvl : Op → Nat) (c : Chain Op α) : Tree Op α :=
  join (parse lvl (chainOperands lvl c).1 (chainOperands lvl c).2)

/-- Does `t`, printed bare as the left operand of an operator of level `n`, need parentheses?
(Exactly when leaving it bare would violate `WellGrouped`: root level `< n`.) -/
def needsParenL (lvl : Op → Nat) (n : Nat) : Tree Op α → Bool
  | .leaf _ => false
  | .node p _ _ => decide (lvl p < n)

/-- Same for the right operand: root level `≤ n`. -/
def needsParenR (lvl : Op → Nat) (n : Nat) : Tree Op α → Bool
  | .leaf _ => false
  | .node p _ _ => decide (lvl p ≤ n)

/-- Print an expression tree as a chain, inserting parentheses only where the default grouping
would otherwise differ from the tree. -/
def unparse (lvl : Op → Nat) : Tree Op α → Chain Op α
  | .leaf a => .one (.atom a)
  | .node op l r =>
    Chain.append
      (if needsParenL lvl (lvl op) l then .one (.group (unparse lvl l)) else unparse lvl l)
      op
      (if needsParenR lvl (lvl op) r then .one (.group (unparse lvl r)) else unparse lvl r)

end Nsl.Prec
