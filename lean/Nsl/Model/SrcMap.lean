/-
  Model of `SourceMapping` and `Location` from /repo/nsl/ast/__init__.py.
  Executable definitions only (core `Init`, no imports).

  Offsets are `Nat`.  Not modelled: the sentinel span `(-1, -1)` (`IsUnknown`, printed as
  `<unknown>`; `UpdateLocations` filters those out before calling `Merge`) and the
  mapping-less fallback `"[b,e)"` of `__str__`.
-/
namespace Nsl.SrcMap

/-- Python `source.split("\n")` on a list of characters: always at least one piece,
    `"a\n"` ↦ `["a", ""]`. -/
def splitLines : List Char → List (List Char)
  | [] => [[]]
  | c :: cs =>
    if c = '\n' then [] :: splitLines cs
    else match splitLines cs with
      | [] => [[c]]            -- unreachable: `splitLines` is never empty
      | l :: ls => (c :: l) :: ls

/-- The loop body of `SourceMapping.__init__`:
    `for line in lines: offsets.append(cur); cur += len(line) + 1`. -/
def lineOffsetsAux : Nat → List (List Char) → List Nat
  | _, [] => []
  | cur, l :: ls => cur :: lineOffsetsAux (cur + l.length + 1) ls

/-- `SourceMapping.__lineOffsets`. -/
def lineOffsets (s : List Char) : List Nat :=
  lineOffsetsAux 0 (splitLines s)

/-- `bisect.bisect_right(a, x)` for a sorted list, linear reference version:
    insertion point after all leading entries `≤ x`. -/
def bisectRight (a : List Nat) (x : Nat) : Nat :=
  (a.takeWhile (fun y => decide (y ≤ x))).length

/-- The loop of CPython's `bisect_right`:
    `while lo < hi: mid = (lo+hi)//2; if x < a[mid]: hi = mid else: lo = mid+1`. -/
def bisectLoop (a : List Nat) (x : Nat) : Nat → Nat → Nat → Nat
  | 0, lo, _ => lo
  | fuel + 1, lo, hi =>
    if lo < hi then
      let mid := (lo + hi) / 2
      if x < a.getD mid 0 then bisectLoop a x fuel lo mid
      else bisectLoop a x fuel (mid + 1) hi
    else lo

/-- `bisect.bisect_right(a, x)`, binary search exactly as in CPython
    (fuel `len(a)` is more than enough: the interval at least halves). -/
def bisectRightBin (a : List Nat) (x : Nat) : Nat :=
  bisectLoop a x a.length 0 a.length

/-- `SourceMapping.GetLineFromOffset` (0-based line). -/
def lineFromOffset (s : List Char) (o : Nat) : Nat :=
  bisectRight (lineOffsets s) o - 1

/-- `SourceMapping.GetLineStartOffset`. -/
def lineStart (s : List Char) (line : Nat) : Nat :=
  (lineOffsets s).getD line 0

/-- `Location.__span`, half-open `[b, e)`. -/
structure Span where
  b : Nat
  e : Nat
  deriving Repr, DecidableEq

/-- One iteration of the loop in `Location.Merge`. -/
def mergeStep (r a : Span) : Span :=
  ⟨min r.b a.b, max r.e a.e⟩

/-- `Location.Merge(first, *rest)`. -/
def merge (first : Span) (rest : List Span) : Span :=
  rest.foldl mergeStep first

/-- `Location.__str__` (with a source mapping), as data:
    `(startLine+1, begin-so+1, some (endLine+1) if multi-line else none, end-eo+1)`. -/
def format (s : List Char) (sp : Span) : Nat × Nat × Option Nat × Nat :=
  let startLine := lineFromOffset s sp.b
  let endLine := lineFromOffset s sp.e
  if startLine = endLine then
    let so := lineStart s startLine
    (startLine + 1, sp.b - so + 1, none, sp.e - so + 1)
  else
    let so := lineStart s startLine
    let eo := lineStart s endLine
    (startLine + 1, sp.b - so + 1, some (endLine + 1), sp.e - eo + 1)

/-- `Location.__str__`: `"3:5-9"` or `"3:5-4:2"`. -/
def formatStr (s : List Char) (sp : Span) : String :=
  match format s sp with
  | (l, c, none, c') => toString l ++ ":" ++ toString c ++ "-" ++ toString c'
  | (l, c, some l', c') =>
    toString l ++ ":" ++ toString c ++ "-" ++ toString l' ++ ":" ++ toString c'

end Nsl.SrcMap
