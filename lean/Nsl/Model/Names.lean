/-
  Model of `nsl/passes/ValidateVariableNames.py` (property C12: uniqueness of visible variable
  names, lexical binding).

  The Python visitor keeps a chain of `Context` objects (a dict each, with a parent pointer).
  `Add(name)` raises if `Get(name)` finds the name in the context or one of its ancestors.  New
  contexts are opened by: `Function` (child of the root; arguments are added to it; the body, a
  `CompoundStatement`, then opens a further child), `CompoundStatement`, `ForStatement`,
  `WhileStatement`, `DoStatement` and `IfStatement` (ONE context for the condition and both
  branches).  `Module._Traverse` visits types, then global variables, then functions, so all
  globals are in the root context before any function is visited.

  Only names matter, so a statement is reduced to its declaration / use / scoping skeleton.
  Expressions (conditions, initialisers, loop increments) cannot declare anything; their reads and
  writes are modelled by `use` statements placed in the scope where they are evaluated.  A failing
  `Add` is either recorded by the error handler (pass invalid) or propagates as an exception
  (globals, arguments); both mean rejection, so the mirror simply stops with `none` / `false`.
-/

namespace Nsl.Names

/-- Statement skeleton. -/
inductive S where
  | decl (x : String)            -- declaration statement
  | use (x : String)             -- any read or write of `x`
  | skip
  | seq (a b : S)
  | block (s : S)                -- `{ … }`
  | ite (t : S) (e : S)          -- branches are un-braced unless they are `block`
  | forL (init : Option String) (body : S)
  | whileL (body : S)
  | doL (body : S)
  deriving Repr, DecidableEq, Inhabited

structure Fn where
  params : List String
  body : S
  deriving Repr, DecidableEq, Inhabited

structure Mod where
  globals : List String
  fns : List Fn
  deriving Repr, DecidableEq, Inhabited

/-! ## Mirror of the Python visitor -/

/-- Context chain, innermost first.  Each context is the list of names of its dict. -/
abbrev Ctx := List (List String)

/-- `Context.Get(name) is not None`: search this context, then the ancestors. -/
def visible : Ctx → String → Bool
  | [], _ => false
  | c :: r, x => c.contains x || visible r x

/-- `Context.Add(name)`: fails if the name is visible, else records it in the innermost dict. -/
def add (ctx : Ctx) (x : String) : Option Ctx :=
  if visible ctx x then none
  else match ctx with
    | [] => some [[x]]
    | c :: r => some ((x :: c) :: r)

/-- The visitor.  The innermost context is threaded through a statement list; a node that opens
a context runs its children in `[] :: ctx` and hands the unchanged `ctx` back. `none` = an error
was raised (the pass is then invalid whatever happens later). -/
def check : Ctx → S → Option Ctx
  | ctx, .decl x => add ctx x
  | ctx, .use _ => some ctx
  | ctx, .skip => some ctx
  | ctx, .seq a b =>
    match check ctx a with
    | none => none
    | some ctx1 => check ctx1 b
  | ctx, .block s =>
    match check ([] :: ctx) s with
    | none => none
    | some _ => some ctx
  | ctx, .ite t e =>
    match check ([] :: ctx) t with
    | none => none
    | some ctx1 =>
      match check ctx1 e with
      | none => none
      | some _ => some ctx
  | ctx, .forL init body =>
    let hdr : Option Ctx :=
      match init with
      | none => some ([] :: ctx)
      | some i => add ([] :: ctx) i
    match hdr with
    | none => none
    | some ctx1 =>
      match check ctx1 body with
      | none => none
      | some _ => some ctx
  | ctx, .whileL body =>
    match check ([] :: ctx) body with
    | none => none
    | some _ => some ctx
  | ctx, .doL body =>
    match check ([] :: ctx) body with
    | none => none
    | some _ => some ctx

/-- Add a list of names one after the other (`for arg in func.GetArguments(): ctx.Add(…)`). -/
def addAll : Ctx → List String → Option Ctx
  | ctx, [] => some ctx
  | ctx, x :: xs =>
    match add ctx x with
    | none => none
    | some ctx1 => addAll ctx1 xs

/-- `v_Function`: child of the root context, the arguments, then the body (a compound statement). -/
def checkFn (root : Ctx) (f : Fn) : Bool :=
  match addAll ([] :: root) f.params with
  | none => false
  | some ctx => (check ctx (.block f.body)).isSome

/-- The whole pass: globals first, then every function in a fresh child of the root. -/
def checkMod (m : Mod) : Bool :=
  match addAll [[]] m.globals with
  | none => false
  | some root => m.fns.all (checkFn root)

/-- Statements that open a scope of their own. -/
def opensScope : S → Bool
  | .block _ | .ite _ _ | .forL _ _ | .whileL _ | .doL _ => true
  | _ => false

/-! ## Specification, written from the English text of the property -/

namespace Spec

/-- Names that a statement adds to the scope that ENCLOSES it: a declaration statement adds its
name, a statement list adds what its members add; blocks, loops and ifs keep their declarations
to themselves. -/
def adds : S → List String
  | .decl x => [x]
  | .seq a b => adds a ++ adds b
  | _ => []

/-- A position inside a statement: the path from the root. -/
inductive Dir where
  | seqL | seqR | blk | iteT | iteE | forB | whileB | doB
  deriving Repr, DecidableEq

/-- The sub-statement at a position. -/
def subAt : S → List Dir → Option S
  | s, [] => some s
  | .seq a _, .seqL :: p => subAt a p
  | .seq _ b, .seqR :: p => subAt b p
  | .block s, .blk :: p => subAt s p
  | .ite t _, .iteT :: p => subAt t p
  | .ite _ e, .iteE :: p => subAt e p
  | .forL _ b, .forB :: p => subAt b p
  | .whileL b, .whileB :: p => subAt b p
  | .doL b, .doB :: p => subAt b p
  | _, _ => none

/-- Names visible just before the statement at position `p` of `s`, when `V` is visible just before
`s`: `V`, plus the declarations that precede the position in the same or an enclosing block, for
header or if. -/
def visibleAt (V : List String) : S → List Dir → List String
  | _, [] => V
  | .seq a _, .seqL :: p => visibleAt V a p
  | .seq a b, .seqR :: p => visibleAt (V ++ adds a) b p      -- earlier statements of the same list
  | .block s, .blk :: p => visibleAt V s p
  | .ite t _, .iteT :: p => visibleAt V t p
  | .ite t e, .iteE :: p => visibleAt (V ++ adds t) e p      -- both branches share the if's scope
  | .forL i b, .forB :: p => visibleAt (V ++ i.toList) b p   -- header variable
  | .whileL b, .whileB :: p => visibleAt V b p
  | .doL b, .doB :: p => visibleAt V b p
  | _, _ => V

/-- The name declared BY the statement itself at its own position (a declaration statement or
the header of a `for`). -/
def declares : S → Option String
  | .decl x => some x
  | .forL (some i) _ => some i
  | _ => none

/-- No declaration in `s` (entered with `V` visible) sits at a position where its name is visible. -/
def NoRedecl (V : List String) (s : S) : Prop :=
  ∀ (p : List Dir) (s' : S) (x : String),
    subAt s p = some s' → declares s' = some x → x ∉ visibleAt V s p

/-- C12, the rejection criterion.  Globals are pairwise distinct, parameters are distinct from each
other and from the globals, and no declaration in a function body is at a position where its name
is visible (globals and parameters are visible everywhere in the body). -/
def NoVisibleRedecl (m : Mod) : Prop :=
  m.globals.Nodup ∧
  ∀ f ∈ m.fns, (m.globals ++ f.params).Nodup ∧ NoRedecl (m.globals ++ f.params) f.body

/-- Executable form of `NoRedecl`: the visible set is passed DOWN. -/
def ok (V : List String) : S → Bool
  | .decl x => !V.contains x
  | .use _ => true
  | .skip => true
  | .seq a b => ok V a && ok (V ++ adds a) b
  | .block s => ok V s
  | .ite t e => ok V t && ok (V ++ adds t) e
  | .forL none b => ok V b
  | .forL (some i) b => !V.contains i && ok (V ++ [i]) b
  | .whileL b => ok V b
  | .doL b => ok V b

/-- Executable form of `NoVisibleRedecl`. -/
def okMod (m : Mod) : Bool :=
  decide m.globals.Nodup &&
  m.fns.all fun f => decide (m.globals ++ f.params).Nodup && ok (m.globals ++ f.params) f.body

end Spec

/-! ## Stage 2: which declaration does a use denote?

Declarations and uses are identified by their pre-order slot in the function body (`size` slots per
statement; `decl`, `use` and a `for` header take one slot each), parameters and globals by their
index.  Two interpreters walk the same execution path, chosen by an oracle (`List Nat`: an `if`
consumes one entry, `0` = else branch; a loop consumes one entry `n` = number of iterations, a
`do` loop runs `n + 1` times; an exhausted oracle answers `0`), and log for every executed `use`
the declaration it resolves to:

* `runL` — lexical: a chain of scopes, innermost first; a block / if / loop iteration pushes a
  fresh scope and drops it at the end; a use searches the chain from the innermost scope outwards.
* `runF` — flat: ONE dictionary per function invocation (what the VM does); a declaration
  overwrites the entry, nothing is ever removed or restored; a use reads the dictionary, then the
  parameters, then the globals.
-/

inductive Tag where
  | global (i : Nat)
  | param (i : Nat)
  | loc (slot : Nat)
  deriving Repr, DecidableEq, Inhabited

/-- Number of tag slots of a statement. -/
def size : S → Nat
  | .decl _ => 1
  | .use _ => 1
  | .skip => 0
  | .seq a b => size a + size b
  | .block s => size s
  | .ite t e => size t + size e
  | .forL _ b => 1 + size b
  | .whileL b => size b
  | .doL b => size b

abbrev Scope := List (String × Tag)

/-- `(slot of the use, declaration it resolved to)`; `none` = unknown symbol. -/
abbrev Event := Nat × Option Tag

/-- Interpreter state: environment, remaining oracle, trace (oldest first). -/
structure St (ε : Type) where
  env : ε
  oracle : List Nat
  trace : List Event
  deriving Repr

/-- Consume one oracle entry. -/
def withOracle {ε : Type} (f : Nat → St ε → St ε) (st : St ε) : St ε :=
  match st.oracle with
  | [] => f 0 st
  | c :: o => f c { st with oracle := o }

def iter {σ : Type} (f : σ → σ) : Nat → σ → σ
  | 0, st => st
  | n + 1, st => iter f n (f st)

def emit {ε : Type} (e : Event) (st : St ε) : St ε :=
  { st with trace := st.trace ++ [e] }

/-- Search the scope chain from the innermost scope outwards. -/
def lookupChain : List Scope → String → Option Tag
  | [], _ => none
  | sc :: r, x =>
    match sc.lookup x with
    | some t => some t
    | none => lookupChain r x

/-- Bind a name in the innermost scope. -/
def bindInner (x : String) (t : Tag) (st : St (List Scope)) : St (List Scope) :=
  match st.env with
  | [] => { st with env := [[(x, t)]] }
  | sc :: r => { st with env := ((x, t) :: sc) :: r }

/-- Run `f` in a fresh innermost scope, then drop that scope (restore the chain). -/
def scopedRun (f : St (List Scope) → St (List Scope)) (st : St (List Scope)) : St (List Scope) :=
  let st' := f { st with env := [] :: st.env }
  { st' with env := st.env }

/-- The lexically scoped interpreter. -/
def runL : S → Nat → St (List Scope) → St (List Scope)
  | .decl x, k => bindInner x (.loc k)
  | .use x, k => fun st => emit (k, lookupChain st.env x) st
  | .skip, _ => id
  | .seq a b, k => fun st => runL b (k + size a) (runL a k st)
  | .block s, k => scopedRun (runL s k)
  | .ite t e, k =>
    withOracle fun c => scopedRun (if c = 0 then runL e (k + size t) else runL t k)
  | .forL none b, k =>
    withOracle fun n => scopedRun (iter (scopedRun (runL b (k + 1))) n)
  | .forL (some i) b, k =>
    withOracle fun n => scopedRun fun st => iter (scopedRun (runL b (k + 1))) n (bindInner i (.loc k) st)
  | .whileL b, k => withOracle fun n => iter (scopedRun (runL b k)) n
  | .doL b, k => withOracle fun n => iter (scopedRun (runL b k)) (n + 1)

/-- Flat lookup: the dictionary, then the parameters, then the globals. -/
def lookupFlat (P G : Scope) (dict : Scope) (x : String) : Option Tag :=
  match dict.lookup x with
  | some t => some t
  | none =>
    match P.lookup x with
    | some t => some t
    | none => G.lookup x

/-- `dict[x] = t`. -/
def bindFlat (x : String) (t : Tag) (st : St Scope) : St Scope :=
  { st with env := (x, t) :: st.env }

/-- The flat interpreter: blocks neither save nor restore anything. -/
def runF (P G : Scope) : S → Nat → St Scope → St Scope
  | .decl x, k => bindFlat x (.loc k)
  | .use x, k => fun st => emit (k, lookupFlat P G st.env x) st
  | .skip, _ => id
  | .seq a b, k => fun st => runF P G b (k + size a) (runF P G a k st)
  | .block s, k => runF P G s k
  | .ite t e, k => withOracle fun c => if c = 0 then runF P G e (k + size t) else runF P G t k
  | .forL none b, k => withOracle fun n => iter (runF P G b (k + 1)) n
  | .forL (some i) b, k =>
    withOracle fun n => fun st => iter (runF P G b (k + 1)) n (bindFlat i (.loc k) st)
  | .whileL b, k => withOracle fun n => iter (runF P G b k) n
  | .doL b, k => withOracle fun n => iter (runF P G b k) (n + 1)

/-- Tag a list of names with their index. -/
def tagScope (mk : Nat → Tag) : Nat → List String → Scope
  | _, [] => []
  | i, x :: xs => (x, mk i) :: tagScope mk (i + 1) xs

def paramScope (f : Fn) : Scope := tagScope .param 0 f.params
def globalScope (m : Mod) : Scope := tagScope .global 0 m.globals

/-- Trace of a function invocation under lexical scoping: the function context holds the
parameters, its parent the globals; the body is a compound statement. -/
def lexTrace (m : Mod) (f : Fn) (o : List Nat) : List Event :=
  (runL (.block f.body) 0 ⟨[paramScope f, globalScope m], o, []⟩).trace

/-- Trace of the same invocation with one flat dictionary. -/
def flatTrace (m : Mod) (f : Fn) (o : List Nat) : List Event :=
  (runF (paramScope f) (globalScope m) (.block f.body) 0 ⟨[], o, []⟩).trace

/-! ### Static name resolution

The same lexical rule, applied once to the program text (no oracle): the table of every `use`
occurrence with the declaration it denotes. -/

/-- The bindings a statement adds to the scope that encloses it (newest first). -/
def addsT : S → Nat → Scope
  | .decl x, k => [(x, .loc k)]
  | .seq a b, k => addsT b (k + size a) ++ addsT a k
  | _, _ => []

/-- Add bindings to the innermost scope. -/
def extend (A : Scope) : List Scope → List Scope
  | [] => [A]
  | sc :: r => (A ++ sc) :: r

/-- Resolution table of all uses of a statement, in pre-order, given the chain at its start. As in
the checker, an `if` has ONE scope for both branches and a `for` one for header and body. -/
def table : S → Nat → List Scope → List Event
  | .decl _, _, _ => []
  | .use x, k, ch => [(k, lookupChain ch x)]
  | .skip, _, _ => []
  | .seq a b, k, ch => table a k ch ++ table b (k + size a) (extend (addsT a k) ch)
  | .block s, k, ch => table s k ([] :: ch)
  | .ite t e, k, ch => table t k ([] :: ch) ++ table e (k + size t) (addsT t k :: ch)
  | .forL none b, k, ch => table b (k + 1) ([] :: ch)
  | .forL (some i) b, k, ch => table b (k + 1) ([(i, .loc k)] :: ch)
  | .whileL b, k, ch => table b k ([] :: ch)
  | .doL b, k, ch => table b k ([] :: ch)

def lexTable (m : Mod) (f : Fn) : List Event :=
  table (.block f.body) 0 [paramScope f, globalScope m]

/-- All occurrences with their slot: `(slot, isUse, name)`; a `for` header without a variable
still takes its (unused) slot. -/
def occs : S → Nat → List (Nat × Bool × String)
  | .decl x, k => [(k, false, x)]
  | .use x, k => [(k, true, x)]
  | .skip, _ => []
  | .seq a b, k => occs a k ++ occs b (k + size a)
  | .block s, k => occs s k
  | .ite t e, k => occs t k ++ occs e (k + size t)
  | .forL i b, k => (k, false, i.getD "") :: occs b (k + 1)
  | .whileL b, k => occs b k
  | .doL b, k => occs b k

/-- `flat` refines `lex`: same uses in the same order, and wherever the lexical rule finds a
declaration the flat dictionary yields the same one. -/
def Refines : List Event → List Event → Prop
  | [], [] => True
  | (u, d) :: l, (u', d') :: f => u = u' ∧ (d = none ∨ d = d') ∧ Refines l f
  | _, _ => False

def Refines.dec : (l f : List Event) → Decidable (Refines l f)
  | [], [] => inferInstanceAs (Decidable True)
  | [], _ :: _ => inferInstanceAs (Decidable False)
  | _ :: _, [] => inferInstanceAs (Decidable False)
  | (u, d) :: l, (u', d') :: f =>
    have : Decidable (Refines l f) := Refines.dec l f
    inferInstanceAs (Decidable (u = u' ∧ (d = none ∨ d = d') ∧ Refines l f))

instance (l f : List Event) : Decidable (Refines l f) := Refines.dec l f

namespace Spec

/-- Every use is preceded, on every path, by a declaration of its name that is still in scope
(parameters and globals count): `V` is the set of names DEFINITELY declared and visible.  Unlike
in `visibleAt`, the else branch of an `if` cannot rely on an un-braced declaration of the then
branch. -/
def declaredOk (V : List String) : S → Bool
  | .decl _ => true
  | .use x => V.contains x
  | .skip => true
  | .seq a b => declaredOk V a && declaredOk (V ++ adds a) b
  | .block s => declaredOk V s
  | .ite t e => declaredOk V t && declaredOk V e
  | .forL none b => declaredOk V b
  | .forL (some i) b => declaredOk (V ++ [i]) b
  | .whileL b => declaredOk V b
  | .doL b => declaredOk V b

def usesDeclared (m : Mod) : Bool :=
  m.fns.all fun f => declaredOk (m.globals ++ f.params) f.body

/-- All names declared anywhere inside a statement (declaration statements and `for` headers). -/
def locals : S → List String
  | .decl x => [x]
  | .use _ => []
  | .skip => []
  | .seq a b => locals a ++ locals b
  | .block s => locals s
  | .ite t e => locals t ++ locals e
  | .forL i b => i.toList ++ locals b
  | .whileL b => locals b
  | .doL b => locals b

end Spec

/-! ### Two example modules (used by the non-vacuity examples) -/

/-- `int g; f(int p) { int a; while (…) { if (…) int x; else x; a; p; g; } }` — the else branch
uses an `x` that only the then branch declares: accepted by this pass but not `usesDeclared`. -/
def exLoop : Mod :=
  ⟨["g"], [⟨["p"], .seq (.decl "a") (.whileL (.block (.seq (.ite (.decl "x") (.use "x"))
    (.seq (.use "a") (.seq (.use "p") (.use "g"))))))⟩]⟩

/-- `int g; f(int p) { int a; for (int i …) { int t; t; i; a; } { int t; t; } do { p; g; } while }` -/
def exGood : Mod :=
  ⟨["g"], [⟨["p"], .seq (.decl "a") (.seq
      (.forL (some "i") (.block (.seq (.decl "t") (.seq (.use "t") (.seq (.use "i") (.use "a"))))))
      (.seq (.block (.seq (.decl "t") (.use "t"))) (.doL (.block (.seq (.use "p") (.use "g"))))))⟩]⟩

/-! ## Driver: prefix syntax -/

/-- `D x` | `U x` | `K` | `S A B` | `B A` | `I A B` | `F x A` | `F - A` | `W A` | `O A`. -/
def parseS : Nat → List String → Option (S × List String)
  | 0, _ => none
  | _ + 1, "D" :: x :: r => some (.decl x, r)
  | _ + 1, "U" :: x :: r => some (.use x, r)
  | _ + 1, "K" :: r => some (.skip, r)
  | n + 1, "S" :: r =>
    match parseS n r with
    | none => none
    | some (a, r1) =>
      match parseS n r1 with
      | none => none
      | some (b, r2) => some (.seq a b, r2)
  | n + 1, "B" :: r =>
    match parseS n r with
    | none => none
    | some (a, r1) => some (.block a, r1)
  | n + 1, "I" :: r =>
    match parseS n r with
    | none => none
    | some (a, r1) =>
      match parseS n r1 with
      | none => none
      | some (b, r2) => some (.ite a b, r2)
  | n + 1, "F" :: x :: r =>
    match parseS n r with
    | none => none
    | some (a, r1) => some (.forL (if x = "-" then none else some x) a, r1)
  | n + 1, "W" :: r =>
    match parseS n r with
    | none => none
    | some (a, r1) => some (.whileL a, r1)
  | n + 1, "O" :: r =>
    match parseS n r with
    | none => none
    | some (a, r1) => some (.doL a, r1)
  | _ + 1, _ => none

/-- Split a token list at the `;` tokens. -/
def splitSemi : List String → List (List String)
  | [] => [[]]
  | t :: r =>
    match splitSemi r with
    | [] => [[t]]          -- unreachable
    | g :: gs => if t = ";" then [] :: g :: gs else (t :: g) :: gs

def parseNames (t : String) : List String :=
  (t.splitOn ",").filter (· ≠ "")

/-- `fn p1,p2 : BODY` or `fn : BODY`. -/
def parseFn : List String → Option Fn
  | "fn" :: ":" :: body =>
    match parseS (body.length + 1) body with
    | some (s, []) => some ⟨[], s⟩
    | _ => none
  | "fn" :: ps :: ":" :: body =>
    match parseS (body.length + 1) body with
    | some (s, []) => some ⟨parseNames ps, s⟩
    | _ => none
  | _ => none

def parseFns : List (List String) → Option (List Fn)
  | [] => some []
  | g :: gs =>
    match parseFn g, parseFns gs with
    | some f, some fs => some (f :: fs)
    | _, _ => none

/-- `globals g1,g2 ; fn p1,p2 : BODY ; fn : BODY`. -/
def parseMod (line : String) : Option Mod :=
  match splitSemi ((line.splitOn " ").filter (· ≠ "")) with
  | ["globals"] :: fs => (parseFns fs).map fun l => ⟨[], l⟩
  | ["globals", gs] :: fs => (parseFns fs).map fun l => ⟨parseNames gs, l⟩
  | _ => none

/-- `accept` / `reject` for `checkMod`; `error` if the line does not parse. -/
def run (line : String) : String :=
  match parseMod line with
  | none => "error"
  | some m => if checkMod m then "accept" else "reject"

end Nsl.Names
