/-
  Validation of `break` / `continue` (property C11).

  Python modelled:
  * `nsl/passes/ValidateFlowStatements.py` — a `DefaultVisitor` whose context is an integer
    loop-depth counter, passed BY VALUE down the traversal (`GetContext` returns `0`, so every
    function body, being visited from the module root, starts at depth 0; the three loop handlers
    visit the loop's children with `ctx + 1`; `v_BreakStatement` / `v_ContinueStatement` set
    `self.valid = False` iff `ctx == 0`; every other node type has no handler and is traversed by
    `DefaultVisitor.v_Default` with the unchanged counter).
  * the loop bookkeeping of `nsl/passes/LowerToIR.py` — `Context.__loops` is a stack;
    `BeginLoop` pushes a fresh frame, `EndLoop` pops it, `RegisterLoopBreak/Continue` append the
    branch to `self.__loops[-1]` (an `IndexError` if the stack is empty); `v_ForStatement`,
    `v_WhileStatement`, `v_DoStatement` bracket the lowering of the body with `BeginLoop` /
    `EndLoop` and afterwards point every branch registered in that frame at that loop's
    break / continue block.

  Statements are abstracted to skeletons `S`: only the nesting structure of blocks, `if`s and loops
  and the positions of `break` / `continue` matter for either piece of Python.

  Executable definitions only; no imports.
-/

namespace Nsl.Flow

inductive LoopKind
  | forL | whileL | doL
  deriving DecidableEq, Repr

/-- Statement skeletons. -/
inductive S
  /-- any statement without sub-statements (declaration, expression, return, empty) -/
  | other
  | brk
  | cont
  /-- statement lists / compound blocks are nested `seq`s (`other` for the empty block) -/
  | seq (a b : S)
  /-- `if` (`e = none`) / `if`-`else` -/
  | ite (t : S) (e : Option S)
  /-- `id` is only a tag to tell loops apart in theorems -/
  | loop (k : LoopKind) (id : Nat) (body : S)
  deriving Repr

/-! ### `ValidateFlowStatementVisitor` -/

/-- The visitor with depth counter `d`: `true` = `self.valid` stays `True`. -/
def validate (d : Nat) : S → Bool
  | .other => true
  | .brk => d != 0
  | .cont => d != 0
  | .seq a b => validate d a && validate d b
  | .ite t none => validate d t
  | .ite t (some e) => validate d t && validate d e
  | .loop _ _ body => validate (d + 1) body

/-- A function body is visited with the initial context `GetContext() = 0`. -/
def validateFn (body : S) : Bool := validate 0 body

/-- A module is a list of function bodies; the counter is passed by value, so each function starts
again at depth 0. -/
def validateModule (fs : List S) : Bool := fs.all validateFn

/-! ### Loop bookkeeping of `LowerToIR` -/

/-- Walk the statement with the loop stack `stk` (loop ids, innermost first = Python's
`self.__loops`, top of stack = `self.__loops[-1]`).  At `brk` / `cont` the top of the stack is read
(`none` = Python `IndexError`) and `(isBreak, id)` is emitted; a loop pushes its id for its body.
The result lists, in source order, which loop every `break` / `continue` was registered with. -/
def targets (stk : List Nat) : S → Option (List (Bool × Nat))
  | .other => some []
  | .brk => match stk with
    | [] => none
    | l :: _ => some [(true, l)]
  | .cont => match stk with
    | [] => none
    | l :: _ => some [(false, l)]
  | .seq a b =>
    match targets stk a with
    | none => none
    | some xs => match targets stk b with
      | none => none
      | some ys => some (xs ++ ys)
  | .ite t none => targets stk t
  | .ite t (some e) =>
    match targets stk t with
    | none => none
    | some xs => match targets stk e with
      | none => none
      | some ys => some (xs ++ ys)
  | .loop _ id body => targets (id :: stk) body

/-- The same walk with the stack threaded as mutable state, as in the Python: `BeginLoop` pushes
before the body, `EndLoop` pops after it (`none` if it would pop an empty stack).  Returns the
registrations and the stack afterwards.  `Nsl.Flow.targetsSt_eq` (Proofs) shows that the stack is
always restored and that the registrations are those of `targets`. -/
def targetsSt : S → List Nat → Option (List (Bool × Nat) × List Nat)
  | .other, stk => some ([], stk)
  | .brk, stk => match stk with
    | [] => none
    | l :: _ => some ([(true, l)], stk)
  | .cont, stk => match stk with
    | [] => none
    | l :: _ => some ([(false, l)], stk)
  | .seq a b, stk =>
    match targetsSt a stk with
    | none => none
    | some (xs, stk1) => match targetsSt b stk1 with
      | none => none
      | some (ys, stk2) => some (xs ++ ys, stk2)
  | .ite t none, stk => targetsSt t stk
  | .ite t (some e), stk =>
    match targetsSt t stk with
    | none => none
    | some (xs, stk1) => match targetsSt e stk1 with
      | none => none
      | some (ys, stk2) => some (xs ++ ys, stk2)
  | .loop _ id body, stk =>
    match targetsSt body (id :: stk) with          -- BeginLoop
    | none => none
    | some (xs, stk1) => match stk1 with           -- EndLoop
      | [] => none
      | _ :: stk2 => some (xs, stk2)

/-! ### Declarative specification -/

namespace Spec

/-- All `break` / `continue` occurrences of `s` in source order, each as
`(isBreak, ids of the enclosing loops inside s, outermost first)`. -/
def occs : S → List (Bool × List Nat)
  | .other => []
  | .brk => [(true, [])]
  | .cont => [(false, [])]
  | .seq a b => occs a ++ occs b
  | .ite t none => occs t
  | .ite t (some e) => occs t ++ occs e
  | .loop _ id body => (occs body).map fun o => (o.1, id :: o.2)

/-- Every `break` / `continue` occurrence has at least one enclosing loop. -/
def AllInLoop (s : S) : Prop := ∀ o ∈ occs s, o.2 ≠ []

instance (s : S) : Decidable (AllInLoop s) := by unfold AllInLoop; exact inferInstance

/-- The nearest enclosing loop: the last of the enclosing loops listed outermost first. -/
def innermost (ls : List Nat) : Option Nat := ls.getLast?

/-- For every occurrence that is inside some loop, in source order: `(isBreak, innermost loop)`. -/
def occurrences (s : S) : List (Bool × Nat) :=
  (occs s).filterMap fun o => (innermost o.2).map fun l => (o.1, l)

/-! Path-based reading of the same notions (used only to cross-check `occs` in the proofs). -/

/-- One step down the statement tree. -/
inductive Step
  | seqL | seqR | thenB | elseB | body
  deriving DecidableEq, Repr

/-- The sub-statement at a path, if the path exists. -/
def sub : S → List Step → Option S
  | s, [] => some s
  | .seq a _, .seqL :: p => sub a p
  | .seq _ b, .seqR :: p => sub b p
  | .ite t _, .thenB :: p => sub t p
  | .ite _ (some e), .elseB :: p => sub e p
  | .loop _ _ b, .body :: p => sub b p
  | _, _ :: _ => none

/-- The ids of the loops whose body the path enters, outermost first. -/
def enclosing : S → List Step → List Nat
  | _, [] => []
  | .seq a _, .seqL :: p => enclosing a p
  | .seq _ b, .seqR :: p => enclosing b p
  | .ite t _, .thenB :: p => enclosing t p
  | .ite _ (some e), .elseB :: p => enclosing e p
  | .loop _ id b, .body :: p => id :: enclosing b p
  | _, _ :: _ => []

/-- `Wraps s w`: `w` is `s` wrapped in any number of block (`seq`) and `if` / `if`-`else` layers
(no loop layer). -/
inductive Wraps (s : S) : S → Prop
  | refl : Wraps s s
  | seqL {w : S} (b : S) : Wraps s w → Wraps s (.seq w b)
  | seqR {w : S} (a : S) : Wraps s w → Wraps s (.seq a w)
  | thenB {w : S} (e : Option S) : Wraps s w → Wraps s (.ite w e)
  | elseB {w : S} (t : S) : Wraps s w → Wraps s (.ite t (some w))

end Spec

/-! ### Prefix encoding for the line-protocol driver

Tokens separated by single spaces, prefix form: `o` other, `b` break, `c` continue, `s A B` seq,
`i A` if, `e A B` if-else, `f A` / `w A` / `d A` for / while / do loop.  Loop ids are assigned in
pre-order from a counter starting at 0. -/

/-- `parseAux fuel toks n` parses one statement from the front of `toks`; `n` is the next loop id.
Returns the statement, the remaining tokens and the next free id. -/
def parseAux : Nat → List String → Nat → Option (S × List String × Nat)
  | 0, _, _ => none
  | _ + 1, [], _ => none
  | fuel + 1, tok :: rest, n =>
    let un (k : LoopKind) : Option (S × List String × Nat) :=
      match parseAux fuel rest (n + 1) with
      | none => none
      | some (b, rest1, n1) => some (.loop k n b, rest1, n1)
    if tok = "o" then some (.other, rest, n)
    else if tok = "b" then some (.brk, rest, n)
    else if tok = "c" then some (.cont, rest, n)
    else if tok = "s" then
      match parseAux fuel rest n with
      | none => none
      | some (a, rest1, n1) => match parseAux fuel rest1 n1 with
        | none => none
        | some (b, rest2, n2) => some (.seq a b, rest2, n2)
    else if tok = "i" then
      match parseAux fuel rest n with
      | none => none
      | some (t, rest1, n1) => some (.ite t none, rest1, n1)
    else if tok = "e" then
      match parseAux fuel rest n with
      | none => none
      | some (t, rest1, n1) => match parseAux fuel rest1 n1 with
        | none => none
        | some (e, rest2, n2) => some (.ite t (some e), rest2, n2)
    else if tok = "f" then un .forL
    else if tok = "w" then un .whileL
    else if tok = "d" then un .doL
    else none

/-- Parse a whole token list; `none` on malformed input or trailing tokens. -/
def parseToks (toks : List String) : Option S :=
  match parseAux (toks.length + 1) toks 0 with
  | some (s, [], _) => some s
  | _ => none

/-- Parse a whole line (tokens separated by single spaces). -/
def parseS? (line : String) : Option S := parseToks (line.splitOn " ")

/-- `b0,c1,b1`; `-` for no registrations at all; `none` for the `IndexError`. -/
def render : Option (List (Bool × Nat)) → String
  | none => "none"
  | some [] => "-"
  | some xs => ",".intercalate (xs.map fun x => (if x.1 then "b" else "c") ++ toString x.2)

/-- `accept` / `reject` for `validateFn`, a space, the rendered `targets [] s`; `error` if the line
does not parse. -/
def run (line : String) : String :=
  match parseS? line with
  | none => "error"
  | some s => (if validateFn s then "accept" else "reject") ++ " " ++ render (targets [] s)

end Nsl.Flow
