import Nsl.Model.IR
/-!
# The VM (mirror of `nsl/VM.py`, `ExecutionContext.__Execute`)

`run` is structurally recursive on a fuel argument that bounds executed instructions plus nested
calls.  One instruction is `stepI`, which receives the meaning of a call as a parameter so that it
is not recursive itself.
-/
namespace Nsl
namespace VM

abbrev Globals := Map String Val

structure Frame where
  regs : Map Nat Val := []
  locals : Map String Val := []
  args : List Val := []
  deriving Inhabited

/-- Result of running a function. -/
inductive Res
  | done (v : Val) (g : Globals) (args : List Val)   -- returned value (`none` = Python `None`), globals, final argument list
  | fail (e : Err)
  deriving Inhabited

/-- Result of one instruction. -/
inductive StepOut
  | next (pc : Nat) (fr : Frame) (g : Globals)
  | ret (v : Val) (g : Globals) (args : List Val)
  | fail (e : Err)
  deriving Inhabited

/-! ### Values, paths -/

/-- Python list indexing with an int: negative indices count from the end. -/
def normIndex (len : Nat) (i : Int) : Option Nat :=
  if 0 ≤ i then (if i.toNat < len then some i.toNat else none)
  else if -(len : Int) ≤ i then some (i + len).toNat else none

def listSet (vs : List Val) (i : Nat) (v : Val) : List Val := vs.set i v

def getKey (v : Val) (k : Key) : Except Err Val :=
  match v, k with
  | .list vs, .idx i => match vs[i]? with
    | some x => .ok x
    | none => .error .indexOOB
  | .struct fs, .fld n => match Map.get fs n with
    | some x => .ok x
    | none => .error (.internal "KeyError-field")
  | _, _ => .error (.internal "subscript-on-wrong-kind")

def setKey (v : Val) (k : Key) (x : Val) : Except Err Val :=
  match v, k with
  | .list vs, .idx i => if i < vs.length then .ok (.list (vs.set i x)) else .error .indexOOB
  | .struct fs, .fld n => .ok (.struct (Map.set fs n x))
  | _, _ => .error (.internal "subscript-on-wrong-kind")

def getPath (v : Val) : List Key → Except Err Val
  | [] => .ok v
  | k :: ks => do let x ← getKey v k; getPath x ks

def setPath (v : Val) (path : List Key) (x : Val) : Except Err Val :=
  match path with
  | [] => .ok x
  | k :: ks => do
    let child ← getKey v k
    let child' ← setPath child ks x
    setKey v k child'

def isAggVal : Val → Bool
  | .list _ | .struct _ => true
  | _ => false

/-! ### Default instances (`__CreateInstance`, repaired: every element a separate instance, first
dimension outermost) -/

def createDims (leaf : Val) : List Nat → Val
  | [] => leaf
  | d :: ds => .list (List.replicate d (createDims leaf ds))

mutual
  def createInstance : ITy → Val
    | .sc _ => .int 0
    | .vec _ n => .list (List.replicate n (.int 0))
    | .mat _ r c => .list (List.replicate r (.list (List.replicate c (.int 0))))
    | .arr elem dims => createDims (createInstance elem) dims
    | .struct _ fields => .struct (createFields fields)
    | .void => .none
  def createFields : List (String × ITy) → List (String × Val)
    | [] => []
    | (n, t) :: rest => (n, createInstance t) :: createFields rest
end

/-! ### Variable roots -/

def readRoot (fr : Frame) (g : Globals) : Root → Except Err Val
  | .loc n => match Map.get fr.locals n with
    | some v => .ok v
    | none => .error (.internal "KeyError-local")
  | .arg i => match fr.args[i]? with
    | some v => .ok v
    | none => .error (.internal "IndexError-arg")
  | .glob n => match Map.get g n with
    | some v => .ok v
    | none => .error (.internal "KeyError-global")

def writeRoot (fr : Frame) (g : Globals) (r : Root) (v : Val) : Except Err (Frame × Globals) :=
  match r with
  | .loc n => .ok ({ fr with locals := Map.set fr.locals n v }, g)
  | .arg i => if i < fr.args.length then .ok ({ fr with args := fr.args.set i v }, g)
              else .error (.internal "IndexError-arg")
  | .glob n => .ok (fr, Map.set g n v)

def rootOf (sc : Scope) (var : VarKey) : Except Err Root :=
  match sc, var with
  | .global, .name n => .ok (.glob n)
  | .local, .name n => .ok (.loc n)
  | .arg, .index i => .ok (.arg i)
  | _, _ => .error (.internal "variable-key-kind")

/-- Value of an operand as Python sees it (a `ptr` stands for the aliased list/dict object). -/
def evalOpd (fr : Frame) : Opd → Except Err Val
  | .ref n => match Map.get fr.regs n with
    | some v => .ok v
    | none => .error (.internal "KeyError-ref")
  | .cInt i => .ok (.int i)
  | .cFlt f => .ok (.flt f)

/-- Value of an operand with aliases resolved to the tree they denote. -/
def evalVal (fr : Frame) (g : Globals) (o : Opd) : Except Err Val := do
  match ← evalOpd fr o with
  | .ptr r p => do let root ← readRoot fr g r; getPath root p
  | v => .ok v

def evalVals (fr : Frame) (g : Globals) : List Opd → Except Err (List Val)
  | [] => .ok []
  | o :: os => do let v ← evalVal fr g o; let vs ← evalVals fr g os; .ok (v :: vs)

def setReg (fr : Frame) (dst : Nat) (v : Val) : Frame := { fr with regs := Map.set fr.regs dst v }

/-! ### Component-wise operations on vectors -/

def scIsInt : ITy → Bool
  | .sc .float => false
  | .sc _ => true
  | .vec .float _ => false
  | .vec _ _ => true
  | .mat .float _ _ => false
  | .mat _ _ _ => true
  | _ => false

def zipBin (o : SOp) (intTy : Bool) : List Val → List Val → Except Err (List Val)
  | x :: xs, y :: ys => do let z ← scalarBin o intTy x y; let zs ← zipBin o intTy xs ys; .ok (z :: zs)
  | _, _ => .ok []          -- Python `zip` stops at the shorter list

def mapBinR (o : SOp) (intTy : Bool) (s : Val) : List Val → Except Err (List Val)
  | [] => .ok []
  | x :: xs => do let z ← scalarBin o intTy x s; let zs ← mapBinR o intTy s xs; .ok (z :: zs)

def asList : Val → Except Err (List Val)
  | .list vs => .ok vs
  | _ => .error (.internal "expected-list")

/-- `sum_k a[k] * b[k]` accumulated from the Python int `0`, left to right. -/
def dotFrom (acc : Val) : List Val → List Val → Except Err Val
  | x :: xs, y :: ys => do
    let p ← scalarBin .mul false x y
    let acc' ← scalarBin .add false acc p
    dotFrom acc' xs ys
  | _, _ => .ok acc

def column (m : List Val) (j : Nat) : Except Err (List Val) :=
  match m with
  | [] => .ok []
  | r :: rs => do
    let row ← asList r
    match row[j]? with
    | some x => do let rest ← column rs j; .ok (x :: rest)
    | none => .error (.internal "IndexError-matmul")

def matMulRow (row : List Val) (m1 : List Val) : List Nat → Except Err (List Val)
  | [] => .ok []
  | j :: js => do
    let col ← column m1 j
    let x ← dotFrom (.int 0) row col
    let rest ← matMulRow row m1 js
    .ok (x :: rest)

def matMul (rows cols : Nat) (m0 m1 : List Val) : Except Err (List Val) :=
  let rec go : List Val → Except Err (List Val)
    | [] => .ok []
    | r :: rs => do
      let row ← asList r
      let x ← matMulRow row m1 (List.range cols)
      let rest ← go rs
      .ok (.list x :: rest)
  let _ := rows
  go m0

def matMulVec (m : List Val) (v : List Val) : Except Err (List Val) :=
  match m with
  | [] => .ok []
  | r :: rs => do
    let row ← asList r
    let x ← dotFrom (.int 0) row v
    let rest ← matMulVec rs v
    .ok (x :: rest)

def binExec (op : BinOp) (ty : ITy) (a b : Val) : Except Err Val :=
  let it := scIsInt ty
  match op with
  | .s o => scalarBin o it a b
  | .v o => do let xs ← asList a; let ys ← asList b; let zs ← zipBin o it xs ys; .ok (.list zs)
  | .vMulS => do let xs ← asList a; let zs ← mapBinR .mul it b xs; .ok (.list zs)
  | .vDivS => do let xs ← asList a; let zs ← mapBinR .div it b xs; .ok (.list zs)
  | .mMulM => do
    let m0 ← asList a; let m1 ← asList b
    match ty with
    | .mat _ r c => do let z ← matMul r c m0 m1; .ok (.list z)
    | _ => .error (.internal "matmul-result-type")
  | .mMulV => do let m ← asList a; let v ← asList b; let z ← matMulVec m v; .ok (.list z)
  | .invalid => .error (.internal "no-opcode-for-operation")

/-! ### CAST (repaired: vectors and matrices are converted component-wise) -/

def castScalar (s : Sc) (v : Val) : Except Err Val :=
  match s, v with
  | .float, .int i => .ok (.flt (Float.ofInt i))
  | .float, .flt f => .ok (.flt f)
  | .int, .int i => .ok (.int i)
  | .int, .flt f => do let i ← floorToInt f; .ok (.int i)
  | .uint, .int i => .ok (.int i.natAbs)
  | .uint, .flt f => do let i ← floorToInt f; .ok (.int i.natAbs)
  | _, _ => .error (.internal "cast-of-non-number")

def castList (s : Sc) : List Val → Except Err (List Val)
  | [] => .ok []
  | x :: xs => do let y ← castScalar s x; let ys ← castList s xs; .ok (y :: ys)

def castRows (s : Sc) : List Val → Except Err (List Val)
  | [] => .ok []
  | r :: rs => do
    let row ← asList r
    let row' ← castList s row
    let rest ← castRows s rs
    .ok (.list row' :: rest)

def castExec (ty : ITy) (v : Val) : Except Err Val :=
  match ty with
  | .sc s => castScalar s v
  | .vec s _ => do let xs ← asList v; let ys ← castList s xs; .ok (.list ys)
  | .mat s _ _ => do let xs ← asList v; let ys ← castRows s xs; .ok (.list ys)
  | _ => .error (.internal "cast-target-type")

/-! ### SHUFFLE, CONSTRUCT_PRIMITIVE -/

def shuffleExec (ty : ITy) (a b : Val) (idx : List Nat) : Except Err Val := do
  let xs := match a with | .list vs => vs | v => [v]
  let ys := match b with | .list vs => vs | v => [v]
  let combined := xs ++ ys
  let rec pick : List Nat → Except Err (List Val)
    | [] => .ok []
    | i :: is => match combined[i]? with
      | some x => do let rest ← pick is; .ok (x :: rest)
      | none => .error (.internal "shuffle-index")
  let r ← pick idx
  match ty, r with
  | .sc _, [x] => .ok x       -- repaired: a one-component swizzle of scalar type is a scalar
  | _, _ => .ok (.list r)

def constructExec (ty : ITy) (vals : List Val) : Except Err Val :=
  match ty with
  | .vec _ _ =>
    let rec flat : List Val → List Val
      | [] => []
      | .list vs :: rest => vs ++ flat rest
      | v :: rest => v :: flat rest
    .ok (.list (flat vals))
  | .mat _ _ _ =>
    if vals.all (fun v => match v with | .list _ => true | _ => false) then .ok (.list vals)
    else .error (.internal "construct-matrix-from-non-rows")
  | .sc _ =>
    -- `int(x)` / `float(x)`: the argument has already been converted by the inserted cast
    match vals with
    | [v] => .ok v
    | _ => .error (.internal "construct-type")
  | _ => .error (.internal "construct-type")

/-! ### One instruction -/

def indexOf (container : Val) (i : Val) : Except Err Nat :=
  match container, i with
  | .list vs, .int n => match normIndex vs.length n with
    | some k => .ok k
    | none => .error .indexOOB
  | .list _, _ => .error (.internal "TypeError-index")
  | _, _ => .error (.internal "subscript-on-wrong-kind")

def jump (code : List Instr) (l : Nat) (fr : Frame) (g : Globals) : StepOut :=
  match labelPos code l with
  | some p => .next p fr g
  | none => .fail (.internal "KeyError-label")

def liftE {α} (x : Except Err α) (k : α → StepOut) : StepOut :=
  match x with
  | .ok a => k a
  | .error e => .fail e

/-- Execute the instruction at `pc`.  `callf name args g` is the meaning of calling a function. -/
def stepI (callf : String → List Val → Globals → Res) (code : List Instr) (pc : Nat)
    (fr : Frame) (g : Globals) : StepOut :=
  match code[pc]? with
  | none => .ret .none g fr.args                       -- fell off the end: Python returns None
  | some ins =>
    let nx := pc + 1
    match ins with
    | .label _ => .next nx fr g
    | .load dst ty sc var =>
      liftE (rootOf sc var) fun root =>
      liftE (readRoot fr g root) fun v =>
      if ty.isAggregate && isAggVal v then .next nx (setReg fr dst (.ptr root [])) g
      else .next nx (setReg fr dst v) g
    | .store sc var src =>
      liftE (rootOf sc var) fun root =>
      liftE (evalOpd fr src) fun v =>
      match v with
      | .ptr _ _ => .fail (.unsupported "whole-aggregate-assignment")
      | v => liftE (writeRoot fr g root v) fun (fr', g') => .next nx fr' g'
    | .newVar dst ty name =>
      let v := createInstance ty
      let fr' := { fr with locals := Map.set fr.locals name v }
      if ty.isAggregate then .next nx (setReg fr' dst (.ptr (.loc name) [])) g
      else .next nx (setReg fr' dst v) g
    | .bin dst op ty a b =>
      liftE (evalVal fr g a) fun x =>
      liftE (evalVal fr g b) fun y =>
      liftE (binExec op ty x y) fun z => .next nx (setReg fr dst z) g
    | .cast dst ty a =>
      liftE (evalVal fr g a) fun x =>
      liftE (castExec ty x) fun z => .next nx (setReg fr dst z) g
    | .br l => jump code l fr g
    | .brc p t f =>
      liftE (evalVal fr g p) fun v =>
      if v.truthy then jump code t fr g else jump code f fr g
    | .ret none => .ret .none g fr.args
    | .ret (some o) => liftE (evalVal fr g o) fun v => .ret v g fr.args
    | .call dst _ fn args =>
      liftE (evalVals fr g args) fun vs =>
      match callf fn vs g with
      | .done v g' _ => .next nx (setReg fr dst v) g'
      | .fail e => .fail e
    | .loadArr dst ty arr idx =>
      liftE (evalOpd fr arr) fun a =>
      liftE (evalVal fr g idx) fun i =>
      match a with
      | .ptr r p =>
        liftE (do let root ← readRoot fr g r; getPath root p) fun container =>
        liftE (indexOf container i) fun k =>
        liftE (getKey container (.idx k)) fun x =>
        if ty.isAggregate && isAggVal x then .next nx (setReg fr dst (.ptr r (p ++ [.idx k]))) g
        else .next nx (setReg fr dst x) g
      | container =>
        liftE (indexOf container i) fun k =>
        liftE (getKey container (.idx k)) fun x => .next nx (setReg fr dst x) g
    | .storeArr arr idx src =>
      liftE (evalOpd fr arr) fun a =>
      liftE (evalVal fr g idx) fun i =>
      liftE (evalOpd fr src) fun v =>
      match v with
      | .ptr _ _ => .fail (.unsupported "whole-aggregate-assignment")
      | v =>
        match a with
        | .ptr r p =>
          liftE (readRoot fr g r) fun root =>
          liftE (getPath root p) fun container =>
          liftE (indexOf container i) fun k =>
          liftE (setPath root (p ++ [.idx k]) v) fun root' =>
          liftE (writeRoot fr g r root') fun (fr', g') => .next nx fr' g'
        | container =>
          liftE (indexOf container i) fun _ => .next nx fr g   -- mutation of a temporary
    | .loadMem dst ty obj field =>
      liftE (evalOpd fr obj) fun a =>
      match a with
      | .ptr r p =>
        liftE (do let root ← readRoot fr g r; getPath root p) fun container =>
        liftE (getKey container (.fld field)) fun x =>
        if ty.isAggregate && isAggVal x then .next nx (setReg fr dst (.ptr r (p ++ [.fld field]))) g
        else .next nx (setReg fr dst x) g
      | container =>
        liftE (getKey container (.fld field)) fun x => .next nx (setReg fr dst x) g
    | .storeMem obj field src =>
      liftE (evalOpd fr obj) fun a =>
      liftE (evalOpd fr src) fun v =>
      match v with
      | .ptr _ _ => .fail (.unsupported "whole-aggregate-assignment")
      | v =>
        match a with
        | .ptr r p =>
          liftE (readRoot fr g r) fun root =>
          liftE (setPath root (p ++ [.fld field]) v) fun root' =>
          liftE (writeRoot fr g r root') fun (fr', g') => .next nx fr' g'
        | .struct _ => .next nx fr g
        | _ => .fail (.internal "subscript-on-wrong-kind")
    | .vecGet dst _ v idx | .matGet dst _ v idx =>
      liftE (evalVal fr g v) fun a =>
      liftE (evalVal fr g idx) fun i =>
      liftE (indexOf a i) fun k =>
      liftE (getKey a (.idx k)) fun x => .next nx (setReg fr dst x) g
    | .vecSet dst _ v idx src | .matSet dst _ v idx src =>
      liftE (evalVal fr g v) fun a =>
      liftE (evalVal fr g idx) fun i =>
      liftE (evalVal fr g src) fun x =>
      liftE (indexOf a i) fun k =>
      liftE (setKey a (.idx k) x) fun a' => .next nx (setReg fr dst a') g
    | .shuffle dst ty a b idx =>
      liftE (evalVal fr g a) fun x =>
      liftE (evalVal fr g b) fun y =>
      liftE (shuffleExec ty x y idx) fun z => .next nx (setReg fr dst z) g
    | .construct dst ty vals =>
      liftE (evalVals fr g vals) fun vs =>
      liftE (constructExec ty vs) fun z => .next nx (setReg fr dst z) g

/-- Run `fn` from `pc`.  Fuel bounds instructions executed plus call depth. -/
def run (P : Program) : Nat → Func → Nat → Frame → Globals → Res
  | 0, _, _, _, _ => .fail .timeout
  | fuel + 1, fn, pc, fr, g =>
    let callf := fun name args g' =>
      match P.find name with
      | some callee => run P fuel callee 0 { args := args } g'
      | none => .fail (.internal "KeyError-function")
    match stepI callf fn.code pc fr g with
    | .next pc' fr' g' => run P fuel fn pc' fr' g'
    | .ret v g' as => .done v g' as
    | .fail e => .fail e

/-- `ExecutionContext.Invoke` with the arguments already in parameter order. -/
def invoke (P : Program) (fuel : Nat) (name : String) (args : List Val) (g : Globals) : Res :=
  match P.find name with
  | some fn => run P fuel fn 0 { args := args } g
  | none => .fail (.internal "KeyError-function")

end VM
end Nsl
