/-!
# Association-list maps

`Map κ ν` is what the model uses for every Python `dict` (`localScope`, the global scope, struct
instances).  `set` replaces an existing binding in place (keeps the list bounded by the number of
keys) and appends otherwise, so iteration order is insertion order like a Python dict.
-/
namespace Nsl

abbrev Map (κ ν : Type) := List (κ × ν)

namespace Map
variable {κ ν : Type} [DecidableEq κ]

def get (m : Map κ ν) (k : κ) : Option ν :=
  match m with
  | [] => none
  | (k', v) :: rest => if k' = k then some v else get rest k

def set (m : Map κ ν) (k : κ) (v : ν) : Map κ ν :=
  match m with
  | [] => [(k, v)]
  | (k', v') :: rest => if k' = k then (k', v) :: rest else (k', v') :: set rest k v

def contains (m : Map κ ν) (k : κ) : Bool := (get m k).isSome

def keys (m : Map κ ν) : List κ := m.map (·.1)

@[simp] theorem get_nil (k : κ) : get ([] : Map κ ν) k = none := rfl

@[simp] theorem get_set_eq (m : Map κ ν) (k : κ) (v : ν) : get (set m k v) k = some v := by
  induction m with
  | nil => simp [set, get]
  | cons p rest ih =>
    obtain ⟨k', v'⟩ := p
    by_cases h : k' = k
    · simp [set, get, h]
    · simp [set, get, h, ih]

theorem get_set_ne (m : Map κ ν) (k k₂ : κ) (v : ν) (h : k ≠ k₂) :
    get (set m k v) k₂ = get m k₂ := by
  induction m with
  | nil => simp [set, get, h]
  | cons p rest ih =>
    obtain ⟨k', v'⟩ := p
    by_cases h1 : k' = k
    · subst h1; simp [set, get, h]
    · by_cases h2 : k' = k₂
      · subst h2; simp [set, get, h1]
      · simp [set, get, h1, h2, ih]

end Map
end Nsl
