import Nsl.Model.Core
/-!
# Lowering of the typed core to linear IR (mirror of `nsl/passes/LowerToIR.py` followed by
`RewriteFunctionArgAccess`)

One counter `k` numbers both value references and labels, so everything a fragment creates is
`≥` the counter at its entry — this is what gives the frame condition of the simulation proof.

The Python visitor distinguishes a visit "in assignment" (the node is the direct target of a
store) from an ordinary visit through a stack of assignment values; here the two are the separate
functions `lowerStore` and `lowerE`.  The break/continue targets that the Python patches after the
loop has been lowered are passed down as parameters.
-/
namespace Nsl
namespace Lower
open Core

/-- `BinaryInstruction.FromOperation`: opcode and operand order for a binary operation of result
type `rty` on operands of types `t1`, `t2`.  The `Bool` says that the operands are swapped. -/
def fromOperation (op : BOp) (rty t1 t2 : ITy) : BinOp × Bool :=
  if rty.isScalar then (.s op.toSOp, false)
  else if rty.isVector then
    if op == .mul && t1.isVector && t2.isScalar then (.vMulS, false)
    else if op == .mul && t1.isScalar && t2.isVector then (.vMulS, true)
    else if op == .div && t1.isVector && t2.isScalar then (.vDivS, false)
    else (.v op.toSOp, false)
  else (.invalid, false)

def mkBin (dst : Nat) (op : BOp) (rty : ITy) (a : Opd) (ta : ITy) (b : Opd) (tb : ITy) : Instr :=
  match fromOperation op rty ta tb with
  | (o, false) => .bin dst o rty a b
  | (o, true) => .bin dst o rty b a

def rowType : ITy → ITy
  | .mat s _ c => .vec s c
  | t => t

def rowCount : ITy → Nat
  | .mat _ r _ => r
  | _ => 0

def vecSize : ITy → Nat
  | .vec _ n => n
  | _ => 1

/-- Row-wise expansion of `M op M`: per row two `matGet`s and the row operation. -/
def rowsMM (op : BOp) (lt rt resT : ITy) (l r : Opd) : Nat → Nat → List Instr × List Opd × Nat
  | 0, k => ([], [], k)
  | n + 1, k =>
    let (code, rows, k1) := rowsMM op lt rt resT l r n k
    let row := (n : Int)
    let c := [ .matGet k1 (rowType lt) l (.cInt row),
               .matGet (k1 + 1) (rowType rt) r (.cInt row),
               mkBin (k1 + 2) op (rowType resT) (.ref k1) (rowType lt) (.ref (k1 + 1)) (rowType rt) ]
    (code ++ c, rows ++ [.ref (k1 + 2)], k1 + 3)

/-- Row-wise expansion of `M op S`. -/
def rowsMS (op : BOp) (lt rt resT : ITy) (l r : Opd) : Nat → Nat → List Instr × List Opd × Nat
  | 0, k => ([], [], k)
  | n + 1, k =>
    let (code, rows, k1) := rowsMS op lt rt resT l r n k
    let c := [ .matGet k1 (rowType lt) l (.cInt (n : Int)),
               mkBin (k1 + 1) op (rowType resT) (.ref k1) (rowType lt) r rt ]
    (code ++ c, rows ++ [.ref (k1 + 1)], k1 + 2)

/-- Row-wise expansion of `S * M` (repaired lowering). -/
def rowsSM (op : BOp) (lt rt resT : ITy) (l r : Opd) : Nat → Nat → List Instr × List Opd × Nat
  | 0, k => ([], [], k)
  | n + 1, k =>
    let (code, rows, k1) := rowsSM op lt rt resT l r n k
    let c := [ .matGet k1 (rowType rt) r (.cInt (n : Int)),
               mkBin (k1 + 1) op (rowType resT) l lt (.ref k1) (rowType rt) ]
    (code ++ c, rows ++ [.ref (k1 + 1)], k1 + 2)

/-- Indices of the store shuffle: the parent's components, with the selected ones taken from the
assigned value (which follows the parent in the combined list). -/
def storeShuffleIdx (n : Nat) (mask : List Nat) : List Nat :=
  let rec go (idx : List Nat) (i : Nat) : List Nat → List Nat
    | [] => idx
    | w :: ws => go (idx.set w (n + i)) (i + 1) ws
  go (List.range n) 0 mask

mutual
  /-- Lower an expression for its value: code, operand holding the value, next counter. -/
  def lowerE : Expr → Nat → List Instr × Opd × Nat
    | .litI i, k => ([], .cInt i, k)
    | .litF f, k => ([], .cFlt f, k)
    | .var sc key ty, k => ([.load k ty sc key], .ref k, k + 1)
    | .bin op ty l r, k =>
      let (cl, vl, k1) := lowerE l k
      let (cr, vr, k2) := lowerE r k1
      let lt := Expr.ty l
      let rt := Expr.ty r
      if lt.isMatrix && rt.isMatrix then
        if op == .mul then (cl ++ cr ++ [.bin k2 .mMulM ty vl vr], .ref k2, k2 + 1)
        else
          let (rc, rows, k3) := rowsMM op lt rt ty vl vr (rowCount lt) k2
          (cl ++ cr ++ rc ++ [.construct k3 ty rows], .ref k3, k3 + 1)
      else if lt.isMatrix && rt.isVector then
        (cl ++ cr ++ [.bin k2 .mMulV ty vl vr], .ref k2, k2 + 1)
      else if lt.isScalar && rt.isMatrix then
        let (rc, rows, k3) := rowsSM op lt rt ty vl vr (rowCount rt) k2
        (cl ++ cr ++ rc ++ [.construct k3 ty rows], .ref k3, k3 + 1)
      else if lt.isMatrix && rt.isScalar then
        let (rc, rows, k3) := rowsMS op lt rt ty vl vr (rowCount lt) k2
        (cl ++ cr ++ rc ++ [.construct k3 ty rows], .ref k3, k3 + 1)
      else
        (cl ++ cr ++ [mkBin k2 op ty vl lt vr rt], .ref k2, k2 + 1)
    | .cast ty e, k =>
      let (c, v, k1) := lowerE e k
      (c ++ [.cast k1 ty v], .ref k1, k1 + 1)
    | .assign lhs rhs, k =>
      let (c, v, k1) := lowerE rhs k
      let (cs, k2) := lowerStore lhs v k1
      (c ++ cs, v, k2)
    | .affix post inc x, k =>
      let (c, v, k1) := lowerE x k
      let ins := Instr.bin k1 (.s (if inc then .add else .sub)) (Expr.ty x) v (.cInt 1)
      let (cs, k2) := lowerStore x (.ref k1) (k1 + 1)
      (c ++ [ins] ++ cs, if post then v else .ref k1, k2)
    | .call fn ty args, k =>
      let (c, vs, k1) := lowerArgs args k
      (c ++ [.call k1 ty fn vs], .ref k1, k1 + 1)
    | .index kind ty base idx, k =>
      let (cb, vb, k1) := lowerE base k
      let (ci, vi, k2) := lowerE idx k1
      let ins := match kind with
        | .arr => Instr.loadArr k2 ty vb vi
        | .vec => Instr.vecGet k2 ty vb vi
        | .mat => Instr.matGet k2 ty vb vi
      (cb ++ ci ++ [ins], .ref k2, k2 + 1)
    | .member ty base field, k =>
      let (cb, vb, k1) := lowerE base k
      (cb ++ [.loadMem k1 ty vb field], .ref k1, k1 + 1)
    | .swizzle ty base idxs, k =>
      let (cb, vb, k1) := lowerE base k
      (cb ++ [.shuffle k1 ty vb vb idxs], .ref k1, k1 + 1)
    | .construct ty args, k =>
      let (c, vs, k1) := lowerArgs args k
      (c ++ [.construct k1 ty vs], .ref k1, k1 + 1)

  def lowerArgs : Args → Nat → List Instr × List Opd × Nat
    | .nil, k => ([], [], k)
    | .cons e rest, k =>
      let (c, v, k1) := lowerE e k
      let (cs, vs, k2) := lowerArgs rest k1
      (c ++ cs, v :: vs, k2)

  /-- Lower an expression as the target of a store of `v`. -/
  def lowerStore : Expr → Opd → Nat → List Instr × Nat
    | .var sc key _, v, k => ([.store sc key v], k + 1)
    | .index kind ty base idx, v, k =>
      let (cb, vb, k1) := lowerE base k
      let (ci, vi, k2) := lowerE idx k1
      match kind with
      | .arr => (cb ++ ci ++ [.storeArr vb vi v], k2 + 1)
      | .vec =>
        let (cs, k3) := lowerStore base (.ref k2) (k2 + 1)
        (cb ++ ci ++ [.vecSet k2 ty vb vi v] ++ cs, k3)
      | .mat =>
        let (cs, k3) := lowerStore base (.ref k2) (k2 + 1)
        (cb ++ ci ++ [.matSet k2 ty vb vi v] ++ cs, k3)
    | .member _ base field, v, k =>
      let (cb, vb, k1) := lowerE base k
      (cb ++ [.storeMem vb field v], k1 + 1)
    | .swizzle _ base idxs, v, k =>
      let (cb, vb, k1) := lowerE base k
      let bt := Expr.ty base
      let (cs, k2) := lowerStore base (.ref k1) (k1 + 1)
      -- the store shuffle yields the whole updated vector and carries the vector's type
      (cb ++ [.shuffle k1 bt vb v (storeShuffleIdx (vecSize bt) idxs)] ++ cs, k2)
    | e, _, k =>
      -- any other node ignores the assignment context and is lowered for its value
      let (c, _, k1) := lowerE e k
      (c, k1)
end

def lowerOptE : Option Expr → Nat → List Instr × Option Opd × Nat
  | none, k => ([], none, k)
  | some e, k => let (c, v, k1) := lowerE e k; (c, some v, k1)

/-- The branch after a `for` condition: conditional if there is a condition, else straight into the body. -/
def forBranch (v : Option Opd) (lBody lEnd : Nat) : Instr :=
  match v with
  | some p => .brc p lBody lEnd
  | none => .br lBody

/-- Lower a statement; `brk`/`cont` are the labels of the innermost enclosing loop. -/
def lowerS (brk cont : Option Nat) : Stmt → Nat → List Instr × Nat
  | .skip, k => ([], k)
  | .decl name ty none, k => ([.newVar k ty name], k + 1)
  | .decl name ty (some e), k =>
    let (c, v, k1) := lowerE e (k + 1)
    ([.newVar k ty name] ++ c ++ [.store .local (.name name) v], k1 + 1)
  | .expr e, k => let (c, _, k1) := lowerE e k; (c, k1)
  | .seq a b, k =>
    let (ca, k1) := lowerS brk cont a k
    let (cb, k2) := lowerS brk cont b k1
    (ca ++ cb, k2)
  | .ite1 c t, k =>
    let (cc, v, k1) := lowerE c k
    let lT := k1
    let lEnd := k1 + 1
    let (ct, k2) := lowerS brk cont t (k1 + 2)
    (cc ++ [.brc v lT lEnd, .label lT] ++ ct ++ [.label lEnd], k2)
  | .ite2 c t e, k =>
    let (cc, v, k1) := lowerE c k
    let lT := k1
    let lF := k1 + 1
    let lExit := k1 + 2
    let (ct, k2) := lowerS brk cont t (k1 + 3)
    let (ce, k3) := lowerS brk cont e k2
    (cc ++ [.brc v lT lF, .label lT] ++ ct ++ [.br lExit, .label lF] ++ ce ++ [.label lExit], k3)
  | .whileL c body, k =>
    let lStart := k
    let lBody := k + 1
    let lEnd := k + 2
    let (cc, v, k1) := lowerE c (k + 3)
    let (cb, k2) := lowerS (some lEnd) (some lStart) body k1
    ([.label lStart] ++ cc ++ [.brc v lBody lEnd, .label lBody] ++ cb ++ [.br lStart, .label lEnd], k2)
  | .doL body c, k =>
    let lStart := k
    let lCond := k + 1
    let lEnd := k + 2
    let (cb, k1) := lowerS (some lEnd) (some lCond) body (k + 3)
    let (cc, v, k2) := lowerE c k1
    ([.label lStart] ++ cb ++ [.label lCond] ++ cc ++ [.brc v lStart lEnd, .label lEnd], k2)
  | .forL init c next body, k =>
    let (ci, k0) := lowerS brk cont init k
    let lCond := k0
    let lBody := k0 + 1
    let lIncr := k0 + 2
    let lEnd := k0 + 3
    let (cc, v, k1) := lowerOptE c (k0 + 4)
    let (cb, k2) := lowerS (some lEnd) (some lIncr) body k1
    let (cn, _, k3) := lowerOptE next k2
    let branch := forBranch v lBody lEnd
    (ci ++ [.label lCond] ++ cc ++ [branch, .label lBody] ++ cb ++ [.label lIncr] ++ cn ++
      [.br lCond, .label lEnd], k3)
  | .brk, k => ([.br (brk.getD 0)], k + 1)
  | .cont, k => ([.br (cont.getD 0)], k + 1)
  | .ret none, k => ([.ret none], k + 1)
  | .ret (some e), k => let (c, v, k1) := lowerE e k; (c ++ [.ret (some v)], k1 + 1)

def lowerFn (f : FnDef) : Func :=
  { name := f.name, params := f.params, ret := f.ret, code := (lowerS none none f.body 0).1 }

def lowerModule (m : Core.Module) : Program :=
  { funcs := m.fns.map lowerFn, globals := m.globals }

end Lower
end Nsl
