/-!
# Static checks on element selection (property C13): executable model

Mirror of (repaired sources)

* `nsl/passes/ComputeTypes.py`, `_ProcessExpression`, cases `ArrayExpression` and
  `MemberAccessExpression` (swizzle), and `ComputeSwizzleType`;
* `nsl/passes/ValidateArrayAccessType.py`;
* `nsl/passes/ValidateArrayOutOfBoundsAccess.py` (repaired: the index is compared with the FIRST
  dimension of the parent type, and negative constants are rejected);
* `nsl/passes/ValidateSwizzle.py` (`ValidateSwizzleMask` and the visitor).

An access chain `base[i1][i2]…[ik]` is a base type plus the list of index expressions.  Of an
index expression only two things matter to the three passes: whether it is an integer
`LiteralExpression` (and then its value), and its static type.

Modelling decisions (from the code):

* The parser creates `LiteralExpression`s of exactly two kinds: `LiteralExpression(int, Integer())`
  and `LiteralExpression(float, Float())`.  `Idx.lit v` is the first kind (type `int`).  A float
  literal index is `Idx.dyn (.scalar .float)`: the bounds pass does compare its value numerically,
  but `ValidateArrayAccessType` rejects it whatever the outcome (type `Float ()`), and the verdict of
  the compiler is the conjunction of the passes, so the value is irrelevant.
* "rejected" covers every way in which the Python does not accept: a raised `CompileException`, a
  validator returning `False`, and the `AttributeError`s raised by `GetSize()` on a scalar parent,
  by `IsScalar()` on an array-typed index and by `GetMembers()` when swizzling an array.
-/

namespace Nsl.Static

/-- The three scalar types. -/
inductive Comp
  | float | int | uint
  deriving DecidableEq, Repr

/-- Types of values an access chain can walk through.  In `arr elem dims` the Python constructor
asserts `dims` non-empty and all `> 0`; `vec`/`mat` assert their sizes `> 0` (see `wf`). -/
inductive Ty
  | scalar (c : Comp)
  | vec (c : Comp) (n : Nat)
  | mat (c : Comp) (r k : Nat)
  | arr (elem : Ty) (dims : List Nat)
  deriving DecidableEq, Repr

/-- An index expression: an integer literal (of type `int`), or any other expression of static
type `t` (variables, calls, arithmetic, float literals, …). -/
inductive Idx
  | lit (v : Int)
  | dyn (t : Ty)
  deriving DecidableEq, Repr

/-- Well-formed types: the constructor assertions of `types.py`, and the element type of an array
is not itself an array (the grammar only produces `T[d1]…[dn]` with `T` a named type). -/
def wf : Ty → Bool
  | .scalar _ => true
  | .vec _ n => decide (1 ≤ n)
  | .mat _ r k => decide (1 ≤ r) && decide (1 ≤ k)
  | .arr e ds =>
    (match e with
      | .arr _ _ => false
      | _ => wf e)
    && !ds.isEmpty && ds.all (fun d => decide (1 ≤ d))

/-- `WF t` as a (decidable) proposition. -/
abbrev WF (t : Ty) : Prop := wf t = true

/-- `GetSize()`; `none` for scalars (no such method: `AttributeError`). -/
def size : Ty → Option (List Nat)
  | .scalar _ => none
  | .vec _ n => some [n]
  | .mat _ r k => some [r, k]
  | .arr _ ds => some ds

/-- `GetComponentType()`. -/
def componentType : Ty → Ty
  | .scalar c => .scalar c
  | .vec c _ => .scalar c
  | .mat c _ _ => .scalar c
  | .arr e _ => e

/-- `IsScalar()`; on an array type the method does not exist (`AttributeError`, i.e. reject), which
the caller treats exactly like `False`. -/
def isScalar : Ty → Bool
  | .scalar _ => true
  | _ => false

/-- Static type of an index expression. -/
def idxType : Idx → Ty
  | .lit _ => .scalar .int
  | .dyn t => t

/-- Type of `e[i]` for `e : t` (`ComputeTypes._ProcessExpression`, `ArrayExpression` case, after
`nestedSize = parentType.GetSize()`): a matrix gives a vector of `columns` components; more than
one dimension drops the FIRST one; otherwise the component type. -/
def indexResult (t : Ty) : Option Ty :=
  match size t with
  | none => none
  | some nested =>
    match t with
    | .mat c _ k => some (.vec c k)
    | _ =>
      if nested.length > 1 then some (.arr (componentType t) nested.tail)
      else some (componentType t)

/-! ### The three passes on a chain -/

/-- `ComputeTypes` on the chain: the list of parent types, one per index (`none` = an error was
raised: non-scalar index type, or parent without `GetSize`). -/
def computeTypes : Ty → List Idx → Option (List Ty)
  | _, [] => some []
  | t, i :: is =>
    if !isScalar (idxType i) then none        -- ERROR_ARRAY_ACCESS_WITH_NONSCALAR
    else
      match indexResult t with
      | none => none                          -- AttributeError: GetSize
      | some t' =>
        match computeTypes t' is with
        | none => none
        | some ps => some (t :: ps)

/-- `ValidateArrayAccessType`: every index has type `int` or `uint`. -/
def accessTypePass (is : List Idx) : Bool :=
  is.all fun i => !(idxType i != .scalar .int && idxType i != .scalar .uint)

/-- One `ArrayExpression` in `ValidateArrayOutOfBoundsAccess` (repaired):
`dimensionSize = arrayType.GetSize()[0]`; error iff `accessValue < 0 or dimensionSize <= accessValue`. -/
def boundsStep (parent : Ty) : Idx → Bool
  | .dyn _ => true
  | .lit v =>
    match size parent with
    | some (d :: _) => !(decide (v < 0) || decide ((d : Int) ≤ v))
    | _ => false                              -- AttributeError / IndexError

/-- `ValidateArrayOutOfBoundsAccess` on the chain, given the parent types set by `ComputeTypes`. -/
def boundsPass : List Ty → List Idx → Bool
  | p :: ps, i :: is => boundsStep p i && boundsPass ps is
  | _, _ => true

/-- The compiler's verdict on `base[i1]…[ik]`: all three passes succeed. -/
def checkChain (base : Ty) (is : List Idx) : Bool :=
  match computeTypes base is with
  | none => false
  | some parents => accessTypePass is && boundsPass parents is

/-- Static type of the whole chain, when it is typeable (for information; not used by the checks). -/
def chainType : Ty → List Idx → Option Ty
  | t, [] => some t
  | t, _ :: is =>
    match indexResult t with
    | none => none
    | some t' => chainType t' is

/-! ### Swizzles -/

def xyzw : List Char := ['x', 'y', 'z', 'w']
def rgba : List Char := ['r', 'g', 'b', 'a']

/-- `"xyzwrgba"`. -/
def letters : List Char := xyzw ++ rgba

/-- `componentIndex = dict(zip("xyzwrgba", [0, 1, 2, 3, 0, 1, 2, 3]))`; `none` = `KeyError`. -/
def componentIndex (c : Char) : Option Nat :=
  (letters.zip [0, 1, 2, 3, 0, 1, 2, 3]).lookup c

/-- `Utility.ContainsAnyOf(iterable, what)`. -/
def containsAnyOf (xs what : List Char) : Bool :=
  xs.any fun i => what.contains i

/-- `componentIndex[m] >= componentCount` (a `KeyError` counts as an error too; it cannot happen
after the first check). -/
def indexTooBig (componentCount : Nat) (m : Char) : Bool :=
  match componentIndex m with
  | some i => decide (i ≥ componentCount)
  | none => true

/-- `ValidateSwizzleMask(mask, componentCount)`: `true` iff no error is raised. -/
def validateMask (mask : List Char) (componentCount : Nat) : Bool :=
  if mask.any (fun m => !letters.contains m) then false          -- ERROR_INVALID_SWIZZLE_MASK
  else if mask.any (indexTooBig componentCount) then false       -- ERROR_INVALID_SWIZZLE_MASK
  else if containsAnyOf mask xyzw && containsAnyOf mask rgba then false   -- ERROR_MIXED_SWIZZLE_MASK
  else if containsAnyOf mask rgba && containsAnyOf mask xyzw then false
  else true

/-- `e.mask` with `e : t` accepted by `ComputeTypes` (member access case) and the
`ValidateSwizzleMaskVisitor`: vectors with their component count, scalars with 1; a matrix raises
`ERROR_CANNOT_SWIZZLE_PRIMITIVE_TYPE`; an array is "aggregate" but has no `GetMembers`. -/
def swizzleOK (t : Ty) (mask : List Char) : Bool :=
  match t with
  | .vec _ n => validateMask mask n
  | .scalar _ => validateMask mask 1
  | .mat _ _ _ => false
  | .arr _ _ => false

/-- `ComputeSwizzleType(inType, mask)` for a primitive vector/scalar `inType`. -/
def computeSwizzleType (t : Ty) (mask : List Char) : Ty :=
  match componentType t with
  | .scalar c => if mask.length = 1 then .scalar c else .vec c mask.length
  | other => other

/-- Type of an accepted swizzle; `none` if rejected. -/
def swizzleType (t : Ty) (mask : List Char) : Option Ty :=
  if swizzleOK t mask then some (computeSwizzleType t mask) else none

/-! ### Specification, written from the property text -/

namespace Spec

/-- All dimensions an access chain on a value of type `t` walks through, outermost first:
the array dimensions, then matrix rows and columns / vector components of the element. -/
def dimsOf : Ty → List Nat
  | .scalar _ => []
  | .vec _ n => [n]
  | .mat _ r k => [r, k]
  | .arr e ds => ds ++ dimsOf e

/-- Index `i` is acceptable for a dimension of size `d`: a constant must satisfy `0 ≤ v < d`
(it has integer type by construction), any other expression must have type `int` or `uint`. -/
def IdxOK (i : Idx) (d : Nat) : Prop :=
  match i with
  | .lit v => 0 ≤ v ∧ v < (d : Int)
  | .dyn t => t = .scalar .int ∨ t = .scalar .uint

instance (i : Idx) (d : Nat) : Decidable (IdxOK i d) := by
  cases i <;> unfold IdxOK <;> infer_instance

/-- The `j`-th index is acceptable for the `j`-th dimension, for every `j`. -/
def AllOK (idxs : List Idx) (dims : List Nat) : Prop :=
  ∀ j, (hi : j < idxs.length) → (hd : j < dims.length) → IdxOK idxs[j] dims[j]

instance (idxs : List Idx) (dims : List Nat) : Decidable (AllOK idxs dims) := by
  unfold AllOK; infer_instance

/-- A chain is accepted iff it does not select more dimensions than the base type has and every
index is acceptable for the dimension it selects. -/
def ChainOK (base : Ty) (idxs : List Idx) : Prop :=
  idxs.length ≤ (dimsOf base).length ∧ AllOK idxs (dimsOf base)

instance (base : Ty) (idxs : List Idx) : Decidable (ChainOK base idxs) := by
  unfold ChainOK; infer_instance

def chainOK (base : Ty) (idxs : List Idx) : Bool := decide (ChainOK base idxs)

/-- A mask on a vector with `n` components: non-empty, all letters from one of the two sets, and
every letter's position in its set is `< n`. -/
def MaskOK (n : Nat) (mask : List Char) : Prop :=
  mask ≠ [] ∧
  ((∀ c ∈ mask, c ∈ xyzw) ∨ (∀ c ∈ mask, c ∈ rgba)) ∧
  (∀ c ∈ mask, (c ∈ xyzw → xyzw.idxOf c < n) ∧ (c ∈ rgba → rgba.idxOf c < n))

instance (n : Nat) (mask : List Char) : Decidable (MaskOK n mask) := by
  unfold MaskOK; infer_instance

def maskOK (n : Nat) (mask : List Char) : Bool := decide (MaskOK n mask)

end Spec

/-! ### Line-protocol driver

Types: `s:int`, `v:float:3`, `m:float:3:3`, `a:<elemtype>:2,3` (e.g. `a:v:float:3:2,3` is
`float3[2][3]`; the element type cannot be an array).  Indices: `L<int>` (integer literal, e.g.
`L-1`, `L2`) or `T<type>` (non-literal expression of that type, e.g. `Ts:uint`).
Lines: `chain <type> <idx> <idx> …` and `swz <type> <mask>`; answer `accept` / `reject`, or
`error` if the line does not parse (ill-formed types included). -/

def parseComp (s : String) : Option Comp :=
  if s = "float" then some .float
  else if s = "int" then some .int
  else if s = "uint" then some .uint
  else none

/-- Non-array types from `:`-separated fields. -/
def parsePrim : List String → Option Ty
  | ["s", c] => (parseComp c).map .scalar
  | ["v", c, n] =>
    match parseComp c, n.toNat? with
    | some c, some n => some (.vec c n)
    | _, _ => none
  | ["m", c, r, k] =>
    match parseComp c, r.toNat?, k.toNat? with
    | some c, some r, some k => some (.mat c r k)
    | _, _, _ => none
  | _ => none

def parseDims (s : String) : Option (List Nat) :=
  (s.splitOn ",").mapM fun d => d.toNat?

def parseFields : List String → Option Ty
  | "a" :: rest =>
    match rest.getLast?, parsePrim rest.dropLast with
    | some ds, some e => (parseDims ds).map (.arr e)
    | _, _ => none
  | fs => parsePrim fs

/-- Parse a type; `none` if malformed or not well-formed. -/
def parseTy (s : String) : Option Ty :=
  match parseFields (s.splitOn ":") with
  | some t => if wf t then some t else none
  | none => none

def parseIdx (s : String) : Option Idx :=
  match s.toList with
  | 'L' :: rest => (String.ofList rest).toInt?.map .lit
  | 'T' :: rest => (parseTy (String.ofList rest)).map .dyn
  | _ => none

def verdict (b : Bool) : String := if b then "accept" else "reject"

def run (line : String) : String :=
  match (line.splitOn " ").filter (· ≠ "") with
  | "chain" :: ty :: idxs =>
    match parseTy ty, idxs.mapM parseIdx with
    | some t, some is => verdict (checkChain t is)
    | _, _ => "error"
  | ["swz", ty, mask] =>
    match parseTy ty with
    | some t => verdict (swizzleOK t mask.toList)
    | none => "error"
  | _ => "error"

end Nsl.Static
