/-
Model of the integer / name / section framing layer of the WebAssembly writer
(`/repo/nsl/WebAssembly.py`: `PackInteger`, `WriteInteger`, `WriteString`, and the
`WriteByte(id); WriteInteger(len(content)); write(content)` framing).

Bytes are represented as `Nat`; the property file proves every emitted byte is `< 256`.
Executable definitions only, core `Init` only.
-/
namespace Nsl.Leb

/-! ### `int.bit_length` -/

/-- Fuelled helper for `bitLength` (number of halvings until zero). -/
def bitLengthAux : Nat → Nat → Nat
  | 0, _ => 0
  | fuel + 1, n => if n = 0 then 0 else bitLengthAux fuel (n / 2) + 1

/-- Python `int.bit_length` of a non-negative integer (for a negative `v` Python uses `|v|`). -/
def bitLength (n : Nat) : Nat := bitLengthAux n n

/-! ### `PackInteger` — literal mirror of the Python loop -/

/-- The `for i in range(blockCount)` loop, indexed by the number of *remaining* iterations.
`v & 0x7F` on a Python int is `v mod 128` (non-negative, two's complement view);
`v >>= 7` is floor division by 128. `(i + 1) < blockCount` holds iff another iteration follows. -/
def packLoop : Nat → Int → List Nat
  | 0, _ => []
  | k + 1, v =>
    let b := (v % 128).toNat
    let v' := v / 128
    (if k = 0 then b else b + 128) :: packLoop k v'

/-- `PackInteger(v)`; `blockCount = ceil(bit_length(|v|) / 7)`. -/
def packInteger (v : Int) : List Nat :=
  if v = 0 then [0] else packLoop ((bitLength v.natAbs + 6) / 7) v

/-! ### Standard unsigned LEB128 -/

/-- Fuelled helper for `encU`. -/
def encUAux : Nat → Nat → List Nat
  | 0, n => [n % 128]
  | fuel + 1, n => if n < 128 then [n] else (n % 128 + 128) :: encUAux fuel (n / 128)

/-- Standard unsigned LEB128 encoder (emit low 7 bits, continue while the rest is non-zero).
Fuel `n` always suffices because `n / 128 < n` for `n ≥ 128`. -/
def encU (n : Nat) : List Nat := encUAux n n

/-- Accumulating loop of the standard unsigned decoder:
`result |= (byte & 0x7f) << shift; shift += 7; stop when (byte & 0x80) == 0`. -/
def decULoop (acc shift : Nat) : List Nat → Option (Nat × List Nat)
  | [] => none
  | b :: bs =>
    let acc' := acc + (b % 128) * 2 ^ shift
    if b < 128 then some (acc', bs) else decULoop acc' (shift + 7) bs

/-- Standard unsigned LEB128 decoder; returns the value and the unread rest. -/
def decU (bs : List Nat) : Option (Nat × List Nat) := decULoop 0 0 bs

/-! ### Standard signed LEB128 -/

/-- Fuelled helper for `encS`; mirrors `PackSignedInteger`. -/
def encSAux : Nat → Int → List Nat
  | 0, v => [(v % 128).toNat]
  | fuel + 1, v =>
    let b := (v % 128).toNat
    let v' := v / 128
    if (v' = 0 ∧ b < 64) ∨ (v' = -1 ∧ b ≥ 64) then [b] else (b + 128) :: encSAux fuel v'

/-- Standard signed LEB128 encoder. Fuel `|v| + 1` always suffices. -/
def encS (v : Int) : List Nat := encSAux (v.natAbs + 1) v

/-- Accumulating loop of the standard signed decoder:
`result |= (byte & 0x7f) << shift; shift += 7;` on the last byte, if bit 6 is set,
sign-extend: `result |= (~0 << shift)`, i.e. subtract `2^shift`. -/
def decSLoop (acc : Int) (shift : Nat) : List Nat → Option (Int × List Nat)
  | [] => none
  | b :: bs =>
    let acc' := acc + ((b % 128 : Nat) : Int) * 2 ^ shift
    let shift' := shift + 7
    if b < 128 then
      (if b % 128 ≥ 64 then some (acc' - 2 ^ shift', bs) else some (acc', bs))
    else decSLoop acc' shift' bs

/-- Standard signed LEB128 decoder; returns the value and the unread rest. -/
def decS (bs : List Nat) : Option (Int × List Nat) := decSLoop 0 0 bs

/-- Executable test: is `PackInteger(v)` byte-for-byte the signed LEB128 encoding of `v`?
(Proved equivalent to `packInteger v = encS v` in `Nsl.Proofs.Leb`.) -/
def packIsSigned (v : Int) : Bool :=
  v == 0 || bitLength v.natAbs % 7 != 0 ||
    (decide (v < 0) && decide (bitLength (v.natAbs - 1) < bitLength v.natAbs))

/-! ### Framing -/

/-- `WriteInteger(len(payload)); write(payload)` with the standard unsigned size field. -/
def frame (payload : List Nat) : List Nat := encU payload.length ++ payload

/-- The same framing exactly as the Python writes it (through `PackInteger`). -/
def framePy (payload : List Nat) : List Nat := packInteger (payload.length : Int) ++ payload

/-- Reader for a frame: decode the size, then take exactly that many bytes. -/
def unframe (bs : List Nat) : Option (List Nat × List Nat) :=
  match decU bs with
  | none => none
  | some (n, r) => if n ≤ r.length then some (r.take n, r.drop n) else none

/-- `WriteByte(id); WriteInteger(len(content)); write(content)`.
(`section` is a Lean keyword, hence the name.) -/
def sectionBytes (id : Nat) (payload : List Nat) : List Nat := id :: frame payload

/-- Same, exactly as the Python writes it. -/
def sectionBytesPy (id : Nat) (payload : List Nat) : List Nat := id :: framePy payload

/-- Reader for a section: id byte, then a frame. -/
def unsection (bs : List Nat) : Option (Nat × List Nat × List Nat) :=
  match bs with
  | [] => none
  | id :: r =>
    match unframe r with
    | none => none
    | some (p, rest) => some (id, p, rest)

/-- UTF-8 bytes of a string (`PackString`). -/
def utf8 (s : String) : List Nat := s.toUTF8.data.toList.map UInt8.toNat

/-- `WriteString`: length-prefixed UTF-8. -/
def writeString (s : String) : List Nat := frame (utf8 s)

/-- `WriteString` exactly as the Python writes it. -/
def writeStringPy (s : String) : List Nat := framePy (utf8 s)

/-! ### Hex dump for the driver -/

def hexDigit (n : Nat) : Char :=
  if n < 10 then Char.ofNat (48 + n) else Char.ofNat (87 + n)

/-- Two lowercase hex digits per byte, no separators. -/
def hex (bs : List Nat) : String :=
  String.ofList (bs.flatMap fun b => [hexDigit (b / 16 % 16), hexDigit (b % 16)])

end Nsl.Leb
