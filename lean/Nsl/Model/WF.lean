import Nsl.Model.IR
/-!
# Well-formedness of compiled IR (property C14)

* `defOf`, `usesOf`, `targetsOf`, `succs` – syntax-directed views of the flattened IR.
* `WF fn P` – the declarative statement (unique definitions, unique/existing labels, calls resolve
  with the right arity, definite definition of every used reference on **all** paths from pc 0).
* `computeIn` – an **untrusted** forward data-flow analysis producing, for every position, a
  candidate set of definitely-defined references.
* `wfErr` / `wfCheck` / `wfReport` – the certificate checker: it only verifies the candidate
  edge-wise (`in[0] = ∅`, `in[s] ⊆ in[pc] ∪ def(pc)` for every CFG edge, `uses(pc) ⊆ in[pc]`).
  Soundness (`Nsl/Props/C14.lean`) does not depend on how `computeIn` works.

Sets of references are `List Nat`, kept sorted in *descending* order by `computeIn` (so that
adding a fresh, larger reference is a `cons` sharing the tail).  The checker's subset test is a
linear merge that is sound for arbitrary lists and complete for descending ones; the whole check
is quadratic in the number of instructions.
-/
namespace Nsl.WF

/-! ## Syntax-directed views -/

def opdRefs : Opd → List Nat
  | .ref n => [n]
  | _ => []

def opdsRefs : List Opd → List Nat
  | [] => []
  | o :: os => opdRefs o ++ opdsRefs os

/-- The reference defined by an instruction. -/
def defOf : Instr → Option Nat
  | .load dst _ _ _ => some dst
  | .newVar dst _ _ => some dst
  | .bin dst _ _ _ _ => some dst
  | .cast dst _ _ => some dst
  | .call dst _ _ _ => some dst
  | .loadArr dst _ _ _ => some dst
  | .loadMem dst _ _ _ => some dst
  | .vecGet dst _ _ _ => some dst
  | .vecSet dst _ _ _ _ => some dst
  | .matGet dst _ _ _ => some dst
  | .matSet dst _ _ _ _ => some dst
  | .shuffle dst _ _ _ _ => some dst
  | .construct dst _ _ => some dst
  | .label _ => none
  | .store _ _ _ => none
  | .storeArr _ _ _ => none
  | .storeMem _ _ _ => none
  | .br _ => none
  | .brc _ _ _ => none
  | .ret _ => none

/-- Every reference read by an instruction. -/
def usesOf : Instr → List Nat
  | .label _ => []
  | .load _ _ _ _ => []
  | .store _ _ src => opdRefs src
  | .newVar _ _ _ => []
  | .bin _ _ _ a b => opdRefs a ++ opdRefs b
  | .cast _ _ a => opdRefs a
  | .br _ => []
  | .brc p _ _ => opdRefs p
  | .ret none => []
  | .ret (some v) => opdRefs v
  | .call _ _ _ args => opdsRefs args
  | .loadArr _ _ arr idx => opdRefs arr ++ opdRefs idx
  | .storeArr arr idx src => opdRefs arr ++ opdRefs idx ++ opdRefs src
  | .loadMem _ _ obj _ => opdRefs obj
  | .storeMem obj _ src => opdRefs obj ++ opdRefs src
  | .vecGet _ _ v idx => opdRefs v ++ opdRefs idx
  | .vecSet _ _ v idx src => opdRefs v ++ opdRefs idx ++ opdRefs src
  | .matGet _ _ m idx => opdRefs m ++ opdRefs idx
  | .matSet _ _ m idx src => opdRefs m ++ opdRefs idx ++ opdRefs src
  | .shuffle _ _ a b _ => opdRefs a ++ opdRefs b
  | .construct _ _ vals => opdsRefs vals

/-- Labels named by a branch. -/
def targetsOf : Instr → List Nat
  | .br l => [l]
  | .brc _ t f => [t, f]
  | _ => []

/-- The label introduced by a marker. -/
def labelOf : Instr → Option Nat
  | .label l => some l
  | _ => none

/-- Position of a branch target as a (0- or 1-element) successor list. -/
def tgtPos (code : List Instr) (l : Nat) : List Nat :=
  match labelPos code l with
  | some p => [p]
  | none => []

/-- Control-flow successors of position `pc`. -/
def succs (code : List Instr) (pc : Nat) : List Nat :=
  match code[pc]? with
  | none => []
  | some (.br l) => tgtPos code l
  | some (.brc _ t f) => tgtPos code t ++ tgtPos code f
  | some (.ret _) => []
  | some _ => if pc + 1 < code.length then [pc + 1] else []

/-- Reference defined at position `pc` (if any). -/
def defAt (code : List Instr) (pc : Nat) : Option Nat :=
  match code[pc]? with
  | some ins => defOf ins
  | none => none

/-! ## Declarative well-formedness -/

/-- `p` is a control-flow path: consecutive positions are related by `succs`. -/
def IsPath (code : List Instr) : List Nat → Prop
  | [] => True
  | [_] => True
  | a :: b :: rest => b ∈ succs code a ∧ IsPath code (b :: rest)

structure WF (fn : Func) (P : Program) : Prop where
  /-- (a) no two positions define the same reference -/
  uniqueDefs : ∀ (i j : Nat) (a b : Instr) (r : Nat),
    fn.code[i]? = some a → fn.code[j]? = some b → defOf a = some r → defOf b = some r → i = j
  /-- (b1) no two markers carry the same label -/
  uniqueLabels : ∀ (i j l : Nat),
    fn.code[i]? = some (.label l) → fn.code[j]? = some (.label l) → i = j
  /-- (b2) every branch target (both of a conditional branch) is an existing block of `fn` -/
  targetsExist : ∀ (i : Nat) (ins : Instr) (l : Nat),
    fn.code[i]? = some ins → l ∈ targetsOf ins →
    ∃ p, labelPos fn.code l = some p ∧ fn.code[p]? = some (.label l)
  /-- (c) every call names a function of the linked program with the same number of arguments -/
  callsResolve : ∀ (i dst : Nat) (ty : ITy) (f : String) (args : List Opd),
    fn.code[i]? = some (.call dst ty f args) →
    ∃ callee, P.find f = some callee ∧ callee.params.length = args.length
  /-- (d) on every path from the entry (of any length, cycles included) every reference used by
  the last instruction is defined by an instruction at a strictly earlier index of the path -/
  definedOnAllPaths : ∀ (p : List Nat) (q : Nat) (ins : Instr) (r : Nat),
    p.head? = some 0 → IsPath fn.code p → p.getLast? = some q →
    fn.code[q]? = some ins → r ∈ usesOf ins →
    ∃ k d, k + 1 < p.length ∧ p[k]? = some d ∧ defAt fn.code d = some r

/-! ## Descending-sorted list sets -/

/-- Insert into a descending list without duplicates. -/
def insertDesc (d : Nat) : List Nat → List Nat
  | [] => [d]
  | x :: xs =>
    if x < d then d :: x :: xs
    else if x = d then x :: xs
    else x :: insertDesc d xs

/-- `s ∪ {d}` for an optional `d`. -/
def addDef : Option Nat → List Nat → List Nat
  | none, s => s
  | some d, s => insertDesc d s

/-- Intersection of two descending lists (linear). -/
def interDesc : List Nat → List Nat → List Nat
  | [], _ => []
  | x :: xs, ys =>
    let ys' := ys.dropWhile (fun y => x < y)
    match ys' with
    | [] => []
    | y :: yt => if y = x then x :: interDesc xs yt else interDesc xs ys'

/-- Subset test by linear merge: `none` if every element of the first list was found in the
second, otherwise an element that was not found.  Sound for arbitrary lists, complete for
descending ones. -/
def subFail : List Nat → List Nat → Option Nat
  | [], _ => none
  | x :: _, [] => some x
  | x :: xs, y :: ys =>
    if x = y then subFail xs ys
    else if x < y then subFail (x :: xs) ys
    else some x

/-- First element occurring twice. -/
def firstDup : List Nat → Option Nat
  | [] => none
  | x :: xs => if xs.contains x then some x else firstDup xs

/-! ## Untrusted analysis: forward "definitely defined" data flow -/

/-- Analysis state: `none` = not reached yet (top). -/
abbrev St := Array (Option (List Nat))

def meetInto (out : List Nat) (st : St × Bool) (t : Nat) : St × Bool :=
  match st.1[t]? with
  | none => st
  | some none => (st.1.setIfInBounds t (some out), true)
  | some (some old) =>
    let new := interDesc old out
    if new.length == old.length then st else (st.1.setIfInBounds t (some new), true)

def stepPc (code : List Instr) (st : St × Bool) (pc : Nat) : St × Bool :=
  match st.1[pc]? with
  | some (some s) =>
    (succs code pc).foldl (meetInto (addDef (defAt code pc) s)) st
  | _ => st

/-- Round-robin passes until nothing changes (or the fuel runs out). -/
def iter (code : List Instr) (n : Nat) : Nat → St → St
  | 0, st => st
  | fuel + 1, st =>
    let r := (List.range n).foldl (stepPc code) (st, false)
    if r.2 then iter code n fuel r.1 else r.1

/-- All references defined anywhere in the function (descending). -/
def allDefs (code : List Instr) : List Nat :=
  (code.filterMap defOf).foldl (fun acc d => insertDesc d acc) []

/-- Candidate `in` sets.  NOT trusted: `wfCheck` re-verifies the result edge by edge. -/
def computeIn (code : List Instr) : Array (List Nat) :=
  let n := code.length
  let st0 : St := (Array.replicate n none).setIfInBounds 0 (some [])
  let st := iter code n (n + 2) st0
  let top := allDefs code
  (st.toList.map fun
    | some s => s
    | none => top).toArray

/-! ## The certificate checker -/

inductive Err
  | dupDef (ref : Nat)
  | dupLabel (l : Nat)
  | missingLabel (pc l : Nat)
  | unknownFn (pc : Nat) (name : String)
  | arity (pc : Nat) (name : String) (expected got : Nat)
  | entryNotEmpty
  | useBeforeDef (pc ref : Nat)
  | certEdge (pc s ref : Nat)

def Err.msg : Err → String
  | .dupDef r => "dup-def ref=" ++ (toString r)
  | .dupLabel l => "dup-label " ++ (toString l)
  | .missingLabel pc l => "missing-label " ++ (toString l ++ " pc=" ++ toString pc)
  | .unknownFn pc name => "bad-call " ++ (name ++ " pc=" ++ toString pc ++ " unknown-function")
  | .arity pc name e g =>
    "bad-call " ++ (name ++ " pc=" ++ toString pc ++ " params=" ++ toString e ++ " args=" ++ toString g)
  | .entryNotEmpty => "entry-not-empty" ++ ""
  | .useBeforeDef pc r => "use-before-def pc=" ++ (toString pc ++ " ref=" ++ toString r)
  | .certEdge pc s r =>
    "cert-edge pc=" ++ (toString pc ++ " succ=" ++ toString s ++ " ref=" ++ toString r)

/-- Candidate set at a position (empty if the certificate is too short). -/
def inAt (I : Array (List Nat)) (pc : Nat) : List Nat := I.getD pc []

def labelErr (code : List Instr) (pc : Nat) : Option Err :=
  match code[pc]? with
  | none => none
  | some ins =>
    (targetsOf ins).findSome? fun l =>
      if (labelPos code l).isSome then none else some (.missingLabel pc l)

def callErr (code : List Instr) (P : Program) (pc : Nat) : Option Err :=
  match code[pc]? with
  | some (.call _ _ f args) =>
    match P.find f with
    | none => some (.unknownFn pc f)
    | some callee =>
      if callee.params.length = args.length then none
      else some (.arity pc f callee.params.length args.length)
  | _ => none

def useErr (code : List Instr) (I : Array (List Nat)) (pc : Nat) : Option Err :=
  match code[pc]? with
  | none => none
  | some ins =>
    (usesOf ins).findSome? fun r =>
      if (inAt I pc).contains r then none else some (.useBeforeDef pc r)

def edgeErr (code : List Instr) (I : Array (List Nat)) (pc : Nat) : Option Err :=
  let out := addDef (defAt code pc) (inAt I pc)
  (succs code pc).findSome? fun s =>
    match subFail (inAt I s) out with
    | none => none
    | some r => some (.certEdge pc s r)

def orElse (a : Option Err) (b : Unit → Option Err) : Option Err :=
  match a with
  | some e => some e
  | none => b ()

/-- First violated condition, `none` if the function passes. -/
def wfErr (fn : Func) (P : Program) : Option Err :=
  let code := fn.code
  let pcs := List.range code.length
  orElse ((firstDup (code.filterMap defOf)).map .dupDef) fun _ =>
  orElse ((firstDup (code.filterMap labelOf)).map .dupLabel) fun _ =>
  orElse (pcs.findSome? (labelErr code)) fun _ =>
  orElse (pcs.findSome? (callErr code P)) fun _ =>
  let I := computeIn code
  orElse (if (inAt I 0).isEmpty then none else some .entryNotEmpty) fun _ =>
  orElse (pcs.findSome? (useErr code I)) fun _ =>
  pcs.findSome? (edgeErr code I)

def wfCheck (fn : Func) (P : Program) : Bool := (wfErr fn P).isNone

def wfReport (fn : Func) (P : Program) : String :=
  match wfErr fn P with
  | none => "ok"
  | some e => e.msg

end Nsl.WF
