import Nsl.Model.Types

/-!
# Overload resolution (property C10) — executable model

Mirror of the repaired `nsl/types.py`:

* `isCompatible`      ↔ `IsCompatible` (primitive, non-void types only)
* `matchTy`           ↔ module-level `Match`
* `matchSig`          ↔ `Function.Match` (no `__optional` arguments: equal arity required)
* `Scope` (a list)    ↔ `Scope.RegisterFunction` (append, in registration order)
* `findInScope`       ↔ the body of `Scope.FindFunction` for a scope that has the name
* `findFunction`      ↔ `Scope.FindFunction` with the walk to the parent scopes

and, separately, the specification `Spec.best` written from the text of the property only.
-/

namespace Nsl.Overload
open Nsl.Types

/-- A declared function.  `ret` is an opaque identifier of the return type / of the declaration
(two overloads with the same parameter list are told apart by it). -/
structure Sig where
  name : String
  ret : Nat
  params : List Ty
  deriving DecidableEq, Repr

/-! ## Mirror of the Python code -/

/-- `if t.IsVector() and t.GetSize() == (1,): t = t.GetComponentType()` -/
def reduce1 : Ty → Ty
  | .vec c 1 => .scalar c
  | t => t

/-- `IsCompatible(left, right)` for primitive, non-void types. -/
def isCompatible (left right : Ty) : Bool :=
  match reduce1 left, reduce1 right with
  | .vec _ n, .vec _ m => n == m
  | .mat _ r₁ k₁, .mat _ r₂ k₂ => r₁ == r₂ && k₁ == k₂
  | .scalar _, .scalar _ => true
  | _, _ => false

/-- Module-level `Match(leftType, rightType)`: `-1` not convertible, `0` equal, `1` convertible.
Equality is `repr` equality in Python, i.e. structural equality here. -/
def matchTy (arg param : Ty) : Int :=
  if !isCompatible arg param then -1
  else if arg = param then 0
  else 1

/-- The repaired `Function.Match`: arity mismatch → `-1`; a single argument with a negative
score → `-1`; otherwise the sum of the scores. -/
def matchSig (s : Sig) (args : List Ty) : Int :=
  if args.length ≠ s.params.length then -1
  else
    let scores := List.zipWith matchTy args s.params
    if scores.any (· < 0) then -1 else scores.sum

inductive OErr | unknown | noMatch | ambiguous
  deriving DecidableEq, Repr

instance : DecidableEq (Except OErr Sig) := fun a b =>
  match a, b with
  | .ok x, .ok y =>
    if h : x = y then isTrue (by rw [h]) else isFalse (fun h' => h (by cases h'; rfl))
  | .error x, .error y =>
    if h : x = y then isTrue (by rw [h]) else isFalse (fun h' => h (by cases h'; rfl))
  | .ok _, .error _ => isFalse (fun h => by cases h)
  | .error _, .ok _ => isFalse (fun h => by cases h)

/-- All overloads of all names of one scope, in registration order
(`RegisterFunction` appends). -/
abbrev Scope := List Sig

/-- Insertion into a list sorted by score; the new element goes *before* elements of equal
score (it precedes them in the input), which makes `sortByScore` stable. -/
def insertByScore (x : Int × Sig) : List (Int × Sig) → List (Int × Sig)
  | [] => [x]
  | y :: ys => if x.1 ≤ y.1 then x :: y :: ys else y :: insertByScore x ys

/-- Stable sort by score: Python's `sorted(…, key=GetFirst)`. -/
def sortByScore : List (Int × Sig) → List (Int × Sig)
  | [] => []
  | x :: xs => insertByScore x (sortByScore xs)

/-- The decision taken on the filtered ranking. -/
def pickRanked (ranking : List (Int × Sig)) : Except OErr Sig :=
  match ranking with
  | [] => .error .noMatch
  | [p] => .ok p.2
  | p :: q :: _ => if p.1 = q.1 then .error .ambiguous else .ok p.2

/-- Body of `Scope.FindFunction`, parametric in the scoring function (the Props file uses this
to exhibit the behaviour of the unrepaired scoring rule).  `none` ⇔ the name is not registered
in this scope. -/
def findInScopeWith (score : Sig → List Ty → Int) (sc : Scope) (name : String)
    (args : List Ty) : Option (Except OErr Sig) :=
  let candidates := sc.filter (fun c => c.name == name)
  if candidates.isEmpty then none
  else
    let ranking :=
      (sortByScore (candidates.map fun c => (score c args, c))).filter (fun p => 0 ≤ p.1)
    some (pickRanked ranking)

def findInScope (sc : Scope) (name : String) (args : List Ty) : Option (Except OErr Sig) :=
  findInScopeWith matchSig sc name args

/-- `Scope.FindFunction` including the walk to the parents; `chain` lists the scopes innermost
first.  A scope in which the name is registered answers, even if the answer is an error. -/
def findFunction (chain : List Scope) (name : String) (args : List Ty) : Except OErr Sig :=
  match chain with
  | [] => .error .unknown
  | sc :: rest =>
    match findInScope sc name args with
    | some r => r
    | none => findFunction rest name args

/-! ## Specification, from the text of the property -/

namespace Spec

/-- The `i`-th argument is convertible to the `i`-th parameter. -/
def convertibleAt (args params : List Ty) (i : Nat) : Bool :=
  match args[i]?, params[i]? with
  | some a, some p => isCompatible a p
  | _, _ => false

/-- A declaration is a candidate for the call iff it has that name, the argument count matches
and every argument is convertible to the corresponding parameter. -/
def viable (s : Sig) (name : String) (args : List Ty) : Bool :=
  s.name == name && s.params.length == args.length &&
    (List.range args.length).all fun i => convertibleAt args s.params i

/-- Number of conversions needed: positions at which argument and parameter types differ. -/
def cost (s : Sig) (args : List Ty) : Nat :=
  ((List.range args.length).filter fun i => args[i]? != s.params[i]?).length

/-- Minimum of a list of naturals (`0` for the empty list, never used). -/
def minOf : List Nat → Nat
  | [] => 0
  | [x] => x
  | x :: xs => min x (minOf xs)

/-- The function a call must resolve to. -/
def best (sc : Scope) (name : String) (args : List Ty) : Except OErr Sig :=
  if sc.all (fun s => s.name != name) then .error .unknown
  else
    let vs := sc.filter (fun s => viable s name args)
    if vs.isEmpty then .error .noMatch
    else
      let m := minOf (vs.map fun s => cost s args)
      match vs.filter (fun s => cost s args == m) with
      | [w] => .ok w
      | _ => .error .ambiguous

/-- Resolution through nested scopes (innermost first): the innermost scope that declares a
function of that name decides. -/
def resolve (chain : List Scope) (name : String) (args : List Ty) : Except OErr Sig :=
  match chain.find? (fun sc => sc.any (fun s => s.name == name)) with
  | none => .error .unknown
  | some sc => best sc name args

end Spec

/-! ## Driver helpers -/

def parseComp? : String → Option Comp
  | "float" => some .float
  | "int" => some .int
  | "uint" => some .uint
  | _ => none

/-- Textual type syntax `s:float`, `v:int:3`, `m:float:3:4` (sizes ≥ 1). -/
def parseTy? (s : String) : Option Ty :=
  match s.splitOn ":" with
  | ["s", c] => (parseComp? c).map .scalar
  | ["v", c, n] =>
      match parseComp? c, n.toNat? with
      | some c, some n => if 1 ≤ n then some (.vec c n) else none
      | _, _ => none
  | ["m", c, r, k] =>
      match parseComp? c, r.toNat?, k.toNat? with
      | some c, some r, some k => if 1 ≤ r ∧ 1 ≤ k then some (.mat c r k) else none
      | _, _, _ => none
  | _ => none

def resultStr : Except OErr Sig → String
  | .error .unknown => "unknown"
  | .error .noMatch => "nomatch"
  | .error .ambiguous => "ambiguous"
  | .ok s => s!"ok {s.ret}"

end Nsl.Overload
