import Nsl.Model.Core
/-!
# The scalar core of the typed language (domain of the C01/C03/C15 simulation theorem, stage 1)

Programs over `int`/`float`/`uint` scalars: literals, variables of the three scopes, the thirteen
binary operators, implicit casts, assignment (plain; the compound forms are `x = x op e` after
`RewriteAssignEqual`), `++`/`--`, calls; every statement form.  `inLoop` tracks whether a
`break`/`continue` is enclosed by a loop (what `ValidateFlowStatements` checks, property C11).

Local arrays and structs used as storage are *not* in this predicate: they are covered by the
behavioural correspondence only (see `Props/C01.lean`).
-/
namespace Nsl
namespace Core

def keyOK : Scope → VarKey → Bool
  | .global, .name _ => true
  | .local, .name _ => true
  | .arg, .index _ => true
  | _, _ => false

/-- An assignable scalar variable. -/
def okVar : Expr → Bool
  | .var sc key ty => ty.isScalar && keyOK sc key
  | _ => false

mutual
  def okE : Expr → Bool
    | .litI _ => true
    | .litF _ => true
    | .var sc key ty => ty.isScalar && keyOK sc key
    | .bin _ ty l r => ty.isScalar && (Expr.ty l).isScalar && (Expr.ty r).isScalar && okE l && okE r
    | .cast ty e => ty.isScalar && okE e
    | .assign lhs rhs => okVar lhs && okE rhs
    | .affix _ _ x => okVar x
    | .call _ _ args => okArgs args
    | .index _ _ _ _ => false
    | .member _ _ _ => false
    | .swizzle _ _ _ => false
    | .construct _ _ => false
  def okArgs : Args → Bool
    | .nil => true
    | .cons e rest => okE e && okArgs rest
end

def okOptE : Option Expr → Bool
  | none => true
  | some e => okE e

def okS (inLoop : Bool) : Stmt → Bool
  | .skip => true
  | .decl _ ty none => ty.isScalar
  | .decl _ ty (some e) => ty.isScalar && okE e
  | .expr e => okE e
  | .seq a b => okS inLoop a && okS inLoop b
  | .ite1 c t => okE c && okS inLoop t
  | .ite2 c t e => okE c && okS inLoop t && okS inLoop e
  | .whileL c body => okE c && okS true body
  | .doL body c => okS true body && okE c
  | .forL init c next body => okS inLoop init && okOptE c && okOptE next && okS true body
  | .brk => inLoop
  | .cont => inLoop
  | .ret none => true
  | .ret (some e) => okE e

/-- Every function body is in the scalar core, parameters and globals are scalars. -/
def okFn (f : FnDef) : Bool := okS false f.body

def ScalarCore (M : Module) : Prop := ∀ f ∈ M.fns, okFn f = true

/-! ## The additional (decidable) hypothesis -/

mutual
  /-- The `(scope, key)` pairs of the variable occurrences of an expression. -/
  def accE : Expr → List (Scope × VarKey)
    | .litI _ => []
    | .litF _ => []
    | .var sc key _ => [(sc, key)]
    | .bin _ _ l r => accE l ++ accE r
    | .cast _ e => accE e
    | .assign lhs rhs => accE lhs ++ accE rhs
    | .affix _ _ x => accE x
    | .call _ _ args => accArgs args
    | .index _ _ base idx => accE base ++ accE idx
    | .member _ base _ => accE base
    | .swizzle _ base _ => accE base
    | .construct _ args => accArgs args
  def accArgs : Args → List (Scope × VarKey)
    | .nil => []
    | .cons e rest => accE e ++ accArgs rest
end

def accOptE : Option Expr → List (Scope × VarKey)
  | none => []
  | some e => accE e

/-- The variable accesses of a statement: the variable occurrences of its expressions, and the local variable written
by an initialising declaration. -/
def accS : Stmt → List (Scope × VarKey)
  | .skip => []
  | .decl _ _ none => []
  | .decl name _ (some e) => (.local, .name name) :: accE e
  | .expr e => accE e
  | .seq a b => accS a ++ accS b
  | .ite1 c t => accE c ++ accS t
  | .ite2 c t e => accE c ++ accS t ++ accS e
  | .whileL c body => accE c ++ accS body
  | .doL body c => accS body ++ accE c
  | .forL init c next body => accS init ++ accOptE c ++ accOptE next ++ accS body
  | .brk => []
  | .cont => []
  | .ret none => []
  | .ret (some e) => accE e

/-- No key is accessed under two different scopes. -/
def scopesAgree (V : List (Scope × VarKey)) : Bool :=
  V.all fun a => V.all fun b => !(a.2 == b.2) || a.1 == b.1

/-- Inside one function a variable key denotes one variable: a name is not used both for a local and for a global
(argument keys are positions and cannot clash with names). -/
def noShadowFn (f : FnDef) : Bool := scopesAgree (accS f.body)

def NoShadow (M : Module) : Prop := ∀ f ∈ M.fns, noShadowFn f = true

instance (M : Module) : Decidable (ScalarCore M) := by unfold ScalarCore; exact inferInstance
instance (M : Module) : Decidable (NoShadow M) := by unfold NoShadow; exact inferInstance

/-! ## Calls resolve (what the front end's overload resolution guarantees; hypothesis of the C14 lowering theorem) -/

/-- Number of arguments of an argument list. -/
def argCount : Args → Nat
  | .nil => 0
  | .cons _ rest => argCount rest + 1

/-- Number of parameters of the function a call of `name` resolves to: the FIRST definition of that name, exactly as
`Program.find` (and `CoreSem.findFn`) look it up. -/
def arityOf (M : Module) (name : String) : Option Nat :=
  (M.fns.find? (fun f => f.name == name)).map (fun f => f.params.length)

mutual
  /-- Every call inside the expression is accepted by `sig` (callee name, number of arguments).  Defined on ALL
  expression forms of the typed core. -/
  def callsE (sig : String → Nat → Bool) : Expr → Bool
    | .litI _ => true
    | .litF _ => true
    | .var _ _ _ => true
    | .bin _ _ l r => callsE sig l && callsE sig r
    | .cast _ e => callsE sig e
    | .assign lhs rhs => callsE sig lhs && callsE sig rhs
    | .affix _ _ x => callsE sig x
    | .call fn _ args => sig fn (argCount args) && callsArgs sig args
    | .index _ _ base idx => callsE sig base && callsE sig idx
    | .member _ base _ => callsE sig base
    | .swizzle _ base _ => callsE sig base
    | .construct _ args => callsArgs sig args
  def callsArgs (sig : String → Nat → Bool) : Args → Bool
    | .nil => true
    | .cons e rest => callsE sig e && callsArgs sig rest
end

def callsOptE (sig : String → Nat → Bool) : Option Expr → Bool
  | none => true
  | some e => callsE sig e

def callsS (sig : String → Nat → Bool) : Stmt → Bool
  | .skip => true
  | .decl _ _ none => true
  | .decl _ _ (some e) => callsE sig e
  | .expr e => callsE sig e
  | .seq a b => callsS sig a && callsS sig b
  | .ite1 c t => callsE sig c && callsS sig t
  | .ite2 c t e => callsE sig c && callsS sig t && callsS sig e
  | .whileL c body => callsE sig c && callsS sig body
  | .doL body c => callsS sig body && callsE sig c
  | .forL init c next body => callsS sig init && callsOptE sig c && callsOptE sig next && callsS sig body
  | .brk => true
  | .cont => true
  | .ret none => true
  | .ret (some e) => callsE sig e

/-- A call of `name` with `n` arguments resolves in `M`: the function of that name has `n` parameters. -/
def resolves (M : Module) (name : String) (n : Nat) : Bool := arityOf M name == some n

/-- Every call in every function body of `M` names a function of `M` and passes as many arguments as that function
has parameters. -/
def callsResolve (M : Module) : Bool := M.fns.all fun f => callsS (resolves M) f.body

end Core
end Nsl
