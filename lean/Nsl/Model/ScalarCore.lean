import Nsl.Model.Core
/-!
# The scalar core of the typed language (domain of the C01/C03/C15 simulation theorem, stage 1)

Programs over `int`/`float`/`uint` scalars: literals, variables of the three scopes, the thirteen
binary operators, implicit casts, assignment (plain; the compound forms are `x = x op e` after
`RewriteAssignEqual`), `++`/`--`, calls; every statement form.  `inLoop` tracks whether a
`break`/`continue` is enclosed by a loop (what `ValidateFlowStatements` checks, property C11).

Local arrays and structs used as storage are *not* in this predicate: they are covered by the
behavioural correspondence only (see `Props/C01.lean`).
-/
namespace Nsl
namespace Core

def keyOK : Scope → VarKey → Bool
  | .global, .name _ => true
  | .local, .name _ => true
  | .arg, .index _ => true
  | _, _ => false

/-- An assignable scalar variable. -/
def okVar : Expr → Bool
  | .var sc key ty => ty.isScalar && keyOK sc key
  | _ => false

mutual
  def okE : Expr → Bool
    | .litI _ => true
    | .litF _ => true
    | .var sc key ty => ty.isScalar && keyOK sc key
    | .bin _ ty l r => ty.isScalar && (Expr.ty l).isScalar && (Expr.ty r).isScalar && okE l && okE r
    | .cast ty e => ty.isScalar && okE e
    | .assign lhs rhs => okVar lhs && okE rhs
    | .affix _ _ x => okVar x
    | .call _ _ args => okArgs args
    | .index _ _ _ _ => false
    | .member _ _ _ => false
    | .swizzle _ _ _ => false
    | .construct _ _ => false
  def okArgs : Args → Bool
    | .nil => true
    | .cons e rest => okE e && okArgs rest
end

def okOptE : Option Expr → Bool
  | none => true
  | some e => okE e

def okS (inLoop : Bool) : Stmt → Bool
  | .skip => true
  | .decl _ ty none => ty.isScalar
  | .decl _ ty (some e) => ty.isScalar && okE e
  | .expr e => okE e
  | .seq a b => okS inLoop a && okS inLoop b
  | .ite1 c t => okE c && okS inLoop t
  | .ite2 c t e => okE c && okS inLoop t && okS inLoop e
  | .whileL c body => okE c && okS true body
  | .doL body c => okS true body && okE c
  | .forL init c next body => okS inLoop init && okOptE c && okOptE next && okS true body
  | .brk => inLoop
  | .cont => inLoop
  | .ret none => true
  | .ret (some e) => okE e

/-- Every function body is in the scalar core, parameters and globals are scalars. -/
def okFn (f : FnDef) : Bool := okS false f.body

def ScalarCore (M : Module) : Prop := ∀ f ∈ M.fns, okFn f = true

end Core
end Nsl
