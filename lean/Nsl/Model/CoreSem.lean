import Nsl.Model.Core
import Nsl.Model.VM
/-!
# Reference semantics of the typed core (tree-walking interpreter)

The C-like meaning of a program, independent of the IR: expressions are evaluated left to right,
an assignment evaluates its right-hand side before the target's index expressions, `break` leaves
and `continue` re-tests the innermost loop (a `for` still runs its increment, a `do` re-tests),
a declaration re-initialises its variable each time it executes, a call binds the evaluated
arguments in a fresh frame.  Arithmetic on values is the same `scalarBin`/`castExec` that the VM
model uses (both sides apply the same operations to the same operands in the same order).

Every function decreases one fuel argument at each recursive call, so `evalE fuel …` is defined
by structural recursion on `fuel`; results are monotone in the fuel.
-/
namespace Nsl
namespace CoreSem
open Core VM

inductive EOut
  | val (v : Val) (fr : Frame) (g : Globals)
  | fail (e : Err)
  deriving Inhabited

inductive AOut
  | vals (vs : List Val) (fr : Frame) (g : Globals)
  | fail (e : Err)
  deriving Inhabited

inductive POut
  | place (r : Root) (p : List Key) (fr : Frame) (g : Globals)
  | fail (e : Err)
  deriving Inhabited

inductive SOut
  | normal (fr : Frame) (g : Globals)
  | brk (fr : Frame) (g : Globals)
  | cont (fr : Frame) (g : Globals)
  | ret (v : Val) (fr : Frame) (g : Globals)
  | fail (e : Err)
  deriving Inhabited

inductive COut
  | done (v : Val) (g : Globals) (args : List Val)
  | fail (e : Err)
  deriving Inhabited

def findFn (M : Core.Module) (name : String) : Option FnDef :=
  M.fns.find? (fun f => f.name == name)

def rowsZip (o : SOp) (it : Bool) : List Val → List Val → Except Err (List Val)
  | x :: xs, y :: ys => do
    let xr ← asList x; let yr ← asList y
    let z ← zipBin o it xr yr
    let rest ← rowsZip o it xs ys
    .ok (.list z :: rest)
  | _, _ => .ok []

def rowsMapR (o : SOp) (it : Bool) (s : Val) : List Val → Except Err (List Val)
  | x :: xs => do
    let xr ← asList x
    let z ← mapBinR o it s xr
    let rest ← rowsMapR o it s xs
    .ok (.list z :: rest)
  | [] => .ok []

/-- Meaning of a binary operator given the static types (component-wise for vectors and
matrices, matrix product for `*`).  `s * v` is computed as `v * s` per component (as the lowering
does; IEEE multiplication is commutative). -/
def binSem (op : BOp) (ty lt rt : ITy) (a b : Val) : Except Err Val :=
  let it := scIsInt ty
  let o := op.toSOp
  if lt.isScalar && rt.isScalar then scalarBin o it a b
  else if lt.isVector && rt.isVector then do
    let xs ← asList a; let ys ← asList b; let zs ← zipBin o it xs ys; .ok (.list zs)
  else if lt.isVector && rt.isScalar && (op == .mul || op == .div) then do
    let xs ← asList a; let zs ← mapBinR o it b xs; .ok (.list zs)
  else if lt.isScalar && rt.isVector && op == .mul then do
    let ys ← asList b; let zs ← mapBinR o it a ys; .ok (.list zs)
  else if lt.isMatrix && rt.isMatrix then
    if op == .mul then
      match ty with
      | .mat _ r c => do let m0 ← asList a; let m1 ← asList b; let z ← matMul r c m0 m1; .ok (.list z)
      | _ => .error (.internal "matmul-result-type")
    else do
      let r0 ← asList a; let r1 ← asList b
      let z ← rowsZip o it r0 r1
      .ok (.list z)
  else if lt.isMatrix && rt.isVector && op == .mul then do
    let m ← asList a; let v ← asList b; let z ← matMulVec m v; .ok (.list z)
  else if lt.isMatrix && rt.isScalar && (op == .mul || op == .div) then do
    let r0 ← asList a
    let z ← rowsMapR o it b r0
    .ok (.list z)
  else if lt.isScalar && rt.isMatrix && op == .mul then do
    let r1 ← asList b
    let z ← rowsMapR o it a r1
    .ok (.list z)
  else .error (.internal "no-opcode-for-operation")

/-- New value of a vector after a swizzle store: component `mask[i]` takes the `i`-th component of
the assigned value. -/
def swizzleStore (old : Val) (mask : List Nat) (v : Val) : Except Err Val :=
  let xs := match old with | .list vs => vs | x => [x]
  let ys := match v with | .list vs => vs | y => [y]
  let rec go (acc : List Val) (i : Nat) : List Nat → Except Err (List Val)
    | [] => .ok acc
    | w :: ws => match ys[i]? with
      | some y => if w < acc.length then go (acc.set w y) (i + 1) ws else .error (.internal "shuffle-index")
      | none => .error (.internal "shuffle-index")
  match go xs 0 mask with
  | .error e => .error e
  | .ok r => match old, r with
    | .list _, _ => .ok (.list r)
    | _, [x] => .ok x
    | _, _ => .ok (.list r)

def noPtr (v : Val) : Except Err Val :=
  match v with
  | .ptr _ _ => .error (.unsupported "whole-aggregate-assignment")
  | v => .ok v

mutual
  def evalE (M : Core.Module) : Nat → Expr → Frame → Globals → EOut
    | 0, _, _, _ => .fail .timeout
    | fuel + 1, e, fr, g =>
      match e with
      | .litI i => .val (.int i) fr g
      | .litF f => .val (.flt f) fr g
      | .var sc key _ =>
        match rootOf sc key with
        | .error er => .fail er
        | .ok root => match readRoot fr g root with
          | .error er => .fail er
          | .ok v => .val v fr g
      | .bin op ty l r =>
        match evalE M fuel l fr g with
        | .fail er => .fail er
        | .val a fr1 g1 =>
          match evalE M fuel r fr1 g1 with
          | .fail er => .fail er
          | .val b fr2 g2 =>
            match binSem op ty (Expr.ty l) (Expr.ty r) a b with
            | .error er => .fail er
            | .ok z => .val z fr2 g2
      | .cast ty x =>
        match evalE M fuel x fr g with
        | .fail er => .fail er
        | .val a fr1 g1 =>
          match castExec ty a with
          | .error er => .fail er
          | .ok z => .val z fr1 g1
      | .assign lhs rhs =>
        match evalE M fuel rhs fr g with
        | .fail er => .fail er
        | .val v fr1 g1 =>
          match storeTo M fuel lhs v fr1 g1 with
          | .fail er => .fail er
          | .val _ fr2 g2 => .val v fr2 g2
      | .affix post inc x =>
        match evalE M fuel x fr g with
        | .fail er => .fail er
        | .val old fr1 g1 =>
          match scalarBin (if inc then .add else .sub) (scIsInt (Expr.ty x)) old (.int 1) with
          | .error er => .fail er
          | .ok new =>
            match storeTo M fuel x new fr1 g1 with
            | .fail er => .fail er
            | .val _ fr2 g2 => .val (if post then old else new) fr2 g2
      | .call fn _ args =>
        match evalArgs M fuel args fr g with
        | .fail er => .fail er
        | .vals vs fr1 g1 =>
          match callFn M fuel fn vs g1 with
          | .fail er => .fail er
          | .done v g2 _ => .val v fr1 g2
      | .index .arr _ _ _ | .member _ _ _ =>
        match evalPlace M fuel e fr g with
        | .fail er => .fail er
        | .place r p fr1 g1 =>
          match (do let root ← readRoot fr1 g1 r; getPath root p) with
          | .error er => .fail er
          | .ok v => .val v fr1 g1
      | .index _ _ base idx =>
        match evalE M fuel base fr g with
        | .fail er => .fail er
        | .val b fr1 g1 =>
          match evalE M fuel idx fr1 g1 with
          | .fail er => .fail er
          | .val i fr2 g2 =>
            match (do let k ← indexOf b i; getKey b (.idx k)) with
            | .error er => .fail er
            | .ok v => .val v fr2 g2
      | .swizzle ty base idxs =>
        match evalE M fuel base fr g with
        | .fail er => .fail er
        | .val b fr1 g1 =>
          match shuffleExec ty b b idxs with
          | .error er => .fail er
          | .ok v => .val v fr1 g1
      | .construct ty args =>
        match evalArgs M fuel args fr g with
        | .fail er => .fail er
        | .vals vs fr1 g1 =>
          match constructExec ty vs with
          | .error er => .fail er
          | .ok v => .val v fr1 g1

  def evalArgs (M : Core.Module) : Nat → Args → Frame → Globals → AOut
    | 0, _, _, _ => .fail .timeout
    | fuel + 1, as, fr, g =>
      match as with
      | .nil => .vals [] fr g
      | .cons e rest =>
        match evalE M fuel e fr g with
        | .fail er => .fail er
        | .val v fr1 g1 =>
          match evalArgs M fuel rest fr1 g1 with
          | .fail er => .fail er
          | .vals vs fr2 g2 => .vals (v :: vs) fr2 g2

  /-- Evaluate an access chain rooted at an aggregate variable to the place it designates. -/
  def evalPlace (M : Core.Module) : Nat → Expr → Frame → Globals → POut
    | 0, _, _, _ => .fail .timeout
    | fuel + 1, e, fr, g =>
      match e with
      | .var sc key _ =>
        match rootOf sc key with
        | .error er => .fail er
        | .ok root => .place root [] fr g
      | .index .arr _ base idx =>
        match evalPlace M fuel base fr g with
        | .fail er => .fail er
        | .place r p fr1 g1 =>
          match evalE M fuel idx fr1 g1 with
          | .fail er => .fail er
          | .val i fr2 g2 =>
            match (do let root ← readRoot fr2 g2 r; let c ← getPath root p; indexOf c i) with
            | .error er => .fail er
            | .ok k => .place r (p ++ [.idx k]) fr2 g2
      | .member _ base field =>
        match evalPlace M fuel base fr g with
        | .fail er => .fail er
        | .place r p fr1 g1 => .place r (p ++ [.fld field]) fr1 g1
      | _ => .fail (.unsupported "place-of-non-variable")

  /-- Store `v` into the target `lhs`. The value component of the result is unused. -/
  def storeTo (M : Core.Module) : Nat → Expr → Val → Frame → Globals → EOut
    | 0, _, _, _, _ => .fail .timeout
    | fuel + 1, lhs, v, fr, g =>
      match lhs with
      | .var sc key _ =>
        match (do let root ← rootOf sc key; let v' ← noPtr v; writeRoot fr g root v') with
        | .error er => .fail er
        | .ok (fr1, g1) => .val v fr1 g1
      | .index .arr _ _ _ | .member _ _ _ =>
        match evalPlace M fuel lhs fr g with
        | .fail er => .fail er
        | .place r p fr1 g1 =>
          match (do
            let v' ← noPtr v
            let root ← readRoot fr1 g1 r
            let root' ← setPath root p v'
            writeRoot fr1 g1 r root') with
          | .error er => .fail er
          | .ok (fr2, g2) => .val v fr2 g2
      | .index _ _ base idx =>
        match evalE M fuel base fr g with
        | .fail er => .fail er
        | .val b fr1 g1 =>
          match evalE M fuel idx fr1 g1 with
          | .fail er => .fail er
          | .val i fr2 g2 =>
            match (do let k ← indexOf b i; setKey b (.idx k) v) with
            | .error er => .fail er
            | .ok b' => storeTo M fuel base b' fr2 g2
      | .swizzle _ base idxs =>
        match evalE M fuel base fr g with
        | .fail er => .fail er
        | .val b fr1 g1 =>
          match swizzleStore b idxs v with
          | .error er => .fail er
          | .ok b' => storeTo M fuel base b' fr1 g1
      | e => evalE M fuel e fr g

  def execS (M : Core.Module) : Nat → Stmt → Frame → Globals → SOut
    | 0, _, _, _ => .fail .timeout
    | fuel + 1, s, fr, g =>
      match s with
      | .skip => .normal fr g
      | .decl name ty init =>
        let fr0 := { fr with locals := Map.set fr.locals name (createInstance ty) }
        match init with
        | none => .normal fr0 g
        | some e =>
          match evalE M fuel e fr0 g with
          | .fail er => .fail er
          | .val v fr1 g1 =>
            match noPtr v with
            | .error er => .fail er
            | .ok v' => .normal { fr1 with locals := Map.set fr1.locals name v' } g1
      | .expr e =>
        match evalE M fuel e fr g with
        | .fail er => .fail er
        | .val _ fr1 g1 => .normal fr1 g1
      | .seq a b =>
        match execS M fuel a fr g with
        | .normal fr1 g1 => execS M fuel b fr1 g1
        | o => o
      | .ite1 c t =>
        match evalE M fuel c fr g with
        | .fail er => .fail er
        | .val v fr1 g1 => if v.truthy then execS M fuel t fr1 g1 else .normal fr1 g1
      | .ite2 c t e =>
        match evalE M fuel c fr g with
        | .fail er => .fail er
        | .val v fr1 g1 => if v.truthy then execS M fuel t fr1 g1 else execS M fuel e fr1 g1
      | .whileL c body =>
        match evalE M fuel c fr g with
        | .fail er => .fail er
        | .val v fr1 g1 =>
          if v.truthy then
            match execS M fuel body fr1 g1 with
            | .normal fr2 g2 | .cont fr2 g2 => execS M fuel (.whileL c body) fr2 g2
            | .brk fr2 g2 => .normal fr2 g2
            | o => o
          else .normal fr1 g1
      | .doL body c =>
        match execS M fuel body fr g with
        | .normal fr1 g1 | .cont fr1 g1 =>
          match evalE M fuel c fr1 g1 with
          | .fail er => .fail er
          | .val v fr2 g2 => if v.truthy then execS M fuel (.doL body c) fr2 g2 else .normal fr2 g2
        | .brk fr1 g1 => .normal fr1 g1
        | o => o
      | .forL init c next body =>
        match execS M fuel init fr g with
        | .normal fr0 g0 =>
          let condOut : EOut := match c with
            | none => .val (.int 1) fr0 g0
            | some ce => evalE M fuel ce fr0 g0
          match condOut with
          | .fail er => .fail er
          | .val v fr1 g1 =>
            if v.truthy then
              match execS M fuel body fr1 g1 with
              | .normal fr2 g2 | .cont fr2 g2 =>
                let nextOut : EOut := match next with
                  | none => .val .none fr2 g2
                  | some ne => evalE M fuel ne fr2 g2
                match nextOut with
                | .fail er => .fail er
                | .val _ fr3 g3 => execS M fuel (.forL .skip c next body) fr3 g3
              | .brk fr2 g2 => .normal fr2 g2
              | o => o
            else .normal fr1 g1
        | o => o
      | .brk => .brk fr g
      | .cont => .cont fr g
      | .ret none => .ret .none fr g
      | .ret (some e) =>
        match evalE M fuel e fr g with
        | .fail er => .fail er
        | .val v fr1 g1 =>
          match v with
          | .ptr r p =>
            match (do let root ← readRoot fr1 g1 r; getPath root p) with
            | .error er => .fail er
            | .ok v' => .ret v' fr1 g1
          | v => .ret v fr1 g1

  def callFn (M : Core.Module) : Nat → String → List Val → Globals → COut
    | 0, _, _, _ => .fail .timeout
    | fuel + 1, name, args, g =>
      match findFn M name with
      | none => .fail (.internal "KeyError-function")
      | some f =>
        match execS M fuel f.body { args := args } g with
        | .normal fr1 g1 => .done .none g1 fr1.args
        | .ret v fr1 g1 => .done v g1 fr1.args
        | .brk _ _ | .cont _ _ => .fail (.internal "break-outside-loop")
        | .fail er => .fail er
end

def invoke (M : Core.Module) (fuel : Nat) (name : String) (args : List Val) (g : Globals) : COut :=
  callFn M fuel name args g

end CoreSem
end Nsl
