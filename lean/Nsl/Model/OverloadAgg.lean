import Nsl.Model.Overload

/-!
# Overload resolution over the full type universe (property C10, aggregates) — executable model

Extension of `Nsl/Model/Overload.lean` to arrays, structures and optional parameters.  Mirror of
`nsl/types.py` (current version):

* `ATy`               ↔ primitive types / `ArrayType(elementType, arraySize)` /
                        `StructType(name, declarations)`
* `isCompatibleA`     ↔ `IsCompatible`
* `matchTyA`          ↔ module-level `Match`
* `matchParamsA`, `matchSigA` ↔ `Function.Match` (with the cut-off of `__optional` arguments)
* `findInScopeA`      ↔ the body of `Scope.FindFunction` for a scope that has the name
* `findFunctionA`     ↔ `Scope.FindFunction` with the walk to the parent scopes

and, separately, the specification `SpecA.best` / `SpecA.resolve` written from the text of the
property only.  (`Void` is not in the universe: it cannot be the type of a parameter.)
-/

namespace Nsl.Overload
open Nsl.Types

/-- The full type universe of parameter types.  Python `==` on types is structural
(`ArrayType`: element type and size; `StructType`: name and declarations). -/
inductive ATy
  | prim (t : Ty)                                          -- scalar / vec / mat
  | arr (elem : ATy) (dims : List Nat)                     -- ArrayType(elementType, arraySize)
  | struct (name : String) (fields : List (String × ATy))  -- StructType(name, declarations)

/-! ### Decidable equality (written by hand: `deriving` does not handle the nested inductive) -/

mutual
def ATy.beq' : ATy → ATy → Bool
  | .prim a, .prim b => a == b
  | .arr e₁ d₁, .arr e₂ d₂ => ATy.beq' e₁ e₂ && d₁ == d₂
  | .struct n₁ f₁, .struct n₂ f₂ => n₁ == n₂ && ATy.beqFields f₁ f₂
  | _, _ => false
def ATy.beqFields : List (String × ATy) → List (String × ATy) → Bool
  | [], [] => true
  | (n₁, t₁) :: r₁, (n₂, t₂) :: r₂ => n₁ == n₂ && ATy.beq' t₁ t₂ && ATy.beqFields r₁ r₂
  | _, _ => false
end

mutual
theorem ATy.beq'_eq : ∀ (a b : ATy), ATy.beq' a b = true ↔ a = b
  | .prim a, .prim b => by simp [ATy.beq']
  | .arr e₁ d₁, .arr e₂ d₂ => by simp [ATy.beq', ATy.beq'_eq e₁ e₂]
  | .struct n₁ f₁, .struct n₂ f₂ => by simp [ATy.beq', ATy.beqFields_eq f₁ f₂]
  | .prim _, .arr _ _ | .prim _, .struct _ _ => by simp [ATy.beq']
  | .arr _ _, .prim _ | .arr _ _, .struct _ _ => by simp [ATy.beq']
  | .struct _ _, .prim _ | .struct _ _, .arr _ _ => by simp [ATy.beq']
theorem ATy.beqFields_eq :
    ∀ (a b : List (String × ATy)), ATy.beqFields a b = true ↔ a = b
  | [], [] => by simp [ATy.beqFields]
  | (n₁, t₁) :: r₁, (n₂, t₂) :: r₂ => by
    simp [ATy.beqFields, ATy.beq'_eq t₁ t₂, ATy.beqFields_eq r₁ r₂, and_assoc]
  | [], _ :: _ | _ :: _, [] => by simp [ATy.beqFields]
end

instance : DecidableEq ATy := fun a b => decidable_of_iff _ (ATy.beq'_eq a b)

/-- A declared function; the `Bool` of a parameter is its `__optional` flag. -/
structure SigA where
  name : String
  ret : Nat
  params : List (ATy × Bool)
  deriving DecidableEq

/-! ## Mirror of the Python code -/

/-- `IsCompatible(left, right)`.  Array against non-array: no.  Two arrays: same size and
compatible element types.  Two primitive types: the rule of `isCompatible`.  Primitive against
aggregate: no.  Otherwise (two structures): `left == right`. -/
def isCompatibleA : ATy → ATy → Bool
  | .arr e₁ d₁, .arr e₂ d₂ => d₁ == d₂ && isCompatibleA e₁ e₂
  | .arr _ _, .prim _ => false
  | .arr _ _, .struct _ _ => false
  | .prim _, .arr _ _ => false
  | .struct _ _, .arr _ _ => false
  | .prim a, .prim b => isCompatible a b
  | .prim _, .struct _ _ => false
  | .struct _ _, .prim _ => false
  | .struct n₁ f₁, .struct n₂ f₂ => decide (ATy.struct n₁ f₁ = ATy.struct n₂ f₂)

/-- Module-level `Match(leftType, rightType)`: `-1` not convertible, `0` equal, `1` convertible. -/
def matchTyA (arg param : ATy) : Int :=
  if !isCompatibleA arg param then -1
  else if arg = param then 0
  else 1

/-- `Function.Match` on the declared parameters: fewer arguments than parameters is accepted
only when every parameter beyond the passed arguments is optional; more arguments than
parameters → `-1`; then the scores of the arguments against the first `len(args)` parameter
types; a negative score → `-1`; otherwise the sum. -/
def matchParamsA (params : List (ATy × Bool)) (args : List ATy) : Int :=
  if args.length < params.length ∧ !((params.drop args.length).all (·.2)) then -1
  else if args.length > params.length then -1
  else
    let types := (params.map (·.1)).take args.length
    let scores := List.zipWith matchTyA args types
    if scores.any (· < 0) then -1 else scores.sum

def matchSigA (s : SigA) (args : List ATy) : Int := matchParamsA s.params args

instance : DecidableEq (Except OErr SigA) := fun a b =>
  match a, b with
  | .ok x, .ok y =>
    if h : x = y then isTrue (by rw [h]) else isFalse (fun h' => h (by cases h'; rfl))
  | .error x, .error y =>
    if h : x = y then isTrue (by rw [h]) else isFalse (fun h' => h (by cases h'; rfl))
  | .ok _, .error _ => isFalse (fun h => by cases h)
  | .error _, .ok _ => isFalse (fun h => by cases h)

/-- All overloads of all names of one scope, in registration order. -/
abbrev ScopeA := List SigA

/-- Insertion into a list sorted by score, before the elements of equal score. -/
def insertByScoreA (x : Int × SigA) : List (Int × SigA) → List (Int × SigA)
  | [] => [x]
  | y :: ys => if x.1 ≤ y.1 then x :: y :: ys else y :: insertByScoreA x ys

/-- Stable sort by score: Python's `sorted(…, key=GetFirst)`. -/
def sortByScoreA : List (Int × SigA) → List (Int × SigA)
  | [] => []
  | x :: xs => insertByScoreA x (sortByScoreA xs)

/-- The decision taken on the filtered ranking. -/
def pickRankedA (ranking : List (Int × SigA)) : Except OErr SigA :=
  match ranking with
  | [] => .error .noMatch
  | [p] => .ok p.2
  | p :: q :: _ => if p.1 = q.1 then .error .ambiguous else .ok p.2

/-- Body of `Scope.FindFunction`; `none` ⇔ the name is not registered in this scope. -/
def findInScopeA (sc : ScopeA) (name : String) (args : List ATy) : Option (Except OErr SigA) :=
  let candidates := sc.filter (fun c => c.name == name)
  if candidates.isEmpty then none
  else
    let ranking :=
      (sortByScoreA (candidates.map fun c => (matchSigA c args, c))).filter (fun p => 0 ≤ p.1)
    some (pickRankedA ranking)

/-- `Scope.FindFunction` including the walk to the parents; `chain` lists the scopes innermost
first.  A scope in which the name is registered answers, even if the answer is an error. -/
def findFunctionA (chain : List ScopeA) (name : String) (args : List ATy) : Except OErr SigA :=
  match chain with
  | [] => .error .unknown
  | sc :: rest =>
    match findInScopeA sc name args with
    | some r => r
    | none => findFunctionA rest name args

/-! ## Specification, from the text of the property -/

namespace SpecA

/-- The `i`-th argument is convertible to the `i`-th parameter. -/
def convertibleAt (args : List ATy) (params : List (ATy × Bool)) (i : Nat) : Bool :=
  match args[i]?, params[i]? with
  | some a, some p => isCompatibleA a p.1
  | _, _ => false

/-- The `i`-th parameter exists and is optional. -/
def optionalAt (params : List (ATy × Bool)) (i : Nat) : Bool :=
  match params[i]? with
  | some p => p.2
  | none => false

/-- A declaration is a candidate for the call iff it has that name, the call passes at most as
many arguments as it has parameters, every parameter beyond the passed arguments is optional,
and every argument is convertible to the corresponding parameter. -/
def viable (s : SigA) (name : String) (args : List ATy) : Bool :=
  s.name == name && decide (args.length ≤ s.params.length) &&
    ((List.range s.params.length).all fun i => decide (i < args.length) || optionalAt s.params i) &&
    ((List.range args.length).all fun i => convertibleAt args s.params i)

/-- Number of conversions needed: positions (among the passed arguments) at which argument and
parameter types differ. -/
def cost (s : SigA) (args : List ATy) : Nat :=
  ((List.range args.length).filter fun i => args[i]? != (s.params[i]?).map (·.1)).length

/-- The function a call must resolve to. -/
def best (sc : ScopeA) (name : String) (args : List ATy) : Except OErr SigA :=
  if sc.all (fun s => s.name != name) then .error .unknown
  else
    let vs := sc.filter (fun s => viable s name args)
    if vs.isEmpty then .error .noMatch
    else
      let m := Spec.minOf (vs.map fun s => cost s args)
      match vs.filter (fun s => cost s args == m) with
      | [w] => .ok w
      | _ => .error .ambiguous

/-- Resolution through nested scopes (innermost first): the innermost scope that declares a
function of that name decides. -/
def resolve (chain : List ScopeA) (name : String) (args : List ATy) : Except OErr SigA :=
  match chain.find? (fun sc => sc.any (fun s => s.name == name)) with
  | none => .error .unknown
  | some sc => best sc name args

end SpecA

/-! ## Embedding of the primitive model -/

def embedTy : Ty → ATy := .prim

/-- All parameters non-optional. -/
def embedSig (s : Sig) : SigA :=
  { name := s.name, ret := s.ret, params := s.params.map fun t => (ATy.prim t, false) }

/-! ## Driver helpers -/

/-- Splits at the separator `sep` occurring at bracket depth 0 (`[`/`{` open, `]`/`}` close). -/
def splitTop (sep : Char) (cs : List Char) : List (List Char) :=
  let rec go (cs : List Char) (depth : Nat) (cur : List Char) (acc : List (List Char)) :
      List (List Char) :=
    match cs with
    | [] => (cur.reverse :: acc).reverse
    | c :: rest =>
      if c == sep && depth == 0 then go rest depth [] (cur.reverse :: acc)
      else if c == '[' || c == '{' then go rest (depth + 1) (c :: cur) acc
      else if c == ']' || c == '}' then go rest (depth - 1) (c :: cur) acc
      else go rest depth (c :: cur) acc
  go cs 0 [] []

/-- Textual type syntax (no spaces):
`s:float`, `v:int:3`, `m:float:3:4`; arrays `A[<ty>;3;2]` (element type, then the dimensions);
structures `S{name;f1=<ty>;f2=<ty>}`.  `fuel` bounds the nesting depth. -/
def parseATyFuel : Nat → List Char → Option ATy
  | 0, _ => none
  | fuel + 1, cs =>
    match cs with
    | 'A' :: '[' :: rest =>
      match rest.reverse with
      | ']' :: body =>
        match splitTop ';' body.reverse with
        | e :: dims =>
          match parseATyFuel fuel e, dims.mapM (fun d => (String.ofList d).toNat?) with
          | some e, some dims => some (.arr e dims)
          | _, _ => none
        | [] => none
      | _ => none
    | 'S' :: '{' :: rest =>
      match rest.reverse with
      | '}' :: body =>
        match splitTop ';' body.reverse with
        | n :: fields =>
          let fs := fields.mapM fun f =>
            match splitTop '=' f with
            | fname :: t :: more =>
              -- a `=` inside the field type is at depth ≥ 1, so `more` is empty for valid input
              if more.isEmpty then (parseATyFuel fuel t).map fun t => (String.ofList fname, t) else none
            | _ => none
          fs.map fun fs => .struct (String.ofList n) fs
        | [] => none
      | _ => none
    | _ => (parseTy? (String.ofList cs)).map .prim

def parseATy? (s : String) : Option ATy := parseATyFuel (s.length + 1) s.toList

/-- A comma-separated list of types, `-` for the empty list. -/
def parseATys? (s : String) : Option (List ATy) :=
  if s == "-" then some [] else (s.splitOn ",").mapM parseATy?

/-- A parameter: a type, optional when written with a leading `?`. -/
def parseParamA? (s : String) : Option (ATy × Bool) :=
  match s.toList with
  | '?' :: rest => (parseATy? (String.ofList rest)).map fun t => (t, true)
  | _ => (parseATy? s).map fun t => (t, false)

/-- `name/ret/params`, params `-` or comma-separated. -/
def parseSigA? (s : String) : Option SigA :=
  match s.splitOn "/" with
  | [name, ret, params] => do
    let ps ← if params == "-" then some [] else (params.splitOn ",").mapM parseParamA?
    some { name := name, ret := ← ret.toNat?, params := ps }
  | _ => none

def resultStrA : Except OErr SigA → String
  | .error .unknown => "unknown"
  | .error .noMatch => "nomatch"
  | .error .ambiguous => "ambiguous"
  | .ok s => s!"ok {s.ret}"

/-- Scopes separated by the token `|`. -/
def splitScopes (toks : List String) : List (List String) :=
  let rec go (toks : List String) (cur : List String) (acc : List (List String)) :=
    match toks with
    | [] => (cur.reverse :: acc).reverse
    | t :: rest => if t == "|" then go rest [] (cur.reverse :: acc) else go rest (t :: cur) acc
  go toks [] []

/-- `ovla` / `ovla2` request: `<name> <args> <sig>* (| <sig>*)*`. -/
def runA (name args : String) (sigToks : List String) : String :=
  match parseATys? args, (splitScopes sigToks).mapM (fun sc => sc.mapM parseSigA?) with
  | some as, some chain =>
    resultStrA (findFunctionA chain name as) ++ " " ++ resultStrA (SpecA.resolve chain name as)
  | _, _ => "error"

end Nsl.Overload
