import Nsl.Model.WasmEval
import Nsl.Model.VM
/-!
# Range-checked VM runs and signed integer code (for property C06)

The VM computes with unbounded integers, WebAssembly with 32-bit ones.  The two can only agree on `/` and on
comparisons while every value the VM holds is a signed 32-bit number.  `runR` is `VM.run` with exactly that check
added after every step (and nothing else changed: `runR_run`), so "the run stays inside the i32 domain" is the
executable hypothesis `runR … = .done …`.
-/
namespace Nsl.Wasm
open VM

instance (x : Int) : Decidable (inS32 x) := by unfold inS32; infer_instance

/-- A value is not an integer outside the signed 32-bit range. -/
def valS32 : Val → Bool
  | .int x => decide (inS32 x)
  | _ => true

/-- Every argument and every value reference of the frame holds a signed 32-bit number (if it holds an integer). -/
def frameS32 (fr : Frame) : Bool := fr.args.all valS32 && fr.regs.all (fun p => valS32 p.2)

/-- `VM.run` that additionally stops (with a failure) as soon as a frame leaves the signed 32-bit domain. -/
def runR (P : Program) : Nat → Func → Nat → Frame → Globals → Res
  | 0, _, _, _, _ => .fail .timeout
  | fuel + 1, fn, pc, fr, g =>
    let callf := fun name args g' =>
      match P.find name with
      | some callee => run P fuel callee 0 { args := args } g'
      | none => .fail (.internal "KeyError-function")
    match stepI callf fn.code pc fr g with
    | .next pc' fr' g' => if frameS32 fr' then runR P fuel fn pc' fr' g' else .fail (.unsupported "outside-i32")
    | .ret v g' as => .done v g' as
    | .fail e => .fail e

def isIntTy : ITy → Bool
  | .sc .int => true
  | _ => false

/-- Straight-line signed-integer code: argument loads, stores to arguments, `+ - * / == < >` of type `int` on
references and integer constants, `return v`. -/
def intInstr : Instr → Bool
  | .label _ => true
  | .load _ ty .arg (.index _) => isIntTy ty
  | .store .arg (.index _) src => ringOpd src
  | .bin _ (.s op) ty a b =>
    (op == .add || op == .sub || op == .mul || op == .div || op == .eq || op == .lt || op == .gt) &&
      isIntTy ty && ringOpd a && ringOpd b
  | .ret (some v) => ringOpd v
  | _ => false

/-- A function with `int` parameters and result whose body is signed-integer code. -/
def intFunc (f : Func) : Bool :=
  f.params.all (fun p => isIntTy p.2) && isIntTy f.ret && f.code.all intInstr

/-! ## The unsigned counterpart -/

instance (x : Int) : Decidable (inU32 x) := by unfold inU32; infer_instance

def valU32 : Val → Bool
  | .int x => decide (inU32 x)
  | _ => true

/-- Every argument and every value reference of the frame holds an unsigned 32-bit number (if it holds an integer). -/
def frameU32 (fr : Frame) : Bool := fr.args.all valU32 && fr.regs.all (fun p => valU32 p.2)

/-- `VM.run` that additionally stops as soon as a frame leaves the unsigned 32-bit domain. -/
def runRU (P : Program) : Nat → Func → Nat → Frame → Globals → Res
  | 0, _, _, _, _ => .fail .timeout
  | fuel + 1, fn, pc, fr, g =>
    let callf := fun name args g' =>
      match P.find name with
      | some callee => run P fuel callee 0 { args := args } g'
      | none => .fail (.internal "KeyError-function")
    match stepI callf fn.code pc fr g with
    | .next pc' fr' g' => if frameU32 fr' then runRU P fuel fn pc' fr' g' else .fail (.unsupported "outside-u32")
    | .ret v g' as => .done v g' as
    | .fail e => .fail e

def isUIntTy : ITy → Bool
  | .sc .uint => true
  | _ => false

/-- An operand of unsigned code: a reference or a non-negative integer constant. -/
def uOpd : Opd → Bool
  | .ref _ => true
  | .cInt c => decide (0 ≤ c)
  | .cFlt _ => false

def refOpd : Opd → Bool
  | .ref _ => true
  | _ => false

/-- Straight-line unsigned-integer code: as `intInstr`, with type `uint`; the first operand of a comparison is a
reference (the generator selects the signedness of a comparison from the type of its first operand, and the IR model
types every inlined integer constant as a signed `int`). -/
def uintInstr : Instr → Bool
  | .label _ => true
  | .load _ ty .arg (.index _) => isUIntTy ty
  | .store .arg (.index _) src => uOpd src
  | .bin _ (.s op) ty a b =>
    (((op == .add || op == .sub || op == .mul || op == .div) && uOpd a) ||
      ((op == .eq || op == .lt || op == .gt) && refOpd a)) && isUIntTy ty && uOpd b
  | .ret (some v) => uOpd v
  | _ => false

/-- A function with `uint` parameters and result whose body is unsigned-integer code. -/
def uintFunc (f : Func) : Bool :=
  f.params.all (fun p => isUIntTy p.2) && isUIntTy f.ret && f.code.all uintInstr

end Nsl.Wasm
