import Nsl.Proofs.StorBase
import Nsl.Proofs.SimExpr
/-!
# Storage core, simulation part 1: the claims, access chains, stores

For every fuel `n` of the reference run (all claims are for every rank environment `Γ`):
* `ESimS n` – expressions (as `Sim.ESim`, with the invariant `FrOKS Γ` instead of "no alias anywhere");
* `ASimS n` – argument lists;
* `PSimS n` – access chains of aggregate type (`placeRank Γ e = some d`): the code of `e` leaves the alias
  `.ptr r p` of the place `evalPlace` computes in the result register (provided the root variable exists);
* `StSimS n` – `lowerStore` of an assignment target simulates `storeTo`.
`Sim.CSim` (calls) is reused unchanged.
-/
set_option linter.unusedSimpArgs false
set_option linter.unusedVariables false
namespace Nsl
namespace Stor
open Core VM CoreSem Lower Sim

def ESimS (M : Core.Module) (n : Nat) : Prop :=
  ∀ (code : List Instr) (Γ : Env) (e : Expr) (fr : Frame) (g : Globals) (v : Val) (fr' : Frame) (g' : Globals),
    evalE M n e fr g = .val v fr' g' → okES Γ e = true → FrOKS Γ fr → MapOK g →
    ∀ (k : Nat) (c : List Instr) (o : Opd) (k' q : Nat) (ρ : Map Nat Val),
      lowerE e k = (c, o, k') → At code q c →
      ∃ ρ', Steps (lowerModule M) code (q, vf ρ fr, g) (q + c.length, vf ρ' fr', g') ∧
        evalOpd (vf ρ' fr') o = .ok v ∧ Val.isPtr v = false ∧
        (∀ r, r < k → Map.get ρ' r = Map.get ρ r) ∧ FrOKS Γ fr' ∧ MapOK g' ∧ DomLe Γ fr' fr

def ASimS (M : Core.Module) (n : Nat) : Prop :=
  ∀ (code : List Instr) (Γ : Env) (as : Args) (fr : Frame) (g : Globals) (vs : List Val) (fr' : Frame) (g' : Globals),
    evalArgs M n as fr g = .vals vs fr' g' → okArgsS Γ as = true → FrOKS Γ fr → MapOK g →
    ∀ (k : Nat) (c : List Instr) (os : List Opd) (k' q : Nat) (ρ : Map Nat Val),
      lowerArgs as k = (c, os, k') → At code q c →
      ∃ ρ', Steps (lowerModule M) code (q, vf ρ fr, g) (q + c.length, vf ρ' fr', g') ∧
        OpdsEval (vf ρ' fr') os vs ∧
        (∀ r, r < k → Map.get ρ' r = Map.get ρ r) ∧ FrOKS Γ fr' ∧ MapOK g' ∧ DomLe Γ fr' fr

/-- Access chains.  The VM reads the root variable when it starts navigating, the reference semantics only after
the index has been evaluated; hence the execution part is conditional on the root being readable at the end. -/
def PSimS (M : Core.Module) (n : Nat) : Prop :=
  ∀ (code : List Instr) (Γ : Env) (e : Expr) (fr : Frame) (g : Globals) (r : Root) (p : List Key) (fr' : Frame)
    (g' : Globals) (d : Nat),
    evalPlace M n e fr g = .place r p fr' g' → placeRank Γ e = some d → FrOKS Γ fr → MapOK g →
    ∀ (k : Nat) (c : List Instr) (o : Opd) (k' q : Nat) (ρ : Map Nat Val),
      lowerE e k = (c, o, k') → At code q c →
      ∃ ρ', ((∃ root, readRoot fr' g' r = .ok root) →
          Steps (lowerModule M) code (q, vf ρ fr, g) (q + c.length, vf ρ' fr', g') ∧
          evalOpd (vf ρ' fr') o = .ok (.ptr r p)) ∧
        (∀ r, r < k → Map.get ρ' r = Map.get ρ r) ∧ FrOKS Γ fr' ∧ MapOK g' ∧ DomLe Γ fr' fr

def StSimS (M : Core.Module) (n : Nat) : Prop :=
  ∀ (code : List Instr) (Γ : Env) (lhs : Expr) (fr : Frame) (g : Globals) (v w : Val) (fr' : Frame) (g' : Globals),
    storeTo M n lhs v fr g = .val w fr' g' → isLhs lhs = true → okES Γ lhs = true → FrOKS Γ fr → MapOK g →
    ∀ (k : Nat) (c : List Instr) (o : Opd) (k' q : Nat) (ρ : Map Nat Val),
      lowerStore lhs o k = (c, k') → At code q c → evalOpd (vf ρ fr) o = .ok v → OpdBelow o k →
      ∃ ρ', Steps (lowerModule M) code (q, vf ρ fr, g) (q + c.length, vf ρ' fr', g') ∧
        Val.isPtr v = false ∧
        (∀ r, r < k → Map.get ρ' r = Map.get ρ r) ∧ FrOKS Γ fr' ∧ MapOK g' ∧ DomLe Γ fr' fr

/-! ## Inversion of the reference semantics on access chains -/

theorem evalPlace_index_inv {M : Core.Module} {n : Nat} {ty : ITy} {base idx : Expr} {fr : Frame} {g : Globals}
    {r : Root} {p' : List Key} {fr2 : Frame} {g2 : Globals}
    (h : evalPlace M (n + 1) (.index .arr ty base idx) fr g = .place r p' fr2 g2) :
    ∃ p fr1 g1 i root c k, evalPlace M n base fr g = .place r p fr1 g1 ∧ evalE M n idx fr1 g1 = .val i fr2 g2 ∧
      readRoot fr2 g2 r = .ok root ∧ getPath root p = .ok c ∧ indexOf c i = .ok k ∧ p' = p ++ [.idx k] := by
  simp only [evalPlace] at h
  cases h1 : evalPlace M n base fr g with
  | fail er => simp [h1] at h
  | place r0 p fr1 g1 =>
    simp only [h1] at h
    cases h2 : evalE M n idx fr1 g1 with
    | fail er => simp [h2] at h
    | val i fr2' g2' =>
      simp only [h2] at h
      cases hr : readRoot fr2' g2' r0 with
      | error er => simp [hr, bind, Except.bind] at h
      | ok root =>
        cases hp : getPath root p with
        | error er => simp [hr, hp, bind, Except.bind] at h
        | ok c =>
          cases hk : indexOf c i with
          | error er => simp [hr, hp, hk, bind, Except.bind] at h
          | ok k =>
            simp only [hr, hp, hk, bind, Except.bind, POut.place.injEq] at h
            obtain ⟨rfl, rfl, rfl, rfl⟩ := h
            exact ⟨p, fr1, g1, i, root, c, k, rfl, h2, hr, hp, hk, rfl⟩

theorem evalPlace_member_inv {M : Core.Module} {n : Nat} {ty : ITy} {base : Expr} {f : String} {fr : Frame}
    {g : Globals} {r : Root} {p' : List Key} {fr1 : Frame} {g1 : Globals}
    (h : evalPlace M (n + 1) (.member ty base f) fr g = .place r p' fr1 g1) :
    ∃ p, evalPlace M n base fr g = .place r p fr1 g1 ∧ p' = p ++ [.fld f] := by
  simp only [evalPlace] at h
  cases h1 : evalPlace M n base fr g with
  | fail er => simp [h1] at h
  | place r0 p fr1' g1' =>
    simp only [h1, POut.place.injEq] at h
    obtain ⟨rfl, rfl, rfl, rfl⟩ := h
    exact ⟨p, rfl, rfl⟩

/-- The root of an access chain is a local of the rank the chain still has to descend plus the path length. -/
theorem evalPlace_root {M : Core.Module} {Γ : Env} : ∀ (n : Nat) (e : Expr) {fr : Frame} {g : Globals} {r : Root}
    {p : List Key} {fr' : Frame} {g' : Globals} {d : Nat},
    evalPlace M n e fr g = .place r p fr' g' → placeRank Γ e = some d → ∃ x, r = .loc x ∧ p.length + d = Γ x
  | 0, _, _, _, _, _, _, _, _, h, _ => by simp [evalPlace] at h
  | n + 1, e, fr, g, r, p, fr', g', d, h, hp => by
    cases e with
    | var sc key ty =>
      obtain ⟨x, rfl, rfl, _, hx, _⟩ := placeRank_var_inv hp
      simp only [evalPlace, rootOf, POut.place.injEq] at h
      obtain ⟨rfl, rfl, rfl, rfl⟩ := h
      exact ⟨x, rfl, by simp [hx]⟩
    | index kd ty base idx =>
      obtain ⟨rfl, hb, _, _, _⟩ := placeRank_index_inv hp
      obtain ⟨p0, fr1, g1, i, root, c, k, h1, _, _, _, _, rfl⟩ := evalPlace_index_inv h
      obtain ⟨x, rfl, hlen⟩ := evalPlace_root n base h1 hb
      exact ⟨x, rfl, by simp; omega⟩
    | _ => simp [placeRank] at hp

theorem evalE_index_inv {M : Core.Module} {n : Nat} {ty : ITy} {base idx : Expr} {fr : Frame} {g : Globals}
    {v : Val} {fr1 : Frame} {g1 : Globals}
    (h : evalE M (n + 1) (.index .arr ty base idx) fr g = .val v fr1 g1) :
    ∃ r p root, evalPlace M n (.index .arr ty base idx) fr g = .place r p fr1 g1 ∧
      readRoot fr1 g1 r = .ok root ∧ getPath root p = .ok v := by
  simp only [evalE] at h
  cases h1 : evalPlace M n (.index .arr ty base idx) fr g with
  | fail er => simp [h1] at h
  | place r p fr1' g1' =>
    simp only [h1] at h
    cases hr : readRoot fr1' g1' r with
    | error er => simp [hr, bind, Except.bind] at h
    | ok root =>
      cases hp : getPath root p with
      | error er => simp [hr, hp, bind, Except.bind] at h
      | ok x =>
        simp only [hr, hp, bind, Except.bind, EOut.val.injEq] at h
        obtain ⟨rfl, rfl, rfl⟩ := h
        exact ⟨r, p, root, rfl, hr, hp⟩

theorem evalE_member_inv {M : Core.Module} {n : Nat} {ty : ITy} {base : Expr} {f : String} {fr : Frame} {g : Globals}
    {v : Val} {fr1 : Frame} {g1 : Globals}
    (h : evalE M (n + 1) (.member ty base f) fr g = .val v fr1 g1) :
    ∃ r p root, evalPlace M n (.member ty base f) fr g = .place r p fr1 g1 ∧
      readRoot fr1 g1 r = .ok root ∧ getPath root p = .ok v := by
  simp only [evalE] at h
  cases h1 : evalPlace M n (.member ty base f) fr g with
  | fail er => simp [h1] at h
  | place r p fr1' g1' =>
    simp only [h1] at h
    cases hr : readRoot fr1' g1' r with
    | error er => simp [hr, bind, Except.bind] at h
    | ok root =>
      cases hp : getPath root p with
      | error er => simp [hr, hp, bind, Except.bind] at h
      | ok x =>
        simp only [hr, hp, bind, Except.bind, EOut.val.injEq] at h
        obtain ⟨rfl, rfl, rfl⟩ := h
        exact ⟨r, p, root, rfl, hr, hp⟩

/-- `storeTo` on an element / field target. -/
theorem storeTo_place_inv {M : Core.Module} {n : Nat} {lhs : Expr} {v w : Val} {fr : Frame} {g : Globals}
    {fr2 : Frame} {g2 : Globals}
    (hl : (∃ ty b i, lhs = .index .arr ty b i) ∨ (∃ ty b f, lhs = .member ty b f))
    (h : storeTo M (n + 1) lhs v fr g = .val w fr2 g2) :
    ∃ r p fr1 g1 root root', evalPlace M n lhs fr g = .place r p fr1 g1 ∧ Val.isPtr v = false ∧
      readRoot fr1 g1 r = .ok root ∧ setPath root p v = .ok root' ∧ writeRoot fr1 g1 r root' = .ok (fr2, g2) := by
  have key : storeTo M (n + 1) lhs v fr g =
      match evalPlace M n lhs fr g with
      | .fail er => .fail er
      | .place r p fr1 g1 =>
        match (do
          let v' ← noPtr v
          let root ← readRoot fr1 g1 r
          let root' ← setPath root p v'
          writeRoot fr1 g1 r root') with
        | .error er => .fail er
        | .ok (fr2, g2) => .val v fr2 g2 := by
    rcases hl with ⟨ty, b, i, rfl⟩ | ⟨ty, b, f, rfl⟩ <;> simp only [storeTo] <;> rfl
  rw [key] at h
  cases h1 : evalPlace M n lhs fr g with
  | fail er => simp [h1] at h
  | place r p fr1 g1 =>
    simp only [h1] at h
    cases hn : noPtr v with
    | error er => simp [hn, bind, Except.bind] at h
    | ok v' =>
      obtain ⟨rfl, hnp⟩ := noPtr_ok hn
      cases hr : readRoot fr1 g1 r with
      | error er => simp [hn, hr, bind, Except.bind] at h
      | ok root =>
        cases hs : setPath root p v' with
        | error er => simp [hn, hr, hs, bind, Except.bind] at h
        | ok root' =>
          cases hw : writeRoot fr1 g1 r root' with
          | error er => simp [hn, hr, hs, hw, bind, Except.bind] at h
          | ok res =>
            obtain ⟨fr2', g2'⟩ := res
            simp only [hn, hr, hs, hw, bind, Except.bind, EOut.val.injEq] at h
            obtain ⟨_, rfl, rfl⟩ := h
            exact ⟨r, p, fr1, g1, root, root', rfl, hnp, hr, hs, hw⟩

theorem isSome_readRoot {fr : Frame} {g : Globals} {x : String} (h : (Map.get fr.locals x).isSome = true) :
    ∃ root, readRoot fr g (.loc x) = .ok root := by
  cases hm : Map.get fr.locals x with
  | none => simp [hm] at h
  | some w => exact ⟨w, readRoot_loc.2 hm⟩

theorem readRoot_isSome {fr : Frame} {g : Globals} {x : String} {root : Val} (h : readRoot fr g (.loc x) = .ok root) :
    (Map.get fr.locals x).isSome = true := by
  rw [readRoot_loc] at h; simp [h]

/-! ## The common part of every indexed access: base alias and index value in registers -/

theorem index_prefix {M : Core.Module} {m : Nat} (ihE : ESimS M m) (ihP : PSimS M m)
    {code : List Instr} {Γ : Env} {ty : ITy} {base idx : Expr} {fr : Frame} {g : Globals} {r : Root} {p' : List Key}
    {fr2 : Frame} {g2 : Globals} {d : Nat}
    (h : evalPlace M (m + 1) (.index .arr ty base idx) fr g = .place r p' fr2 g2)
    (hb : placeRank Γ base = some (d + 1)) (hi : okES Γ idx = true) (hf : FrOKS Γ fr) (hg : MapOK g)
    {k : Nat} {cb : List Instr} {vb : Opd} {k1 : Nat} {ci : List Instr} {vi : Opd} {k2 q : Nat} (ρ : Map Nat Val)
    (hlb : lowerE base k = (cb, vb, k1)) (hli : lowerE idx k1 = (ci, vi, k2)) (hat : At code q (cb ++ ci)) :
    ∃ ρ2 p i root c kk x xn, p' = p ++ [.idx kk] ∧ r = .loc xn ∧ p'.length + d = Γ xn ∧
      Steps (lowerModule M) code (q, vf ρ fr, g) (q + cb.length + ci.length, vf ρ2 fr2, g2) ∧
      evalOpd (vf ρ2 fr2) vb = .ok (.ptr r p) ∧ evalOpd (vf ρ2 fr2) vi = .ok i ∧ Val.isPtr i = false ∧
      readRoot fr2 g2 r = .ok root ∧ getPath root p = .ok c ∧ indexOf c i = .ok kk ∧
      getKey c (.idx kk) = .ok x ∧ Tree d x ∧
      (∀ r', r' < k → Map.get ρ2 r' = Map.get ρ r') ∧ k ≤ k1 ∧ k1 ≤ k2 ∧ FrOKS Γ fr2 ∧ MapOK g2 ∧ DomLe Γ fr2 fr := by
  obtain ⟨p, fr1, g1, i, root, c, kk, h1, h2, hr, hp, hk, rfl⟩ := evalPlace_index_inv h
  obtain ⟨xn, rfl, hlen⟩ := evalPlace_root (Γ := Γ) m base h1 hb
  obtain ⟨_, le1, ob1⟩ := lowerP_shape Γ base (d + 1) hb k cb vb k1 hlb
  obtain ⟨_, le2, _⟩ := lowerE_shapeS Γ idx hi k1 ci vi k2 hli
  obtain ⟨ρ1, hc1, f1, hf1, hg1, hd1⟩ :=
    ihP code Γ base fr g (.loc xn) p fr1 g1 (d + 1) h1 hb hf hg k cb vb k1 q ρ hlb hat.left
  obtain ⟨ρ2, s2, e2, p2, f2, hf2, hg2, hd2⟩ :=
    ihE code Γ idx fr1 g1 i fr2 g2 h2 hi hf1 hg1 k1 ci vi k2 (q + cb.length) ρ1 hli hat.right
  have hread1 : ∃ root1, readRoot fr1 g1 (.loc xn) = .ok root1 :=
    isSome_readRoot (hd2 xn (by omega) (readRoot_isSome hr))
  obtain ⟨s1, e1⟩ := hc1 hread1
  have ht : Tree (d + 1) c := Tree.path p (by rw [hlen]; exact readRoot_tree hf2 hr) hp
  obtain ⟨x, hx⟩ := indexOf_getKey hk
  refine ⟨ρ2, p, i, root, c, kk, x, xn, rfl, rfl, by simp; omega, s1.trans s2, evalOpd_frame e1 ob1 f2, e2, p2, hr, hp, hk,
    hx, ht.key hx, ?_, le1, le2, hf2, hg2, hd2.trans hd1⟩
  intro r' hr'
  rw [f2 r' (by omega), f1 r' hr']

/-! ## Access chains -/

theorem psim_succ (M : Core.Module) (n : Nat) (ihE : ESimS M n) (ihP : PSimS M n) : PSimS M (n + 1) := by
  intro code Γ e fr g r p fr' g' d h hp hf hg k c o k' q ρ hl hat
  cases e with
  | var sc key ty =>
    obtain ⟨x, rfl, rfl, hagg, hx, hd0⟩ := placeRank_var_inv hp
    simp only [evalPlace, rootOf, POut.place.injEq] at h
    obtain ⟨rfl, rfl, rfl, rfl⟩ := h
    simp only [lowerE, Prod.mk.injEq] at hl
    obtain ⟨rfl, rfl, rfl⟩ := hl
    refine ⟨Map.set ρ k (.ptr (.loc x) []), ?_, ?_, hf, hg, DomLe.refl _ _⟩
    · rintro ⟨root, hr⟩
      have ht : Tree (Γ x) root := readRoot_tree hf hr
      obtain ⟨d', rfl⟩ : ∃ d', d = d' + 1 := ⟨d - 1, by omega⟩
      rw [hx] at ht
      have hstep := step_load_agg (cf := callD (lowerModule M) 0) (g := g) (fr := vf ρ fr) hat.head
        (root := .loc x) rfl (by rw [readRoot_vf]; exact hr) hagg ht.agg
      rw [setReg_vf] at hstep
      exact ⟨by simpa using Steps.one 0 hstep, by simp [evalOpd]⟩
    · intro r hr'
      exact Map.get_set_ne _ _ _ _ (by omega)
  | index kd ty base idx =>
    obtain ⟨rfl, hb, hagg, hi, hd0⟩ := placeRank_index_inv hp
    obtain ⟨d', rfl⟩ : ∃ d', d = d' + 1 := ⟨d - 1, by omega⟩
    rcases hlb : lowerE base k with ⟨cb, vb, k1⟩
    rcases hli : lowerE idx k1 with ⟨ci, vi, k2⟩
    simp only [lowerE, hlb, hli, Prod.mk.injEq] at hl
    obtain ⟨rfl, rfl, rfl⟩ := hl
    obtain ⟨ρ2, p0, i, root, c0, kk, x, xn, rfl, rfl, hlen, s, eb, ei, pi, hr, hpth, hk, hx, htx, f, le1, le2, hf2, hg2, hd⟩ :=
      index_prefix ihE ihP h hb hi hf hg ρ hlb hli hat.left
    have hc : code[q + cb.length + ci.length]? = some (.loadArr k2 ty vb vi) := by
      have := hat.right.head
      simpa [Nat.add_assoc] using this
    have hstep := step_loadArr (cf := callD (lowerModule M) 0) (g := g') (ty := ty) (dst := k2) hc eb ei pi
      (by rw [readRoot_vf]; exact hr) hpth hk hx
    rw [setReg_vf] at hstep
    simp only [hagg, htx.agg, Bool.and_self, if_true] at hstep
    refine ⟨Map.set ρ2 k2 (.ptr (.loc xn) (p0 ++ [.idx kk])), fun _ => ⟨?_, by simp [evalOpd]⟩, ?_, hf2, hg2, hd⟩
    · have := s.trans (Steps.one 0 hstep)
      simpa [Nat.add_assoc] using this
    · intro r' hr'
      rw [Map.get_set_ne _ _ _ _ (by omega), f r' hr']
  | _ => simp [placeRank] at hp

/-! ## Stores -/

theorem stsim (M : Core.Module) (n : Nat) (ih : ∀ m, m < n → ESimS M m ∧ PSimS M m) : StSimS M n := by
  intro code Γ lhs fr g v w fr' g' h hlhs hok hf hg k c o k' q ρ hl hat hov hob
  cases n with
  | zero => simp [storeTo] at h
  | succ n1 =>
  rcases isLhs_inv hlhs with ⟨sc, key, ty, rfl⟩ | hplace
  · -- scalar variable
    obtain ⟨hty, hkey⟩ := okES_var_inv hok
    obtain ⟨root, hroot, hnp, hw⟩ := storeTo_var h
    obtain ⟨root', hroot', hr0⟩ := varOKS_rootOf hkey
    rw [hroot] at hroot'; cases hroot'
    simp only [lowerStore_var, Prod.mk.injEq] at hl
    obtain ⟨rfl, rfl⟩ := hl
    have hstep := step_store (cf := callD (lowerModule M) 0) hat.head hroot hov hnp (writeRoot_vf (ρ := ρ) hw)
    obtain ⟨hf2, hg2, hd2⟩ := writeRoot_okS hf hg hnp hr0 hw
    exact ⟨ρ, by simpa using Steps.one 0 hstep, hnp, fun _ _ => rfl, hf2, hg2, hd2⟩
  · obtain ⟨r, p', fr1, g1, root, root', hpl, hnp, hr, hs, hw⟩ := storeTo_place_inv hplace h
    cases n1 with
    | zero => simp [evalPlace] at hpl
    | succ m =>
    obtain ⟨ihE, ihP⟩ := ih m (by omega)
    rcases hplace with ⟨ty, base, idx, rfl⟩ | ⟨ty, base, f, rfl⟩
    · -- element of an array
      obtain ⟨_, hty, hb, hi⟩ := okES_index_inv hok
      rcases hlb : lowerE base k with ⟨cb, vb, k1⟩
      rcases hli : lowerE idx k1 with ⟨ci, vi, k2⟩
      simp only [lowerStore, hlb, hli, Prod.mk.injEq] at hl
      obtain ⟨rfl, rfl⟩ := hl
      obtain ⟨ρ2, p0, i, root0, c0, kk, x, xn, rfl, rfl, hlen, s, eb, ei, pi, hr0, hpth, hk, hx, htx, f, le1, le2, hf2, hg2, hd⟩ :=
        index_prefix ihE ihP hpl hb hi hf hg ρ hlb hli hat.left
      rw [hr] at hr0; cases hr0
      have hc : code[q + cb.length + ci.length]? = some (.storeArr vb vi o) := by
        have := hat.right.head
        simpa [Nat.add_assoc] using this
      have hov2 : evalOpd (vf ρ2 fr1) o = .ok v := evalOpd_frame hov hob f
      have hstep := step_storeArr (cf := callD (lowerModule M) 0) (g := g1) hc eb ei pi hov2 hnp
        (by rw [readRoot_vf]; exact hr) hpth hk hs (writeRoot_vf (ρ := ρ2) hw)
      obtain ⟨hf3, rfl, hd3⟩ := writeLoc_okS hf2 hnp hr hlen hs hw
      refine ⟨ρ2, ?_, hnp, f, hf3, hg2, hd3.trans hd⟩
      have := s.trans (Steps.one 0 hstep)
      simpa [Nat.add_assoc] using this
    · -- field of a struct
      obtain ⟨hty, hb⟩ := okES_member_inv hok
      obtain ⟨p0, hpb, rfl⟩ := evalPlace_member_inv hpl
      obtain ⟨xn, rfl, hlen⟩ := evalPlace_root (Γ := Γ) m base hpb hb
      rcases hlb : lowerE base k with ⟨cb, vb, k1⟩
      obtain ⟨_, le1, _⟩ := lowerP_shape Γ base 1 hb k cb vb k1 hlb
      simp only [lowerStore, hlb, Prod.mk.injEq] at hl
      obtain ⟨rfl, rfl⟩ := hl
      obtain ⟨ρ1, hc1, f1, hf1, hg1, hd1⟩ :=
        ihP code Γ base fr g (.loc xn) p0 fr1 g1 1 hpb hb hf hg k cb vb k1 q ρ hlb hat.left
      obtain ⟨s1, e1⟩ := hc1 ⟨root, hr⟩
      have hov2 : evalOpd (vf ρ1 fr1) o = .ok v := evalOpd_frame hov hob f1
      have hstep := step_storeMem (cf := callD (lowerModule M) 0) (g := g1) hat.right.head e1 hov2 hnp
        (by rw [readRoot_vf]; exact hr) hs (writeRoot_vf (ρ := ρ1) hw)
      obtain ⟨hf3, rfl, hd3⟩ := writeLoc_okS hf1 hnp hr (by simp; omega) hs hw
      refine ⟨ρ1, ?_, hnp, f1, hf3, hg1, hd3.trans hd1⟩
      have := s1.trans (Steps.one 0 hstep)
      simpa [Nat.add_assoc] using this

end Stor
end Nsl
