import Nsl.Proofs.OptSimBase
import Nsl.Proofs.OptSimKept
/-!
# The global simulation for one pass (`pass decide`), generic in `decide`
-/
namespace Nsl
namespace Opt
open VM WF

/-- The simulation invariant inside a block (at a position that is not a block start). -/
def InvBody (code : List Instr) (σf : Subst) (pc : Nat) (fr fr' : Frame) (g : Globals) : Prop :=
  (∀ r ∈ seenOf [] (code.take pc), ∃ x, Map.get fr.regs r = some x ∧
      evalOpd fr' (substOpd σf (.ref r)) = .ok x ∧
      ∀ s, substOpd σf (.ref r) = .ref s → s ∈ seenOf [] (code.take pc)) ∧
  (∀ sc var src, lastOr none (code.take pc) = some (.store sc var src) →
      (∃ root v, rootOf sc var = .ok root ∧ readRoot fr g root = .ok v ∧ evalOpd fr src = .ok v) ∧
        ∀ s, src = .ref s → s ∈ seenOf [] (code.take pc))

/-- The simulation invariant between an original state `(pc, fr, g)` and an optimised state `(kpos pc, fr', g)`. -/
def Inv (code : List Instr) (σf : Subst) (pc : Nat) (fr fr' : Frame) (g : Globals) : Prop :=
  fr'.locals = fr.locals ∧ fr'.args = fr.args ∧
    ((∃ l, code[pc]? = some (.label l)) ∨ InvBody code σf pc fr fr' g)

/-- What a pass must guarantee about an instruction it removes: in every state that satisfies the invariant the
instruction succeeds, only defines its reference, and the operand the reference is rewired to has the same value. -/
def RemovedSound (decide : Option Instr → Instr → Subst → Option (Nat × Opd)) (code : List Instr) (σf : Subst) : Prop :=
  ∀ (pc : Nat) (ins : Instr) (d : Nat) (o : Opd) (o1 : List Instr) (σ1 : Subst), code[pc]? = some ins →
    scan decide none (code.take pc) [] = (o1, σ1) →
    decide (lastOr none (code.take pc)) ins σ1 = some (d, o) →
    ∀ (fr fr' : Frame) (g : Globals),
      fr'.locals = fr.locals → fr'.args = fr.args → InvBody code σf pc fr fr' g →
      ∃ x, (∀ cf : String → List Val → Globals → Res, stepI cf code pc fr g = .next (pc + 1) (setReg fr d x) g) ∧
        evalOpd fr' o = .ok x ∧ ∀ s, o = .ref s → s ∈ seenOf [] (code.take pc)

structure FnOK (decide : Option Instr → Instr → Subst → Option (Nat × Opd)) (f : Func) : Prop where
  bl : blockLocal [] f.code = true
  nd : (defs f.code).Nodup
  rs : ∀ out σf, scan decide none f.code [] = (out, σf) → RemovedSound decide f.code σf

/-! ## small facts -/

theorem seenStep_def {seen : List Nat} {ins : Instr} {d : Nat} (hd : defOf ins = some d) :
    seenStep seen ins = d :: seen := by
  cases ins <;> simp_all [seenStep, defOf]

theorem seenStep_none {seen : List Nat} {ins : Instr} (hnl : ∀ l, ins ≠ .label l) (hd : defOf ins = none) :
    seenStep seen ins = seen := by
  cases ins <;> simp_all [seenStep, defOf]

theorem evalOpd_regs {fr1 fr2 : Frame} (h : fr1.regs = fr2.regs) (o : Opd) : evalOpd fr1 o = evalOpd fr2 o := by
  cases o <;> simp [evalOpd, h]

theorem evalOpd_set_ne {fr1 fr : Frame} {d : Nat} {x : Val} (h : fr1.regs = Map.set fr.regs d x) (o : Opd)
    (hne : ∀ s, o = .ref s → s ≠ d) : evalOpd fr1 o = evalOpd fr o := by
  cases o with
  | ref s =>
    have := hne s rfl
    simp [evalOpd, h, Map.get_set_ne _ _ _ _ (Ne.symm this)]
  | cInt i => rfl
  | cFlt f => rfl

theorem substOpd_ref_some {σ : Subst} {d : Nat} {o : Opd} (h : Map.get σ d = some o) : substOpd σ (.ref d) = o := by
  simp [substOpd, h]

theorem substOpd_ref_none {σ : Subst} {d : Nat} (h : Map.get σ d = none) : substOpd σ (.ref d) = .ref d := by
  simp [substOpd, h]

/-! ## the invariant is re-established -/

theorem inv_after_removed {code : List Instr} {σf : Subst} {pc : Nat} {ins : Instr} {fr fr' : Frame} {g : Globals}
    {d : Nat} {o : Opd} {x : Val}
    (hc : code[pc]? = some ins) (hL : fr'.locals = fr.locals) (hA : fr'.args = fr.args)
    (hb : InvBody code σf pc fr fr' g) (hd : defOf ins = some d) (hget : Map.get σf d = some o)
    (hev : evalOpd fr' o = .ok x) (hrefs : ∀ s, o = .ref s → s ∈ seenOf [] (code.take pc))
    (hfresh : d ∉ seenOf [] (code.take pc)) :
    Inv code σf (pc + 1) (setReg fr d x) fr' g := by
  refine ⟨hL, hA, Or.inr ⟨?_, ?_⟩⟩
  · rw [seen_succ hc, seenStep_def hd]
    intro r hr
    rcases List.mem_cons.1 hr with rfl | hr'
    · refine ⟨x, by simp [setReg], ?_, ?_⟩
      · rw [substOpd_ref_some hget]; exact hev
      · intro s hs; rw [substOpd_ref_some hget] at hs
        exact List.mem_cons_of_mem _ (hrefs s hs)
    · obtain ⟨y, hy, hey, hry⟩ := hb.1 r hr'
      have hne : d ≠ r := fun e => hfresh (e ▸ hr')
      refine ⟨y, ?_, hey, fun s hs => List.mem_cons_of_mem _ (hry s hs)⟩
      simp only [setReg]
      rw [Map.get_set_ne _ _ _ _ hne]
      exact hy
  · intro sc var src hl
    rw [last_succ hc] at hl
    simp only [Option.some.injEq] at hl
    subst hl
    simp [defOf] at hd

theorem inv_after_kept {cf : String → List Val → Globals → Res} {code : List Instr} {σf : Subst} {pc : Nat}
    {ins : Instr} {fr fr' fr1 fr1' : Frame} {g g1 : Globals} {p1 : Nat}
    (hbl : blockLocal [] code = true) (hc : code[pc]? = some ins) (hinv : Inv code σf pc fr fr' g)
    (hσ : ∀ d, defOf ins = some d → Map.get σf d = none)
    (hst : stepI cf code pc fr g = .next p1 fr1 g1)
    (hnr : NextRel ins fr fr' fr1 fr1') (hp : p1 = pc + 1 ∨ ∃ l, labelPos code l = some p1) :
    Inv code σf p1 fr1 fr1' g1 := by
  obtain ⟨hL1, hA1, hregs⟩ := hnr
  refine ⟨hL1, hA1, ?_⟩
  rcases hp with rfl | ⟨l, hl⟩
  rotate_left
  · exact Or.inl ⟨l, labelPos_some hl⟩
  right
  by_cases hlab : ∃ l, ins = .label l
  · obtain ⟨l, rfl⟩ := hlab
    constructor
    · rw [seen_succ hc]; intro r hr; simp [seenStep] at hr
    · intro sc var src hl; rw [last_succ hc] at hl; simp at hl
  · have hnl : ∀ l, ins ≠ .label l := fun l e => hlab ⟨l, e⟩
    obtain ⟨_, _, hb⟩ := hinv
    have hb : InvBody code σf pc fr fr' g := by
      rcases hb with ⟨l, hl⟩ | hb
      · rw [hc] at hl; simp only [Option.some.injEq] at hl; exact absurd hl (hnl l)
      · exact hb
    obtain ⟨huse, hfresh⟩ := blockLocal_at hbl hc hnl
    cases hd : defOf ins with
    | none =>
      rw [hd] at hregs
      obtain ⟨hr1, hr1'⟩ := hregs
      constructor
      · rw [seen_succ hc, seenStep_none hnl hd]
        intro r hr
        obtain ⟨y, hy, hey, hry⟩ := hb.1 r hr
        exact ⟨y, by rw [hr1]; exact hy, by rw [evalOpd_regs hr1']; exact hey, hry⟩
      · intro sc var src hl
        rw [last_succ hc] at hl
        simp only [Option.some.injEq] at hl
        subst hl
        refine ⟨store_step_post hc hst, ?_⟩
        intro s hs
        subst hs
        rw [seen_succ hc, seenStep_none hnl hd]
        exact huse s (by simp [usesOf, opdRefs])
    | some d =>
      rw [hd] at hregs
      obtain ⟨x, hr1, hr1'⟩ := hregs
      have hfr := hfresh d hd
      have hget := hσ d hd
      constructor
      · rw [seen_succ hc, seenStep_def hd]
        intro r hr
        rcases List.mem_cons.1 hr with rfl | hr'
        · refine ⟨x, by rw [hr1]; simp, ?_, ?_⟩
          · rw [substOpd_ref_none hget]; simp [evalOpd, hr1']
          · intro s hs; rw [substOpd_ref_none hget] at hs
            cases hs; exact List.mem_cons_self
        · obtain ⟨y, hy, hey, hry⟩ := hb.1 r hr'
          have hne : d ≠ r := fun e => hfr (e ▸ hr')
          refine ⟨y, ?_, ?_, fun s hs => List.mem_cons_of_mem _ (hry s hs)⟩
          · rw [hr1, Map.get_set_ne _ _ _ _ hne]; exact hy
          · rw [evalOpd_set_ne hr1' _ (fun s hs e => hfr (e ▸ hry s hs))]; exact hey
      · intro sc var src hl
        rw [last_succ hc] at hl
        simp only [Option.some.injEq] at hl
        subst hl
        simp [defOf] at hd

/-! ## `find` commutes with a pass -/

theorem find_passProgram (decide : Option Instr → Instr → Subst → Option (Nat × Opd)) (P : Program) (name : String) :
    (passProgram decide P).find name = (P.find name).map (passFn decide) := by
  unfold Program.find passProgram
  simp only
  induction P.funcs with
  | nil => rfl
  | cons f rest ih =>
    simp only [List.map_cons, List.find?_cons]
    have : (passFn decide f).name = f.name := rfl
    rw [this]
    cases f.name == name
    · simpa using ih
    · simp

theorem inv_entry (code : List Instr) (σf : Subst) (fr : Frame) (g : Globals) : Inv code σf 0 fr fr g := by
  refine ⟨rfl, rfl, Or.inr ⟨?_, ?_⟩⟩
  · intro r hr; simp [seenOf] at hr
  · intro sc var src hl; simp [lastOr] at hl

/-! ## the simulation -/

theorem run_sim {decide : Option Instr → Instr → Subst → Option (Nat × Opd)} (hdef : DecideDef decide)
    (P : Program) (hOK : ∀ f ∈ P.funcs, FnOK decide f) :
    ∀ (fuel : Nat) (fn : Func), fn ∈ P.funcs → ∀ (out : List Instr) (σf : Subst),
      scan decide none fn.code [] = (out, σf) →
      ∀ (pc : Nat) (fr fr' : Frame) (g : Globals), Inv fn.code σf pc fr fr' g →
      run P fuel fn pc fr g ≠ .fail .timeout →
      run (passProgram decide P) fuel (passFn decide fn) (kpos decide fn.code pc) fr' g = run P fuel fn pc fr g := by
  intro fuel
  induction fuel with
  | zero => intro fn _ out σf _ pc fr fr' g _ hne; rw [run_zero] at hne; exact absurd rfl hne
  | succ fuel ih =>
    intro fn hfn out σf hs pc fr fr' g hinv hne
    have hok := hOK fn hfn
    have hcr : CallRel (callD P fuel) (callD (passProgram decide P) fuel) := by
      intro name args g0 hcne
      unfold callD at hcne ⊢
      rw [find_passProgram]
      cases hf : P.find name with
      | none => rfl
      | some callee =>
        simp only [hf, Option.map] at hcne ⊢
        have hmem : callee ∈ P.funcs := List.mem_of_find?_eq_some hf
        rcases hsc : scan decide none callee.code [] with ⟨outc, σc⟩
        have := ih callee hmem outc σc hsc 0 { args := args } { args := args } g0 (inv_entry _ _ _ _) hcne
        rw [kpos_zero] at this
        exact this
    have hL := hinv.1
    have hA := hinv.2.1
    rw [run_succ] at hne
    rw [run_succ P fuel fn pc fr g]
    cases hc : fn.code[pc]? with
    | none =>
      rw [step_end hc]
      rw [run_succ]
      have : (passFn decide fn).code[kpos decide fn.code pc]? = none := end_at hs hc
      rw [step_end this, hA]
    | some ins =>
      rcases h1 : scan decide none (fn.code.take pc) [] with ⟨o1, σ1⟩
      cases hd : decide (lastOr none (fn.code.take pc)) ins σ1 with
      | some p =>
        obtain ⟨d, o⟩ := p
        obtain ⟨hk, hget⟩ := removed_at hdef hs hok.nd hc h1 hd
        have hdd := hdef _ _ _ _ _ hd
        have hnl : ∀ l, ins ≠ .label l := by
          intro l e; subst e; simp [defOf] at hdd
        have hb : InvBody fn.code σf pc fr fr' g := by
          rcases hinv.2.2 with ⟨l, hl⟩ | hb
          · rw [hc] at hl; simp only [Option.some.injEq] at hl; exact absurd hl (hnl l)
          · exact hb
        obtain ⟨x, hstep, hev, hrefs⟩ := hok.rs out σf hs pc ins d o o1 σ1 hc h1 hd fr fr' g hL hA hb
        have hstep := hstep (callD P fuel)
        obtain ⟨_, hfresh⟩ := blockLocal_at hok.bl hc hnl
        have hinv' := inv_after_removed hc hL hA hb hdd hget hev hrefs (hfresh d hdd)
        simp only [hstep] at hne ⊢
        have ih' := ih fn hfn out σf hs (pc + 1) _ fr' g hinv' hne
        rw [hk] at ih'
        rw [← ih']
        exact run_mono_ne _ _ _ _ _ _ (by rw [ih']; exact hne) _ (Nat.le_succ _)
      | none =>
        obtain ⟨hcode', hk, hσ⟩ := kept_at hdef hs hok.nd hc h1 hd
        have hev : ∀ r ∈ usesOf ins, evalOpd fr' (substOpd σf (.ref r)) = evalOpd fr (.ref r) := by
          intro r hr
          by_cases hlab : ∃ l, ins = .label l
          · obtain ⟨l, rfl⟩ := hlab; simp [usesOf] at hr
          · have hnl : ∀ l, ins ≠ .label l := fun l e => hlab ⟨l, e⟩
            have hb : InvBody fn.code σf pc fr fr' g := by
              rcases hinv.2.2 with ⟨l, hl⟩ | hb
              · rw [hc] at hl; simp only [Option.some.injEq] at hl; exact absurd hl (hnl l)
              · exact hb
            obtain ⟨huse, _⟩ := blockLocal_at hok.bl hc hnl
            obtain ⟨y, hy, hey, _⟩ := hb.1 r (huse r hr)
            rw [hey]; simp [evalOpd, hy]
        have hsim := stepI_sim_kept hcr (pass_labelPos hdef fn.code) hc hcode' hk hL hA hev g
        rw [run_succ]
        show (match stepI (callD (passProgram decide P) fuel) (pass decide fn.code) (kpos decide fn.code pc) fr' g with
          | .next pc' fr'' g' => run (passProgram decide P) fuel (passFn decide fn) pc' fr'' g'
          | .ret v g' as => Res.done v g' as
          | .fail e => Res.fail e) = _
        cases hst : stepI (callD P fuel) fn.code pc fr g with
        | next p1 fr1 g1 =>
          rw [hst] at hsim
          obtain ⟨fr1', hst', hnr, hp⟩ := hsim
          simp only [hst] at hne ⊢
          rw [hst']
          exact ih fn hfn out σf hs p1 fr1 fr1' g1 (inv_after_kept hok.bl hc hinv hσ hst hnr hp) hne
        | ret v g1 as =>
          rw [hst] at hsim
          have hst' : stepI (callD (passProgram decide P) fuel) (pass decide fn.code) (kpos decide fn.code pc) fr' g
              = .ret v g1 as := hsim
          rw [hst']
        | fail e =>
          rw [hst] at hsim
          simp only [hst] at hne
          rcases hsim with ⟨rfl, _⟩ | hst'
          · exact absurd rfl hne
          · rw [hst']

end Opt
end Nsl
