import Nsl.Proofs.LowerWF1
/-!
# The lowering model only produces well-formed IR — part 2: statements and functions

`lowerS_sok`: in the code of a statement every call resolves and every branch target is a marker of the SAME fragment
or — inside a loop body only — the `break`/`continue` label handed down by the enclosing loop, which the loop places.
At function level the second alternative is impossible (`flowS false`), so every target is a marker of the function.
-/
set_option linter.unusedSimpArgs false
namespace Nsl
namespace Lower
open Core Opt WF

/-! ## Branch targets of a fragment -/

def tgts (c : List Instr) : List Nat := c.flatMap targetsOf

@[simp] theorem tgts_nil : tgts [] = [] := rfl
@[simp] theorem tgts_append (a b : List Instr) : tgts (a ++ b) = tgts a ++ tgts b := by
  simp [tgts]
theorem tgts_cons (x : Instr) (rest : List Instr) : tgts (x :: rest) = targetsOf x ++ tgts rest := by
  simp [tgts]
@[simp] theorem tgts_cons_label (l : Nat) (rest : List Instr) : tgts (.label l :: rest) = tgts rest := by
  rw [tgts_cons]; rfl
@[simp] theorem tgts_cons_br (t : Nat) (rest : List Instr) : tgts (.br t :: rest) = t :: tgts rest := by
  rw [tgts_cons]; rfl
@[simp] theorem tgts_cons_brc (p : Opd) (t f : Nat) (rest : List Instr) :
    tgts (.brc p t f :: rest) = t :: f :: tgts rest := by
  rw [tgts_cons]; rfl
@[simp] theorem tgts_cons_ret (v : Option Opd) (rest : List Instr) : tgts (.ret v :: rest) = tgts rest := by
  rw [tgts_cons]; rfl
@[simp] theorem tgts_cons_newVar (d : Nat) (t : ITy) (n : String) (rest : List Instr) :
    tgts (.newVar d t n :: rest) = tgts rest := by
  rw [tgts_cons]; rfl
@[simp] theorem tgts_cons_store (sc : Scope) (v : VarKey) (s : Opd) (rest : List Instr) :
    tgts (.store sc v s :: rest) = tgts rest := by
  rw [tgts_cons]; rfl

theorem AllE.tgts {sig : String → Nat → Bool} {c : List Instr} (h : AllE sig c) : tgts c = [] := by
  unfold Lower.tgts
  rw [List.flatMap_eq_nil_iff]
  exact fun i hi => eOK_targets (h i hi)

@[simp] theorem labels_cons_ret (v : Option Opd) (rest : List Instr) : labels (.ret v :: rest) = labels rest := by
  rw [labels, List.filterMap_cons_none rfl]; rfl
@[simp] theorem labels_cons_newVar (d : Nat) (t : ITy) (n : String) (rest : List Instr) :
    labels (.newVar d t n :: rest) = labels rest := by
  rw [labels, List.filterMap_cons_none rfl]; rfl
@[simp] theorem labels_cons_store (sc : Scope) (v : VarKey) (s : Opd) (rest : List Instr) :
    labels (.store sc v s :: rest) = labels rest := by
  rw [labels, List.filterMap_cons_none rfl]; rfl

/-! ## `break`/`continue` only inside loops -/

/-- What `ValidateFlowStatements` guarantees (property C11), on the typed core. -/
def flowS (inLoop : Bool) : Stmt → Bool
  | .skip => true
  | .decl _ _ _ => true
  | .expr _ => true
  | .seq a b => flowS inLoop a && flowS inLoop b
  | .ite1 _ t => flowS inLoop t
  | .ite2 _ t e => flowS inLoop t && flowS inLoop e
  | .whileL _ body => flowS true body
  | .doL body _ => flowS true body
  | .forL init _ _ body => flowS inLoop init && flowS true body
  | .brk => inLoop
  | .cont => inLoop
  | .ret _ => true

theorem okS_flowS : ∀ (s : Stmt) (il : Bool), okS il s = true → flowS il s = true
  | .skip, _, _ => rfl
  | .decl _ _ _, _, _ => rfl
  | .expr _, _, _ => rfl
  | .seq a b, il, h => by
    simp only [okS, Bool.and_eq_true] at h
    simp only [flowS, Bool.and_eq_true]
    exact ⟨okS_flowS a il h.1, okS_flowS b il h.2⟩
  | .ite1 _ t, il, h => by
    simp only [okS, Bool.and_eq_true] at h
    exact okS_flowS t il h.2
  | .ite2 _ t e, il, h => by
    simp only [okS, Bool.and_eq_true] at h
    simp only [flowS, Bool.and_eq_true]
    exact ⟨okS_flowS t il h.1.2, okS_flowS e il h.2⟩
  | .whileL _ b, _, h => by
    simp only [okS, Bool.and_eq_true] at h
    exact okS_flowS b true h.2
  | .doL b _, _, h => by
    simp only [okS, Bool.and_eq_true] at h
    exact okS_flowS b true h.1
  | .forL i _ _ b, il, h => by
    simp only [okS, Bool.and_eq_true] at h
    simp only [flowS, Bool.and_eq_true]
    exact ⟨okS_flowS i il h.1.1.1, okS_flowS b true h.2⟩
  | .brk, _, h => h
  | .cont, _, h => h
  | .ret _, _, _ => rfl

theorem okSS_flowS (Γ : Env) : ∀ (s : Stmt) (il : Bool), okSS Γ il s = true → flowS il s = true
  | .skip, _, _ => rfl
  | .decl _ _ _, _, _ => rfl
  | .expr _, _, _ => rfl
  | .seq a b, il, h => by
    simp only [okSS, Bool.and_eq_true] at h
    simp only [flowS, Bool.and_eq_true]
    exact ⟨okSS_flowS Γ a il h.1, okSS_flowS Γ b il h.2⟩
  | .ite1 _ t, il, h => by
    simp only [okSS, Bool.and_eq_true] at h
    exact okSS_flowS Γ t il h.2
  | .ite2 _ t e, il, h => by
    simp only [okSS, Bool.and_eq_true] at h
    simp only [flowS, Bool.and_eq_true]
    exact ⟨okSS_flowS Γ t il h.1.2, okSS_flowS Γ e il h.2⟩
  | .whileL _ b, _, h => by
    simp only [okSS, Bool.and_eq_true] at h
    exact okSS_flowS Γ b true h.2
  | .doL b _, _, h => by
    simp only [okSS, Bool.and_eq_true] at h
    exact okSS_flowS Γ b true h.1
  | .forL i _ _ b, il, h => by
    simp only [okSS, Bool.and_eq_true] at h
    simp only [flowS, Bool.and_eq_true]
    exact ⟨okSS_flowS Γ i il h.1.1.1, okSS_flowS Γ b true h.2⟩
  | .brk, _, h => h
  | .cont, _, h => h
  | .ret _, _, _ => rfl

/-! ## Statements -/

/-- Calls resolve; every target is placed by the fragment itself or is the enclosing loop's `break`/`continue` label. -/
def SOK (sig : String → Nat → Bool) (il : Bool) (brk cont : Option Nat) (c : List Instr) : Prop :=
  c.all (callP sig) = true ∧
  ∀ l ∈ tgts c, l ∈ labels c ∨ (il = true ∧ (l = brk.getD 0 ∨ l = cont.getD 0))

theorem SOK.of_allE {sig : String → Nat → Bool} {il : Bool} {brk cont : Option Nat} {c : List Instr}
    (h : AllE sig c) : SOK sig il brk cont c :=
  ⟨h.calls, by rw [h.tgts]; intro l hl; cases hl⟩

/-- Closes the two `SOK` goals of a compound statement after the code has been made explicit. -/
macro "sok_close" : tactic => `(tactic| (
  intro l hl
  simp only [List.mem_append, List.mem_cons, List.mem_nil_iff, List.not_mem_nil, or_false, false_or] at hl ⊢
  grind))

theorem lowerS_sok (sig : String → Nat → Bool) : ∀ (s : Stmt) (il : Bool), flowS il s = true → callsS sig s = true →
    ∀ (brk cont : Option Nat) (k : Nat) (c : List Instr) (k' : Nat), lowerS brk cont s k = (c, k') →
    SOK sig il brk cont c
  | .skip, _, _, _, brk, cont, k, c, k', h => by
    simp only [lowerS, Prod.mk.injEq] at h
    obtain ⟨rfl, -⟩ := h
    exact SOK.of_allE AllE.nil
  | .decl name ty none, _, _, _, brk, cont, k, c, k', h => by
    simp only [lowerS, Prod.mk.injEq] at h
    obtain ⟨rfl, -⟩ := h
    exact SOK.of_allE (AllE.one rfl)
  | .decl name ty (some e), _, _, hc, brk, cont, k, c, k', h => by
    simp only [callsS] at hc
    rcases he : lowerE e (k + 1) with ⟨c1, v1, k1⟩
    have ie := lowerE_allE sig e hc (k + 1) c1 v1 k1 he
    simp only [lowerS, he, Prod.mk.injEq] at h
    obtain ⟨rfl, -⟩ := h
    exact SOK.of_allE (((AllE.one rfl).append ie).snoc rfl)
  | .expr e, _, _, hc, brk, cont, k, c, k', h => by
    simp only [callsS] at hc
    rcases he : lowerE e k with ⟨c1, v1, k1⟩
    have ie := lowerE_allE sig e hc k c1 v1 k1 he
    simp only [lowerS, he, Prod.mk.injEq] at h
    obtain ⟨rfl, -⟩ := h
    exact SOK.of_allE ie
  | .seq a b, il, hf, hc, brk, cont, k, c, k', h => by
    simp only [flowS, callsS, Bool.and_eq_true] at hf hc
    rcases ha : lowerS brk cont a k with ⟨ca, k1⟩
    rcases hb : lowerS brk cont b k1 with ⟨cb, k2⟩
    obtain ⟨ca1, ta⟩ := lowerS_sok sig a il hf.1 hc.1 brk cont k ca k1 ha
    obtain ⟨cb1, tb⟩ := lowerS_sok sig b il hf.2 hc.2 brk cont k1 cb k2 hb
    simp only [lowerS, ha, hb, Prod.mk.injEq] at h
    obtain ⟨rfl, -⟩ := h
    refine ⟨by simp only [List.all_append, ca1, cb1, Bool.and_self], ?_⟩
    simp only [tgts_append, labels_append]
    sok_close
  | .ite1 cnd t, il, hf, hc, brk, cont, k, c, k', h => by
    simp only [flowS, callsS, Bool.and_eq_true] at hf hc
    rcases hcn : lowerE cnd k with ⟨cc, v, k1⟩
    rcases ht : lowerS brk cont t (k1 + 2) with ⟨ct, k2⟩
    have ic := lowerE_allE sig cnd hc.1 k cc v k1 hcn
    obtain ⟨ct1, tt⟩ := lowerS_sok sig t il hf hc.2 brk cont (k1 + 2) ct k2 ht
    simp only [lowerS, hcn, ht, Prod.mk.injEq] at h
    obtain ⟨rfl, -⟩ := h
    refine ⟨by simp [List.all_append, ic.calls, ct1, callP], ?_⟩
    simp only [tgts_append, labels_append, tgts_cons_brc, tgts_cons_br, tgts_cons_label, tgts_nil, labels_cons_brc,
      labels_cons_br, labels_cons_label, labels_nil, ic.tgts, ic.noLabels.labels_eq, List.nil_append, List.append_nil]
    sok_close
  | .ite2 cnd t e, il, hf, hc, brk, cont, k, c, k', h => by
    simp only [flowS, callsS, Bool.and_eq_true] at hf hc
    rcases hcn : lowerE cnd k with ⟨cc, v, k1⟩
    rcases ht : lowerS brk cont t (k1 + 3) with ⟨ct, k2⟩
    rcases hel : lowerS brk cont e k2 with ⟨ce, k3⟩
    have ic := lowerE_allE sig cnd hc.1.1 k cc v k1 hcn
    obtain ⟨ct1, tt⟩ := lowerS_sok sig t il hf.1 hc.1.2 brk cont (k1 + 3) ct k2 ht
    obtain ⟨ce1, te⟩ := lowerS_sok sig e il hf.2 hc.2 brk cont k2 ce k3 hel
    simp only [lowerS, hcn, ht, hel, Prod.mk.injEq] at h
    obtain ⟨rfl, -⟩ := h
    refine ⟨by simp [List.all_append, ic.calls, ct1, ce1, callP], ?_⟩
    simp only [tgts_append, labels_append, tgts_cons_brc, tgts_cons_br, tgts_cons_label, tgts_nil, labels_cons_brc,
      labels_cons_br, labels_cons_label, labels_nil, ic.tgts, ic.noLabels.labels_eq, List.nil_append, List.append_nil]
    sok_close
  | .whileL cnd body, il, hf, hc, brk, cont, k, c, k', h => by
    simp only [flowS, callsS, Bool.and_eq_true] at hf hc
    rcases hcn : lowerE cnd (k + 3) with ⟨cc, v, k1⟩
    rcases hb : lowerS (some (k + 2)) (some k) body k1 with ⟨cb, k2⟩
    have ic := lowerE_allE sig cnd hc.1 (k + 3) cc v k1 hcn
    obtain ⟨cb1, tb⟩ := lowerS_sok sig body true hf hc.2 (some (k + 2)) (some k) k1 cb k2 hb
    simp only [lowerS, hcn, hb, Prod.mk.injEq] at h
    obtain ⟨rfl, -⟩ := h
    refine ⟨by simp [List.all_append, ic.calls, cb1, callP], ?_⟩
    simp only [Option.getD_some] at tb
    simp only [tgts_append, labels_append, tgts_cons_brc, tgts_cons_br, tgts_cons_label, tgts_nil, labels_cons_brc,
      labels_cons_br, labels_cons_label, labels_nil, ic.tgts, ic.noLabels.labels_eq, List.nil_append, List.append_nil]
    sok_close
  | .doL body cnd, il, hf, hc, brk, cont, k, c, k', h => by
    simp only [flowS, callsS, Bool.and_eq_true] at hf hc
    rcases hb : lowerS (some (k + 2)) (some (k + 1)) body (k + 3) with ⟨cb, k1⟩
    rcases hcn : lowerE cnd k1 with ⟨cc, v, k2⟩
    obtain ⟨cb1, tb⟩ := lowerS_sok sig body true hf hc.1 (some (k + 2)) (some (k + 1)) (k + 3) cb k1 hb
    have ic := lowerE_allE sig cnd hc.2 k1 cc v k2 hcn
    simp only [lowerS, hcn, hb, Prod.mk.injEq] at h
    obtain ⟨rfl, -⟩ := h
    refine ⟨by simp [List.all_append, ic.calls, cb1, callP], ?_⟩
    simp only [Option.getD_some] at tb
    simp only [tgts_append, labels_append, tgts_cons_brc, tgts_cons_br, tgts_cons_label, tgts_nil, labels_cons_brc,
      labels_cons_br, labels_cons_label, labels_nil, ic.tgts, ic.noLabels.labels_eq, List.nil_append, List.append_nil]
    sok_close
  | .forL init cnd next body, il, hf, hc, brk, cont, k, c, k', h => by
    simp only [flowS, callsS, Bool.and_eq_true] at hf hc
    obtain ⟨⟨⟨hci, hcc⟩, hcn⟩, hcb⟩ := hc
    rcases hi : lowerS brk cont init k with ⟨ci, k0⟩
    rcases hcd : lowerOptE cnd (k0 + 4) with ⟨cc, v, k1⟩
    rcases hb : lowerS (some (k0 + 3)) (some (k0 + 2)) body k1 with ⟨cb, k2⟩
    rcases hn : lowerOptE next k2 with ⟨cn, vn, k3⟩
    obtain ⟨ci1, ti⟩ := lowerS_sok sig init il hf.1 hci brk cont k ci k0 hi
    have ic := lowerOptE_allE sig cnd hcc (k0 + 4) cc v k1 hcd
    obtain ⟨cb1, tb⟩ := lowerS_sok sig body true hf.2 hcb (some (k0 + 3)) (some (k0 + 2)) k1 cb k2 hb
    have inx := lowerOptE_allE sig next hcn k2 cn vn k3 hn
    simp only [lowerS, hi, hcd, hb, hn, Prod.mk.injEq] at h
    obtain ⟨rfl, -⟩ := h
    simp only [Option.getD_some] at tb
    refine ⟨?_, ?_⟩
    · cases v <;> simp [List.all_append, ic.calls, inx.calls, ci1, cb1, callP, forBranch]
    · cases v <;>
      · simp only [forBranch, tgts_append, labels_append, tgts_cons_brc, tgts_cons_br, tgts_cons_label, tgts_nil,
          labels_cons_brc, labels_cons_br, labels_cons_label, labels_nil, ic.tgts, ic.noLabels.labels_eq, inx.tgts,
          inx.noLabels.labels_eq, List.nil_append, List.append_nil]
        sok_close
  | .brk, il, hf, _, brk, cont, k, c, k', h => by
    simp only [flowS] at hf
    simp only [lowerS, Prod.mk.injEq] at h
    obtain ⟨rfl, -⟩ := h
    refine ⟨rfl, ?_⟩
    intro l hl
    simp only [tgts_cons_br, tgts_nil, List.mem_cons, List.not_mem_nil, or_false] at hl
    exact Or.inr ⟨hf, Or.inl hl⟩
  | .cont, il, hf, _, brk, cont, k, c, k', h => by
    simp only [flowS] at hf
    simp only [lowerS, Prod.mk.injEq] at h
    obtain ⟨rfl, -⟩ := h
    refine ⟨rfl, ?_⟩
    intro l hl
    simp only [tgts_cons_br, tgts_nil, List.mem_cons, List.not_mem_nil, or_false] at hl
    exact Or.inr ⟨hf, Or.inr hl⟩
  | .ret none, _, _, _, brk, cont, k, c, k', h => by
    simp only [lowerS, Prod.mk.injEq] at h
    obtain ⟨rfl, -⟩ := h
    exact ⟨rfl, by intro l hl; simp at hl⟩
  | .ret (some e), _, _, hc, brk, cont, k, c, k', h => by
    simp only [callsS] at hc
    rcases he : lowerE e k with ⟨c1, v1, k1⟩
    have ie := lowerE_allE sig e hc k c1 v1 k1 he
    simp only [lowerS, he, Prod.mk.injEq] at h
    obtain ⟨rfl, -⟩ := h
    refine ⟨by simp [List.all_append, ie.calls, callP], ?_⟩
    intro l hl
    simp [ie.tgts] at hl

/-! ## Functions -/

theorem labels_eq_wf (c : List Instr) : labels c = c.filterMap WF.labelOf := by
  have hfun : Lower.labelOf = WF.labelOf := by
    funext i
    cases i <;> rfl
  unfold labels
  rw [hfun]

theorem labelsDistinct_of_nodup {code : List Instr} (h : (labels code).Nodup) : labelsDistinct code = true := by
  unfold labelsDistinct
  rw [← labels_eq_wf]
  exact nodup_distinct _ h

theorem targetsOK_of_tgts {code : List Instr} (h : ∀ l ∈ tgts code, l ∈ labels code) : targetsOK code = true := by
  simp only [targetsOK, List.all_eq_true]
  intro ins hins l hl
  have hmem : l ∈ labels code := h l (List.mem_flatMap.2 ⟨ins, hins, hl⟩)
  simp only [labels, List.mem_filterMap] at hmem
  obtain ⟨x, hx, hxl⟩ := hmem
  have hxe : x = .label l := by
    cases x <;> simp [labelOf] at hxl
    rw [hxl]
  subst hxe
  obtain ⟨j, hj⟩ := List.getElem?_of_mem hx
  cases hp : labelPos code l with
  | some p => rfl
  | none =>
    have : labelPos.go l code 0 = none := hp
    exact absurd hj ((labelPos_go_spec l code 0).2 this j)

theorem lowerFn_sok (sig : String → Nat → Bool) (f : FnDef) (hfl : flowS false f.body = true)
    (hc : callsS sig f.body = true) : SOK sig false none none (lowerFn f).code := by
  rcases hl : lowerS none none f.body 0 with ⟨c, k'⟩
  have := lowerS_sok sig f.body false hfl hc none none 0 c k' hl
  simpa [lowerFn, hl] using this

theorem lowerFn_targetsOK (sig : String → Nat → Bool) (f : FnDef) (hfl : flowS false f.body = true)
    (hc : callsS sig f.body = true) : targetsOK (lowerFn f).code = true := by
  obtain ⟨_, ht⟩ := lowerFn_sok sig f hfl hc
  refine targetsOK_of_tgts ?_
  intro l hl
  rcases ht l hl with h | ⟨h, _⟩
  · exact h
  · cases h

/-! ### Targets alone: the table that accepts every call -/

mutual
  theorem callsE_top : ∀ (e : Expr), callsE (fun _ _ => true) e = true
    | .litI _ => rfl
    | .litF _ => rfl
    | .var _ _ _ => rfl
    | .bin _ _ l r => by simp only [callsE, callsE_top l, callsE_top r, Bool.and_self]
    | .cast _ e => by simp only [callsE, callsE_top e]
    | .assign l r => by simp only [callsE, callsE_top l, callsE_top r, Bool.and_self]
    | .affix _ _ x => by simp only [callsE, callsE_top x]
    | .call _ _ args => by simp only [callsE, callsArgs_top args, Bool.and_self]
    | .index _ _ b i => by simp only [callsE, callsE_top b, callsE_top i, Bool.and_self]
    | .member _ b _ => by simp only [callsE, callsE_top b]
    | .swizzle _ b _ => by simp only [callsE, callsE_top b]
    | .construct _ args => by simp only [callsE, callsArgs_top args]
  theorem callsArgs_top : ∀ (as : Args), callsArgs (fun _ _ => true) as = true
    | .nil => rfl
    | .cons e rest => by simp only [callsArgs, callsE_top e, callsArgs_top rest, Bool.and_self]
end

theorem callsOptE_top : ∀ (oe : Option Expr), callsOptE (fun _ _ => true) oe = true
  | none => rfl
  | some e => callsE_top e

theorem callsS_top : ∀ (s : Stmt), callsS (fun _ _ => true) s = true
  | .skip => rfl
  | .decl _ _ none => rfl
  | .decl _ _ (some e) => callsE_top e
  | .expr e => callsE_top e
  | .seq a b => by simp only [callsS, callsS_top a, callsS_top b, Bool.and_self]
  | .ite1 c t => by simp only [callsS, callsE_top c, callsS_top t, Bool.and_self]
  | .ite2 c t e => by simp only [callsS, callsE_top c, callsS_top t, callsS_top e, Bool.and_self]
  | .whileL c b => by simp only [callsS, callsE_top c, callsS_top b, Bool.and_self]
  | .doL b c => by simp only [callsS, callsE_top c, callsS_top b, Bool.and_self]
  | .forL i c n b => by
    simp only [callsS, callsS_top i, callsOptE_top c, callsOptE_top n, callsS_top b, Bool.and_self]
  | .brk => rfl
  | .cont => rfl
  | .ret none => rfl
  | .ret (some e) => callsE_top e

/-- Branch targets need no hypothesis on calls. -/
theorem lowerFn_targetsOK_anySig (f : FnDef) (hfl : flowS false f.body = true) : targetsOK (lowerFn f).code = true :=
  lowerFn_targetsOK (fun _ _ => true) f hfl (callsS_top f.body)

theorem lowerFn_labelsDistinct (f : FnDef) (h : okFn f = true) : labelsDistinct (lowerFn f).code = true := by
  rcases hl : lowerS none none f.body 0 with ⟨c, k'⟩
  obtain ⟨_, _, nd⟩ := lowerS_shape f.body false h none none 0 c k' hl
  simp only [lowerFn, hl]
  exact labelsDistinct_of_nodup nd

theorem lowerFn_labelsDistinct_storageH (f : FnDef) (h : okFnS f = true) :
    labelsDistinct (lowerFn f).code = true := by
  rcases hl : lowerS none none f.body 0 with ⟨c, k'⟩
  obtain ⟨_, _, nd⟩ := lowerS_shapeS (envOf f.body) f.body false h none none 0 c k' hl
  simp only [lowerFn, hl]
  exact labelsDistinct_of_nodup nd

/-! ## Calls: from the arity table of the module to `callOK` of the lowered program -/

theorem callP_callOK (M : Core.Module) {ins : Instr} (h : callP (resolves M) ins = true) :
    callOK (lowerModule M) ins = true := by
  cases ins with
  | call d t f as =>
    simp only [callP, resolves, arityOf, beq_iff_eq] at h
    simp only [callOK, Sim.find_lowerModule, CoreSem.findFn]
    cases hf : M.fns.find? (fun g => g.name == f) with
    | none => simp [hf] at h
    | some fd =>
      simp only [hf, Option.map_some, Option.some.injEq] at h
      simp only [Option.map_some, beq_iff_eq]
      exact h
  | _ => rfl

theorem lowerFn_callsOK (M : Core.Module) (f : FnDef) (hfl : flowS false f.body = true)
    (hc : callsS (resolves M) f.body = true) : callsOK (lowerFn f) (lowerModule M) = true := by
  obtain ⟨hcalls, _⟩ := lowerFn_sok (resolves M) f hfl hc
  simp only [callsOK, List.all_eq_true] at hcalls ⊢
  exact fun ins hins => callP_callOK M (hcalls ins hins)

theorem callsResolve_fn {M : Core.Module} (hC : callsResolve M = true) {f : FnDef} (hf : f ∈ M.fns) :
    callsS (resolves M) f.body = true := by
  simp only [callsResolve, List.all_eq_true] at hC
  exact hC f hf

end Lower
end Nsl
