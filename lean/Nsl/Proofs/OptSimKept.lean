import Nsl.Proofs.OptSimStep
namespace Nsl
namespace Opt
open VM WF

theorem opd_congr {fr fr' : Frame} {σ : Subst} {uses : List Nat}
    (hev : ∀ r ∈ uses, evalOpd fr' (substOpd σ (.ref r)) = evalOpd fr (.ref r))
    (o : Opd) (ho : ∀ r ∈ opdRefs o, r ∈ uses) : evalOpd fr' (substOpd σ o) = evalOpd fr o := by
  cases o with
  | ref r => exact hev r (ho r (by simp [opdRefs]))
  | cInt i => rfl
  | cFlt f => rfl

section
variable {T : Prop} {code : List Instr} {κ : Nat → Nat} {pc : Nat} {ins : Instr} {fr fr' : Frame}

theorem outRel_fail (e : Err) : OutRel T code κ pc ins fr fr' (.fail e) (.fail e) := Or.inr rfl

theorem outRel_liftE {α} (x : Except Err α) {k k' : α → StepOut}
    (h : ∀ a, OutRel T code κ pc ins fr fr' (k a) (k' a)) :
    OutRel T code κ pc ins fr fr' (liftE x k) (liftE x k') := by
  cases x with
  | error e => exact Or.inr rfl
  | ok a => exact h a

theorem nextRel_def {fr1 fr1' : Frame} {d : Nat} (hd : defOf ins = some d) (x : Val)
    (hL : fr1'.locals = fr1.locals) (hA : fr1'.args = fr1.args)
    (h1 : fr1.regs = Map.set fr.regs d x) (h2 : fr1'.regs = Map.set fr'.regs d x) :
    NextRel ins fr fr' fr1 fr1' := by
  refine ⟨hL, hA, ?_⟩
  rw [hd]
  exact ⟨x, h1, h2⟩

theorem nextRel_same {fr1 fr1' : Frame} (hd : defOf ins = none)
    (hL : fr1'.locals = fr1.locals) (hA : fr1'.args = fr1.args)
    (h1 : fr1.regs = fr.regs) (h2 : fr1'.regs = fr'.regs) :
    NextRel ins fr fr' fr1 fr1' := by
  refine ⟨hL, hA, ?_⟩
  rw [hd]
  exact ⟨h1, h2⟩

theorem outRel_next_def {pc' d : Nat} (hd : defOf ins = some d) (hκ : κ (pc + 1) = pc' + 1)
    (hL : fr'.locals = fr.locals) (hA : fr'.args = fr.args) (z : Val) (g : Globals) :
    OutRel T code κ pc ins fr fr' (.next (pc + 1) (setReg fr d z) g) (.next (pc' + 1) (setReg fr' d z) g) :=
  ⟨setReg fr' d z, by rw [hκ], nextRel_def hd z hL hA rfl rfl, Or.inl rfl⟩

theorem outRel_next_same {pc' : Nat} (hd : defOf ins = none) (hκ : κ (pc + 1) = pc' + 1)
    (hL : fr'.locals = fr.locals) (hA : fr'.args = fr.args) (g : Globals) :
    OutRel T code κ pc ins fr fr' (.next (pc + 1) fr g) (.next (pc' + 1) fr' g) :=
  ⟨fr', by rw [hκ], nextRel_same hd hL hA rfl rfl, Or.inl rfl⟩

theorem outRel_jump {code' : List Instr} (hlab : ∀ l, labelPos code' l = (labelPos code l).map κ)
    (hd : defOf ins = none) (hL : fr'.locals = fr.locals) (hA : fr'.args = fr.args) (l : Nat) (g : Globals) :
    OutRel T code κ pc ins fr fr' (jump code l fr g) (jump code' l fr' g) := by
  unfold jump
  rw [hlab]
  cases hp : labelPos code l with
  | none => exact Or.inr rfl
  | some p => exact ⟨fr', rfl, nextRel_same hd hL hA rfl rfl, Or.inr ⟨l, hp⟩⟩

theorem writeRoot_regs {fr : Frame} {g : Globals} {r : Root} {v : Val} {f1 : Frame} {g1 : Globals}
    (h : writeRoot fr g r v = .ok (f1, g1)) : f1.regs = fr.regs := by
  cases r <;> simp only [writeRoot] at h
  · simp only [Except.ok.injEq, Prod.mk.injEq] at h; obtain ⟨rfl, _⟩ := h; rfl
  · split at h
    · simp only [Except.ok.injEq, Prod.mk.injEq] at h; obtain ⟨rfl, _⟩ := h; rfl
    · cases h
  · simp only [Except.ok.injEq, Prod.mk.injEq] at h; obtain ⟨rfl, _⟩ := h; rfl

theorem outRel_write {pc' : Nat} (hd : defOf ins = none) (hκ : κ (pc + 1) = pc' + 1)
    (hL : fr'.locals = fr.locals) (hA : fr'.args = fr.args) (g : Globals) (r : Root) (v : Val) :
    OutRel T code κ pc ins fr fr'
      (liftE (writeRoot fr g r v) fun (x : Frame × Globals) => .next (pc + 1) x.1 x.2)
      (liftE (writeRoot fr' g r v) fun (x : Frame × Globals) => .next (pc' + 1) x.1 x.2) := by
  rw [writeRoot_congr hL hA]
  cases hw : writeRoot fr g r v with
  | error e => exact Or.inr rfl
  | ok res =>
    obtain ⟨f1, g1⟩ := res
    exact ⟨{ regs := fr'.regs, locals := f1.locals, args := f1.args }, by simp only [liftE]; rw [hκ],
      nextRel_same hd rfl rfl (writeRoot_regs hw) rfl, Or.inl rfl⟩
theorem stepI_call_eq {cf : String → List Val → Globals → Res} {g : Globals} {d : Nat} {ty : ITy} {fn : String}
    {args : List Opd} {vs : List Val} (hc : code[pc]? = some (.call d ty fn args))
    (hvs : evalVals fr g args = .ok vs) :
    stepI cf code pc fr g = match cf fn vs g with
      | .done v g' _ => .next (pc + 1) (setReg fr d v) g'
      | .fail e => .fail e := by
  simp only [stepI, hc, hvs, liftE]
  cases cf fn vs g <;> rfl
end

theorem stepI_sim_kept {cf cf' : String → List Val → Globals → Res} (hcf : CallRel cf cf')
    {code code' : List Instr} {κ : Nat → Nat} (hlab : ∀ l, labelPos code' l = (labelPos code l).map κ)
    {σ : Subst} {pc pc' : Nat} {ins : Instr} (hc : code[pc]? = some ins)
    (hc' : code'[pc']? = some (substInstr σ ins)) (hκ : κ (pc + 1) = pc' + 1)
    {fr fr' : Frame} (hL : fr'.locals = fr.locals) (hA : fr'.args = fr.args)
    (hev : ∀ r ∈ usesOf ins, evalOpd fr' (substOpd σ (.ref r)) = evalOpd fr (.ref r))
    (g : Globals) :
    OutRel (CallTimeout cf σ ins fr fr' g) code κ pc ins fr fr'
      (stepI cf code pc fr g) (stepI cf' code' pc' fr' g) := by
  have hO : ∀ o, (∀ r ∈ opdRefs o, r ∈ usesOf ins) → evalOpd fr' (substOpd σ o) = evalOpd fr o :=
    fun o ho => opd_congr hev o ho
  have hV : ∀ o, (∀ r ∈ opdRefs o, r ∈ usesOf ins) → evalVal fr' g (substOpd σ o) = evalVal fr g o :=
    fun o ho => evalVal_congr hL hA g (hO o ho)
  have hR : ∀ r, readRoot fr' g r = readRoot fr g r := readRoot_congr hL hA g
  cases ins with
  | label l =>
    simp only [stepI, hc, hc', substInstr]
    exact outRel_next_same rfl hκ hL hA g
  | load d ty sc var =>
    simp only [stepI, hc, hc', substInstr, hR]
    refine outRel_liftE _ fun root => outRel_liftE _ fun v => ?_
    split <;> exact outRel_next_def rfl hκ hL hA _ g
  | store sc var src =>
    have hs := hO src (by intro r hr; simp [usesOf, hr])
    simp only [stepI, hc, hc', substInstr, hs]
    refine outRel_liftE _ fun root => outRel_liftE _ fun v => ?_
    cases v <;> first | exact outRel_fail _ | exact outRel_write rfl hκ hL hA g root _
  | bin d op ty a b =>
    have ha := hV a (by intro r hr; simp [usesOf, hr])
    have hb := hV b (by intro r hr; simp [usesOf, hr])
    simp only [stepI, hc, hc', substInstr, ha, hb]
    exact outRel_liftE _ fun x => outRel_liftE _ fun y => outRel_liftE _ fun z => outRel_next_def rfl hκ hL hA _ g
  | newVar d ty name =>
    simp only [stepI, hc, hc', substInstr, hL]
    split
    · exact ⟨setReg { fr' with locals := Map.set fr.locals name (createInstance ty) } d (.ptr (.loc name) []),
        by rw [hκ], nextRel_def rfl _ rfl hA rfl rfl, Or.inl rfl⟩
    · exact ⟨setReg { fr' with locals := Map.set fr.locals name (createInstance ty) } d (createInstance ty),
        by rw [hκ], nextRel_def rfl _ rfl hA rfl rfl, Or.inl rfl⟩
  | cast d ty a =>
    have ha := hV a (by intro r hr; simp [usesOf, hr])
    simp only [stepI, hc, hc', substInstr, ha]
    exact outRel_liftE _ fun x => outRel_liftE _ fun z => outRel_next_def rfl hκ hL hA _ g
  | br l =>
    simp only [stepI, hc, hc', substInstr]
    exact outRel_jump hlab rfl hL hA l g
  | brc p t f =>
    have hp := hV p (by intro r hr; simp [usesOf, hr])
    simp only [stepI, hc, hc', substInstr, hp]
    refine outRel_liftE _ fun v => ?_
    split <;> exact outRel_jump hlab rfl hL hA _ g
  | ret o =>
    cases o with
    | none =>
      simp only [stepI, hc, hc', substInstr, hA]
      rfl
    | some o =>
      have ho := hV o (by intro r hr; simp [usesOf, hr])
      simp only [stepI, hc, hc', substInstr, ho, hA]
      refine outRel_liftE _ fun v => ?_
      rfl
  | call d ty fn args =>
    have hvs := evalVals_congr hL hA g σ args (by intro r hr; exact hev r (by simpa [usesOf] using hr))
    simp only [stepI, hc, hc', substInstr, hvs]
    cases hvs' : evalVals fr g args with
    | error e => exact Or.inr rfl
    | ok vs =>
      simp only [liftE]
      cases hr : cf fn vs g with
      | done v g1 as =>
        have := hcf fn vs g (by rw [hr]; intro h; cases h)
        rw [this, hr]
        exact outRel_next_def rfl hκ hL hA _ g1
      | fail e =>
        by_cases he : e = .timeout
        · subst he
          exact Or.inl ⟨rfl, d, ty, fn, args, vs, rfl, hvs', hvs.trans hvs', hr⟩
        · have := hcf fn vs g (by rw [hr]; intro h; cases h; exact he rfl)
          rw [this, hr]
          exact Or.inr rfl
  | loadArr d ty arr idx =>
    have ha := hO arr (by intro r hr; simp [usesOf, hr])
    have hi := hV idx (by intro r hr; simp [usesOf, hr])
    simp only [stepI, hc, hc', substInstr, ha, hi, hR]
    refine outRel_liftE _ fun a => outRel_liftE _ fun i => ?_
    split
    · refine outRel_liftE _ fun c => outRel_liftE _ fun k => outRel_liftE _ fun x => ?_
      split <;> exact outRel_next_def rfl hκ hL hA _ g
    · exact outRel_liftE _ fun k => outRel_liftE _ fun x => outRel_next_def rfl hκ hL hA _ g
  | storeArr arr idx src =>
    have ha := hO arr (by intro r hr; simp [usesOf, hr])
    have hi := hV idx (by intro r hr; simp [usesOf, hr])
    have hs := hO src (by intro r hr; simp [usesOf, hr])
    simp only [stepI, hc, hc', substInstr, ha, hi, hs, hR]
    refine outRel_liftE _ fun a => outRel_liftE _ fun i => outRel_liftE _ fun v => ?_
    split
    · exact outRel_fail _
    · split
      · exact outRel_liftE _ fun root => outRel_liftE _ fun c => outRel_liftE _ fun k =>
          outRel_liftE _ fun root' => outRel_write rfl hκ hL hA g _ _
      · exact outRel_liftE _ fun k => outRel_next_same rfl hκ hL hA g
  | loadMem d ty obj field =>
    have ha := hO obj (by intro r hr; simp [usesOf, hr])
    simp only [stepI, hc, hc', substInstr, ha, hR]
    refine outRel_liftE _ fun a => ?_
    split
    · refine outRel_liftE _ fun c => outRel_liftE _ fun x => ?_
      split <;> exact outRel_next_def rfl hκ hL hA _ g
    · exact outRel_liftE _ fun x => outRel_next_def rfl hκ hL hA _ g
  | storeMem obj field src =>
    have ha := hO obj (by intro r hr; simp [usesOf, hr])
    have hs := hO src (by intro r hr; simp [usesOf, hr])
    simp only [stepI, hc, hc', substInstr, ha, hs, hR]
    refine outRel_liftE _ fun a => outRel_liftE _ fun v => ?_
    split
    · exact outRel_fail _
    · split
      · exact outRel_liftE _ fun root => outRel_liftE _ fun root' => outRel_write rfl hκ hL hA g _ _
      · exact outRel_next_same rfl hκ hL hA g
      · exact outRel_fail _
  | vecGet d ty v idx =>
    have hv := hV v (by intro r hr; simp [usesOf, hr])
    have hi := hV idx (by intro r hr; simp [usesOf, hr])
    simp only [stepI, hc, hc', substInstr, hv, hi]
    exact outRel_liftE _ fun a => outRel_liftE _ fun i => outRel_liftE _ fun k => outRel_liftE _ fun x =>
      outRel_next_def rfl hκ hL hA _ g
  | matGet d ty v idx =>
    have hv := hV v (by intro r hr; simp [usesOf, hr])
    have hi := hV idx (by intro r hr; simp [usesOf, hr])
    simp only [stepI, hc, hc', substInstr, hv, hi]
    exact outRel_liftE _ fun a => outRel_liftE _ fun i => outRel_liftE _ fun k => outRel_liftE _ fun x =>
      outRel_next_def rfl hκ hL hA _ g
  | vecSet d ty v idx src =>
    have hv := hV v (by intro r hr; simp [usesOf, hr])
    have hi := hV idx (by intro r hr; simp [usesOf, hr])
    have hs := hV src (by intro r hr; simp [usesOf, hr])
    simp only [stepI, hc, hc', substInstr, hv, hi, hs]
    exact outRel_liftE _ fun a => outRel_liftE _ fun i => outRel_liftE _ fun x => outRel_liftE _ fun k =>
      outRel_liftE _ fun a' => outRel_next_def rfl hκ hL hA _ g
  | matSet d ty v idx src =>
    have hv := hV v (by intro r hr; simp [usesOf, hr])
    have hi := hV idx (by intro r hr; simp [usesOf, hr])
    have hs := hV src (by intro r hr; simp [usesOf, hr])
    simp only [stepI, hc, hc', substInstr, hv, hi, hs]
    exact outRel_liftE _ fun a => outRel_liftE _ fun i => outRel_liftE _ fun x => outRel_liftE _ fun k =>
      outRel_liftE _ fun a' => outRel_next_def rfl hκ hL hA _ g
  | shuffle d ty a b idx =>
    have ha := hV a (by intro r hr; simp [usesOf, hr])
    have hb := hV b (by intro r hr; simp [usesOf, hr])
    simp only [stepI, hc, hc', substInstr, ha, hb]
    exact outRel_liftE _ fun x => outRel_liftE _ fun y => outRel_liftE _ fun z => outRel_next_def rfl hκ hL hA _ g
  | construct d ty vals =>
    have hvs := evalVals_congr hL hA g σ vals (by intro r hr; exact hev r (by simpa [usesOf] using hr))
    simp only [stepI, hc, hc', substInstr, hvs]
    exact outRel_liftE _ fun vs => outRel_liftE _ fun z => outRel_next_def rfl hκ hL hA _ g

end Opt
end Nsl
