import Nsl.Proofs.LowerLocalS2
import Nsl.Proofs.LowerLocal3
/-!
# The lowering of the STORAGE core produces forwardable code — part 3: `forwardOK`

In the storage core a `load` may have an aggregate type (the root of an access chain `a[i]…` is loaded as an alias), so
the access invariant `AccP` of `LowerLocal3` ("every load is scalar") is false.  The refinement `AccPS Γ V`:
* every load/store accesses a `(scope, key)` pair of `V = accS body` (as before);
* a load of AGGREGATE type reads a local `x` of positive rank (`Γ x ≠ 0`): it is the root of an access chain;
* a store to a local `x` writes a local of rank 0 (`Γ x = 0`): stores come from scalar assignment targets
  (`varOKS`) and from initialising declarations (`decl x ty (some e)` demands `Γ x = 0`); element writes are
  `storeArr`/`storeMem` through the alias register and are not `store`s.
With `scopesAgree V` a store directly followed by a load of the same key has the same scope, and the load cannot be
aggregate: it would need `Γ x ≠ 0` while the store needs `Γ x = 0` (the rank discipline gives every name ONE rank).
So `NoShadow` is still the only extra hypothesis.  As in `LowerLocal3` the invariant is position-independent and
inherited by `pass decide` for any `decide`.
-/
namespace Nsl
namespace Lower
open Core Opt WF

/-! ## The refined access invariant -/

def AccPS (Γ : Env) (V : List (Scope × VarKey)) (ins : Instr) : Prop :=
  match ins with
  | .load _ ty sc var => (sc, var) ∈ V ∧ (ty.isAggregate = true → ∃ x, sc = .local ∧ var = .name x ∧ Γ x ≠ 0)
  | .store sc var _ => (sc, var) ∈ V ∧ ∀ x, sc = .local → var = .name x → Γ x = 0
  | _ => True

def AccInS (Γ : Env) (V : List (Scope × VarKey)) (c : List Instr) : Prop := ∀ ins ∈ c, AccPS Γ V ins

theorem AccInS.nil {Γ : Env} (V : List (Scope × VarKey)) : AccInS Γ V [] := by intro i hi; cases hi

theorem AccInS.append {Γ : Env} {V : List (Scope × VarKey)} {a b : List Instr} (ha : AccInS Γ V a) (hb : AccInS Γ V b) :
    AccInS Γ V (a ++ b) := by
  intro i hi
  rcases List.mem_append.1 hi with h | h
  · exact ha i h
  · exact hb i h

theorem AccInS.single {Γ : Env} {V : List (Scope × VarKey)} {ins : Instr} (h : AccPS Γ V ins) : AccInS Γ V [ins] := by
  intro i hi
  simp only [List.mem_cons, List.not_mem_nil, or_false] at hi
  subst hi; exact h

theorem AccInS.snoc {Γ : Env} {V : List (Scope × VarKey)} {c : List Instr} {ins : Instr} (hc : AccInS Γ V c)
    (h : AccPS Γ V ins) : AccInS Γ V (c ++ [ins]) := hc.append (AccInS.single h)

theorem AccInS_append_iff (Γ : Env) (V : List (Scope × VarKey)) (a b : List Instr) :
    AccInS Γ V (a ++ b) ↔ AccInS Γ V a ∧ AccInS Γ V b := by
  simp only [AccInS, List.mem_append]
  exact ⟨fun h => ⟨fun i hi => h i (Or.inl hi), fun i hi => h i (Or.inr hi)⟩,
    fun h i hi => hi.elim (h.1 i) (h.2 i)⟩

theorem AccInS_cons_iff (Γ : Env) (V : List (Scope × VarKey)) (x : Instr) (l : List Instr) :
    AccInS Γ V (x :: l) ↔ AccPS Γ V x ∧ AccInS Γ V l := by
  simp only [AccInS, List.mem_cons]
  exact ⟨fun h => ⟨h x (Or.inl rfl), fun i hi => h i (Or.inr hi)⟩,
    fun h i hi => hi.elim (fun e => e ▸ h.1) (h.2 i)⟩

theorem AccPS_substInstr (Γ : Env) (V : List (Scope × VarKey)) (σ : Subst) (ins : Instr) :
    AccPS Γ V (substInstr σ ins) ↔ AccPS Γ V ins := by
  cases ins <;> first | exact Iff.rfl | (rename_i o; cases o <;> exact Iff.rfl)

/-- Any pass (it keeps a sublist and rewires operands) preserves the access invariant. -/
theorem AccInS.pass {Γ : Env} {V : List (Scope × VarKey)} {code : List Instr} (h : AccInS Γ V code)
    (decide : Option Instr → Instr → Subst → Option (Nat × Opd)) : AccInS Γ V (pass decide code) := by
  rcases hs : scan decide none code [] with ⟨out, σ⟩
  rw [pass_eq hs]
  intro i hi
  obtain ⟨j, hj, rfl⟩ := List.mem_map.1 hi
  have hsub := scan_sublist decide code none []
  rw [hs] at hsub
  exact (AccPS_substInstr Γ V σ j).2 (h j (hsub.subset hj))

/-- The refined access invariant with agreeing scopes implies `forwardOK`, whatever the previous instruction. -/
theorem forwardOK_of_accS {Γ : Env} {V : List (Scope × VarKey)} (hV : scopesAgree V = true) :
    ∀ (c : List Instr) (prev : Option Instr), (∀ p, prev = some p → AccPS Γ V p) → AccInS Γ V c →
      forwardOK prev c = true
  | [], _, _, _ => rfl
  | ins :: rest, prev, hp, hc => by
    have hrest := forwardOK_of_accS hV rest (some ins)
      (by intro p hp'; cases hp'; exact hc ins List.mem_cons_self)
      (fun i hi => hc i (List.mem_cons_of_mem _ hi))
    have hins := hc ins List.mem_cons_self
    cases ins with
    | load d ty sc var =>
      cases prev with
      | none => simp [forwardOK, hrest]
      | some p =>
        have hp' := hp p rfl
        cases p with
        | store sc' var' src =>
          simp only [AccPS] at hp' hins
          simp only [forwardOK, hrest, Bool.and_true]
          split
          · next hv =>
            subst hv
            have := scopesAgree_spec hV hp'.1 hins.1
            subst this
            cases hag : ty.isAggregate with
            | false => simp
            | true =>
              obtain ⟨x, hsc, hvar, hx⟩ := hins.2 hag
              exact absurd (hp'.2 x hsc hvar) hx
          · rfl
        | _ => simp [forwardOK, hrest]
    | _ => simp [forwardOK, hrest]

/-! ## Lowered expressions, access chains and assignment targets satisfy the invariant -/

theorem varOKS_store {Γ : Env} {sc : Scope} {key : VarKey} (h : varOKS Γ sc key = true) :
    ∀ x, sc = .local → key = .name x → Γ x = 0 := by
  intro x hsc hkey
  subst hsc; subst hkey
  simpa [varOKS] using h

mutual
  theorem lowerE_accS (Γ : Env) (V : List (Scope × VarKey)) : ∀ (e : Expr), okES Γ e = true → (∀ a ∈ accE e, a ∈ V) →
      ∀ (k : Nat) (c : List Instr) (o : Opd) (k' : Nat), lowerE e k = (c, o, k') → AccInS Γ V c
    | .litI i, _, _, k, c, o, k', h => by
      simp only [lowerE, Prod.mk.injEq] at h
      obtain ⟨rfl, rfl, rfl⟩ := h
      exact AccInS.nil V
    | .litF f, _, _, k, c, o, k', h => by
      simp only [lowerE, Prod.mk.injEq] at h
      obtain ⟨rfl, rfl, rfl⟩ := h
      exact AccInS.nil V
    | .var sc key ty, hok, hV, k, c, o, k', h => by
      obtain ⟨hty, _⟩ := okES_var_inv hok
      simp only [lowerE, Prod.mk.injEq] at h
      obtain ⟨rfl, rfl, rfl⟩ := h
      refine AccInS.single ⟨hV _ (by simp [accE]), ?_⟩
      intro hag
      rw [isAggregate_of_isScalar hty] at hag
      cases hag
    | .bin op ty l r, hok, hV, k, c, o, k', h => by
      simp only [okES, Bool.and_eq_true] at hok
      obtain ⟨⟨⟨⟨hty, hl⟩, hr⟩, hokl⟩, hokr⟩ := hok
      rcases hel : lowerE l k with ⟨cl, vl, k1⟩
      rcases her : lowerE r k1 with ⟨cr, vr, k2⟩
      have il := lowerE_accS Γ V l hokl (fun a ha => hV a (by simp [accE, ha])) k cl vl k1 hel
      have ir := lowerE_accS Γ V r hokr (fun a ha => hV a (by simp [accE, ha])) k1 cr vr k2 her
      have hml : (Expr.ty l).isMatrix = false := by cases hh : Expr.ty l <;> simp_all [ITy.isScalar, ITy.isMatrix]
      have hmr : (Expr.ty r).isMatrix = false := by cases hh : Expr.ty r <;> simp_all [ITy.isScalar, ITy.isMatrix]
      simp only [lowerE, hel, her, hml, hmr, Bool.false_and, Bool.and_false, Bool.false_eq_true, if_false,
        Prod.mk.injEq, mkBin_scalar' _ _ _ _ _ _ _ hty] at h
      obtain ⟨rfl, rfl, rfl⟩ := h
      exact (il.append ir).snoc trivial
    | .cast ty e, hok, hV, k, c, o, k', h => by
      simp only [okES, Bool.and_eq_true] at hok
      rcases he : lowerE e k with ⟨c1, v1, k1⟩
      have ie := lowerE_accS Γ V e hok.2 (fun a ha => hV a (by simpa [accE] using ha)) k c1 v1 k1 he
      simp only [lowerE, he, Prod.mk.injEq] at h
      obtain ⟨rfl, rfl, rfl⟩ := h
      exact ie.snoc trivial
    | .assign lhs rhs, hok, hV, k, c, o, k', h => by
      simp only [okES, Bool.and_eq_true] at hok
      rcases he : lowerE rhs k with ⟨c1, v1, k1⟩
      rcases hs : lowerStore lhs v1 k1 with ⟨c2, k2⟩
      have ie := lowerE_accS Γ V rhs hok.2 (fun a ha => hV a (by simp [accE, ha])) k c1 v1 k1 he
      have is := lowerStore_accS Γ V lhs hok.1.1 hok.1.2 (fun a ha => hV a (by simp [accE, ha])) v1 k1 c2 k2 hs
      simp only [lowerE, he, hs, Prod.mk.injEq] at h
      obtain ⟨rfl, rfl, rfl⟩ := h
      exact ie.append is
    | .affix post inc x, hok, hV, k, c, o, k', h => by
      simp only [okES, Bool.and_eq_true] at hok
      rcases he : lowerE x k with ⟨c1, v1, k1⟩
      rcases hs : lowerStore x (.ref k1) (k1 + 1) with ⟨c2, k2⟩
      have ie := lowerE_accS Γ V x hok.2 (fun a ha => hV a (by simpa [accE] using ha)) k c1 v1 k1 he
      have is := lowerStore_accS Γ V x hok.1 hok.2 (fun a ha => hV a (by simpa [accE] using ha)) (.ref k1) (k1 + 1)
        c2 k2 hs
      simp only [lowerE, he, hs, Prod.mk.injEq] at h
      obtain ⟨rfl, rfl, rfl⟩ := h
      refine AccInS.append (AccInS.snoc ie ?_) is
      trivial
    | .call fn ty args, hok, hV, k, c, o, k', h => by
      simp only [okES] at hok
      rcases ha : lowerArgs args k with ⟨c1, vs, k1⟩
      have ia := lowerArgs_accS Γ V args hok (fun a ha' => hV a (by simpa [accE] using ha')) k c1 vs k1 ha
      simp only [lowerE, ha, Prod.mk.injEq] at h
      obtain ⟨rfl, rfl, rfl⟩ := h
      exact ia.snoc trivial
    | .index kd ty base idx, hok, hV, k, c, o, k', h => by
      obtain ⟨rfl, _, hb, hi⟩ := okES_index_inv hok
      rcases heb : lowerE base k with ⟨cb, vb, k1⟩
      rcases hei : lowerE idx k1 with ⟨ci, vi, k2⟩
      have ib := lowerP_acc Γ V base 1 hb (fun a ha => hV a (by simp [accE, ha])) k cb vb k1 heb
      have ii := lowerE_accS Γ V idx hi (fun a ha => hV a (by simp [accE, ha])) k1 ci vi k2 hei
      simp only [lowerE, heb, hei, Prod.mk.injEq] at h
      obtain ⟨rfl, rfl, rfl⟩ := h
      exact (ib.append ii).snoc trivial
    | .member ty base f, hok, hV, k, c, o, k', h => by
      obtain ⟨_, hb⟩ := okES_member_inv hok
      rcases heb : lowerE base k with ⟨cb, vb, k1⟩
      have ib := lowerP_acc Γ V base 1 hb (fun a ha => hV a (by simpa [accE] using ha)) k cb vb k1 heb
      simp only [lowerE, heb, Prod.mk.injEq] at h
      obtain ⟨rfl, rfl, rfl⟩ := h
      exact ib.snoc trivial
    | .swizzle _ _ _, hok, _, _, _, _, _, _ => by simp [okES] at hok
    | .construct _ _, hok, _, _, _, _, _, _ => by simp [okES] at hok
  theorem lowerArgs_accS (Γ : Env) (V : List (Scope × VarKey)) : ∀ (as : Args), okArgsS Γ as = true →
      (∀ a ∈ accArgs as, a ∈ V) → ∀ (k : Nat) (c : List Instr) (os : List Opd) (k' : Nat),
      lowerArgs as k = (c, os, k') → AccInS Γ V c
    | .nil, _, _, k, c, os, k', h => by
      simp only [lowerArgs, Prod.mk.injEq] at h
      obtain ⟨rfl, rfl, rfl⟩ := h
      exact AccInS.nil V
    | .cons e rest, hok, hV, k, c, os, k', h => by
      simp only [okArgsS, Bool.and_eq_true] at hok
      rcases he : lowerE e k with ⟨c1, v1, k1⟩
      rcases hr : lowerArgs rest k1 with ⟨c2, vs, k2⟩
      have ie := lowerE_accS Γ V e hok.1 (fun a ha => hV a (by simp [accArgs, ha])) k c1 v1 k1 he
      have ir := lowerArgs_accS Γ V rest hok.2 (fun a ha => hV a (by simp [accArgs, ha])) k1 c2 vs k2 hr
      simp only [lowerArgs, he, hr, Prod.mk.injEq] at h
      obtain ⟨rfl, rfl, rfl⟩ := h
      exact ie.append ir
  /-- Access chains: the root is loaded with an aggregate type, and it is a local of positive rank. -/
  theorem lowerP_acc (Γ : Env) (V : List (Scope × VarKey)) : ∀ (e : Expr) (d : Nat), placeRank Γ e = some d →
      (∀ a ∈ accE e, a ∈ V) → ∀ (k : Nat) (c : List Instr) (o : Opd) (k' : Nat),
      lowerE e k = (c, o, k') → AccInS Γ V c
    | .var sc key ty, d, hp, hV, k, c, o, k', h => by
      obtain ⟨x, hsc, hkey, _, hx, hd⟩ := placeRank_var_inv hp
      simp only [lowerE, Prod.mk.injEq] at h
      obtain ⟨rfl, rfl, rfl⟩ := h
      exact AccInS.single ⟨hV _ (by simp [accE]), fun _ => ⟨x, hsc, hkey, by omega⟩⟩
    | .index kd ty base idx, d, hp, hV, k, c, o, k', h => by
      obtain ⟨rfl, hb, _, hi, _⟩ := placeRank_index_inv hp
      rcases heb : lowerE base k with ⟨cb, vb, k1⟩
      rcases hei : lowerE idx k1 with ⟨ci, vi, k2⟩
      have ib := lowerP_acc Γ V base (d + 1) hb (fun a ha => hV a (by simp [accE, ha])) k cb vb k1 heb
      have ii := lowerE_accS Γ V idx hi (fun a ha => hV a (by simp [accE, ha])) k1 ci vi k2 hei
      simp only [lowerE, heb, hei, Prod.mk.injEq] at h
      obtain ⟨rfl, rfl, rfl⟩ := h
      exact (ib.append ii).snoc trivial
    | .litI _, _, hp, _, _, _, _, _, _ => by simp [placeRank] at hp
    | .litF _, _, hp, _, _, _, _, _, _ => by simp [placeRank] at hp
    | .bin _ _ _ _, _, hp, _, _, _, _, _, _ => by simp [placeRank] at hp
    | .cast _ _, _, hp, _, _, _, _, _, _ => by simp [placeRank] at hp
    | .assign _ _, _, hp, _, _, _, _, _, _ => by simp [placeRank] at hp
    | .affix _ _ _, _, hp, _, _, _, _, _, _ => by simp [placeRank] at hp
    | .call _ _ _, _, hp, _, _, _, _, _, _ => by simp [placeRank] at hp
    | .member _ _ _, _, hp, _, _, _, _, _, _ => by simp [placeRank] at hp
    | .swizzle _ _ _, _, hp, _, _, _, _, _, _ => by simp [placeRank] at hp
    | .construct _ _, _, hp, _, _, _, _, _, _ => by simp [placeRank] at hp
  /-- Assignment targets: the only `store` is to a scalar variable (`varOKS`: a local of rank 0). -/
  theorem lowerStore_accS (Γ : Env) (V : List (Scope × VarKey)) : ∀ (e : Expr), isLhs e = true → okES Γ e = true →
      (∀ a ∈ accE e, a ∈ V) → ∀ (v : Opd) (k : Nat) (cs : List Instr) (k' : Nat),
      lowerStore e v k = (cs, k') → AccInS Γ V cs
    | .var sc key ty, _, hok, hV, v, k, cs, k', h => by
      obtain ⟨_, hvar⟩ := okES_var_inv hok
      simp only [lowerStore, Prod.mk.injEq] at h
      obtain ⟨rfl, rfl⟩ := h
      exact AccInS.single ⟨hV _ (by simp [accE]), varOKS_store hvar⟩
    | .index kd ty base idx, _, hok, hV, v, k, cs, k', h => by
      obtain ⟨rfl, _, hb, hi⟩ := okES_index_inv hok
      rcases heb : lowerE base k with ⟨cb, vb, k1⟩
      rcases hei : lowerE idx k1 with ⟨ci, vi, k2⟩
      have ib := lowerP_acc Γ V base 1 hb (fun a ha => hV a (by simp [accE, ha])) k cb vb k1 heb
      have ii := lowerE_accS Γ V idx hi (fun a ha => hV a (by simp [accE, ha])) k1 ci vi k2 hei
      simp only [lowerStore, heb, hei, Prod.mk.injEq] at h
      obtain ⟨rfl, rfl⟩ := h
      exact (ib.append ii).snoc trivial
    | .member ty base f, _, hok, hV, v, k, cs, k', h => by
      obtain ⟨_, hb⟩ := okES_member_inv hok
      rcases heb : lowerE base k with ⟨cb, vb, k1⟩
      have ib := lowerP_acc Γ V base 1 hb (fun a ha => hV a (by simpa [accE] using ha)) k cb vb k1 heb
      simp only [lowerStore, heb, Prod.mk.injEq] at h
      obtain ⟨rfl, rfl⟩ := h
      exact ib.snoc trivial
    | .litI _, hl, _, _, _, _, _, _, _ => by simp [isLhs] at hl
    | .litF _, hl, _, _, _, _, _, _, _ => by simp [isLhs] at hl
    | .bin _ _ _ _, hl, _, _, _, _, _, _, _ => by simp [isLhs] at hl
    | .cast _ _, hl, _, _, _, _, _, _, _ => by simp [isLhs] at hl
    | .assign _ _, hl, _, _, _, _, _, _, _ => by simp [isLhs] at hl
    | .affix _ _ _, hl, _, _, _, _, _, _, _ => by simp [isLhs] at hl
    | .call _ _ _, hl, _, _, _, _, _, _, _ => by simp [isLhs] at hl
    | .swizzle _ _ _, hl, _, _, _, _, _, _, _ => by simp [isLhs] at hl
    | .construct _ _, hl, _, _, _, _, _, _, _ => by simp [isLhs] at hl
end

theorem lowerOptE_accS (Γ : Env) (V : List (Scope × VarKey)) : ∀ (oe : Option Expr), okOptES Γ oe = true →
    (∀ a ∈ accOptE oe, a ∈ V) → ∀ (k : Nat) (c : List Instr) (o : Option Opd) (k' : Nat),
    lowerOptE oe k = (c, o, k') → AccInS Γ V c
  | none, _, _, k, c, o, k', h => by
    simp only [lowerOptE, Prod.mk.injEq] at h
    obtain ⟨rfl, rfl, rfl⟩ := h
    exact AccInS.nil V
  | some e, hok, hV, k, c, o, k', h => by
    rcases he : lowerE e k with ⟨c1, v1, k1⟩
    have ie := lowerE_accS Γ V e hok hV k c1 v1 k1 he
    simp only [lowerOptE, he, Prod.mk.injEq] at h
    obtain ⟨rfl, rfl, rfl⟩ := h
    exact ie

theorem AccPS_forBranch (Γ : Env) (V : List (Scope × VarKey)) (o : Option Opd) (a b : Nat) : AccPS Γ V (forBranch o a b) := by
  cases o <;> trivial

/-- Reassembles `AccIn` of a statement's code from `AccIn` of its pieces (hypotheses in the context). -/
macro "accS_close" : tactic => `(tactic| (
  simp only [AccInS_append_iff, AccInS_cons_iff, AccPS_forBranch]
  simp only [AccPS, *, and_self, AccInS.nil]))

theorem lowerS_accS (Γ : Env) (V : List (Scope × VarKey)) : ∀ (s : Stmt) (inLoop : Bool), okSS Γ inLoop s = true →
    (∀ a ∈ accS s, a ∈ V) → ∀ (brk cont : Option Nat) (k : Nat) (c : List Instr) (k' : Nat),
    lowerS brk cont s k = (c, k') → AccInS Γ V c
  | .skip, _, _, _, brk, cont, k, c, k', h => by
    simp only [lowerS, Prod.mk.injEq] at h
    obtain ⟨rfl, rfl⟩ := h
    exact AccInS.nil V
  | .decl name ty none, _, _, _, brk, cont, k, c, k', h => by
    simp only [lowerS, Prod.mk.injEq] at h
    obtain ⟨rfl, rfl⟩ := h
    exact AccInS.single trivial
  | .decl name ty (some e), _, hok, hV, brk, cont, k, c, k', h => by
    simp only [okSS, Bool.and_eq_true] at hok
    rcases he : lowerE e (k + 1) with ⟨c1, v1, k1⟩
    have ie := lowerE_accS Γ V e hok.2 (fun a ha => hV a (by simp [accS, ha])) (k + 1) c1 v1 k1 he
    simp only [lowerS, he, Prod.mk.injEq] at h
    obtain ⟨rfl, rfl⟩ := h
    refine ((AccInS.single (ins := .newVar k ty name) trivial).append ie).snoc ⟨hV _ (by simp [accS]), ?_⟩
    intro x _ hx
    cases hx
    simpa using hok.1.2
  | .expr e, _, hok, hV, brk, cont, k, c, k', h => by
    simp only [okSS] at hok
    rcases he : lowerE e k with ⟨c1, v1, k1⟩
    have ie := lowerE_accS Γ V e hok (fun a ha => hV a (by simpa [accS] using ha)) k c1 v1 k1 he
    simp only [lowerS, he, Prod.mk.injEq] at h
    obtain ⟨rfl, rfl⟩ := h
    exact ie
  | .seq a b, il, hok, hV, brk, cont, k, c, k', h => by
    simp only [okSS, Bool.and_eq_true] at hok
    rcases ha : lowerS brk cont a k with ⟨ca, k1⟩
    rcases hb : lowerS brk cont b k1 with ⟨cb, k2⟩
    have ia := lowerS_accS Γ V a il hok.1 (fun x hx => hV x (by simp [accS, hx])) brk cont k ca k1 ha
    have ib := lowerS_accS Γ V b il hok.2 (fun x hx => hV x (by simp [accS, hx])) brk cont k1 cb k2 hb
    simp only [lowerS, ha, hb, Prod.mk.injEq] at h
    obtain ⟨rfl, rfl⟩ := h
    exact ia.append ib
  | .ite1 cnd t, il, hok, hV, brk, cont, k, c, k', h => by
    simp only [okSS, Bool.and_eq_true] at hok
    rcases hc : lowerE cnd k with ⟨cc, v, k1⟩
    rcases ht : lowerS brk cont t (k1 + 2) with ⟨ct, k2⟩
    have ic := lowerE_accS Γ V cnd hok.1 (fun x hx => hV x (by simp [accS, hx])) k cc v k1 hc
    have it := lowerS_accS Γ V t il hok.2 (fun x hx => hV x (by simp [accS, hx])) brk cont (k1 + 2) ct k2 ht
    simp only [lowerS, hc, ht, Prod.mk.injEq] at h
    obtain ⟨rfl, rfl⟩ := h
    accS_close
  | .ite2 cnd t e, il, hok, hV, brk, cont, k, c, k', h => by
    simp only [okSS, Bool.and_eq_true] at hok
    rcases hc : lowerE cnd k with ⟨cc, v, k1⟩
    rcases ht : lowerS brk cont t (k1 + 3) with ⟨ct, k2⟩
    rcases hel : lowerS brk cont e k2 with ⟨ce, k3⟩
    have ic := lowerE_accS Γ V cnd hok.1.1 (fun x hx => hV x (by simp [accS, hx])) k cc v k1 hc
    have it := lowerS_accS Γ V t il hok.1.2 (fun x hx => hV x (by simp [accS, hx])) brk cont (k1 + 3) ct k2 ht
    have ie := lowerS_accS Γ V e il hok.2 (fun x hx => hV x (by simp [accS, hx])) brk cont k2 ce k3 hel
    simp only [lowerS, hc, ht, hel, Prod.mk.injEq] at h
    obtain ⟨rfl, rfl⟩ := h
    accS_close
  | .whileL cnd body, il, hok, hV, brk, cont, k, c, k', h => by
    simp only [okSS, Bool.and_eq_true] at hok
    rcases hc : lowerE cnd (k + 3) with ⟨cc, v, k1⟩
    rcases hb : lowerS (some (k + 2)) (some k) body k1 with ⟨cb, k2⟩
    have ic := lowerE_accS Γ V cnd hok.1 (fun x hx => hV x (by simp [accS, hx])) (k + 3) cc v k1 hc
    have ib := lowerS_accS Γ V body true hok.2 (fun x hx => hV x (by simp [accS, hx])) (some (k + 2)) (some k) k1 cb k2 hb
    simp only [lowerS, hc, hb, Prod.mk.injEq] at h
    obtain ⟨rfl, rfl⟩ := h
    accS_close
  | .doL body cnd, il, hok, hV, brk, cont, k, c, k', h => by
    simp only [okSS, Bool.and_eq_true] at hok
    rcases hb : lowerS (some (k + 2)) (some (k + 1)) body (k + 3) with ⟨cb, k1⟩
    rcases hc : lowerE cnd k1 with ⟨cc, v, k2⟩
    have ib := lowerS_accS Γ V body true hok.1 (fun x hx => hV x (by simp [accS, hx])) (some (k + 2)) (some (k + 1))
      (k + 3) cb k1 hb
    have ic := lowerE_accS Γ V cnd hok.2 (fun x hx => hV x (by simp [accS, hx])) k1 cc v k2 hc
    simp only [lowerS, hc, hb, Prod.mk.injEq] at h
    obtain ⟨rfl, rfl⟩ := h
    accS_close
  | .forL init cnd next body, il, hok, hV, brk, cont, k, c, k', h => by
    simp only [okSS, Bool.and_eq_true] at hok
    obtain ⟨⟨⟨hoki, hokc⟩, hokn⟩, hokb⟩ := hok
    rcases hi : lowerS brk cont init k with ⟨ci, k0⟩
    rcases hc : lowerOptE cnd (k0 + 4) with ⟨cc, v, k1⟩
    rcases hb : lowerS (some (k0 + 3)) (some (k0 + 2)) body k1 with ⟨cb, k2⟩
    rcases hn : lowerOptE next k2 with ⟨cn, vn, k3⟩
    have ii := lowerS_accS Γ V init il hoki (fun x hx => hV x (by simp [accS, hx])) brk cont k ci k0 hi
    have ic := lowerOptE_accS Γ V cnd hokc (fun x hx => hV x (by simp [accS, hx])) (k0 + 4) cc v k1 hc
    have ib := lowerS_accS Γ V body true hokb (fun x hx => hV x (by simp [accS, hx])) (some (k0 + 3)) (some (k0 + 2))
      k1 cb k2 hb
    have inx := lowerOptE_accS Γ V next hokn (fun x hx => hV x (by simp [accS, hx])) k2 cn vn k3 hn
    simp only [lowerS, hi, hc, hb, hn, Prod.mk.injEq] at h
    obtain ⟨rfl, rfl⟩ := h
    accS_close
  | .brk, _, _, _, brk, cont, k, c, k', h => by
    simp only [lowerS, Prod.mk.injEq] at h
    obtain ⟨rfl, rfl⟩ := h
    exact AccInS.single trivial
  | .cont, _, _, _, brk, cont, k, c, k', h => by
    simp only [lowerS, Prod.mk.injEq] at h
    obtain ⟨rfl, rfl⟩ := h
    exact AccInS.single trivial
  | .ret none, _, _, _, brk, cont, k, c, k', h => by
    simp only [lowerS, Prod.mk.injEq] at h
    obtain ⟨rfl, rfl⟩ := h
    exact AccInS.single trivial
  | .ret (some e), _, hok, hV, brk, cont, k, c, k', h => by
    simp only [okSS] at hok
    rcases he : lowerE e k with ⟨c1, v1, k1⟩
    have ie := lowerE_accS Γ V e hok (fun a ha => hV a (by simpa [accS] using ha)) k c1 v1 k1 he
    simp only [lowerS, he, Prod.mk.injEq] at h
    obtain ⟨rfl, rfl⟩ := h
    exact ie.snoc trivial

/-! ## Functions -/

theorem lowerFn_accS (f : FnDef) (h : okFnS f = true) : AccInS (envOf f.body) (accS f.body) (lowerFn f).code := by
  rcases hl : lowerS none none f.body 0 with ⟨c, k'⟩
  have := lowerS_accS (envOf f.body) (accS f.body) f.body false h (fun _ ha => ha) none none 0 c k' hl
  simpa [lowerFn, hl] using this

/-- `forwardOK` holds after ANY pass and from any admissible `prev`; in particular for the code the cast pass leaves. -/
theorem lowerFn_forwardOKS (f : FnDef) (h : okFnS f = true) (hs : noShadowFn f = true) :
    forwardOK none (pass ccDecide (lowerFn f).code) = true :=
  forwardOK_of_accS hs _ none (by intro p hp; cases hp) ((lowerFn_accS f h).pass ccDecide)

/-- … and also for the unoptimised code. -/
theorem lowerFn_forwardOKS_raw (f : FnDef) (h : okFnS f = true) (hs : noShadowFn f = true) :
    forwardOK none (lowerFn f).code = true :=
  forwardOK_of_accS hs _ none (by intro p hp; cases hp) (lowerFn_accS f h)

theorem lowerFn_optOKS (f : FnDef) (h : okFnS f = true) (hs : noShadowFn f = true) : optOK (lowerFn f) = true := by
  simp only [optOK, Bool.and_eq_true]
  exact ⟨⟨lowerFn_blockLocalS f h, lowerFn_forwardOKS f h hs⟩, lowerFn_defsDistinctS f h⟩

end Lower
end Nsl
