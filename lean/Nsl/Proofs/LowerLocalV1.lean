import Nsl.Proofs.LowerLocalS1
/-!
# The lowering produces block-local, single-definition code for EVERY expression of the typed core — part 1

`LowerLocal1` (scalar core) and `LowerLocalS1` (storage core) prove the fragment invariants `SLocal` / `ELocal` under
the restrictions `okE` / `okES Γ`.  Neither restriction is needed: every instruction the lowering emits for an
expression takes a fresh number and reads operands that were produced EARLIER IN THE SAME label-free code.  Here this is
proved for all twelve expression forms, all five shapes of a binary node (`mMulM`, `rowsMM`, `mMulV`, `rowsSM`,
`rowsMS`, `mkBin` incl. the operand swap for scalar*vector), `construct`, the read shuffle, `vecGet`/`matGet`, and for
the recursive `lowerStore` (store shuffle, `vecSet`/`matSet` followed by the store of the whole updated value, and its
catch-all that lowers the node for its value).

* `PLocal k0 c k`   – a label-free prefix (`SLocal` + `NoLabels`): what code before a store target / a row loop is;
* `rowsMM/MS/SM_local` – the unrolled row loops extend a prefix that defines both operands;
* `lowerE_localG`, `lowerArgs_localG`, `lowerStore_localG` – mutual, by well-founded recursion on `(sizeOf e, 0/1)`
  because the catch-all of `lowerStore` calls `lowerE` on the SAME expression.
-/
namespace Nsl
namespace Lower
open Core Opt WF

theorem opdsRefs_append (a b : List Opd) : opdsRefs (a ++ b) = opdsRefs a ++ opdsRefs b := by
  induction a with
  | nil => rfl
  | cons x xs ih => simp [opdsRefs, ih, List.append_assoc]

theorem defs_mem_left {a b : List Instr} {r : Nat} (h : r ∈ defs a) : r ∈ defs (a ++ b) := by
  rw [defs_append]; exact List.mem_append_left _ h

theorem defs_mem_right {a b : List Instr} {r : Nat} (h : r ∈ defs b) : r ∈ defs (a ++ b) := by
  rw [defs_append]; exact List.mem_append_right _ h

/-! ## Label-free prefixes -/

/-- A label-free code prefix lowered with the counter going from `k0` to `k`. -/
structure PLocal (k0 : Nat) (c : List Instr) (k : Nat) : Prop where
  sl : SLocal k0 c k
  nl : NoLabels c

theorem PLocal.nil (k : Nat) : PLocal k [] k := ⟨SLocal.nil k, NoLabels.nil⟩

theorem ELocal.pl {k k' : Nat} {c : List Instr} {o : Opd} (h : ELocal k c o k') : PLocal k c k' := ⟨h.sl, h.noLab⟩

theorem PLocal.append {k0 k k' : Nat} {a b : List Instr} (ha : PLocal k0 a k) (hb : PLocal k b k') :
    PLocal k0 (a ++ b) k' := ⟨ha.sl.append hb.sl, NoLabels.append ha.nl hb.nl⟩

/-- Append an instruction that defines the fresh number. -/
theorem PLocal.snocDef {k0 k1 : Nat} {c : List Instr} {ins : Instr} (h : PLocal k0 c k1) (hl : labelOf ins = none)
    (hu : ∀ r ∈ usesOf ins, r ∈ defs c) (hd : defOf ins = some k1) : PLocal k0 (c ++ [ins]) (k1 + 1) :=
  (ELocal.snocDef h.sl h.nl hl hu hd).pl

/-- Append an instruction that defines nothing (a `store…`); the counter may advance. -/
theorem PLocal.snocUse {k0 k1 k2 : Nat} {c : List Instr} {ins : Instr} (h : PLocal k0 c k1) (hl : labelOf ins = none)
    (hu : ∀ r ∈ usesOf ins, r ∈ defs c) (hd : defOf ins = none) (hle : k1 ≤ k2) : PLocal k0 (c ++ [ins]) k2 :=
  ⟨SLocal.snoc h.sl h.nl hl hu (by simp [hd]) hle, h.nl.snoc hl⟩

theorem PLocal.elocal {k0 k : Nat} {c : List Instr} {o : Opd} (h : PLocal k0 c k) (ho : ∀ r ∈ opdRefs o, r ∈ defs c) :
    ELocal k0 c o k := ⟨h.sl, h.nl, ho⟩

/-- The result of a defining instruction appended to a prefix. -/
theorem PLocal.snocE {k0 k1 : Nat} {c : List Instr} {ins : Instr} (h : PLocal k0 c k1) (hl : labelOf ins = none)
    (hu : ∀ r ∈ usesOf ins, r ∈ defs c) (hd : defOf ins = some k1) : ELocal k0 (c ++ [ins]) (.ref k1) (k1 + 1) :=
  ELocal.snocDef h.sl h.nl hl hu hd

/-! ## `mkBin` (either operand order) -/

theorem mkBin_label (dst : Nat) (op : BOp) (rty : ITy) (a : Opd) (ta : ITy) (b : Opd) (tb : ITy) :
    labelOf (mkBin dst op rty a ta b tb) = none := by
  unfold mkBin; split <;> rfl

theorem mkBin_def (dst : Nat) (op : BOp) (rty : ITy) (a : Opd) (ta : ITy) (b : Opd) (tb : ITy) :
    defOf (mkBin dst op rty a ta b tb) = some dst := by
  unfold mkBin; split <;> rfl

theorem mkBin_uses {dst : Nat} {op : BOp} {rty : ITy} {a : Opd} {ta : ITy} {b : Opd} {tb : ITy} {r : Nat}
    (h : r ∈ usesOf (mkBin dst op rty a ta b tb)) : r ∈ opdRefs a ∨ r ∈ opdRefs b := by
  unfold mkBin at h
  split at h
  · simpa [usesOf] using h
  · have := (by simpa [usesOf] using h : r ∈ opdRefs b ∨ r ∈ opdRefs a)
    exact this.symm

/-! ## The unrolled row loops extend a prefix that defines both operands -/

theorem rowsMM_local (op : BOp) (lt rt resT : ITy) (l r : Opd) {k0 k : Nat} {c0 : List Instr} (h0 : PLocal k0 c0 k)
    (hl : ∀ x ∈ opdRefs l, x ∈ defs c0) (hr : ∀ x ∈ opdRefs r, x ∈ defs c0) :
    ∀ (n : Nat) (code : List Instr) (rows : List Opd) (k' : Nat),
      rowsMM op lt rt resT l r n k = (code, rows, k') →
      PLocal k0 (c0 ++ code) k' ∧ ∀ x ∈ opdsRefs rows, x ∈ defs (c0 ++ code) := by
  intro n
  induction n with
  | zero =>
    intro code rows k' h
    simp only [rowsMM, Prod.mk.injEq] at h
    obtain ⟨rfl, rfl, rfl⟩ := h
    exact ⟨by simpa using h0, by simp [opdsRefs]⟩
  | succ n ih =>
    intro code rows k' h
    rcases hrow : rowsMM op lt rt resT l r n k with ⟨c1, r1, k1⟩
    obtain ⟨p1, q1⟩ := ih c1 r1 k1 hrow
    simp only [rowsMM, hrow, Prod.mk.injEq] at h
    obtain ⟨rfl, rfl, rfl⟩ := h
    have s1 := p1.snocDef (ins := .matGet k1 (rowType lt) l (.cInt (n : Int))) rfl
      (by intro x hx
          exact defs_mem_left (hl x (by simpa [usesOf, opdRefs] using hx))) rfl
    have s2 := s1.snocDef (ins := .matGet (k1 + 1) (rowType rt) r (.cInt (n : Int))) rfl
      (by intro x hx
          exact defs_mem_left (defs_mem_left (hr x (by simpa [usesOf, opdRefs] using hx)))) rfl
    have s3 := s2.snocDef
      (ins := mkBin (k1 + 2) op (rowType resT) (.ref k1) (rowType lt) (.ref (k1 + 1)) (rowType rt)) (mkBin_label ..)
      (by intro x hx
          rcases mkBin_uses hx with hx | hx
          · simp only [opdRefs, List.mem_cons, List.not_mem_nil, or_false] at hx
            subst hx
            exact defs_mem_left (defs_snoc_def rfl)
          · simp only [opdRefs, List.mem_cons, List.not_mem_nil, or_false] at hx
            subst hx
            exact defs_snoc_def rfl) (mkBin_def ..)
    refine ⟨by simpa [List.append_assoc] using s3, ?_⟩
    intro x hx
    rw [opdsRefs_append, List.mem_append] at hx
    have e : c0 ++ (c1 ++ [Instr.matGet k1 (rowType lt) l (.cInt (n : Int)),
        Instr.matGet (k1 + 1) (rowType rt) r (.cInt (n : Int)),
        mkBin (k1 + 2) op (rowType resT) (.ref k1) (rowType lt) (.ref (k1 + 1)) (rowType rt)]) =
        (((c0 ++ c1) ++ [Instr.matGet k1 (rowType lt) l (.cInt (n : Int))]) ++
        [Instr.matGet (k1 + 1) (rowType rt) r (.cInt (n : Int))]) ++
        [mkBin (k1 + 2) op (rowType resT) (.ref k1) (rowType lt) (.ref (k1 + 1)) (rowType rt)] := by
      simp [List.append_assoc]
    rw [e]
    rcases hx with hx | hx
    · exact defs_mem_left (defs_mem_left (defs_mem_left (q1 x hx)))
    · have : x = k1 + 2 := by simpa [opdsRefs, opdRefs] using hx
      subst this
      exact defs_snoc_def (mkBin_def ..)

theorem rowsMS_local (op : BOp) (lt rt resT : ITy) (l r : Opd) {k0 k : Nat} {c0 : List Instr} (h0 : PLocal k0 c0 k)
    (hl : ∀ x ∈ opdRefs l, x ∈ defs c0) (hr : ∀ x ∈ opdRefs r, x ∈ defs c0) :
    ∀ (n : Nat) (code : List Instr) (rows : List Opd) (k' : Nat),
      rowsMS op lt rt resT l r n k = (code, rows, k') →
      PLocal k0 (c0 ++ code) k' ∧ ∀ x ∈ opdsRefs rows, x ∈ defs (c0 ++ code) := by
  intro n
  induction n with
  | zero =>
    intro code rows k' h
    simp only [rowsMS, Prod.mk.injEq] at h
    obtain ⟨rfl, rfl, rfl⟩ := h
    exact ⟨by simpa using h0, by simp [opdsRefs]⟩
  | succ n ih =>
    intro code rows k' h
    rcases hrow : rowsMS op lt rt resT l r n k with ⟨c1, r1, k1⟩
    obtain ⟨p1, q1⟩ := ih c1 r1 k1 hrow
    simp only [rowsMS, hrow, Prod.mk.injEq] at h
    obtain ⟨rfl, rfl, rfl⟩ := h
    have s1 := p1.snocDef (ins := .matGet k1 (rowType lt) l (.cInt (n : Int))) rfl
      (by intro x hx
          exact defs_mem_left (hl x (by simpa [usesOf, opdRefs] using hx))) rfl
    have s2 := s1.snocDef
      (ins := mkBin (k1 + 1) op (rowType resT) (.ref k1) (rowType lt) r rt) (mkBin_label ..)
      (by intro x hx
          rcases mkBin_uses hx with hx | hx
          · simp only [opdRefs, List.mem_cons, List.not_mem_nil, or_false] at hx
            subst hx
            exact defs_snoc_def rfl
          · exact defs_mem_left (defs_mem_left (hr x hx))) (mkBin_def ..)
    refine ⟨by simpa [List.append_assoc] using s2, ?_⟩
    intro x hx
    rw [opdsRefs_append, List.mem_append] at hx
    have e : c0 ++ (c1 ++ [Instr.matGet k1 (rowType lt) l (.cInt (n : Int)),
        mkBin (k1 + 1) op (rowType resT) (.ref k1) (rowType lt) r rt]) =
        ((c0 ++ c1) ++ [Instr.matGet k1 (rowType lt) l (.cInt (n : Int))]) ++
        [mkBin (k1 + 1) op (rowType resT) (.ref k1) (rowType lt) r rt] := by
      simp [List.append_assoc]
    rw [e]
    rcases hx with hx | hx
    · exact defs_mem_left (defs_mem_left (q1 x hx))
    · have : x = k1 + 1 := by simpa [opdsRefs, opdRefs] using hx
      subst this
      exact defs_snoc_def (mkBin_def ..)

theorem rowsSM_local (op : BOp) (lt rt resT : ITy) (l r : Opd) {k0 k : Nat} {c0 : List Instr} (h0 : PLocal k0 c0 k)
    (hl : ∀ x ∈ opdRefs l, x ∈ defs c0) (hr : ∀ x ∈ opdRefs r, x ∈ defs c0) :
    ∀ (n : Nat) (code : List Instr) (rows : List Opd) (k' : Nat),
      rowsSM op lt rt resT l r n k = (code, rows, k') →
      PLocal k0 (c0 ++ code) k' ∧ ∀ x ∈ opdsRefs rows, x ∈ defs (c0 ++ code) := by
  intro n
  induction n with
  | zero =>
    intro code rows k' h
    simp only [rowsSM, Prod.mk.injEq] at h
    obtain ⟨rfl, rfl, rfl⟩ := h
    exact ⟨by simpa using h0, by simp [opdsRefs]⟩
  | succ n ih =>
    intro code rows k' h
    rcases hrow : rowsSM op lt rt resT l r n k with ⟨c1, r1, k1⟩
    obtain ⟨p1, q1⟩ := ih c1 r1 k1 hrow
    simp only [rowsSM, hrow, Prod.mk.injEq] at h
    obtain ⟨rfl, rfl, rfl⟩ := h
    have s1 := p1.snocDef (ins := .matGet k1 (rowType rt) r (.cInt (n : Int))) rfl
      (by intro x hx
          exact defs_mem_left (hr x (by simpa [usesOf, opdRefs] using hx))) rfl
    have s2 := s1.snocDef
      (ins := mkBin (k1 + 1) op (rowType resT) l lt (.ref k1) (rowType rt)) (mkBin_label ..)
      (by intro x hx
          rcases mkBin_uses hx with hx | hx
          · exact defs_mem_left (defs_mem_left (hl x hx))
          · simp only [opdRefs, List.mem_cons, List.not_mem_nil, or_false] at hx
            subst hx
            exact defs_snoc_def rfl) (mkBin_def ..)
    refine ⟨by simpa [List.append_assoc] using s2, ?_⟩
    intro x hx
    rw [opdsRefs_append, List.mem_append] at hx
    have e : c0 ++ (c1 ++ [Instr.matGet k1 (rowType rt) r (.cInt (n : Int)),
        mkBin (k1 + 1) op (rowType resT) l lt (.ref k1) (rowType rt)]) =
        ((c0 ++ c1) ++ [Instr.matGet k1 (rowType rt) r (.cInt (n : Int))]) ++
        [mkBin (k1 + 1) op (rowType resT) l lt (.ref k1) (rowType rt)] := by
      simp [List.append_assoc]
    rw [e]
    rcases hx with hx | hx
    · exact defs_mem_left (defs_mem_left (q1 x hx))
    · have : x = k1 + 1 := by simpa [opdsRefs, opdRefs] using hx
      subst this
      exact defs_snoc_def (mkBin_def ..)

end Lower
end Nsl
