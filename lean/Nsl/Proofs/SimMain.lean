import Nsl.Proofs.SimStmt
/-!
# Simulation, part 3: calls, and the induction on the fuel of the reference run
-/
namespace Nsl
namespace Sim
open Core VM CoreSem Lower

theorem csim_succ (M : Core.Module) (hM : ScalarCore M) (n : Nat) (ihS : SSim M n) : CSim M (n + 1) := by
  intro name args g v g' as h hargs hg
  simp only [callFn] at h
  cases hf : findFn M name with
  | none => simp [hf] at h
  | some f =>
    simp only [hf] at h
    have hokf : okFn f = true := hM f (findFn_mem hf)
    have hfind : (lowerModule M).find name = some (lowerFn f) := by
      rw [find_lowerModule, hf]; rfl
    rcases hl : lowerS none none f.body 0 with ⟨code, k'⟩
    have hcode : (lowerFn f).code = code := by simp [lowerFn, hl]
    have hlab : LabelsOK code := hcode ▸ lowerFn_labelsOK f hokf
    have hfr : FrOK ({ args := args } : Frame) := ⟨MapOK.nil, hargs⟩
    have ih := ihS code hlab f.body { args := args } g false hokf hfr hg none none 0 code k' 0 [] hl
      (At.whole code) (by intro hh; cases hh)
    have hvf : vf [] ({ args := args } : Frame) = { args := args } := rfl
    rw [hvf] at ih
    have fin : ∀ (w : Val) (G : Globals) (A : List Val),
        Returns (lowerModule M) code (0, ({ args := args } : Frame), g) w G A →
        ∃ D, callD (lowerModule M) D name args g = .done w G A := by
      intro w G A hr
      have hr' : Returns (lowerModule M) (lowerFn f).code (0, ({ args := args } : Frame), g) w G A := hcode ▸ hr
      obtain ⟨D, hD⟩ := run_of_returns hr'
      exact ⟨D, by simp only [callD, hfind]; exact hD⟩
    cases hx : execS M n f.body { args := args } g with
    | normal fr1 g1 =>
      simp only [hx, COut.done.injEq] at h
      obtain ⟨rfl, rfl, rfl⟩ := h
      rw [hx] at ih
      obtain ⟨ρ', s, hf1, hg1⟩ := ih
      have hend : code[0 + code.length]? = none := by simp
      obtain ⟨D, hD⟩ := fin .none g1 fr1.args ⟨_, _, _, 0, s, step_end hend⟩
      exact ⟨D, hD, rfl, hg1⟩
    | ret w fr1 g1 =>
      simp only [hx, COut.done.injEq] at h
      obtain ⟨rfl, rfl, rfl⟩ := h
      rw [hx] at ih
      obtain ⟨hr, hnp, hg1⟩ := ih
      obtain ⟨D, hD⟩ := fin w g1 fr1.args hr
      exact ⟨D, hD, hnp, hg1⟩
    | brk fr1 g1 => simp [hx] at h
    | cont fr1 g1 => simp [hx] at h
    | fail er => simp [hx] at h

theorem sim_all (M : Core.Module) (hM : ScalarCore M) :
    ∀ n, ESim M n ∧ ASim M n ∧ SSim M n ∧ CSim M n := by
  intro n
  induction n with
  | zero =>
    refine ⟨?_, ?_, ?_, ?_⟩
    · intro code e fr g v fr' g' h; simp [evalE] at h
    · intro code as fr g vs fr' g' h; simp [evalArgs] at h
    · intro code _ s fr g inLoop _ _ _ brk cont k c k' q ρ _ _ _
      simp only [execS, SPost]
    · intro name args g v g' as h; simp [callFn] at h
  | succ n ih =>
    obtain ⟨ihE, ihA, ihS, ihC⟩ := ih
    exact ⟨esim_succ M n ihE ihA ihC, asim_succ M n ihE ihA, ssim_succ M n ihE ihS, csim_succ M hM n ihS⟩

end Sim
end Nsl
