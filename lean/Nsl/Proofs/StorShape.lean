import Nsl.Proofs.LowerShape
import Nsl.Model.StorageCore
/-!
# Storage core: inversion of the predicate, shape of the lowered code

Same facts as the second half of `LowerShape` (no label markers in expression code, monotone counter, operands
below the final counter, labels of a statement pairwise distinct), for the larger predicate `okES`/`okSS`.
-/
set_option linter.unusedSimpArgs false
namespace Nsl
namespace Lower
open Core

/-! ## Inversion of the predicate -/

theorem isLhs_inv {x : Expr} (h : isLhs x = true) :
    (∃ sc key ty, x = .var sc key ty) ∨ (∃ ty b i, x = .index .arr ty b i) ∨ (∃ ty b f, x = .member ty b f) := by
  cases x with
  | var sc key ty => exact .inl ⟨_, _, _, rfl⟩
  | index kd ty b i =>
    cases kd with
    | arr => exact .inr (.inl ⟨_, _, _, rfl⟩)
    | vec => simp [isLhs] at h
    | mat => simp [isLhs] at h
  | member ty b f => exact .inr (.inr ⟨_, _, _, rfl⟩)
  | _ => simp [isLhs] at h

theorem placeRank_var_inv {Γ : Env} {sc : Scope} {key : VarKey} {ty : ITy} {d : Nat}
    (h : placeRank Γ (.var sc key ty) = some d) :
    ∃ x, sc = .local ∧ key = .name x ∧ ty.isAggregate = true ∧ Γ x = d ∧ d ≠ 0 := by
  cases sc <;> cases key <;> simp [placeRank] at h
  rename_i x
  obtain ⟨⟨h1, h2⟩, h3⟩ := h
  exact ⟨x, rfl, rfl, h1, h3, by omega⟩

theorem placeRank_index_inv {Γ : Env} {kd : IdxKind} {ty : ITy} {base idx : Expr} {d : Nat}
    (h : placeRank Γ (.index kd ty base idx) = some d) :
    kd = .arr ∧ placeRank Γ base = some (d + 1) ∧ ty.isAggregate = true ∧ okES Γ idx = true ∧ d ≠ 0 := by
  cases kd with
  | arr =>
    simp only [placeRank] at h
    split at h
    · rename_i d' hb
      split at h
      · rename_i hc
        simp only [Bool.and_eq_true] at hc
        simp only [Option.some.injEq] at h
        subst h
        exact ⟨rfl, hb, hc.1, hc.2, by omega⟩
      · cases h
    · cases h
  | vec => simp [placeRank] at h
  | mat => simp [placeRank] at h

theorem placeRank_pos {Γ : Env} {e : Expr} {d : Nat} (h : placeRank Γ e = some d) : d ≠ 0 := by
  cases e with
  | var sc key ty => obtain ⟨_, _, _, _, _, h0⟩ := placeRank_var_inv h; exact h0
  | index kd ty b i => exact (placeRank_index_inv h).2.2.2.2
  | _ => simp [placeRank] at h

theorem okES_index_inv {Γ : Env} {kd : IdxKind} {ty : ITy} {base idx : Expr}
    (h : okES Γ (.index kd ty base idx) = true) :
    kd = .arr ∧ ty.isScalar = true ∧ placeRank Γ base = some 1 ∧ okES Γ idx = true := by
  cases kd with
  | arr =>
    simp only [okES, Bool.and_eq_true, beq_iff_eq] at h
    exact ⟨rfl, h.1.1, h.1.2, h.2⟩
  | vec => simp [okES] at h
  | mat => simp [okES] at h

theorem okES_member_inv {Γ : Env} {ty : ITy} {base : Expr} {f : String}
    (h : okES Γ (.member ty base f) = true) : ty.isScalar = true ∧ placeRank Γ base = some 1 := by
  simp only [okES, Bool.and_eq_true, beq_iff_eq] at h
  exact h

theorem okES_var_inv {Γ : Env} {sc : Scope} {key : VarKey} {ty : ITy} (h : okES Γ (.var sc key ty) = true) :
    ty.isScalar = true ∧ varOKS Γ sc key = true := by
  simpa [okES] using h

theorem isAggregate_of_scalar' {ty : ITy} (h : ty.isScalar = true) : ty.isAggregate = false := by
  cases ty <;> simp [ITy.isScalar] at h
  rfl

/-! ## Expressions: no labels, monotone counter, operand below the final counter -/

mutual
  theorem lowerE_shapeS (Γ : Env) : ∀ (e : Expr), okES Γ e = true → ∀ (k : Nat) (c : List Instr) (o : Opd) (k' : Nat),
      lowerE e k = (c, o, k') → NoLabels c ∧ k ≤ k' ∧ OpdBelow o k'
    | .litI i, _, k, c, o, k', h => by
      simp only [lowerE, Prod.mk.injEq] at h
      obtain ⟨rfl, rfl, rfl⟩ := h
      exact ⟨NoLabels.nil, Nat.le_refl _, trivial⟩
    | .litF f, _, k, c, o, k', h => by
      simp only [lowerE, Prod.mk.injEq] at h
      obtain ⟨rfl, rfl, rfl⟩ := h
      exact ⟨NoLabels.nil, Nat.le_refl _, trivial⟩
    | .var sc key ty, _, k, c, o, k', h => by
      simp only [lowerE, Prod.mk.injEq] at h
      obtain ⟨rfl, rfl, rfl⟩ := h
      exact ⟨NoLabels.cons rfl NoLabels.nil, by omega, by simp [OpdBelow]⟩
    | .bin op ty l r, hok, k, c, o, k', h => by
      simp only [okES, Bool.and_eq_true] at hok
      obtain ⟨⟨⟨⟨hty, hl⟩, hr⟩, hokl⟩, hokr⟩ := hok
      rcases hel : lowerE l k with ⟨cl, vl, k1⟩
      rcases her : lowerE r k1 with ⟨cr, vr, k2⟩
      obtain ⟨nl1, le1, _⟩ := lowerE_shapeS Γ l hokl k cl vl k1 hel
      obtain ⟨nl2, le2, _⟩ := lowerE_shapeS Γ r hokr k1 cr vr k2 her
      have hml : (Expr.ty l).isMatrix = false := by cases hh : Expr.ty l <;> simp_all [ITy.isScalar, ITy.isMatrix]
      have hmr : (Expr.ty r).isMatrix = false := by cases hh : Expr.ty r <;> simp_all [ITy.isScalar, ITy.isMatrix]
      simp only [lowerE, hel, her, hml, hmr, Bool.false_and, Bool.and_false, Bool.false_eq_true, if_false,
        Prod.mk.injEq] at h
      obtain ⟨rfl, rfl, rfl⟩ := h
      refine ⟨NoLabels.append (NoLabels.append nl1 nl2) (NoLabels.cons (labelOf_mkBin ..) NoLabels.nil), by omega, ?_⟩
      simp [OpdBelow]
    | .cast ty e, hok, k, c, o, k', h => by
      simp only [okES, Bool.and_eq_true] at hok
      rcases he : lowerE e k with ⟨c1, v1, k1⟩
      obtain ⟨nl1, le1, _⟩ := lowerE_shapeS Γ e hok.2 k c1 v1 k1 he
      simp only [lowerE, he, Prod.mk.injEq] at h
      obtain ⟨rfl, rfl, rfl⟩ := h
      exact ⟨NoLabels.append nl1 (NoLabels.cons rfl NoLabels.nil), by omega, by simp [OpdBelow]⟩
    | .assign lhs rhs, hok, k, c, o, k', h => by
      simp only [okES, Bool.and_eq_true] at hok
      rcases he : lowerE rhs k with ⟨c1, v1, k1⟩
      rcases hs : lowerStore lhs v1 k1 with ⟨c2, k2⟩
      obtain ⟨nl1, le1, ob1⟩ := lowerE_shapeS Γ rhs hok.2 k c1 v1 k1 he
      obtain ⟨nl2, le2⟩ := lowerStore_shapeS Γ lhs hok.1.1 hok.1.2 v1 k1 c2 k2 hs
      simp only [lowerE, he, hs, Prod.mk.injEq] at h
      obtain ⟨rfl, rfl, rfl⟩ := h
      exact ⟨NoLabels.append nl1 nl2, by omega, ob1.mono le2⟩
    | .affix post inc x, hok, k, c, o, k', h => by
      simp only [okES, Bool.and_eq_true] at hok
      rcases he : lowerE x k with ⟨c1, v1, k1⟩
      rcases hs : lowerStore x (.ref k1) (k1 + 1) with ⟨c2, k2⟩
      obtain ⟨nl1, le1, ob1⟩ := lowerE_shapeS Γ x hok.2 k c1 v1 k1 he
      obtain ⟨nl2, le2⟩ := lowerStore_shapeS Γ x hok.1 hok.2 (.ref k1) (k1 + 1) c2 k2 hs
      simp only [lowerE, he, hs, Prod.mk.injEq] at h
      obtain ⟨rfl, rfl, rfl⟩ := h
      refine ⟨NoLabels.append (NoLabels.append nl1 (NoLabels.cons rfl NoLabels.nil)) nl2, by omega, ?_⟩
      cases post
      · simp only [Bool.false_eq_true, if_false, OpdBelow]; omega
      · simp only [if_true]; exact ob1.mono (by omega)
    | .call fn ty args, hok, k, c, o, k', h => by
      simp only [okES] at hok
      rcases ha : lowerArgs args k with ⟨c1, vs, k1⟩
      obtain ⟨nl1, le1, _⟩ := lowerArgs_shapeS Γ args hok k c1 vs k1 ha
      simp only [lowerE, ha, Prod.mk.injEq] at h
      obtain ⟨rfl, rfl, rfl⟩ := h
      exact ⟨NoLabels.append nl1 (NoLabels.cons rfl NoLabels.nil), by omega, by simp [OpdBelow]⟩
    | .index kd ty base idx, hok, k, c, o, k', h => by
      obtain ⟨rfl, _, hb, hi⟩ := okES_index_inv hok
      rcases heb : lowerE base k with ⟨cb, vb, k1⟩
      rcases hei : lowerE idx k1 with ⟨ci, vi, k2⟩
      obtain ⟨nl1, le1, _⟩ := lowerP_shape Γ base 1 hb k cb vb k1 heb
      obtain ⟨nl2, le2, _⟩ := lowerE_shapeS Γ idx hi k1 ci vi k2 hei
      simp only [lowerE, heb, hei, Prod.mk.injEq] at h
      obtain ⟨rfl, rfl, rfl⟩ := h
      exact ⟨NoLabels.append (NoLabels.append nl1 nl2) (NoLabels.cons rfl NoLabels.nil), by omega, by simp [OpdBelow]⟩
    | .member ty base f, hok, k, c, o, k', h => by
      obtain ⟨_, hb⟩ := okES_member_inv hok
      rcases heb : lowerE base k with ⟨cb, vb, k1⟩
      obtain ⟨nl1, le1, _⟩ := lowerP_shape Γ base 1 hb k cb vb k1 heb
      simp only [lowerE, heb, Prod.mk.injEq] at h
      obtain ⟨rfl, rfl, rfl⟩ := h
      exact ⟨NoLabels.append nl1 (NoLabels.cons rfl NoLabels.nil), by omega, by simp [OpdBelow]⟩
    | .swizzle _ _ _, hok, _, _, _, _, _ => by simp [okES] at hok
    | .construct _ _, hok, _, _, _, _, _ => by simp [okES] at hok
  theorem lowerArgs_shapeS (Γ : Env) : ∀ (as : Args), okArgsS Γ as = true → ∀ (k : Nat) (c : List Instr) (os : List Opd)
      (k' : Nat), lowerArgs as k = (c, os, k') → NoLabels c ∧ k ≤ k' ∧ ∀ o ∈ os, OpdBelow o k'
    | .nil, _, k, c, os, k', h => by
      simp only [lowerArgs, Prod.mk.injEq] at h
      obtain ⟨rfl, rfl, rfl⟩ := h
      exact ⟨NoLabels.nil, Nat.le_refl _, by simp⟩
    | .cons e rest, hok, k, c, os, k', h => by
      simp only [okArgsS, Bool.and_eq_true] at hok
      rcases he : lowerE e k with ⟨c1, v1, k1⟩
      rcases hr : lowerArgs rest k1 with ⟨c2, vs, k2⟩
      obtain ⟨nl1, le1, ob1⟩ := lowerE_shapeS Γ e hok.1 k c1 v1 k1 he
      obtain ⟨nl2, le2, ob2⟩ := lowerArgs_shapeS Γ rest hok.2 k1 c2 vs k2 hr
      simp only [lowerArgs, he, hr, Prod.mk.injEq] at h
      obtain ⟨rfl, rfl, rfl⟩ := h
      refine ⟨NoLabels.append nl1 nl2, by omega, ?_⟩
      intro o ho
      rcases List.mem_cons.1 ho with rfl | ho
      · exact ob1.mono le2
      · exact ob2 o ho
  /-- Access chains lowered for their alias. -/
  theorem lowerP_shape (Γ : Env) : ∀ (e : Expr) (d : Nat), placeRank Γ e = some d → ∀ (k : Nat) (c : List Instr) (o : Opd)
      (k' : Nat), lowerE e k = (c, o, k') → NoLabels c ∧ k ≤ k' ∧ OpdBelow o k'
    | .var sc key ty, _, _, k, c, o, k', h => by
      simp only [lowerE, Prod.mk.injEq] at h
      obtain ⟨rfl, rfl, rfl⟩ := h
      exact ⟨NoLabels.cons rfl NoLabels.nil, by omega, by simp [OpdBelow]⟩
    | .index kd ty base idx, d, hp, k, c, o, k', h => by
      obtain ⟨rfl, hb, _, hi, _⟩ := placeRank_index_inv hp
      rcases heb : lowerE base k with ⟨cb, vb, k1⟩
      rcases hei : lowerE idx k1 with ⟨ci, vi, k2⟩
      obtain ⟨nl1, le1, _⟩ := lowerP_shape Γ base (d + 1) hb k cb vb k1 heb
      obtain ⟨nl2, le2, _⟩ := lowerE_shapeS Γ idx hi k1 ci vi k2 hei
      simp only [lowerE, heb, hei, Prod.mk.injEq] at h
      obtain ⟨rfl, rfl, rfl⟩ := h
      exact ⟨NoLabels.append (NoLabels.append nl1 nl2) (NoLabels.cons rfl NoLabels.nil), by omega, by simp [OpdBelow]⟩
    | .litI _, _, hp, _, _, _, _, _ => by simp [placeRank] at hp
    | .litF _, _, hp, _, _, _, _, _ => by simp [placeRank] at hp
    | .bin _ _ _ _, _, hp, _, _, _, _, _ => by simp [placeRank] at hp
    | .cast _ _, _, hp, _, _, _, _, _ => by simp [placeRank] at hp
    | .assign _ _, _, hp, _, _, _, _, _ => by simp [placeRank] at hp
    | .affix _ _ _, _, hp, _, _, _, _, _ => by simp [placeRank] at hp
    | .call _ _ _, _, hp, _, _, _, _, _ => by simp [placeRank] at hp
    | .member _ _ _, _, hp, _, _, _, _, _ => by simp [placeRank] at hp
    | .swizzle _ _ _, _, hp, _, _, _, _, _ => by simp [placeRank] at hp
    | .construct _ _, _, hp, _, _, _, _, _ => by simp [placeRank] at hp
  /-- Assignment targets. -/
  theorem lowerStore_shapeS (Γ : Env) : ∀ (e : Expr), isLhs e = true → okES Γ e = true → ∀ (v : Opd) (k : Nat)
      (c : List Instr) (k' : Nat), lowerStore e v k = (c, k') → NoLabels c ∧ k ≤ k'
    | .var sc key ty, _, _, v, k, c, k', h => by
      simp only [lowerStore, Prod.mk.injEq] at h
      obtain ⟨rfl, rfl⟩ := h
      exact ⟨NoLabels.cons rfl NoLabels.nil, by omega⟩
    | .index kd ty base idx, _, hok, v, k, c, k', h => by
      obtain ⟨rfl, _, hb, hi⟩ := okES_index_inv hok
      rcases heb : lowerE base k with ⟨cb, vb, k1⟩
      rcases hei : lowerE idx k1 with ⟨ci, vi, k2⟩
      obtain ⟨nl1, le1, _⟩ := lowerP_shape Γ base 1 hb k cb vb k1 heb
      obtain ⟨nl2, le2, _⟩ := lowerE_shapeS Γ idx hi k1 ci vi k2 hei
      simp only [lowerStore, heb, hei, Prod.mk.injEq] at h
      obtain ⟨rfl, rfl⟩ := h
      exact ⟨NoLabels.append (NoLabels.append nl1 nl2) (NoLabels.cons rfl NoLabels.nil), by omega⟩
    | .member ty base f, _, hok, v, k, c, k', h => by
      obtain ⟨_, hb⟩ := okES_member_inv hok
      rcases heb : lowerE base k with ⟨cb, vb, k1⟩
      obtain ⟨nl1, le1, _⟩ := lowerP_shape Γ base 1 hb k cb vb k1 heb
      simp only [lowerStore, heb, Prod.mk.injEq] at h
      obtain ⟨rfl, rfl⟩ := h
      exact ⟨NoLabels.append nl1 (NoLabels.cons rfl NoLabels.nil), by omega⟩
    | .litI _, hl, _, _, _, _, _, _ => by simp [isLhs] at hl
    | .litF _, hl, _, _, _, _, _, _ => by simp [isLhs] at hl
    | .bin _ _ _ _, hl, _, _, _, _, _, _ => by simp [isLhs] at hl
    | .cast _ _, hl, _, _, _, _, _, _ => by simp [isLhs] at hl
    | .assign _ _, hl, _, _, _, _, _, _ => by simp [isLhs] at hl
    | .affix _ _ _, hl, _, _, _, _, _, _ => by simp [isLhs] at hl
    | .call _ _ _, hl, _, _, _, _, _, _ => by simp [isLhs] at hl
    | .swizzle _ _ _, hl, _, _, _, _, _, _ => by simp [isLhs] at hl
    | .construct _ _, hl, _, _, _, _, _, _ => by simp [isLhs] at hl
end

theorem lowerOptE_shapeS (Γ : Env) : ∀ (oe : Option Expr), okOptES Γ oe = true → ∀ (k : Nat) (c : List Instr)
    (o : Option Opd) (k' : Nat), lowerOptE oe k = (c, o, k') → NoLabels c ∧ k ≤ k'
  | none, _, k, c, o, k', h => by
    simp only [lowerOptE, Prod.mk.injEq] at h
    obtain ⟨rfl, rfl, rfl⟩ := h
    exact ⟨NoLabels.nil, Nat.le_refl _⟩
  | some e, hok, k, c, o, k', h => by
    rcases he : lowerE e k with ⟨c1, v1, k1⟩
    obtain ⟨nl, le, _⟩ := lowerE_shapeS Γ e hok k c1 v1 k1 he
    simp only [lowerOptE, he, Prod.mk.injEq] at h
    obtain ⟨rfl, rfl, rfl⟩ := h
    exact ⟨nl, le⟩

/-! ## Statements -/

theorem lowerS_shapeS (Γ : Env) : ∀ (s : Stmt) (inLoop : Bool), okSS Γ inLoop s = true → ∀ (brk cont : Option Nat) (k : Nat)
    (c : List Instr) (k' : Nat), lowerS brk cont s k = (c, k') → k ≤ k' ∧ Ranged c k k'
  | .skip, _, _, brk, cont, k, c, k', h => by
    simp only [lowerS, Prod.mk.injEq] at h
    obtain ⟨rfl, rfl⟩ := h
    exact ⟨Nat.le_refl _, Ranged.of_noLabels NoLabels.nil _ _⟩
  | .decl name ty none, _, _, brk, cont, k, c, k', h => by
    simp only [lowerS, Prod.mk.injEq] at h
    obtain ⟨rfl, rfl⟩ := h
    exact ⟨by omega, Ranged.of_noLabels (NoLabels.cons rfl NoLabels.nil) _ _⟩
  | .decl name ty (some e), _, hok, brk, cont, k, c, k', h => by
    simp only [okSS, Bool.and_eq_true] at hok
    rcases he : lowerE e (k + 1) with ⟨c1, v1, k1⟩
    obtain ⟨nl, le, _⟩ := lowerE_shapeS Γ e hok.2 (k + 1) c1 v1 k1 he
    simp only [lowerS, he, Prod.mk.injEq] at h
    obtain ⟨rfl, rfl⟩ := h
    exact ⟨by omega, Ranged.of_noLabels (NoLabels.append (NoLabels.append (NoLabels.cons rfl NoLabels.nil) nl)
      (NoLabels.cons rfl NoLabels.nil)) _ _⟩
  | .expr e, _, hok, brk, cont, k, c, k', h => by
    simp only [okSS] at hok
    rcases he : lowerE e k with ⟨c1, v1, k1⟩
    obtain ⟨nl, le, _⟩ := lowerE_shapeS Γ e hok k c1 v1 k1 he
    simp only [lowerS, he, Prod.mk.injEq] at h
    obtain ⟨rfl, rfl⟩ := h
    exact ⟨le, Ranged.of_noLabels nl _ _⟩
  | .seq a b, il, hok, brk, cont, k, c, k', h => by
    simp only [okSS, Bool.and_eq_true] at hok
    rcases ha : lowerS brk cont a k with ⟨ca, k1⟩
    rcases hb : lowerS brk cont b k1 with ⟨cb, k2⟩
    obtain ⟨le1, r1, n1⟩ := lowerS_shapeS Γ a il hok.1 brk cont k ca k1 ha
    obtain ⟨le2, r2, n2⟩ := lowerS_shapeS Γ b il hok.2 brk cont k1 cb k2 hb
    simp only [lowerS, ha, hb, Prod.mk.injEq] at h
    obtain ⟨rfl, rfl⟩ := h
    refine ⟨by omega, ?_, ?_⟩
    · intro l hl
      simp only [labels_append, List.mem_append] at hl
      rcases hl with hl | hl
      · have := r1 l hl; omega
      · have := r2 l hl; omega
    · simp only [labels_append]
      refine List.nodup_append.2 ⟨n1, n2, ?_⟩
      intro x hx y hy hxy
      have := r1 x hx; have := r2 y hy; omega
  | .ite1 cnd t, il, hok, brk, cont, k, c, k', h => by
    simp only [okSS, Bool.and_eq_true] at hok
    rcases hc : lowerE cnd k with ⟨cc, v, k1⟩
    rcases ht : lowerS brk cont t (k1 + 2) with ⟨ct, k2⟩
    obtain ⟨nl, le1, _⟩ := lowerE_shapeS Γ cnd hok.1 k cc v k1 hc
    obtain ⟨le2, r2, n2⟩ := lowerS_shapeS Γ t il hok.2 brk cont (k1 + 2) ct k2 ht
    simp only [lowerS, hc, ht, Prod.mk.injEq] at h
    obtain ⟨rfl, rfl⟩ := h
    refine ⟨by omega, ?_⟩
    unfold Ranged
    simp only [labels_append, labels_cons_brc, labels_cons_br, labels_cons_label, labels_nil, nl.labels_eq,
      List.nil_append, List.append_nil]
    ranged_close
  | .ite2 cnd t e, il, hok, brk, cont, k, c, k', h => by
    simp only [okSS, Bool.and_eq_true] at hok
    rcases hc : lowerE cnd k with ⟨cc, v, k1⟩
    rcases ht : lowerS brk cont t (k1 + 3) with ⟨ct, k2⟩
    rcases hel : lowerS brk cont e k2 with ⟨ce, k3⟩
    obtain ⟨nl, le1, _⟩ := lowerE_shapeS Γ cnd hok.1.1 k cc v k1 hc
    obtain ⟨le2, r2, n2⟩ := lowerS_shapeS Γ t il hok.1.2 brk cont (k1 + 3) ct k2 ht
    obtain ⟨le3, r3, n3⟩ := lowerS_shapeS Γ e il hok.2 brk cont k2 ce k3 hel
    simp only [lowerS, hc, ht, hel, Prod.mk.injEq] at h
    obtain ⟨rfl, rfl⟩ := h
    refine ⟨by omega, ?_⟩
    unfold Ranged
    simp only [labels_append, labels_cons_brc, labels_cons_br, labels_cons_label, labels_nil, nl.labels_eq,
      List.nil_append, List.append_nil]
    ranged_close
  | .whileL cnd body, il, hok, brk, cont, k, c, k', h => by
    simp only [okSS, Bool.and_eq_true] at hok
    rcases hc : lowerE cnd (k + 3) with ⟨cc, v, k1⟩
    rcases hb : lowerS (some (k + 2)) (some k) body k1 with ⟨cb, k2⟩
    obtain ⟨nl, le1, _⟩ := lowerE_shapeS Γ cnd hok.1 (k + 3) cc v k1 hc
    obtain ⟨le2, r2, n2⟩ := lowerS_shapeS Γ body true hok.2 (some (k + 2)) (some k) k1 cb k2 hb
    simp only [lowerS, hc, hb, Prod.mk.injEq] at h
    obtain ⟨rfl, rfl⟩ := h
    refine ⟨by omega, ?_⟩
    unfold Ranged
    simp only [labels_append, labels_cons_brc, labels_cons_br, labels_cons_label, labels_nil, nl.labels_eq,
      List.nil_append, List.append_nil]
    ranged_close
  | .doL body cnd, il, hok, brk, cont, k, c, k', h => by
    simp only [okSS, Bool.and_eq_true] at hok
    rcases hb : lowerS (some (k + 2)) (some (k + 1)) body (k + 3) with ⟨cb, k1⟩
    rcases hc : lowerE cnd k1 with ⟨cc, v, k2⟩
    obtain ⟨le1, r1, n1⟩ := lowerS_shapeS Γ body true hok.1 (some (k + 2)) (some (k + 1)) (k + 3) cb k1 hb
    obtain ⟨nl, le2, _⟩ := lowerE_shapeS Γ cnd hok.2 k1 cc v k2 hc
    simp only [lowerS, hc, hb, Prod.mk.injEq] at h
    obtain ⟨rfl, rfl⟩ := h
    refine ⟨by omega, ?_⟩
    unfold Ranged
    simp only [labels_append, labels_cons_brc, labels_cons_br, labels_cons_label, labels_nil, nl.labels_eq,
      List.nil_append, List.append_nil]
    ranged_close
  | .forL init cnd next body, il, hok, brk, cont, k, c, k', h => by
    simp only [okSS, Bool.and_eq_true] at hok
    obtain ⟨⟨⟨hoki, hokc⟩, hokn⟩, hokb⟩ := hok
    rcases hi : lowerS brk cont init k with ⟨ci, k0⟩
    rcases hc : lowerOptE cnd (k0 + 4) with ⟨cc, v, k1⟩
    rcases hb : lowerS (some (k0 + 3)) (some (k0 + 2)) body k1 with ⟨cb, k2⟩
    rcases hn : lowerOptE next k2 with ⟨cn, vn, k3⟩
    obtain ⟨le0, r0, n0⟩ := lowerS_shapeS Γ init il hoki brk cont k ci k0 hi
    obtain ⟨nlc, le1⟩ := lowerOptE_shapeS Γ cnd hokc (k0 + 4) cc v k1 hc
    obtain ⟨le2, r2, n2⟩ := lowerS_shapeS Γ body true hokb (some (k0 + 3)) (some (k0 + 2)) k1 cb k2 hb
    obtain ⟨nln, le3⟩ := lowerOptE_shapeS Γ next hokn k2 cn vn k3 hn
    simp only [lowerS, hi, hc, hb, hn, Prod.mk.injEq] at h
    obtain ⟨rfl, rfl⟩ := h
    refine ⟨by omega, ?_⟩
    unfold Ranged
    cases v <;>
    · simp only [forBranch, labels_append, labels_cons_brc, labels_cons_br, labels_cons_label, labels_nil, nlc.labels_eq,
        nln.labels_eq, List.append_nil]
      ranged_close
  | .brk, _, _, brk, cont, k, c, k', h => by
    simp only [lowerS, Prod.mk.injEq] at h
    obtain ⟨rfl, rfl⟩ := h
    exact ⟨by omega, Ranged.of_noLabels (NoLabels.cons rfl NoLabels.nil) _ _⟩
  | .cont, _, _, brk, cont, k, c, k', h => by
    simp only [lowerS, Prod.mk.injEq] at h
    obtain ⟨rfl, rfl⟩ := h
    exact ⟨by omega, Ranged.of_noLabels (NoLabels.cons rfl NoLabels.nil) _ _⟩
  | .ret none, _, _, brk, cont, k, c, k', h => by
    simp only [lowerS, Prod.mk.injEq] at h
    obtain ⟨rfl, rfl⟩ := h
    exact ⟨by omega, Ranged.of_noLabels (NoLabels.cons rfl NoLabels.nil) _ _⟩
  | .ret (some e), _, hok, brk, cont, k, c, k', h => by
    simp only [okSS] at hok
    rcases he : lowerE e k with ⟨c1, v1, k1⟩
    obtain ⟨nl, le, _⟩ := lowerE_shapeS Γ e hok k c1 v1 k1 he
    simp only [lowerS, he, Prod.mk.injEq] at h
    obtain ⟨rfl, rfl⟩ := h
    exact ⟨by omega, Ranged.of_noLabels (NoLabels.append nl (NoLabels.cons rfl NoLabels.nil)) _ _⟩

theorem lowerFn_labelsOKS (f : FnDef) (h : okFnS f = true) : LabelsOK (lowerFn f).code := by
  rcases hl : lowerS none none f.body 0 with ⟨c, k'⟩
  obtain ⟨_, _, nd⟩ := lowerS_shapeS (envOf f.body) f.body false h none none 0 c k' hl
  simp only [lowerFn, hl]
  exact LabelsOK.of_nodup nd

end Lower
end Nsl
