import Nsl.Proofs.VecEval
import Nsl.Proofs.VecStore
import Nsl.Proofs.VecStmt
/-!
# Vector core, part 11: calls, and the induction on the fuel of the reference run
-/
set_option linter.unusedSimpArgs false
namespace Nsl
namespace Vec
open Core VM CoreSem Lower Sim

theorem csim_succV (M : Core.Module) (hM : VectorCore M) (n : Nat) (ihS : SSimV M n) : CSimV M (n + 1) := by
  intro name args g v g' as h hargs hg
  simp only [callFn] at h
  cases hf : findFn M name with
  | none => simp [hf] at h
  | some f =>
    simp only [hf] at h
    have hokf : okFnV M f = true := hM f (findFn_mem hf)
    simp only [okFnV, Bool.and_eq_true] at hokf
    obtain ⟨⟨hnb, hbody⟩, hretok⟩ := hokf
    have hfind : (lowerModule M).find name = some (lowerFn f) := by
      rw [find_lowerModule, hf]; rfl
    rcases hl : lowerS none none f.body 0 with ⟨code, k'⟩
    have hcode : (lowerFn f).code = code := by simp [lowerFn, hl]
    have hlab : LabelsOK code := hcode ▸ lowerFn_labelsOKG f
    have hfr : FrTy f.params (declShapes f.body) ({ args := args } : Frame) :=
      ⟨by intro x v s hget; simp at hget, hargs f hf⟩
    have ih := ihS f.params (declShapes f.body) (shape f.ret) code hlab f.body { args := args } g false hbody hfr hg
      none none 0 code k' 0 [] hl (At.whole code) (by intro hh; cases hh)
    have hvf : vf [] ({ args := args } : Frame) = { args := args } := rfl
    rw [hvf] at ih
    have fin : ∀ (w : Val) (G : Globals) (A : List Val),
        Returns (lowerModule M) code (0, ({ args := args } : Frame), g) w G A →
        ∃ D, callD (lowerModule M) D name args g = .done w G A := by
      intro w G A hr
      have hr' : Returns (lowerModule M) (lowerFn f).code (0, ({ args := args } : Frame), g) w G A := hcode ▸ hr
      obtain ⟨D, hD⟩ := run_of_returns hr'
      exact ⟨D, by simp only [callD, hfind]; exact hD⟩
    cases hx : execS M n f.body { args := args } g with
    | normal fr1 g1 =>
      simp only [hx, COut.done.injEq] at h
      obtain ⟨rfl, rfl, rfl⟩ := h
      rw [hx] at ih
      obtain ⟨ρ', s, hf1, hg1⟩ := ih
      have hend : code[0 + code.length]? = none := by simp
      obtain ⟨D, hD⟩ := fin .none g1 fr1.args ⟨_, _, _, 0, s, step_end hend⟩
      refine ⟨D, hD, ?_, hg1⟩
      intro f' hf'
      cases hf'
      rcases Bool.or_eq_true _ _ ▸ hretok with hs | har
      · exact fits_slot_none hs
      · exact absurd hx (alwaysRet_not_normal M f.body har n _ _ _ _)
    | ret w fr1 g1 =>
      simp only [hx, COut.done.injEq] at h
      obtain ⟨rfl, rfl, rfl⟩ := h
      rw [hx] at ih
      obtain ⟨hr, hfit, hg1⟩ := ih
      obtain ⟨D, hD⟩ := fin w g1 fr1.args hr
      refine ⟨D, hD, ?_, hg1⟩
      intro f' hf'
      cases hf'
      exact hfit
    | brk fr1 g1 => simp [hx] at h
    | cont fr1 g1 => simp [hx] at h
    | fail er => simp [hx] at h

theorem sim_allV (M : Core.Module) (hM : VectorCore M) :
    ∀ n, ESimV M n ∧ ASimV M n ∧ StSimV M n ∧ SSimV M n ∧ CSimV M n := by
  intro n
  induction n with
  | zero =>
    refine ⟨?_, ?_, ?_, ?_, ?_⟩
    · intro ps Γ code e fr g v fr' g' h; simp [evalE] at h
    · intro ps Γ code as fr g vs fr' g' h; simp [evalArgs] at h
    · intro ps Γ code lhs w fr g u fr' g' h; simp [storeTo] at h
    · intro ps Γ rs code _ s fr g inLoop _ _ _ brk cont k c k' q ρ _ _ _
      simp only [execS, SPostV]
    · intro name args g v g' as h; simp [callFn] at h
  | succ n ih =>
    obtain ⟨ihE, ihA, ihSt, ihS, ihC⟩ := ih
    exact ⟨esim_succV M n ihE ihA ihSt ihC, asim_succV M n ihE ihA, stsim_succV M n ihE ihSt,
      ssim_succV M n ihE ihS, csim_succV M hM n ihS⟩

/-! ## Decidable sufficient checks for the host hypotheses -/

def argsFitB : List (String × ITy) → List Val → Bool
  | p :: ps, a :: as => fits (shape p.2) a && argsFitB ps as
  | _, _ => true

theorem argsFit_of_check : ∀ (ps : List (String × ITy)) (args : List Val), argsFitB ps args = true → ArgsFit ps args
  | [], _, _ => by intro i p a hp; simp at hp
  | _ :: _, [], _ => by intro i p a _ ha; simp at ha
  | p :: ps, a :: as, h => by
    simp only [argsFitB, Bool.and_eq_true] at h
    intro i p' a' hp ha
    cases i with
    | zero =>
      simp only [List.getElem?_cons_zero, Option.some.injEq] at hp ha
      subst hp; subst ha; exact h.1
    | succ j =>
      simp only [List.getElem?_cons_succ] at hp ha
      exact argsFit_of_check ps as h.2 j p' a' hp ha

def globalsFitB (gs : List (String × ITy)) (g : Globals) : Bool :=
  g.all fun p => match Map.get gs p.1 with
    | some t => fits (shape t) p.2
    | none => true

theorem map_get_mem {m : Globals} {k : String} {v : Val} (h : Map.get m k = some v) : (k, v) ∈ m := by
  induction m with
  | nil => simp at h
  | cons p rest ih =>
    obtain ⟨k', v'⟩ := p
    by_cases hk : k' = k
    · subst hk
      simp only [Map.get, if_true, Option.some.injEq] at h
      subst h; exact List.mem_cons_self ..
    · simp only [Map.get, hk, if_false] at h
      exact List.mem_cons_of_mem _ (ih h)

theorem globalsFit_of_check (gs : List (String × ITy)) (g : Globals) (h : globalsFitB gs g = true) :
    GlobalsFit gs g := by
  intro n t v ht hv
  have := List.all_eq_true.1 h (n, v) (map_get_mem hv)
  simpa [ht] using this

end Vec
end Nsl
