import Nsl.Proofs.WF
import Nsl.Proofs.OptSimPasses
/-!
# Well-formedness (`WF`) from block-locality (C14, structural route)

`Nsl/Props/C14.lean` proves `WF` from a certificate produced by a data-flow analysis.  Here the hard fields of `WF`
are derived from the *syntactic* side conditions of the optimiser (`blockLocal`, `defsDistinct`) and the easy fields
from three new Boolean checkers (`labelsDistinct`, `targetsOK`, `callsOK`).

Key fact for `definedOnAllPaths`: a position whose instruction is not a label marker can only be entered by
fall-through, so every path from the entry that ends in `q` ends with the consecutive positions `d, d+1, …, q` for
any `d` such that no position in `(d, q]` is a label marker; `blockLocal` provides such a `d` defining the reference.
-/
namespace Nsl
namespace Opt
open WF

/-! (the checkers `labelsDistinct`, `targetsOK`, `callOK`, `callsOK`, `wfChecks` are defined in `Nsl/Model/Opt.lean`) -/

/-! ## `distinct`, `firstDup`, `Nodup` -/

theorem distinct_firstDup : ∀ (l : List Nat), distinct l = true → firstDup l = none
  | [], _ => rfl
  | x :: xs, h => by
    simp only [distinct, Bool.and_eq_true, Bool.not_eq_true'] at h
    simp only [firstDup, h.1, Bool.false_eq_true, if_false]
    exact distinct_firstDup xs h.2

theorem nodup_distinct : ∀ (l : List Nat), l.Nodup → distinct l = true
  | [], _ => rfl
  | x :: xs, h => by
    rw [List.nodup_cons] at h
    simp only [distinct, Bool.and_eq_true, Bool.not_eq_true', List.contains_eq_mem, decide_eq_false_iff_not]
    exact ⟨h.1, nodup_distinct xs h.2⟩

theorem nodup_defsDistinct {code : List Instr} (h : (defs code).Nodup) : defsDistinct code = true :=
  nodup_distinct _ h

/-! ## Soundness of the easy checkers -/

theorem defsDistinct_uniqueDefs {code : List Instr} (hd : defsDistinct code = true) :
    ∀ (i j : Nat) (a b : Instr) (r : Nat),
      code[i]? = some a → code[j]? = some b → defOf a = some r → defOf b = some r → i = j :=
  firstDup_filterMap_idx defOf code (distinct_firstDup _ hd)

theorem labelsDistinct_uniqueLabels {code : List Instr} (hl : labelsDistinct code = true) :
    ∀ (i j l : Nat), code[i]? = some (.label l) → code[j]? = some (.label l) → i = j := by
  intro i j l hi hj
  exact firstDup_filterMap_idx labelOf code (distinct_firstDup _ hl) i j _ _ l hi hj rfl rfl

theorem targetsOK_targetsExist {code : List Instr} (ht : targetsOK code = true) :
    ∀ (i : Nat) (ins : Instr) (l : Nat), code[i]? = some ins → l ∈ targetsOf ins →
      ∃ p, labelPos code l = some p ∧ code[p]? = some (.label l) := by
  intro i ins l hi hl
  simp only [targetsOK, List.all_eq_true] at ht
  have := ht ins (List.mem_of_getElem? hi) l hl
  cases hp : labelPos code l with
  | none => simp [hp] at this
  | some p => exact ⟨p, rfl, Opt.labelPos_some hp⟩

theorem callsOK_callsResolve {fn : Func} {P : Program} (hc : callsOK fn P = true) :
    ∀ (i dst : Nat) (ty : ITy) (f : String) (args : List Opd),
      fn.code[i]? = some (.call dst ty f args) →
      ∃ callee, P.find f = some callee ∧ callee.params.length = args.length := by
  intro i dst ty f args hi
  simp only [callsOK, List.all_eq_true] at hc
  have := hc _ (List.mem_of_getElem? hi)
  simp only [callOK] at this
  cases hf : P.find f with
  | none => simp [hf] at this
  | some callee =>
    simp only [hf, beq_iff_eq] at this
    exact ⟨callee, rfl, this⟩

/-! ## Paths: index form, entering a non-label position -/

theorem isPath_edge {code : List Instr} : ∀ (p : List Nat) (i a b : Nat), IsPath code p →
    p[i]? = some a → p[i + 1]? = some b → b ∈ succs code a
  | [], _, _, _, _, h, _ => by simp at h
  | [_], i, a, b, _, _, h => by simp at h
  | x :: y :: rest, 0, a, b, hp, ha, hb => by
    simp only [List.getElem?_cons_zero, Option.some.injEq, List.getElem?_cons_succ] at ha hb
    subst ha hb
    exact hp.1
  | x :: y :: rest, i + 1, a, b, hp, ha, hb => by
    simp only [List.getElem?_cons_succ] at ha hb
    exact isPath_edge (y :: rest) i a b hp.2 ha (by simpa using hb)

theorem mem_tgtPos {code : List Instr} {l m : Nat} (h : m ∈ tgtPos code l) : code[m]? = some (.label l) := by
  unfold tgtPos at h
  cases hp : labelPos code l with
  | none => simp [hp] at h
  | some p =>
    simp only [hp, List.mem_singleton] at h
    subst h
    exact Opt.labelPos_some hp

/-- a successor is a label marker (branch target) or the next position (fall-through) -/
theorem succs_label_or_next {code : List Instr} {a m : Nat} (h : m ∈ succs code a) :
    (∃ l, code[m]? = some (.label l)) ∨ m = a + 1 := by
  unfold succs at h
  cases hc : code[a]? with
  | none => simp [hc] at h
  | some ins =>
    cases ins with
    | br l => simp only [hc] at h; exact Or.inl ⟨l, mem_tgtPos h⟩
    | brc p t f =>
      simp only [hc] at h
      rcases List.mem_append.1 h with h | h
      · exact Or.inl ⟨t, mem_tgtPos h⟩
      · exact Or.inl ⟨f, mem_tgtPos h⟩
    | ret v => simp [hc] at h
    | _ =>
      right
      simp only [hc] at h
      split at h
      · simpa using h
      · simp at h

/-- On a path from the entry: if no position in `(d, q]` is a label marker and the path ends in `q` (at index `n`),
then its last `q - d + 1` positions are `d, d+1, …, q`. -/
theorem path_suffix {code : List Instr} {p : List Nat} {n q d : Nat} (hhead : p[0]? = some 0)
    (hpath : IsPath code p) (hn : p[n]? = some q)
    (hnl : ∀ m, d < m → m ≤ q → ∀ l, code[m]? ≠ some (.label l)) :
    ∀ k, k ≤ q - d → k ≤ n ∧ p[n - k]? = some (q - k)
  | 0, _ => ⟨Nat.zero_le _, by simpa using hn⟩
  | k + 1, hk => by
    obtain ⟨hkn, hget⟩ := path_suffix hhead hpath hn hnl k (by omega)
    have hpos : d < q - k := by omega
    cases hi : n - k with
    | zero =>
      rw [hi, hhead] at hget
      simp only [Option.some.injEq] at hget
      omega
    | succ i =>
      rw [hi] at hget
      have hlt : i < p.length := by
        have := (List.getElem?_eq_some_iff.1 hget).1
        omega
      have hpi : p[i]? = some p[i] := List.getElem?_eq_getElem hlt
      have hedge := isPath_edge p i _ _ hpath hpi hget
      rcases succs_label_or_next hedge with ⟨l, hl⟩ | hnext
      · exact absurd hl (hnl _ hpos (by omega) l)
      · refine ⟨by omega, ?_⟩
        have h1 : n - (k + 1) = i := by omega
        have h2 : q - (k + 1) = p[i] := by omega
        rw [h1, h2]
        exact hpi

/-! ## What `seenOf` contains: definitions since the last label marker -/

theorem seenOf_take_def (code : List Instr) : ∀ (q r : Nat), r ∈ seenOf [] (code.take q) →
    ∃ d, d < q ∧ defAt code d = some r ∧ ∀ m, d < m → m < q → ∀ l, code[m]? ≠ some (.label l)
  | 0, r, h => by simp [seenOf] at h
  | q + 1, r, h => by
    cases hc : code[q]? with
    | none =>
      have hlen : code.length ≤ q := by simpa using hc
      rw [List.take_of_length_le (by omega)] at h
      rw [← List.take_of_length_le hlen] at h
      obtain ⟨d, hd, hdef, hnl⟩ := seenOf_take_def code q r h
      refine ⟨d, by omega, hdef, ?_⟩
      intro m hm1 hm2 l
      by_cases hmq : m = q
      · subst hmq; rw [hc]; simp
      · exact hnl m hm1 (by omega) l
    | some a =>
      rw [seen_succ hc] at h
      by_cases hlab : ∃ l, a = .label l
      · obtain ⟨l, rfl⟩ := hlab
        simp [seenStep] at h
      · rcases seenStep_sub h with h1 | h1
        · obtain ⟨d, hd, hdef, hnl⟩ := seenOf_take_def code q r h1
          refine ⟨d, by omega, hdef, ?_⟩
          intro m hm1 hm2 l
          by_cases hmq : m = q
          · subst hmq; rw [hc]
            intro e
            exact hlab ⟨l, Option.some.inj e⟩
          · exact hnl m hm1 (by omega) l
        · refine ⟨q, by omega, by simp [defAt, hc, h1], ?_⟩
          intro m hm1 hm2
          omega

/-! ## The hard field: definite definition on all paths -/

theorem blockLocal_paths {code : List Instr} (hb : blockLocal [] code = true) :
    ∀ (p : List Nat) (q : Nat) (ins : Instr) (r : Nat),
      p.head? = some 0 → IsPath code p → p.getLast? = some q →
      code[q]? = some ins → r ∈ usesOf ins →
      ∃ k d, k + 1 < p.length ∧ p[k]? = some d ∧ defAt code d = some r := by
  intro p q ins r hhead hpath hlast hq hr
  have hnlq : ∀ l, ins ≠ .label l := by
    intro l e; subst e; simp [usesOf] at hr
  obtain ⟨d, hdq, hdef, hnl⟩ := seenOf_take_def code q r ((blockLocal_at hb hq hnlq).1 r hr)
  have hhead' : p[0]? = some 0 := by rw [← List.head?_eq_getElem?]; exact hhead
  have hn : p[p.length - 1]? = some q := by rw [← List.getLast?_eq_getElem?]; exact hlast
  have hnl' : ∀ m, d < m → m ≤ q → ∀ l, code[m]? ≠ some (.label l) := by
    intro m hm1 hm2 l
    by_cases hmq : m = q
    · subst hmq; rw [hq]; intro e; exact hnlq l (Option.some.inj e)
    · exact hnl m hm1 (by omega) l
  obtain ⟨hk, hget⟩ := path_suffix hhead' hpath hn hnl' (q - d) (Nat.le_refl _)
  have hplen : 0 < p.length := by
    cases p with
    | nil => simp at hhead
    | cons _ _ => simp
  refine ⟨p.length - 1 - (q - d), d, by omega, ?_, hdef⟩
  rw [hget]
  congr 1
  omega

/-! ## Assembly -/

theorem wf_of_blockLocal (fn : Func) (P : Program) (hb : blockLocal [] fn.code = true)
    (hd : defsDistinct fn.code = true) (hl : labelsDistinct fn.code = true) (ht : targetsOK fn.code = true)
    (hc : callsOK fn P = true) : WF fn P :=
  ⟨defsDistinct_uniqueDefs hd, labelsDistinct_uniqueLabels hl, targetsOK_targetsExist ht, callsOK_callsResolve hc,
    blockLocal_paths hb⟩

theorem wf_of_wfChecks {fn : Func} {P : Program} (h : wfChecks fn P = true) : WF fn P := by
  simp only [wfChecks, Bool.and_eq_true] at h
  obtain ⟨⟨⟨⟨hb, hd⟩, hl⟩, ht⟩, hc⟩ := h
  exact wf_of_blockLocal fn P hb hd hl ht hc

end Opt
end Nsl
