import Nsl.Model.IRType
/-!
# IR typing: facts about types and typed values (no frames, no instructions)
-/
namespace Nsl
namespace IRType
open VM

/-! ## type equality -/

mutual
theorem tyBeq_eq : ∀ a b, tyBeq a b = true → a = b
  | .sc a, b, h => by cases b <;> simp_all [tyBeq]
  | .vec a n, b, h => by cases b <;> simp_all [tyBeq]
  | .mat a r c, b, h => by cases b <;> simp_all [tyBeq]
  | .arr e ds, b, h => by
    cases b <;> simp [tyBeq] at h
    rename_i e' ds'
    simp [tyBeq_eq e e' h.1, h.2]
  | .struct n fs, b, h => by
    cases b <;> simp [tyBeq] at h
    rename_i n' fs'
    simp [h.1, fieldsBeq_eq fs fs' h.2]
  | .void, b, h => by cases b <;> simp_all [tyBeq]
theorem fieldsBeq_eq : ∀ a b, fieldsBeq a b = true → a = b
  | [], b, h => by cases b <;> simp_all [fieldsBeq]
  | (n, t) :: r, b, h => by
    cases b with
    | nil => simp [fieldsBeq] at h
    | cons p s =>
      obtain ⟨m, u⟩ := p
      simp [fieldsBeq] at h
      simp [h.1.1, tyBeq_eq t u h.1.2, fieldsBeq_eq r s h.2]
end

/-! ## scalars -/

theorem scOK_cases {s : Sc} {v : Val} (h : scOK s v = true) : (∃ i, v = .int i) ∨ (∃ f, v = .flt f) := by
  cases v <;> simp [scOK] at h
  · exact Or.inl ⟨_, rfl⟩
  · exact Or.inr ⟨_, rfl⟩

theorem scOK_int (s : Sc) (i : Int) : scOK s (.int i) = true := by
  cases s <;> rfl

theorem scOK_float (v : Val) (h : (∃ i, v = .int i) ∨ (∃ f, v = .flt f)) : scOK .float v = true := by
  rcases h with ⟨i, rfl⟩ | ⟨f, rfl⟩ <;> rfl

theorem scOK_isInt {s : Sc} {v : Val} (hs : scInt s = true) (h : scOK s v = true) : ∃ i, v = .int i := by
  cases s <;> simp [scInt] at hs <;> cases v <;> simp [scOK] at h <;> exact ⟨_, rfl⟩

theorem scOK_le {a b : Sc} {v : Val} (hle : scLe a b = true) (h : scOK a v = true) : scOK b v = true := by
  cases a <;> cases b <;> simp [scLe] at hle <;> cases v <;> simp_all [scOK]

theorem scOK_ofBool (s : Sc) (b : Bool) : scOK s (Val.ofBool b) = true := scOK_int s _

/-! ## nested lists -/

theorem dimsOK_nil (leaf : Val → Bool) (v : Val) : dimsOK leaf [] v = leaf v := by
  cases v <;> rfl

theorem dimsOK_cons {leaf : Val → Bool} {d : Nat} {ds : List Nat} {v : Val} :
    dimsOK leaf (d :: ds) v = true ↔ ∃ vs, v = .list vs ∧ vs.length = d ∧ ∀ x ∈ vs, dimsOK leaf ds x = true := by
  cases v <;> simp [dimsOK]

theorem dimsOK_list {leaf : Val → Bool} {d : Nat} {ds : List Nat} {vs : List Val} :
    dimsOK leaf (d :: ds) (.list vs) = true ↔ vs.length = d ∧ ∀ x ∈ vs, dimsOK leaf ds x = true := by
  simp [dimsOK]

theorem dimsOK_mono {leaf leaf' : Val → Bool} (h : ∀ v, leaf v = true → leaf' v = true) :
    ∀ (ds : List Nat) (v : Val), dimsOK leaf ds v = true → dimsOK leaf' ds v = true
  | [], v, hv => by rw [dimsOK_nil] at hv ⊢; exact h v hv
  | d :: ds, v, hv => by
    obtain ⟨vs, rfl, hl, hall⟩ := dimsOK_cons.1 hv
    exact dimsOK_list.2 ⟨hl, fun x hx => dimsOK_mono h ds x (hall x hx)⟩

/-! ## `valOK` unfolded -/

@[simp] theorem valOK_sc (s : Sc) (v : Val) : valOK (.sc s) v = scOK s v := by simp [valOK]
@[simp] theorem valOK_vec (s : Sc) (n : Nat) (v : Val) : valOK (.vec s n) v = dimsOK (scOK s) [n] v := by simp [valOK]
@[simp] theorem valOK_mat (s : Sc) (r c : Nat) (v : Val) : valOK (.mat s r c) v = dimsOK (scOK s) [r, c] v := by
  simp [valOK]
theorem valOK_arr (e : ITy) (ds : List Nat) (v : Val) :
    valOK (.arr e ds) v = (!ds.isEmpty && dimsOK (valOK e) ds v) := by simp [valOK]
theorem valOK_struct (n : String) (fs : List (String × ITy)) (v : Val) :
    valOK (.struct n fs) v = true ↔ ∃ vs, v = .struct vs ∧ fieldsOK fs vs = true := by
  cases v <;> simp [valOK]
theorem valOK_void (v : Val) : valOK .void v = true ↔ v = .none := by
  cases v <;> simp [valOK]

theorem vec_iff {s : Sc} {n : Nat} {v : Val} :
    valOK (.vec s n) v = true ↔ ∃ vs, v = .list vs ∧ vs.length = n ∧ ∀ x ∈ vs, scOK s x = true := by
  rw [valOK_vec, dimsOK_cons]
  simp only [dimsOK_nil]

theorem mat_iff {s : Sc} {r c : Nat} {v : Val} :
    valOK (.mat s r c) v = true ↔
      ∃ rows, v = .list rows ∧ rows.length = r ∧ ∀ x ∈ rows, valOK (.vec s c) x = true := by
  rw [valOK_mat, dimsOK_cons]
  simp only [valOK_vec]

theorem valOK_not_ptr (t : ITy) (r : Root) (p : List Key) : valOK t (.ptr r p) = false := by
  cases t with
  | sc s => cases s <;> rfl
  | vec s n => simp [dimsOK]
  | mat s r c => simp [dimsOK]
  | arr e ds =>
    rw [valOK_arr]
    cases ds <;> simp [dimsOK]
  | struct n fs => simp [valOK]
  | void => simp [valOK]

theorem valOK_agg {t : ITy} {v : Val} (ha : t.isAggregate = true) (h : valOK t v = true) : isAggVal v = true := by
  cases t with
  | arr e ds =>
    rw [valOK_arr] at h
    cases ds with
    | nil => simp at h
    | cons d ds =>
      simp only [List.isEmpty_cons, Bool.not_false, Bool.true_and] at h
      obtain ⟨vs, rfl, _⟩ := dimsOK_cons.1 h
      rfl
  | struct n fs =>
    obtain ⟨vs, rfl, _⟩ := (valOK_struct n fs v).1 h
    rfl
  | _ => simp [ITy.isAggregate] at ha

theorem compat_valOK {a b : ITy} {v : Val} (hc : compat a b = true) (h : valOK a v = true) : valOK b v = true := by
  unfold compat at hc
  split at hc
  · simp only [valOK_sc] at h ⊢
    exact scOK_le hc h
  · simp only [Bool.and_eq_true, beq_iff_eq] at hc
    obtain ⟨hle, rfl⟩ := hc
    simp only [valOK_vec] at h ⊢
    exact dimsOK_mono (fun v hv => scOK_le hle hv) _ _ h
  · simp only [Bool.and_eq_true, beq_iff_eq] at hc
    obtain ⟨⟨hle, rfl⟩, rfl⟩ := hc
    simp only [valOK_mat] at h ⊢
    exact dimsOK_mono (fun v hv => scOK_le hle hv) _ _ h
  · have := tyBeq_eq _ _ hc
    subst this
    exact h

theorem compat_refl_of_beq {a b : ITy} (h : tyBeq a b = true) : a = b := tyBeq_eq a b h

theorem valsOK_compat : ∀ {as bs : List ITy} {vs : List Val}, compatAll as bs = true → valsOK as vs = true →
    valsOK bs vs = true
  | [], [], vs, _, h => h
  | [], _ :: _, _, hc, _ => by simp [compatAll] at hc
  | _ :: _, [], _, hc, _ => by simp [compatAll] at hc
  | a :: as, b :: bs, [], _, h => by simp [valsOK] at h
  | a :: as, b :: bs, v :: vs, hc, h => by
    simp only [compatAll, valsOK, Bool.and_eq_true] at hc h ⊢
    exact ⟨compat_valOK hc.1 h.1, valsOK_compat hc.2 h.2⟩

/-! ## components: reading and writing one key -/

theorem elemTy_ok {e : ITy} {ds : List Nat} {x : Val} :
    valOK (elemTy e ds) x = dimsOK (valOK e) ds x := by
  cases ds with
  | nil => rw [dimsOK_nil]; rfl
  | cons d ds => simp [elemTy, valOK_arr]

theorem fieldsOK_get : ∀ {fs : List (String × ITy)} {vs : List (String × Val)} {n : String} {t : ITy},
    fieldsOK fs vs = true → Map.get fs n = some t → ∃ x, Map.get vs n = some x ∧ valOK t x = true
  | [], _, _, _, _, hg => by simp [Map.get] at hg
  | (m, u) :: r, [], _, _, h, _ => by simp [fieldsOK] at h
  | (m, u) :: r, (m', v) :: s, n, t, h, hg => by
    simp only [fieldsOK, Bool.and_eq_true, beq_iff_eq] at h
    obtain ⟨⟨rfl, hv⟩, hr⟩ := h
    simp only [Map.get] at hg ⊢
    by_cases hm : m = n
    · simp only [hm, if_true, Option.some.injEq] at hg ⊢
      subst hg
      exact ⟨v, rfl, hv⟩
    · simp only [hm, if_false] at hg ⊢
      exact fieldsOK_get hr hg

theorem fieldsOK_set : ∀ {fs : List (String × ITy)} {vs : List (String × Val)} {n : String} {t : ITy} {x : Val},
    fieldsOK fs vs = true → Map.get fs n = some t → valOK t x = true → fieldsOK fs (Map.set vs n x) = true
  | [], _, _, _, _, _, hg, _ => by simp [Map.get] at hg
  | (m, u) :: r, [], _, _, _, h, _, _ => by simp [fieldsOK] at h
  | (m, u) :: r, (m', v) :: s, n, t, x, h, hg, hx => by
    simp only [fieldsOK, Bool.and_eq_true, beq_iff_eq] at h
    obtain ⟨⟨rfl, hv⟩, hr⟩ := h
    simp only [Map.get] at hg
    by_cases hm : m = n
    · simp only [hm, if_true, Option.some.injEq] at hg
      subst hg
      simp [Map.set, hm, fieldsOK, hx, hr]
    · simp only [hm, if_false] at hg
      simp [Map.set, hm, fieldsOK, hv, fieldsOK_set hr hg hx]

theorem key_get {T T' : ITy} {v : Val} {k : Key} (hv : valOK T v = true) (hk : tyAtKey T k = some T') :
    ∃ x, getKey v k = .ok x ∧ valOK T' x = true := by
  cases T with
  | arr e ds =>
    cases ds with
    | nil => cases k <;> simp [tyAtKey] at hk
    | cons d ds =>
      cases k with
      | fld n => simp [tyAtKey] at hk
      | idx i =>
        simp only [tyAtKey] at hk
        split at hk
        · rename_i hlt
          simp only [Option.some.injEq] at hk
          subst hk
          rw [valOK_arr] at hv
          simp only [List.isEmpty_cons, Bool.not_false, Bool.true_and] at hv
          obtain ⟨vs, rfl, hl, hall⟩ := dimsOK_cons.1 hv
          have hi : i < vs.length := by omega
          refine ⟨vs[i], ?_, ?_⟩
          · simp [getKey, List.getElem?_eq_getElem hi]
          · rw [elemTy_ok]; exact hall _ (List.getElem_mem hi)
        · cases hk
  | struct nm fs =>
    cases k with
    | idx i => simp [tyAtKey] at hk
    | fld n =>
      simp only [tyAtKey] at hk
      obtain ⟨vs, rfl, hf⟩ := (valOK_struct nm fs v).1 hv
      obtain ⟨x, hx, hxo⟩ := fieldsOK_get hf hk
      exact ⟨x, by simp [getKey, hx], hxo⟩
  | _ => cases k <;> simp [tyAtKey] at hk

theorem key_set {T T' : ITy} {v x : Val} {k : Key} (hv : valOK T v = true) (hk : tyAtKey T k = some T')
    (hx : valOK T' x = true) : ∃ v', setKey v k x = .ok v' ∧ valOK T v' = true := by
  cases T with
  | arr e ds =>
    cases ds with
    | nil => cases k <;> simp [tyAtKey] at hk
    | cons d ds =>
      cases k with
      | fld n => simp [tyAtKey] at hk
      | idx i =>
        simp only [tyAtKey] at hk
        split at hk
        · rename_i hlt
          simp only [Option.some.injEq] at hk
          subst hk
          rw [valOK_arr] at hv
          simp only [List.isEmpty_cons, Bool.not_false, Bool.true_and] at hv
          obtain ⟨vs, rfl, hl, hall⟩ := dimsOK_cons.1 hv
          have hi : i < vs.length := by omega
          refine ⟨.list (vs.set i x), by simp [setKey, hi], ?_⟩
          rw [valOK_arr]
          simp only [List.isEmpty_cons, Bool.not_false, Bool.true_and]
          refine dimsOK_list.2 ⟨by simp [hl], ?_⟩
          intro y hy
          rcases List.mem_or_eq_of_mem_set hy with hy | rfl
          · exact hall y hy
          · rw [← elemTy_ok]; exact hx
        · cases hk
  | struct nm fs =>
    cases k with
    | idx i => simp [tyAtKey] at hk
    | fld n =>
      simp only [tyAtKey] at hk
      obtain ⟨vs, rfl, hf⟩ := (valOK_struct nm fs v).1 hv
      exact ⟨.struct (Map.set vs n x), rfl, (valOK_struct nm fs _).2 ⟨_, rfl, fieldsOK_set hf hk hx⟩⟩
  | _ => cases k <;> simp [tyAtKey] at hk

/-! ## paths -/

theorem path_get : ∀ {p : List Key} {T T' : ITy} {v : Val}, valOK T v = true → tyAt T p = some T' →
    ∃ x, getPath v p = .ok x ∧ valOK T' x = true
  | [], T, T', v, hv, hp => by
    simp only [tyAt, Option.some.injEq] at hp
    subst hp
    exact ⟨v, rfl, hv⟩
  | k :: ks, T, T', v, hv, hp => by
    simp only [tyAt] at hp
    cases hk : tyAtKey T k with
    | none => simp [hk] at hp
    | some T1 =>
      simp only [hk] at hp
      obtain ⟨x, hx, hxo⟩ := key_get hv hk
      obtain ⟨y, hy, hyo⟩ := path_get hxo hp
      exact ⟨y, by simp [getPath, hx, hy, bind, Except.bind], hyo⟩

theorem path_set : ∀ {p : List Key} {T T' : ITy} {v x : Val}, valOK T v = true → tyAt T p = some T' →
    valOK T' x = true → ∃ v', setPath v p x = .ok v' ∧ valOK T v' = true
  | [], T, T', v, x, _, hp, hx => by
    simp only [tyAt, Option.some.injEq] at hp
    subst hp
    exact ⟨x, rfl, hx⟩
  | k :: ks, T, T', v, x, hv, hp, hx => by
    simp only [tyAt] at hp
    cases hk : tyAtKey T k with
    | none => simp [hk] at hp
    | some T1 =>
      simp only [hk] at hp
      obtain ⟨c, hc, hco⟩ := key_get hv hk
      obtain ⟨c', hc', hco'⟩ := path_set hco hp hx
      obtain ⟨v', hv', hvo'⟩ := key_set hv hk hco'
      exact ⟨v', by simp [setPath, hc, hc', hv', bind, Except.bind], hvo'⟩

theorem tyAt_snoc : ∀ {p : List Key} {T T1 T2 : ITy} {k : Key}, tyAt T p = some T1 → tyAtKey T1 k = some T2 →
    tyAt T (p ++ [k]) = some T2
  | [], T, T1, T2, k, hp, hk => by
    simp only [tyAt, Option.some.injEq] at hp
    subst hp
    simp [tyAt, hk]
  | j :: ks, T, T1, T2, k, hp, hk => by
    simp only [tyAt] at hp
    cases hj : tyAtKey T j with
    | none => simp [hj] at hp
    | some T' =>
      simp only [hj] at hp
      simp only [List.cons_append, tyAt, hj]
      exact tyAt_snoc hp hk

/-! ## default instances -/

theorem createDims_ok {leaf : Val → Bool} {x : Val} (hx : leaf x = true) :
    ∀ ds, dimsOK leaf ds (createDims x ds) = true
  | [] => by rw [dimsOK_nil]; exact hx
  | d :: ds => by
    simp only [createDims]
    refine dimsOK_list.2 ⟨by simp, ?_⟩
    intro y hy
    rw [(List.mem_replicate.1 hy).2]
    exact createDims_ok hx ds

mutual
theorem createInstance_ok : ∀ t, wfTy t = true → valOK t (createInstance t) = true
  | .sc s, _ => by simp [createInstance, scOK_int]
  | .vec s n, _ => by
    simp only [createInstance, valOK_vec]
    refine dimsOK_list.2 ⟨by simp, ?_⟩
    intro y hy
    rw [(List.mem_replicate.1 hy).2, dimsOK_nil]
    exact scOK_int s 0
  | .mat s r c, _ => by
    simp only [createInstance, valOK_mat]
    refine dimsOK_list.2 ⟨by simp, ?_⟩
    intro y hy
    rw [(List.mem_replicate.1 hy).2]
    refine dimsOK_list.2 ⟨by simp, ?_⟩
    intro z hz
    rw [(List.mem_replicate.1 hz).2, dimsOK_nil]
    exact scOK_int s 0
  | .arr e ds, h => by
    simp only [wfTy, Bool.and_eq_true] at h
    rw [valOK_arr]
    simp only [createInstance, h.1, Bool.true_and]
    exact createDims_ok (createInstance_ok e h.2) ds
  | .struct n fs, h => by
    simp only [wfTy] at h
    exact (valOK_struct n fs _).2 ⟨_, by simp [createInstance], createFields_ok fs h⟩
  | .void, _ => by simp [createInstance, valOK]
theorem createFields_ok : ∀ fs, wfFields fs = true → fieldsOK fs (createFields fs) = true
  | [], _ => by simp [createFields, fieldsOK]
  | (n, t) :: r, h => by
    simp only [wfFields, Bool.and_eq_true] at h
    simp [createFields, fieldsOK, createInstance_ok t h.1, createFields_ok r h.2]
end

/-! ## association lists -/

theorem get_mapVal {κ α β : Type} [DecidableEq κ] (f : α → β) : ∀ (m : Map κ α) (k : κ),
    Map.get (m.map fun p => (p.1, f p.2)) k = (Map.get m k).map f
  | [], _ => rfl
  | (k', a) :: rest, k => by
    simp only [List.map_cons, Map.get]
    by_cases h : k' = k
    · simp [h]
    · simp [h, get_mapVal f rest k]

theorem get_mem {κ α : Type} [DecidableEq κ] : ∀ {m : Map κ α} {k : κ} {a : α}, Map.get m k = some a → (k, a) ∈ m
  | [], _, _, h => by simp [Map.get] at h
  | (k', a') :: rest, k, a, h => by
    simp only [Map.get] at h
    by_cases hk : k' = k
    · simp only [hk, if_true, Option.some.injEq] at h
      subst h; subst hk
      exact List.mem_cons_self
    · simp only [hk, if_false] at h
      exact List.mem_cons_of_mem _ (get_mem h)

theorem locsSub_get {d cur : Locs} (h : locsSub d cur = true) {n : String} {T : ITy} (hg : Map.get d n = some T) :
    Map.get cur n = some T := by
  have := List.all_eq_true.1 h _ (get_mem hg)
  simp only at this
  split at this
  · rename_i T' hT
    rw [hT, tyBeq_eq _ _ this]
  · cases this

end IRType
end Nsl
