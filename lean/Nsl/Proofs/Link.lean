import Nsl.Model.Link
/-!
# Linker: what a successful link contains

`link_spec`: the function/global tables are exactly the bindings of the added modules and of the modules *reachable*
through imports (any chain, diamonds); keys are unique; every reachable module name is loaded exactly once.
-/
namespace Nsl
namespace Link

def keys {α : Type} (l : List (String × α)) : List String := l.map (·.1)

theorem hasKey_iff {α : Type} (l : List (String × α)) (k : String) : hasKey l k = true ↔ k ∈ keys l := by
  simp [hasKey, keys, List.any_eq_true]

theorem addAll_ok {α : Type} (mk : String → LErr) : ∀ (new tbl r : List (String × α)),
    addAll mk tbl new = .ok r →
    r = tbl ++ new ∧ (∀ k ∈ keys new, k ∉ keys tbl) ∧ (keys new).Nodup := by
  intro new
  induction new with
  | nil => intro tbl r h; simp [addAll] at h; subst h; simp [keys]
  | cons p rest ih =>
    intro tbl r h
    obtain ⟨k, v⟩ := p
    simp only [addAll] at h
    by_cases hk : hasKey tbl k = true
    · rw [if_pos hk] at h; cases h
    · rw [if_neg hk] at h
      obtain ⟨hr, hdis, hnd⟩ := ih _ _ h
      have hk' : k ∉ keys tbl := fun hm => hk ((hasKey_iff tbl k).2 hm)
      refine ⟨by simp [hr], ?_, ?_⟩
      · intro k' hk''
        simp only [keys, List.map_cons, List.mem_cons] at hk''
        rcases hk'' with rfl | hk''
        · exact hk'
        · intro hm
          exact hdis k' (by simpa [keys] using hk'') (by simp [keys] at hm ⊢; exact Or.inl hm)
      · simp only [keys, List.map_cons, List.nodup_cons]
        refine ⟨?_, hnd⟩
        intro hm
        exact hdis k (by simpa [keys] using hm) (by simp [keys])

/-- A key that is already bound makes the merge fail: nothing is silently replaced. -/
theorem addAll_dup {α : Type} (mk : String → LErr) : ∀ (new tbl : List (String × α)) (k : String),
    k ∈ keys new → k ∈ keys tbl → ∃ e, addAll mk tbl new = .error e := by
  intro new
  induction new with
  | nil => intro tbl k h; simp [keys] at h
  | cons p rest ih =>
    intro tbl k hk ht
    obtain ⟨k0, v⟩ := p
    simp only [addAll]
    by_cases h0 : hasKey tbl k0 = true
    · rw [if_pos h0]; exact ⟨_, rfl⟩
    · rw [if_neg h0]
      simp only [keys, List.map_cons, List.mem_cons] at hk
      rcases hk with rfl | hk
      · exact absurd ((hasKey_iff tbl k).2 ht) h0
      · exact ih _ k (by simpa [keys] using hk) (by simp [keys] at ht ⊢; exact Or.inl ht)

theorem keys_append {α : Type} (a b : List (String × α)) : keys (a ++ b) = keys a ++ keys b := by
  simp [keys]

theorem nodup_keys_append {α : Type} {a b : List (String × α)} (ha : (keys a).Nodup) (hb : (keys b).Nodup)
    (hd : ∀ k ∈ keys b, k ∉ keys a) : (keys (a ++ b)).Nodup := by
  rw [keys_append]
  refine List.nodup_append.2 ⟨ha, hb, ?_⟩
  intro x hx y hy hxy
  subst hxy
  exact hd x hy hx

theorem addModule_ok {s s' : LState} {m : LModule} (h : addModule s m = .ok s') :
    s'.funcs = s.funcs ++ m.funcs ∧ s'.globals = s.globals ++ m.globals ∧ s'.loaded = s.loaded ∧
    s'.pending = s.pending ++ m.imports ∧ s'.mods = s.mods ++ [m] ∧
    (∀ k ∈ keys m.funcs, k ∉ keys s.funcs) ∧ (keys m.funcs).Nodup ∧
    (∀ k ∈ keys m.globals, k ∉ keys s.globals) ∧ (keys m.globals).Nodup := by
  simp only [addModule, bind, Except.bind] at h
  cases hf : addAll LErr.dupFunction s.funcs m.funcs with
  | error e => simp [hf] at h
  | ok fs =>
    simp only [hf] at h
    cases hg : addAll LErr.dupGlobal s.globals m.globals with
    | error e => simp [hg] at h
    | ok gs =>
      simp only [hg, Except.ok.injEq] at h
      subst h
      obtain ⟨r1, d1, n1⟩ := addAll_ok _ _ _ _ hf
      obtain ⟨r2, d2, n2⟩ := addAll_ok _ _ _ _ hg
      exact ⟨r1, r2, rfl, rfl, rfl, d1, n1, d2, n2⟩

/-! ## Reachability through imports -/

def roots (added : List LModule) : List String := added.flatMap (·.imports)

inductive Reach (loader : Loader) (rts : List String) : String → Prop
  | root {n : String} : n ∈ rts → Reach loader rts n
  | step {n i : String} {m : LModule} : Reach loader rts n → loader n = some m → i ∈ m.imports → Reach loader rts i

/-- Invariant of the linker state while imports are worked off. -/
structure Inv (loader : Loader) (added : List LModule) (s : LState) : Prop where
  funcsEq : s.funcs = s.mods.flatMap (·.funcs)
  globalsEq : s.globals = s.mods.flatMap (·.globals)
  fkeys : (keys s.funcs).Nodup
  gkeys : (keys s.globals).Nodup
  loadedNodup : s.loaded.Nodup
  modsEq : ∀ m, m ∈ s.mods ↔ m ∈ added ∨ ∃ n ∈ s.loaded, loader n = some m
  loadedReach : ∀ n ∈ s.loaded, Reach loader (roots added) n
  pendingReach : ∀ n ∈ s.pending, Reach loader (roots added) n
  closed : ∀ m ∈ s.mods, ∀ i ∈ m.imports, i ∈ s.loaded ∨ i ∈ s.pending
  loadedSome : ∀ n ∈ s.loaded, ∃ m, loader n = some m

theorem Inv.addModule_added {loader : Loader} {pre : List LModule} {m : LModule} {rest : List LModule}
    {s s' : LState} (hi : Inv loader pre s) (hl : s.loaded = []) (h : addModule s m = .ok s')
    (hpend : ∀ n ∈ s.pending, n ∈ roots pre) :
    Inv loader (pre ++ [m]) s' ∧ s'.loaded = [] ∧ ∀ n ∈ s'.pending, n ∈ roots (pre ++ [m]) := by
  obtain ⟨e1, e2, e3, e4, e5, d1, n1, d2, n2⟩ := addModule_ok h
  have hroots : ∀ n, n ∈ roots (pre ++ [m]) ↔ n ∈ roots pre ∨ n ∈ m.imports := by
    intro n; simp [roots]
  have hp' : ∀ n ∈ s'.pending, n ∈ roots (pre ++ [m]) := by
    intro n hn
    rw [e4, List.mem_append] at hn
    rcases hn with hn | hn
    · exact (hroots n).2 (Or.inl (hpend n hn))
    · exact (hroots n).2 (Or.inr hn)
  refine ⟨⟨?_, ?_, ?_, ?_, ?_, ?_, ?_, ?_, ?_, ?_⟩, by rw [e3, hl], hp'⟩
  · rw [e1, e5, hi.funcsEq]; simp
  · rw [e2, e5, hi.globalsEq]; simp
  · rw [e1]; exact nodup_keys_append hi.fkeys n1 d1
  · rw [e2]; exact nodup_keys_append hi.gkeys n2 d2
  · rw [e3]; exact hi.loadedNodup
  · intro x
    rw [e5, e3, hl]
    simp only [List.mem_append, List.mem_singleton, List.not_mem_nil, false_and, exists_false, or_false]
    constructor
    · rintro (hx | rfl)
      · have := (hi.modsEq x).1 hx
        rw [hl] at this
        simp at this
        exact Or.inl this
      · exact Or.inr rfl
    · rintro (hx | rfl)
      · exact Or.inl ((hi.modsEq x).2 (Or.inl hx))
      · exact Or.inr rfl
  · intro n hn; rw [e3, hl] at hn; cases hn
  · intro n hn; exact Reach.root (hp' n hn)
  · intro x hx i hxi
    rw [e5, List.mem_append, List.mem_singleton] at hx
    rw [e4]
    rcases hx with hx | rfl
    · rcases hi.closed x hx i hxi with h1 | h1
      · rw [hl] at h1; cases h1
      · exact Or.inr (List.mem_append_left _ h1)
    · exact Or.inr (List.mem_append_right _ hxi)
  · intro n hn; rw [e3, hl] at hn; cases hn

theorem Inv.empty (loader : Loader) : Inv loader [] ({} : LState) := by
  refine ⟨rfl, rfl, by simp [keys], by simp [keys], by simp, ?_, ?_, ?_, ?_, ?_⟩ <;> simp

theorem addModules_inv (loader : Loader) : ∀ (ms pre : List LModule) (s s' : LState),
    Inv loader pre s → s.loaded = [] → (∀ n ∈ s.pending, n ∈ roots pre) → addModules s ms = .ok s' →
    Inv loader (pre ++ ms) s' := by
  intro ms
  induction ms with
  | nil =>
    intro pre s s' hi _ _ h
    simp only [addModules, Except.ok.injEq] at h
    subst h; simpa using hi
  | cons m rest ih =>
    intro pre s s' hi hl hp h
    simp only [addModules, bind, Except.bind] at h
    cases h1 : addModule s m with
    | error e => simp [h1] at h
    | ok s1 =>
      simp only [h1] at h
      obtain ⟨hi1, hl1, hp1⟩ := Inv.addModule_added (rest := rest) hi hl h1 hp
      have := ih (pre ++ [m]) s1 s' hi1 hl1 hp1 h
      simpa using this

theorem linkLoop_inv (loader : Loader) (added : List LModule) : ∀ (fuel : Nat) (s s' : LState),
    Inv loader added s → linkLoop loader fuel s = .ok s' → Inv loader added s' ∧ s'.pending = [] := by
  intro fuel
  induction fuel with
  | zero => intro s s' _ h; simp [linkLoop] at h
  | succ fuel ih =>
    intro s s' hi h
    simp only [linkLoop] at h
    cases hp : s.pending with
    | nil =>
      simp only [hp, Except.ok.injEq] at h
      subst h
      exact ⟨hi, hp⟩
    | cons name rest =>
      simp only [hp] at h
      by_cases hc : s.loaded.contains name = true
      · rw [if_pos hc] at h
        have hmem : name ∈ s.loaded := by simpa using hc
        refine ih _ _ ?_ h
        exact ⟨hi.funcsEq, hi.globalsEq, hi.fkeys, hi.gkeys, hi.loadedNodup, hi.modsEq, hi.loadedReach,
          fun n hn => hi.pendingReach n (by rw [hp]; exact List.mem_cons_of_mem _ hn),
          fun m hm i him => by
            rcases hi.closed m hm i him with h1 | h1
            · exact Or.inl h1
            · rw [hp] at h1
              rcases List.mem_cons.1 h1 with rfl | h1
              · exact Or.inl hmem
              · exact Or.inr h1,
          hi.loadedSome⟩
      · rw [if_neg hc] at h
        have hnm : name ∉ s.loaded := by simpa using hc
        cases hl : loader name with
        | none => simp [hl] at h
        | some m =>
          simp only [hl] at h
          cases ha : addModule { s with pending := rest, loaded := name :: s.loaded } m with
          | error e => simp [ha] at h
          | ok s1 =>
            simp only [ha] at h
            obtain ⟨e1, e2, e3, e4, e5, d1, n1, d2, n2⟩ := addModule_ok ha
            simp only at e1 e2 e3 e4 e5 d1 d2
            have hreach : Reach loader (roots added) name := hi.pendingReach name (by rw [hp]; exact List.mem_cons_self ..)
            refine ih _ _ ?_ h
            refine ⟨?_, ?_, ?_, ?_, ?_, ?_, ?_, ?_, ?_, ?_⟩
            · rw [e1, e5, hi.funcsEq]; simp
            · rw [e2, e5, hi.globalsEq]; simp
            · rw [e1]; exact nodup_keys_append hi.fkeys n1 d1
            · rw [e2]; exact nodup_keys_append hi.gkeys n2 d2
            · rw [e3]; exact List.nodup_cons.2 ⟨hnm, hi.loadedNodup⟩
            · intro x
              rw [e5, e3]
              simp only [List.mem_append, List.mem_singleton, List.mem_cons, List.not_mem_nil, or_false]
              constructor
              · rintro (hx | rfl)
                · rcases (hi.modsEq x).1 hx with h1 | ⟨n, hn, hln⟩
                  · exact Or.inl h1
                  · exact Or.inr ⟨n, Or.inr hn, hln⟩
                · exact Or.inr ⟨name, Or.inl rfl, hl⟩
              · rintro (hx | ⟨n, hn | hn, hln⟩)
                · exact Or.inl ((hi.modsEq x).2 (Or.inl hx))
                · subst hn; rw [hl] at hln; cases hln; exact Or.inr rfl
                · exact Or.inl ((hi.modsEq x).2 (Or.inr ⟨n, hn, hln⟩))
            · intro n hn
              rw [e3] at hn
              rcases List.mem_cons.1 hn with rfl | hn
              · exact hreach
              · exact hi.loadedReach n hn
            · intro n hn
              rw [e4] at hn
              rcases List.mem_append.1 hn with hn | hn
              · exact hi.pendingReach n (by rw [hp]; exact List.mem_cons_of_mem _ hn)
              · exact Reach.step hreach hl hn
            · intro x hx i hxi
              rw [e5, List.mem_append, List.mem_singleton] at hx
              rw [e3, e4]
              rcases hx with hx | rfl
              · rcases hi.closed x hx i hxi with h1 | h1
                · exact Or.inl (List.mem_cons_of_mem _ h1)
                · rw [hp] at h1
                  rcases List.mem_cons.1 h1 with rfl | h1
                  · exact Or.inl (List.mem_cons_self ..)
                  · exact Or.inr (List.mem_append_left _ h1)
              · exact Or.inr (List.mem_append_right _ hxi)
            · intro n hn
              rw [e3] at hn
              rcases List.mem_cons.1 hn with rfl | hn
              · exact ⟨m, hl⟩
              · exact hi.loadedSome n hn

/-- What a successful link contains. -/
theorem link_spec {loader : Loader} {fuel : Nat} {added : List LModule} {s : LState}
    (h : link loader fuel added = .ok s) :
    (∀ n, n ∈ s.loaded ↔ Reach loader (roots added) n) ∧ s.loaded.Nodup ∧
    (∀ m, m ∈ s.mods ↔ m ∈ added ∨ ∃ n, Reach loader (roots added) n ∧ loader n = some m) ∧
    s.funcs = s.mods.flatMap (·.funcs) ∧ s.globals = s.mods.flatMap (·.globals) ∧
    (keys s.funcs).Nodup ∧ (keys s.globals).Nodup := by
  simp only [link, bind, Except.bind] at h
  cases h1 : addModules {} added with
  | error e => simp [h1] at h
  | ok s1 =>
    simp only [h1] at h
    have hi1 := addModules_inv loader added [] {} s1 (Inv.empty loader) rfl (by intro n hn; cases hn) h1
    simp only [List.nil_append] at hi1
    obtain ⟨hi, hpend⟩ := linkLoop_inv loader added fuel s1 s hi1 h
    have hall : ∀ n, Reach loader (roots added) n → n ∈ s.loaded := by
      intro n hr
      induction hr with
      | root hn =>
        -- a root is an import of an added module, which is in `mods`
        simp only [roots, List.mem_flatMap] at hn
        obtain ⟨m, hm, hnm⟩ := hn
        rcases hi.closed m ((hi.modsEq m).2 (Or.inl hm)) _ hnm with h2 | h2
        · exact h2
        · rw [hpend] at h2; cases h2
      | @step n0 i0 m0 _ hl him ih =>
        rcases hi.closed m0 ((hi.modsEq m0).2 (Or.inr ⟨n0, ih, hl⟩)) _ him with h2 | h2
        · exact h2
        · rw [hpend] at h2; cases h2
    refine ⟨fun n => ⟨hi.loadedReach n, hall n⟩, hi.loadedNodup, ?_, hi.funcsEq, hi.globalsEq, hi.fkeys, hi.gkeys⟩
    intro m
    rw [hi.modsEq m]
    constructor
    · rintro (hm | ⟨n, hn, hl⟩)
      · exact Or.inl hm
      · exact Or.inr ⟨n, hi.loadedReach n hn, hl⟩
    · rintro (hm | ⟨n, hn, hl⟩)
      · exact Or.inl hm
      · exact Or.inr ⟨n, hall n hn, hl⟩

end Link
end Nsl
