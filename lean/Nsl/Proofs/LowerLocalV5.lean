import Nsl.Proofs.LowerLocalV4
import Nsl.Proofs.LowerWF2
import Nsl.Model.VectorCore
/-!
# The vector core satisfies the two decidable conditions of the general lowering theorems

* `okSV_valVarsS` – in the vector core every `var` node has `shape ty ≠ bad`, i.e. a scalar / vector / matrix / void
  annotation, none of which is an aggregate (`ITy.isAggregate` is true for arrays and structs only): `valVarsS`;
* `okSV_flowS` – `break` / `continue` occur inside loops only: `flowS` (what `targetsOK` needs).
-/
namespace Nsl
namespace Lower
open Core Opt WF

theorem notAgg_of_shape {ty : ITy} (h : (shape ty != .bad) = true) : (!ty.isAggregate) = true := by
  cases ty <;> simp_all [shape, ITy.isAggregate]

mutual
  theorem okEV_valVarsE (M : Core.Module) (ps : List (String × ITy)) (Γ : Map String Sh) :
      ∀ (e : Expr), okEV M ps Γ e = true → valVarsE e = true
    | .litI _, _ => rfl
    | .litF _, _ => rfl
    | .var sc key ty, h => by
      simp only [okEV, Bool.and_eq_true] at h
      simp only [valVarsE]
      exact notAgg_of_shape h.1
    | .bin op ty l r, h => by
      simp only [okEV, Bool.and_eq_true] at h
      simp only [valVarsE, Bool.and_eq_true]
      exact ⟨okEV_valVarsE M ps Γ l h.1.2, okEV_valVarsE M ps Γ r h.2⟩
    | .cast ty e, h => by
      simp only [okEV, Bool.and_eq_true] at h
      simp only [valVarsE]
      exact okEV_valVarsE M ps Γ e h.2
    | .assign lhs rhs, h => by
      simp only [okEV, Bool.and_eq_true] at h
      simp only [valVarsE, Bool.and_eq_true]
      exact ⟨okEV_valVarsE M ps Γ lhs h.1.2, okEV_valVarsE M ps Γ rhs h.2⟩
    | .affix post inc x, h => by
      simp only [okEV, Bool.and_eq_true] at h
      simp only [valVarsE]
      exact okEV_valVarsE M ps Γ x h.2
    | .call fn ty args, h => by
      simp only [okEV, Bool.and_eq_true] at h
      simp only [valVarsE]
      exact okArgsV_valVarsArgs M ps Γ args h.2
    | .index kd ty base idx, h => by
      simp only [okEV, Bool.and_eq_true] at h
      simp only [valVarsE, Bool.and_eq_true]
      exact ⟨okEV_valVarsE M ps Γ base h.1.2, okEV_valVarsE M ps Γ idx h.2⟩
    | .member _ _ _, h => by simp [okEV] at h
    | .swizzle ty base idxs, h => by
      simp only [okEV, Bool.and_eq_true] at h
      simp only [valVarsE]
      exact okEV_valVarsE M ps Γ base h.2
    | .construct ty args, h => by
      simp only [okEV, Bool.and_eq_true] at h
      simp only [valVarsE]
      exact okArgsV_valVarsArgs M ps Γ args h.2
  theorem okArgsV_valVarsArgs (M : Core.Module) (ps : List (String × ITy)) (Γ : Map String Sh) :
      ∀ (as : Args), okArgsV M ps Γ as = true → valVarsArgs as = true
    | .nil, _ => rfl
    | .cons e rest, h => by
      simp only [okArgsV, Bool.and_eq_true] at h
      simp only [valVarsArgs, Bool.and_eq_true]
      exact ⟨okEV_valVarsE M ps Γ e h.1, okArgsV_valVarsArgs M ps Γ rest h.2⟩
end

theorem okOptEV_valVarsOptE (M : Core.Module) (ps : List (String × ITy)) (Γ : Map String Sh) :
    ∀ (oe : Option Expr), okOptEV M ps Γ oe = true → valVarsOptE oe = true
  | none, _ => rfl
  | some e, h => okEV_valVarsE M ps Γ e h

theorem okSV_valVarsS (M : Core.Module) (ps : List (String × ITy)) (Γ : Map String Sh) (rs : Sh) :
    ∀ (s : Stmt) (il : Bool), okSV M ps Γ rs il s = true → valVarsS s = true
  | .skip, _, _ => rfl
  | .decl _ _ none, _, _ => rfl
  | .decl _ _ (some e), _, h => by
    simp only [okSV, Bool.and_eq_true] at h
    exact okEV_valVarsE M ps Γ e h.2
  | .expr e, _, h => okEV_valVarsE M ps Γ e h
  | .seq a b, il, h => by
    simp only [okSV, Bool.and_eq_true] at h
    simp only [valVarsS, Bool.and_eq_true]
    exact ⟨okSV_valVarsS M ps Γ rs a il h.1, okSV_valVarsS M ps Γ rs b il h.2⟩
  | .ite1 c t, il, h => by
    simp only [okSV, Bool.and_eq_true] at h
    simp only [valVarsS, Bool.and_eq_true]
    exact ⟨okEV_valVarsE M ps Γ c h.1, okSV_valVarsS M ps Γ rs t il h.2⟩
  | .ite2 c t e, il, h => by
    simp only [okSV, Bool.and_eq_true] at h
    simp only [valVarsS, Bool.and_eq_true]
    exact ⟨⟨okEV_valVarsE M ps Γ c h.1.1, okSV_valVarsS M ps Γ rs t il h.1.2⟩, okSV_valVarsS M ps Γ rs e il h.2⟩
  | .whileL c b, _, h => by
    simp only [okSV, Bool.and_eq_true] at h
    simp only [valVarsS, Bool.and_eq_true]
    exact ⟨okEV_valVarsE M ps Γ c h.1, okSV_valVarsS M ps Γ rs b true h.2⟩
  | .doL b c, _, h => by
    simp only [okSV, Bool.and_eq_true] at h
    simp only [valVarsS, Bool.and_eq_true]
    exact ⟨okSV_valVarsS M ps Γ rs b true h.1, okEV_valVarsE M ps Γ c h.2⟩
  | .forL i c n b, il, h => by
    simp only [okSV, Bool.and_eq_true] at h
    simp only [valVarsS, Bool.and_eq_true]
    exact ⟨⟨⟨okSV_valVarsS M ps Γ rs i il h.1.1.1, okOptEV_valVarsOptE M ps Γ c h.1.1.2⟩,
      okOptEV_valVarsOptE M ps Γ n h.1.2⟩, okSV_valVarsS M ps Γ rs b true h.2⟩
  | .brk, _, _ => rfl
  | .cont, _, _ => rfl
  | .ret none, _, _ => rfl
  | .ret (some e), _, h => by
    simp only [okSV, Bool.and_eq_true] at h
    exact okEV_valVarsE M ps Γ e h.2

theorem okSV_flowS (M : Core.Module) (ps : List (String × ITy)) (Γ : Map String Sh) (rs : Sh) :
    ∀ (s : Stmt) (il : Bool), okSV M ps Γ rs il s = true → flowS il s = true
  | .skip, _, _ => rfl
  | .decl _ _ _, _, _ => rfl
  | .expr _, _, _ => rfl
  | .seq a b, il, h => by
    simp only [okSV, Bool.and_eq_true] at h
    simp only [flowS, Bool.and_eq_true]
    exact ⟨okSV_flowS M ps Γ rs a il h.1, okSV_flowS M ps Γ rs b il h.2⟩
  | .ite1 _ t, il, h => by
    simp only [okSV, Bool.and_eq_true] at h
    exact okSV_flowS M ps Γ rs t il h.2
  | .ite2 _ t e, il, h => by
    simp only [okSV, Bool.and_eq_true] at h
    simp only [flowS, Bool.and_eq_true]
    exact ⟨okSV_flowS M ps Γ rs t il h.1.2, okSV_flowS M ps Γ rs e il h.2⟩
  | .whileL _ b, _, h => by
    simp only [okSV, Bool.and_eq_true] at h
    exact okSV_flowS M ps Γ rs b true h.2
  | .doL b _, _, h => by
    simp only [okSV, Bool.and_eq_true] at h
    exact okSV_flowS M ps Γ rs b true h.1
  | .forL i _ _ b, il, h => by
    simp only [okSV, Bool.and_eq_true] at h
    simp only [flowS, Bool.and_eq_true]
    exact ⟨okSV_flowS M ps Γ rs i il h.1.1.1, okSV_flowS M ps Γ rs b true h.2⟩
  | .brk, _, h => h
  | .cont, _, h => h
  | .ret _, _, _ => rfl

theorem okFnV_valVarsS {M : Core.Module} {f : FnDef} (h : okFnV M f = true) : valVarsS f.body = true := by
  simp only [okFnV, Bool.and_eq_true] at h
  exact okSV_valVarsS M _ _ _ f.body false h.1.2

theorem okFnV_flowS {M : Core.Module} {f : FnDef} (h : okFnV M f = true) : flowS false f.body = true := by
  simp only [okFnV, Bool.and_eq_true] at h
  exact okSV_flowS M _ _ _ f.body false h.1.2

end Lower
end Nsl
