import Nsl.Model.Prec

/-! Helper lemmas for property C08 (operator-precedence parsing). Core Lean only. -/

namespace Nsl.Prec

variable {Op α : Type}

/-! ### Decidability of `WellGrouped` -/

theorem rootGeB_iff (lvl : Op → Nat) (n : Nat) (t : Tree Op α) :
    rootGeB lvl n t = true ↔ rootGe lvl n t := by
  cases t <;> simp [rootGeB, rootGe]

theorem rootGtB_iff (lvl : Op → Nat) (n : Nat) (t : Tree Op α) :
    rootGtB lvl n t = true ↔ rootGt lvl n t := by
  cases t <;> simp [rootGtB, rootGt]

theorem wellGroupedB_iff (lvl : Op → Nat) (t : Tree Op α) :
    wellGroupedB lvl t = true ↔ WellGrouped lvl t := by
  induction t with
  | leaf a => simp [wellGroupedB, WellGrouped]
  | node op l r ihl ihr =>
    simp [wellGroupedB, WellGrouped, rootGeB_iff, rootGtB_iff, ihl, ihr, and_assoc]

instance (lvl : Op → Nat) (t : Tree Op α) : Decidable (WellGrouped lvl t) :=
  decidable_of_iff _ (wellGroupedB_iff lvl t)

/-! ### Small facts about root levels -/

theorem rootGt_of_rootGe {lvl : Op → Nat} {m n : Nat} {t : Tree Op α}
    (h : rootGe lvl m t) (hmn : n < m) : rootGt lvl n t := by
  cases t with
  | leaf a => trivial
  | node p l r => simp only [rootGe, rootGt] at *; omega

theorem rootGe_of_rootGt {lvl : Op → Nat} {m n : Nat} {t : Tree Op α}
    (h : rootGt lvl m t) (hmn : n ≤ m) : rootGe lvl n t := by
  cases t with
  | leaf a => trivial
  | node p l r => simp only [rootGe, rootGt] at *; omega

/-- The operator on top of the stack (if any) has level `< ` the root operator of `t` (if any). -/
def topOk (lvl : Op → Nat) : List (Tree Op α × Op) → Tree Op α → Prop
  | [], _ => True
  | (_, q) :: _, t => rootGt lvl (lvl q) t

/-- The operator on top of the stack (if any) has level `< n`. -/
def topLt (lvl : Op → Nat) (n : Nat) : List (Tree Op α × Op) → Prop
  | [] => True
  | (_, q) :: _ => lvl q < n

/-! ### `reduceWhile` performs a prefix of the reductions of `reduceAll` -/

theorem reduceAll_reduceWhile (lvl : Op → Nat) (stk : List (Tree Op α × Op)) (t : Tree Op α)
    (o : Op) :
    reduceAll (reduceWhile lvl stk t o).1 (reduceWhile lvl stk t o).2 = reduceAll stk t := by
  induction stk generalizing t with
  | nil => simp [reduceWhile]
  | cons e stk ih =>
    obtain ⟨l, p⟩ := e
    unfold reduceWhile
    split
    · rw [ih]; simp [reduceAll]
    · rfl

/-- After `reduceWhile` the remaining stack top is strictly below the lookahead's level. -/
theorem reduceWhile_topLt (lvl : Op → Nat) (stk : List (Tree Op α × Op)) (t : Tree Op α)
    (o : Op) : topLt lvl (lvl o) (reduceWhile lvl stk t o).1 := by
  induction stk generalizing t with
  | nil => simp [reduceWhile, topLt]
  | cons e stk ih =>
    obtain ⟨l, p⟩ := e
    unfold reduceWhile
    split
    · exact ih _
    · simp only [topLt]; omega

/-- The expression produced by `reduceWhile` has root level `≥` the lookahead's level. -/
theorem reduceWhile_rootGe (lvl : Op → Nat) (stk : List (Tree Op α × Op)) (t : Tree Op α)
    (o : Op) (h : rootGe lvl (lvl o) t) : rootGe lvl (lvl o) (reduceWhile lvl stk t o).2 := by
  induction stk generalizing t with
  | nil => simpa [reduceWhile] using h
  | cons e stk ih =>
    obtain ⟨l, p⟩ := e
    unfold reduceWhile
    split
    · apply ih; simpa [rootGe]
    · exact h

/-- If the stack top is strictly below the lookahead's level nothing is reduced. -/
theorem reduceWhile_of_topLt (lvl : Op → Nat) (stk : List (Tree Op α × Op)) (t : Tree Op α)
    (o : Op) (h : topLt lvl (lvl o) stk) : reduceWhile lvl stk t o = (stk, t) := by
  cases stk with
  | nil => rfl
  | cons e stk =>
    obtain ⟨l, p⟩ := e
    simp only [topLt] at h
    unfold reduceWhile
    rw [if_neg (by omega)]

/-! ### Yield preservation -/

theorem yield_reduceAll_ext (stk : List (Tree Op α × Op)) (t u : Tree Op α) (zs : List (Op × α))
    (h1 : (yield u).1 = (yield t).1) (h2 : (yield u).2 = (yield t).2 ++ zs) :
    yield (reduceAll stk u)
      = ((yield (reduceAll stk t)).1, (yield (reduceAll stk t)).2 ++ zs) := by
  induction stk generalizing t u with
  | nil => simp only [reduceAll]; rw [← h1, ← h2]
  | cons e stk ih =>
    obtain ⟨l, p⟩ := e
    simp only [reduceAll]
    apply ih
    · simp [yield]
    · simp [yield, h1, h2]

theorem yield_parseLoop (lvl : Op → Nat) (rest : List (Op × α)) (stk : List (Tree Op α × Op))
    (cur : Tree Op α) :
    yield (parseLoop lvl stk cur rest)
      = ((yield (reduceAll stk cur)).1, (yield (reduceAll stk cur)).2 ++ rest) := by
  induction rest generalizing stk cur with
  | nil => simp [parseLoop]
  | cons e rest ih =>
    obtain ⟨o, a⟩ := e
    simp only [parseLoop]
    rw [ih]
    simp only [reduceAll]
    rw [yield_reduceAll_ext _ (reduceWhile lvl stk cur o).2 _ [(o, a)] (by simp [yield])
      (by simp [yield])]
    rw [reduceAll_reduceWhile]
    simp

/-! ### Well-groupedness of the result -/

theorem wg_of_wg_reduceAll (lvl : Op → Nat) (stk : List (Tree Op α × Op)) (t : Tree Op α)
    (h : WellGrouped lvl (reduceAll stk t)) : WellGrouped lvl t := by
  induction stk generalizing t with
  | nil => exact h
  | cons e stk ih =>
    obtain ⟨l, p⟩ := e
    have := ih _ h
    exact this.2.2.2

theorem topOk_of_wg_reduceAll (lvl : Op → Nat) (stk : List (Tree Op α × Op)) (t : Tree Op α)
    (h : WellGrouped lvl (reduceAll stk t)) : topOk lvl stk t := by
  cases stk with
  | nil => trivial
  | cons e stk =>
    obtain ⟨l, p⟩ := e
    have := wg_of_wg_reduceAll lvl stk _ h
    exact this.2.1

/-- Replace the expression on top of the stack by another well-grouped one that is still
compatible with the stack top. -/
theorem wg_reduceAll_replace (lvl : Op → Nat) (stk : List (Tree Op α × Op)) (t u : Tree Op α)
    (h : WellGrouped lvl (reduceAll stk t)) (hu : WellGrouped lvl u) (htop : topOk lvl stk u) :
    WellGrouped lvl (reduceAll stk u) := by
  induction stk generalizing t u with
  | nil => exact hu
  | cons e stk ih =>
    obtain ⟨l, p⟩ := e
    simp only [reduceAll] at h ⊢
    have hn := wg_of_wg_reduceAll lvl stk _ h
    have ht := topOk_of_wg_reduceAll lvl stk _ h
    apply ih _ _ h
    · exact ⟨hn.1, htop, hn.2.2.1, hu⟩
    · cases stk with
      | nil => trivial
      | cons e' stk' => exact ht

theorem topOk_node_of_topLt {lvl : Op → Nat} {stk : List (Tree Op α × Op)} {o : Op}
    (l r : Tree Op α) (h : topLt lvl (lvl o) stk) : topOk lvl stk (.node o l r) := by
  cases stk with
  | nil => trivial
  | cons e stk => exact h

theorem wg_parseLoop (lvl : Op → Nat) (rest : List (Op × α)) (stk : List (Tree Op α × Op))
    (a : α) (h : WellGrouped lvl (reduceAll stk (.leaf a))) :
    WellGrouped lvl (parseLoop lvl stk (.leaf a) rest) := by
  induction rest generalizing stk a with
  | nil => simpa [parseLoop] using h
  | cons e rest ih =>
    obtain ⟨o, b⟩ := e
    simp only [parseLoop]
    apply ih
    simp only [reduceAll]
    have h' : WellGrouped lvl
        (reduceAll (reduceWhile lvl stk (.leaf a) o).1 (reduceWhile lvl stk (.leaf a) o).2) := by
      rw [reduceAll_reduceWhile]; exact h
    apply wg_reduceAll_replace lvl _ _ _ h'
    · exact ⟨reduceWhile_rootGe lvl stk _ o trivial, trivial,
        wg_of_wg_reduceAll lvl _ _ h', trivial⟩
    · exact topOk_node_of_topLt _ _ (reduceWhile_topLt lvl stk _ o)

/-! ### The parser reconstructs every well-grouped tree from its yield -/

/-- `rest` is empty or starts with an operator whose level is `≤` the root level of `t`. -/
def nextOk (lvl : Op → Nat) (t : Tree Op α) : List (Op × α) → Prop
  | [] => True
  | (o, _) :: _ => rootGe lvl (lvl o) t

theorem topLt_of_topOk_node {lvl : Op → Nat} {stk : List (Tree Op α × Op)} {p : Op}
    {l r : Tree Op α} (h : topOk lvl stk (.node p l r)) : topLt lvl (lvl p) stk := by
  cases stk with
  | nil => trivial
  | cons e stk => exact h

theorem topOk_of_topLt_rootGe {lvl : Op → Nat} {stk : List (Tree Op α × Op)} {n : Nat}
    {t : Tree Op α} (h : topLt lvl n stk) (ht : rootGe lvl n t) : topOk lvl stk t := by
  cases stk with
  | nil => trivial
  | cons e stk => exact rootGt_of_rootGe ht h

/-- Feeding the yield of a well-grouped tree `t` to the parser loop has the same effect as
starting with `t` already on top of the stack, provided the stack top binds looser than `t`'s
root and the next operator does not bind tighter than `t`'s root. -/
theorem parseLoop_yield (lvl : Op → Nat) (t : Tree Op α) :
    ∀ (stk : List (Tree Op α × Op)) (rest : List (Op × α)),
      WellGrouped lvl t → topOk lvl stk t → nextOk lvl t rest →
      parseLoop lvl stk (.leaf (yield t).1) ((yield t).2 ++ rest) = parseLoop lvl stk t rest := by
  induction t with
  | leaf a => intro stk rest _ _ _; simp [yield]
  | node p l r ihl ihr =>
    intro stk rest hwg htop hnext
    obtain ⟨hl, hr, hwl, hwr⟩ := hwg
    have hlt : topLt lvl (lvl p) stk := topLt_of_topOk_node htop
    simp only [yield, List.append_assoc, List.cons_append]
    rw [ihl stk ((p, (yield r).1) :: ((yield r).2 ++ rest)) hwl (topOk_of_topLt_rootGe hlt hl) hl]
    simp only [parseLoop]
    rw [reduceWhile_of_topLt lvl stk l p hlt]
    simp only []
    have hnr : nextOk lvl r rest := by
      cases rest with
      | nil => trivial
      | cons e rest' =>
        obtain ⟨o, b⟩ := e
        exact rootGe_of_rootGt hr hnext
    rw [ihr ((l, p) :: stk) rest hwr hr hnr]
    cases rest with
    | nil => simp [parseLoop, reduceAll]
    | cons e rest' =>
      obtain ⟨o, b⟩ := e
      have hop : lvl o ≤ lvl p := hnext
      simp only [parseLoop]
      rw [show reduceWhile lvl ((l, p) :: stk) r o = reduceWhile lvl stk (.node p l r) o by
        simp [reduceWhile, hop]]

/-- Round trip, stated here so that the parenthesis lemmas below can use it. -/
theorem parse_yield_of_wg (lvl : Op → Nat) (t : Tree Op α) (h : WellGrouped lvl t) :
    parse lvl (yield t).1 (yield t).2 = t := by
  have := parseLoop_yield lvl t [] [] h trivial trivial
  simpa [parse, parseLoop, reduceAll] using this

/-! ### Parentheses -/

theorem chainOperands_append (lvl : Op → Nat) :
    ∀ (c : Chain Op α) (o : Op) (d : Chain Op α),
      chainOperands lvl (Chain.append c o d)
        = ((chainOperands lvl c).1,
           (chainOperands lvl c).2 ++ (o, (chainOperands lvl d).1) :: (chainOperands lvl d).2)
  | .one x, o, d => by simp [Chain.append, chainOperands]
  | .cons x p c, o, d => by
    simp [Chain.append, chainOperands, chainOperands_append lvl c o d]

/-- The tree over operands that the outer parser is expected to build for `unparse lvl e`:
the shape of `e`, cut off at the sub-expressions that `unparse` parenthesises (these become
operands). -/
def witness (lvl : Op → Nat) : Tree Op α → Tree Op (Tree Op α)
  | .leaf a => .leaf (.leaf a)
  | .node op l r =>
    .node op (if needsParenL lvl (lvl op) l then .leaf l else witness lvl l)
             (if needsParenR lvl (lvl op) r then .leaf r else witness lvl r)

theorem join_witness (lvl : Op → Nat) (e : Tree Op α) : join (witness lvl e) = e := by
  induction e with
  | leaf a => rfl
  | node op l r ihl ihr =>
    simp only [witness]
    split <;> split <;> simp [join, ihl, ihr]

theorem wg_witness (lvl : Op → Nat) (e : Tree Op α) : WellGrouped lvl (witness lvl e) := by
  induction e with
  | leaf a => trivial
  | node op l r ihl ihr =>
    simp only [witness]
    refine ⟨?_, ?_, ?_, ?_⟩
    · split
      · trivial
      · rename_i h
        cases l with
        | leaf a => trivial
        | node p l1 l2 =>
          simp only [needsParenL, decide_eq_true_eq] at h
          simp only [witness, rootGe]; omega
    · split
      · trivial
      · rename_i h
        cases r with
        | leaf a => trivial
        | node p r1 r2 =>
          simp only [needsParenR, decide_eq_true_eq] at h
          simp only [witness, rootGt]; omega
    · split
      · trivial
      · exact ihl
    · split
      · trivial
      · exact ihr

theorem yield_witness (lvl : Op → Nat) (e : Tree Op α) :
    yield (witness lvl e) = chainOperands lvl (unparse lvl e) := by
  induction e with
  | leaf a => simp [witness, yield, unparse, chainOperands, parseOperand]
  | node op l r ihl ihr =>
    have hgroup : ∀ t : Tree Op α, yield (witness lvl t) = chainOperands lvl (unparse lvl t) →
        parseOperand lvl (.group (unparse lvl t)) = t := by
      intro t ht
      simp only [parseOperand]
      rw [← ht, parse_yield_of_wg lvl _ (wg_witness lvl t), join_witness]
    simp only [witness, unparse, chainOperands_append, yield]
    split <;> split <;>
      simp [yield, chainOperands, hgroup l ihl, hgroup r ihr, ← ihl, ← ihr]

theorem parseFull_unparse_aux (lvl : Op → Nat) (e : Tree Op α) :
    parseFull lvl (unparse lvl e) = e := by
  unfold parseFull
  rw [← yield_witness, parse_yield_of_wg lvl _ (wg_witness lvl e), join_witness]

/-! ### `parseFull` extends `parse`; `unparse` emits no parentheses on well-grouped trees -/

/-- Relabel the operands of a tree. -/
def mapT {β : Type} (f : α → β) : Tree Op α → Tree Op β
  | .leaf a => .leaf (f a)
  | .node op l r => .node op (mapT f l) (mapT f r)

def mapStk {β : Type} (f : α → β) (stk : List (Tree Op α × Op)) : List (Tree Op β × Op) :=
  stk.map (fun e => (mapT f e.1, e.2))

theorem reduceWhile_map {β : Type} (f : α → β) (lvl : Op → Nat) (stk : List (Tree Op α × Op))
    (t : Tree Op α) (o : Op) :
    reduceWhile lvl (mapStk f stk) (mapT f t) o
      = (mapStk f (reduceWhile lvl stk t o).1, mapT f (reduceWhile lvl stk t o).2) := by
  induction stk generalizing t with
  | nil => rfl
  | cons e stk ih =>
    obtain ⟨l, p⟩ := e
    simp only [mapStk, List.map_cons, reduceWhile]
    split
    · exact ih (.node p l t)
    · rfl

theorem reduceAll_map {β : Type} (f : α → β) (stk : List (Tree Op α × Op)) (t : Tree Op α) :
    reduceAll (mapStk f stk) (mapT f t) = mapT f (reduceAll stk t) := by
  induction stk generalizing t with
  | nil => rfl
  | cons e stk ih =>
    obtain ⟨l, p⟩ := e
    simp only [mapStk, List.map_cons, reduceAll]
    exact ih (.node p l t)

theorem parseLoop_map {β : Type} (f : α → β) (lvl : Op → Nat) (rest : List (Op × α))
    (stk : List (Tree Op α × Op)) (cur : Tree Op α) :
    parseLoop lvl (mapStk f stk) (mapT f cur) (rest.map (fun e => (e.1, f e.2)))
      = mapT f (parseLoop lvl stk cur rest) := by
  induction rest generalizing stk cur with
  | nil => simp [parseLoop, reduceAll_map]
  | cons e rest ih =>
    obtain ⟨o, a⟩ := e
    simp only [List.map_cons, parseLoop, reduceWhile_map]
    exact ih ((((reduceWhile lvl stk cur o).2, o)) :: (reduceWhile lvl stk cur o).1) (.leaf a)

theorem join_mapT_leaf (t : Tree Op α) : join (mapT Tree.leaf t) = t := by
  induction t with
  | leaf a => rfl
  | node op l r ihl ihr => simp [mapT, join, ihl, ihr]

theorem chainOperands_ofList (lvl : Op → Nat) (rest : List (Op × α)) (a : α) :
    chainOperands lvl (Chain.ofList a rest)
      = (.leaf a, rest.map (fun e => (e.1, Tree.leaf e.2))) := by
  induction rest generalizing a with
  | nil => simp [Chain.ofList, chainOperands, parseOperand]
  | cons e rest ih =>
    obtain ⟨o, b⟩ := e
    simp [Chain.ofList, chainOperands, parseOperand, ih]

theorem parseFull_ofList_aux (lvl : Op → Nat) (a : α) (rest : List (Op × α)) :
    parseFull lvl (Chain.ofList a rest) = parse lvl a rest := by
  unfold parseFull parse
  rw [chainOperands_ofList]
  have := parseLoop_map (Tree.leaf (Op := Op)) lvl rest [] (.leaf a)
  simp only [mapStk, List.map_nil, mapT] at this
  rw [this, join_mapT_leaf]

theorem ofList_append (xs : List (Op × α)) (a : α) (o : Op) (b : α) (ys : List (Op × α)) :
    Chain.append (Chain.ofList a xs) o (Chain.ofList b ys)
      = Chain.ofList a (xs ++ (o, b) :: ys) := by
  induction xs generalizing a with
  | nil => simp [Chain.ofList, Chain.append]
  | cons e xs ih =>
    obtain ⟨p, c⟩ := e
    simp [Chain.ofList, Chain.append, ih]

theorem unparse_of_wg_aux (lvl : Op → Nat) (t : Tree Op α) (h : WellGrouped lvl t) :
    unparse lvl t = Chain.ofList (yield t).1 (yield t).2 := by
  induction t with
  | leaf a => rfl
  | node op l r ihl ihr =>
    obtain ⟨hl, hr, hwl, hwr⟩ := h
    have hnl : needsParenL lvl (lvl op) l = false := by
      cases l with
      | leaf a => rfl
      | node p l1 l2 => simp only [rootGe] at hl; simp [needsParenL]; omega
    have hnr : needsParenR lvl (lvl op) r = false := by
      cases r with
      | leaf a => rfl
      | node p r1 r2 => simp only [rootGt] at hr; simp [needsParenR]; omega
    simp only [unparse, hnl, hnr, yield, ihl hwl, ihr hwr]
    exact ofList_append _ _ _ _ _

end Nsl.Prec
