import Nsl.Proofs.LowerShape
import Nsl.Proofs.OptSimBase
/-!
# The lowering model produces block-local, single-definition code — part 1: combinators and expressions

`SLocal k c k'` is the invariant of a code fragment `c` lowered with the counter going from `k` to `k'`:
* every reference `c` defines lies in `[k, k')` and is defined once (`defs c` has no duplicates);
* `c` is block-local when entered with ANY set `seen` of references all of which are `< k`
  (in particular every use inside `c` is preceded, in the same basic block of `c`, by its definition inside `c`).
It is closed under concatenation (`SLocal.append`), widening of the counter interval (`SLocal.mono`), and under
appending one label-free instruction whose uses are defined by the (label-free) code before it (`SLocal.snoc`).

`ELocal k c o k'` is the invariant of expression code: `SLocal`, no label markers, and the references of the result
operand `o` are defined by `c` itself.
-/
namespace Nsl
namespace Lower
open Core Opt WF

/-! ## `distinct`, `blockLocal`, `seenOf` over concatenations -/

theorem distinct_iff_nodup : ∀ (l : List Nat), distinct l = true ↔ l.Nodup
  | [] => by simp [distinct]
  | x :: xs => by
    simp only [distinct, Bool.and_eq_true, Bool.not_eq_true', List.nodup_cons, distinct_iff_nodup xs]
    constructor
    · rintro ⟨h1, h2⟩
      exact ⟨by intro hm; simp [hm] at h1, h2⟩
    · rintro ⟨h1, h2⟩
      refine ⟨?_, h2⟩
      cases hc : xs.contains x with
      | false => rfl
      | true => exact absurd (by simpa using hc) h1

theorem seenOf_append : ∀ (a : List Instr) (seen : List Nat) (b : List Instr),
    seenOf seen (a ++ b) = seenOf (seenOf seen a) b
  | [], _, _ => rfl
  | _ :: rest, _, b => by simp only [List.cons_append, seenOf]; exact seenOf_append rest _ b

theorem blockLocal_cons_eq (seen : List Nat) (ins : Instr) (rest : List Instr) :
    blockLocal seen (ins :: rest) = (blockLocal seen [ins] && blockLocal (seenStep seen ins) rest) := by
  cases ins <;> simp [blockLocal, seenStep, defOf, Bool.and_assoc]

theorem blockLocal_append : ∀ (a : List Instr) (seen : List Nat) (b : List Instr),
    blockLocal seen (a ++ b) = (blockLocal seen a && blockLocal (seenOf seen a) b)
  | [], _, _ => by simp [blockLocal, seenOf]
  | ins :: rest, seen, b => by
    rw [List.cons_append, blockLocal_cons_eq, blockLocal_append rest, blockLocal_cons_eq seen ins rest, seenOf,
      Bool.and_assoc]

/-- One instruction that is not a label marker. -/
theorem blockLocal_single {ins : Instr} {seen : List Nat} (hl : labelOf ins = none)
    (hu : ∀ r ∈ usesOf ins, r ∈ seen) (hd : ∀ d, defOf ins = some d → d ∉ seen) :
    blockLocal seen [ins] = true := by
  cases ins <;>
    simp_all [blockLocal, labelOf, defOf, List.all_eq_true]

theorem seenOf_lt {seen : List Nat} {c : List Instr} {b : Nat} (hs : ∀ r ∈ seen, r < b)
    (hd : ∀ d ∈ defs c, d < b) : ∀ r ∈ seenOf seen c, r < b := by
  intro r hr
  rcases seenOf_sub_defs c seen r hr with h | h
  · exact hs r h
  · exact hd r h

theorem seenStep_mono {ins : Instr} (hl : labelOf ins = none) {seen : List Nat} {r : Nat} (h : r ∈ seen) :
    r ∈ seenStep seen ins := by
  cases ins <;> simp_all [seenStep, labelOf, defOf]

theorem seenStep_def {ins : Instr} (hl : labelOf ins = none) {seen : List Nat} {d : Nat} (h : defOf ins = some d) :
    d ∈ seenStep seen ins := by
  cases ins <;> simp_all [seenStep, labelOf, defOf]

theorem seenOf_mono : ∀ {c : List Instr}, NoLabels c → ∀ {seen : List Nat} {r : Nat}, r ∈ seen → r ∈ seenOf seen c
  | [], _, _, _, h => h
  | ins :: rest, hn, seen, r, h => by
    simp only [seenOf]
    exact seenOf_mono (c := rest) (fun i hi => hn i (List.mem_cons_of_mem _ hi))
      (seenStep_mono (hn ins List.mem_cons_self) h)

/-- In label-free code everything defined so far is visible at the end. -/
theorem defs_sub_seenOf : ∀ {c : List Instr}, NoLabels c → ∀ {seen : List Nat} {r : Nat}, r ∈ defs c → r ∈ seenOf seen c
  | [], _, _, _, h => by simp [defs] at h
  | ins :: rest, hn, seen, r, h => by
    have hrest : NoLabels rest := fun i hi => hn i (List.mem_cons_of_mem _ hi)
    simp only [seenOf]
    cases hd : defOf ins with
    | none =>
      rw [defs_cons_none hd] at h
      exact defs_sub_seenOf hrest h
    | some d =>
      rw [defs_cons_some hd] at h
      rcases List.mem_cons.1 h with rfl | h
      · exact seenOf_mono hrest (seenStep_def (hn ins List.mem_cons_self) hd)
      · exact defs_sub_seenOf hrest h

/-! ## The fragment invariant -/

structure SLocal (k : Nat) (c : List Instr) (k' : Nat) : Prop where
  le : k ≤ k'
  defsIn : ∀ d ∈ defs c, k ≤ d ∧ d < k'
  nodup : (defs c).Nodup
  loc : ∀ seen : List Nat, (∀ r ∈ seen, r < k) → blockLocal seen c = true

theorem SLocal.nil (k : Nat) : SLocal k [] k :=
  ⟨Nat.le_refl _, by simp [defs], by simp [defs], by intros; rfl⟩

theorem SLocal.mono {k k' : Nat} {c : List Instr} (h : SLocal k c k') {k0 k1 : Nat} (h0 : k0 ≤ k) (h1 : k' ≤ k1) :
    SLocal k0 c k1 :=
  ⟨by have := h.le; omega, fun d hd => by have := h.defsIn d hd; omega, h.nodup,
    fun seen hs => h.loc seen (fun r hr => by have := hs r hr; omega)⟩

theorem SLocal.seen_lt {k k' : Nat} {c : List Instr} (h : SLocal k c k') {seen : List Nat} (hs : ∀ r ∈ seen, r < k) :
    ∀ r ∈ seenOf seen c, r < k' :=
  seenOf_lt (fun r hr => by have := hs r hr; have := h.le; omega) (fun d hd => (h.defsIn d hd).2)

theorem SLocal.append {k k1 k2 : Nat} {a b : List Instr} (ha : SLocal k a k1) (hb : SLocal k1 b k2) :
    SLocal k (a ++ b) k2 := by
  refine ⟨by have := ha.le; have := hb.le; omega, ?_, ?_, ?_⟩
  · intro d hd
    rw [defs_append, List.mem_append] at hd
    have := ha.le; have := hb.le
    rcases hd with hd | hd
    · have := ha.defsIn d hd; omega
    · have := hb.defsIn d hd; omega
  · rw [defs_append]
    refine List.nodup_append.2 ⟨ha.nodup, hb.nodup, ?_⟩
    intro x hx y hy hxy
    have := ha.defsIn x hx; have := hb.defsIn y hy; omega
  · intro seen hs
    rw [blockLocal_append, ha.loc seen hs, Bool.true_and]
    exact hb.loc _ (ha.seen_lt hs)

/-- A marker starts a new block: nothing to check, nothing defined. -/
theorem SLocal.label (k l : Nat) : SLocal k [.label l] k := by
  have hd : defs [Instr.label l] = [] := rfl
  exact ⟨Nat.le_refl _, by simp [hd], by simp [hd], by intros; rfl⟩

theorem SLocal.br (k l : Nat) : SLocal k [.br l] k := by
  have hd : defs [Instr.br l] = [] := rfl
  exact ⟨Nat.le_refl _, by simp [hd], by simp [hd], by intros; rfl⟩

/-- Append one label-free instruction whose uses are defined by the label-free code before it and whose definition
(if any) is numbered in `[k1, k2)`. -/
theorem SLocal.snoc {k k1 k2 : Nat} {c : List Instr} {ins : Instr} (hc : SLocal k c k1) (hn : NoLabels c)
    (hl : labelOf ins = none) (hu : ∀ r ∈ usesOf ins, r ∈ defs c) (hd : ∀ d, defOf ins = some d → k1 ≤ d ∧ d < k2)
    (hle : k1 ≤ k2) : SLocal k (c ++ [ins]) k2 := by
  refine ⟨by have := hc.le; omega, ?_, ?_, ?_⟩
  · intro d hd'
    rw [defs_append, List.mem_append] at hd'
    have := hc.le
    rcases hd' with hd' | hd'
    · have := hc.defsIn d hd'; omega
    · cases hdi : defOf ins with
      | none => rw [defs_cons_none hdi] at hd'; simp [defs] at hd'
      | some d0 =>
        rw [defs_cons_some hdi] at hd'
        simp only [defs, List.filterMap_nil, List.mem_cons, List.not_mem_nil, or_false] at hd'
        subst hd'
        have := hd d hdi; omega
  · rw [defs_append]
    refine List.nodup_append.2 ⟨hc.nodup, ?_, ?_⟩
    · cases hdi : defOf ins with
      | none => rw [defs_cons_none hdi]; simp [defs]
      | some d0 => rw [defs_cons_some hdi]; simp [defs]
    · intro x hx y hy hxy
      cases hdi : defOf ins with
      | none => rw [defs_cons_none hdi] at hy; simp [defs] at hy
      | some d0 =>
        rw [defs_cons_some hdi] at hy
        simp only [defs, List.filterMap_nil, List.mem_cons, List.not_mem_nil, or_false] at hy
        subst hy
        have := hc.defsIn x hx; have := hd y hdi; omega
  · intro seen hs
    rw [blockLocal_append, hc.loc seen hs, Bool.true_and]
    refine blockLocal_single hl (fun r hr => defs_sub_seenOf hn (hu r hr)) ?_
    intro d hdi hmem
    have := hc.seen_lt hs d hmem
    have := hd d hdi; omega

theorem defs_snoc_mem {c : List Instr} {ins : Instr} {r : Nat} (h : r ∈ defs c) : r ∈ defs (c ++ [ins]) := by
  rw [defs_append]; exact List.mem_append_left _ h

theorem defs_snoc_def {c : List Instr} {ins : Instr} {d : Nat} (h : defOf ins = some d) : d ∈ defs (c ++ [ins]) := by
  rw [defs_append, defs_cons_some h]; simp

/-! ## Expressions of the scalar core -/

structure ELocal (k : Nat) (c : List Instr) (o : Opd) (k' : Nat) : Prop where
  sl : SLocal k c k'
  noLab : NoLabels c
  opd : ∀ r ∈ opdRefs o, r ∈ defs c

theorem mkBin_scalar' (dst : Nat) (op : BOp) (ty : ITy) (a : Opd) (ta : ITy) (b : Opd) (tb : ITy)
    (h : ty.isScalar = true) : mkBin dst op ty a ta b tb = .bin dst (.s op.toSOp) ty a b := by
  simp [mkBin, fromOperation, h]

theorem NoLabels.snoc {c : List Instr} {ins : Instr} (hc : NoLabels c) (hl : labelOf ins = none) :
    NoLabels (c ++ [ins]) := NoLabels.append hc (NoLabels.cons hl NoLabels.nil)

mutual
  theorem lowerE_local : ∀ (e : Expr), okE e = true → ∀ (k : Nat) (c : List Instr) (o : Opd) (k' : Nat),
      lowerE e k = (c, o, k') → ELocal k c o k'
    | .litI i, _, k, c, o, k', h => by
      simp only [lowerE, Prod.mk.injEq] at h
      obtain ⟨rfl, rfl, rfl⟩ := h
      exact ⟨SLocal.nil k, NoLabels.nil, by simp [opdRefs]⟩
    | .litF f, _, k, c, o, k', h => by
      simp only [lowerE, Prod.mk.injEq] at h
      obtain ⟨rfl, rfl, rfl⟩ := h
      exact ⟨SLocal.nil k, NoLabels.nil, by simp [opdRefs]⟩
    | .var sc key ty, _, k, c, o, k', h => by
      simp only [lowerE, Prod.mk.injEq] at h
      obtain ⟨rfl, rfl, rfl⟩ := h
      refine ⟨?_, NoLabels.cons rfl NoLabels.nil, by simp [opdRefs, defs, defOf]⟩
      have := SLocal.snoc (ins := .load k ty sc key) (k2 := k + 1) (SLocal.nil k) NoLabels.nil rfl
        (by simp [usesOf]) (by simp [defOf]) (by omega)
      simpa using this
    | .bin op ty l r, hok, k, c, o, k', h => by
      simp only [okE, Bool.and_eq_true] at hok
      obtain ⟨⟨⟨⟨hty, hl⟩, hr⟩, hokl⟩, hokr⟩ := hok
      rcases hel : lowerE l k with ⟨cl, vl, k1⟩
      rcases her : lowerE r k1 with ⟨cr, vr, k2⟩
      have il := lowerE_local l hokl k cl vl k1 hel
      have ir := lowerE_local r hokr k1 cr vr k2 her
      have hml : (Expr.ty l).isMatrix = false := by cases hh : Expr.ty l <;> simp_all [ITy.isScalar, ITy.isMatrix]
      have hmr : (Expr.ty r).isMatrix = false := by cases hh : Expr.ty r <;> simp_all [ITy.isScalar, ITy.isMatrix]
      simp only [lowerE, hel, her, hml, hmr, Bool.false_and, Bool.and_false, Bool.false_eq_true, if_false,
        Prod.mk.injEq, mkBin_scalar' _ _ _ _ _ _ _ hty] at h
      obtain ⟨rfl, rfl, rfl⟩ := h
      have hnl : NoLabels (cl ++ cr) := NoLabels.append il.noLab ir.noLab
      refine ⟨SLocal.snoc (il.sl.append ir.sl) hnl rfl ?_ (by simp [defOf]) (by omega), hnl.snoc rfl, ?_⟩
      · intro x hx
        simp only [usesOf, List.mem_append] at hx
        rw [defs_append, List.mem_append]
        rcases hx with hx | hx
        · exact Or.inl (il.opd x hx)
        · exact Or.inr (ir.opd x hx)
      · intro x hx
        simp only [opdRefs, List.mem_cons, List.not_mem_nil, or_false] at hx
        subst hx
        exact defs_snoc_def rfl
    | .cast ty e, hok, k, c, o, k', h => by
      simp only [okE, Bool.and_eq_true] at hok
      rcases he : lowerE e k with ⟨c1, v1, k1⟩
      have ie := lowerE_local e hok.2 k c1 v1 k1 he
      simp only [lowerE, he, Prod.mk.injEq] at h
      obtain ⟨rfl, rfl, rfl⟩ := h
      refine ⟨SLocal.snoc ie.sl ie.noLab rfl ?_ (by simp [defOf]) (by omega), ie.noLab.snoc rfl, ?_⟩
      · intro x hx
        exact ie.opd x (by simpa [usesOf] using hx)
      · intro x hx
        simp only [opdRefs, List.mem_cons, List.not_mem_nil, or_false] at hx
        subst hx
        exact defs_snoc_def rfl
    | .assign lhs rhs, hok, k, c, o, k', h => by
      simp only [okE, Bool.and_eq_true] at hok
      obtain ⟨sc, key, ty, rfl, _, _⟩ := okVar_inv hok.1
      rcases he : lowerE rhs k with ⟨c1, v1, k1⟩
      have ie := lowerE_local rhs hok.2 k c1 v1 k1 he
      simp only [lowerE, he, lowerStore_var, Prod.mk.injEq] at h
      obtain ⟨rfl, rfl, rfl⟩ := h
      refine ⟨SLocal.snoc ie.sl ie.noLab rfl ?_ (by simp [defOf]) (by omega), ie.noLab.snoc rfl, ?_⟩
      · intro x hx
        exact ie.opd x (by simpa [usesOf] using hx)
      · intro x hx
        exact defs_snoc_mem (ie.opd x hx)
    | .affix post inc x, hok, k, c, o, k', h => by
      simp only [okE] at hok
      obtain ⟨sc, key, ty, rfl, _, _⟩ := okVar_inv hok
      simp only [lowerE, lowerStore_var, Prod.mk.injEq] at h
      obtain ⟨rfl, rfl, rfl⟩ := h
      have h1 : SLocal k ([] ++ [Instr.load k ty sc key]) (k + 1) :=
        SLocal.snoc (SLocal.nil k) NoLabels.nil rfl (by simp [usesOf]) (by simp [defOf]) (by omega)
      have n1 : NoLabels ([] ++ [Instr.load k ty sc key]) := NoLabels.nil.snoc rfl
      have h2 := SLocal.snoc (k2 := k + 2)
        (ins := Instr.bin (k + 1) (.s (if inc then .add else .sub)) (Expr.ty (.var sc key ty)) (.ref k) (.cInt 1))
        h1 n1 rfl (by simp [usesOf, opdRefs, defs, defOf]) (by simp [defOf]) (by omega)
      have n2 := n1.snoc (ins := Instr.bin (k + 1) (.s (if inc then .add else .sub)) (Expr.ty (.var sc key ty))
        (.ref k) (.cInt 1)) rfl
      have h3 := SLocal.snoc (k2 := k + 1 + 1 + 1) (ins := Instr.store sc key (.ref (k + 1)))
        h2 n2 rfl (by simp [usesOf, opdRefs, defs, defOf]) (by simp [defOf]) (by omega)
      have n3 := n2.snoc (ins := Instr.store sc key (.ref (k + 1))) rfl
      refine ⟨by simpa using h3, by simpa using n3, ?_⟩
      cases post <;> simp [opdRefs, defs, defOf]
    | .call fn ty args, hok, k, c, o, k', h => by
      simp only [okE] at hok
      rcases ha : lowerArgs args k with ⟨c1, vs, k1⟩
      obtain ⟨isl, inl, iop⟩ := lowerArgs_local args hok k c1 vs k1 ha
      simp only [lowerE, ha, Prod.mk.injEq] at h
      obtain ⟨rfl, rfl, rfl⟩ := h
      refine ⟨SLocal.snoc isl inl rfl ?_ (by simp [defOf]) (by omega), inl.snoc rfl, ?_⟩
      · intro x hx
        exact iop x (by simpa [usesOf] using hx)
      · intro x hx
        simp only [opdRefs, List.mem_cons, List.not_mem_nil, or_false] at hx
        subst hx
        exact defs_snoc_def rfl
    | .index _ _ _ _, hok, _, _, _, _, _ => by simp [okE] at hok
    | .member _ _ _, hok, _, _, _, _, _ => by simp [okE] at hok
    | .swizzle _ _ _, hok, _, _, _, _, _ => by simp [okE] at hok
    | .construct _ _, hok, _, _, _, _, _ => by simp [okE] at hok
  theorem lowerArgs_local : ∀ (as : Args), okArgs as = true → ∀ (k : Nat) (c : List Instr) (os : List Opd) (k' : Nat),
      lowerArgs as k = (c, os, k') → SLocal k c k' ∧ NoLabels c ∧ ∀ r ∈ opdsRefs os, r ∈ defs c
    | .nil, _, k, c, os, k', h => by
      simp only [lowerArgs, Prod.mk.injEq] at h
      obtain ⟨rfl, rfl, rfl⟩ := h
      exact ⟨SLocal.nil k, NoLabels.nil, by simp [opdsRefs]⟩
    | .cons e rest, hok, k, c, os, k', h => by
      simp only [okArgs, Bool.and_eq_true] at hok
      rcases he : lowerE e k with ⟨c1, v1, k1⟩
      rcases hr : lowerArgs rest k1 with ⟨c2, vs, k2⟩
      have ie := lowerE_local e hok.1 k c1 v1 k1 he
      obtain ⟨rsl, rnl, rop⟩ := lowerArgs_local rest hok.2 k1 c2 vs k2 hr
      simp only [lowerArgs, he, hr, Prod.mk.injEq] at h
      obtain ⟨rfl, rfl, rfl⟩ := h
      refine ⟨ie.sl.append rsl, NoLabels.append ie.noLab rnl, ?_⟩
      intro x hx
      simp only [opdsRefs, List.mem_append] at hx
      rw [defs_append, List.mem_append]
      rcases hx with hx | hx
      · exact Or.inl (ie.opd x hx)
      · exact Or.inr (rop x hx)
end

end Lower
end Nsl
