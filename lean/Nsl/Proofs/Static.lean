import Nsl.Model.Static

/-!
# Helper lemmas for C13 (static checks on element selection)
-/

namespace Nsl.Static

open Spec

/-! ### Access chains -/

/-- The part of the three passes that concerns one step `parent[i]`. -/
def stepOK (parent : Ty) (i : Idx) : Bool :=
  isScalar (idxType i)
    && !(idxType i != .scalar .int && idxType i != .scalar .uint)
    && boundsStep parent i

theorem checkChain_nil (t : Ty) : checkChain t [] = true := by
  simp [checkChain, computeTypes, accessTypePass, boundsPass]

theorem boundsPass_cons (p : Ty) (ps : List Ty) (i : Idx) (is : List Idx) :
    boundsPass (p :: ps) (i :: is) = (boundsStep p i && boundsPass ps is) := rfl

/-- The pipeline of the three passes, unrolled by one step. -/
theorem checkChain_cons (t : Ty) (i : Idx) (is : List Idx) :
    checkChain t (i :: is) =
      (stepOK t i && match indexResult t with
        | none => false
        | some t' => checkChain t' is) := by
  cases hs : isScalar (idxType i) with
  | false => simp [checkChain, stepOK, computeTypes, hs]
  | true =>
    cases hr : indexResult t with
    | none => simp [checkChain, computeTypes, hs, hr]
    | some t' =>
      cases hc : computeTypes t' is with
      | none => simp [checkChain, computeTypes, hs, hr, hc]
      | some ps =>
        simp only [checkChain, stepOK, computeTypes, hs, hr, hc, accessTypePass, List.all_cons,
          boundsPass_cons, Bool.not_true, Bool.false_eq_true, if_false, Bool.true_and]
        cases boundsStep t i <;> cases (is.all _) <;> simp

/-- One typing step on a well-formed type: either the type is a scalar (nothing to select), or
the first size of `GetSize()` is the first dimension and the result type carries the rest. -/
theorem indexResult_spec (t : Ty) (hwf : WF t) :
    (indexResult t = none ∧ dimsOf t = []) ∨
    ∃ d rest t', size t = some (d :: rest) ∧ indexResult t = some t' ∧ WF t' ∧
      dimsOf t = d :: dimsOf t' := by
  cases t with
  | scalar c => left; simp [indexResult, size, dimsOf]
  | vec c n =>
    right
    exact ⟨n, [], .scalar c, by simp [size], by simp [indexResult, size, componentType],
      by simp [WF, wf], by simp [dimsOf]⟩
  | mat c r k =>
    right
    refine ⟨r, [k], .vec c k, by simp [size], by simp [indexResult, size], ?_, by simp [dimsOf]⟩
    simp only [WF, wf, Bool.and_eq_true] at hwf ⊢
    exact hwf.2
  | arr e ds =>
    right
    simp only [WF, wf, Bool.and_eq_true] at hwf
    obtain ⟨⟨he, hne⟩, hall⟩ := hwf
    cases ds with
    | nil => simp at hne
    | cons d ds' =>
      have hee : WF e ∧ ∀ e' ds'', e ≠ .arr e' ds'' := by
        cases e <;> simp_all [WF]
      cases ds' with
      | nil =>
        refine ⟨d, [], e, by simp [size], ?_, hee.1, by simp [dimsOf]⟩
        cases e <;> simp [indexResult, size, componentType]
      | cons d2 ds'' =>
        refine ⟨d, d2 :: ds'', .arr e (d2 :: ds''), by simp [size], ?_, ?_, by simp [dimsOf]⟩
        · simp [indexResult, size, componentType]
        · simp only [WF, wf, Bool.and_eq_true]
          refine ⟨⟨he, by simp⟩, ?_⟩
          simp only [List.all_cons, Bool.and_eq_true] at hall
          simpa using hall.2

theorem AllOK_nil (dims : List Nat) : AllOK [] dims := by
  intro j hi; simp at hi

theorem AllOK_cons (i : Idx) (is : List Idx) (d : Nat) (ds : List Nat) :
    AllOK (i :: is) (d :: ds) ↔ IdxOK i d ∧ AllOK is ds := by
  constructor
  · intro h
    refine ⟨h 0 (by simp) (by simp), ?_⟩
    intro j hi hd
    have := h (j + 1) (by simpa using hi) (by simpa using hd)
    simpa using this
  · rintro ⟨h0, hr⟩ j hi hd
    cases j with
    | zero => simpa using h0
    | succ j =>
      have := hr j (by simpa using hi) (by simpa using hd)
      simpa using this

/-- One step of the passes against one dimension. -/
theorem stepOK_iff (t : Ty) (i : Idx) (d : Nat) (rest : List Nat)
    (hs : size t = some (d :: rest)) : stepOK t i = true ↔ IdxOK i d := by
  cases i with
  | lit v =>
    simp only [stepOK, idxType, isScalar, boundsStep, hs, IdxOK]
    simp
  | dyn ty =>
    simp only [stepOK, idxType, boundsStep, IdxOK]
    cases ty <;> simp [isScalar]

theorem checkChain_iff (base : Ty) (hwf : WF base) (idxs : List Idx) :
    checkChain base idxs = true ↔ ChainOK base idxs := by
  induction idxs generalizing base with
  | nil =>
    simp [checkChain_nil, ChainOK, AllOK_nil]
  | cons i is ih =>
    rw [checkChain_cons]
    rcases indexResult_spec base hwf with ⟨hr, hd⟩ | ⟨d, rest, t', hs, hr, hwf', hd⟩
    · simp [hr, ChainOK, hd]
    · simp only [hr, Bool.and_eq_true, ChainOK, hd, AllOK_cons, List.length_cons]
      rw [stepOK_iff base i d rest hs, ih t' hwf']
      simp only [ChainOK]
      constructor
      · rintro ⟨h1, h2, h3⟩; exact ⟨by omega, h1, h3⟩
      · rintro ⟨h1, h2, h3⟩; exact ⟨h2, by omega, h3⟩

/-- A step that no parent type accepts makes the whole chain fail, wherever it stands. -/
theorem checkChain_bad_step (base : Ty) (pre : List Idx) (i : Idx) (post : List Idx)
    (h : ∀ p, stepOK p i = false) : checkChain base (pre ++ i :: post) = false := by
  induction pre generalizing base with
  | nil => simp [checkChain_cons, h]
  | cons a pre ih =>
    rw [List.cons_append, checkChain_cons]
    cases indexResult base with
    | none => simp
    | some t' => simp [ih t']

theorem stepOK_neg (p : Ty) (v : Int) (hv : v < 0) : stepOK p (.lit v) = false := by
  unfold stepOK boundsStep
  cases hs : size p with
  | none => simp
  | some ds =>
    cases ds with
    | nil => simp
    | cons d ds' => simp; omega

theorem stepOK_nonint (p : Ty) (t : Ty) (h1 : t ≠ .scalar .int) (h2 : t ≠ .scalar .uint) :
    stepOK p (.dyn t) = false := by
  simp [stepOK, idxType, h1, h2]

/-! ### Swizzle masks -/

theorem mem_xyzw (c : Char) : c ∈ xyzw ↔ c = 'x' ∨ c = 'y' ∨ c = 'z' ∨ c = 'w' := by
  simp [xyzw]

theorem mem_rgba (c : Char) : c ∈ rgba ↔ c = 'r' ∨ c = 'g' ∨ c = 'b' ∨ c = 'a' := by
  simp [rgba]

theorem mem_letters (c : Char) : c ∈ letters ↔ c ∈ xyzw ∨ c ∈ rgba := by
  simp [letters]

theorem xyzw_rgba_disjoint (c : Char) : c ∈ xyzw → c ∈ rgba → False := by
  rw [mem_xyzw, mem_rgba]
  rintro (h | h | h | h) <;> subst h <;> decide

theorem componentIndex_xyzw (c : Char) (h : c ∈ xyzw) : componentIndex c = some (xyzw.idxOf c) := by
  rw [mem_xyzw] at h
  rcases h with h | h | h | h <;> subst h <;> decide

theorem componentIndex_rgba (c : Char) (h : c ∈ rgba) : componentIndex c = some (rgba.idxOf c) := by
  rw [mem_rgba] at h
  rcases h with h | h | h | h <;> subst h <;> decide

theorem containsAnyOf_iff (xs what : List Char) :
    containsAnyOf xs what = true ↔ ∃ c ∈ xs, c ∈ what := by
  simp [containsAnyOf]

/-- `ValidateSwizzleMask` as three conditions on the letters of the mask. -/
theorem validateMask_iff (mask : List Char) (n : Nat) :
    validateMask mask n = true ↔
      (∀ c ∈ mask, c ∈ letters) ∧
      (∀ c ∈ mask, ∃ i, componentIndex c = some i ∧ i < n) ∧
      ¬ ((∃ c ∈ mask, c ∈ xyzw) ∧ (∃ c ∈ mask, c ∈ rgba)) := by
  have h1 : (mask.any fun m => !letters.contains m) = true ↔ ¬ ∀ c ∈ mask, c ∈ letters := by
    simp
  have h2 : (mask.any (indexTooBig n)) = true ↔
      ¬ ∀ c ∈ mask, ∃ i, componentIndex c = some i ∧ i < n := by
    simp only [List.any_eq_true, Classical.not_forall, not_exists, not_and]
    constructor
    · rintro ⟨c, hc, h⟩
      refine ⟨c, hc, ?_⟩
      intro i hi
      simp [indexTooBig, hi] at h
      omega
    · rintro ⟨c, hc, h⟩
      refine ⟨c, hc, ?_⟩
      unfold indexTooBig
      cases hi : componentIndex c with
      | none => rfl
      | some i => have := h i hi; simp; omega
  unfold validateMask
  by_cases c1 : (mask.any fun m => !letters.contains m) = true
  · rw [if_pos c1]; have := h1.1 c1; simp only [Bool.false_eq_true, false_iff]
    exact fun h => this h.1
  · rw [if_neg c1]
    have a1 : ∀ c ∈ mask, c ∈ letters := Classical.not_not.1 (mt h1.2 c1)
    by_cases c2 : (mask.any (indexTooBig n)) = true
    · rw [if_pos c2]; have := h2.1 c2; simp only [Bool.false_eq_true, false_iff]
      exact fun h => this h.2.1
    · rw [if_neg c2]
      have a2 := Classical.not_not.1 (mt h2.2 c2)
      by_cases c3 : (containsAnyOf mask xyzw && containsAnyOf mask rgba) = true
      · rw [if_pos c3]
        simp only [Bool.and_eq_true, containsAnyOf_iff] at c3
        simp only [Bool.false_eq_true, false_iff]
        exact fun h => h.2.2 c3
      · rw [if_neg c3]
        have c4 : ¬ (containsAnyOf mask rgba && containsAnyOf mask xyzw) = true := by
          rw [Bool.and_comm]; exact c3
        rw [if_neg c4]
        simp only [Bool.and_eq_true, containsAnyOf_iff] at c3
        simp only [true_iff]
        exact ⟨a1, a2, c3⟩

theorem validateMask_iff_spec (n : Nat) (mask : List Char) (hne : mask ≠ []) :
    validateMask mask n = true ↔ MaskOK n mask := by
  rw [validateMask_iff]
  unfold MaskOK
  constructor
  · rintro ⟨h1, h2, h3⟩
    refine ⟨hne, ?_, ?_⟩
    · by_cases hx : ∃ c ∈ mask, c ∈ xyzw
      · left
        intro c hc
        rcases (mem_letters c).1 (h1 c hc) with h | h
        · exact h
        · exact absurd ⟨hx, c, hc, h⟩ h3
      · right
        intro c hc
        rcases (mem_letters c).1 (h1 c hc) with h | h
        · exact absurd ⟨c, hc, h⟩ hx
        · exact h
    · intro c hc
      obtain ⟨i, hi, hlt⟩ := h2 c hc
      constructor
      · intro hx; rw [componentIndex_xyzw c hx] at hi; cases hi; exact hlt
      · intro hr; rw [componentIndex_rgba c hr] at hi; cases hi; exact hlt
  · rintro ⟨_, h1, h2⟩
    refine ⟨?_, ?_, ?_⟩
    · intro c hc
      rw [mem_letters]
      rcases h1 with h | h
      · exact Or.inl (h c hc)
      · exact Or.inr (h c hc)
    · intro c hc
      rcases h1 with h | h
      · exact ⟨_, componentIndex_xyzw c (h c hc), (h2 c hc).1 (h c hc)⟩
      · exact ⟨_, componentIndex_rgba c (h c hc), (h2 c hc).2 (h c hc)⟩
    · rintro ⟨⟨c, hc, hx⟩, ⟨c', hc', hr⟩⟩
      rcases h1 with h | h
      · exact xyzw_rgba_disjoint c' (h c' hc') hr
      · exact xyzw_rgba_disjoint c hx (h c hc)

end Nsl.Static
