import Nsl.Model.VM
/-!
# Fuel-free view of VM executions

`VM.run` threads one fuel counter through instructions *and* nested calls.  For simulation proofs
it is more convenient to talk about a multi-step relation `Steps` in which every step may use its
own call budget; `run_mono` (more fuel never changes a finished run) turns a `Steps` derivation that
ends in a returning instruction back into a statement about `run`.
-/
namespace Nsl
namespace VM

/-- Meaning of a call with budget `D` (what `run` passes to `stepI`). -/
def callD (P : Program) (D : Nat) : String → List Val → Globals → Res := fun name args g' =>
  match P.find name with
  | some callee => run P D callee 0 { args := args } g'
  | none => .fail (.internal "KeyError-function")

theorem run_zero (P : Program) (fn : Func) (pc : Nat) (fr : Frame) (g : Globals) :
    run P 0 fn pc fr g = .fail .timeout := by
  rw [run]

theorem run_succ (P : Program) (fuel : Nat) (fn : Func) (pc : Nat) (fr : Frame) (g : Globals) :
    run P (fuel + 1) fn pc fr g =
      match stepI (callD P fuel) fn.code pc fr g with
      | .next pc' fr' g' => run P fuel fn pc' fr' g'
      | .ret v g' as => .done v g' as
      | .fail e => .fail e := by
  rw [run]; rfl

/-- `cf'` agrees with `cf` wherever `cf` finishes. -/
def Extends (cf cf' : String → List Val → Globals → Res) : Prop :=
  ∀ name args g v g' as, cf name args g = .done v g' as → cf' name args g = .done v g' as

def StepOut.isFail : StepOut → Bool
  | .fail _ => true
  | _ => false

theorem liftE_ok {α} {x : Except Err α} {k : α → StepOut} {a : α} (h : x = .ok a) :
    liftE x k = k a := by
  subst h; rfl

/-- A step that does not fail does not depend on how unfinished calls are answered. -/
theorem stepI_extends {cf cf' : String → List Val → Globals → Res} (hx : Extends cf cf')
    (code : List Instr) (pc : Nat) (fr : Frame) (g : Globals) (out : StepOut)
    (h : stepI cf code pc fr g = out) (hnf : out.isFail = false) :
    stepI cf' code pc fr g = out := by
  unfold stepI at h ⊢
  cases hc : code[pc]? with
  | none => simpa [hc] using h
  | some ins =>
    simp only [hc] at h ⊢
    cases ins with
    | call dst ty fn args =>
      simp only [liftE] at h ⊢
      cases hv : evalVals fr g args with
      | error e => simpa [hv] using h
      | ok vs =>
        simp only [hv] at h ⊢
        cases hr : cf fn vs g with
        | fail e =>
          simp only [hr] at h
          subst h
          simp [StepOut.isFail] at hnf
        | done v g' as =>
          simp only [hr] at h
          rw [hx fn vs g v g' as hr]
          exact h
    | ret o => cases o <;> exact h
    | _ => exact h

theorem run_mono (P : Program) : ∀ (f : Nat) (fn : Func) (pc : Nat) (fr : Frame) (g : Globals)
    (v : Val) (g' : Globals) (as : List Val),
    run P f fn pc fr g = .done v g' as → ∀ f', f ≤ f' → run P f' fn pc fr g = .done v g' as := by
  intro f
  induction f with
  | zero => intro fn pc fr g v g' as h; rw [run_zero] at h; cases h
  | succ f ih =>
    intro fn pc fr g v g' as h f' hle
    obtain ⟨f'', rfl⟩ : ∃ f'', f' = f'' + 1 := ⟨f' - 1, by omega⟩
    have hle' : f ≤ f'' := by omega
    rw [run_succ] at h ⊢
    have hext : Extends (callD P f) (callD P f'') := by
      intro name args g0 v0 g0' as0 hc
      unfold callD at hc ⊢
      cases hf : P.find name with
      | none => simp [hf] at hc
      | some callee =>
        simp only [hf] at hc ⊢
        exact ih _ _ _ _ _ _ _ hc f'' hle'
    cases hs : stepI (callD P f) fn.code pc fr g with
    | fail e => simp [hs] at h
    | next pc1 fr1 g1 =>
      simp only [hs] at h
      rw [stepI_extends hext _ _ _ _ _ hs rfl]
      exact ih _ _ _ _ _ _ _ h f'' hle'
    | ret v1 g1 as1 =>
      simp only [hs] at h
      rw [stepI_extends hext _ _ _ _ _ hs rfl]
      exact h

theorem callD_extends (P : Program) {D D' : Nat} (h : D ≤ D') : Extends (callD P D) (callD P D') := by
  intro name args g0 v0 g0' as0 hc
  unfold callD at hc ⊢
  cases hf : P.find name with
  | none => simp [hf] at hc
  | some callee =>
    simp only [hf] at hc ⊢
    exact run_mono P _ _ _ _ _ _ _ _ hc D' h

abbrev Cfg := Nat × Frame × Globals

/-- Multi-step execution inside one function; every step may use its own call budget. -/
inductive Steps (P : Program) (code : List Instr) : Cfg → Cfg → Prop
  | refl (c : Cfg) : Steps P code c c
  | step (D : Nat) {pc : Nat} {fr : Frame} {g : Globals} {pc' : Nat} {fr' : Frame} {g' : Globals}
      {c'' : Cfg} :
      stepI (callD P D) code pc fr g = .next pc' fr' g' → Steps P code (pc', fr', g') c'' →
      Steps P code (pc, fr, g) c''

theorem Steps.trans {P : Program} {code : List Instr} {a b c : Cfg}
    (h1 : Steps P code a b) (h2 : Steps P code b c) : Steps P code a c := by
  induction h1 with
  | refl _ => exact h2
  | step D hs _ ih => exact .step D hs (ih h2)

theorem Steps.one {P : Program} {code : List Instr} (D : Nat) {pc : Nat} {fr : Frame} {g : Globals}
    {pc' : Nat} {fr' : Frame} {g' : Globals}
    (h : stepI (callD P D) code pc fr g = .next pc' fr' g') :
    Steps P code (pc, fr, g) (pc', fr', g') :=
  .step D h (.refl _)

/-- The function returns `v` from configuration `c` (globals `G`, final argument list `A`). -/
def Returns (P : Program) (code : List Instr) (c : Cfg) (v : Val) (G : Globals) (A : List Val) : Prop :=
  ∃ pc fr g D, Steps P code c (pc, fr, g) ∧ stepI (callD P D) code pc fr g = .ret v G A

theorem run_of_steps {P : Program} {fn : Func} {c c' : Cfg} (hs : Steps P fn.code c c')
    {f : Nat} {v : Val} {G : Globals} {A : List Val}
    (hr : run P f fn c'.1 c'.2.1 c'.2.2 = .done v G A) :
    ∃ f', run P f' fn c.1 c.2.1 c.2.2 = .done v G A := by
  induction hs with
  | refl _ => exact ⟨f, hr⟩
  | @step D pc fr g pc' fr' g' c'' hstep _ ih =>
    obtain ⟨f1, h1⟩ := ih hr
    refine ⟨max D f1 + 1, ?_⟩
    rw [run_succ]
    have := stepI_extends (callD_extends P (Nat.le_max_left D f1)) _ _ _ _ _ hstep rfl
    simp only [this]
    exact run_mono P _ _ _ _ _ _ _ _ h1 _ (Nat.le_max_right D f1)

theorem run_of_returns {P : Program} {fn : Func} {c : Cfg} {v : Val} {G : Globals} {A : List Val}
    (h : Returns P fn.code c v G A) : ∃ f, run P f fn c.1 c.2.1 c.2.2 = .done v G A := by
  obtain ⟨pc, fr, g, D, hs, hret⟩ := h
  have : run P (D + 1) fn pc fr g = .done v G A := by
    rw [run_succ]; simp only [hret]
  exact run_of_steps hs (f := D + 1) this

theorem Returns.of_steps {P : Program} {code : List Instr} {c c' : Cfg} {v : Val} {G : Globals}
    {A : List Val} (hs : Steps P code c c') (h : Returns P code c' v G A) : Returns P code c v G A := by
  obtain ⟨pc, fr, g, D, hs', hret⟩ := h
  exact ⟨pc, fr, g, D, hs.trans hs', hret⟩

end VM
end Nsl
