import Nsl.Proofs.IRTypeStep2
import Nsl.Proofs.VMSteps
/-!
# IR typing: soundness of the checker for whole executions (induction on the fuel)
-/
namespace Nsl
namespace IRType
open VM

/-- the invariant at a position: arrived by a jump, or inside a block (then the position exists unless the function is
`void`) -/
def InvAt (cx : Ctx) (pc : Nat) (fr : Frame) (g : Globals) : Prop :=
  JumpOK cx pc fr g ∨
    (InvBody cx (stateAt cx pc) fr g ∧ (cx.code[pc]? ≠ none ∨ tyBeq cx.ret .void = true))

/-- what a (partial) run of a checked function ends in -/
def ResOK (strict : Bool) (P : Program) (ret : ITy) : Res → Prop
  | .done v g' _ => valOK ret v = true ∧ GlobalsOK P.globals g'
  | .fail e => okErr strict e

theorem okErr_timeout (strict : Bool) : okErr strict .timeout := fun _ h => by cases h

/-- one step from a state satisfying the invariant -/
theorem stepAt {cx : Ctx} {callf : String → List Val → Globals → Res} (hchk : checkCode cx {} cx.code = true)
    (hcall : CallSpec cx callf) {pc : Nat} {fr : Frame} {g : Globals} (hinv : InvAt cx pc fr g) :
    match stepI callf cx.code pc fr g with
    | .next pc' fr' g' => InvAt cx pc' fr' g'
    | .ret v g' _ => valOK cx.ret v = true ∧ GlobalsOK cx.P.globals g'
    | .fail e => okErr cx.strict e := by
  rcases hinv with ⟨l, d, hc, hd, hv⟩ | ⟨hb, hbound⟩
  · obtain ⟨hs, hi⟩ := step_label_jump (callf := callf) hc hd hv (stateAt cx pc)
    rw [hs]
    refine Or.inr ⟨by rw [stateAt_succ hc]; exact hi, ?_⟩
    rcases (checkCode_at hchk hc).2 with h | h | h
    · rw [stateAt_succ hc, hi.live] at h; cases h
    · exact Or.inr h
    · exact Or.inl h
  · cases hc : cx.code[pc]? with
    | none =>
      have hvoid : tyBeq cx.ret .void = true := by
        rcases hbound with h | h
        · exact absurd hc h
        · exact h
      simp only [stepI, hc]
      rw [tyBeq_eq _ _ hvoid]
      exact ⟨(valOK_void _).2 rfl, hb.vars.globals⟩
    | some ins =>
      obtain ⟨hok, hend⟩ := checkCode_at hchk hc
      have hrule : ruleOK cx (stateAt cx pc) ins = true := by
        simpa [instrOK, hb.live] using hok
      have hpost := step_sound hcall hc hb hrule
      cases hst : stepI callf cx.code pc fr g with
      | next pc' fr' g' =>
        rw [hst] at hpost
        rcases hpost with ⟨rfl, _, hi⟩ | hj
        · refine Or.inr ⟨by rw [stateAt_succ hc]; exact hi, ?_⟩
          rcases hend with h | h | h
          · rw [stateAt_succ hc, hi.live] at h; cases h
          · exact Or.inr h
          · exact Or.inl h
        · exact Or.inl hj
      | ret v g' as => rw [hst] at hpost; exact hpost
      | fail e => rw [hst] at hpost; exact hpost

theorem inv_entry {cx : Ctx} {args : List Val} {g : Globals} (hcode : (!cx.code.isEmpty || tyBeq cx.ret .void) = true)
    (hargs : valsOK (cx.params.map (·.2)) args = true) (hg : GlobalsOK cx.P.globals g) :
    InvAt cx 0 { args := args } g := by
  refine Or.inr ⟨⟨rfl, ?_, ⟨?_, valsOK_args hargs, hg⟩⟩, ?_⟩
  · intro r ri h; simp [stateAt] at h
  · intro n T h; simp [stateAt] at h
  · simp only [Bool.or_eq_true, Bool.not_eq_true', List.isEmpty_eq_false_iff] at hcode
    rcases hcode with h | h
    · left
      cases hcd : cx.code with
      | nil => exact absurd hcd h
      | cons a rest => simp
    · exact Or.inr h

/-- every function of `P` passes the check with some certificate -/
def ProgOK (strict : Bool) (P : Program) : Prop := ∀ f ∈ P.funcs, ∃ D, checkFnWith strict P f D = true

theorem run_sound {strict : Bool} {P : Program} (hP : ProgOK strict P) : ∀ (fuel : Nat) (f : Func) (D : Cert),
    checkFnWith strict P f D = true → ∀ (pc : Nat) (fr : Frame) (g : Globals),
    InvAt (mkCtx strict P f D) pc fr g → ResOK strict P f.ret (run P fuel f pc fr g) := by
  intro fuel
  induction fuel with
  | zero =>
    intro f D _ pc fr g _
    rw [run_zero]
    exact okErr_timeout strict
  | succ fuel ih =>
    intro f D hf pc fr g hinv
    have hchk : checkCode (mkCtx strict P f D) {} f.code = true := by
      simp only [checkFnWith, Bool.and_eq_true] at hf
      exact hf.2
    have hcall : CallSpec (mkCtx strict P f D) (callD P fuel) := by
      intro name args g0 callee hfind hargs hg0
      have hfind' : P.find name = some callee := hfind
      simp only [callD, hfind']
      have hmem : callee ∈ P.funcs := List.mem_of_find?_eq_some hfind'
      obtain ⟨Dc, hDc⟩ := hP callee hmem
      have hentry : InvAt (mkCtx strict P callee Dc) 0 { args := args } g0 := by
        simp only [checkFnWith, Bool.and_eq_true] at hDc
        exact inv_entry hDc.1 hargs hg0
      have := ih callee Dc hDc 0 { args := args } g0 hentry
      cases hr : run P fuel callee 0 { args := args } g0 with
      | done v g' as => rw [hr] at this; exact this
      | fail e => rw [hr] at this; exact this
    have hstep := stepAt (cx := mkCtx strict P f D) hchk hcall hinv
    rw [run_succ]
    cases hst : stepI (callD P fuel) f.code pc fr g with
    | next pc' fr' g' =>
      have hst' : stepI (callD P fuel) (mkCtx strict P f D).code pc fr g = .next pc' fr' g' := hst
      rw [hst'] at hstep
      exact ih f D hf pc' fr' g' hstep
    | ret v g' as =>
      have hst' : stepI (callD P fuel) (mkCtx strict P f D).code pc fr g = .ret v g' as := hst
      rw [hst'] at hstep
      exact hstep
    | fail e =>
      have hst' : stepI (callD P fuel) (mkCtx strict P f D).code pc fr g = .fail e := hst
      rw [hst'] at hstep
      exact hstep

theorem progOK_of_check {strict : Bool} {P : Program} (h : irTypeCheckG strict P = true) : ProgOK strict P := by
  intro f hf
  exact ⟨inferD f.code, List.all_eq_true.1 h f hf⟩

/-- Soundness of the checker: a checked program, started on typed arguments and globals, returns a value of the
function's return type and leaves typed globals, or fails with an admissible error. -/
theorem invoke_sound {strict : Bool} {P : Program} (hP : irTypeCheckG strict P = true) (fuel : Nat) (name : String)
    (args : List Val) (g : Globals) (f : Func) (hf : P.find name = some f)
    (hargs : valsOK (f.params.map (·.2)) args = true) (hg : GlobalsOK P.globals g) :
    ResOK strict P f.ret (invoke P fuel name args g) := by
  have hok := progOK_of_check hP
  have hmem : f ∈ P.funcs := List.mem_of_find?_eq_some hf
  obtain ⟨D, hD⟩ := hok f hmem
  simp only [invoke, hf]
  have hD' := hD
  simp only [checkFnWith, Bool.and_eq_true] at hD'
  exact run_sound hok fuel f D hD 0 { args := args } g (inv_entry (cx := mkCtx strict P f D) hD'.1 hargs hg)

end IRType
end Nsl
