import Nsl.Proofs.VecBase
import Nsl.Props.C04
/-!
# Vector core, part 2: typing of the vector/matrix operations; the store shuffle is `swizzleStore`
-/
set_option linter.unusedSimpArgs false
namespace Nsl
namespace Vec
open Core VM CoreSem Lower Sim

/-! ## Matrix products, row-wise operations, casts -/

theorem matMulRow_typed (row m1 : List Val) : ∀ (js : List Nat) (zs : List Val), matMulRow row m1 js = .ok zs →
    zs.length = js.length ∧ ∀ z ∈ zs, isAtom z = true := by
  intro js
  induction js with
  | nil => intro zs h; simp [matMulRow] at h; subst h; simp
  | cons j jr ih =>
    intro zs h
    simp only [matMulRow, bind, Except.bind] at h
    cases hc : column m1 j with
    | error e => simp [hc] at h
    | ok col =>
      simp only [hc] at h
      cases hd : dotFrom (.int 0) row col with
      | error e => simp [hd] at h
      | ok x =>
        simp only [hd] at h
        cases hr : matMulRow row m1 jr with
        | error e => simp [hr] at h
        | ok rest =>
          simp only [hr, Except.ok.injEq] at h
          subst h
          obtain ⟨hl, ha⟩ := ih rest hr
          refine ⟨by simp [hl], ?_⟩
          intro w hw
          rcases List.mem_cons.1 hw with rfl | hw
          · exact dotFrom_atom _ _ _ _ rfl hd
          · exact ha w hw

theorem matMulGo_typed (c : Nat) (m1 : List Val) : ∀ (l zs : List Val), matMul.go c m1 l = .ok zs →
    zs.length = l.length ∧ ∀ z ∈ zs, fitsVec c z = true := by
  intro l
  induction l with
  | nil => intro zs h; simp [matMul.go] at h; subst h; simp
  | cons x xr ih =>
    intro zs h
    simp only [matMul.go, bind, Except.bind] at h
    cases hc : asList x with
    | error e => simp [hc] at h
    | ok row =>
      simp only [hc] at h
      cases hd : matMulRow row m1 (List.range c) with
      | error e => simp [hd] at h
      | ok y =>
        simp only [hd] at h
        cases hr : matMul.go c m1 xr with
        | error e => simp [hr] at h
        | ok rest =>
          simp only [hr, Except.ok.injEq] at h
          subst h
          obtain ⟨hl, ha⟩ := ih rest hr
          obtain ⟨hyl, hya⟩ := matMulRow_typed row m1 _ _ hd
          refine ⟨by simp [hl], ?_⟩
          intro w hw
          rcases List.mem_cons.1 hw with rfl | hw
          · exact fitsVec_mk (by simpa using hyl) hya
          · exact ha w hw

theorem matMulVec_typed (v : List Val) : ∀ (m zs : List Val), matMulVec m v = .ok zs →
    zs.length = m.length ∧ ∀ z ∈ zs, isAtom z = true := by
  intro m
  induction m with
  | nil => intro zs h; simp [matMulVec] at h; subst h; simp
  | cons x xr ih =>
    intro zs h
    simp only [matMulVec, bind, Except.bind] at h
    cases hc : asList x with
    | error e => simp [hc] at h
    | ok row =>
      simp only [hc] at h
      cases hd : dotFrom (.int 0) row v with
      | error e => simp [hd] at h
      | ok y =>
        simp only [hd] at h
        cases hr : matMulVec xr v with
        | error e => simp [hr] at h
        | ok rest =>
          simp only [hr, Except.ok.injEq] at h
          subst h
          obtain ⟨hl, ha⟩ := ih rest hr
          refine ⟨by simp [hl], ?_⟩
          intro w hw
          rcases List.mem_cons.1 hw with rfl | hw
          · exact dotFrom_atom _ _ _ _ rfl hd
          · exact ha w hw

theorem rowsZip_typed (o : SOp) (it : Bool) (c : Nat) : ∀ (xs ys zs : List Val),
    (∀ x ∈ xs, fitsVec c x = true) → (∀ y ∈ ys, fitsVec c y = true) → rowsZip o it xs ys = .ok zs →
    zs.length = min xs.length ys.length ∧ ∀ z ∈ zs, fitsVec c z = true := by
  intro xs
  induction xs with
  | nil => intro ys zs _ _ h; simp [rowsZip] at h; subst h; simp
  | cons x xr ih =>
    intro ys zs hx hy h
    cases ys with
    | nil => simp [rowsZip] at h; subst h; simp
    | cons y yr =>
      obtain ⟨xl, rfl, hxl, _⟩ := fitsVec_inv (hx x (List.mem_cons_self ..))
      obtain ⟨yl, rfl, hyl, _⟩ := fitsVec_inv (hy y (List.mem_cons_self ..))
      simp only [rowsZip, asList, bind, Except.bind] at h
      cases hz : zipBin o it xl yl with
      | error e => simp [hz] at h
      | ok z =>
        simp only [hz] at h
        cases hr : rowsZip o it xr yr with
        | error e => simp [hr] at h
        | ok rest =>
          simp only [hr, Except.ok.injEq] at h
          subst h
          obtain ⟨hl, ha⟩ := ih yr rest (fun a ha => hx a (List.mem_cons_of_mem _ ha))
            (fun a ha => hy a (List.mem_cons_of_mem _ ha)) hr
          obtain ⟨hzl, hza⟩ := zipBin_typed o it _ _ _ hz
          refine ⟨by simp [hl], ?_⟩
          intro w hw
          rcases List.mem_cons.1 hw with rfl | hw
          · exact fitsVec_mk (by omega) hza
          · exact ha w hw

theorem rowsMapR_typed (o : SOp) (it : Bool) (s : Val) (c : Nat) : ∀ (xs zs : List Val),
    (∀ x ∈ xs, fitsVec c x = true) → rowsMapR o it s xs = .ok zs →
    zs.length = xs.length ∧ ∀ z ∈ zs, fitsVec c z = true := by
  intro xs
  induction xs with
  | nil => intro zs _ h; simp [rowsMapR] at h; subst h; simp
  | cons x xr ih =>
    intro zs hx h
    obtain ⟨xl, rfl, hxl, _⟩ := fitsVec_inv (hx x (List.mem_cons_self ..))
    simp only [rowsMapR, asList, bind, Except.bind] at h
    cases hz : mapBinR o it s xl with
    | error e => simp [hz] at h
    | ok z =>
      simp only [hz] at h
      cases hr : rowsMapR o it s xr with
      | error e => simp [hr] at h
      | ok rest =>
        simp only [hr, Except.ok.injEq] at h
        subst h
        obtain ⟨hl, ha⟩ := ih rest (fun a ha => hx a (List.mem_cons_of_mem _ ha)) hr
        obtain ⟨hzl, hza⟩ := mapBinR_typed o it s _ _ hz
        refine ⟨by simp [hl], ?_⟩
        intro w hw
        rcases List.mem_cons.1 hw with rfl | hw
        · exact fitsVec_mk (by omega) hza
        · exact ha w hw

theorem castList_typed (s : Sc) : ∀ (xs ys : List Val), castList s xs = .ok ys →
    ys.length = xs.length ∧ ∀ y ∈ ys, isAtom y = true := by
  intro xs
  induction xs with
  | nil => intro ys h; simp [castList] at h; subst h; simp
  | cons x xr ih =>
    intro ys h
    simp only [castList, bind, Except.bind] at h
    cases hz : castScalar s x with
    | error e => simp [hz] at h
    | ok z =>
      simp only [hz] at h
      cases hr : castList s xr with
      | error e => simp [hr] at h
      | ok rest =>
        simp only [hr, Except.ok.injEq] at h
        subst h
        obtain ⟨hl, ha⟩ := ih rest hr
        refine ⟨by simp [hl], ?_⟩
        intro w hw
        rcases List.mem_cons.1 hw with rfl | hw
        · exact castScalar_atom hz
        · exact ha w hw

theorem castRows_typed (s : Sc) (c : Nat) : ∀ (xs ys : List Val), (∀ x ∈ xs, fitsVec c x = true) →
    castRows s xs = .ok ys → ys.length = xs.length ∧ ∀ y ∈ ys, fitsVec c y = true := by
  intro xs
  induction xs with
  | nil => intro ys _ h; simp [castRows] at h; subst h; simp
  | cons x xr ih =>
    intro ys hx h
    obtain ⟨xl, rfl, hxl, _⟩ := fitsVec_inv (hx x (List.mem_cons_self ..))
    simp only [castRows, asList, bind, Except.bind] at h
    cases hz : castList s xl with
    | error e => simp [hz] at h
    | ok z =>
      simp only [hz] at h
      cases hr : castRows s xr with
      | error e => simp [hr] at h
      | ok rest =>
        simp only [hr, Except.ok.injEq] at h
        subst h
        obtain ⟨hl, ha⟩ := ih rest (fun a ha => hx a (List.mem_cons_of_mem _ ha)) hr
        obtain ⟨hzl, hza⟩ := castList_typed s _ _ hz
        refine ⟨by simp [hl], ?_⟩
        intro w hw
        rcases List.mem_cons.1 hw with rfl | hw
        · exact fitsVec_mk (by omega) hza
        · exact ha w hw

theorem castExec_typed {ty et : ITy} {a z : Val} (hok : okCast ty et = true) (ha : fits (shape et) a = true)
    (h : castExec ty a = .ok z) : fits (shape ty) z = true := by
  cases ty with
  | sc s => simp only [castExec] at h; exact castScalar_atom h
  | vec s n =>
    simp only [okCast, beq_iff_eq] at hok
    rw [← hok, shape, fits_vec] at ha
    obtain ⟨xs, rfl, hl, _⟩ := fitsVec_inv ha
    simp only [castExec, asList, bind, Except.bind] at h
    cases hz : castList s xs with
    | error e => simp [hz] at h
    | ok ys =>
      simp only [hz, Except.ok.injEq] at h
      subst h
      obtain ⟨hyl, hya⟩ := castList_typed s _ _ hz
      rw [shape, fits_vec]
      exact fitsVec_mk (by omega) hya
  | mat s r c =>
    simp only [okCast, beq_iff_eq] at hok
    rw [← hok, shape] at ha
    obtain ⟨xs, rfl, hl, hrows⟩ := fits_mat_inv ha
    simp only [castExec, asList, bind, Except.bind] at h
    cases hz : castRows s xs with
    | error e => simp [hz] at h
    | ok ys =>
      simp only [hz, Except.ok.injEq] at h
      subst h
      obtain ⟨hyl, hya⟩ := castRows_typed s c _ _ hrows hz
      exact fits_mat_mk (by omega) hya
  | arr e d => simp [okCast] at hok
  | struct n f => simp [okCast] at hok
  | void => simp [okCast] at hok

/-! ## The accepted operator/type combinations -/

inductive BinCase (op : BOp) : ITy → ITy → ITy → Prop
  | sss (s1 s2 s3 : Sc) : BinCase op (.sc s3) (.sc s1) (.sc s2)
  | vvv (s1 s2 s3 : Sc) (n : Nat) : BinCase op (.vec s3 n) (.vec s1 n) (.vec s2 n)
  | vsv (s1 s2 s3 : Sc) (n : Nat) (h : op = .mul ∨ op = .div) : BinCase op (.vec s3 n) (.vec s1 n) (.sc s2)
  | svv (s1 s2 s3 : Sc) (n : Nat) (h : op = .mul) : BinCase op (.vec s3 n) (.sc s1) (.vec s2 n)
  | mmMul (s1 s2 s3 : Sc) (r k c : Nat) (h : op = .mul) : BinCase op (.mat s3 r c) (.mat s1 r k) (.mat s2 k c)
  | mmRow (s1 s2 s3 : Sc) (r c : Nat) (h : op ≠ .mul) : BinCase op (.mat s3 r c) (.mat s1 r c) (.mat s2 r c)
  | mv (s1 s2 s3 : Sc) (r c : Nat) (h : op = .mul) : BinCase op (.vec s3 r) (.mat s1 r c) (.vec s2 c)
  | ms (s1 s2 s3 : Sc) (r c : Nat) (h : op = .mul ∨ op = .div) : BinCase op (.mat s3 r c) (.mat s1 r c) (.sc s2)
  | sm (s1 s2 s3 : Sc) (r c : Nat) (h : op = .mul) : BinCase op (.mat s3 r c) (.sc s1) (.mat s2 r c)

theorem okBin_cases {op : BOp} {ty lt rt : ITy} (h : okBin op ty lt rt = true) : BinCase op ty lt rt := by
  by_cases hop : op = .mul
  · subst hop
    cases lt <;> cases rt <;> cases ty <;> simp [okBin, okBinSh, shape] at h
    all_goals first
      | exact .sss _ _ _
      | (obtain ⟨rfl, rfl⟩ := h; exact .vvv _ _ _ _)
      | (subst h; exact .vsv _ _ _ _ (Or.inl rfl))
      | (subst h; exact .svv _ _ _ _ rfl)
      | (obtain ⟨⟨rfl, rfl⟩, rfl⟩ := h; exact .mmMul _ _ _ _ _ _ rfl)
      | (obtain ⟨rfl, rfl⟩ := h; exact .mv _ _ _ _ _ rfl)
      | (obtain ⟨rfl, rfl⟩ := h; exact .ms _ _ _ _ _ (Or.inl rfl))
      | (obtain ⟨rfl, rfl⟩ := h; exact .sm _ _ _ _ _ rfl)
  · cases lt <;> cases rt <;> cases ty <;> simp [okBin, okBinSh, shape, hop] at h
    all_goals first
      | exact .sss _ _ _
      | (obtain ⟨rfl, rfl⟩ := h; exact .vvv _ _ _ _)
      | (obtain ⟨rfl, hd⟩ := h; exact .vsv _ _ _ _ (Or.inr hd))
      | (obtain ⟨⟨⟨rfl, rfl⟩, rfl⟩, rfl⟩ := h; exact .mmRow _ _ _ _ _ hop)
      | (obtain ⟨⟨hd, rfl⟩, rfl⟩ := h; exact .ms _ _ _ _ _ (Or.inr hd))

/-- Typing of the reference semantics of binary operators. -/
theorem binSem_typed {op : BOp} {ty lt rt : ITy} {a b z : Val} (hok : BinCase op ty lt rt)
    (ha : fits (shape lt) a = true) (hb : fits (shape rt) b = true) (h : binSem op ty lt rt a b = .ok z) :
    fits (shape ty) z = true := by
  cases hok with
  | sss s1 s2 s3 =>
    simp only [binSem, ITy.isScalar, Bool.and_self, if_true] at h
    exact scalarBin_atom h
  | vvv s1 s2 s3 n =>
    rw [shape, fits_vec] at ha hb
    obtain ⟨xs, rfl, hxl, _⟩ := fitsVec_inv ha
    obtain ⟨ys, rfl, hyl, _⟩ := fitsVec_inv hb
    simp only [binSem, ITy.isScalar, ITy.isVector, asList, bind, Except.bind, Bool.and_self, Bool.false_and,
      Bool.false_eq_true, if_false, if_true] at h
    cases hz : zipBin op.toSOp (scIsInt (.vec s3 n)) xs ys with
    | error e => simp [hz] at h
    | ok zs =>
      simp only [hz, Except.ok.injEq] at h
      subst h
      obtain ⟨hl, hat⟩ := zipBin_typed _ _ _ _ _ hz
      rw [shape, fits_vec]
      exact fitsVec_mk (by omega) hat
  | vsv s1 s2 s3 n hop =>
    rw [shape, fits_vec] at ha
    obtain ⟨xs, rfl, hxl, _⟩ := fitsVec_inv ha
    have hop' : (op == .mul || op == .div) = true := by rcases hop with rfl | rfl <;> rfl
    simp only [binSem, ITy.isScalar, ITy.isVector, asList, bind, Except.bind, Bool.and_self, Bool.false_and,
      Bool.and_false, Bool.true_and, Bool.false_eq_true, if_false, hop', if_true] at h
    cases hz : mapBinR op.toSOp (scIsInt (.vec s3 n)) b xs with
    | error e => simp [hz] at h
    | ok zs =>
      simp only [hz, Except.ok.injEq] at h
      subst h
      obtain ⟨hl, hat⟩ := mapBinR_typed _ _ _ _ _ hz
      rw [shape, fits_vec]
      exact fitsVec_mk (by omega) hat
  | svv s1 s2 s3 n hop =>
    subst hop
    rw [shape, fits_vec] at hb
    obtain ⟨ys, rfl, hyl, _⟩ := fitsVec_inv hb
    simp only [binSem, ITy.isScalar, ITy.isVector, asList, bind, Except.bind, Bool.and_self, Bool.false_and,
      Bool.and_false, Bool.true_and, Bool.false_eq_true, if_false, if_true, beq_self_eq_true] at h
    cases hz : mapBinR BOp.mul.toSOp (scIsInt (.vec s3 n)) a ys with
    | error e => simp [hz] at h
    | ok zs =>
      simp only [hz, Except.ok.injEq] at h
      subst h
      obtain ⟨hl, hat⟩ := mapBinR_typed _ _ _ _ _ hz
      rw [shape, fits_vec]
      exact fitsVec_mk (by omega) hat
  | mmMul s1 s2 s3 r k c hop =>
    subst hop
    obtain ⟨xs, rfl, hxl, _⟩ := fits_mat_inv ha
    obtain ⟨ys, rfl, hyl, _⟩ := fits_mat_inv hb
    simp only [binSem, ITy.isScalar, ITy.isVector, ITy.isMatrix, asList, bind, Except.bind, Bool.and_self,
      Bool.false_and, Bool.and_false, Bool.true_and, Bool.false_eq_true, if_false, if_true, beq_self_eq_true,
      matMul] at h
    cases hz : matMul.go c ys xs with
    | error e => simp [hz] at h
    | ok zs =>
      simp only [hz, Except.ok.injEq] at h
      subst h
      obtain ⟨hl, hat⟩ := matMulGo_typed _ _ _ _ hz
      exact fits_mat_mk (by omega) hat
  | mmRow s1 s2 s3 r c hop =>
    obtain ⟨xs, rfl, hxl, hxr⟩ := fits_mat_inv ha
    obtain ⟨ys, rfl, hyl, hyr⟩ := fits_mat_inv hb
    have hop' : (op == .mul) = false := by simpa using hop
    simp only [binSem, ITy.isScalar, ITy.isVector, ITy.isMatrix, asList, bind, Except.bind, Bool.and_self,
      Bool.false_and, Bool.and_false, Bool.true_and, Bool.false_eq_true, if_false, if_true, hop'] at h
    cases hz : rowsZip op.toSOp (scIsInt (.mat s3 r c)) xs ys with
    | error e => simp [hz] at h
    | ok zs =>
      simp only [hz, Except.ok.injEq] at h
      subst h
      obtain ⟨hl, hat⟩ := rowsZip_typed _ _ c _ _ _ hxr hyr hz
      exact fits_mat_mk (by omega) hat
  | mv s1 s2 s3 r c hop =>
    subst hop
    obtain ⟨xs, rfl, hxl, _⟩ := fits_mat_inv ha
    rw [shape, fits_vec] at hb
    obtain ⟨ys, rfl, hyl, _⟩ := fitsVec_inv hb
    simp only [binSem, ITy.isScalar, ITy.isVector, ITy.isMatrix, asList, bind, Except.bind, Bool.and_self,
      Bool.false_and, Bool.and_false, Bool.true_and, Bool.false_eq_true, if_false, if_true, beq_self_eq_true] at h
    cases hz : matMulVec xs ys with
    | error e => simp [hz] at h
    | ok zs =>
      simp only [hz, Except.ok.injEq] at h
      subst h
      obtain ⟨hl, hat⟩ := matMulVec_typed _ _ _ hz
      rw [shape, fits_vec]
      exact fitsVec_mk (by omega) hat
  | ms s1 s2 s3 r c hop =>
    obtain ⟨xs, rfl, hxl, hxr⟩ := fits_mat_inv ha
    have hop' : (op == .mul || op == .div) = true := by rcases hop with rfl | rfl <;> rfl
    simp only [binSem, ITy.isScalar, ITy.isVector, ITy.isMatrix, asList, bind, Except.bind, Bool.and_self,
      Bool.false_and, Bool.and_false, Bool.true_and, Bool.false_eq_true, if_false, if_true, hop'] at h
    cases hz : rowsMapR op.toSOp (scIsInt (.mat s3 r c)) b xs with
    | error e => simp [hz] at h
    | ok zs =>
      simp only [hz, Except.ok.injEq] at h
      subst h
      obtain ⟨hl, hat⟩ := rowsMapR_typed _ _ _ c _ _ hxr hz
      exact fits_mat_mk (by omega) hat
  | sm s1 s2 s3 r c hop =>
    subst hop
    obtain ⟨ys, rfl, hyl, hyr⟩ := fits_mat_inv hb
    simp only [binSem, ITy.isScalar, ITy.isVector, ITy.isMatrix, asList, bind, Except.bind, Bool.and_self,
      Bool.false_and, Bool.and_false, Bool.true_and, Bool.false_eq_true, if_false, if_true, beq_self_eq_true] at h
    cases hz : rowsMapR BOp.mul.toSOp (scIsInt (.mat s3 r c)) a ys with
    | error e => simp [hz] at h
    | ok zs =>
      simp only [hz, Except.ok.injEq] at h
      subst h
      obtain ⟨hl, hat⟩ := rowsMapR_typed _ _ _ c _ _ hyr hz
      exact fits_mat_mk (by omega) hat

end Vec
end Nsl
