import Nsl.Model.Names
import Nsl.Proofs.Names

/-! Helper lemmas for C12, stage 2: the flat dictionary against the lexical scope chain. -/

namespace Nsl.Names

open Spec

/-! ### Lookups -/

theorem lookup_cons_ne {x y : String} {t : Tag} {sc : Scope} (h : y ≠ x) :
    List.lookup y ((x, t) :: sc) = List.lookup y sc := by
  have : (y == x) = false := by simp [h]
  simp [List.lookup, this]

theorem lookup_cons_self {x : String} {t : Tag} {sc : Scope} :
    List.lookup x ((x, t) :: sc) = some t := by
  simp [List.lookup]

theorem lookupChain_nil_cons (r : List Scope) (x : String) :
    lookupChain ([] :: r) x = lookupChain r x := by
  simp [lookupChain, List.lookup]

theorem lookupChain_bind_self (x : String) (t : Tag) (sc : Scope) (r : List Scope) :
    lookupChain (((x, t) :: sc) :: r) x = some t := by
  simp [lookupChain]

theorem lookupChain_bind_ne {x y : String} (t : Tag) (sc : Scope) (r : List Scope) (h : y ≠ x) :
    lookupChain (((x, t) :: sc) :: r) y = lookupChain (sc :: r) y := by
  simp [lookupChain, lookup_cons_ne h]

theorem lookupFlat_bind_self (P G : Scope) (x : String) (t : Tag) (d : Scope) :
    lookupFlat P G ((x, t) :: d) x = some t := by
  simp [lookupFlat]

theorem lookupFlat_bind_ne (P G : Scope) {x y : String} (t : Tag) (d : Scope) (h : y ≠ x) :
    lookupFlat P G ((x, t) :: d) y = lookupFlat P G d y := by
  simp [lookupFlat, lookup_cons_ne h]

theorem lookupFlat_congr (P G : Scope) {d d' : Scope} {y : String}
    (h : List.lookup y d' = List.lookup y d) : lookupFlat P G d' y = lookupFlat P G d y := by
  simp [lookupFlat, h]

theorem tagScope_lookup_mem (mk : Nat → Tag) (xs : List String) :
    ∀ i x t, List.lookup x (tagScope mk i xs) = some t → x ∈ xs := by
  induction xs with
  | nil => intro i x t h; simp [tagScope] at h
  | cons y ys ih =>
    intro i x t h
    by_cases hxy : x = y
    · simp [hxy]
    · rw [tagScope, lookup_cons_ne hxy] at h
      exact List.mem_cons_of_mem _ (ih _ _ _ h)

theorem tagScope_lookup_isSome (mk : Nat → Tag) (xs : List String) :
    ∀ i x, x ∈ xs → (List.lookup x (tagScope mk i xs)).isSome = true := by
  induction xs with
  | nil => intro i x h; simp at h
  | cons y ys ih =>
    intro i x h
    by_cases hxy : x = y
    · subst hxy; simp [tagScope]
    · rw [tagScope, lookup_cons_ne hxy]
      exact ih _ _ (by simpa [hxy] using h)

/-! ### Refinement of traces -/

theorem Refines.append : ∀ {l f l' f' : List Event},
    Refines l f → Refines l' f' → Refines (l ++ l') (f ++ f') := by
  intro l
  induction l with
  | nil =>
    intro f l' f' h h'
    cases f with
    | nil => simpa using h'
    | cons b f => simp [Refines] at h
  | cons a l ih =>
    intro f l' f' h h'
    cases f with
    | nil => simp [Refines] at h
    | cons b f =>
      obtain ⟨u, d⟩ := a
      obtain ⟨u', d'⟩ := b
      simp only [Refines, List.cons_append] at h ⊢
      exact ⟨h.1, h.2.1, ih h.2.2 h'⟩

theorem Refines.eq_of_allSome : ∀ {l f : List Event},
    Refines l f → (∀ e ∈ l, e.2.isSome = true) → f = l := by
  intro l
  induction l with
  | nil =>
    intro f h _
    cases f with
    | nil => rfl
    | cons b f => simp [Refines] at h
  | cons a l ih =>
    intro f h hs
    cases f with
    | nil => simp [Refines] at h
    | cons b f =>
      obtain ⟨u, d⟩ := a
      obtain ⟨u', d'⟩ := b
      simp only [Refines] at h
      obtain ⟨rfl, hd, hr⟩ := h
      have h1 := hs (u, d) (by simp)
      have h2 := ih hr (fun e he => hs e (List.mem_cons_of_mem _ he))
      rcases hd with hd | hd
      · simp [hd] at h1
      · simp [hd, h2]

/-! ### Frame: the flat run of an accepted statement never rebinds a visible name -/

def Frame (V : List String) (f : St Scope → St Scope) : Prop :=
  ∀ st y, y ∈ V → List.lookup y (f st).env = List.lookup y st.env

theorem Frame.comp {V f g} (hf : Frame V f) (hg : Frame V g) : Frame V (fun st => g (f st)) :=
  fun st y hy => (hg (f st) y hy).trans (hf st y hy)

theorem Frame.mono {V V' f} (h : ∀ x, x ∈ V' → x ∈ V) (hf : Frame V f) : Frame V' f :=
  fun st y hy => hf st y (h y hy)

theorem Frame.iter {V f} (hf : Frame V f) : ∀ n, Frame V (iter f n) := by
  intro n
  induction n with
  | zero => intro st y _; rfl
  | succ n ih => intro st y hy; simp only [Names.iter]; exact (ih (f st) y hy).trans (hf st y hy)

theorem Frame.withOracle {V} {f : Nat → St Scope → St Scope} (hf : ∀ c, Frame V (f c)) :
    Frame V (withOracle f) := by
  intro st y hy
  unfold Names.withOracle
  split
  · exact hf 0 st y hy
  · exact hf _ _ y hy

theorem Frame.bind {V x t} (hx : x ∉ V) : Frame V (bindFlat x t) := by
  intro st y hy
  have : y ≠ x := fun h => hx (h ▸ hy)
  simp [bindFlat, lookup_cons_ne this]

theorem runF_frame (P G : Scope) (s : S) : ∀ k V, ok V s = true → Frame V (runF P G s k) := by
  induction s with
  | decl x =>
    intro k V h
    simp only [ok, Bool.not_eq_true', List.contains_eq_mem, decide_eq_false_iff_not] at h
    exact Frame.bind h
  | use x => intro k V _ st y _; rfl
  | skip => intro k V _ st y _; rfl
  | seq a b iha ihb =>
    intro k V h
    simp only [ok, Bool.and_eq_true] at h
    show Frame V (fun st => runF P G b (k + size a) (runF P G a k st))
    exact Frame.comp (iha k V h.1)
      (Frame.mono (fun x hx => List.mem_append_left _ hx) (ihb (k + size a) _ h.2))
  | block s ih => intro k V h; exact ih k V h
  | ite t e iht ihe =>
    intro k V h
    simp only [ok, Bool.and_eq_true] at h
    have he := ok_mono e _ V (fun x hx => List.mem_append_left _ hx) h.2
    simp only [runF]
    apply Frame.withOracle
    intro c
    split
    · exact ihe _ V he
    · exact iht _ V h.1
  | forL i b ih =>
    intro k V h
    cases i with
    | none =>
      simp only [ok] at h
      simp only [runF]
      exact Frame.withOracle fun n => Frame.iter (ih _ V h) n
    | some i =>
      simp only [ok, Bool.and_eq_true, Bool.not_eq_true', List.contains_eq_mem,
        decide_eq_false_iff_not] at h
      simp only [runF]
      apply Frame.withOracle
      intro n
      exact Frame.comp (Frame.bind h.1)
        (Frame.mono (fun x hx => List.mem_append_left _ hx) (Frame.iter (ih _ _ h.2) n))
  | whileL b ih =>
    intro k V h
    simp only [ok] at h
    simp only [runF]
    exact Frame.withOracle fun n => Frame.iter (ih _ V h) n
  | doL b ih =>
    intro k V h
    simp only [ok] at h
    simp only [runF]
    exact Frame.withOracle fun n => Frame.iter (ih _ V h) (n + 1)

/-! ### Simulation -/

section Sim

variable (P G : Scope)

/-- The lexical and the flat state agree: every name the chain resolves is in the static visible
set `V` and the dictionary (with its fall-backs) resolves it to the same declaration. -/
def Rel (V : List String) (sl : St (List Scope)) (sf : St Scope) : Prop :=
  sl.env ≠ [] ∧
  (∀ x t, lookupChain sl.env x = some t → x ∈ V ∧ lookupFlat P G sf.env x = some t) ∧
  sl.oracle = sf.oracle ∧ Refines sl.trace sf.trace

def Sim (V W : List String) (fl : St (List Scope) → St (List Scope)) (ff : St Scope → St Scope) :
    Prop :=
  ∀ sl sf, Rel P G V sl sf → Rel P G W (fl sl) (ff sf)

variable {P G}

theorem Sim.comp {V W U fl ff gl gf} (h1 : Sim P G V W fl ff) (h2 : Sim P G W U gl gf) :
    Sim P G V U (fun st => gl (fl st)) (fun st => gf (ff st)) :=
  fun _ _ h => h2 _ _ (h1 _ _ h)

theorem Sim.mono_right {V W W' fl ff} (h : ∀ x, x ∈ W → x ∈ W') (h1 : Sim P G V W fl ff) :
    Sim P G V W' fl ff := by
  intro sl sf hr
  obtain ⟨a, b, c, d⟩ := h1 sl sf hr
  exact ⟨a, fun x t hx => ⟨h _ (b x t hx).1, (b x t hx).2⟩, c, d⟩

theorem Sim.iter {V fl ff} (h : Sim P G V V fl ff) : ∀ n, Sim P G V V (iter fl n) (iter ff n) := by
  intro n
  induction n with
  | zero => intro sl sf hr; exact hr
  | succ n ih => intro sl sf hr; simp only [Names.iter]; exact ih _ _ (h _ _ hr)

theorem Sim.withOracle {V W} {fl : Nat → St (List Scope) → St (List Scope)}
    {ff : Nat → St Scope → St Scope} (h : ∀ c, Sim P G V W (fl c) (ff c)) :
    Sim P G V W (withOracle fl) (withOracle ff) := by
  intro sl sf hr
  obtain ⟨a, b, c, d⟩ := hr
  unfold Names.withOracle
  rw [← c]
  cases ho : sl.oracle with
  | nil => exact h 0 _ _ ⟨a, b, c, d⟩
  | cons n o =>
    simp only
    exact h n _ _ ⟨a, b, rfl, d⟩

theorem Sim.scoped {V W fl ff} (h : Sim P G V W fl ff) (hfr : Frame V ff) :
    Sim P G V V (scopedRun fl) ff := by
  intro sl sf hr
  obtain ⟨a, b, c, d⟩ := hr
  have hin : Rel P G V { sl with env := [] :: sl.env } sf :=
    ⟨by simp, fun x t hx => b x t (by simpa [lookupChain_nil_cons] using hx), c, d⟩
  obtain ⟨_, _, c', d'⟩ := h _ _ hin
  refine ⟨a, ?_, c', d'⟩
  intro x t hx
  obtain ⟨hxV, hfl⟩ := b x t hx
  exact ⟨hxV, (lookupFlat_congr P G (hfr sf x hxV)).trans hfl⟩

theorem Sim.bind {V x t} (hx : x ∉ V) :
    Sim P G V (V ++ [x]) (bindInner x t) (bindFlat x t) := by
  intro sl sf hr
  obtain ⟨a, b, c, d⟩ := hr
  cases he : sl.env with
  | nil => exact absurd he a
  | cons sc r =>
    have hE : (bindInner x t sl).env = ((x, t) :: sc) :: r := by simp [bindInner, he]
    refine ⟨by rw [hE]; simp, ?_, by simpa [bindInner, he, bindFlat] using c,
      by simpa [bindInner, he, bindFlat] using d⟩
    intro y u hy
    rw [hE] at hy
    by_cases hyx : y = x
    · subst hyx
      rw [lookupChain_bind_self] at hy
      cases hy
      exact ⟨by simp, by simp [bindFlat, lookupFlat_bind_self]⟩
    · rw [lookupChain_bind_ne _ _ _ hyx, ← he] at hy
      obtain ⟨h1, h2⟩ := b y u hy
      exact ⟨List.mem_append_left _ h1, by simpa [bindFlat, lookupFlat_bind_ne P G _ _ hyx] using h2⟩

theorem Sim.use {V} (k : Nat) (x : String) :
    Sim P G V V (fun st => emit (k, lookupChain st.env x) st)
      (fun st => emit (k, lookupFlat P G st.env x) st) := by
  intro sl sf hr
  obtain ⟨a, b, c, d⟩ := hr
  refine ⟨a, b, c, ?_⟩
  simp only [emit]
  apply Refines.append d
  simp only [Refines, true_and, and_true]
  cases hl : lookupChain sl.env x with
  | none => exact Or.inl rfl
  | some t => exact Or.inr (b x t hl).2.symm

theorem Sim.id {V} : Sim P G V V id id := fun _ _ h => h

/-- The two interpreters stay related over any accepted statement. -/
theorem sim (s : S) : ∀ k V, ok V s = true → Sim P G V (V ++ adds s) (runL s k) (runF P G s k) := by
  induction s with
  | decl x =>
    intro k V h
    simp only [ok, Bool.not_eq_true', List.contains_eq_mem, decide_eq_false_iff_not] at h
    exact Sim.bind h
  | use x =>
    intro k V _
    simp only [adds, List.append_nil, runL, runF]
    exact Sim.use k x
  | skip =>
    intro k V _
    simp only [adds, List.append_nil, runL, runF]
    exact Sim.id
  | seq a b iha ihb =>
    intro k V h
    simp only [ok, Bool.and_eq_true] at h
    simp only [adds, runL, runF]
    exact Sim.mono_right (fun x hx => by simpa [List.append_assoc] using hx)
      (Sim.comp (iha k V h.1) (ihb (k + size a) _ h.2))
  | block s ih =>
    intro k V h
    simp only [ok] at h
    simp only [adds, List.append_nil, runL, runF]
    exact Sim.scoped (ih k V h) (runF_frame P G s k V h)
  | ite t e iht ihe =>
    intro k V h
    simp only [ok, Bool.and_eq_true] at h
    have he := ok_mono e _ V (fun x hx => List.mem_append_left _ hx) h.2
    simp only [adds, List.append_nil, runL, runF]
    apply Sim.withOracle
    intro c
    by_cases hc : c = 0
    · simp only [if_pos hc]
      exact Sim.scoped (ihe _ V he) (runF_frame P G e _ V he)
    · simp only [if_neg hc]
      exact Sim.scoped (iht _ V h.1) (runF_frame P G t _ V h.1)
  | forL i b ih =>
    intro k V h
    cases i with
    | none =>
      simp only [ok] at h
      simp only [adds, List.append_nil, runL, runF]
      apply Sim.withOracle
      intro n
      have hb := Sim.scoped (ih (k + 1) V h) (runF_frame P G b _ V h)
      exact Sim.scoped (Sim.iter hb n) (Frame.iter (runF_frame P G b _ V h) n)
    | some i =>
      simp only [ok, Bool.and_eq_true, Bool.not_eq_true', List.contains_eq_mem,
        decide_eq_false_iff_not] at h
      simp only [adds, List.append_nil, runL, runF]
      apply Sim.withOracle
      intro n
      have hfr := runF_frame P G b (k + 1) _ h.2
      have hb := Sim.scoped (ih (k + 1) _ h.2) hfr
      have hloop := Sim.comp (Sim.bind (P := P) (G := G) (t := .loc k) h.1) (Sim.iter hb n)
      exact Sim.scoped hloop
        (Frame.comp (Frame.bind h.1)
          (Frame.mono (fun x hx => List.mem_append_left _ hx) (Frame.iter hfr n)))
  | whileL b ih =>
    intro k V h
    simp only [ok] at h
    simp only [adds, List.append_nil, runL, runF]
    apply Sim.withOracle
    intro n
    exact Sim.iter (Sim.scoped (ih k V h) (runF_frame P G b _ V h)) n
  | doL b ih =>
    intro k V h
    simp only [ok] at h
    simp only [adds, List.append_nil, runL, runF]
    apply Sim.withOracle
    intro n
    exact Sim.iter (Sim.scoped (ih k V h) (runF_frame P G b _ V h)) (n + 1)

end Sim

/-! ### With every use definitely declared, the lexical run resolves every use -/

def RelD (V : List String) (st : St (List Scope)) : Prop :=
  st.env ≠ [] ∧ (∀ x, x ∈ V → (lookupChain st.env x).isSome = true) ∧
  ∀ e ∈ st.trace, e.2.isSome = true

def SimD (V W : List String) (f : St (List Scope) → St (List Scope)) : Prop :=
  ∀ st, RelD V st → RelD W (f st)

theorem SimD.comp {V W U f g} (h1 : SimD V W f) (h2 : SimD W U g) : SimD V U (fun st => g (f st)) :=
  fun _ h => h2 _ (h1 _ h)

theorem SimD.mono_right {V W W' f} (h : ∀ x, x ∈ W' → x ∈ W) (h1 : SimD V W f) : SimD V W' f := by
  intro st hr
  obtain ⟨a, b, c⟩ := h1 st hr
  exact ⟨a, fun x hx => b x (h x hx), c⟩

theorem SimD.iter {V f} (h : SimD V V f) : ∀ n, SimD V V (iter f n) := by
  intro n
  induction n with
  | zero => intro st hr; exact hr
  | succ n ih => intro st hr; simp only [Names.iter]; exact ih _ (h _ hr)

theorem SimD.withOracle {V W} {f : Nat → St (List Scope) → St (List Scope)}
    (h : ∀ c, SimD V W (f c)) : SimD V W (withOracle f) := by
  intro st hr
  unfold Names.withOracle
  split
  · exact h 0 _ hr
  · exact h _ _ ⟨hr.1, hr.2.1, hr.2.2⟩

theorem SimD.scoped {V W f} (h : SimD V W f) : SimD V V (scopedRun f) := by
  intro st hr
  obtain ⟨a, b, c⟩ := hr
  have hin : RelD V { st with env := [] :: st.env } :=
    ⟨by simp, fun x hx => by simpa [lookupChain_nil_cons] using b x hx, c⟩
  obtain ⟨_, _, c'⟩ := h _ hin
  exact ⟨a, b, c'⟩

theorem SimD.bind {V x t} : SimD V (V ++ [x]) (bindInner x t) := by
  intro st hr
  obtain ⟨a, b, c⟩ := hr
  cases he : st.env with
  | nil => exact absurd he a
  | cons sc r =>
    have hE : (bindInner x t st).env = ((x, t) :: sc) :: r := by simp [bindInner, he]
    refine ⟨by rw [hE]; simp, ?_, by simpa [bindInner, he] using c⟩
    intro y hy
    rw [hE]
    by_cases hyx : y = x
    · subst hyx; simp [lookupChain_bind_self]
    · rw [lookupChain_bind_ne _ _ _ hyx, ← he]
      apply b
      simpa [hyx] using hy

theorem SimD.use {V} (k : Nat) (x : String) (hx : x ∈ V) :
    SimD V V (fun st => emit (k, lookupChain st.env x) st) := by
  intro st hr
  obtain ⟨a, b, c⟩ := hr
  refine ⟨a, b, ?_⟩
  intro e he
  simp only [emit, List.mem_append, List.mem_singleton] at he
  rcases he with he | he
  · exact c e he
  · subst he; exact b x hx

theorem resolved (s : S) : ∀ k V, declaredOk V s = true → SimD V (V ++ adds s) (runL s k) := by
  induction s with
  | decl x => intro k V _; exact SimD.bind
  | use x =>
    intro k V h
    simp only [declaredOk, List.contains_eq_mem, decide_eq_true_eq] at h
    simp only [adds, List.append_nil, runL]
    exact SimD.use k x h
  | skip =>
    intro k V _
    simp only [adds, List.append_nil, runL]
    exact fun _ h => h
  | seq a b iha ihb =>
    intro k V h
    simp only [declaredOk, Bool.and_eq_true] at h
    simp only [adds, runL]
    exact SimD.mono_right (fun x hx => by simpa [List.append_assoc] using hx)
      (SimD.comp (iha k V h.1) (ihb (k + size a) _ h.2))
  | block s ih =>
    intro k V h
    simp only [declaredOk] at h
    simp only [adds, List.append_nil, runL]
    exact SimD.scoped (ih k V h)
  | ite t e iht ihe =>
    intro k V h
    simp only [declaredOk, Bool.and_eq_true] at h
    simp only [adds, List.append_nil, runL]
    apply SimD.withOracle
    intro c
    by_cases hc : c = 0
    · simp only [if_pos hc]; exact SimD.scoped (ihe _ V h.2)
    · simp only [if_neg hc]; exact SimD.scoped (iht _ V h.1)
  | forL i b ih =>
    intro k V h
    cases i with
    | none =>
      simp only [declaredOk] at h
      simp only [adds, List.append_nil, runL]
      apply SimD.withOracle
      intro n
      exact SimD.scoped (SimD.iter (SimD.scoped (ih (k + 1) V h)) n)
    | some i =>
      simp only [declaredOk] at h
      simp only [adds, List.append_nil, runL]
      apply SimD.withOracle
      intro n
      exact SimD.scoped (SimD.comp (SimD.bind (t := .loc k)) (SimD.iter (SimD.scoped (ih (k + 1) _ h)) n))
  | whileL b ih =>
    intro k V h
    simp only [declaredOk] at h
    simp only [adds, List.append_nil, runL]
    apply SimD.withOracle
    intro n
    exact SimD.iter (SimD.scoped (ih k V h)) n
  | doL b ih =>
    intro k V h
    simp only [declaredOk] at h
    simp only [adds, List.append_nil, runL]
    apply SimD.withOracle
    intro n
    exact SimD.iter (SimD.scoped (ih k V h)) (n + 1)

/-! ### Module level -/

theorem okMod_fn {m : Mod} (h : checkMod m = true) {f : Fn} (hf : f ∈ m.fns) :
    (m.globals ++ f.params).Nodup ∧ ok (m.globals ++ f.params) f.body = true := by
  rw [checkMod_eq_okMod] at h
  simp only [okMod, Bool.and_eq_true, decide_eq_true_eq, List.all_eq_true] at h
  exact h.2 f hf

theorem rel_init (m : Mod) (f : Fn) (o : List Nat) :
    Rel (paramScope f) (globalScope m) (m.globals ++ f.params)
      ⟨[paramScope f, globalScope m], o, []⟩ ⟨[], o, []⟩ := by
  refine ⟨by simp, ?_, rfl, by simp [Refines]⟩
  intro x t hx
  simp only [lookupChain, lookupFlat, List.lookup] at hx ⊢
  refine ⟨?_, ?_⟩
  · cases hp : List.lookup x (paramScope f) with
    | some u => exact List.mem_append_right _ (tagScope_lookup_mem _ _ _ _ _ hp)
    | none =>
      rw [hp] at hx
      cases hg : List.lookup x (globalScope m) with
      | some u => exact List.mem_append_left _ (tagScope_lookup_mem _ _ _ _ _ hg)
      | none => rw [hg] at hx; simp at hx
  · cases hp : List.lookup x (paramScope f) with
    | some u => rw [hp] at hx; exact hx
    | none =>
      rw [hp] at hx
      cases hg : List.lookup x (globalScope m) with
      | some u => rw [hg] at hx; simpa using hx
      | none => rw [hg] at hx; simp at hx

theorem relD_init (m : Mod) (f : Fn) (o : List Nat) :
    RelD (m.globals ++ f.params) ⟨[paramScope f, globalScope m], o, []⟩ := by
  refine ⟨by simp, ?_, by simp⟩
  intro x hx
  simp only [lookupChain]
  rcases List.mem_append.mp hx with hg | hp
  · cases hp' : List.lookup x (paramScope f) with
    | some u => simp
    | none =>
      have := tagScope_lookup_isSome .global m.globals 0 x hg
      cases hg' : List.lookup x (globalScope m) with
      | some u => simp
      | none => rw [globalScope] at hg'; rw [hg'] at this; simp at this
  · have := tagScope_lookup_isSome .param f.params 0 x hp
    cases hp' : List.lookup x (paramScope f) with
    | some u => simp
    | none => rw [paramScope] at hp'; rw [hp'] at this; simp at this

theorem ok_locals (s : S) : ∀ V, ok V s = true → ∀ x ∈ locals s, x ∉ V := by
  induction s with
  | decl x =>
    intro V h y hy
    simp only [ok, Bool.not_eq_true', List.contains_eq_mem, decide_eq_false_iff_not] at h
    simp only [locals, List.mem_singleton] at hy
    subst hy; exact h
  | use x => intro V _ y hy; simp [locals] at hy
  | skip => intro V _ y hy; simp [locals] at hy
  | seq a b iha ihb =>
    intro V h y hy
    simp only [ok, Bool.and_eq_true] at h
    simp only [locals, List.mem_append] at hy
    rcases hy with hy | hy
    · exact iha V h.1 y hy
    · exact ihb V (ok_mono b _ V (fun x hx => List.mem_append_left _ hx) h.2) y hy
  | block s ih => intro V h y hy; exact ih V h y hy
  | ite a b iha ihb =>
    intro V h y hy
    simp only [ok, Bool.and_eq_true] at h
    simp only [locals, List.mem_append] at hy
    rcases hy with hy | hy
    · exact iha V h.1 y hy
    · exact ihb V (ok_mono b _ V (fun x hx => List.mem_append_left _ hx) h.2) y hy
  | forL i b ih =>
    intro V h y hy
    cases i with
    | none => exact ih V h y (by simpa [locals] using hy)
    | some i =>
      simp only [ok, Bool.and_eq_true, Bool.not_eq_true', List.contains_eq_mem,
        decide_eq_false_iff_not] at h
      simp only [locals, Option.toList, List.mem_append, List.mem_singleton] at hy
      rcases hy with hy | hy
      · subst hy; exact h.1
      · exact ih V (ok_mono b _ V (fun x hx => List.mem_append_left _ hx) h.2) y hy
  | whileL s ih => intro V h y hy; exact ih V h y hy
  | doL s ih => intro V h y hy; exact ih V h y hy

end Nsl.Names
