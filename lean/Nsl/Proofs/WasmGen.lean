import Nsl.Proofs.Wasm
/-!
# Helper lemmas for C07, generator part: generated modules are well-formed and valid
-/
set_option linter.unusedSimpArgs false

namespace Nsl.Wasm
open Nsl.Leb

/-! ## 1. Locals: grouping is lossless, lookups -/

theorem expandLocals_append (a b : List (Nat × VT)) :
    expandLocals (a ++ b) = expandLocals a ++ expandLocals b := by
  simp [expandLocals, List.flatMap_append]

theorem expand_addLocalRev (acc : List (Nat × VT)) (t : VT) :
    expandLocals (addLocalRev acc t).reverse = expandLocals acc.reverse ++ [t] := by
  cases acc with
  | nil => simp [addLocalRev, expandLocals]
  | cons g r =>
    obtain ⟨n, t'⟩ := g
    by_cases h : t' = t
    · subst h
      simp [addLocalRev, expandLocals, List.flatMap_append, List.replicate_succ']
    · simp [addLocalRev, h, expandLocals, List.flatMap_append]

theorem expand_foldl : ∀ (ts : List VT) (acc : List (Nat × VT)),
    expandLocals (ts.foldl addLocalRev acc).reverse = expandLocals acc.reverse ++ ts
  | [], acc => by simp
  | t :: ts, acc => by
    rw [List.foldl_cons, expand_foldl ts, expand_addLocalRev, List.append_assoc]
    rfl

theorem expand_groupLocals (ts : List VT) : expandLocals (groupLocals ts) = ts := by
  unfold groupLocals
  rw [expand_foldl]
  simp [expandLocals]

theorem lookupRef_getElem : ∀ (es : List Entry) (r i : Nat) (t : ITy),
    lookupRef es r = some (i, t) → es[i]? = some (some r, t)
  | [], _, _, _, h => by simp [lookupRef] at h
  | (some r', t0) :: es, r, i, t, h => by
    simp only [lookupRef] at h
    by_cases hr : r' = r
    · subst hr
      simp only [if_true, Option.some.injEq, Prod.mk.injEq] at h
      obtain ⟨rfl, rfl⟩ := h
      rfl
    · simp only [hr, if_false] at h
      cases hl : lookupRef es r with
      | none => simp [hl] at h
      | some p =>
        obtain ⟨j, t'⟩ := p
        simp only [hl, Option.some.injEq, Prod.mk.injEq] at h
        obtain ⟨rfl, rfl⟩ := h
        simpa using lookupRef_getElem es r j t' hl
  | (none, t0) :: es, r, i, t, h => by
    simp only [lookupRef] at h
    cases hl : lookupRef es r with
    | none => simp [hl] at h
    | some p =>
      obtain ⟨j, t'⟩ := p
      simp only [hl, Option.some.injEq, Prod.mk.injEq] at h
      obtain ⟨rfl, rfl⟩ := h
      simpa using lookupRef_getElem es r j t' hl

theorem convertVT_vtOf {t : ITy} {v : VT} (h : convertVT t = .ok v) : vtOfITy t = some v := by
  cases t with
  | sc s => cases s <;> simp_all [convertVT, vtOfITy]
  | _ => simp [convertVT] at h

theorem convertVTs_getElem : ∀ (tys : List ITy) (vts : List VT), convertVTs tys = .ok vts →
    ∀ (i : Nat) (t : ITy), tys[i]? = some t → ∃ v, vts[i]? = some v ∧ vtOfITy t = some v
  | [], _, _, i, t, hi => by simp at hi
  | t0 :: tys, vts, h, i, t, hi => by
    simp only [convertVTs] at h
    cases h0 : convertVT t0 with
    | error e => simp [h0] at h
    | ok v0 =>
      cases h1 : convertVTs tys with
      | error e => simp [h0, h1] at h
      | ok vs =>
        simp only [h0, h1, Except.ok.injEq] at h
        subst h
        cases i with
        | zero =>
          simp only [List.getElem?_cons_zero, Option.some.injEq] at hi
          subst hi
          exact ⟨v0, rfl, convertVT_vtOf h0⟩
        | succ j =>
          simp only [List.getElem?_cons_succ] at hi ⊢
          exact convertVTs_getElem tys vs h1 j t hi

theorem convertVTs_length : ∀ (tys : List ITy) (vts : List VT), convertVTs tys = .ok vts →
    vts.length = tys.length
  | [], vts, h => by simp only [convertVTs, Except.ok.injEq] at h; subst h; rfl
  | t0 :: tys, vts, h => by
    simp only [convertVTs] at h
    cases h0 : convertVT t0 with
    | error e => simp [h0] at h
    | ok v0 =>
      cases h1 : convertVTs tys with
      | error e => simp [h0, h1] at h
      | ok vs =>
        simp only [h0, h1, Except.ok.injEq] at h
        subst h
        simp [convertVTs_length tys vs h1]

/-- What the generator knows while translating one function. -/
structure GenCtx (params : List (String × ITy)) (ps : List VT) (ents : List Entry)
    (vts : List VT) : Prop where
  hps : convertVTs (params.map (·.2)) = .ok ps
  hvts : convertVTs (ents.map (·.2)) = .ok vts

theorem GenCtx.ref {params ps ents vts} (c : GenCtx params ps ents vts) {r k : Nat} {t : ITy}
    (h : lookupRef ents r = some (k, t)) :
    ∃ v, refVT ents r = some v ∧ (ps ++ vts)[ps.length + k]? = some v := by
  have h1 := lookupRef_getElem ents r k t h
  have h2 : (ents.map (·.2))[k]? = some t := by simp [h1]
  obtain ⟨v, hv, hvt⟩ := convertVTs_getElem _ _ c.hvts k t h2
  refine ⟨v, ?_, ?_⟩
  · simp [refVT, h, hvt]
  · simp [List.getElem?_append_right, hv]

theorem GenCtx.param {params ps ents vts} (c : GenCtx params ps ents vts) {i : Nat} {v : VT}
    (h : paramVT params i = some v) : (ps ++ vts)[i]? = some v := by
  unfold paramVT at h
  cases hp : params[i]? with
  | none => simp [hp] at h
  | some p =>
    simp only [hp] at h
    have h2 : (params.map (·.2))[i]? = some p.2 := by simp [hp]
    obtain ⟨w, hw, hwt⟩ := convertVTs_getElem _ _ c.hps i p.2 h2
    rw [h] at hwt
    cases hwt
    have hlt : i < ps.length := by
      rcases Nat.lt_or_ge i ps.length with hc | hc
      · exact hc
      · rw [List.getElem?_eq_none hc] at hw; cases hw
    rw [List.getElem?_append_left hlt, hw]

/-! ## 2. Generated modules are well-formed -/

/-- The float packer returns 32-bit patterns. -/
def FbOk (fb : Float → Option Nat) : Prop := ∀ f b, fb f = some b → b < 2 ^ 32

theorem packF32_ok : FbOk packF32 := by
  intro f b h
  unfold packF32 at h
  simp only [] at h
  split at h
  · cases h
  · cases h; exact UInt32.toNat_lt _

@[simp] theorem instrWF_localGet (i : Nat) : instrWF (.localGet i) = true := rfl
@[simp] theorem instrWF_localSet (i : Nat) : instrWF (.localSet i) = true := rfl
@[simp] theorem instrWF_num (o : NumOp) : instrWF (.num o) = true := rfl
@[simp] theorem instrWF_ret : instrWF .ret = true := rfl

theorem pushOpd_wf {fb argc ents o w} (hfb : FbOk fb) (h : pushOpd fb argc ents o = .ok w) :
    instrWF w = true := by
  cases o with
  | ref r =>
    simp only [pushOpd] at h
    cases hl : lookupRef ents r with
    | none => simp [hl] at h
    | some p => simp only [hl, Except.ok.injEq] at h; subst h; rfl
  | cInt v =>
    simp only [pushOpd] at h
    split at h
    · rename_i hr
      simp only [Except.ok.injEq] at h; subst h
      simp only [instrWF, decide_eq_true_eq]
      exact hr
    · cases h
  | cFlt f =>
    simp only [pushOpd] at h
    cases hf : fb f with
    | none => simp [hf] at h
    | some b =>
      simp only [hf, Except.ok.injEq] at h; subst h
      simp only [instrWF, decide_eq_true_eq]
      exact hfb f b hf

theorem transInstr_wf {fb argc ents i ws} (hfb : FbOk fb)
    (h : transInstr fb argc ents i = .ok ws) : ∀ w ∈ ws, instrWF w = true := by
  cases i with
  | label l => simp only [transInstr, Except.ok.injEq] at h; subst h; simp
  | load dst ty sc var =>
    cases sc <;> cases var <;> simp only [transInstr] at h <;> try cases h
    cases hl : lookupRef ents dst with
    | none => simp [hl] at h
    | some p =>
      simp only [hl, Except.ok.injEq] at h; subst h
      simp
  | store sc var src =>
    cases sc <;> cases var <;> simp only [transInstr] at h <;> try cases h
    cases hp : pushOpd fb argc ents src with
    | error e => simp [hp] at h
    | ok p =>
      simp only [hp, Except.ok.injEq] at h; subst h
      simp [pushOpd_wf hfb hp]
  | bin dst op ty a b =>
    cases op <;> simp only [transInstr] at h <;> try cases h
    rename_i o
    cases hs : selectOp ents o ty a with
    | error e => simp [hs] at h
    | ok nop =>
      cases hpa : pushOpd fb argc ents a with
      | error e => simp [hs, hpa] at h
      | ok pa =>
        cases hpb : pushOpd fb argc ents b with
        | error e => simp [hs, hpa, hpb] at h
        | ok pb =>
          cases hl : lookupRef ents dst with
          | none => simp [hs, hpa, hpb, hl] at h
          | some p =>
            simp only [hs, hpa, hpb, hl, Except.ok.injEq] at h; subst h
            simp [pushOpd_wf hfb hpa, pushOpd_wf hfb hpb]
  | ret v =>
    cases v with
    | none => simp only [transInstr, Except.ok.injEq] at h; subst h; simp
    | some v =>
      simp only [transInstr] at h
      cases hp : pushOpd fb argc ents v with
      | error e => simp [hp] at h
      | ok p =>
        simp only [hp, Except.ok.injEq] at h; subst h
        simp [pushOpd_wf hfb hp]
  | _ => simp [transInstr] at h

theorem transCode_wf {fb argc ents} (hfb : FbOk fb) : ∀ (code : List Instr) (body : List WInstr),
    transCode fb argc ents code = .ok body → ∀ w ∈ body, instrWF w = true
  | [], body, h => by simp only [transCode, Except.ok.injEq] at h; subst h; simp
  | i :: is, body, h => by
    simp only [transCode] at h
    cases h1 : transInstr fb argc ents i with
    | error e => simp [h1] at h
    | ok ws =>
      cases h2 : transCode fb argc ents is with
      | error e => simp [h1, h2] at h
      | ok rest =>
        simp only [h1, h2, Except.ok.injEq] at h; subst h
        intro w hw
        rcases List.mem_append.1 hw with hw | hw
        · exact transInstr_wf hfb h1 w hw
        · exact transCode_wf hfb is rest h2 w hw

/-- Everything `genFunc` computed on the way to a result. -/
theorem genFunc_ok {fb f ft c} (h : genFunc fb f = .ok (ft, c)) :
    ∃ ents vts body, convertFuncType f = .ok ft ∧ collectEntries f.params f.code [] = .ok ents ∧
      convertVTs (ents.map (·.2)) = .ok vts ∧
      transCode fb ft.params.length ents f.code = .ok body ∧ c = ⟨groupLocals vts, body⟩ := by
  unfold genFunc at h
  cases h1 : convertFuncType f with
  | error e => simp [h1] at h
  | ok ft' =>
    cases h2 : collectEntries f.params f.code [] with
    | error e => simp [h1, h2] at h
    | ok ents =>
      cases h3 : convertVTs (ents.map (·.2)) with
      | error e => simp [h1, h2, h3] at h
      | ok vts =>
        cases h4 : transCode fb ft'.params.length ents f.code with
        | error e => simp [h1, h2, h3, h4] at h
        | ok body =>
          simp only [h1, h2, h3, h4] at h
          by_cases hr : retOK ft'.results ents f.code = true
          · rw [if_pos hr] at h
            simp only [Except.ok.injEq, Prod.mk.injEq] at h
            obtain ⟨rfl, rfl⟩ := h
            exact ⟨ents, vts, body, rfl, rfl, h3, h4, rfl⟩
          · rw [if_neg hr] at h; cases h

/-- A generated function passed the return checks of the (repaired) generator. -/
theorem genFunc_retOK {fb f ft c} (h : genFunc fb f = .ok (ft, c)) :
    ∃ ents, collectEntries f.params f.code [] = .ok ents ∧ retOK ft.results ents f.code = true := by
  unfold genFunc at h
  cases h1 : convertFuncType f with
  | error e => simp [h1] at h
  | ok ft' =>
    cases h2 : collectEntries f.params f.code [] with
    | error e => simp [h1, h2] at h
    | ok ents =>
      cases h3 : convertVTs (ents.map (·.2)) with
      | error e => simp [h1, h2, h3] at h
      | ok vts =>
        cases h4 : transCode fb ft'.params.length ents f.code with
        | error e => simp [h1, h2, h3, h4] at h
        | ok body =>
          simp only [h1, h2, h3, h4] at h
          by_cases hr : retOK ft'.results ents f.code = true
          · rw [if_pos hr] at h
            simp only [Except.ok.injEq, Prod.mk.injEq] at h
            obtain ⟨rfl, rfl⟩ := h
            exact ⟨ents, rfl, hr⟩
          · rw [if_neg hr] at h; cases h

theorem genFunc_wf {fb f ft c} (hfb : FbOk fb) (h : genFunc fb f = .ok (ft, c)) :
    ∀ w ∈ c.body, instrWF w = true := by
  obtain ⟨ents, vts, body, _, _, _, h4, rfl⟩ := genFunc_ok h
  exact transCode_wf hfb _ _ h4

theorem genFuncs_mem {fb} : ∀ (P : List Func) (fcs : List (FuncType × WCode)),
    genFuncs fb P = .ok fcs → ∀ fc ∈ fcs, ∃ f ∈ P, genFunc fb f = .ok fc
  | [], fcs, h => by simp only [genFuncs, Except.ok.injEq] at h; subst h; simp
  | f :: fs, fcs, h => by
    simp only [genFuncs] at h
    cases h1 : genFunc fb f with
    | error e => simp [h1] at h
    | ok x =>
      cases h2 : genFuncs fb fs with
      | error e => simp [h1, h2] at h
      | ok xs =>
        simp only [h1, h2, Except.ok.injEq] at h; subst h
        intro fc hfc
        rcases List.mem_cons.1 hfc with rfl | hfc
        · exact ⟨f, List.mem_cons_self .., h1⟩
        · obtain ⟨g, hg, hgen⟩ := genFuncs_mem fs xs h2 fc hfc
          exact ⟨g, List.mem_cons_of_mem _ hg, hgen⟩

theorem genFuncs_length {fb} : ∀ (P : List Func) (fcs : List (FuncType × WCode)),
    genFuncs fb P = .ok fcs → fcs.length = P.length
  | [], fcs, h => by simp only [genFuncs, Except.ok.injEq] at h; subst h; rfl
  | f :: fs, fcs, h => by
    simp only [genFuncs] at h
    cases h1 : genFunc fb f with
    | error e => simp [h1] at h
    | ok x =>
      cases h2 : genFuncs fb fs with
      | error e => simp [h1, h2] at h
      | ok xs =>
        simp only [h1, h2, Except.ok.injEq] at h; subst h
        simp [genFuncs_length fs xs h2]

theorem genWasmWith_ok {fb P m} (h : genWasmWith fb P = .ok m) :
    ∃ fcs, genFuncs fb P = .ok fcs ∧
      m = { types := fcs.map (·.1), funcs := List.range fcs.length, tables := [0],
            exports := mkExports 0 P, codes := fcs.map (·.2) } := by
  unfold genWasmWith at h
  cases h1 : genFuncs fb P with
  | error e => simp [h1] at h
  | ok fcs =>
    simp only [h1, Except.ok.injEq] at h
    exact ⟨fcs, rfl, h.symm⟩

theorem genWasmWith_wellFormed {fb P m} (hfb : FbOk fb) (h : genWasmWith fb P = .ok m) :
    WellFormed m := by
  obtain ⟨fcs, hg, rfl⟩ := genWasmWith_ok h
  simp only [WellFormed, wellFormed, List.all_eq_true, List.mem_map]
  rintro c ⟨fc, hfc, rfl⟩ w hw
  obtain ⟨f, _, hgen⟩ := genFuncs_mem P fcs hg fc hfc
  exact genFunc_wf (ft := fc.1) (c := fc.2) hfb hgen w hw

/-! ## 3. Generated bodies type-check -/

/-- The instruction part of `checkBody` (without the final `end`). -/
def checkSeq (locals results : List VT) : TcSt → List WInstr → Option TcSt
  | s, [] => some s
  | s, i :: is =>
    match checkInstr locals results s i with
    | none => none
    | some s' => checkSeq locals results s' is

theorem checkSeq_append {l r : List VT} : ∀ (ws rest : List WInstr) (s s' : TcSt),
    checkSeq l r s ws = some s' → checkSeq l r s (ws ++ rest) = checkSeq l r s' rest
  | [], rest, s, s', h => by simp only [checkSeq, Option.some.injEq] at h; subst h; rfl
  | w :: ws, rest, s, s', h => by
    simp only [checkSeq, List.cons_append] at h ⊢
    cases hc : checkInstr l r s w with
    | none => simp [hc] at h
    | some s1 =>
      simp only [hc] at h ⊢
      exact checkSeq_append ws rest s1 s' h

theorem checkBody_of_seq {l r : List VT} : ∀ (ws : List WInstr) (s s' : TcSt),
    checkSeq l r s ws = some s' → checkBody l r s ws = checkBody l r s' []
  | [], s, s', h => by simp only [checkSeq, Option.some.injEq] at h; subst h; rfl
  | w :: ws, s, s', h => by
    simp only [checkSeq] at h
    simp only [checkBody]
    cases hc : checkInstr l r s w with
    | none => simp [hc] at h
    | some s1 =>
      simp only [hc] at h ⊢
      exact checkBody_of_seq ws s1 s' h

theorem pop_push (s : TcSt) (t : VT) : (s.push t).pop t = some s := by
  cases s; simp [TcSt.push, TcSt.pop]

theorem check_localGet {l r : List VT} {i : Nat} {t : VT} (h : l[i]? = some t) (s : TcSt) :
    checkInstr l r s (.localGet i) = some (s.push t) := by
  simp [checkInstr, h]

theorem check_localSet {l r : List VT} {i : Nat} {t : VT} (h : l[i]? = some t) (s : TcSt) :
    checkInstr l r (s.push t) (.localSet i) = some s := by
  simp [checkInstr, h, pop_push]

theorem check_num {l r : List VT} (op : NumOp) (s : TcSt) :
    checkInstr l r ((s.push op.sig.1).push op.sig.1) (.num op) = some (s.push op.sig.2) := by
  simp [checkInstr, pop_push]

theorem check_ret_nil {l : List VT} (s : TcSt) :
    checkInstr l [] s .ret = some ⟨[], true⟩ := by
  simp [checkInstr, TcSt.popN]

theorem check_ret_one {l : List VT} (t : VT) (s : TcSt) :
    checkInstr l [t] (s.push t) .ret = some ⟨[], true⟩ := by
  simp [checkInstr, TcSt.popN, pop_push]

theorem pushOpd_some {params ps ents vts fb o w} (c : GenCtx params ps ents vts)
    (h : pushOpd fb ps.length ents o = .ok w) : ∃ t, opdVT ents o = some t := by
  cases o with
  | ref r =>
    simp only [pushOpd] at h
    cases hl : lookupRef ents r with
    | none => simp [hl] at h
    | some p =>
      obtain ⟨k, t'⟩ := p
      obtain ⟨v, hv, _⟩ := c.ref hl
      exact ⟨v, hv⟩
  | cInt v => exact ⟨.i32, rfl⟩
  | cFlt f => exact ⟨.f32, rfl⟩

theorem pushOpd_check {params ps ents vts fb o w t} {results : List VT}
    (c : GenCtx params ps ents vts) (h : pushOpd fb ps.length ents o = .ok w)
    (ht : opdVT ents o = some t) (s : TcSt) :
    checkInstr (ps ++ vts) results s w = some (s.push t) := by
  cases o with
  | ref r =>
    simp only [pushOpd] at h
    cases hl : lookupRef ents r with
    | none => simp [hl] at h
    | some p =>
      obtain ⟨k, t'⟩ := p
      simp only [hl, Except.ok.injEq] at h; subst h
      obtain ⟨v, hv, hloc⟩ := c.ref hl
      simp only [opdVT, hv, Option.some.injEq] at ht; subst ht
      exact check_localGet hloc s
  | cInt v =>
    simp only [pushOpd] at h
    split at h
    · simp only [Except.ok.injEq] at h; subst h
      simp only [opdVT, Option.some.injEq] at ht; subst ht
      rfl
    · cases h
  | cFlt f =>
    simp only [pushOpd] at h
    cases hf : fb f with
    | none => simp [hf] at h
    | some b =>
      simp only [hf, Except.ok.injEq] at h; subst h
      simp only [opdVT, Option.some.injEq] at ht; subst ht
      rfl

theorem transInstr_check {params ps ents vts fb ins ws} {results : List VT}
    (c : GenCtx params ps ents vts)
    (h : transInstr fb ps.length ents ins = .ok ws)
    (ht : typedInstr params results ents ins = true) (s : TcSt) (hs : s.stack = []) :
    ∃ s', checkSeq (ps ++ vts) results s ws = some s' ∧ s'.stack = [] ∧
      (s.unr = true → s'.unr = true) ∧ (isRet ins = true → s'.unr = true) := by
  cases ins with
  | label l =>
    simp only [transInstr, Except.ok.injEq] at h; subst h
    exact ⟨s, rfl, hs, id, by simp [isRet]⟩
  | load dst ty sc var =>
    cases sc <;> cases var <;> simp only [transInstr] at h <;> try cases h
    rename_i i
    cases hl : lookupRef ents dst with
    | none => simp [hl] at h
    | some p =>
      obtain ⟨k, t'⟩ := p
      simp only [hl, Except.ok.injEq] at h; subst h
      obtain ⟨v, hv, hloc⟩ := c.ref hl
      simp only [typedInstr, beq_iff_eq, hv] at ht
      have hpar := c.param ht.symm
      refine ⟨s, ?_, hs, id, by simp [isRet]⟩
      simp only [checkSeq, check_localGet hpar, check_localSet hloc]
  | store sc var src =>
    cases sc <;> cases var <;> simp only [transInstr] at h <;> try cases h
    rename_i i
    cases hp : pushOpd fb ps.length ents src with
    | error e => simp [hp] at h
    | ok p =>
      simp only [hp, Except.ok.injEq] at h; subst h
      obtain ⟨t, hto⟩ := pushOpd_some c hp
      simp only [typedInstr, beq_iff_eq, hto] at ht
      have hpar := c.param ht.symm
      refine ⟨s, ?_, hs, id, by simp [isRet]⟩
      simp only [checkSeq, pushOpd_check c hp hto, check_localSet hpar]
  | bin dst op ty a b =>
    cases op <;> simp only [transInstr] at h <;> try cases h
    rename_i o
    cases hsel : selectOp ents o ty a with
    | error e => simp [hsel] at h
    | ok nop =>
      cases hpa : pushOpd fb ps.length ents a with
      | error e => simp [hsel, hpa] at h
      | ok pa =>
        cases hpb : pushOpd fb ps.length ents b with
        | error e => simp [hsel, hpa, hpb] at h
        | ok pb =>
          cases hl : lookupRef ents dst with
          | none => simp [hsel, hpa, hpb, hl] at h
          | some p =>
            obtain ⟨k, t'⟩ := p
            simp only [hsel, hpa, hpb, hl, Except.ok.injEq] at h; subst h
            simp only [typedInstr, hsel, Bool.and_eq_true, beq_iff_eq] at ht
            obtain ⟨⟨hta, htb⟩, htd⟩ := ht
            obtain ⟨v, hv, hloc⟩ := c.ref hl
            rw [htd] at hv
            simp only [Option.some.injEq] at hv; subst hv
            refine ⟨s, ?_, hs, id, by simp [isRet]⟩
            simp only [checkSeq, pushOpd_check c hpa hta, pushOpd_check c hpb htb, check_num,
              check_localSet hloc]
  | ret v =>
    cases v with
    | none =>
      simp only [transInstr, Except.ok.injEq] at h; subst h
      simp only [typedInstr, List.isEmpty_iff] at ht
      subst ht
      exact ⟨⟨[], true⟩, by simp only [checkSeq, check_ret_nil], rfl, fun _ => rfl, fun _ => rfl⟩
    | some v =>
      simp only [transInstr] at h
      cases hp : pushOpd fb ps.length ents v with
      | error e => simp [hp] at h
      | ok p =>
        simp only [hp, Except.ok.injEq] at h; subst h
        obtain ⟨t, hto⟩ := pushOpd_some c hp
        simp only [typedInstr, hto, Bool.or_eq_true, List.isEmpty_iff, beq_iff_eq] at ht
        refine ⟨⟨[], true⟩, ?_, rfl, fun _ => rfl, fun _ => rfl⟩
        rcases ht with ht | ht
        · subst ht
          simp only [checkSeq, pushOpd_check c hp hto, check_ret_nil]
        · subst ht
          simp only [checkSeq, pushOpd_check c hp hto, check_ret_one]
  | _ => simp [transInstr] at h

theorem transCode_check {params ps ents vts fb} {results : List VT}
    (c : GenCtx params ps ents vts) : ∀ (code : List Instr) (body : List WInstr),
    transCode fb ps.length ents code = .ok body →
    code.all (typedInstr params results ents) = true → ∀ (s : TcSt), s.stack = [] →
    ∃ s', checkSeq (ps ++ vts) results s body = some s' ∧ s'.stack = [] ∧
      (s.unr = true → s'.unr = true) ∧ (code.any isRet = true → s'.unr = true)
  | [], body, h, _, s, hs => by
    simp only [transCode, Except.ok.injEq] at h; subst h
    exact ⟨s, rfl, hs, id, by simp⟩
  | i :: is, body, h, ht, s, hs => by
    simp only [transCode] at h
    cases h1 : transInstr fb ps.length ents i with
    | error e => simp [h1] at h
    | ok ws =>
      cases h2 : transCode fb ps.length ents is with
      | error e => simp [h1, h2] at h
      | ok rest =>
        simp only [h1, h2, Except.ok.injEq] at h; subst h
        simp only [List.all_cons, Bool.and_eq_true] at ht
        obtain ⟨s1, hc1, hs1, hm1, hr1⟩ := transInstr_check c h1 ht.1 s hs
        obtain ⟨s2, hc2, hs2, hm2, hr2⟩ := transCode_check c is rest h2 ht.2 s1 hs1
        refine ⟨s2, ?_, hs2, fun hu => hm2 (hm1 hu), ?_⟩
        · rw [checkSeq_append ws rest s s1 hc1, hc2]
        · intro hany
          simp only [List.any_cons, Bool.or_eq_true] at hany
          rcases hany with hany | hany
          · exact hm2 (hr1 hany)
          · exact hr2 hany

theorem popN_unr : ∀ (ts : List VT) (s : TcSt), s.stack = [] → s.unr = true → s.popN ts = some s
  | [], s, _, _ => rfl
  | t :: ts, s, hs, hu => by
    have : s.pop t = some s := by simp [TcSt.pop, hs, hu]
    simp only [TcSt.popN, this]
    exact popN_unr ts s hs hu

theorem checkBody_end {l results : List VT} (s : TcSt) (hs : s.stack = [])
    (h : results = [] ∨ s.unr = true) : checkBody l results s [] = true := by
  rcases h with h | h
  · subst h; simp [checkBody, TcSt.popN, hs]
  · simp [checkBody, popN_unr _ s hs h, hs]

theorem convertFuncType_ok {f : Func} {ft : FuncType} (h : convertFuncType f = .ok ft) :
    convertVTs (f.params.map (·.2)) = .ok ft.params ∧ ft.results.length ≤ 1 := by
  unfold convertFuncType at h
  cases h1 : convertVTs (f.params.map (·.2)) with
  | error e => simp [h1] at h
  | ok ps =>
    simp only [h1] at h
    split at h
    · simp only [Except.ok.injEq] at h; subst h; simp
    · cases h2 : convertVT f.ret with
      | error e => simp [h2] at h
      | ok r => simp only [h2, Except.ok.injEq] at h; subst h; simp

theorem genFunc_check {fb f ft c} (h : genFunc fb f = .ok (ft, c)) (ht : typedFunc f = true) :
    checkCode ft c = true ∧ ft.results.length ≤ 1 := by
  obtain ⟨ents, vts, body, h1, h2, h3, h4, rfl⟩ := genFunc_ok h
  obtain ⟨hps, hres⟩ := convertFuncType_ok h1
  refine ⟨?_, hres⟩
  have ctx : GenCtx f.params ft.params ents vts := ⟨hps, h3⟩
  simp only [typedFunc, h1, h2, Bool.and_eq_true, Bool.or_eq_true, List.isEmpty_iff] at ht
  obtain ⟨htc, hend⟩ := ht
  obtain ⟨s', hc, hs', _, hr⟩ := transCode_check (results := ft.results) ctx f.code body h4 htc
    ⟨[], false⟩ rfl
  simp only [checkCode, expand_groupLocals]
  rw [checkBody_of_seq body _ s' hc]
  exact checkBody_end s' hs' (hend.imp id hr)

/-! ## 4. Generated modules are valid -/

theorem checkFuncs_gen : ∀ (pre fcs : List (FuncType × WCode)),
    (∀ fc ∈ fcs, checkCode fc.1 fc.2 = true) →
    checkFuncs ((pre ++ fcs).map (·.1)) (List.range' pre.length fcs.length) (fcs.map (·.2)) = true
  | pre, [], _ => by simp [checkFuncs]
  | pre, fc :: fcs, h => by
    have ih := checkFuncs_gen (pre ++ [fc]) fcs (fun x hx => h x (List.mem_cons_of_mem _ hx))
    simp only [List.append_assoc, List.singleton_append, List.length_append, List.length_cons,
      List.length_nil] at ih
    simp only [List.length_cons, List.range'_succ, List.map_cons, checkFuncs, Bool.and_eq_true]
    refine ⟨?_, ih⟩
    have : (List.map (fun x => x.1) (pre ++ fc :: fcs))[pre.length]? = some fc.1 := by
      simp [List.getElem?_append_right]
    simp only [this]
    exact h fc (List.mem_cons_self ..)

theorem mkExports_index : ∀ (P : List Func) (i : Nat), ∀ e ∈ mkExports i P, e.index < i + P.length
  | [], i, e, he => by simp [mkExports] at he
  | f :: fs, i, e, he => by
    simp only [mkExports, List.mem_cons] at he
    rcases he with rfl | he
    · simp
    · have := mkExports_index fs (i + 1) e he
      simp only [List.length_cons]; omega

theorem mkExports_names : ∀ (P : List Func) (i : Nat),
    (mkExports i P).map (·.name) = P.map (·.name)
  | [], i => rfl
  | f :: fs, i => by simp [mkExports, mkExports_names fs (i + 1)]

theorem genWasmWith_valid {fb P m} (h : genWasmWith fb P = .ok m) (ht : IRTyped P) :
    validModule m = true := by
  obtain ⟨fcs, hg, rfl⟩ := genWasmWith_ok h
  simp only [IRTyped, irTyped, Bool.and_eq_true, List.all_eq_true] at ht
  obtain ⟨hdist, htyped⟩ := ht
  have hlen := genFuncs_length P fcs hg
  have hfc : ∀ fc ∈ fcs, checkCode fc.1 fc.2 = true ∧ fc.1.results.length ≤ 1 := by
    intro fc hfc
    obtain ⟨f, hf, hgen⟩ := genFuncs_mem P fcs hg fc hfc
    exact genFunc_check (ft := fc.1) (c := fc.2) hgen (htyped f hf)
  have hcf := checkFuncs_gen [] fcs (fun fc h => (hfc fc h).1)
  simp only [List.nil_append, List.length_nil] at hcf
  simp only [validModule, Bool.and_eq_true, List.all_eq_true, decide_eq_true_eq, List.mem_map,
    List.range_eq_range', hcf, mkExports_names, hdist, List.length_range', List.length_cons,
    List.length_nil, List.mem_singleton, and_true, true_and]
  refine ⟨⟨⟨?_, ?_⟩, ?_⟩, ?_⟩
  · rintro ft ⟨fc, hfc', rfl⟩; exact (hfc fc hfc').2
  · intro e he
    have := mkExports_index P 0 e he
    omega
  · omega
  · intro n hn; subst hn; decide

end Nsl.Wasm
