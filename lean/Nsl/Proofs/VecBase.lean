import Nsl.Model.VectorCore
import Nsl.Proofs.SimExpr
import Nsl.Proofs.LowerWF4
/-!
# Vector core, part 1: shapes of values, the typing invariant of frames and globals, typing of the VM's value operations
-/
set_option linter.unusedSimpArgs false
namespace Nsl
namespace Vec
open Core VM CoreSem Lower Sim

/-! ## `fits` -/

theorem isAtom_noPtr {v : Val} (h : isAtom v = true) : Val.isPtr v = false := by
  cases v <;> simp_all [isAtom, Val.isPtr]

theorem fitsVec_inv {n : Nat} {v : Val} (h : fitsVec n v = true) :
    ∃ vs, v = .list vs ∧ vs.length = n ∧ ∀ x ∈ vs, isAtom x = true := by
  cases v <;> simp [fitsVec] at h
  exact ⟨_, rfl, h.1, h.2⟩

theorem fitsVec_mk {n : Nat} {vs : List Val} (hl : vs.length = n) (ha : ∀ x ∈ vs, isAtom x = true) :
    fitsVec n (.list vs) = true := by
  simp [fitsVec, hl]; exact ha

theorem fits_vec {n : Nat} {v : Val} : fits (.vec n) v = fitsVec n v := by
  cases v <;> rfl

theorem fits_atom {v : Val} : fits .atom v = isAtom v := by
  cases v <;> rfl

theorem fits_unit {v : Val} : fits .unit v = isAtom v := by
  cases v <;> rfl

theorem fits_mat_inv {r c : Nat} {v : Val} (h : fits (.mat r c) v = true) :
    ∃ rows, v = .list rows ∧ rows.length = r ∧ ∀ x ∈ rows, fitsVec c x = true := by
  cases v <;> simp [fits] at h
  exact ⟨_, rfl, h.1, h.2⟩

theorem fits_mat_mk {r c : Nat} {rows : List Val} (hl : rows.length = r) (ha : ∀ x ∈ rows, fitsVec c x = true) :
    fits (.mat r c) (.list rows) = true := by
  simp [fits, hl]; exact ha

theorem fits_noPtr {s : Sh} {v : Val} (h : fits s v = true) : Val.isPtr v = false := by
  cases s with
  | atom => rw [fits_atom] at h; exact isAtom_noPtr h
  | unit => rw [fits_unit] at h; exact isAtom_noPtr h
  | vec n => rw [fits_vec] at h; obtain ⟨vs, rfl, _, _⟩ := fitsVec_inv h; rfl
  | mat r c => obtain ⟨rows, rfl, _, _⟩ := fits_mat_inv h; rfl
  | bad => cases v <;> simp [fits] at h

theorem fits_slot_none {s : Sh} (h : s.slot = true) : fits s .none = true := by
  cases s <;> simp [Sh.slot] at h <;> rfl

theorem shape_atom {ty : ITy} (h : shape ty = .atom) : ∃ s, ty = .sc s := by
  cases ty <;> simp [shape] at h
  exact ⟨_, rfl⟩

theorem shape_vec {ty : ITy} {n : Nat} (h : shape ty = .vec n) : ∃ s, ty = .vec s n := by
  cases ty <;> simp [shape] at h
  subst h; exact ⟨_, rfl⟩

theorem shape_mat {ty : ITy} {r c : Nat} (h : shape ty = .mat r c) : ∃ s, ty = .mat s r c := by
  cases ty <;> simp [shape] at h
  obtain ⟨rfl, rfl⟩ := h; exact ⟨_, rfl⟩

theorem nonagg_of_shape {ty : ITy} (h : (shape ty != .bad) = true) : ty.isAggregate = false := by
  cases ty <;> simp [shape] at h <;> rfl

theorem isScalar_shape {ty : ITy} (h : ty.isScalar = true) : shape ty = .atom := by
  cases ty <;> simp [ITy.isScalar] at h; rfl

theorem isVector_shape {ty : ITy} (h : ty.isVector = true) : ∃ s n, ty = .vec s n := by
  cases ty <;> simp [ITy.isVector] at h; exact ⟨_, _, rfl⟩

/-! ## The invariant: every declared variable holds a value of its declared shape -/

def FrTy (ps : List (String × ITy)) (Γ : Map String Sh) (fr : Frame) : Prop :=
  (∀ x v s, Map.get fr.locals x = some v → Map.get Γ x = some s → fits s v = true) ∧ ArgsFit ps fr.args

def GTy (M : Core.Module) (g : Globals) : Prop := GlobalsFit M.globals g

theorem varSh_inv {M : Core.Module} {ps : List (String × ITy)} {Γ : Map String Sh} {sc : Scope} {key : VarKey} {s : Sh}
    (h : varSh M ps Γ sc key = some s) :
    (∃ x, sc = .local ∧ key = .name x ∧ Map.get Γ x = some s) ∨
    (∃ i p, sc = .arg ∧ key = .index i ∧ ps[i]? = some p ∧ shape p.2 = s) ∨
    (∃ n t, sc = .global ∧ key = .name n ∧ Map.get M.globals n = some t ∧ shape t = s) := by
  cases sc with
  | «local» =>
    cases key with
    | name x => exact Or.inl ⟨x, rfl, rfl, h⟩
    | index i => simp [varSh] at h
  | arg =>
    cases key with
    | name x => simp [varSh] at h
    | index i =>
      simp only [varSh, Option.map_eq_some_iff] at h
      obtain ⟨p, hp, hs⟩ := h
      exact Or.inr (Or.inl ⟨i, p, rfl, rfl, hp, hs⟩)
  | global =>
    cases key with
    | name n =>
      simp only [varSh, Option.map_eq_some_iff] at h
      obtain ⟨t, ht, hs⟩ := h
      exact Or.inr (Or.inr ⟨n, t, rfl, rfl, ht, hs⟩)
    | index i => simp [varSh] at h

theorem readRoot_fits {M : Core.Module} {ps : List (String × ITy)} {Γ : Map String Sh} {fr : Frame} {g : Globals}
    {sc : Scope} {key : VarKey} {s : Sh} {root : Root} {v : Val}
    (hv : varSh M ps Γ sc key = some s) (hroot : rootOf sc key = .ok root) (hr : readRoot fr g root = .ok v)
    (hf : FrTy ps Γ fr) (hg : GTy M g) : fits s v = true := by
  rcases varSh_inv hv with ⟨x, rfl, rfl, hx⟩ | ⟨i, p, rfl, rfl, hp, rfl⟩ | ⟨n, t, rfl, rfl, ht, rfl⟩
  · simp only [rootOf, Except.ok.injEq] at hroot; subst hroot
    simp only [readRoot] at hr
    cases hm : Map.get fr.locals x with
    | none => simp [hm] at hr
    | some y => simp only [hm, Except.ok.injEq] at hr; subst hr; exact hf.1 _ _ _ hm hx
  · simp only [rootOf, Except.ok.injEq] at hroot; subst hroot
    simp only [readRoot] at hr
    cases hm : fr.args[i]? with
    | none => simp [hm] at hr
    | some y => simp only [hm, Except.ok.injEq] at hr; subst hr; exact hf.2 _ _ _ hp hm
  · simp only [rootOf, Except.ok.injEq] at hroot; subst hroot
    simp only [readRoot] at hr
    cases hm : Map.get g n with
    | none => simp [hm] at hr
    | some y => simp only [hm, Except.ok.injEq] at hr; subst hr; exact hg _ _ _ ht hm

theorem FrTy.setLocal {ps : List (String × ITy)} {Γ : Map String Sh} {fr : Frame} (hf : FrTy ps Γ fr) {x : String}
    {v : Val} (hv : ∀ s, Map.get Γ x = some s → fits s v = true) :
    FrTy ps Γ { fr with locals := Map.set fr.locals x v } := by
  refine ⟨?_, hf.2⟩
  intro x' v' s' hget hs
  by_cases hx : x = x'
  · subst hx
    simp only [Map.get_set_eq, Option.some.injEq] at hget
    subst hget; exact hv _ hs
  · simp only [Map.get_set_ne _ _ _ _ hx] at hget
    exact hf.1 _ _ _ hget hs

theorem writeRoot_fits {M : Core.Module} {ps : List (String × ITy)} {Γ : Map String Sh} {fr : Frame} {g : Globals}
    {sc : Scope} {key : VarKey} {s : Sh} {root : Root} {v : Val} {fr1 : Frame} {g1 : Globals}
    (hv : varSh M ps Γ sc key = some s) (hroot : rootOf sc key = .ok root) (hfit : fits s v = true)
    (hw : writeRoot fr g root v = .ok (fr1, g1)) (hf : FrTy ps Γ fr) (hg : GTy M g) :
    FrTy ps Γ fr1 ∧ GTy M g1 := by
  rcases varSh_inv hv with ⟨x, rfl, rfl, hx⟩ | ⟨i, p, rfl, rfl, hp, rfl⟩ | ⟨n, t, rfl, rfl, ht, rfl⟩
  · simp only [rootOf, Except.ok.injEq] at hroot; subst hroot
    simp only [writeRoot, Except.ok.injEq, Prod.mk.injEq] at hw
    obtain ⟨rfl, rfl⟩ := hw
    refine ⟨hf.setLocal ?_, hg⟩
    intro s' hs'
    rw [hx] at hs'; cases hs'; exact hfit
  · simp only [rootOf, Except.ok.injEq] at hroot; subst hroot
    simp only [writeRoot] at hw
    by_cases hi : i < fr.args.length
    · rw [if_pos hi] at hw
      simp only [Except.ok.injEq, Prod.mk.injEq] at hw
      obtain ⟨rfl, rfl⟩ := hw
      refine ⟨⟨hf.1, ?_⟩, hg⟩
      intro j p' a hp' ha
      simp only at ha
      by_cases hj : i = j
      · subst hj
        simp only [List.getElem?_set_self hi, Option.some.injEq] at ha
        subst ha
        rw [hp] at hp'; cases hp'; exact hfit
      · rw [List.getElem?_set_ne hj] at ha
        exact hf.2 _ _ _ hp' ha
    · rw [if_neg hi] at hw; cases hw
  · simp only [rootOf, Except.ok.injEq] at hroot; subst hroot
    simp only [writeRoot, Except.ok.injEq, Prod.mk.injEq] at hw
    obtain ⟨rfl, rfl⟩ := hw
    refine ⟨hf, ?_⟩
    intro n' t' v' ht' hget
    by_cases hx : n = n'
    · subst hx
      simp only [Map.get_set_eq, Option.some.injEq] at hget
      subst hget
      rw [ht] at ht'; cases ht'; exact hfit
    · simp only [Map.get_set_ne _ _ _ _ hx] at hget
      exact hg _ _ _ ht' hget

theorem createInstance_fits {ty : ITy} (h : (shape ty != .bad) = true) : fits (shape ty) (createInstance ty) = true := by
  cases ty with
  | sc s => rfl
  | vec s n => simp [shape, createInstance, fits, fitsVec, isAtom]
  | mat s r c => simp [shape, createInstance, fits, fitsVec, isAtom]
  | void => rfl
  | arr e d => simp [shape] at h
  | struct n f => simp [shape] at h

/-! ## Typing of the scalar and component-wise operations -/

theorem scalarBin_atom {o : SOp} {it : Bool} {a b z : Val} (h : scalarBin o it a b = .ok z) : isAtom z = true := by
  unfold scalarBin at h
  repeat' split at h
  all_goals first
    | (simp only [Except.ok.injEq] at h; subst h; simp [Val.ofBool, isAtom]; done)
    | (cases h; done)

theorem castScalar_atom {s : Sc} {a z : Val} (h : castScalar s a = .ok z) : isAtom z = true := by
  unfold castScalar at h
  repeat' split at h
  all_goals first
    | (simp only [Except.ok.injEq] at h; subst h; simp [isAtom]; done)
    | (cases h; done)
    | (simp only [bind, Except.bind] at h
       split at h
       · cases h
       · simp only [Except.ok.injEq] at h; subst h; simp [isAtom])

theorem zipBin_typed (o : SOp) (it : Bool) : ∀ (xs ys zs : List Val), zipBin o it xs ys = .ok zs →
    zs.length = min xs.length ys.length ∧ ∀ z ∈ zs, isAtom z = true := by
  intro xs
  induction xs with
  | nil => intro ys zs h; simp [zipBin] at h; subst h; simp
  | cons x xr ih =>
    intro ys zs h
    cases ys with
    | nil => simp [zipBin] at h; subst h; simp
    | cons y yr =>
      simp only [zipBin, bind, Except.bind] at h
      cases hz : scalarBin o it x y with
      | error e => simp [hz] at h
      | ok z =>
        simp only [hz] at h
        cases hr : zipBin o it xr yr with
        | error e => simp [hr] at h
        | ok zr =>
          simp only [hr, Except.ok.injEq] at h
          subst h
          obtain ⟨hl, ha⟩ := ih yr zr hr
          refine ⟨by simp [hl], ?_⟩
          intro w hw
          rcases List.mem_cons.1 hw with rfl | hw
          · exact scalarBin_atom hz
          · exact ha w hw

theorem mapBinR_typed (o : SOp) (it : Bool) (s : Val) : ∀ (xs zs : List Val), mapBinR o it s xs = .ok zs →
    zs.length = xs.length ∧ ∀ z ∈ zs, isAtom z = true := by
  intro xs
  induction xs with
  | nil => intro zs h; simp [mapBinR] at h; subst h; simp
  | cons x xr ih =>
    intro zs h
    simp only [mapBinR, bind, Except.bind] at h
    cases hz : scalarBin o it x s with
    | error e => simp [hz] at h
    | ok z =>
      simp only [hz] at h
      cases hr : mapBinR o it s xr with
      | error e => simp [hr] at h
      | ok zr =>
        simp only [hr, Except.ok.injEq] at h
        subst h
        obtain ⟨hl, ha⟩ := ih zr hr
        refine ⟨by simp [hl], ?_⟩
        intro w hw
        rcases List.mem_cons.1 hw with rfl | hw
        · exact scalarBin_atom hz
        · exact ha w hw

theorem asList_ok {v : Val} {vs : List Val} (h : asList v = .ok vs) : v = .list vs := by
  cases v <;> simp [asList] at h
  subst h; rfl

theorem dotFrom_atom : ∀ (xs ys : List Val) (acc z : Val), isAtom acc = true → dotFrom acc xs ys = .ok z →
    isAtom z = true := by
  intro xs
  induction xs with
  | nil => intro ys acc z ha h; simp [dotFrom] at h; subst h; exact ha
  | cons x xr ih =>
    intro ys acc z ha h
    cases ys with
    | nil => simp [dotFrom] at h; subst h; exact ha
    | cons y yr =>
      simp only [dotFrom, bind, Except.bind] at h
      cases hp : scalarBin .mul false x y with
      | error e => simp [hp] at h
      | ok p =>
        simp only [hp] at h
        cases hq : scalarBin .add false acc p with
        | error e => simp [hq] at h
        | ok q =>
          simp only [hq] at h
          exact ih yr q z (scalarBin_atom hq) h

end Vec
end Nsl
