import Nsl.Proofs.SimBase
import Nsl.Proofs.WFBlock
import Nsl.Proofs.StorShape
/-!
# The lowering model only produces well-formed IR — part 1: labels, branch targets, calls

Three of the five structural conditions of `Opt.wfChecks` for the code of `Lower.lowerFn`:
* `labelsDistinct` – from the existing shape lemmas (`lowerS_shape` / `lowerS_shapeS`: the labels of a fragment are
  pairwise distinct);
* `targetsOK` – every branch the lowering emits targets a marker of the same function;
* `callsOK` – under `Core.callsResolve`.

The facts about expression code are proved for ALL expressions of the typed core (no `okE`/`okES` hypothesis):
expression code consists of instructions that are neither markers nor branches, and every `call` instruction comes
from a `call` node (`AllE`).  The statement lemma `lowerS_sok` needs only that `break`/`continue` occur inside loops
(`flowS`, implied by `okS` and by `okSS`) and that the calls resolve (`callsS`).
-/
namespace Nsl
namespace Lower
open Core Opt WF

/-! ## Instructions of expression code -/

/-- What `callOK` asks of an instruction, relative to an arity table. -/
def callP (sig : String → Nat → Bool) : Instr → Bool
  | .call _ _ f as => sig f as.length
  | _ => true

/-- An instruction that may occur in expression code: no marker, no branch, calls resolve. -/
def eOK (sig : String → Nat → Bool) : Instr → Bool
  | .label _ => false
  | .br _ => false
  | .brc _ _ _ => false
  | .call _ _ f as => sig f as.length
  | _ => true

def AllE (sig : String → Nat → Bool) (c : List Instr) : Prop := ∀ ins ∈ c, eOK sig ins = true

theorem AllE.nil {sig : String → Nat → Bool} : AllE sig [] := by intro i hi; cases hi

theorem AllE.append {sig : String → Nat → Bool} {a b : List Instr} (ha : AllE sig a) (hb : AllE sig b) :
    AllE sig (a ++ b) := by
  intro i hi
  rcases List.mem_append.1 hi with h | h
  · exact ha i h
  · exact hb i h

theorem AllE.cons {sig : String → Nat → Bool} {x : Instr} {rest : List Instr} (hx : eOK sig x = true)
    (hr : AllE sig rest) : AllE sig (x :: rest) := by
  intro i hi
  rcases List.mem_cons.1 hi with h | h
  · rw [h]; exact hx
  · exact hr i h

theorem AllE.one {sig : String → Nat → Bool} {x : Instr} (hx : eOK sig x = true) : AllE sig [x] :=
  AllE.cons hx AllE.nil

theorem AllE.snoc {sig : String → Nat → Bool} {c : List Instr} {x : Instr} (hc : AllE sig c)
    (hx : eOK sig x = true) : AllE sig (c ++ [x]) := hc.append (AllE.one hx)

theorem eOK_mkBin (sig : String → Nat → Bool) (dst : Nat) (op : BOp) (rty : ITy) (a : Opd) (ta : ITy) (b : Opd)
    (tb : ITy) : eOK sig (mkBin dst op rty a ta b tb) = true := by
  unfold mkBin
  split <;> rfl

theorem eOK_label {sig : String → Nat → Bool} {ins : Instr} (h : eOK sig ins = true) : labelOf ins = none := by
  cases ins <;> first | rfl | simp [eOK] at h

theorem eOK_targets {sig : String → Nat → Bool} {ins : Instr} (h : eOK sig ins = true) : targetsOf ins = [] := by
  cases ins <;> first | rfl | simp [eOK] at h

theorem eOK_callP {sig : String → Nat → Bool} {ins : Instr} (h : eOK sig ins = true) : callP sig ins = true := by
  cases ins <;> first | rfl | exact h | simp [eOK] at h

theorem AllE.noLabels {sig : String → Nat → Bool} {c : List Instr} (h : AllE sig c) : NoLabels c :=
  fun i hi => eOK_label (h i hi)

theorem AllE.calls {sig : String → Nat → Bool} {c : List Instr} (h : AllE sig c) : c.all (callP sig) = true := by
  rw [List.all_eq_true]
  exact fun i hi => eOK_callP (h i hi)

/-! ## The row-wise expansions -/

theorem rowsMM_allE (sig : String → Nat → Bool) (op : BOp) (lt rt resT : ITy) (l r : Opd) :
    ∀ (n k : Nat) (code : List Instr) (rows : List Opd) (k' : Nat),
      rowsMM op lt rt resT l r n k = (code, rows, k') → AllE sig code := by
  intro n
  induction n with
  | zero =>
    intro k code rows k' h
    simp only [rowsMM, Prod.mk.injEq] at h
    obtain ⟨rfl, -, -⟩ := h
    exact AllE.nil
  | succ n ih =>
    intro k code rows k' h
    rcases hrow : rowsMM op lt rt resT l r n k with ⟨c0, r0, k0⟩
    have h1 := ih k c0 r0 k0 hrow
    simp only [rowsMM, hrow, Prod.mk.injEq] at h
    obtain ⟨rfl, -, -⟩ := h
    exact h1.append (AllE.cons rfl (AllE.cons rfl (AllE.one (eOK_mkBin ..))))

theorem rowsMS_allE (sig : String → Nat → Bool) (op : BOp) (lt rt resT : ITy) (l r : Opd) :
    ∀ (n k : Nat) (code : List Instr) (rows : List Opd) (k' : Nat),
      rowsMS op lt rt resT l r n k = (code, rows, k') → AllE sig code := by
  intro n
  induction n with
  | zero =>
    intro k code rows k' h
    simp only [rowsMS, Prod.mk.injEq] at h
    obtain ⟨rfl, -, -⟩ := h
    exact AllE.nil
  | succ n ih =>
    intro k code rows k' h
    rcases hrow : rowsMS op lt rt resT l r n k with ⟨c0, r0, k0⟩
    have h1 := ih k c0 r0 k0 hrow
    simp only [rowsMS, hrow, Prod.mk.injEq] at h
    obtain ⟨rfl, -, -⟩ := h
    exact h1.append (AllE.cons rfl (AllE.one (eOK_mkBin ..)))

theorem rowsSM_allE (sig : String → Nat → Bool) (op : BOp) (lt rt resT : ITy) (l r : Opd) :
    ∀ (n k : Nat) (code : List Instr) (rows : List Opd) (k' : Nat),
      rowsSM op lt rt resT l r n k = (code, rows, k') → AllE sig code := by
  intro n
  induction n with
  | zero =>
    intro k code rows k' h
    simp only [rowsSM, Prod.mk.injEq] at h
    obtain ⟨rfl, -, -⟩ := h
    exact AllE.nil
  | succ n ih =>
    intro k code rows k' h
    rcases hrow : rowsSM op lt rt resT l r n k with ⟨c0, r0, k0⟩
    have h1 := ih k c0 r0 k0 hrow
    simp only [rowsSM, hrow, Prod.mk.injEq] at h
    obtain ⟨rfl, -, -⟩ := h
    exact h1.append (AllE.cons rfl (AllE.one (eOK_mkBin ..)))

/-! ## All expressions, argument lists and store targets of the typed core -/

mutual
  theorem lowerE_allE (sig : String → Nat → Bool) : ∀ (e : Expr), callsE sig e = true → ∀ (k : Nat) (c : List Instr)
      (o : Opd) (k' : Nat), lowerE e k = (c, o, k') → AllE sig c
    | .litI i, _, k, c, o, k', h => by
      simp only [lowerE, Prod.mk.injEq] at h
      obtain ⟨rfl, -, -⟩ := h
      exact AllE.nil
    | .litF f, _, k, c, o, k', h => by
      simp only [lowerE, Prod.mk.injEq] at h
      obtain ⟨rfl, -, -⟩ := h
      exact AllE.nil
    | .var sc key ty, _, k, c, o, k', h => by
      simp only [lowerE, Prod.mk.injEq] at h
      obtain ⟨rfl, -, -⟩ := h
      exact AllE.one rfl
    | .bin op ty l r, hok, k, c, o, k', h => by
      simp only [callsE, Bool.and_eq_true] at hok
      rcases hel : lowerE l k with ⟨cl, vl, k1⟩
      rcases her : lowerE r k1 with ⟨cr, vr, k2⟩
      have il := lowerE_allE sig l hok.1 k cl vl k1 hel
      have ir := lowerE_allE sig r hok.2 k1 cr vr k2 her
      rcases hmm : rowsMM op (Expr.ty l) (Expr.ty r) ty vl vr (rowCount (Expr.ty l)) k2 with ⟨c3, r3, k3⟩
      rcases hsm : rowsSM op (Expr.ty l) (Expr.ty r) ty vl vr (rowCount (Expr.ty r)) k2 with ⟨c4, r4, k4⟩
      rcases hms : rowsMS op (Expr.ty l) (Expr.ty r) ty vl vr (rowCount (Expr.ty l)) k2 with ⟨c5, r5, k5⟩
      have i3 := rowsMM_allE sig _ _ _ _ _ _ _ _ _ _ _ hmm
      have i4 := rowsSM_allE sig _ _ _ _ _ _ _ _ _ _ _ hsm
      have i5 := rowsMS_allE sig _ _ _ _ _ _ _ _ _ _ _ hms
      simp only [lowerE, hel, her, hmm, hsm, hms] at h
      split at h
      · split at h
        · simp only [Prod.mk.injEq] at h
          obtain ⟨rfl, -, -⟩ := h
          exact (il.append ir).snoc rfl
        · simp only [Prod.mk.injEq] at h
          obtain ⟨rfl, -, -⟩ := h
          exact ((il.append ir).append i3).snoc rfl
      · split at h
        · simp only [Prod.mk.injEq] at h
          obtain ⟨rfl, -, -⟩ := h
          exact (il.append ir).snoc rfl
        · split at h
          · simp only [Prod.mk.injEq] at h
            obtain ⟨rfl, -, -⟩ := h
            exact ((il.append ir).append i4).snoc rfl
          · split at h
            · simp only [Prod.mk.injEq] at h
              obtain ⟨rfl, -, -⟩ := h
              exact ((il.append ir).append i5).snoc rfl
            · simp only [Prod.mk.injEq] at h
              obtain ⟨rfl, -, -⟩ := h
              exact (il.append ir).snoc (eOK_mkBin ..)
    | .cast ty e, hok, k, c, o, k', h => by
      simp only [callsE] at hok
      rcases he : lowerE e k with ⟨c1, v1, k1⟩
      have ie := lowerE_allE sig e hok k c1 v1 k1 he
      simp only [lowerE, he, Prod.mk.injEq] at h
      obtain ⟨rfl, -, -⟩ := h
      exact ie.snoc rfl
    | .assign lhs rhs, hok, k, c, o, k', h => by
      simp only [callsE, Bool.and_eq_true] at hok
      rcases he : lowerE rhs k with ⟨c1, v1, k1⟩
      rcases hs : lowerStore lhs v1 k1 with ⟨c2, k2⟩
      have ie := lowerE_allE sig rhs hok.2 k c1 v1 k1 he
      have is := lowerStore_allE sig lhs hok.1 v1 k1 c2 k2 hs
      simp only [lowerE, he, hs, Prod.mk.injEq] at h
      obtain ⟨rfl, -, -⟩ := h
      exact ie.append is
    | .affix post inc x, hok, k, c, o, k', h => by
      simp only [callsE] at hok
      rcases he : lowerE x k with ⟨c1, v1, k1⟩
      rcases hs : lowerStore x (.ref k1) (k1 + 1) with ⟨c2, k2⟩
      have ie := lowerE_allE sig x hok k c1 v1 k1 he
      have is := lowerStore_allE sig x hok (.ref k1) (k1 + 1) c2 k2 hs
      simp only [lowerE, he, hs, Prod.mk.injEq] at h
      obtain ⟨rfl, -, -⟩ := h
      exact (ie.snoc rfl).append is
    | .call fn ty args, hok, k, c, o, k', h => by
      simp only [callsE, Bool.and_eq_true] at hok
      rcases ha : lowerArgs args k with ⟨c1, vs, k1⟩
      obtain ⟨ia, hlen⟩ := lowerArgs_allE sig args hok.2 k c1 vs k1 ha
      simp only [lowerE, ha, Prod.mk.injEq] at h
      obtain ⟨rfl, -, -⟩ := h
      refine ia.snoc ?_
      simp only [eOK, hlen]
      exact hok.1
    | .index kind ty base idx, hok, k, c, o, k', h => by
      simp only [callsE, Bool.and_eq_true] at hok
      rcases heb : lowerE base k with ⟨cb, vb, k1⟩
      rcases hei : lowerE idx k1 with ⟨ci, vi, k2⟩
      have ib := lowerE_allE sig base hok.1 k cb vb k1 heb
      have ii := lowerE_allE sig idx hok.2 k1 ci vi k2 hei
      simp only [lowerE, heb, hei, Prod.mk.injEq] at h
      obtain ⟨rfl, -, -⟩ := h
      refine (ib.append ii).snoc ?_
      cases kind <;> rfl
    | .member ty base field, hok, k, c, o, k', h => by
      simp only [callsE] at hok
      rcases heb : lowerE base k with ⟨cb, vb, k1⟩
      have ib := lowerE_allE sig base hok k cb vb k1 heb
      simp only [lowerE, heb, Prod.mk.injEq] at h
      obtain ⟨rfl, -, -⟩ := h
      exact ib.snoc rfl
    | .swizzle ty base idxs, hok, k, c, o, k', h => by
      simp only [callsE] at hok
      rcases heb : lowerE base k with ⟨cb, vb, k1⟩
      have ib := lowerE_allE sig base hok k cb vb k1 heb
      simp only [lowerE, heb, Prod.mk.injEq] at h
      obtain ⟨rfl, -, -⟩ := h
      exact ib.snoc rfl
    | .construct ty args, hok, k, c, o, k', h => by
      simp only [callsE] at hok
      rcases ha : lowerArgs args k with ⟨c1, vs, k1⟩
      obtain ⟨ia, _⟩ := lowerArgs_allE sig args hok k c1 vs k1 ha
      simp only [lowerE, ha, Prod.mk.injEq] at h
      obtain ⟨rfl, -, -⟩ := h
      exact ia.snoc rfl
  termination_by e => (sizeOf e, 0)
  theorem lowerArgs_allE (sig : String → Nat → Bool) : ∀ (as : Args), callsArgs sig as = true → ∀ (k : Nat)
      (c : List Instr) (os : List Opd) (k' : Nat), lowerArgs as k = (c, os, k') →
      AllE sig c ∧ os.length = argCount as
    | .nil, _, k, c, os, k', h => by
      simp only [lowerArgs, Prod.mk.injEq] at h
      obtain ⟨rfl, rfl, -⟩ := h
      exact ⟨AllE.nil, rfl⟩
    | .cons e rest, hok, k, c, os, k', h => by
      simp only [callsArgs, Bool.and_eq_true] at hok
      rcases he : lowerE e k with ⟨c1, v1, k1⟩
      rcases hr : lowerArgs rest k1 with ⟨c2, vs, k2⟩
      have ie := lowerE_allE sig e hok.1 k c1 v1 k1 he
      obtain ⟨ir, hlen⟩ := lowerArgs_allE sig rest hok.2 k1 c2 vs k2 hr
      simp only [lowerArgs, he, hr, Prod.mk.injEq] at h
      obtain ⟨rfl, rfl, -⟩ := h
      exact ⟨ie.append ir, by simp [argCount, hlen]⟩
  termination_by as => (sizeOf as, 0)
  theorem lowerStore_allE (sig : String → Nat → Bool) : ∀ (e : Expr), callsE sig e = true → ∀ (v : Opd) (k : Nat)
      (c : List Instr) (k' : Nat), lowerStore e v k = (c, k') → AllE sig c
    | .var sc key ty, _, v, k, c, k', h => by
      simp only [lowerStore, Prod.mk.injEq] at h
      obtain ⟨rfl, -⟩ := h
      exact AllE.one rfl
    | .index kind ty base idx, hok, v, k, c, k', h => by
      simp only [callsE, Bool.and_eq_true] at hok
      rcases heb : lowerE base k with ⟨cb, vb, k1⟩
      rcases hei : lowerE idx k1 with ⟨ci, vi, k2⟩
      rcases hsb : lowerStore base (.ref k2) (k2 + 1) with ⟨cs, k3⟩
      have ib := lowerE_allE sig base hok.1 k cb vb k1 heb
      have ii := lowerE_allE sig idx hok.2 k1 ci vi k2 hei
      have is := lowerStore_allE sig base hok.1 (.ref k2) (k2 + 1) cs k3 hsb
      cases kind with
      | arr =>
        simp only [lowerStore, heb, hei, Prod.mk.injEq] at h
        obtain ⟨rfl, -⟩ := h
        exact (ib.append ii).snoc rfl
      | vec =>
        simp only [lowerStore, heb, hei, hsb, Prod.mk.injEq] at h
        obtain ⟨rfl, -⟩ := h
        exact ((ib.append ii).snoc rfl).append is
      | mat =>
        simp only [lowerStore, heb, hei, hsb, Prod.mk.injEq] at h
        obtain ⟨rfl, -⟩ := h
        exact ((ib.append ii).snoc rfl).append is
    | .member ty base field, hok, v, k, c, k', h => by
      simp only [callsE] at hok
      rcases heb : lowerE base k with ⟨cb, vb, k1⟩
      have ib := lowerE_allE sig base hok k cb vb k1 heb
      simp only [lowerStore, heb, Prod.mk.injEq] at h
      obtain ⟨rfl, -⟩ := h
      exact ib.snoc rfl
    | .swizzle ty base idxs, hok, v, k, c, k', h => by
      simp only [callsE] at hok
      rcases heb : lowerE base k with ⟨cb, vb, k1⟩
      rcases hsb : lowerStore base (.ref k1) (k1 + 1) with ⟨cs, k2⟩
      have ib := lowerE_allE sig base hok k cb vb k1 heb
      have is := lowerStore_allE sig base hok (.ref k1) (k1 + 1) cs k2 hsb
      simp only [lowerStore, heb, hsb, Prod.mk.injEq] at h
      obtain ⟨rfl, -⟩ := h
      exact (ib.snoc rfl).append is
    | .litI i, hok, v, k, c, k', h => by
      rcases he : lowerE (.litI i) k with ⟨c1, v1, k1⟩
      have ie := lowerE_allE sig _ hok k c1 v1 k1 he
      simp only [lowerStore, he, Prod.mk.injEq] at h
      obtain ⟨rfl, -⟩ := h
      exact ie
    | .litF f, hok, v, k, c, k', h => by
      rcases he : lowerE (.litF f) k with ⟨c1, v1, k1⟩
      have ie := lowerE_allE sig _ hok k c1 v1 k1 he
      simp only [lowerStore, he, Prod.mk.injEq] at h
      obtain ⟨rfl, -⟩ := h
      exact ie
    | .bin op ty l r, hok, v, k, c, k', h => by
      rcases he : lowerE (.bin op ty l r) k with ⟨c1, v1, k1⟩
      have ie := lowerE_allE sig _ hok k c1 v1 k1 he
      simp only [lowerStore, he, Prod.mk.injEq] at h
      obtain ⟨rfl, -⟩ := h
      exact ie
    | .cast ty e, hok, v, k, c, k', h => by
      rcases he : lowerE (.cast ty e) k with ⟨c1, v1, k1⟩
      have ie := lowerE_allE sig _ hok k c1 v1 k1 he
      simp only [lowerStore, he, Prod.mk.injEq] at h
      obtain ⟨rfl, -⟩ := h
      exact ie
    | .assign lhs rhs, hok, v, k, c, k', h => by
      rcases he : lowerE (.assign lhs rhs) k with ⟨c1, v1, k1⟩
      have ie := lowerE_allE sig _ hok k c1 v1 k1 he
      simp only [lowerStore, he, Prod.mk.injEq] at h
      obtain ⟨rfl, -⟩ := h
      exact ie
    | .affix post inc x, hok, v, k, c, k', h => by
      rcases he : lowerE (.affix post inc x) k with ⟨c1, v1, k1⟩
      have ie := lowerE_allE sig _ hok k c1 v1 k1 he
      simp only [lowerStore, he, Prod.mk.injEq] at h
      obtain ⟨rfl, -⟩ := h
      exact ie
    | .call fn ty args, hok, v, k, c, k', h => by
      rcases he : lowerE (.call fn ty args) k with ⟨c1, v1, k1⟩
      have ie := lowerE_allE sig _ hok k c1 v1 k1 he
      simp only [lowerStore, he, Prod.mk.injEq] at h
      obtain ⟨rfl, -⟩ := h
      exact ie
    | .construct ty args, hok, v, k, c, k', h => by
      rcases he : lowerE (.construct ty args) k with ⟨c1, v1, k1⟩
      have ie := lowerE_allE sig _ hok k c1 v1 k1 he
      simp only [lowerStore, he, Prod.mk.injEq] at h
      obtain ⟨rfl, -⟩ := h
      exact ie
  termination_by e => (sizeOf e, 1)
end

theorem lowerOptE_allE (sig : String → Nat → Bool) : ∀ (oe : Option Expr), callsOptE sig oe = true → ∀ (k : Nat)
    (c : List Instr) (o : Option Opd) (k' : Nat), lowerOptE oe k = (c, o, k') → AllE sig c
  | none, _, k, c, o, k', h => by
    simp only [lowerOptE, Prod.mk.injEq] at h
    obtain ⟨rfl, -, -⟩ := h
    exact AllE.nil
  | some e, hok, k, c, o, k', h => by
    rcases he : lowerE e k with ⟨c1, v1, k1⟩
    have ie := lowerE_allE sig e hok k c1 v1 k1 he
    simp only [lowerOptE, he, Prod.mk.injEq] at h
    obtain ⟨rfl, -, -⟩ := h
    exact ie

end Lower
end Nsl
