import Nsl.Proofs.IRTypeOps2
/-!
# IR typing: the run-time invariant and what it says about operands

`InvBody cx st fr g` relates the checker state `st` at a program point inside a block to the VM state there:
every typed register holds a value of its static description, every declared local / every parameter / every global
holds a tree of its declared type.
-/
namespace Nsl
namespace IRType
open VM

def GlobalsOK (gs : Map String ITy) (g : Globals) : Prop :=
  ∀ n T, Map.get gs n = some T → ∃ w, Map.get g n = some w ∧ valOK T w = true

def LocalsOK (locs : Locs) (fr : Frame) : Prop :=
  ∀ n T, Map.get locs n = some T → ∃ w, Map.get fr.locals n = some w ∧ valOK T w = true

def ArgsOK (ps : List (String × ITy)) (as : List Val) : Prop :=
  ∀ (i : Nat) (p : String × ITy), ps[i]? = some p → ∃ w, as[i]? = some w ∧ valOK p.2 w = true

structure VarsOK (cx : Ctx) (locs : Locs) (fr : Frame) (g : Globals) : Prop where
  locals : LocalsOK locs fr
  args : ArgsOK cx.params fr.args
  globals : GlobalsOK cx.P.globals g

def RegOK (cx : Ctx) (locs : Locs) (v : Val) : RI → Prop
  | .val t => valOK t v = true
  | .ptr t root => ∃ p T0, v = .ptr root p ∧ rootTy cx locs root = some T0 ∧ tyAt T0 p = some t
  | .stale => True

def RegsOK (cx : Ctx) (st : St) (fr : Frame) : Prop :=
  ∀ r ri, Map.get st.regs r = some ri → ∃ v, Map.get fr.regs r = some v ∧ RegOK cx st.locs v ri

structure InvBody (cx : Ctx) (st : St) (fr : Frame) (g : Globals) : Prop where
  live : st.dead = false
  regs : RegsOK cx st fr
  vars : VarsOK cx st.locs fr g

/-! ## variables -/

theorem valsOK_args : ∀ {ps : List (String × ITy)} {as : List Val}, valsOK (ps.map (·.2)) as = true → ArgsOK ps as
  | [], _, _ => by intro i p h; simp at h
  | p :: ps, [], h => by simp [valsOK] at h
  | p :: ps, a :: as, h => by
    simp only [List.map_cons, valsOK, Bool.and_eq_true] at h
    intro i q hq
    cases i with
    | zero =>
      simp only [List.getElem?_cons_zero, Option.some.injEq] at hq
      subst hq
      exact ⟨a, rfl, h.1⟩
    | succ j =>
      simp only [List.getElem?_cons_succ] at hq ⊢
      exact valsOK_args h.2 j q hq

theorem vars_read {cx : Ctx} {locs : Locs} {fr : Frame} {g : Globals} (h : VarsOK cx locs fr g) {root : Root} {T : ITy}
    (hr : rootTy cx locs root = some T) : ∃ w, readRoot fr g root = .ok w ∧ valOK T w = true := by
  cases root with
  | loc n =>
    obtain ⟨w, hw, hwo⟩ := h.locals n T hr
    exact ⟨w, by simp [readRoot, hw], hwo⟩
  | arg i =>
    simp only [rootTy, Option.map_eq_some_iff] at hr
    obtain ⟨p, hp, rfl⟩ := hr
    obtain ⟨w, hw, hwo⟩ := h.args i p hp
    exact ⟨w, by simp [readRoot, hw], hwo⟩
  | glob n =>
    obtain ⟨w, hw, hwo⟩ := h.globals n T hr
    exact ⟨w, by simp [readRoot, hw], hwo⟩

theorem vars_write {cx : Ctx} {locs : Locs} {fr : Frame} {g : Globals} (h : VarsOK cx locs fr g) {root : Root}
    {T : ITy} {w' : Val} (hr : rootTy cx locs root = some T) (hw' : valOK T w' = true) :
    ∃ fr' g', writeRoot fr g root w' = .ok (fr', g') ∧ VarsOK cx locs fr' g' ∧ fr'.regs = fr.regs := by
  cases root with
  | loc n =>
    refine ⟨{ fr with locals := Map.set fr.locals n w' }, g, rfl, ⟨?_, h.args, h.globals⟩, rfl⟩
    intro m T' hm
    by_cases hnm : n = m
    · subst hnm
      have : T' = T := by
        have h1 : Map.get locs n = some T := hr
        rw [h1] at hm; exact (Option.some.inj hm).symm
      subst this
      exact ⟨w', by simp, hw'⟩
    · obtain ⟨w, hw, hwo⟩ := h.locals m T' hm
      exact ⟨w, by simp only; rw [Map.get_set_ne _ _ _ _ hnm]; exact hw, hwo⟩
  | arg i =>
    simp only [rootTy, Option.map_eq_some_iff] at hr
    obtain ⟨p, hp, rfl⟩ := hr
    obtain ⟨w, hw, _⟩ := h.args i p hp
    have hi : i < fr.args.length := by
      rcases Nat.lt_or_ge i fr.args.length with h | h
      · exact h
      · rw [List.getElem?_eq_none h] at hw; cases hw
    refine ⟨{ fr with args := fr.args.set i w' }, g, by simp [writeRoot, hi], ⟨h.locals, ?_, h.globals⟩, rfl⟩
    intro j q hq
    by_cases hij : i = j
    · subst hij
      have : q = p := by rw [hp] at hq; exact (Option.some.inj hq).symm
      subst this
      exact ⟨w', by simp [hi], hw'⟩
    · obtain ⟨w2, hw2, hwo2⟩ := h.args j q hq
      exact ⟨w2, by simp only; rw [List.getElem?_set_ne hij]; exact hw2, hwo2⟩
  | glob n =>
    refine ⟨fr, Map.set g n w', rfl, ⟨h.locals, h.args, ?_⟩, rfl⟩
    intro m T' hm
    by_cases hnm : n = m
    · subst hnm
      have : T' = T := by
        have h1 : Map.get cx.P.globals n = some T := hr
        rw [h1] at hm; exact (Option.some.inj hm).symm
      subst this
      exact ⟨w', by simp, hw'⟩
    · obtain ⟨w, hw, hwo⟩ := h.globals m T' hm
      exact ⟨w, by rw [Map.get_set_ne _ _ _ _ hnm]; exact hw, hwo⟩

theorem ptr_read {cx : Ctx} {locs : Locs} {fr : Frame} {g : Globals} (h : VarsOK cx locs fr g) {root : Root}
    {T0 t : ITy} {p : List Key} (hr : rootTy cx locs root = some T0) (hp : tyAt T0 p = some t) :
    ∃ w x, readRoot fr g root = .ok w ∧ valOK T0 w = true ∧ getPath w p = .ok x ∧ valOK t x = true := by
  obtain ⟨w, hw, hwo⟩ := vars_read h hr
  obtain ⟨x, hx, hxo⟩ := path_get hwo hp
  exact ⟨w, x, hw, hwo, hx, hxo⟩

/-- `VarsOK` does not look at the registers -/
theorem vars_regs {cx : Ctx} {locs : Locs} {fr : Frame} {g : Globals} (h : VarsOK cx locs fr g) (d : Nat) (v : Val) :
    VarsOK cx locs (VM.setReg fr d v) g := ⟨h.locals, h.args, h.globals⟩

/-! ## operands -/

section
variable {cx : Ctx} {st : St} {fr : Frame} {g : Globals}

theorem evalVal_nonptr {o : Opd} {v : Val} (h : evalOpd fr o = .ok v) (hn : ∀ r p, v ≠ .ptr r p) :
    evalVal fr g o = .ok v := by
  cases v with
  | ptr r p => exact absurd rfl (hn r p)
  | _ => simp [evalVal, h, bind, Except.bind]

theorem valOK_ne_ptr {t : ITy} {v : Val} (h : valOK t v = true) : ∀ r p, v ≠ .ptr r p := by
  intro r p e
  subst e
  rw [valOK_not_ptr] at h
  cases h

theorem opdValTy_eval (hr : RegsOK cx st fr) {o : Opd} {t : ITy} (h : opdValTy st o = some t) :
    ∃ v, evalOpd fr o = .ok v ∧ valOK t v = true := by
  cases o with
  | ref r =>
    simp only [opdValTy] at h
    split at h
    · rename_i t' hg
      simp only [Option.some.injEq] at h
      subst h
      obtain ⟨v, hv, hvo⟩ := hr r _ hg
      exact ⟨v, by simp [evalOpd, hv], hvo⟩
    · cases h
  | cInt i =>
    simp only [opdValTy, Option.some.injEq] at h
    subst h
    exact ⟨.int i, rfl, rfl⟩
  | cFlt f =>
    simp only [opdValTy, Option.some.injEq] at h
    subst h
    exact ⟨.flt f, rfl, rfl⟩

theorem opdPtr_eval (hr : RegsOK cx st fr) {o : Opd} {t : ITy} {root : Root} (h : opdPtr st o = some (t, root)) :
    ∃ p T0, evalOpd fr o = .ok (.ptr root p) ∧ rootTy cx st.locs root = some T0 ∧ tyAt T0 p = some t := by
  cases o with
  | ref r =>
    simp only [opdPtr] at h
    split at h
    · rename_i t' root' hg
      simp only [Option.some.injEq, Prod.mk.injEq] at h
      obtain ⟨rfl, rfl⟩ := h
      obtain ⟨v, hv, p, T0, rfl, hT0, hp⟩ := hr r _ hg
      exact ⟨p, T0, by simp [evalOpd, hv], hT0, hp⟩
    · cases h
  | cInt i => simp [opdPtr] at h
  | cFlt f => simp [opdPtr] at h

theorem opdTy_eval (hr : RegsOK cx st fr) (hv : VarsOK cx st.locs fr g) {o : Opd} {t : ITy}
    (h : opdTy st o = some t) : ∃ v, evalVal fr g o = .ok v ∧ valOK t v = true := by
  cases o with
  | ref r =>
    simp only [opdTy] at h
    split at h
    · rename_i t' hg
      simp only [Option.some.injEq] at h
      subst h
      obtain ⟨v, hv1, hvo⟩ := hr r _ hg
      exact ⟨v, evalVal_nonptr (by simp [evalOpd, hv1]) (valOK_ne_ptr hvo), hvo⟩
    · rename_i t' root hg
      simp only [Option.some.injEq] at h
      subst h
      obtain ⟨v, hv1, p, T0, rfl, hT0, hp⟩ := hr r _ hg
      obtain ⟨w, x, hw, _, hx, hxo⟩ := ptr_read hv hT0 hp
      exact ⟨x, by simp [evalVal, evalOpd, hv1, hw, hx, bind, Except.bind], hxo⟩
    · cases h
  | cInt i =>
    simp only [opdTy, Option.some.injEq] at h
    subst h
    exact ⟨.int i, rfl, rfl⟩
  | cFlt f =>
    simp only [opdTy, Option.some.injEq] at h
    subst h
    exact ⟨.flt f, rfl, rfl⟩

theorem isIntOpd_eval (hr : RegsOK cx st fr) (hv : VarsOK cx st.locs fr g) {o : Opd} (h : isIntOpd st o = true) :
    ∃ i, evalVal fr g o = .ok (.int i) := by
  unfold isIntOpd at h
  split at h
  · rename_i s ht
    obtain ⟨v, hv1, hvo⟩ := opdTy_eval hr hv ht
    obtain ⟨i, rfl⟩ := scOK_isInt h (by simpa using hvo)
    exact ⟨i, hv1⟩
  · cases h

theorem opdTys_eval (hr : RegsOK cx st fr) (hv : VarsOK cx st.locs fr g) : ∀ {os : List Opd} {ts : List ITy},
    opdTys st os = some ts → ∃ vs, evalVals fr g os = .ok vs ∧ valsOK ts vs = true
  | [], ts, h => by
    simp only [opdTys, Option.some.injEq] at h
    subst h
    exact ⟨[], rfl, rfl⟩
  | o :: os, ts, h => by
    simp only [opdTys] at h
    cases h1 : opdTy st o with
    | none => simp [h1] at h
    | some t =>
      cases h2 : opdTys st os with
      | none => simp [h1, h2] at h
      | some ts' =>
        simp only [h1, h2, Option.some.injEq] at h
        subst h
        obtain ⟨v, hv1, hvo⟩ := opdTy_eval hr hv h1
        obtain ⟨vs, hvs, hvso⟩ := opdTys_eval hr hv h2
        exact ⟨v :: vs, by simp [evalVals, hv1, hvs, bind, Except.bind], by simp [valsOK, hvo, hvso]⟩

theorem fits_eval (hr : RegsOK cx st fr) (hv : VarsOK cx st.locs fr g) {o : Opd} {t : ITy} (h : fits st o t = true) :
    ∃ v, evalVal fr g o = .ok v ∧ valOK t v = true := by
  unfold fits at h
  split at h
  · rename_i a ha
    obtain ⟨v, hv1, hvo⟩ := opdTy_eval hr hv ha
    exact ⟨v, hv1, compat_valOK h hvo⟩
  · cases h

/-- the source operand of a `store*`: an alias, or a tree of the right type -/
theorem srcOK_eval (hr : RegsOK cx st fr) {o : Opd} {t : ITy} (h : srcOK st o t = true) :
    (∃ r p, evalOpd fr o = .ok (.ptr r p)) ∨ ∃ v, evalOpd fr o = .ok v ∧ valOK t v = true := by
  unfold srcOK at h
  simp only [Bool.or_eq_true] at h
  rcases h with h | h
  · left
    cases hp : opdPtr st o with
    | none => simp [hp] at h
    | some q =>
      obtain ⟨t', root⟩ := q
      obtain ⟨p, _, he, _, _⟩ := opdPtr_eval hr hp
      exact ⟨root, p, he⟩
  · right
    split at h
    · rename_i a ha
      obtain ⟨v, hv1, hvo⟩ := opdValTy_eval hr ha
      exact ⟨v, hv1, compat_valOK h hvo⟩
    · cases h

end

/-! ## registers -/

theorem regs_set {cx : Ctx} {st : St} {fr : Frame} (h : RegsOK cx st fr) {v : Val} {ri : RI} (d : Nat)
    (hv : RegOK cx st.locs v ri) : RegsOK cx (setReg st d ri) (VM.setReg fr d v) := by
  intro r ri' hg
  simp only [setReg] at hg
  by_cases hd : d = r
  · subst hd
    rw [Map.get_set_eq] at hg
    simp only [Option.some.injEq] at hg
    subst hg
    exact ⟨v, by simp [VM.setReg], hv⟩
  · rw [Map.get_set_ne _ _ _ _ hd] at hg
    obtain ⟨v', hv', hvo'⟩ := h r ri' hg
    exact ⟨v', by simp only [VM.setReg]; rw [Map.get_set_ne _ _ _ _ hd]; exact hv', hvo'⟩

theorem regs_frame {cx : Ctx} {st : St} {fr fr' : Frame} (h : RegsOK cx st fr) (he : fr'.regs = fr.regs) :
    RegsOK cx st fr' := by
  intro r ri hg
  rw [he]
  exact h r ri hg

theorem inv_set {cx : Ctx} {st : St} {fr : Frame} {g : Globals} (h : InvBody cx st fr g) {v : Val} {ri : RI} (d : Nat)
    (hv : RegOK cx st.locs v ri) : InvBody cx (setReg st d ri) (VM.setReg fr d v) g :=
  ⟨h.live, regs_set h.regs d hv, vars_regs h.vars d v⟩

/-! ## the checker at a position -/

/-- checker state after the first `pc` instructions -/
def stateAt (cx : Ctx) (pc : Nat) : St := (cx.code.take pc).foldl (step cx) {}

theorem stateAt_succ {cx : Ctx} {pc : Nat} {ins : Instr} (hc : cx.code[pc]? = some ins) :
    stateAt cx (pc + 1) = step cx (stateAt cx pc) ins := by
  unfold stateAt
  rw [List.take_add_one, hc]
  simp [List.foldl_append]

theorem checkCode_mid (cx : Ctx) : ∀ (pre : List Instr) (st : St) (ins : Instr) (suf : List Instr),
    checkCode cx st (pre ++ ins :: suf) = true →
    instrOK cx (pre.foldl (step cx) st) ins = true ∧
      ((step cx (pre.foldl (step cx) st) ins).dead = true ∨ tyBeq cx.ret .void = true ∨ suf ≠ [])
  | [], st, ins, suf, h => by
    simp only [List.nil_append, checkCode, Bool.and_eq_true, Bool.or_eq_true] at h
    refine ⟨h.1.1, ?_⟩
    rcases h.1.2 with (h1 | h1) | h1
    · exact Or.inl h1
    · exact Or.inr (Or.inl h1)
    · right; right
      intro e; subst e; simp at h1
  | p :: pre, st, ins, suf, h => by
    simp only [List.cons_append, checkCode, Bool.and_eq_true] at h
    exact checkCode_mid cx pre _ ins suf h.2

theorem checkCode_at {cx : Ctx} (h : checkCode cx {} cx.code = true) {pc : Nat} {ins : Instr}
    (hc : cx.code[pc]? = some ins) :
    instrOK cx (stateAt cx pc) ins = true ∧
      ((stateAt cx (pc + 1)).dead = true ∨ tyBeq cx.ret .void = true ∨ cx.code[pc + 1]? ≠ none) := by
  have hlt : pc < cx.code.length := by
    rcases Nat.lt_or_ge pc cx.code.length with h | h
    · exact h
    · rw [List.getElem?_eq_none h] at hc; cases hc
  have h1 : cx.code[pc] = ins := by
    rw [List.getElem?_eq_getElem hlt] at hc; exact Option.some.inj hc
  have hsplit : cx.code = cx.code.take pc ++ ins :: cx.code.drop (pc + 1) := by
    rw [← h1, ← List.drop_eq_getElem_cons hlt, List.take_append_drop]
  have hm := checkCode_mid cx (cx.code.take pc) {} ins (cx.code.drop (pc + 1)) (by rw [← hsplit]; exact h)
  refine ⟨hm.1, ?_⟩
  rw [stateAt_succ hc]
  rcases hm.2 with h2 | h2 | h2
  · exact Or.inl h2
  · exact Or.inr (Or.inl h2)
  · right; right
    intro hn
    apply h2
    have : cx.code.length ≤ pc + 1 := by simpa using hn
    exact List.drop_eq_nil_of_le this

end IRType
end Nsl
