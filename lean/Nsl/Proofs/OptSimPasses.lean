import Nsl.Proofs.OptSimRun
import Nsl.Proofs.OptSimPres
/-!
# The two passes satisfy the hypotheses of the generic simulation; composition to `optProgram`
-/
namespace Nsl
namespace Opt
open VM WF

theorem constVal_noPtr {o : Opd} {v : Val} (h : constVal o = some v) : Val.isPtr v = false := by
  cases o <;> simp [constVal] at h <;> subst h <;> rfl

/-- A removed cast of a constant: the cast succeeds and yields the folded constant. -/
theorem cc_removedSound (code : List Instr) (σf : Subst) : RemovedSound ccDecide code σf := by
  intro pc ins d o o1 σ1 hc _ hd fr fr' g _ _ _
  obtain ⟨ty, a, rfl, hf⟩ := ccDecide_removable hd
  obtain ⟨x, y, hx, hy, hcast⟩ := foldCast_sound hf
  refine ⟨y, fun cf => step_cast hc (evalOpd_const hx) (constVal_noPtr hx) hcast, evalOpd_const hy, ?_⟩
  intro s hs
  subst hs
  simp [constVal] at hy

/-- A removed load after a store: the load succeeds and reads the value of the stored operand, whose rewired
image evaluates to the same value in the optimised frame. -/
theorem las_removedSound {code out : List Instr} {σf : Subst} (hs : scan lasDecide none code [] = (out, σf))
    (hnd : (defs code).Nodup) (hf : forwardOK none code = true) : RemovedSound lasDecide code σf := by
  intro pc ins d o o1 σ1 hc h1 hd fr fr' g _ _ hb
  obtain ⟨ty, sc, var, sc', src, rfl, hprev, rfl⟩ := lasDecide_removable hd
  obtain ⟨rfl, hna⟩ := forwardOK_at hf hc hprev
  obtain ⟨⟨root, v, hroot, hread, hsrc⟩, hsrcseen⟩ := hb.2 sc' var src hprev
  refine ⟨v, fun cf => step_load hc hroot hread hna, ?_, ?_⟩
  · cases src with
    | ref s =>
      have hseen := hsrcseen s rfl
      obtain ⟨y, hy, hey, _⟩ := hb.1 s hseen
      have hst := stable_at lasDecide_def hs hnd hc h1 s (seen_sub_defs hseen)
      have : substOpd σ1 (.ref s) = substOpd σf (.ref s) := by simp only [substOpd, hst]
      rw [this, hey]
      simp only [evalOpd, hy] at hsrc
      exact hsrc
    | cInt i => exact hsrc
    | cFlt f => exact hsrc
  · intro s' hs'
    cases src with
    | ref s =>
      have hseen := hsrcseen s rfl
      obtain ⟨y, hy, hey, hrefs⟩ := hb.1 s hseen
      have hst := stable_at lasDecide_def hs hnd hc h1 s (seen_sub_defs hseen)
      have : substOpd σ1 (.ref s) = substOpd σf (.ref s) := by simp only [substOpd, hst]
      rw [this] at hs'
      exact hrefs s' hs'
    | cInt i => simp [substOpd] at hs'
    | cFlt f => simp [substOpd] at hs'

theorem distinct_nodup : ∀ (l : List Nat), distinct l = true → l.Nodup
  | [], _ => List.nodup_nil
  | x :: xs, h => by
    simp only [distinct, Bool.and_eq_true, Bool.not_eq_true', List.contains_eq_mem, decide_eq_false_iff_not] at h
    exact List.nodup_cons.2 ⟨h.1, distinct_nodup xs h.2⟩

theorem defsDistinct_nodup {code : List Instr} (h : defsDistinct code = true) : (defs code).Nodup :=
  distinct_nodup _ h

/-! ## invocation level -/

theorem pass_invoke_sim {decide : Option Instr → Instr → Subst → Option (Nat × Opd)} (hdef : DecideDef decide)
    (P : Program) (hOK : ∀ f ∈ P.funcs, FnOK decide f) (fuel : Nat) (name : String) (args : List Val) (g : Globals)
    (hne : invoke P fuel name args g ≠ .fail .timeout) :
    invoke (passProgram decide P) fuel name args g = invoke P fuel name args g := by
  unfold invoke at hne ⊢
  rw [find_passProgram]
  cases hf : P.find name with
  | none => rfl
  | some fn =>
    simp only [hf, Option.map] at hne ⊢
    have hmem : fn ∈ P.funcs := List.mem_of_find?_eq_some hf
    rcases hsc : scan decide none fn.code [] with ⟨out, σf⟩
    have := run_sim hdef P hOK fuel fn hmem out σf hsc 0 { args := args } { args := args } g (inv_entry _ _ _ _) hne
    rw [kpos_zero] at this
    exact this

theorem optProgram_eq (P : Program) : optProgram P = passProgram lasDecide (passProgram ccDecide P) := by
  unfold optProgram passProgram
  simp only [List.map_map]
  rfl

theorem optOK_cc {f : Func} (h : optOK f = true) : FnOK ccDecide f := by
  simp only [optOK, Bool.and_eq_true] at h
  exact ⟨h.1.1, defsDistinct_nodup h.2, fun _ σf _ => cc_removedSound _ σf⟩

/-- the side conditions for the intermediate code (after the constant-cast pass) follow by preservation -/
theorem optOK_las {f : Func} (h : optOK f = true) : FnOK lasDecide (passFn ccDecide f) := by
  simp only [optOK, Bool.and_eq_true] at h
  have hnd := defsDistinct_nodup h.2
  have hnd' : (defs (pass ccDecide f.code)).Nodup := pass_defs_nodup ccDecide hnd
  exact ⟨pass_cc_blockLocal h.1.1 hnd, hnd', fun _ _ hs => las_removedSound hs hnd' h.1.2⟩

/-- Both passes together: every outcome other than running out of fuel is reproduced with the same fuel. -/
theorem optProgram_invoke_sim (P : Program) (hok : ∀ f ∈ P.funcs, optOK f = true)
    (fuel : Nat) (name : String) (args : List Val) (g : Globals)
    (hne : invoke P fuel name args g ≠ .fail .timeout) :
    invoke (optProgram P) fuel name args g = invoke P fuel name args g := by
  have h1 := pass_invoke_sim ccDecide_def P (fun f hf => optOK_cc (hok f hf)) fuel name args g hne
  have h2 := pass_invoke_sim lasDecide_def (passProgram ccDecide P)
    (by
      intro f1 hf1
      simp only [passProgram, List.mem_map] at hf1
      obtain ⟨f, hf, rfl⟩ := hf1
      exact optOK_las (hok f hf)) fuel name args g (by rw [h1]; exact hne)
  rw [optProgram_eq, h2, h1]

end Opt
end Nsl
