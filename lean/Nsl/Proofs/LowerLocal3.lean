import Nsl.Proofs.LowerLocal2
/-!
# The lowering model produces forwardable code — part 3: `forwardOK`

`forwardOK` looks at a `store sc' var' _` DIRECTLY followed by a `load _ ty sc var` with `var' = var` and demands
`sc' = sc` and a non-aggregate `ty`.  The cast pass that runs first can delete instructions between a store and a load,
so adjacency in the lowered code is not the right invariant; instead we prove a position-independent one:

  every load/store of the lowered function accesses a `(scope, key)` pair of `accS body` (the variable accesses of the
  source function), and every load has a scalar type (`AccP`).

It is inherited by sublists and by `substInstr` (hence by `pass decide code` for ANY `decide`), and together with
`scopesAgree (accS body)` — no key is accessed under two different scopes inside one function — it gives `forwardOK`
for every `prev` and every code list.

`ScalarCore` alone does NOT give `forwardOK` (see `Props/LowerOK.lean`, `LowerOKEx.shadow`): the typed core resolves
`x` to `.var .local (.name "x")` or `.var .global (.name "x")`, and both may occur in one function, e.g.
`x_local = 1; return x_global;` lowers to `store local x 1; load r int global x; …`.
-/
namespace Nsl
namespace Core

/-! (the additional decidable hypothesis `NoShadow` — `accE`, `accS`, `scopesAgree`, `noShadowFn` — is defined in
`Nsl/Model/ScalarCore.lean`) -/

end Core

namespace Lower
open Core Opt WF

/-! ## The access invariant of lowered code -/

/-- Loads and stores access pairs of `V`; loads are not aggregate aliases. -/
def AccP (V : List (Scope × VarKey)) (ins : Instr) : Prop :=
  match ins with
  | .load _ ty sc var => (sc, var) ∈ V ∧ ty.isAggregate = false
  | .store sc var _ => (sc, var) ∈ V
  | _ => True

def AccIn (V : List (Scope × VarKey)) (c : List Instr) : Prop := ∀ ins ∈ c, AccP V ins

theorem AccIn.nil (V : List (Scope × VarKey)) : AccIn V [] := by intro i hi; cases hi

theorem AccIn.append {V : List (Scope × VarKey)} {a b : List Instr} (ha : AccIn V a) (hb : AccIn V b) :
    AccIn V (a ++ b) := by
  intro i hi
  rcases List.mem_append.1 hi with h | h
  · exact ha i h
  · exact hb i h

theorem AccIn.single {V : List (Scope × VarKey)} {ins : Instr} (h : AccP V ins) : AccIn V [ins] := by
  intro i hi
  simp only [List.mem_cons, List.not_mem_nil, or_false] at hi
  subst hi; exact h

theorem AccIn.snoc {V : List (Scope × VarKey)} {c : List Instr} {ins : Instr} (hc : AccIn V c) (h : AccP V ins) :
    AccIn V (c ++ [ins]) := hc.append (AccIn.single h)

theorem AccIn_append_iff (V : List (Scope × VarKey)) (a b : List Instr) :
    AccIn V (a ++ b) ↔ AccIn V a ∧ AccIn V b := by
  simp only [AccIn, List.mem_append]
  exact ⟨fun h => ⟨fun i hi => h i (Or.inl hi), fun i hi => h i (Or.inr hi)⟩,
    fun h i hi => hi.elim (h.1 i) (h.2 i)⟩

theorem AccIn_cons_iff (V : List (Scope × VarKey)) (x : Instr) (l : List Instr) :
    AccIn V (x :: l) ↔ AccP V x ∧ AccIn V l := by
  simp only [AccIn, List.mem_cons]
  exact ⟨fun h => ⟨h x (Or.inl rfl), fun i hi => h i (Or.inr hi)⟩,
    fun h i hi => hi.elim (fun e => e ▸ h.1) (h.2 i)⟩

theorem isAggregate_of_isScalar {ty : ITy} (h : ty.isScalar = true) : ty.isAggregate = false := by
  cases ty <;> simp_all [ITy.isScalar, ITy.isAggregate]

theorem AccP_substInstr (V : List (Scope × VarKey)) (σ : Subst) (ins : Instr) :
    AccP V (substInstr σ ins) ↔ AccP V ins := by
  cases ins <;> first | exact Iff.rfl | (rename_i o; cases o <;> exact Iff.rfl)

/-- Any pass (it keeps a sublist and rewires operands) preserves the access invariant. -/
theorem AccIn.pass {V : List (Scope × VarKey)} {code : List Instr} (h : AccIn V code)
    (decide : Option Instr → Instr → Subst → Option (Nat × Opd)) : AccIn V (pass decide code) := by
  rcases hs : scan decide none code [] with ⟨out, σ⟩
  rw [pass_eq hs]
  intro i hi
  obtain ⟨j, hj, rfl⟩ := List.mem_map.1 hi
  have hsub := scan_sublist decide code none []
  rw [hs] at hsub
  exact (AccP_substInstr V σ j).2 (h j (hsub.subset hj))

theorem scopesAgree_spec {V : List (Scope × VarKey)} (hV : scopesAgree V = true) {sc sc' : Scope} {key : VarKey}
    (h1 : (sc', key) ∈ V) (h2 : (sc, key) ∈ V) : sc' = sc := by
  simp only [scopesAgree, List.all_eq_true] at hV
  have := hV _ h1 _ h2
  simpa using this

/-- The access invariant with agreeing scopes implies `forwardOK`, whatever the previous instruction. -/
theorem forwardOK_of_acc {V : List (Scope × VarKey)} (hV : scopesAgree V = true) :
    ∀ (c : List Instr) (prev : Option Instr), (∀ p, prev = some p → AccP V p) → AccIn V c → forwardOK prev c = true
  | [], _, _, _ => rfl
  | ins :: rest, prev, hp, hc => by
    have hrest := forwardOK_of_acc hV rest (some ins)
      (by intro p hp'; cases hp'; exact hc ins List.mem_cons_self)
      (fun i hi => hc i (List.mem_cons_of_mem _ hi))
    have hins := hc ins List.mem_cons_self
    cases ins with
    | load d ty sc var =>
      cases prev with
      | none => simp [forwardOK, hrest]
      | some p =>
        have hp' := hp p rfl
        cases p with
        | store sc' var' src =>
          simp only [AccP] at hp' hins
          simp only [forwardOK, hrest, Bool.and_true]
          split
          · next hv =>
            subst hv
            have := scopesAgree_spec hV hp' hins.1
            subst this
            simp [hins.2]
          · rfl
        | _ => simp [forwardOK, hrest]
    | _ => simp [forwardOK, hrest]

/-! ## Lowered expressions and statements satisfy the access invariant -/

mutual
  theorem lowerE_acc (V : List (Scope × VarKey)) : ∀ (e : Expr), okE e = true → (∀ a ∈ accE e, a ∈ V) →
      ∀ (k : Nat) (c : List Instr) (o : Opd) (k' : Nat), lowerE e k = (c, o, k') → AccIn V c
    | .litI i, _, _, k, c, o, k', h => by
      simp only [lowerE, Prod.mk.injEq] at h
      obtain ⟨rfl, rfl, rfl⟩ := h
      exact AccIn.nil V
    | .litF f, _, _, k, c, o, k', h => by
      simp only [lowerE, Prod.mk.injEq] at h
      obtain ⟨rfl, rfl, rfl⟩ := h
      exact AccIn.nil V
    | .var sc key ty, hok, hV, k, c, o, k', h => by
      simp only [okE, Bool.and_eq_true] at hok
      simp only [lowerE, Prod.mk.injEq] at h
      obtain ⟨rfl, rfl, rfl⟩ := h
      exact AccIn.single ⟨hV _ (by simp [accE]), isAggregate_of_isScalar hok.1⟩
    | .bin op ty l r, hok, hV, k, c, o, k', h => by
      simp only [okE, Bool.and_eq_true] at hok
      obtain ⟨⟨⟨⟨hty, hl⟩, hr⟩, hokl⟩, hokr⟩ := hok
      rcases hel : lowerE l k with ⟨cl, vl, k1⟩
      rcases her : lowerE r k1 with ⟨cr, vr, k2⟩
      have il := lowerE_acc V l hokl (fun a ha => hV a (by simp [accE, ha])) k cl vl k1 hel
      have ir := lowerE_acc V r hokr (fun a ha => hV a (by simp [accE, ha])) k1 cr vr k2 her
      have hml : (Expr.ty l).isMatrix = false := by cases hh : Expr.ty l <;> simp_all [ITy.isScalar, ITy.isMatrix]
      have hmr : (Expr.ty r).isMatrix = false := by cases hh : Expr.ty r <;> simp_all [ITy.isScalar, ITy.isMatrix]
      simp only [lowerE, hel, her, hml, hmr, Bool.false_and, Bool.and_false, Bool.false_eq_true, if_false,
        Prod.mk.injEq, mkBin_scalar' _ _ _ _ _ _ _ hty] at h
      obtain ⟨rfl, rfl, rfl⟩ := h
      exact (il.append ir).snoc trivial
    | .cast ty e, hok, hV, k, c, o, k', h => by
      simp only [okE, Bool.and_eq_true] at hok
      rcases he : lowerE e k with ⟨c1, v1, k1⟩
      have ie := lowerE_acc V e hok.2 (fun a ha => hV a (by simpa [accE] using ha)) k c1 v1 k1 he
      simp only [lowerE, he, Prod.mk.injEq] at h
      obtain ⟨rfl, rfl, rfl⟩ := h
      exact ie.snoc trivial
    | .assign lhs rhs, hok, hV, k, c, o, k', h => by
      simp only [okE, Bool.and_eq_true] at hok
      obtain ⟨sc, key, ty, rfl, _, _⟩ := okVar_inv hok.1
      rcases he : lowerE rhs k with ⟨c1, v1, k1⟩
      have ie := lowerE_acc V rhs hok.2 (fun a ha => hV a (by simp [accE, ha])) k c1 v1 k1 he
      simp only [lowerE, he, lowerStore_var, Prod.mk.injEq] at h
      obtain ⟨rfl, rfl, rfl⟩ := h
      exact ie.snoc (hV (sc, key) (by simp [accE]))
    | .affix post inc x, hok, hV, k, c, o, k', h => by
      simp only [okE] at hok
      obtain ⟨sc, key, ty, rfl, hty, _⟩ := okVar_inv hok
      simp only [lowerE, lowerStore_var, Prod.mk.injEq] at h
      obtain ⟨rfl, rfl, rfl⟩ := h
      have hm : (sc, key) ∈ V := hV (sc, key) (by simp [accE])
      have ha := isAggregate_of_isScalar hty
      simp only [AccIn_append_iff, AccIn_cons_iff, AccP, hm, ha, AccIn.nil, and_self]
    | .call fn ty args, hok, hV, k, c, o, k', h => by
      simp only [okE] at hok
      rcases ha : lowerArgs args k with ⟨c1, vs, k1⟩
      have ia := lowerArgs_acc V args hok (fun a ha' => hV a (by simpa [accE] using ha')) k c1 vs k1 ha
      simp only [lowerE, ha, Prod.mk.injEq] at h
      obtain ⟨rfl, rfl, rfl⟩ := h
      exact ia.snoc trivial
    | .index _ _ _ _, hok, _, _, _, _, _, _ => by simp [okE] at hok
    | .member _ _ _, hok, _, _, _, _, _, _ => by simp [okE] at hok
    | .swizzle _ _ _, hok, _, _, _, _, _, _ => by simp [okE] at hok
    | .construct _ _, hok, _, _, _, _, _, _ => by simp [okE] at hok
  theorem lowerArgs_acc (V : List (Scope × VarKey)) : ∀ (as : Args), okArgs as = true → (∀ a ∈ accArgs as, a ∈ V) →
      ∀ (k : Nat) (c : List Instr) (os : List Opd) (k' : Nat), lowerArgs as k = (c, os, k') → AccIn V c
    | .nil, _, _, k, c, os, k', h => by
      simp only [lowerArgs, Prod.mk.injEq] at h
      obtain ⟨rfl, rfl, rfl⟩ := h
      exact AccIn.nil V
    | .cons e rest, hok, hV, k, c, os, k', h => by
      simp only [okArgs, Bool.and_eq_true] at hok
      rcases he : lowerE e k with ⟨c1, v1, k1⟩
      rcases hr : lowerArgs rest k1 with ⟨c2, vs, k2⟩
      have ie := lowerE_acc V e hok.1 (fun a ha => hV a (by simp [accArgs, ha])) k c1 v1 k1 he
      have ir := lowerArgs_acc V rest hok.2 (fun a ha => hV a (by simp [accArgs, ha])) k1 c2 vs k2 hr
      simp only [lowerArgs, he, hr, Prod.mk.injEq] at h
      obtain ⟨rfl, rfl, rfl⟩ := h
      exact ie.append ir
end

theorem lowerOptE_acc (V : List (Scope × VarKey)) : ∀ (oe : Option Expr), okOptE oe = true →
    (∀ a ∈ accOptE oe, a ∈ V) → ∀ (k : Nat) (c : List Instr) (o : Option Opd) (k' : Nat),
    lowerOptE oe k = (c, o, k') → AccIn V c
  | none, _, _, k, c, o, k', h => by
    simp only [lowerOptE, Prod.mk.injEq] at h
    obtain ⟨rfl, rfl, rfl⟩ := h
    exact AccIn.nil V
  | some e, hok, hV, k, c, o, k', h => by
    rcases he : lowerE e k with ⟨c1, v1, k1⟩
    have ie := lowerE_acc V e hok hV k c1 v1 k1 he
    simp only [lowerOptE, he, Prod.mk.injEq] at h
    obtain ⟨rfl, rfl, rfl⟩ := h
    exact ie

theorem AccP_forBranch (V : List (Scope × VarKey)) (o : Option Opd) (a b : Nat) : AccP V (forBranch o a b) := by
  cases o <;> trivial

/-- Reassembles `AccIn` of a statement's code from `AccIn` of its pieces (hypotheses in the context). -/
macro "acc_close" : tactic => `(tactic| (
  simp only [AccIn_append_iff, AccIn_cons_iff, AccP_forBranch]
  simp only [AccP, *, and_self, AccIn.nil]))

theorem lowerS_acc (V : List (Scope × VarKey)) : ∀ (s : Stmt) (inLoop : Bool), okS inLoop s = true →
    (∀ a ∈ accS s, a ∈ V) → ∀ (brk cont : Option Nat) (k : Nat) (c : List Instr) (k' : Nat),
    lowerS brk cont s k = (c, k') → AccIn V c
  | .skip, _, _, _, brk, cont, k, c, k', h => by
    simp only [lowerS, Prod.mk.injEq] at h
    obtain ⟨rfl, rfl⟩ := h
    exact AccIn.nil V
  | .decl name ty none, _, _, _, brk, cont, k, c, k', h => by
    simp only [lowerS, Prod.mk.injEq] at h
    obtain ⟨rfl, rfl⟩ := h
    exact AccIn.single trivial
  | .decl name ty (some e), _, hok, hV, brk, cont, k, c, k', h => by
    simp only [okS, Bool.and_eq_true] at hok
    rcases he : lowerE e (k + 1) with ⟨c1, v1, k1⟩
    have ie := lowerE_acc V e hok.2 (fun a ha => hV a (by simp [accS, ha])) (k + 1) c1 v1 k1 he
    simp only [lowerS, he, Prod.mk.injEq] at h
    obtain ⟨rfl, rfl⟩ := h
    exact ((AccIn.single (ins := .newVar k ty name) trivial).append ie).snoc (hV _ (by simp [accS]))
  | .expr e, _, hok, hV, brk, cont, k, c, k', h => by
    simp only [okS] at hok
    rcases he : lowerE e k with ⟨c1, v1, k1⟩
    have ie := lowerE_acc V e hok (fun a ha => hV a (by simpa [accS] using ha)) k c1 v1 k1 he
    simp only [lowerS, he, Prod.mk.injEq] at h
    obtain ⟨rfl, rfl⟩ := h
    exact ie
  | .seq a b, il, hok, hV, brk, cont, k, c, k', h => by
    simp only [okS, Bool.and_eq_true] at hok
    rcases ha : lowerS brk cont a k with ⟨ca, k1⟩
    rcases hb : lowerS brk cont b k1 with ⟨cb, k2⟩
    have ia := lowerS_acc V a il hok.1 (fun x hx => hV x (by simp [accS, hx])) brk cont k ca k1 ha
    have ib := lowerS_acc V b il hok.2 (fun x hx => hV x (by simp [accS, hx])) brk cont k1 cb k2 hb
    simp only [lowerS, ha, hb, Prod.mk.injEq] at h
    obtain ⟨rfl, rfl⟩ := h
    exact ia.append ib
  | .ite1 cnd t, il, hok, hV, brk, cont, k, c, k', h => by
    simp only [okS, Bool.and_eq_true] at hok
    rcases hc : lowerE cnd k with ⟨cc, v, k1⟩
    rcases ht : lowerS brk cont t (k1 + 2) with ⟨ct, k2⟩
    have ic := lowerE_acc V cnd hok.1 (fun x hx => hV x (by simp [accS, hx])) k cc v k1 hc
    have it := lowerS_acc V t il hok.2 (fun x hx => hV x (by simp [accS, hx])) brk cont (k1 + 2) ct k2 ht
    simp only [lowerS, hc, ht, Prod.mk.injEq] at h
    obtain ⟨rfl, rfl⟩ := h
    acc_close
  | .ite2 cnd t e, il, hok, hV, brk, cont, k, c, k', h => by
    simp only [okS, Bool.and_eq_true] at hok
    rcases hc : lowerE cnd k with ⟨cc, v, k1⟩
    rcases ht : lowerS brk cont t (k1 + 3) with ⟨ct, k2⟩
    rcases hel : lowerS brk cont e k2 with ⟨ce, k3⟩
    have ic := lowerE_acc V cnd hok.1.1 (fun x hx => hV x (by simp [accS, hx])) k cc v k1 hc
    have it := lowerS_acc V t il hok.1.2 (fun x hx => hV x (by simp [accS, hx])) brk cont (k1 + 3) ct k2 ht
    have ie := lowerS_acc V e il hok.2 (fun x hx => hV x (by simp [accS, hx])) brk cont k2 ce k3 hel
    simp only [lowerS, hc, ht, hel, Prod.mk.injEq] at h
    obtain ⟨rfl, rfl⟩ := h
    acc_close
  | .whileL cnd body, il, hok, hV, brk, cont, k, c, k', h => by
    simp only [okS, Bool.and_eq_true] at hok
    rcases hc : lowerE cnd (k + 3) with ⟨cc, v, k1⟩
    rcases hb : lowerS (some (k + 2)) (some k) body k1 with ⟨cb, k2⟩
    have ic := lowerE_acc V cnd hok.1 (fun x hx => hV x (by simp [accS, hx])) (k + 3) cc v k1 hc
    have ib := lowerS_acc V body true hok.2 (fun x hx => hV x (by simp [accS, hx])) (some (k + 2)) (some k) k1 cb k2 hb
    simp only [lowerS, hc, hb, Prod.mk.injEq] at h
    obtain ⟨rfl, rfl⟩ := h
    acc_close
  | .doL body cnd, il, hok, hV, brk, cont, k, c, k', h => by
    simp only [okS, Bool.and_eq_true] at hok
    rcases hb : lowerS (some (k + 2)) (some (k + 1)) body (k + 3) with ⟨cb, k1⟩
    rcases hc : lowerE cnd k1 with ⟨cc, v, k2⟩
    have ib := lowerS_acc V body true hok.1 (fun x hx => hV x (by simp [accS, hx])) (some (k + 2)) (some (k + 1))
      (k + 3) cb k1 hb
    have ic := lowerE_acc V cnd hok.2 (fun x hx => hV x (by simp [accS, hx])) k1 cc v k2 hc
    simp only [lowerS, hc, hb, Prod.mk.injEq] at h
    obtain ⟨rfl, rfl⟩ := h
    acc_close
  | .forL init cnd next body, il, hok, hV, brk, cont, k, c, k', h => by
    simp only [okS, Bool.and_eq_true] at hok
    obtain ⟨⟨⟨hoki, hokc⟩, hokn⟩, hokb⟩ := hok
    rcases hi : lowerS brk cont init k with ⟨ci, k0⟩
    rcases hc : lowerOptE cnd (k0 + 4) with ⟨cc, v, k1⟩
    rcases hb : lowerS (some (k0 + 3)) (some (k0 + 2)) body k1 with ⟨cb, k2⟩
    rcases hn : lowerOptE next k2 with ⟨cn, vn, k3⟩
    have ii := lowerS_acc V init il hoki (fun x hx => hV x (by simp [accS, hx])) brk cont k ci k0 hi
    have ic := lowerOptE_acc V cnd hokc (fun x hx => hV x (by simp [accS, hx])) (k0 + 4) cc v k1 hc
    have ib := lowerS_acc V body true hokb (fun x hx => hV x (by simp [accS, hx])) (some (k0 + 3)) (some (k0 + 2))
      k1 cb k2 hb
    have inx := lowerOptE_acc V next hokn (fun x hx => hV x (by simp [accS, hx])) k2 cn vn k3 hn
    simp only [lowerS, hi, hc, hb, hn, Prod.mk.injEq] at h
    obtain ⟨rfl, rfl⟩ := h
    acc_close
  | .brk, _, _, _, brk, cont, k, c, k', h => by
    simp only [lowerS, Prod.mk.injEq] at h
    obtain ⟨rfl, rfl⟩ := h
    exact AccIn.single trivial
  | .cont, _, _, _, brk, cont, k, c, k', h => by
    simp only [lowerS, Prod.mk.injEq] at h
    obtain ⟨rfl, rfl⟩ := h
    exact AccIn.single trivial
  | .ret none, _, _, _, brk, cont, k, c, k', h => by
    simp only [lowerS, Prod.mk.injEq] at h
    obtain ⟨rfl, rfl⟩ := h
    exact AccIn.single trivial
  | .ret (some e), _, hok, hV, brk, cont, k, c, k', h => by
    simp only [okS] at hok
    rcases he : lowerE e k with ⟨c1, v1, k1⟩
    have ie := lowerE_acc V e hok (fun a ha => hV a (by simpa [accS] using ha)) k c1 v1 k1 he
    simp only [lowerS, he, Prod.mk.injEq] at h
    obtain ⟨rfl, rfl⟩ := h
    exact ie.snoc trivial

/-! ## Functions -/

theorem lowerFn_acc (f : FnDef) (h : okFn f = true) : AccIn (accS f.body) (lowerFn f).code := by
  rcases hl : lowerS none none f.body 0 with ⟨c, k'⟩
  have := lowerS_acc (accS f.body) f.body false h (fun _ ha => ha) none none 0 c k' hl
  simpa [lowerFn, hl] using this

/-- `forwardOK` holds after ANY pass and from any admissible `prev`; in particular for the code the cast pass leaves. -/
theorem lowerFn_forwardOK (f : FnDef) (h : okFn f = true) (hs : noShadowFn f = true) :
    forwardOK none (pass ccDecide (lowerFn f).code) = true :=
  forwardOK_of_acc hs _ none (by intro p hp; cases hp) ((lowerFn_acc f h).pass ccDecide)

/-- … and also for the unoptimised code. -/
theorem lowerFn_forwardOK_raw (f : FnDef) (h : okFn f = true) (hs : noShadowFn f = true) :
    forwardOK none (lowerFn f).code = true :=
  forwardOK_of_acc hs _ none (by intro p hp; cases hp) (lowerFn_acc f h)

theorem lowerFn_optOK (f : FnDef) (h : okFn f = true) (hs : noShadowFn f = true) : optOK (lowerFn f) = true := by
  simp only [optOK, Bool.and_eq_true]
  exact ⟨⟨lowerFn_blockLocal f h, lowerFn_forwardOK f h hs⟩, lowerFn_defsDistinct f h⟩

end Lower
end Nsl
