import Nsl.Proofs.WasmInt
/-!
# Unsigned-integer straight-line code incl. `/` and comparisons: the generated WebAssembly agrees with a VM run that
stays inside the unsigned 32-bit domain (helper lemmas for `C06_agree_uint`; mirrors `WasmInt.lean`)
-/
namespace Nsl.Wasm
open VM

/-! ## `runRU` -/

theorem runRU_zero (P : Program) (fn : Func) (pc : Nat) (fr : Frame) (g : Globals) :
    runRU P 0 fn pc fr g = .fail .timeout := by
  rw [runRU]

theorem runRU_succ (P : Program) (fuel : Nat) (fn : Func) (pc : Nat) (fr : Frame) (g : Globals) :
    runRU P (fuel + 1) fn pc fr g =
      match stepI (callD P fuel) fn.code pc fr g with
      | .next pc' fr' g' =>
        if frameU32 fr' then runRU P fuel fn pc' fr' g' else .fail (.unsupported "outside-u32")
      | .ret v g' as => .done v g' as
      | .fail e => .fail e := by
  rw [runRU]; rfl

/-- The range check only ever turns a run into a failure: a finished range-checked run is a finished run of the
real VM with the same result. -/
theorem runRU_run {P : Program} : ∀ (fuel : Nat) {fn : Func} {pc : Nat} {fr : Frame} {g : Globals}
    {v : Val} {g' : Globals} {as : List Val},
    runRU P fuel fn pc fr g = .done v g' as → run P fuel fn pc fr g = .done v g' as
  | 0, fn, pc, fr, g, v, g', as, h => by rw [runRU_zero] at h; cases h
  | n + 1, fn, pc, fr, g, v, g', as, h => by
    rw [runRU_succ] at h
    rw [run_succ]
    cases hs : stepI (callD P n) fn.code pc fr g with
    | next pc' fr' g1 =>
      simp only [hs] at h ⊢
      by_cases hf : frameU32 fr' = true
      · rw [if_pos hf] at h
        exact runRU_run n h
      · rw [if_neg hf] at h; cases h
    | ret v1 g1 as1 => simpa [hs] using h
    | fail e => simp [hs] at h

theorem runRU_done_inv {Pg : Program} {fuel : Nat} {f : Func} {pc : Nat} {fr : VM.Frame}
    {g : Globals} {rv : Val} {g' : Globals} {as : List Val}
    (h : runRU Pg fuel f pc fr g = .done rv g' as) :
    ∃ fuel', fuel = fuel' + 1 ∧
      ((∃ pc' fr' g1, stepI (callD Pg fuel') f.code pc fr g = .next pc' fr' g1 ∧
          frameU32 fr' = true ∧ runRU Pg fuel' f pc' fr' g1 = .done rv g' as) ∨
       stepI (callD Pg fuel') f.code pc fr g = .ret rv g' as) := by
  cases fuel with
  | zero => rw [runRU_zero] at h; cases h
  | succ n =>
    refine ⟨n, rfl, ?_⟩
    rw [runRU_succ] at h
    cases hs : stepI (callD Pg n) f.code pc fr g with
    | next pc' fr' g1 =>
      simp only [hs] at h
      by_cases hf : frameU32 fr' = true
      · rw [if_pos hf] at h
        exact .inl ⟨pc', fr', g1, rfl, hf, h⟩
      · rw [if_neg hf] at h; cases h
    | ret v g1 as1 =>
      simp only [hs, Res.done.injEq] at h
      obtain ⟨rfl, rfl, rfl⟩ := h
      exact .inr rfl
    | fail e => simp [hs] at h

/-! ## Range facts -/

theorem Map.mem_of_get_u {κ ν : Type} [DecidableEq κ] : ∀ (m : Map κ ν) (k : κ) (v : ν),
    Map.get m k = some v → (k, v) ∈ m
  | [], _, _, h => by simp at h
  | (k', v') :: rest, k, v, h => by
    simp only [Map.get] at h
    by_cases hk : k' = k
    · subst hk
      simp only [if_true, Option.some.injEq] at h
      subst h
      exact List.mem_cons_self
    · simp only [hk, if_false] at h
      exact List.mem_cons_of_mem _ (Map.mem_of_get rest k v h)

theorem frameU32_reg {fr : Frame} (h : frameU32 fr = true) {r : Nat} {x : Int}
    (hr : Map.get fr.regs r = some (.int x)) : inU32 x := by
  simp only [frameU32, Bool.and_eq_true, List.all_eq_true] at h
  have := h.2 _ (Map.mem_of_get _ _ _ hr)
  simpa [valU32] using this

theorem frameU32_setReg {fr : Frame} {dst : Nat} {z : Int}
    (h : frameU32 (setReg fr dst (.int z)) = true) : inU32 z :=
  frameU32_reg h (r := dst) (by simp [setReg])

theorem uOpd_ring {o : Opd} (h : uOpd o = true) : ringOpd o = true := by
  cases o <;> simp_all [uOpd, ringOpd]

/-- An operand of unsigned code that the generator could push evaluates to an unsigned 32-bit number in a frame that
is in range: a reference by the frame invariant, a constant because it is non-negative and below 2^31. -/
theorem opd_inU32 {fb argc ents} {fr : Frame} {o : Opd} {w : WInstr} {x : Int}
    (hS : frameU32 fr = true) (hu : uOpd o = true) (hp : pushOpd fb argc ents o = .ok w)
    (hv : evalOpd fr o = .ok (.int x)) : inU32 x := by
  cases o with
  | ref r =>
    simp only [evalOpd] at hv
    cases hg : Map.get fr.regs r with
    | none => simp [hg] at hv
    | some v' =>
      simp only [hg, Except.ok.injEq] at hv; subst hv
      exact frameU32_reg hS hg
  | cInt c =>
    simp only [evalOpd, Except.ok.injEq, Val.int.injEq] at hv; subst hv
    simp only [uOpd, decide_eq_true_eq] at hu
    simp only [pushOpd] at hp
    split at hp
    · rename_i hr
      unfold inU32
      omega
    · cases hp
  | cFlt f => simp [evalOpd] at hv

/-! ## All locals of an integer function hold `int`s -/

def entsUInt (ents : List Entry) : Prop := ∀ e ∈ ents, e.2 = .sc .uint

theorem isUIntTy_eq {t : ITy} (h : isUIntTy t = true) : t = .sc .uint := by
  cases t with
  | sc s => cases s <;> simp [isUIntTy] at h <;> rfl
  | _ => simp [isUIntTy] at h

theorem isUIntTy_isI32 {t : ITy} (h : isUIntTy t = true) : isI32Ty t = true := by
  rw [isUIntTy_eq h]; rfl

theorem entsUInt_addEntry {acc : List Entry} {e : Entry} (ha : entsUInt acc) (he : e.2 = .sc .uint) :
    entsUInt (addEntry acc e) := by
  unfold addEntry
  have : entsUInt (acc ++ [e]) := by
    intro e' h'
    simp only [List.mem_append, List.mem_singleton] at h'
    rcases h' with h' | h'
    · exact ha e' h'
    · subst h'; exact he
  split
  · split
    · exact ha
    · exact this
  · exact this

theorem collectEntries_uint {params : List (String × ITy)}
    (hp : params.all (fun p => isUIntTy p.2) = true) :
    ∀ (code : List Instr) (acc ents : List Entry), code.all uintInstr = true → entsUInt acc →
      collectEntries params code acc = .ok ents → entsUInt ents
  | [], acc, ents, _, ha, h => by
    simp only [collectEntries, Except.ok.injEq] at h; subst h; exact ha
  | i :: is, acc, ents, hc, ha, h => by
    simp only [List.all_cons, Bool.and_eq_true] at hc
    obtain ⟨hi, his⟩ := hc
    simp only [collectEntries] at h
    cases he : instrEntry params i with
    | error e => simp [he] at h
    | ok oe =>
      cases oe with
      | none =>
        simp only [he] at h
        exact collectEntries_uint hp is acc ents his ha h
      | some e =>
        simp only [he] at h
        refine collectEntries_uint hp is (addEntry acc e) ents his (entsUInt_addEntry ha ?_) h
        -- the entry of an integer instruction has type int
        cases i with
        | load dst ty sc var =>
          cases sc <;> cases var <;> simp [uintInstr] at hi
          have := isUIntTy_eq hi
          subst this
          simp [instrEntry, nonVoid, ITy.isVoid] at he
          rw [← he]
        | store sc var src =>
          cases sc <;> cases var <;> simp [uintInstr] at hi
          rename_i k
          simp only [instrEntry] at he
          cases hk : params[k]? with
          | none => simp [hk] at he
          | some p =>
            have hpm : p ∈ params := List.mem_of_getElem? hk
            have hpt := isUIntTy_eq (by simpa using (List.all_eq_true.1 hp) p hpm)
            simp only [hk, nonVoid, hpt] at he
            simp [ITy.isVoid] at he
            rw [← he]
        | bin dst op ty a b =>
          cases op <;> simp [uintInstr] at hi
          have := isUIntTy_eq hi.1.2
          subst this
          simp [instrEntry, nonVoid, ITy.isVoid] at he
          rw [← he]
        | label l => simp [instrEntry] at he
        | ret o => simp [instrEntry] at he
        | _ => simp [uintInstr] at hi

theorem lookupRef_uint {ents : List Entry} (h : entsUInt ents) {r j : Nat} {t : ITy}
    (hl : lookupRef ents r = some (j, t)) : t = .sc .uint := by
  have := lookupRef_getElem ents r j t hl
  exact h _ (List.mem_of_getElem? this)

theorem refOpd_uOpd {o : Opd} (h : refOpd o = true) : uOpd o = true := by
  cases o <;> simp_all [uOpd, refOpd]

/-- What `uintInstr` says about a binary instruction. -/
theorem uintInstr_bin {dst : Nat} {o : SOp} {ty : ITy} {a b : Opd}
    (h : uintInstr (.bin dst (.s o) ty a b) = true) :
    (o == .add || o == .sub || o == .mul || o == .div || o == .eq || o == .lt || o == .gt) = true ∧
      isUIntTy ty = true ∧ uOpd a = true ∧ uOpd b = true ∧ (isSelCmp o = true → refOpd a = true) := by
  simp only [uintInstr, Bool.and_eq_true, Bool.or_eq_true] at h
  obtain ⟨⟨h1, hty⟩, hb⟩ := h
  rcases h1 with ⟨hop, ha⟩ | ⟨hop, ha⟩
  · refine ⟨?_, hty, ha, hb, ?_⟩
    · cases o <;> simp_all
    · intro hc; cases o <;> simp_all [isSelCmp]
  · refine ⟨?_, hty, refOpd_uOpd ha, hb, fun _ => ha⟩
    cases o <;> simp_all

/-- In an unsigned function every translated operation is selected for unsigned 32-bit operands. -/
theorem selectOp_uint {ents : List Entry} (he : entsUInt ents) {op : SOp} {a : Opd} {nop : NumOp}
    (ha : isSelCmp op = true → refOpd a = true) (h : selectOp ents op (.sc .uint) a = .ok nop) :
    numOpFor op .i32u = .ok nop := by
  unfold selectOp at h
  by_cases hc : isSelCmp op = true
  · simp only [hc, if_true] at h
    have har := ha hc
    cases a with
    | cInt c => simp [refOpd] at har
    | cFlt f => simp [refOpd] at har
    | ref r =>
      simp only [opdITy] at h
      cases hl : lookupRef ents r with
      | none => simp [hl] at h
      | some p =>
        obtain ⟨j, t⟩ := p
        have := lookupRef_uint he hl
        subst this
        simpa [hl, otOfITy] using h
  · simp only [hc] at h
    simpa [otOfITy] using h

/-! ## The simulation -/

/-- Straight-line unsigned-integer code: if the range-checked VM, started at the position of the code suffix `suf`
in an in-range state related to the WebAssembly locals, returns the integer `v`, then the translation of `suf`
returns `v mod 2^32`. -/
theorem sim_uint {F : Type} (O : F32Ops F) {fb : Float → Option Nat} {f : Func}
    {ents : List Entry} {argc : Nat} (Pg : Program) (hents : entsUInt ents) :
    ∀ (suf pre : List Instr), f.code = pre ++ suf → suf.all uintInstr = true →
    ∀ (body : List WInstr), transCode fb argc ents suf = .ok body →
    ∀ (fuel : Nat) (fr : VM.Frame) (g : Globals) (ls : List (WVal F)), Inv ents argc fr ls →
    frameU32 fr = true →
    ∀ (v : Int) (g' : Globals) (as : List Val),
      runRU Pg fuel f pre.length fr g = .done (.int v) g' as →
      runBody O 1 body ls [] = some [.i32 (wrap v)]
  | [], pre, hcode, _, body, _, fuel, fr, g, ls, _, _, v, g', as, hrun => by
    obtain ⟨n, rfl, hstep⟩ := runRU_done_inv hrun
    have hc : f.code[pre.length]? = none := by rw [hcode]; simp
    rw [step_end hc] at hstep
    rcases hstep with ⟨_, _, _, h, _⟩ | h <;> cases h
  | i :: rest, pre, hcode, hring, body, hbody, fuel, fr, g, ls, hinv, hS, v, g', as, hrun => by
    obtain ⟨n, rfl, hstep⟩ := runRU_done_inv hrun
    have hc : f.code[pre.length]? = some i := by rw [hcode]; exact getElem?_mid pre i rest
    have hcode' : f.code = (pre ++ [i]) ++ rest := by rw [hcode]; simp
    have hlen' : (pre ++ [i]).length = pre.length + 1 := by simp
    simp only [List.all_cons, Bool.and_eq_true] at hring
    obtain ⟨hri, hrr⟩ := hring
    simp only [transCode] at hbody
    cases h1 : transInstr fb argc ents i with
    | error e => simp [h1] at hbody
    | ok ws =>
      cases h2 : transCode fb argc ents rest with
      | error e => simp [h1, h2] at hbody
      | ok restb =>
        simp only [h1, h2, Except.ok.injEq] at hbody; subst hbody
        have IH := sim_uint O Pg hents rest (pre ++ [i]) hcode' hrr restb h2
        rw [hlen'] at IH
        cases i with
        | label l =>
          simp only [transInstr, Except.ok.injEq] at h1; subst h1
          rw [step_label hc] at hstep
          rcases hstep with ⟨pc', fr', g1, h, hS', hrun'⟩ | h
          · simp only [StepOut.next.injEq] at h
            obtain ⟨rfl, rfl, rfl⟩ := h
            simpa using IH n fr g ls hinv hS v g' as hrun'
          · cases h
        | load dst ty sc var =>
          cases sc <;> cases var <;> simp only [transInstr] at h1 <;> try cases h1
          rename_i k
          simp only [uintInstr] at hri
          cases hl : lookupRef ents dst with
          | none => simp [hl] at h1
          | some p =>
            obtain ⟨j, t⟩ := p
            simp only [hl, Except.ok.injEq] at h1; subst h1
            cases ha : fr.args[k]? with
            | none =>
              have : stepI (callD Pg n) f.code pre.length fr g = .fail (.internal "IndexError-arg") := by
                simp [stepI, hc, liftE, rootOf, readRoot, ha]
              rw [this] at hstep
              rcases hstep with ⟨_, _, _, h, _⟩ | h <;> cases h
            | some va =>
              have hr : readRoot fr g (.arg k) = .ok va := by simp [readRoot, ha]
              rw [step_load hc rfl hr (isI32Ty_notAgg (isUIntTy_isI32 hri))] at hstep
              rcases hstep with ⟨pc', fr', g1, h, hS', hrun'⟩ | h
              · simp only [StepOut.next.injEq] at h
                obtain ⟨rfl, rfl, rfl⟩ := h
                obtain ⟨x, rfl, hls⟩ := hinv.args k va ha
                have hj := lookupRef_lt hl
                have hlt : argc + j < ls.length := by have := hinv.lsLen; omega
                have := IH n _ g _ (hinv.setReg hl x) hS' v g' as hrun'
                simpa [runBody, hls, hlt] using this
              · cases h
        | store sc var src =>
          cases sc <;> cases var <;> simp only [transInstr] at h1 <;> try cases h1
          rename_i k
          simp only [uintInstr] at hri
          cases hp : pushOpd fb argc ents src with
          | error e => simp [hp] at h1
          | ok p =>
            simp only [hp, Except.ok.injEq] at h1; subst h1
            cases hv : evalOpd fr src with
            | error e =>
              have : stepI (callD Pg n) f.code pre.length fr g = .fail e := by
                simp [stepI, hc, liftE, rootOf, hv]
              rw [this] at hstep
              rcases hstep with ⟨_, _, _, h, _⟩ | h <;> cases h
            | ok vs =>
              obtain ⟨x, rfl, hpush⟩ := pushOpd_run O hinv hp (uOpd_ring hri) hv
              by_cases hk : k < fr.args.length
              · have hw : writeRoot fr g (.arg k) (.int x) =
                    .ok ({ fr with args := fr.args.set k (.int x) }, g) := by
                  simp [writeRoot, hk]
                rw [step_store hc rfl hv rfl hw] at hstep
                rcases hstep with ⟨pc', fr', g1, h, hS', hrun'⟩ | h
                · simp only [StepOut.next.injEq] at h
                  obtain ⟨rfl, rfl, rfl⟩ := h
                  have hk' : k < argc := by have := hinv.argsLen; omega
                  have hlt : k < ls.length := by have := hinv.lsLen; omega
                  have := IH n _ g _ (hinv.setArg hk' x) hS' v g' as hrun'
                  simpa [hpush, runBody, hlt] using this
                · cases h
              · have : stepI (callD Pg n) f.code pre.length fr g =
                    .fail (.internal "IndexError-arg") := by
                  simp [stepI, hc, liftE, rootOf, hv, writeRoot, hk]
                rw [this] at hstep
                rcases hstep with ⟨_, _, _, h, _⟩ | h <;> cases h
        | bin dst op ty a b =>
          cases op <;> simp only [transInstr] at h1 <;> try cases h1
          rename_i o
          obtain ⟨hop, hty, hua, hub, hcmp⟩ := uintInstr_bin hri
          have hra := uOpd_ring hua
          have hrb := uOpd_ring hub
          have hty' := isUIntTy_eq hty
          subst hty'
          cases hsel : selectOp ents o (.sc .uint) a with
          | error e => simp [hsel] at h1
          | ok nop =>
            have hnop := selectOp_uint hents hcmp hsel
            simp only [hsel] at h1
            cases hpa : pushOpd fb argc ents a with
            | error e => simp [hpa] at h1
            | ok pa =>
              cases hpb : pushOpd fb argc ents b with
              | error e => simp [hpa, hpb] at h1
              | ok pb =>
                cases hl : lookupRef ents dst with
                | none => simp [hpa, hpb, hl] at h1
                | some p =>
                  obtain ⟨j, t⟩ := p
                  simp only [hpa, hpb, hl, Except.ok.injEq] at h1; subst h1
                  cases hva : evalOpd fr a with
                  | error e =>
                    have : stepI (callD Pg n) f.code pre.length fr g = .fail e := by
                      simp [stepI, hc, liftE, evalVal_error hva]
                    rw [this] at hstep
                    rcases hstep with ⟨_, _, _, h, _⟩ | h <;> cases h
                  | ok va =>
                    obtain ⟨x, rfl, hpushA⟩ := pushOpd_run O hinv hpa hra hva
                    cases hvb : evalOpd fr b with
                    | error e =>
                      have : stepI (callD Pg n) f.code pre.length fr g = .fail e := by
                        simp [stepI, hc, liftE, evalVal_of_noPtr hva rfl, evalVal_error hvb]
                      rw [this] at hstep
                      rcases hstep with ⟨_, _, _, h, _⟩ | h <;> cases h
                    | ok vb =>
                      obtain ⟨y, rfl, hpushB⟩ := pushOpd_run O hinv hpb hrb hvb
                      have hx := opd_inU32 hS hua hpa hva
                      have hy := opd_inU32 hS hub hpb hvb
                      have hj := lookupRef_lt hl
                      have hlt : argc + j < ls.length := by have := hinv.lsLen; omega
                      cases hz : scalarBin o true (.int x) (.int y) with
                      | error e =>
                        have : stepI (callD Pg n) f.code pre.length fr g = .fail e := by
                          simp [stepI, hc, liftE, evalVal_of_noPtr hva rfl, evalVal_of_noPtr hvb rfl,
                            binExec, scIsInt, hz]
                        rw [this] at hstep
                        rcases hstep with ⟨_, _, _, h, _⟩ | h <;> cases h
                      | ok zv =>
                        obtain ⟨z, rfl⟩ := scalarBin_int_result hop hz
                        have hbe : binExec (.s o) (.sc .uint) (.int x) (.int y) = .ok (.int z) := by
                          simp [binExec, scIsInt, hz]
                        rw [step_bin hc hva rfl hvb rfl hbe] at hstep
                        rcases hstep with ⟨pc', fr', g1, h, hS', hrun'⟩ | h
                        · simp only [StepOut.next.injEq] at h
                          obtain ⟨rfl, rfl, rfl⟩ := h
                          have hev := binop_agree_unsigned O o nop x y z hnop hx hy hz
                          have := IH n _ g _ (hinv.setReg hl z) hS' v g' as hrun'
                          simpa [hpushA, hpushB, runBody, hev, hlt] using this
                        · cases h
        | ret rvo =>
          cases rvo with
          | none => simp [uintInstr] at hri
          | some o =>
            simp only [uintInstr] at hri
            simp only [transInstr] at h1
            cases hp : pushOpd fb argc ents o with
            | error e => simp [hp] at h1
            | ok p =>
              simp only [hp, Except.ok.injEq] at h1; subst h1
              cases hv : evalOpd fr o with
              | error e =>
                have : stepI (callD Pg n) f.code pre.length fr g = .fail e := by
                  simp [stepI, hc, liftE, evalVal_error hv]
                rw [this] at hstep
                rcases hstep with ⟨_, _, _, h, _⟩ | h <;> cases h
              | ok vo =>
                obtain ⟨x, rfl, hpush⟩ := pushOpd_run O hinv hp (uOpd_ring hri) hv
                rw [step_ret_some hc hv rfl] at hstep
                rcases hstep with ⟨_, _, _, h, _⟩ | h
                · cases h
                · simp only [StepOut.ret.injEq, Val.int.injEq] at h
                  obtain ⟨rfl, _, _⟩ := h
                  simp [hpush, runBody]
        | _ => simp [uintInstr] at hri

/-! ## From the body to the module -/

theorem convertFuncType_i32u {f : Func} (hp : f.params.all (fun p => isI32Ty p.2) = true)
    (hr : isI32Ty f.ret = true) :
    convertFuncType f = .ok ⟨List.replicate f.params.length .i32, [.i32]⟩ := by
  have hps : (f.params.map (·.2)).all isI32Ty = true := by
    simpa [List.all_map] using hp
  have := convertVTs_i32 _ hps
  simp only [List.length_map] at this
  unfold convertFuncType
  simp only [this]
  have hcv := convertVT_i32 hr
  cases hret : f.ret with
  | void => rw [hret] at hr; simp [isI32Ty] at hr
  | _ => rw [hret] at hcv; simp only [hcv]

theorem agree_uint_with {F : Type} (O : F32Ops F) {fb : Float → Option Nat} {P : List Func}
    {m : WModule} {idx : Nat} {f : Func} (hgen : genWasmWith fb P = .ok m)
    (hf : P[idx]? = some f) (hint : uintFunc f = true) (args : List Int)
    (hlen : args.length = f.params.length) (hargsR : ∀ a ∈ args, inU32 a)
    (Pg : Program) (fuel : Nat) (g g' : Globals) (v : Int) (as : List Val)
    (hvm : runRU Pg fuel f 0 { args := args.map Val.int } g = .done (.int v) g' as) :
    evalFunc O m idx (args.map fun a => WVal.i32 (wrap a)) = some [WVal.i32 (wrap v)] := by
  obtain ⟨fcs, hg, rfl⟩ := genWasmWith_ok hgen
  obtain ⟨fc, hfc, hgf⟩ := genFuncs_getElem P fcs hg idx f hf
  obtain ⟨ft, c⟩ := fc
  obtain ⟨ents, vts, body, h1, h2, h3, h4, rfl⟩ := genFunc_ok hgf
  simp only [uintFunc, Bool.and_eq_true] at hint
  obtain ⟨⟨hpi, hri⟩, hci⟩ := hint
  have hp32 : f.params.all (fun p => isI32Ty p.2) = true := by
    rw [List.all_eq_true] at hpi ⊢
    intro p hp
    exact isUIntTy_isI32 (hpi p hp)
  rw [convertFuncType_i32u hp32 (isUIntTy_isI32 hri)] at h1
  simp only [Except.ok.injEq] at h1; subst h1
  have hents : entsUInt ents :=
    collectEntries_uint hpi f.code [] ents hci (by intro e he; cases he) h2
  have hidx : idx < fcs.length := by
    rcases Nat.lt_or_ge idx fcs.length with hc | hc
    · exact hc
    · rw [List.getElem?_eq_none hc] at hfc; cases hfc
  have hfuncs : (List.range fcs.length)[idx]? = some idx := by
    simp [List.getElem?_range hidx]
  have hcodes : (fcs.map (·.2))[idx]? = some ⟨groupLocals vts, body⟩ := by simp [hfc]
  have htypes : (fcs.map (·.1))[idx]? =
      some ⟨List.replicate f.params.length .i32, [.i32]⟩ := by simp [hfc]
  have hargs : (args.map fun a => WVal.i32 (F := F) (wrap a)).map WVal.vt =
      List.replicate f.params.length .i32 := by
    rw [← hlen]
    clear hvm hlen hargsR
    induction args with
    | nil => rfl
    | cons a as' ih => simp [List.replicate_succ, WVal.vt, ih]
  simp only [evalFunc, hfuncs, hcodes, htypes, hargs, if_true, expand_groupLocals]
  have hinv : Inv ents f.params.length { args := args.map Val.int }
      ((args.map fun a => WVal.i32 (F := F) (wrap a)) ++ vts.map (zeroOf O)) := by
    refine ⟨by simp [hlen], ?_, ?_, ?_⟩
    · have := convertVTs_length _ _ h3
      simp only [List.length_map] at this
      simp [hlen, this]
    · intro k val hk
      simp only [List.getElem?_map] at hk
      cases ha : args[k]? with
      | none => simp [ha] at hk
      | some a =>
        simp only [ha, Option.map_some, Option.some.injEq] at hk
        refine ⟨a, hk.symm, ?_⟩
        have hklt : k < args.length := by
          rcases Nat.lt_or_ge k args.length with hc | hc
          · exact hc
          · rw [List.getElem?_eq_none hc] at ha; cases ha
        rw [List.getElem?_append_left (by simpa using hklt)]
        simp [ha]
    · intro r val hr
      simp [Map.get] at hr
  have hS0 : frameU32 ({ args := args.map Val.int } : Frame) = true := by
    simp only [frameU32, Bool.and_eq_true, List.all_eq_true]
    refine ⟨?_, by intro p hp; cases hp⟩
    intro val hval
    simp only [List.mem_map] at hval
    obtain ⟨a, ha, rfl⟩ := hval
    simpa [valU32] using hargsR a ha
  simp only [List.length_replicate] at h4
  have := sim_uint O (f := f) Pg hents f.code [] rfl hci body h4 fuel _ g _ hinv hS0 v g' as
    (by simpa using hvm)
  simpa using this

end Nsl.Wasm
