import Nsl.Proofs.Opt
/-!
# Static facts about `scan` / `pass` used by the global simulation (C02)

Everything is phrased relative to a prefix `code.take pc` of the scanned code: the substitution built so far, the
number of kept instructions (`kpos`), the previous instruction (`lastOr`), the references defined so far in the
current block (`seenOf`).
-/
namespace Nsl
namespace Opt
open VM WF

/-- the `prev` argument with which `scan`/`forwardOK` reach the end of `pre` -/
def lastOr (prev : Option Instr) : List Instr → Option Instr
  | [] => prev
  | x :: xs => lastOr (some x) xs

/-- how `blockLocal` updates `seen` over one instruction -/
def seenStep (seen : List Nat) (ins : Instr) : List Nat :=
  match ins with
  | .label _ => []
  | _ => match defOf ins with
    | some d => d :: seen
    | none => seen

/-- the `seen` argument with which `blockLocal` reaches the end of `pre` -/
def seenOf (seen : List Nat) : List Instr → List Nat
  | [] => seen
  | ins :: rest => seenOf (seenStep seen ins) rest

/-- all references defined in a code list -/
def defs (code : List Instr) : List Nat := code.filterMap defOf

/-- position in the optimised code that corresponds to `pc`: the number of kept instructions before `pc` -/
def kpos (decide : Option Instr → Instr → Subst → Option (Nat × Opd)) (code : List Instr) (pc : Nat) : Nat :=
  (scan decide none (code.take pc) []).1.length

/-- a pass removes only the instruction that defines the reference it rewires -/
def DecideDef (decide : Option Instr → Instr → Subst → Option (Nat × Opd)) : Prop :=
  ∀ prev ins σ d o, decide prev ins σ = some (d, o) → defOf ins = some d

theorem ccDecide_def : DecideDef ccDecide := by
  intro prev ins σ d o h
  obtain ⟨ty, a, rfl, _⟩ := ccDecide_removable h
  rfl

theorem lasDecide_def : DecideDef lasDecide := by
  intro prev ins σ d o h
  obtain ⟨ty, sc, var, sc', src, rfl, _, _⟩ := lasDecide_removable h
  rfl

/-! ## lists -/

theorem split_at {α} : ∀ (l : List α) (n : Nat) (a : α), l[n]? = some a →
    l = l.take n ++ a :: l.drop (n + 1) ∧ l.take (n + 1) = l.take n ++ [a]
  | [], n, a, h => by simp at h
  | x :: xs, 0, a, h => by
    simp at h; subst h; simp
  | x :: xs, n + 1, a, h => by
    have h' : xs[n]? = some a := by simpa using h
    obtain ⟨h1, h2⟩ := split_at xs n a h'
    constructor
    · simp only [List.take_succ_cons, List.drop_succ_cons, List.cons_append]
      rw [← h1]
    · simp only [List.take_succ_cons, List.cons_append]
      rw [h2]

theorem lastOr_append_singleton : ∀ (pre : List Instr) (prev : Option Instr) (x : Instr),
    lastOr prev (pre ++ [x]) = some x
  | [], _, _ => rfl
  | _ :: rest, _, x => by simp only [List.cons_append, lastOr]; exact lastOr_append_singleton rest _ x

theorem seenOf_append_singleton : ∀ (pre : List Instr) (seen : List Nat) (x : Instr),
    seenOf seen (pre ++ [x]) = seenStep (seenOf seen pre) x
  | [], _, _ => rfl
  | _ :: rest, _, x => by simp only [List.cons_append, seenOf]; exact seenOf_append_singleton rest _ x

theorem defs_cons_some {ins : Instr} {d : Nat} (h : defOf ins = some d) (rest : List Instr) :
    defs (ins :: rest) = d :: defs rest := by
  simp [defs, h]

theorem defs_cons_none {ins : Instr} (h : defOf ins = none) (rest : List Instr) :
    defs (ins :: rest) = defs rest := by
  simp [defs, h]

theorem defs_append (a b : List Instr) : defs (a ++ b) = defs a ++ defs b := by
  simp [defs, List.filterMap_append]

theorem seenStep_sub {seen : List Nat} {ins : Instr} {r : Nat} (h : r ∈ seenStep seen ins) :
    r ∈ seen ∨ defOf ins = some r := by
  cases ins <;> simp [seenStep, defOf] at h ⊢ <;>
    first
    | exact h
    | (rcases h with h | h
       · exact Or.inr h.symm
       · exact Or.inl h)

theorem seenOf_sub_defs : ∀ (pre : List Instr) (seen : List Nat) (r : Nat), r ∈ seenOf seen pre →
    r ∈ seen ∨ r ∈ defs pre
  | [], _, _, h => Or.inl h
  | ins :: rest, seen, r, h => by
    simp only [seenOf] at h
    rcases seenOf_sub_defs rest _ r h with h1 | h1
    · rcases seenStep_sub h1 with h2 | h2
      · exact Or.inl h2
      · right; rw [defs_cons_some h2]; simp
    · right
      cases hd : defOf ins with
      | none => rw [defs_cons_none hd]; exact h1
      | some d => rw [defs_cons_some hd]; simp [h1]

/-! ## `blockLocal`, `forwardOK` at a position -/

theorem blockLocal_mid : ∀ (pre : List Instr) (seen : List Nat) (ins : Instr) (suf : List Instr),
    blockLocal seen (pre ++ ins :: suf) = true → (∀ l, ins ≠ .label l) →
    (∀ r ∈ usesOf ins, r ∈ seenOf seen pre) ∧ ∀ d, defOf ins = some d → d ∉ seenOf seen pre
  | [], seen, ins, suf, h, hnl => by
    simp only [seenOf]
    cases ins with
    | label l => exact absurd rfl (hnl l)
    | _ =>
      simp only [List.nil_append, blockLocal, Bool.and_eq_true, List.all_eq_true, List.contains_iff_mem, defOf] at h
      first
        | exact ⟨h.1, by intro d hd; simp [defOf] at hd; subst hd; simpa using h.2.1⟩
        | exact ⟨h.1, by intro d hd; simp [defOf] at hd⟩
  | p :: rest, seen, ins, suf, h, hnl => by
    simp only [seenOf]
    have : blockLocal (seenStep seen p) (rest ++ ins :: suf) = true := by
      cases p with
      | label l => simpa [blockLocal, seenStep] using h
      | _ =>
        simp only [List.cons_append, blockLocal, Bool.and_eq_true, defOf] at h
        first
          | simpa [seenStep, defOf] using h.2.2
          | simpa [seenStep, defOf] using h.2
    exact blockLocal_mid rest _ ins suf this hnl

theorem forwardOK_mid : ∀ (pre : List Instr) (prev : Option Instr) (suf : List Instr)
    (d : Nat) (ty : ITy) (sc : Scope) (var : VarKey) (sc' : Scope) (src : Opd),
    forwardOK prev (pre ++ .load d ty sc var :: suf) = true →
    lastOr prev pre = some (.store sc' var src) → sc' = sc ∧ ty.isAggregate = false
  | [], prev, suf, d, ty, sc, var, sc', src, h, hl => by
    simp only [lastOr] at hl
    subst hl
    simp only [List.nil_append, forwardOK, Bool.and_eq_true] at h
    simpa using h.1
  | p :: rest, prev, suf, d, ty, sc, var, sc', src, h, hl => by
    simp only [List.cons_append, forwardOK, Bool.and_eq_true] at h
    simp only [lastOr] at hl
    exact forwardOK_mid rest _ suf d ty sc var sc' src h.2 hl

/-! ## `scan` over an append -/

section
variable {decide : Option Instr → Instr → Subst → Option (Nat × Opd)}

theorem scan_append : ∀ (l1 : List Instr) (prev : Option Instr) (σ : Subst) (o1 : List Instr) (σ1 : Subst)
    (l2 o2 : List Instr) (σ2 : Subst), scan decide prev l1 σ = (o1, σ1) →
    scan decide (lastOr prev l1) l2 σ1 = (o2, σ2) → scan decide prev (l1 ++ l2) σ = (o1 ++ o2, σ2)
  | [], prev, σ, o1, σ1, l2, o2, σ2, h1, h2 => by
    simp only [scan, Prod.mk.injEq] at h1
    obtain ⟨rfl, rfl⟩ := h1
    simpa [lastOr] using h2
  | ins :: rest, prev, σ, o1, σ1, l2, o2, σ2, h1, h2 => by
    simp only [List.cons_append, scan] at h1 ⊢
    simp only [lastOr] at h2
    cases hd : decide prev ins σ with
    | some p =>
      obtain ⟨d, o⟩ := p
      simp only [hd] at h1 ⊢
      exact scan_append rest _ _ _ _ _ _ _ h1 h2
    | none =>
      simp only [hd] at h1 ⊢
      rcases hr : scan decide (some ins) rest σ with ⟨o1', σ1'⟩
      simp only [hr, Prod.mk.injEq] at h1
      obtain ⟨rfl, rfl⟩ := h1
      rw [scan_append rest _ _ _ _ _ _ _ hr h2]
      rfl

theorem scan_mid_kept {prev : Option Instr} {pre suf : List Instr} {ins : Instr} {σ σf σ1 : Subst}
    {out o1 : List Instr} (hs : scan decide prev (pre ++ ins :: suf) σ = (out, σf))
    (h1 : scan decide prev pre σ = (o1, σ1)) (hd : decide (lastOr prev pre) ins σ1 = none) :
    ∃ o2, scan decide (some ins) suf σ1 = (o2, σf) ∧ out = o1 ++ ins :: o2 ∧
      scan decide prev (pre ++ [ins]) σ = (o1 ++ [ins], σ1) := by
  rcases h2 : scan decide (some ins) suf σ1 with ⟨o2, σ2⟩
  have h3 : scan decide (lastOr prev pre) (ins :: suf) σ1 = (ins :: o2, σ2) := by
    simp only [scan, hd, h2]
  have h4 := scan_append _ _ _ _ _ _ _ _ h1 h3
  rw [hs] at h4
  simp only [Prod.mk.injEq] at h4
  obtain ⟨rfl, rfl⟩ := h4
  refine ⟨o2, rfl, rfl, ?_⟩
  exact scan_append _ _ _ _ _ _ _ _ h1
    (show scan decide (lastOr prev pre) [ins] σ1 = ([ins], σ1) by simp only [scan, hd])

theorem scan_mid_removed {prev : Option Instr} {pre suf : List Instr} {ins : Instr} {σ σf σ1 : Subst}
    {out o1 : List Instr} {d : Nat} {o : Opd} (hs : scan decide prev (pre ++ ins :: suf) σ = (out, σf))
    (h1 : scan decide prev pre σ = (o1, σ1)) (hd : decide (lastOr prev pre) ins σ1 = some (d, o)) :
    ∃ o2, scan decide (some ins) suf (Map.set σ1 d o) = (o2, σf) ∧ out = o1 ++ o2 ∧
      scan decide prev (pre ++ [ins]) σ = (o1, Map.set σ1 d o) := by
  rcases h2 : scan decide (some ins) suf (Map.set σ1 d o) with ⟨o2, σ2⟩
  have h3 : scan decide (lastOr prev pre) (ins :: suf) σ1 = (o2, σ2) := by
    simp only [scan, hd, h2]
  have h4 := scan_append _ _ _ _ _ _ _ _ h1 h3
  rw [hs] at h4
  simp only [Prod.mk.injEq] at h4
  obtain ⟨rfl, rfl⟩ := h4
  refine ⟨o2, rfl, rfl, ?_⟩
  have := scan_append _ _ _ _ _ _ _ _ h1
    (show scan decide (lastOr prev pre) [ins] σ1 = ([], Map.set σ1 d o) by simp only [scan, hd])
  simpa using this

/-- `scan` changes the substitution only at references defined in the scanned code -/
theorem scan_get_other (hdef : DecideDef decide) : ∀ (code : List Instr) (prev : Option Instr) (σ : Subst)
    (out : List Instr) (σ' : Subst), scan decide prev code σ = (out, σ') →
    ∀ r, r ∉ defs code → Map.get σ' r = Map.get σ r
  | [], prev, σ, out, σ', h, r, _ => by
    simp only [scan, Prod.mk.injEq] at h
    rw [h.2]
  | ins :: rest, prev, σ, out, σ', h, r, hr => by
    simp only [scan] at h
    cases hd : decide prev ins σ with
    | some p =>
      obtain ⟨d, o⟩ := p
      simp only [hd] at h
      have hdd := hdef _ _ _ _ _ hd
      rw [defs_cons_some hdd] at hr
      simp only [List.mem_cons, not_or] at hr
      rw [scan_get_other hdef rest _ _ _ _ h r hr.2]
      exact Map.get_set_ne _ _ _ _ (fun e => hr.1 e.symm)
    | none =>
      simp only [hd] at h
      rcases hr2 : scan decide (some ins) rest σ with ⟨o1', σ1'⟩
      simp only [hr2, Prod.mk.injEq] at h
      obtain ⟨_, rfl⟩ := h
      refine scan_get_other hdef rest _ _ _ _ hr2 r ?_
      intro hm
      apply hr
      cases hdd : defOf ins with
      | none => rw [defs_cons_none hdd]; exact hm
      | some d => rw [defs_cons_some hdd]; simp [hm]

/-! ## Facts at a position `pc` of the scanned code -/

theorem pass_eq {code out : List Instr} {σf : Subst} (hs : scan decide none code [] = (out, σf)) :
    pass decide code = out.map (substInstr σf) := by
  unfold pass
  rw [hs]

theorem kpos_eq {code o1 : List Instr} {σ1 : Subst} {pc : Nat}
    (h1 : scan decide none (code.take pc) [] = (o1, σ1)) : kpos decide code pc = o1.length := by
  unfold kpos
  rw [h1]

theorem kpos_zero (code : List Instr) : kpos decide code 0 = 0 := by
  simp [kpos, scan]

theorem kept_at (hdef : DecideDef decide) {code out o1 : List Instr} {σf σ1 : Subst} {pc : Nat} {ins : Instr}
    (hs : scan decide none code [] = (out, σf)) (hnd : (defs code).Nodup) (hc : code[pc]? = some ins)
    (h1 : scan decide none (code.take pc) [] = (o1, σ1))
    (hd : decide (lastOr none (code.take pc)) ins σ1 = none) :
    (pass decide code)[kpos decide code pc]? = some (substInstr σf ins) ∧
      kpos decide code (pc + 1) = kpos decide code pc + 1 ∧
      ∀ d, defOf ins = some d → Map.get σf d = none := by
  obtain ⟨hsplit, htake⟩ := split_at code pc ins hc
  have hs' := hs
  rw [hsplit] at hs' hnd
  obtain ⟨o2, h2, hout, h3⟩ := scan_mid_kept hs' h1 hd
  refine ⟨?_, ?_, ?_⟩
  · rw [pass_eq hs, kpos_eq h1, hout]
    simp
  · rw [kpos_eq h1]
    unfold kpos
    rw [htake, h3]
    simp
  · intro d hdd
    rw [defs_append, defs_cons_some hdd, List.nodup_append] at hnd
    obtain ⟨_, hn2, hn3⟩ := hnd
    have hpre : d ∉ defs (code.take pc) := fun hm => hn3 d hm d (by simp) rfl
    have hsuf : d ∉ defs (code.drop (pc + 1)) := by
      simp only [List.nodup_cons] at hn2
      exact hn2.1
    rw [scan_get_other hdef _ _ _ _ _ h2 d hsuf, scan_get_other hdef _ _ _ _ _ h1 d hpre]
    rfl

theorem removed_at (hdef : DecideDef decide) {code out o1 : List Instr} {σf σ1 : Subst} {pc : Nat} {ins : Instr}
    {d : Nat} {o : Opd}
    (hs : scan decide none code [] = (out, σf)) (hnd : (defs code).Nodup) (hc : code[pc]? = some ins)
    (h1 : scan decide none (code.take pc) [] = (o1, σ1))
    (hd : decide (lastOr none (code.take pc)) ins σ1 = some (d, o)) :
    kpos decide code (pc + 1) = kpos decide code pc ∧ Map.get σf d = some o := by
  obtain ⟨hsplit, htake⟩ := split_at code pc ins hc
  rw [hsplit] at hs hnd
  obtain ⟨o2, h2, hout, h3⟩ := scan_mid_removed hs h1 hd
  have hdd := hdef _ _ _ _ _ hd
  refine ⟨?_, ?_⟩
  · rw [kpos_eq h1]
    unfold kpos
    rw [htake, h3]
  · rw [defs_append, defs_cons_some hdd, List.nodup_append] at hnd
    obtain ⟨_, hn2, _⟩ := hnd
    have hsuf : d ∉ defs (code.drop (pc + 1)) := by
      simp only [List.nodup_cons] at hn2
      exact hn2.1
    rw [scan_get_other hdef _ _ _ _ _ h2 d hsuf]
    exact Map.get_set_eq _ _ _

/-- references defined before `pc` have their final image already when the scan reaches `pc` -/
theorem stable_at (hdef : DecideDef decide) {code out o1 : List Instr} {σf σ1 : Subst} {pc : Nat} {ins : Instr}
    (hs : scan decide none code [] = (out, σf)) (hnd : (defs code).Nodup) (hc : code[pc]? = some ins)
    (h1 : scan decide none (code.take pc) [] = (o1, σ1)) :
    ∀ s ∈ defs (code.take pc), Map.get σf s = Map.get σ1 s := by
  intro s hsm
  obtain ⟨hsplit, _⟩ := split_at code pc ins hc
  rw [hsplit] at hs hnd
  rcases h2 : scan decide (lastOr none (code.take pc)) (ins :: code.drop (pc + 1)) σ1 with ⟨o2, σ2⟩
  have h4 := scan_append _ _ _ _ _ _ _ _ h1 h2
  rw [hs] at h4
  simp only [Prod.mk.injEq] at h4
  obtain ⟨_, rfl⟩ := h4
  rw [defs_append, List.nodup_append] at hnd
  exact scan_get_other hdef _ _ _ _ _ h2 s (fun hm => hnd.2.2 s hsm s hm rfl)

theorem end_at {code out : List Instr} {σf : Subst} {pc : Nat}
    (hs : scan decide none code [] = (out, σf)) (hc : code[pc]? = none) :
    (pass decide code)[kpos decide code pc]? = none := by
  have hlen : code.length ≤ pc := by simpa using hc
  unfold kpos
  rw [List.take_of_length_le hlen, hs, pass_eq hs]
  simp

theorem seen_succ {code : List Instr} {pc : Nat} {ins : Instr} (hc : code[pc]? = some ins) :
    seenOf [] (code.take (pc + 1)) = seenStep (seenOf [] (code.take pc)) ins := by
  rw [(split_at code pc ins hc).2, seenOf_append_singleton]

theorem last_succ {code : List Instr} {pc : Nat} {ins : Instr} (hc : code[pc]? = some ins) :
    lastOr none (code.take (pc + 1)) = some ins := by
  rw [(split_at code pc ins hc).2, lastOr_append_singleton]

theorem blockLocal_at {code : List Instr} {pc : Nat} {ins : Instr} (hbl : blockLocal [] code = true)
    (hc : code[pc]? = some ins) (hnl : ∀ l, ins ≠ .label l) :
    (∀ r ∈ usesOf ins, r ∈ seenOf [] (code.take pc)) ∧ ∀ d, defOf ins = some d → d ∉ seenOf [] (code.take pc) := by
  rw [(split_at code pc ins hc).1] at hbl
  exact blockLocal_mid _ _ _ _ hbl hnl

theorem forwardOK_at {code : List Instr} {pc : Nat} {d : Nat} {ty : ITy} {sc sc' : Scope} {var : VarKey} {src : Opd}
    (hf : forwardOK none code = true) (hc : code[pc]? = some (.load d ty sc var))
    (hl : lastOr none (code.take pc) = some (.store sc' var src)) : sc' = sc ∧ ty.isAggregate = false := by
  rw [(split_at code pc _ hc).1] at hf
  exact forwardOK_mid _ _ _ _ _ _ _ _ _ hf hl

theorem seen_sub_defs {pre : List Instr} {r : Nat} (h : r ∈ seenOf [] pre) : r ∈ defs pre := by
  rcases seenOf_sub_defs pre [] r h with h1 | h1
  · simp at h1
  · exact h1

/-! ## Labels: never removed, positions map through `kpos` -/

theorem go_shift (l : Nat) : ∀ (code : List Instr) (i : Nat),
    labelPos.go l code i = (labelPos.go l code 0).map (· + i)
  | [], i => rfl
  | ins :: rest, i => by
    have h1 := go_shift l rest (i + 1)
    have h2 := go_shift l rest 1
    cases ins with
    | label l' =>
      simp only [labelPos.go]
      by_cases hl : l' = l
      · simp [hl]
      · simp only [hl, if_false]
        rw [h1, h2, Option.map_map]
        congr 1; funext x; simp; omega
    | _ =>
      simp only [labelPos.go]
      rw [h1, h2, Option.map_map]
      congr 1; funext x; simp; omega

theorem go_cons_nonlabel (l : Nat) {ins : Instr} (hnl : ins ≠ .label l) (rest : List Instr) (i : Nat) :
    labelPos.go l (ins :: rest) i = labelPos.go l rest (i + 1) := by
  cases ins with
  | label l' =>
    simp only [labelPos.go]
    have : l' ≠ l := fun e => hnl (by rw [e])
    simp [this]
  | _ => simp only [labelPos.go]

theorem substInstr_label_iff (σ : Subst) (ins : Instr) (l : Nat) : substInstr σ ins = .label l ↔ ins = .label l := by
  cases ins with
  | ret o => cases o <;> simp [substInstr]
  | _ => simp [substInstr]

theorem scan_labelPos (hdef : DecideDef decide) (l : Nat) (σ'' : Subst) : ∀ (code : List Instr) (prev : Option Instr)
    (σ : Subst) (out : List Instr) (σ' : Subst) (i : Nat), scan decide prev code σ = (out, σ') →
    labelPos.go l (out.map (substInstr σ'')) i =
      (labelPos.go l code 0).map (fun p => (scan decide prev (code.take p) σ).1.length + i)
  | [], prev, σ, out, σ', i, h => by
    simp only [scan, Prod.mk.injEq] at h
    obtain ⟨rfl, _⟩ := h
    rfl
  | ins :: rest, prev, σ, out, σ', i, h => by
    simp only [scan] at h
    cases hd : decide prev ins σ with
    | some p =>
      obtain ⟨d, o⟩ := p
      simp only [hd] at h
      have hnl : ins ≠ .label l := by
        intro e; subst e
        have := hdef _ _ _ _ _ hd
        simp [defOf] at this
      rw [scan_labelPos hdef l σ'' rest _ _ _ _ i h, go_cons_nonlabel l hnl, go_shift l rest 1, Option.map_map]
      congr 1; funext p
      simp only [Function.comp, List.take_succ_cons, scan, hd]
    | none =>
      simp only [hd] at h
      rcases hr : scan decide (some ins) rest σ with ⟨o2, σ2⟩
      simp only [hr, Prod.mk.injEq] at h
      obtain ⟨rfl, rfl⟩ := h
      by_cases hl : ins = .label l
      · subst hl
        simp [labelPos.go, substInstr, scan]
      · have hl' : substInstr σ'' ins ≠ .label l := fun e => hl ((substInstr_label_iff σ'' ins l).1 e)
        rw [List.map_cons, go_cons_nonlabel l hl', go_cons_nonlabel l hl, go_shift l rest 1, Option.map_map,
          scan_labelPos hdef l σ'' rest _ _ _ _ (i + 1) hr]
        congr 1; funext p
        simp only [Function.comp, List.take_succ_cons, scan, hd, List.length_cons]
        omega

theorem pass_labelPos (hdef : DecideDef decide) (code : List Instr) (l : Nat) :
    labelPos (pass decide code) l = (labelPos code l).map (kpos decide code) := by
  rcases hs : scan decide none code [] with ⟨out, σf⟩
  rw [pass_eq hs]
  unfold labelPos
  rw [scan_labelPos hdef l σf code none [] out σf 0 hs]
  rfl

theorem go_some (l : Nat) : ∀ (code : List Instr) (i p : Nat), labelPos.go l code i = some p →
    i ≤ p ∧ code[p - i]? = some (.label l)
  | [], i, p, h => by simp [labelPos.go] at h
  | ins :: rest, i, p, h => by
    by_cases hl : ins = .label l
    · subst hl
      simp [labelPos.go] at h
      subst h
      simp
    · rw [go_cons_nonlabel l hl] at h
      obtain ⟨h1, h2⟩ := go_some l rest (i + 1) p h
      refine ⟨by omega, ?_⟩
      have : p - i = (p - (i + 1)) + 1 := by omega
      rw [this]
      simpa using h2

theorem labelPos_some {code : List Instr} {l p : Nat} (h : labelPos code l = some p) :
    code[p]? = some (.label l) := by
  have := (go_some l code 0 p h).2
  simpa using this

end

end Opt
end Nsl
