import Nsl.Proofs.IRTypeInv
import Nsl.Proofs.OptSimBase
/-!
# IR typing: one instruction preserves the invariant — control flow, variables, calls, scalar/vector computations
-/
namespace Nsl
namespace IRType
open VM

/-- the invariant on arrival at a block label by a jump -/
def JumpOK (cx : Ctx) (pc : Nat) (fr : Frame) (g : Globals) : Prop :=
  ∃ l d, cx.code[pc]? = some (.label l) ∧ Map.get cx.D l = some d ∧ VarsOK cx d fr g

/-- what one checked instruction guarantees about its outcome -/
def StepPost (cx : Ctx) (st : St) (ins : Instr) (pc : Nat) : StepOut → Prop
  | .next pc' fr' g' =>
    (pc' = pc + 1 ∧ isTerm ins = false ∧ InvBody cx (step cx st ins) fr' g') ∨ JumpOK cx pc' fr' g'
  | .ret v g' _ => valOK cx.ret v = true ∧ GlobalsOK cx.P.globals g'
  | .fail e => okErr cx.strict e

/-- what the meaning of calls has to satisfy -/
def CallSpec (cx : Ctx) (callf : String → List Val → Globals → Res) : Prop :=
  ∀ name args g callee, cx.P.find name = some callee → valsOK (callee.params.map (·.2)) args = true →
    GlobalsOK cx.P.globals g →
    match callf name args g with
    | .done v g' _ => valOK callee.ret v = true ∧ GlobalsOK cx.P.globals g'
    | .fail e => okErr cx.strict e

theorem liftE_ok {α : Type} (a : α) (k : α → StepOut) : liftE (.ok a) k = k a := rfl
theorem liftE_err {α : Type} (e : Err) (k : α → StepOut) : liftE (.error e) k = .fail e := rfl

/-- an instruction that computes a value into a register -/
theorem post_def {cx : Ctx} {st : St} {ins : Instr} {pc : Nat} {fr : Frame} {g : Globals} {d : Nat} {ri : RI}
    {x : Except Err Val} (hinv : InvBody cx st fr g) (hstep : step cx st ins = setReg st d ri)
    (hnt : isTerm ins = false) (h1 : ∀ z, x = .ok z → RegOK cx st.locs z ri)
    (h2 : ∀ e, x = .error e → okErr cx.strict e) :
    StepPost cx st ins pc (liftE x fun z => .next (pc + 1) (VM.setReg fr d z) g) := by
  cases x with
  | error e => exact h2 e rfl
  | ok z =>
    refine Or.inl ⟨rfl, hnt, ?_⟩
    rw [hstep]
    exact inv_set hinv d (h1 z rfl)

section
variable {cx : Ctx} {callf : String → List Val → Globals → Res} {pc : Nat} {st : St} {fr : Frame} {g : Globals}

theorem rootOfKey_rootOf {sc : Scope} {var : VarKey} {root : Root} (h : rootOfKey sc var = some root) :
    rootOf sc var = .ok root := by
  cases sc <;> cases var <;> simp [rootOfKey] at h <;> subst h <;> rfl

/-! ### label -/

theorem step_label {l : Nat} (hc : cx.code[pc]? = some (.label l)) (hinv : InvBody cx st fr g)
    (hok : ruleOK cx st (.label l) = true) :
    StepPost cx st (.label l) pc (stepI callf cx.code pc fr g) := by
  simp only [stepI, hc]
  simp only [ruleOK] at hok
  cases hd : Map.get cx.D l with
  | none => simp [hd] at hok
  | some d =>
    simp only [hd] at hok
    refine Or.inl ⟨rfl, rfl, ?_⟩
    simp only [step, hd]
    refine ⟨rfl, ?_, ⟨?_, hinv.vars.args, hinv.vars.globals⟩⟩
    · intro r ri hg; simp at hg
    · intro n T hn
      exact hinv.vars.locals n T (locsSub_get hok hn)

/-- arriving at a label by a jump -/
theorem step_label_jump {l : Nat} {d : Locs} (hc : cx.code[pc]? = some (.label l)) (hd : Map.get cx.D l = some d)
    (hv : VarsOK cx d fr g) (st0 : St) :
    stepI callf cx.code pc fr g = .next (pc + 1) fr g ∧ InvBody cx (step cx st0 (.label l)) fr g := by
  refine ⟨by simp only [stepI, hc], ?_⟩
  simp only [step, hd]
  exact ⟨rfl, by intro r ri hg; simp at hg, hv⟩

/-! ### load / store / newVar -/

theorem step_load {d : Nat} {ty : ITy} {sc : Scope} {var : VarKey} (hc : cx.code[pc]? = some (.load d ty sc var))
    (hinv : InvBody cx st fr g) (hok : ruleOK cx st (.load d ty sc var) = true) :
    StepPost cx st (.load d ty sc var) pc (stepI callf cx.code pc fr g) := by
  simp only [ruleOK] at hok
  cases hr : rootOfKey sc var with
  | none => simp [hr] at hok
  | some root =>
    simp only [hr] at hok
    cases hT : rootTy cx st.locs root with
    | none => simp [hT] at hok
    | some t =>
      simp only [hT] at hok
      have := tyBeq_eq _ _ hok
      subst this
      obtain ⟨w, hw, hwo⟩ := vars_read hinv.vars hT
      simp only [stepI, hc, rootOfKey_rootOf hr, hw, liftE_ok]
      cases hagg : ty.isAggregate with
      | true =>
        have : isAggVal w = true := valOK_agg hagg hwo
        simp only [this, Bool.and_self, if_true]
        refine Or.inl ⟨rfl, rfl, ?_⟩
        have hs : step cx st (.load d ty sc var) = setReg st d (.ptr ty root) := by
          simp [step, hr, mkRI, hagg]
        rw [hs]
        exact inv_set hinv d ⟨[], ty, rfl, hT, rfl⟩
      | false =>
        simp only [Bool.false_and, Bool.false_eq_true, if_false]
        refine Or.inl ⟨rfl, rfl, ?_⟩
        have hs : step cx st (.load d ty sc var) = setReg st d (.val ty) := by
          simp [step, hr, mkRI, hagg]
        rw [hs]
        exact inv_set hinv d hwo

theorem step_store {sc : Scope} {var : VarKey} {src : Opd} (hc : cx.code[pc]? = some (.store sc var src))
    (hinv : InvBody cx st fr g) (hok : ruleOK cx st (.store sc var src) = true) :
    StepPost cx st (.store sc var src) pc (stepI callf cx.code pc fr g) := by
  simp only [ruleOK] at hok
  cases hr : rootOfKey sc var with
  | none => simp [hr] at hok
  | some root =>
    simp only [hr] at hok
    cases hT : rootTy cx st.locs root with
    | none => simp [hT] at hok
    | some t =>
      simp only [hT] at hok
      rcases srcOK_eval hinv.regs hok with ⟨r, p, he⟩ | ⟨v, he, hvo⟩
      · simp only [stepI, hc, rootOfKey_rootOf hr, he, liftE_ok]
        exact (noInt_unsupported _).ok
      · obtain ⟨fr', g', hw, hv', hregs⟩ := vars_write hinv.vars hT hvo
        simp only [stepI, hc, rootOfKey_rootOf hr, he, liftE_ok]
        split
        · rename_i r p
          exact absurd rfl (valOK_ne_ptr hvo r p)
        · simp only [hw, liftE_ok]
          exact Or.inl ⟨rfl, rfl, ⟨hinv.live, regs_frame hinv.regs hregs, hv'⟩⟩

theorem regOK_kill {locs : Locs} {name : String} {ty : ITy} {v : Val} {ri : RI} (h : RegOK cx locs v ri) :
    RegOK cx (Map.set locs name ty) v (killRI name ri) := by
  cases ri with
  | val t => exact h
  | stale => trivial
  | ptr t root =>
    simp only [killRI]
    by_cases hroot : root = .loc name
    · simp [hroot, RegOK]
    · simp only [hroot, if_false]
      obtain ⟨p, T0, hv, hT0, hp⟩ := h
      refine ⟨p, T0, hv, ?_, hp⟩
      cases root with
      | loc n =>
        have hne : name ≠ n := fun e => hroot (by rw [e])
        simp only [rootTy] at hT0 ⊢
        rw [Map.get_set_ne _ _ _ _ hne]; exact hT0
      | arg i => exact hT0
      | glob n => exact hT0

theorem step_newVar {d : Nat} {ty : ITy} {name : String} (hc : cx.code[pc]? = some (.newVar d ty name))
    (hinv : InvBody cx st fr g) (hok : ruleOK cx st (.newVar d ty name) = true) :
    StepPost cx st (.newVar d ty name) pc (stepI callf cx.code pc fr g) := by
  simp only [ruleOK] at hok
  have hci := createInstance_ok ty hok
  -- the state after the instruction
  have hvars : ∀ v, VarsOK cx (Map.set st.locs name ty)
      (VM.setReg { fr with locals := Map.set fr.locals name (createInstance ty) } d v) g := by
    intro v
    refine ⟨?_, hinv.vars.args, hinv.vars.globals⟩
    intro n T hn
    by_cases hnm : name = n
    · subst hnm
      rw [Map.get_set_eq] at hn
      simp only [Option.some.injEq] at hn
      subst hn
      exact ⟨createInstance ty, by simp [VM.setReg], hci⟩
    · rw [Map.get_set_ne _ _ _ _ hnm] at hn
      obtain ⟨w, hw, hwo⟩ := hinv.vars.locals n T hn
      exact ⟨w, by simp only [VM.setReg]; rw [Map.get_set_ne _ _ _ _ hnm]; exact hw, hwo⟩
  have hregs : ∀ v, RegOK cx (Map.set st.locs name ty) v (mkRI ty (.loc name)) →
      RegsOK cx (step cx st (.newVar d ty name))
        (VM.setReg { fr with locals := Map.set fr.locals name (createInstance ty) } d v) := by
    intro v hv r ri hg
    simp only [step] at hg ⊢
    by_cases hd : d = r
    · subst hd
      rw [Map.get_set_eq] at hg
      simp only [Option.some.injEq] at hg
      subst hg
      exact ⟨v, by simp [VM.setReg], hv⟩
    · rw [Map.get_set_ne _ _ _ _ hd] at hg
      simp only [killRegs, get_mapVal, Option.map_eq_some_iff] at hg
      obtain ⟨ri0, hg0, rfl⟩ := hg
      obtain ⟨v', hv', hvo'⟩ := hinv.regs r ri0 hg0
      exact ⟨v', by simp only [VM.setReg]; rw [Map.get_set_ne _ _ _ _ hd]; exact hv', regOK_kill hvo'⟩
  simp only [stepI, hc]
  cases hagg : ty.isAggregate with
  | true =>
    simp only [if_true]
    refine Or.inl ⟨rfl, rfl, ⟨hinv.live, hregs _ ?_, hvars _⟩⟩
    simp only [mkRI, hagg, if_true]
    exact ⟨[], ty, rfl, by simp [rootTy], rfl⟩
  | false =>
    simp only [Bool.false_eq_true, if_false]
    refine Or.inl ⟨rfl, rfl, ⟨hinv.live, hregs _ ?_, hvars _⟩⟩
    simp only [mkRI, hagg, Bool.false_eq_true, if_false]
    exact hci

/-! ### computations -/

theorem step_bin {d : Nat} {op : BinOp} {ty : ITy} {a b : Opd} (hc : cx.code[pc]? = some (.bin d op ty a b))
    (hinv : InvBody cx st fr g) (hok : ruleOK cx st (.bin d op ty a b) = true) :
    StepPost cx st (.bin d op ty a b) pc (stepI callf cx.code pc fr g) := by
  simp only [ruleOK] at hok
  cases ha : opdTy st a with
  | none => simp [ha] at hok
  | some ta =>
    cases hb : opdTy st b with
    | none => simp [ha, hb] at hok
    | some tb =>
      simp only [ha, hb] at hok
      obtain ⟨x, hx, hxo⟩ := opdTy_eval hinv.regs hinv.vars ha
      obtain ⟨y, hy, hyo⟩ := opdTy_eval hinv.regs hinv.vars hb
      obtain ⟨h1, h2⟩ := binExec_sound hok hxo hyo
      simp only [stepI, hc, hx, hy, liftE_ok]
      exact post_def hinv rfl rfl (fun z hz => h1 z hz) (fun e he => (h2 e he).ok)

theorem step_cast {d : Nat} {ty : ITy} {a : Opd} (hc : cx.code[pc]? = some (.cast d ty a))
    (hinv : InvBody cx st fr g) (hok : ruleOK cx st (.cast d ty a) = true) :
    StepPost cx st (.cast d ty a) pc (stepI callf cx.code pc fr g) := by
  simp only [ruleOK] at hok
  cases ha : opdTy st a with
  | none => simp [ha] at hok
  | some ta =>
    simp only [ha] at hok
    obtain ⟨x, hx, hxo⟩ := opdTy_eval hinv.regs hinv.vars ha
    obtain ⟨h1, h2⟩ := castExec_sound hok hxo
    simp only [stepI, hc, hx, liftE_ok]
    exact post_def hinv rfl rfl (fun z hz => h1 z hz) h2

/-! ### control flow -/

theorem jump_post {ins : Instr} {l : Nat} (hinv : InvBody cx st fr g) (ht : targetOK cx st l = true) :
    StepPost cx st ins pc (jump cx.code l fr g) := by
  simp only [targetOK, Bool.and_eq_true] at ht
  obtain ⟨hl, hd⟩ := ht
  cases hp : labelPos cx.code l with
  | none => simp [hp] at hl
  | some p =>
    cases hD : Map.get cx.D l with
    | none => simp [hD] at hd
    | some d =>
      simp only [hD] at hd
      simp only [jump, hp]
      refine Or.inr ⟨l, d, Opt.labelPos_some hp, hD, ⟨?_, hinv.vars.args, hinv.vars.globals⟩⟩
      intro n T hn
      exact hinv.vars.locals n T (locsSub_get hd hn)

theorem step_br {l : Nat} (hc : cx.code[pc]? = some (.br l)) (hinv : InvBody cx st fr g)
    (hok : ruleOK cx st (.br l) = true) : StepPost cx st (.br l) pc (stepI callf cx.code pc fr g) := by
  simp only [ruleOK] at hok
  simp only [stepI, hc]
  exact jump_post hinv hok

theorem step_brc {p : Opd} {t f : Nat} (hc : cx.code[pc]? = some (.brc p t f)) (hinv : InvBody cx st fr g)
    (hok : ruleOK cx st (.brc p t f) = true) : StepPost cx st (.brc p t f) pc (stepI callf cx.code pc fr g) := by
  simp only [ruleOK, Bool.and_eq_true] at hok
  obtain ⟨⟨hp, ht⟩, hf⟩ := hok
  cases hpt : opdTy st p with
  | none => simp [hpt] at hp
  | some tp =>
    obtain ⟨v, hv, _⟩ := opdTy_eval hinv.regs hinv.vars hpt
    simp only [stepI, hc, hv, liftE_ok]
    split
    · exact jump_post hinv ht
    · exact jump_post hinv hf

theorem step_ret {o : Option Opd} (hc : cx.code[pc]? = some (.ret o)) (hinv : InvBody cx st fr g)
    (hok : ruleOK cx st (.ret o) = true) : StepPost cx st (.ret o) pc (stepI callf cx.code pc fr g) := by
  cases o with
  | none =>
    simp only [ruleOK] at hok
    simp only [stepI, hc]
    have := tyBeq_eq _ _ hok
    exact ⟨by rw [this]; exact (valOK_void _).2 rfl, hinv.vars.globals⟩
  | some o =>
    simp only [ruleOK] at hok
    obtain ⟨v, hv, hvo⟩ := fits_eval hinv.regs hinv.vars hok
    simp only [stepI, hc, hv, liftE_ok]
    exact ⟨hvo, hinv.vars.globals⟩

/-! ### call -/

theorem step_call (hcall : CallSpec cx callf) {d : Nat} {ty : ITy} {fn : String} {args : List Opd}
    (hc : cx.code[pc]? = some (.call d ty fn args)) (hinv : InvBody cx st fr g)
    (hok : ruleOK cx st (.call d ty fn args) = true) :
    StepPost cx st (.call d ty fn args) pc (stepI callf cx.code pc fr g) := by
  simp only [ruleOK] at hok
  cases hf : cx.P.find fn with
  | none => simp [hf] at hok
  | some callee =>
    cases hts : opdTys st args with
    | none => simp [hf, hts] at hok
    | some ts =>
      simp only [hf, hts, Bool.and_eq_true] at hok
      obtain ⟨vs, hvs, hvso⟩ := opdTys_eval hinv.regs hinv.vars hts
      have hspec := hcall fn vs g callee hf (valsOK_compat hok.1 hvso) hinv.vars.globals
      simp only [stepI, hc, hvs, liftE_ok]
      cases hr : callf fn vs g with
      | fail e =>
        rw [hr] at hspec
        exact hspec
      | done v g' as =>
        rw [hr] at hspec
        refine Or.inl ⟨rfl, rfl, ?_⟩
        simp only [step]
        exact ⟨hinv.live, regs_set hinv.regs d (compat_valOK hok.2 hspec.1),
          ⟨hinv.vars.locals, hinv.vars.args, hspec.2⟩⟩

end

end IRType
end Nsl
