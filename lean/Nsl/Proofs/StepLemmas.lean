import Nsl.Proofs.VMSteps
/-!
# One lemma per scalar-core instruction: what `stepI` does when its premises hold
-/
namespace Nsl
namespace VM

def Val.isPtr : Val → Bool
  | .ptr _ _ => true
  | _ => false

theorem evalVal_of_noPtr {fr : Frame} {g : Globals} {o : Opd} {v : Val}
    (h : evalOpd fr o = .ok v) (hp : Val.isPtr v = false) : evalVal fr g o = .ok v := by
  unfold evalVal
  rw [h]
  cases v <;> simp_all [Val.isPtr, bind, Except.bind]

/-- Every operand evaluates (in the registers of `fr`) to the corresponding non-pointer value. -/
def OpdsEval (fr : Frame) : List Opd → List Val → Prop
  | [], [] => True
  | o :: os, v :: vs => (evalOpd fr o = .ok v ∧ Val.isPtr v = false) ∧ OpdsEval fr os vs
  | _, _ => False

theorem evalVals_of_noPtr {fr : Frame} {g : Globals} : ∀ {os : List Opd} {vs : List Val},
    OpdsEval fr os vs → evalVals fr g os = .ok vs
  | [], [], _ => rfl
  | o :: os, v :: vs, h => by
    obtain ⟨⟨h1, h2⟩, h3⟩ := h
    simp only [evalVals, evalVal_of_noPtr h1 h2, evalVals_of_noPtr h3, bind, Except.bind]
  | [], _ :: _, h => by cases h
  | _ :: _, [], h => by cases h

variable {cf : String → List Val → Globals → Res} {code : List Instr} {pc : Nat} {fr : Frame} {g : Globals}

theorem step_label {l : Nat} (hc : code[pc]? = some (.label l)) :
    stepI cf code pc fr g = .next (pc + 1) fr g := by
  simp [stepI, hc]

theorem step_load {dst : Nat} {ty : ITy} {sc : Scope} {var : VarKey} {root : Root} {v : Val}
    (hc : code[pc]? = some (.load dst ty sc var)) (hroot : rootOf sc var = .ok root)
    (hr : readRoot fr g root = .ok v) (hna : ty.isAggregate = false) :
    stepI cf code pc fr g = .next (pc + 1) (setReg fr dst v) g := by
  simp [stepI, hc, liftE, hroot, hr, hna]

theorem step_store {sc : Scope} {var : VarKey} {src : Opd} {root : Root} {v : Val} {fr' : Frame} {g' : Globals}
    (hc : code[pc]? = some (.store sc var src)) (hroot : rootOf sc var = .ok root)
    (hv : evalOpd fr src = .ok v) (hp : Val.isPtr v = false) (hw : writeRoot fr g root v = .ok (fr', g')) :
    stepI cf code pc fr g = .next (pc + 1) fr' g' := by
  simp only [stepI, hc, liftE, hroot, hv]
  cases v <;> simp_all [Val.isPtr, liftE]

theorem step_newVar {dst : Nat} {ty : ITy} {name : String}
    (hc : code[pc]? = some (.newVar dst ty name)) (hna : ty.isAggregate = false) :
    stepI cf code pc fr g =
      .next (pc + 1) (setReg { fr with locals := Map.set fr.locals name (createInstance ty) } dst (createInstance ty)) g := by
  simp [stepI, hc, hna]

theorem step_bin {dst : Nat} {op : BinOp} {ty : ITy} {a b : Opd} {x y z : Val}
    (hc : code[pc]? = some (.bin dst op ty a b))
    (ha : evalOpd fr a = .ok x) (hpa : Val.isPtr x = false)
    (hb : evalOpd fr b = .ok y) (hpb : Val.isPtr y = false)
    (hz : binExec op ty x y = .ok z) :
    stepI cf code pc fr g = .next (pc + 1) (setReg fr dst z) g := by
  simp [stepI, hc, liftE, evalVal_of_noPtr ha hpa, evalVal_of_noPtr hb hpb, hz]

theorem step_cast {dst : Nat} {ty : ITy} {a : Opd} {x z : Val}
    (hc : code[pc]? = some (.cast dst ty a))
    (ha : evalOpd fr a = .ok x) (hpa : Val.isPtr x = false) (hz : castExec ty x = .ok z) :
    stepI cf code pc fr g = .next (pc + 1) (setReg fr dst z) g := by
  simp [stepI, hc, liftE, evalVal_of_noPtr ha hpa, hz]

theorem step_br {l p : Nat} (hc : code[pc]? = some (.br l)) (hl : labelPos code l = some p) :
    stepI cf code pc fr g = .next p fr g := by
  simp [stepI, hc, jump, hl]

theorem step_brc_true {o : Opd} {t f p : Nat} {v : Val} (hc : code[pc]? = some (.brc o t f))
    (hv : evalOpd fr o = .ok v) (hp : Val.isPtr v = false) (ht : v.truthy = true)
    (hl : labelPos code t = some p) :
    stepI cf code pc fr g = .next p fr g := by
  simp [stepI, hc, liftE, evalVal_of_noPtr hv hp, ht, jump, hl]

theorem step_brc_false {o : Opd} {t f p : Nat} {v : Val} (hc : code[pc]? = some (.brc o t f))
    (hv : evalOpd fr o = .ok v) (hp : Val.isPtr v = false) (ht : v.truthy = false)
    (hl : labelPos code f = some p) :
    stepI cf code pc fr g = .next p fr g := by
  simp [stepI, hc, liftE, evalVal_of_noPtr hv hp, ht, jump, hl]

theorem step_ret_none (hc : code[pc]? = some (.ret none)) :
    stepI cf code pc fr g = .ret .none g fr.args := by
  simp [stepI, hc]

theorem step_ret_some {o : Opd} {v : Val} (hc : code[pc]? = some (.ret (some o)))
    (hv : evalOpd fr o = .ok v) (hp : Val.isPtr v = false) :
    stepI cf code pc fr g = .ret v g fr.args := by
  simp [stepI, hc, liftE, evalVal_of_noPtr hv hp]

theorem step_end (hc : code[pc]? = none) : stepI cf code pc fr g = .ret .none g fr.args := by
  simp [stepI, hc]

theorem step_call {dst : Nat} {ty : ITy} {fn : String} {args : List Opd} {vs : List Val} {v : Val}
    {g' : Globals} {as : List Val}
    (hc : code[pc]? = some (.call dst ty fn args)) (hvs : evalVals fr g args = .ok vs)
    (hcall : cf fn vs g = .done v g' as) :
    stepI cf code pc fr g = .next (pc + 1) (setReg fr dst v) g' := by
  simp [stepI, hc, liftE, hvs, hcall]

end VM
end Nsl
