import Nsl.Model.Overload

/-!
# Helper lemmas for C10 (overload resolution)
-/

namespace Nsl.Overload
open Nsl.Types

/-! ## A. Scores, viability and cost on two lists of types -/

/-- Recursive form of "every argument is convertible to the corresponding parameter". -/
def compatAll : List Ty → List Ty → Bool
  | [], [] => true
  | a :: as, p :: ps => isCompatible a p && compatAll as ps
  | _, _ => false

/-- Recursive form of "number of positions that differ" (on the common prefix). -/
def diffCount : List Ty → List Ty → Nat
  | a :: as, p :: ps => (if a = p then 0 else 1) + diffCount as ps
  | _, _ => 0

theorem matchTy_nonneg_iff (a p : Ty) : 0 ≤ matchTy a p ↔ isCompatible a p = true := by
  unfold matchTy
  cases isCompatible a p <;> simp <;> split <;> omega

theorem matchTy_neg_iff (a p : Ty) : matchTy a p < 0 ↔ isCompatible a p = false := by
  have := matchTy_nonneg_iff a p
  cases h : isCompatible a p <;> simp [h] at this ⊢ <;> omega

theorem matchTy_of_compat {a p : Ty} (h : isCompatible a p = true) :
    matchTy a p = if a = p then 0 else 1 := by
  simp [matchTy, h]

theorem compatAll_length : ∀ {as ps : List Ty}, compatAll as ps = true → as.length = ps.length
  | [], [], _ => rfl
  | [], _ :: _, h => by simp [compatAll] at h
  | _ :: _, [], h => by simp [compatAll] at h
  | a :: as, p :: ps, h => by
    simp only [compatAll, Bool.and_eq_true] at h
    simp [compatAll_length h.2]

/-- Model side: negative scores. -/
theorem any_neg_zipWith : ∀ (as ps : List Ty), as.length = ps.length →
    (List.zipWith matchTy as ps).any (· < 0) = !compatAll as ps
  | [], [], _ => by simp [compatAll]
  | [], _ :: _, h => by simp at h
  | _ :: _, [], h => by simp at h
  | a :: as, p :: ps, h => by
    have ih := any_neg_zipWith as ps (by simpa using h)
    simp only [List.zipWith_cons_cons, List.any_cons, ih, compatAll]
    have := matchTy_neg_iff a p
    cases hc : isCompatible a p <;> simp [hc] at this ⊢ <;> omega

/-- Model side: the sum of the scores of a viable candidate is its cost. -/
theorem sum_zipWith_of_compat : ∀ (as ps : List Ty), compatAll as ps = true →
    (List.zipWith matchTy as ps).sum = (diffCount as ps : Int)
  | [], [], _ => by simp [diffCount]
  | [], _ :: _, h => by simp [compatAll] at h
  | _ :: _, [], h => by simp [compatAll] at h
  | a :: as, p :: ps, h => by
    simp only [compatAll, Bool.and_eq_true] at h
    have ih := sum_zipWith_of_compat as ps h.2
    simp only [List.zipWith_cons_cons, List.sum_cons, ih, diffCount, matchTy_of_compat h.1]
    split <;> simp <;> omega

theorem matchSig_nonneg_iff (s : Sig) (args : List Ty) :
    0 ≤ matchSig s args ↔ compatAll args s.params = true := by
  unfold matchSig
  by_cases hl : args.length = s.params.length
  · simp only [hl, ne_eq, not_true_eq_false, ↓reduceIte, any_neg_zipWith _ _ hl]
    cases hc : compatAll args s.params
    · simp
    · simp [sum_zipWith_of_compat _ _ hc]
  · simp only [ne_eq, hl, not_false_eq_true, ↓reduceIte]
    constructor
    · intro h; omega
    · intro h; exact absurd (compatAll_length h) hl

theorem matchSig_of_compat {s : Sig} {args : List Ty} (h : compatAll args s.params = true) :
    matchSig s args = (diffCount args s.params : Int) := by
  unfold matchSig
  have hl := compatAll_length h
  simp [hl, any_neg_zipWith _ _ hl, h, sum_zipWith_of_compat _ _ h]

/-- Spec side: the index-wise formulation of "all convertible". -/
theorem all_range_compat : ∀ (as ps : List Ty), as.length = ps.length →
    ((List.range as.length).all fun i => Spec.convertibleAt as ps i) = compatAll as ps
  | [], [], _ => by simp [compatAll]
  | [], _ :: _, h => by simp at h
  | _ :: _, [], h => by simp at h
  | a :: as, p :: ps, h => by
    have ih := all_range_compat as ps (by simpa using h)
    simp only [List.length_cons, List.range_succ_eq_map, List.all_cons, List.all_map, compatAll,
      ← ih]
    simp [Function.comp_def, Spec.convertibleAt]

/-- Spec side: the index-wise formulation of "number of differing positions". -/
theorem filter_range_diff : ∀ (as ps : List Ty), as.length = ps.length →
    ((List.range as.length).filter fun i => as[i]? != ps[i]?).length = diffCount as ps
  | [], [], _ => by simp [diffCount]
  | [], _ :: _, h => by simp at h
  | _ :: _, [], h => by simp at h
  | a :: as, p :: ps, h => by
    have ih := filter_range_diff as ps (by simpa using h)
    simp only [List.length_cons, List.range_succ_eq_map, List.filter_cons, List.filter_map,
      diffCount, ← ih]
    by_cases hap : a = p <;> simp [hap, Function.comp_def]
    omega

theorem viable_iff (s : Sig) (name : String) (args : List Ty) :
    Spec.viable s name args = true ↔ s.name = name ∧ compatAll args s.params = true := by
  unfold Spec.viable
  by_cases hl : args.length = s.params.length
  · rw [all_range_compat _ _ hl]; simp [hl]
  · have : compatAll args s.params ≠ true := fun h => hl (compatAll_length h)
    have hl' : ¬ s.params.length = args.length := fun h => hl h.symm
    simp [hl', this]

theorem cost_eq_diffCount {s : Sig} {args : List Ty} (h : compatAll args s.params = true) :
    Spec.cost s args = diffCount args s.params :=
  filter_range_diff _ _ (compatAll_length h)

/-- The score of the repaired `Function.Match` is non-negative exactly on viable candidates … -/
theorem matchSig_nonneg_iff_viable (s : Sig) (args : List Ty) :
    0 ≤ matchSig s args ↔ Spec.viable s s.name args = true := by
  rw [matchSig_nonneg_iff, viable_iff]; simp

/-- … and on those it is the cost. -/
theorem matchSig_eq_cost {s : Sig} {args : List Ty} (h : 0 ≤ matchSig s args) :
    matchSig s args = (Spec.cost s args : Int) := by
  rw [matchSig_nonneg_iff] at h
  rw [matchSig_of_compat h, cost_eq_diffCount h]

/-! ## B. The insertion sort: a sorted permutation -/

/-- Sorted by score. -/
def SortedByScore (l : List (Int × Sig)) : Prop := l.Pairwise (fun a b => a.1 ≤ b.1)

theorem insertByScore_perm (x : Int × Sig) : ∀ l, (insertByScore x l).Perm (x :: l)
  | [] => by simp [insertByScore]
  | y :: ys => by
    unfold insertByScore
    split
    · exact List.Perm.refl _
    · exact ((insertByScore_perm x ys).cons y).trans (List.Perm.swap x y ys)

theorem sortByScore_perm : ∀ l, (sortByScore l).Perm l
  | [] => by simp [sortByScore]
  | x :: xs => by
    unfold sortByScore
    exact (insertByScore_perm x _).trans ((sortByScore_perm xs).cons x)

theorem insertByScore_sorted (x : Int × Sig) :
    ∀ l, SortedByScore l → SortedByScore (insertByScore x l)
  | [], _ => by simp [insertByScore, SortedByScore]
  | y :: ys, h => by
    unfold insertByScore
    have h' := List.pairwise_cons.mp h
    split
    · rename_i hxy
      refine List.pairwise_cons.mpr ⟨?_, h⟩
      intro z hz
      rcases List.mem_cons.mp hz with rfl | hz
      · exact hxy
      · have := h'.1 z hz; omega
    · rename_i hxy
      refine List.pairwise_cons.mpr ⟨?_, insertByScore_sorted x ys h'.2⟩
      intro z hz
      rcases List.mem_cons.mp ((insertByScore_perm x ys).mem_iff.mp hz) with rfl | hz
      · omega
      · exact h'.1 z hz

theorem sortByScore_sorted : ∀ l, SortedByScore (sortByScore l)
  | [] => by simp [sortByScore, SortedByScore]
  | x :: xs => by
    unfold sortByScore
    exact insertByScore_sorted x _ (sortByScore_sorted xs)

/-! ## C. The specification on the list of viable candidates -/

namespace Spec

/-- `[w] ↦ w`, anything else is ambiguous. -/
def pickUnique : List Sig → Except OErr Sig
  | [w] => .ok w
  | _ => .error .ambiguous

/-- The part of `best` that only looks at the viable candidates. -/
def bestOf (vs : List Sig) (args : List Ty) : Except OErr Sig :=
  if vs.isEmpty then .error .noMatch
  else pickUnique (vs.filter fun s => cost s args == minOf (vs.map fun s => cost s args))

theorem best_eq (sc : Scope) (name : String) (args : List Ty) :
    best sc name args =
      if sc.all (fun s => s.name != name) then .error .unknown
      else bestOf (sc.filter fun s => viable s name args) args := by
  unfold best bestOf pickUnique
  rfl

theorem minOf_le : ∀ {l : List Nat} {x : Nat}, x ∈ l → minOf l ≤ x
  | [y], x, h => by simp at h; simp [minOf, h]
  | y :: z :: l, x, h => by
    have ih : ∀ {x}, x ∈ z :: l → minOf (z :: l) ≤ x := minOf_le
    simp only [minOf]
    rcases List.mem_cons.mp h with rfl | h
    · omega
    · have := ih h; omega

theorem minOf_mem : ∀ {l : List Nat}, l ≠ [] → minOf l ∈ l
  | [], h => absurd rfl h
  | [y], _ => by simp [minOf]
  | y :: z :: l, _ => by
    have ih : minOf (z :: l) ∈ z :: l := minOf_mem (by simp)
    simp only [minOf]
    by_cases hle : y ≤ minOf (z :: l)
    · rw [Nat.min_eq_left hle]; simp
    · rw [Nat.min_eq_right (by omega)]; exact List.mem_cons_of_mem _ ih

theorem minOf_perm {l₁ l₂ : List Nat} (h : l₁.Perm l₂) : minOf l₁ = minOf l₂ := by
  by_cases hn : l₁ = []
  · subst hn; rw [← h.nil_eq]
  · have hn₂ : l₂ ≠ [] := fun h2 => hn (by subst h2; exact h.eq_nil)
    have h1 := minOf_le (h.mem_iff.mpr (minOf_mem hn₂))
    have h2 := minOf_le (h.mem_iff.mp (minOf_mem hn))
    omega

theorem pickUnique_perm {l₁ l₂ : List Sig} (h : l₁.Perm l₂) : pickUnique l₁ = pickUnique l₂ := by
  match l₁, l₂, h with
  | [], l₂, h => rw [← h.nil_eq]
  | [w], l₂, h => rw [← List.singleton_perm.mp h]
  | a :: b :: l, [], h => exact absurd h.length_eq (by simp)
  | a :: b :: l, [w], h => exact absurd h.length_eq (by simp)
  | a :: b :: l, c :: d :: l', _ => rfl

/-- The specification does not depend on the order of the viable candidates. -/
theorem bestOf_perm {vs₁ vs₂ : List Sig} (h : vs₁.Perm vs₂) (args : List Ty) :
    bestOf vs₁ args = bestOf vs₂ args := by
  unfold bestOf
  have he : vs₁.isEmpty = vs₂.isEmpty := by
    cases vs₁ <;> cases vs₂ <;> first | rfl | exact absurd h.length_eq (by simp)
  rw [he, minOf_perm (h.map _)]
  split
  · rfl
  · exact pickUnique_perm (h.filter _)

/-- On a list of viable candidates sorted by cost, the specification is the decision the
Python code takes on its ranking. -/
theorem bestOf_sorted (vs : List Sig) (args : List Ty)
    (hs : vs.Pairwise (fun a b => cost a args ≤ cost b args)) :
    bestOf vs args = pickRanked (vs.map fun s => (((cost s args : Nat) : Int), s)) := by
  match vs, hs with
  | [], _ => rfl
  | [v], _ => simp [bestOf, minOf, pickUnique, pickRanked]
  | v :: w :: rest, hs =>
    have h1 := List.pairwise_cons.mp hs
    have h2 := List.pairwise_cons.mp h1.2
    have hmin : minOf ((v :: w :: rest).map fun s => cost s args) = cost v args := by
      apply Nat.le_antisymm
      · exact minOf_le (by simp)
      · have hm := minOf_mem (l := (v :: w :: rest).map fun s => cost s args) (by simp)
        rcases List.mem_map.mp hm with ⟨t, ht, hte⟩
        rw [← hte]
        rcases List.mem_cons.mp ht with rfl | ht
        · exact Nat.le_refl _
        · exact h1.1 t ht
    have hb : bestOf (v :: w :: rest) args =
        pickUnique ((v :: w :: rest).filter fun s => cost s args == cost v args) := by
      unfold bestOf; rw [hmin]; rfl
    rw [hb]
    simp only [pickRanked, List.map_cons]
    by_cases hvw : cost v args = cost w args
    · simp [hvw, pickUnique]
    · have hlt : cost v args < cost w args := by
        have := h1.1 w (by simp); omega
      have hrest : rest.filter (fun s => cost s args == cost v args) = [] := by
        apply List.filter_eq_nil_iff.mpr
        intro t ht
        have := h2.1 t ht
        simp; omega
      have hw : (cost w args == cost v args) = false := by simp; omega
      have hne : ¬ ((cost v args : Nat) : Int) = ((cost w args : Nat) : Int) := by omega
      simp [hw, hrest, pickUnique, hne]

end Spec

/-! ## D. The mirror computes the specification -/

theorem filter_name_isEmpty (sc : Scope) (name : String) :
    (sc.filter fun c => c.name == name).isEmpty = sc.all (fun s => s.name != name) := by
  induction sc with
  | nil => rfl
  | cons a l ih =>
    by_cases h : a.name = name <;> simp [h, ih]

/-- Strong form: `none` exactly when the name is not registered, otherwise the specification. -/
theorem findInScope_eq (sc : Scope) (name : String) (args : List Ty) :
    findInScope sc name args =
      if sc.all (fun s => s.name != name) then none else some (Spec.best sc name args) := by
  unfold findInScope findInScopeWith
  simp only [filter_name_isEmpty, Spec.best_eq]
  split
  · rfl
  · rename_i hname
    congr 1
    -- the candidates of that name, paired with their score
    generalize hc : sc.filter (fun c => c.name == name) = cands
    have hcn : ∀ c ∈ cands, c.name = name := by
      intro c hcm; rw [← hc] at hcm; simpa using (List.mem_filter.mp hcm).2
    -- the ranking
    generalize hR : (sortByScore (cands.map fun c => (matchSig c args, c))).filter
        (fun p => decide (0 ≤ p.1)) = R
    have hperm : R.Perm ((cands.map fun c => (matchSig c args, c)).filter
        (fun p => decide (0 ≤ p.1))) := by
      rw [← hR]; exact (sortByScore_perm _).filter _
    have hsorted : SortedByScore R := by
      rw [← hR]; exact (sortByScore_sorted _).filter _
    -- viable candidates
    have hvs : (cands.map fun c => (matchSig c args, c)).filter (fun p => decide (0 ≤ p.1)) =
        (sc.filter fun s => Spec.viable s name args).map fun c => (matchSig c args, c) := by
      rw [List.filter_map, ← hc, List.filter_filter]
      congr 1
      apply List.filter_congr
      intro s _
      by_cases hn : s.name = name
      · subst hn
        have := matchSig_nonneg_iff_viable s args
        cases hv : Spec.viable s s.name args <;> simp [hv] at this ⊢ <;> omega
      · have : Spec.viable s name args = false := by
          cases hv : Spec.viable s name args
          · rfl
          · exact absurd ((viable_iff _ _ _).mp hv).1 hn
        simp [hn, this]
    rw [hvs] at hperm
    -- every ranked pair is (cost, viable candidate)
    have hmem : ∀ p ∈ R, p.1 = ((Spec.cost p.2 args : Nat) : Int) := by
      intro p hp
      have hp' := hperm.mem_iff.mp hp
      rcases List.mem_map.mp hp' with ⟨c, hcm, rfl⟩
      have hv := (List.mem_filter.mp hcm).2
      have hcn' := ((viable_iff _ _ _).mp hv).1
      apply matchSig_eq_cost
      rw [matchSig_nonneg_iff_viable, hcn']; exact hv
    have hRmap : R = (R.map (·.2)).map fun s => (((Spec.cost s args : Nat) : Int), s) := by
      rw [List.map_map]
      conv => lhs; rw [← List.map_id R]
      apply List.map_congr_left
      intro p hp
      simp only [id, Function.comp]
      exact Prod.ext (hmem p hp) rfl
    have hperm2 : (R.map (·.2)).Perm (sc.filter fun s => Spec.viable s name args) := by
      have := hperm.map (·.2)
      simpa [List.map_map, Function.comp_def] using this
    have hsorted2 : (R.map (·.2)).Pairwise (fun a b => Spec.cost a args ≤ Spec.cost b args) := by
      rw [List.pairwise_map]
      refine List.Pairwise.imp_of_mem ?_ hsorted
      intro a b ha hb hab
      have := hmem a ha; have := hmem b hb; omega
    rw [← Spec.bestOf_perm hperm2 args, Spec.bestOf_sorted _ _ hsorted2, ← hRmap]

theorem findFunction_eq_resolve (chain : List Scope) (name : String) (args : List Ty) :
    findFunction chain name args = Spec.resolve chain name args := by
  induction chain with
  | nil => rfl
  | cons sc rest ih =>
    unfold findFunction Spec.resolve
    rw [findInScope_eq]
    by_cases h : sc.all (fun s => s.name != name) = true
    · have h' : sc.any (fun s => s.name == name) = false := by
        rw [List.any_eq_false]; intro s hs
        simpa using List.all_eq_true.mp h s hs
      simp only [h, ↓reduceIte, List.find?_cons, h', ih, Spec.resolve]
    · have h' : sc.any (fun s => s.name == name) = true := by
        cases ha : sc.any (fun s => s.name == name)
        · exfalso; apply h
          rw [List.all_eq_true]; intro s hs
          have := List.any_eq_false.mp ha s hs
          simpa using this
        · rfl
      simp only [h, ↓reduceIte, List.find?_cons, h', Bool.false_eq_true]

/-! ## E. What an `.ok` answer means -/

theorem Spec.pickUnique_ok {l : List Sig} {s : Sig} (h : Spec.pickUnique l = .ok s) : l = [s] := by
  match l, h with
  | [w], h => simp only [Spec.pickUnique, Except.ok.injEq] at h; rw [h]

/-- The winner designated by the specification is declared once in the scope, is viable, and
every other viable declaration of the scope costs strictly more. -/
theorem Spec.best_ok {sc : Scope} {name : String} {args : List Ty} {s : Sig}
    (h : Spec.best sc name args = .ok s) :
    s ∈ sc ∧ Spec.viable s name args = true ∧ sc.count s = 1 ∧
      ∀ t ∈ sc, Spec.viable t name args = true → t ≠ s → Spec.cost s args < Spec.cost t args := by
  rw [Spec.best_eq] at h
  split at h
  · cases h
  · unfold Spec.bestOf at h
    split at h
    · cases h
    · have hf := Spec.pickUnique_ok h
      have hs : s ∈ List.filter (fun s => Spec.cost s args ==
          Spec.minOf ((sc.filter fun s => Spec.viable s name args).map fun s => Spec.cost s args))
          (sc.filter fun s => Spec.viable s name args) := by rw [hf]; simp
      have hs1 := List.mem_filter.mp hs
      have hs2 := List.mem_filter.mp hs1.1
      have hcost : Spec.cost s args =
          Spec.minOf ((sc.filter fun s => Spec.viable s name args).map fun s => Spec.cost s args) := by
        simpa using hs1.2
      refine ⟨hs2.1, hs2.2, ?_, ?_⟩
      · have h1 := List.count_filter (l := sc) (p := fun s => Spec.viable s name args) (a := s) hs2.2
        have h2 := List.count_filter (l := sc.filter fun s => Spec.viable s name args)
          (p := fun s => Spec.cost s args ==
            Spec.minOf ((sc.filter fun s => Spec.viable s name args).map fun s => Spec.cost s args))
          (a := s) hs1.2
        rw [← h1, ← h2, hf]; simp
      · intro t ht hv hne
        have htv : t ∈ sc.filter fun s => Spec.viable s name args := List.mem_filter.mpr ⟨ht, hv⟩
        have hle : Spec.minOf ((sc.filter fun s => Spec.viable s name args).map
            fun s => Spec.cost s args) ≤ Spec.cost t args :=
          Spec.minOf_le (List.mem_map.mpr ⟨t, htv, rfl⟩)
        rcases Nat.lt_or_ge (Spec.cost s args) (Spec.cost t args) with hlt | hge
        · exact hlt
        · exfalso
          have heq : Spec.cost t args = Spec.minOf ((sc.filter fun s => Spec.viable s name args).map
              fun s => Spec.cost s args) := by omega
          have : t ∈ List.filter (fun s => Spec.cost s args ==
              Spec.minOf ((sc.filter fun s => Spec.viable s name args).map fun s => Spec.cost s args))
              (sc.filter fun s => Spec.viable s name args) :=
            List.mem_filter.mpr ⟨htv, by simp [heq]⟩
          rw [hf] at this
          exact hne (by simpa using this)

/-- Converse: a declaration that is viable, declared once, and strictly cheaper than every other
viable declaration of the scope is the winner. -/
theorem Spec.best_of_unique_min {sc : Scope} {name : String} {args : List Ty} {s : Sig}
    (hs : s ∈ sc) (hv : Spec.viable s name args = true) (hcount : sc.count s = 1)
    (hmin : ∀ t ∈ sc, Spec.viable t name args = true → t ≠ s →
      Spec.cost s args < Spec.cost t args) :
    Spec.best sc name args = .ok s := by
  rw [Spec.best_eq]
  have hname : s.name = name := ((viable_iff _ _ _).mp hv).1
  have hall : ¬ sc.all (fun s => s.name != name) = true := by
    intro h; have := List.all_eq_true.mp h s hs; simp [hname] at this
  rw [if_neg hall]
  generalize hvs : sc.filter (fun s => Spec.viable s name args) = vs
  have hsv : s ∈ vs := by rw [← hvs]; exact List.mem_filter.mpr ⟨hs, hv⟩
  have hle : ∀ t ∈ vs, t = s ∨ Spec.cost s args < Spec.cost t args := by
    intro t ht
    rw [← hvs] at ht
    have ht' := List.mem_filter.mp ht
    by_cases hts : t = s
    · exact Or.inl hts
    · exact Or.inr (hmin t ht'.1 ht'.2 hts)
  have hm : Spec.minOf (vs.map fun s => Spec.cost s args) = Spec.cost s args := by
    apply Nat.le_antisymm
    · exact Spec.minOf_le (List.mem_map.mpr ⟨s, hsv, rfl⟩)
    · have hne : vs.map (fun s => Spec.cost s args) ≠ [] := by
        intro h; rw [List.map_eq_nil_iff] at h; rw [h] at hsv; cases hsv
      rcases List.mem_map.mp (Spec.minOf_mem hne) with ⟨t, ht, hte⟩
      rw [← hte]
      rcases hle t ht with rfl | hlt
      · exact Nat.le_refl _
      · omega
  unfold Spec.bestOf
  have hne : vs.isEmpty = false := by cases vs <;> simp_all
  rw [hne, hm]
  simp only [Bool.false_eq_true, ↓reduceIte]
  generalize hL : vs.filter (fun t => Spec.cost t args == Spec.cost s args) = L
  have hLall : ∀ t ∈ L, t = s := by
    intro t ht
    rw [← hL] at ht
    have ht' := List.mem_filter.mp ht
    rcases hle t ht'.1 with h | h
    · exact h
    · have : Spec.cost t args = Spec.cost s args := by simpa using ht'.2
      omega
  have hLcount : L.count s = 1 := by
    have h1 := List.count_filter (l := sc) (p := fun s => Spec.viable s name args) (a := s) hv
    have h2 := List.count_filter (l := vs)
      (p := fun t => Spec.cost t args == Spec.cost s args) (a := s) (by simp)
    rw [← hL, h2, ← hvs, h1, hcount]
  have hrep : L = List.replicate L.length s := List.eq_replicate_iff.mpr ⟨rfl, hLall⟩
  have hlen : L.length = 1 := by
    rw [hrep, List.count_replicate_self] at hLcount; exact hLcount
  rw [hrep, hlen]; rfl

/-- An `.ok` answer of the scope walk comes from the innermost scope declaring the name. -/
theorem findFunction_ok_scope {chain : List Scope} {name : String} {args : List Ty} {s : Sig}
    (h : findFunction chain name args = .ok s) :
    ∃ pre sc post, chain = pre ++ sc :: post ∧ (∀ sc' ∈ pre, ∀ t ∈ sc', t.name ≠ name) ∧
      Spec.best sc name args = .ok s := by
  induction chain with
  | nil => cases h
  | cons sc rest ih =>
    unfold findFunction at h
    rw [findInScope_eq] at h
    by_cases hall : sc.all (fun s => s.name != name) = true
    · simp only [hall, ↓reduceIte] at h
      obtain ⟨pre, sc', post, hch, hpre, hb⟩ := ih h
      refine ⟨sc :: pre, sc', post, by simp [hch], ?_, hb⟩
      intro sc'' hm t ht
      rcases List.mem_cons.mp hm with rfl | hm
      · simpa using List.all_eq_true.mp hall t ht
      · exact hpre sc'' hm t ht
    · simp only [hall] at h
      exact ⟨[], sc, rest, rfl, by simp, h⟩

theorem viable_convertible {s : Sig} {name : String} {args : List Ty}
    (h : Spec.viable s name args = true) {i : Nat} {a p : Ty}
    (ha : args[i]? = some a) (hp : s.params[i]? = some p) : isCompatible a p = true := by
  unfold Spec.viable at h
  simp only [Bool.and_eq_true, List.all_eq_true, List.mem_range] at h
  have hi : i < args.length := by
    rcases Nat.lt_or_ge i args.length with hlt | hge
    · exact hlt
    · rw [List.getElem?_eq_none hge] at ha; cases ha
  have := h.2 i hi
  simpa [Spec.convertibleAt, ha, hp] using this

end Nsl.Overload
