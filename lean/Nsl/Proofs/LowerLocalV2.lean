import Nsl.Proofs.LowerLocalV1
/-!
# The lowering produces block-local, single-definition code for EVERY expression of the typed core — part 2

`lowerE_localG` / `lowerArgs_localG` / `lowerStore_localG`: no hypothesis on the expression.
The store lemma is in continuation form (the code of a target reads the stored operand `v`, which the label-free
prefix `c0` before it defines): nested targets `m[i][j] = …`, `v.zx = …`, `m[i].yx = …` re-enter it with the prefix
extended by the `vecSet` / `matSet` / store-`shuffle` that defines the new stored operand.
-/
namespace Nsl
namespace Lower
open Core Opt WF

/-- uses of a two-operand instruction over the code of its two operands -/
theorem uses2 {cl cr : List Instr} {vl vr : Opd} (hl : ∀ r ∈ opdRefs vl, r ∈ defs cl)
    (hr : ∀ r ∈ opdRefs vr, r ∈ defs cr) : ∀ x ∈ opdRefs vl ++ opdRefs vr, x ∈ defs (cl ++ cr) := by
  intro x hx
  rcases List.mem_append.1 hx with hx | hx
  · exact defs_mem_left (hl x hx)
  · exact defs_mem_right (hr x hx)

mutual
  theorem lowerE_localG : ∀ (e : Expr) (k : Nat) (c : List Instr) (o : Opd) (k' : Nat),
      lowerE e k = (c, o, k') → ELocal k c o k'
    | .litI i, k, c, o, k', h => by
      simp only [lowerE, Prod.mk.injEq] at h
      obtain ⟨rfl, rfl, rfl⟩ := h
      exact ⟨SLocal.nil k, NoLabels.nil, by simp [opdRefs]⟩
    | .litF f, k, c, o, k', h => by
      simp only [lowerE, Prod.mk.injEq] at h
      obtain ⟨rfl, rfl, rfl⟩ := h
      exact ⟨SLocal.nil k, NoLabels.nil, by simp [opdRefs]⟩
    | .var sc key ty, k, c, o, k', h => by
      simp only [lowerE, Prod.mk.injEq] at h
      obtain ⟨rfl, rfl, rfl⟩ := h
      exact ELocal.load k ty sc key
    | .bin op ty l r, k, c, o, k', h => by
      rcases hel : lowerE l k with ⟨cl, vl, k1⟩
      rcases her : lowerE r k1 with ⟨cr, vr, k2⟩
      have il := lowerE_localG l k cl vl k1 hel
      have ir := lowerE_localG r k1 cr vr k2 her
      have p0 : PLocal k (cl ++ cr) k2 := il.pl.append ir.pl
      have hvl : ∀ x ∈ opdRefs vl, x ∈ defs (cl ++ cr) := fun x hx => defs_mem_left (il.opd x hx)
      have hvr : ∀ x ∈ opdRefs vr, x ∈ defs (cl ++ cr) := fun x hx => defs_mem_right (ir.opd x hx)
      have h2 := uses2 il.opd ir.opd
      rcases hmm : rowsMM op (Expr.ty l) (Expr.ty r) ty vl vr (rowCount (Expr.ty l)) k2 with ⟨c3, r3, k3⟩
      rcases hsm : rowsSM op (Expr.ty l) (Expr.ty r) ty vl vr (rowCount (Expr.ty r)) k2 with ⟨c4, r4, k4⟩
      rcases hms : rowsMS op (Expr.ty l) (Expr.ty r) ty vl vr (rowCount (Expr.ty l)) k2 with ⟨c5, r5, k5⟩
      obtain ⟨p3, q3⟩ := rowsMM_local op _ _ ty vl vr p0 hvl hvr _ _ _ _ hmm
      obtain ⟨p4, q4⟩ := rowsSM_local op _ _ ty vl vr p0 hvl hvr _ _ _ _ hsm
      obtain ⟨p5, q5⟩ := rowsMS_local op _ _ ty vl vr p0 hvl hvr _ _ _ _ hms
      simp only [lowerE, hel, her, hmm, hsm, hms] at h
      split at h
      · split at h
        · simp only [Prod.mk.injEq] at h
          obtain ⟨rfl, rfl, rfl⟩ := h
          exact p0.snocE rfl h2 rfl
        · simp only [Prod.mk.injEq] at h
          obtain ⟨rfl, rfl, rfl⟩ := h
          exact p3.snocE rfl q3 rfl
      · split at h
        · simp only [Prod.mk.injEq] at h
          obtain ⟨rfl, rfl, rfl⟩ := h
          exact p0.snocE rfl h2 rfl
        · split at h
          · simp only [Prod.mk.injEq] at h
            obtain ⟨rfl, rfl, rfl⟩ := h
            exact p4.snocE rfl q4 rfl
          · split at h
            · simp only [Prod.mk.injEq] at h
              obtain ⟨rfl, rfl, rfl⟩ := h
              exact p5.snocE rfl q5 rfl
            · simp only [Prod.mk.injEq] at h
              obtain ⟨rfl, rfl, rfl⟩ := h
              refine p0.snocE (mkBin_label ..) ?_ (mkBin_def ..)
              intro x hx
              rcases mkBin_uses hx with hx | hx
              · exact hvl x hx
              · exact hvr x hx
    | .cast ty e, k, c, o, k', h => by
      rcases he : lowerE e k with ⟨c1, v1, k1⟩
      have ie := lowerE_localG e k c1 v1 k1 he
      simp only [lowerE, he, Prod.mk.injEq] at h
      obtain ⟨rfl, rfl, rfl⟩ := h
      exact ie.pl.snocE rfl (fun x hx => ie.opd x (by simpa [usesOf] using hx)) rfl
    | .assign lhs rhs, k, c, o, k', h => by
      rcases he : lowerE rhs k with ⟨c1, v1, k1⟩
      rcases hs : lowerStore lhs v1 k1 with ⟨c2, k2⟩
      have ie := lowerE_localG rhs k c1 v1 k1 he
      have ps := lowerStore_localG lhs v1 k k1 c1 c2 k2 ie.pl ie.opd hs
      simp only [lowerE, he, hs, Prod.mk.injEq] at h
      obtain ⟨rfl, rfl, rfl⟩ := h
      exact ps.elocal (fun x hx => defs_mem_left (ie.opd x hx))
    | .affix post inc x, k, c, o, k', h => by
      rcases he : lowerE x k with ⟨c1, v1, k1⟩
      rcases hs : lowerStore x (.ref k1) (k1 + 1) with ⟨c2, k2⟩
      have ie := lowerE_localG x k c1 v1 k1 he
      have i1 := ie.pl.snocE (ins := Instr.bin k1 (.s (if inc then .add else .sub)) (Expr.ty x) v1 (.cInt 1))
        rfl (fun r hr => ie.opd r (by simpa [usesOf, opdRefs] using hr)) rfl
      have ps := lowerStore_localG x (.ref k1) k (k1 + 1) _ c2 k2 i1.pl i1.opd hs
      simp only [lowerE, he, hs, Prod.mk.injEq] at h
      obtain ⟨rfl, rfl, rfl⟩ := h
      refine ps.elocal ?_
      intro r hr
      refine defs_mem_left ?_
      cases post
      · exact i1.opd r (by simpa using hr)
      · exact defs_snoc_mem (ie.opd r (by simpa using hr))
    | .call fn ty args, k, c, o, k', h => by
      rcases ha : lowerArgs args k with ⟨c1, vs, k1⟩
      obtain ⟨ip, iop⟩ := lowerArgs_localG args k c1 vs k1 ha
      simp only [lowerE, ha, Prod.mk.injEq] at h
      obtain ⟨rfl, rfl, rfl⟩ := h
      exact ip.snocE rfl (fun x hx => iop x (by simpa [usesOf] using hx)) rfl
    | .index kind ty base idx, k, c, o, k', h => by
      rcases heb : lowerE base k with ⟨cb, vb, k1⟩
      rcases hei : lowerE idx k1 with ⟨ci, vi, k2⟩
      have ib := lowerE_localG base k cb vb k1 heb
      have ii := lowerE_localG idx k1 ci vi k2 hei
      have h2 := uses2 ib.opd ii.opd
      simp only [lowerE, heb, hei, Prod.mk.injEq] at h
      obtain ⟨rfl, rfl, rfl⟩ := h
      cases kind
      · exact (ib.pl.append ii.pl).snocE rfl h2 rfl
      · exact (ib.pl.append ii.pl).snocE rfl h2 rfl
      · exact (ib.pl.append ii.pl).snocE rfl h2 rfl
    | .member ty base field, k, c, o, k', h => by
      rcases heb : lowerE base k with ⟨cb, vb, k1⟩
      have ib := lowerE_localG base k cb vb k1 heb
      simp only [lowerE, heb, Prod.mk.injEq] at h
      obtain ⟨rfl, rfl, rfl⟩ := h
      exact ib.pl.snocE rfl (fun x hx => ib.opd x (by simpa [usesOf] using hx)) rfl
    | .swizzle ty base idxs, k, c, o, k', h => by
      rcases heb : lowerE base k with ⟨cb, vb, k1⟩
      have ib := lowerE_localG base k cb vb k1 heb
      simp only [lowerE, heb, Prod.mk.injEq] at h
      obtain ⟨rfl, rfl, rfl⟩ := h
      exact ib.pl.snocE rfl (fun x hx => ib.opd x (by simpa [usesOf] using hx)) rfl
    | .construct ty args, k, c, o, k', h => by
      rcases ha : lowerArgs args k with ⟨c1, vs, k1⟩
      obtain ⟨ip, iop⟩ := lowerArgs_localG args k c1 vs k1 ha
      simp only [lowerE, ha, Prod.mk.injEq] at h
      obtain ⟨rfl, rfl, rfl⟩ := h
      exact ip.snocE rfl (fun x hx => iop x (by simpa [usesOf] using hx)) rfl
  termination_by e => (sizeOf e, 0)
  theorem lowerArgs_localG : ∀ (as : Args) (k : Nat) (c : List Instr) (os : List Opd) (k' : Nat),
      lowerArgs as k = (c, os, k') → PLocal k c k' ∧ ∀ r ∈ opdsRefs os, r ∈ defs c
    | .nil, k, c, os, k', h => by
      simp only [lowerArgs, Prod.mk.injEq] at h
      obtain ⟨rfl, rfl, rfl⟩ := h
      exact ⟨PLocal.nil k, by simp [opdsRefs]⟩
    | .cons e rest, k, c, os, k', h => by
      rcases he : lowerE e k with ⟨c1, v1, k1⟩
      rcases hr : lowerArgs rest k1 with ⟨c2, vs, k2⟩
      have ie := lowerE_localG e k c1 v1 k1 he
      obtain ⟨rp, rop⟩ := lowerArgs_localG rest k1 c2 vs k2 hr
      simp only [lowerArgs, he, hr, Prod.mk.injEq] at h
      obtain ⟨rfl, rfl, rfl⟩ := h
      refine ⟨ie.pl.append rp, ?_⟩
      intro x hx
      simp only [opdsRefs, List.mem_append] at hx
      rcases hx with hx | hx
      · exact defs_mem_left (ie.opd x hx)
      · exact defs_mem_right (rop x hx)
  termination_by as => (sizeOf as, 0)
  /-- Store targets: `c0` is the label-free code before the target; it defines the stored operand `v`. -/
  theorem lowerStore_localG : ∀ (e : Expr) (v : Opd) (k0 k : Nat) (c0 cs : List Instr) (k' : Nat),
      PLocal k0 c0 k → (∀ r ∈ opdRefs v, r ∈ defs c0) → lowerStore e v k = (cs, k') → PLocal k0 (c0 ++ cs) k'
    | .var sc key ty, v, k0, k, c0, cs, k', h0, hv, h => by
      simp only [lowerStore, Prod.mk.injEq] at h
      obtain ⟨rfl, rfl⟩ := h
      exact h0.snocUse rfl (by simpa [usesOf] using hv) rfl (by omega)
    | .index kind ty base idx, v, k0, k, c0, cs, k', h0, hv, h => by
      rcases heb : lowerE base k with ⟨cb, vb, k1⟩
      rcases hei : lowerE idx k1 with ⟨ci, vi, k2⟩
      rcases hsb : lowerStore base (.ref k2) (k2 + 1) with ⟨cs', k3⟩
      have ib := lowerE_localG base k cb vb k1 heb
      have ii := lowerE_localG idx k1 ci vi k2 hei
      have p2 : PLocal k0 ((c0 ++ cb) ++ ci) k2 := (h0.append ib.pl).append ii.pl
      have hu3 : ∀ x ∈ opdRefs vb ++ opdRefs vi ++ opdRefs v, x ∈ defs ((c0 ++ cb) ++ ci) := by
        intro x hx
        simp only [List.mem_append] at hx
        rcases hx with (hx | hx) | hx
        · exact defs_mem_left (defs_mem_right (ib.opd x hx))
        · exact defs_mem_right (ii.opd x hx)
        · exact defs_mem_left (defs_mem_left (hv x hx))
      cases kind with
      | arr =>
        simp only [lowerStore, heb, hei, Prod.mk.injEq] at h
        obtain ⟨rfl, rfl⟩ := h
        have := p2.snocUse (ins := .storeArr vb vi v) (k2 := k2 + 1) rfl hu3 rfl (by omega)
        simpa [List.append_assoc] using this
      | vec =>
        simp only [lowerStore, heb, hei, hsb, Prod.mk.injEq] at h
        obtain ⟨rfl, rfl⟩ := h
        have p3 := p2.snocDef (ins := .vecSet k2 ty vb vi v) rfl hu3 rfl
        have := lowerStore_localG base (.ref k2) k0 (k2 + 1) _ cs' k3 p3
          (by intro x hx
              simp only [opdRefs, List.mem_cons, List.not_mem_nil, or_false] at hx
              subst hx
              exact defs_snoc_def rfl) hsb
        simpa [List.append_assoc] using this
      | mat =>
        simp only [lowerStore, heb, hei, hsb, Prod.mk.injEq] at h
        obtain ⟨rfl, rfl⟩ := h
        have p3 := p2.snocDef (ins := .matSet k2 ty vb vi v) rfl hu3 rfl
        have := lowerStore_localG base (.ref k2) k0 (k2 + 1) _ cs' k3 p3
          (by intro x hx
              simp only [opdRefs, List.mem_cons, List.not_mem_nil, or_false] at hx
              subst hx
              exact defs_snoc_def rfl) hsb
        simpa [List.append_assoc] using this
    | .member ty base field, v, k0, k, c0, cs, k', h0, hv, h => by
      rcases heb : lowerE base k with ⟨cb, vb, k1⟩
      have ib := lowerE_localG base k cb vb k1 heb
      simp only [lowerStore, heb, Prod.mk.injEq] at h
      obtain ⟨rfl, rfl⟩ := h
      have := (h0.append ib.pl).snocUse (ins := .storeMem vb field v) (k2 := k1 + 1) rfl
        (by intro x hx
            simp only [usesOf, List.mem_append] at hx
            rcases hx with hx | hx
            · exact defs_mem_right (ib.opd x hx)
            · exact defs_mem_left (hv x hx)) rfl (by omega)
      simpa [List.append_assoc] using this
    | .swizzle ty base idxs, v, k0, k, c0, cs, k', h0, hv, h => by
      rcases heb : lowerE base k with ⟨cb, vb, k1⟩
      rcases hsb : lowerStore base (.ref k1) (k1 + 1) with ⟨cs', k2⟩
      have ib := lowerE_localG base k cb vb k1 heb
      simp only [lowerStore, heb, hsb, Prod.mk.injEq] at h
      obtain ⟨rfl, rfl⟩ := h
      have p3 := (h0.append ib.pl).snocDef
        (ins := .shuffle k1 (Expr.ty base) vb v (storeShuffleIdx (vecSize (Expr.ty base)) idxs)) rfl
        (by intro x hx
            simp only [usesOf, List.mem_append] at hx
            rcases hx with hx | hx
            · exact defs_mem_right (ib.opd x hx)
            · exact defs_mem_left (hv x hx)) rfl
      have := lowerStore_localG base (.ref k1) k0 (k1 + 1) _ cs' k2 p3
        (by intro x hx
            simp only [opdRefs, List.mem_cons, List.not_mem_nil, or_false] at hx
            subst hx
            exact defs_snoc_def rfl) hsb
      simpa [List.append_assoc] using this
    | .litI i, v, k0, k, c0, cs, k', h0, hv, h => by
      rcases he : lowerE (.litI i) k with ⟨c1, v1, k1⟩
      have ie := lowerE_localG _ k c1 v1 k1 he
      simp only [lowerStore, he, Prod.mk.injEq] at h
      obtain ⟨rfl, rfl⟩ := h
      exact h0.append ie.pl
    | .litF f, v, k0, k, c0, cs, k', h0, hv, h => by
      rcases he : lowerE (.litF f) k with ⟨c1, v1, k1⟩
      have ie := lowerE_localG _ k c1 v1 k1 he
      simp only [lowerStore, he, Prod.mk.injEq] at h
      obtain ⟨rfl, rfl⟩ := h
      exact h0.append ie.pl
    | .bin op ty l r, v, k0, k, c0, cs, k', h0, hv, h => by
      rcases he : lowerE (.bin op ty l r) k with ⟨c1, v1, k1⟩
      have ie := lowerE_localG _ k c1 v1 k1 he
      simp only [lowerStore, he, Prod.mk.injEq] at h
      obtain ⟨rfl, rfl⟩ := h
      exact h0.append ie.pl
    | .cast ty e, v, k0, k, c0, cs, k', h0, hv, h => by
      rcases he : lowerE (.cast ty e) k with ⟨c1, v1, k1⟩
      have ie := lowerE_localG _ k c1 v1 k1 he
      simp only [lowerStore, he, Prod.mk.injEq] at h
      obtain ⟨rfl, rfl⟩ := h
      exact h0.append ie.pl
    | .assign lhs rhs, v, k0, k, c0, cs, k', h0, hv, h => by
      rcases he : lowerE (.assign lhs rhs) k with ⟨c1, v1, k1⟩
      have ie := lowerE_localG _ k c1 v1 k1 he
      simp only [lowerStore, he, Prod.mk.injEq] at h
      obtain ⟨rfl, rfl⟩ := h
      exact h0.append ie.pl
    | .affix post inc x, v, k0, k, c0, cs, k', h0, hv, h => by
      rcases he : lowerE (.affix post inc x) k with ⟨c1, v1, k1⟩
      have ie := lowerE_localG _ k c1 v1 k1 he
      simp only [lowerStore, he, Prod.mk.injEq] at h
      obtain ⟨rfl, rfl⟩ := h
      exact h0.append ie.pl
    | .call fn ty args, v, k0, k, c0, cs, k', h0, hv, h => by
      rcases he : lowerE (.call fn ty args) k with ⟨c1, v1, k1⟩
      have ie := lowerE_localG _ k c1 v1 k1 he
      simp only [lowerStore, he, Prod.mk.injEq] at h
      obtain ⟨rfl, rfl⟩ := h
      exact h0.append ie.pl
    | .construct ty args, v, k0, k, c0, cs, k', h0, hv, h => by
      rcases he : lowerE (.construct ty args) k with ⟨c1, v1, k1⟩
      have ie := lowerE_localG _ k c1 v1 k1 he
      simp only [lowerStore, he, Prod.mk.injEq] at h
      obtain ⟨rfl, rfl⟩ := h
      exact h0.append ie.pl
  termination_by e => (sizeOf e, 1)
end

end Lower
end Nsl
