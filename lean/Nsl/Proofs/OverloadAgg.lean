import Nsl.Model.OverloadAgg
import Nsl.Proofs.Overload

/-!
# Helper lemmas for C10 over the full type universe (arrays, structures, optional parameters)
-/

namespace Nsl.Overload
open Nsl.Types

/-! ## A. Scores, viability and cost on an argument list and a parameter list -/

/-- Recursive form of "at most as many arguments as parameters, every argument convertible to
its parameter, every remaining parameter optional". -/
def compatAllA : List ATy → List (ATy × Bool) → Bool
  | [], ps => ps.all (·.2)
  | a :: as, p :: ps => isCompatibleA a p.1 && compatAllA as ps
  | _ :: _, [] => false

/-- Recursive form of "number of positions that differ" (among the passed arguments). -/
def diffCountA : List ATy → List (ATy × Bool) → Nat
  | a :: as, p :: ps => (if a = p.1 then 0 else 1) + diffCountA as ps
  | _, _ => 0

theorem matchTyA_nonneg_iff (a p : ATy) : 0 ≤ matchTyA a p ↔ isCompatibleA a p = true := by
  unfold matchTyA
  cases isCompatibleA a p <;> simp <;> split <;> omega

theorem matchTyA_neg_iff (a p : ATy) : matchTyA a p < 0 ↔ isCompatibleA a p = false := by
  have := matchTyA_nonneg_iff a p
  cases h : isCompatibleA a p <;> simp [h] at this ⊢ <;> omega

theorem matchTyA_of_compat {a p : ATy} (h : isCompatibleA a p = true) :
    matchTyA a p = if a = p then 0 else 1 := by
  simp [matchTyA, h]

theorem compatAllA_length : ∀ {as : List ATy} {ps : List (ATy × Bool)},
    compatAllA as ps = true → as.length ≤ ps.length
  | [], _, _ => by simp
  | _ :: _, [], h => by simp [compatAllA] at h
  | a :: as, p :: ps, h => by
    simp only [compatAllA, Bool.and_eq_true] at h
    have := compatAllA_length h.2
    simp only [List.length_cons]; omega

/-- The score of the passed arguments against the leading parameters (the last part of
`Function.Match`). -/
def scoreA (params : List (ATy × Bool)) (args : List ATy) : Int :=
  let scores := List.zipWith matchTyA args ((params.map (·.1)).take args.length)
  if scores.any (· < 0) then -1 else scores.sum

theorem matchParamsA_eq (params : List (ATy × Bool)) (args : List ATy) :
    matchParamsA params args =
      if args.length < params.length ∧ !((params.drop args.length).all (·.2)) then -1
      else if args.length > params.length then -1
      else scoreA params args := rfl

theorem matchParamsA_nil (ps : List (ATy × Bool)) :
    matchParamsA ps [] = if ps.all (·.2) then 0 else -1 := by
  rw [matchParamsA_eq]
  cases ps with
  | nil => simp [scoreA]
  | cons p ps =>
    by_cases h : (p :: ps).all (·.2) = true
    · rw [if_neg (by simp [h]), if_neg (by simp), if_pos h]; simp [scoreA]
    · rw [if_pos (by simp [h]), if_neg h]

theorem matchParamsA_cons_nil (a : ATy) (as : List ATy) : matchParamsA [] (a :: as) = -1 := by
  rw [matchParamsA_eq]; simp

theorem sum_nonneg_of_not_any_neg : ∀ (l : List Int),
    l.any (fun x => decide (x < 0)) = false → 0 ≤ l.sum
  | [], _ => by simp
  | x :: xs, h => by
    simp only [List.any_cons, Bool.or_eq_false_iff, decide_eq_false_iff_not] at h
    have := sum_nonneg_of_not_any_neg xs h.2
    simp only [List.sum_cons]; omega

/-- One step of `Function.Match`. -/
theorem matchParamsA_cons_cons (p : ATy × Bool) (ps : List (ATy × Bool)) (a : ATy)
    (as : List ATy) :
    matchParamsA (p :: ps) (a :: as) =
      if matchTyA a p.1 < 0 then -1
      else if matchParamsA ps as < 0 then -1
      else matchTyA a p.1 + matchParamsA ps as := by
  rw [matchParamsA_eq, matchParamsA_eq]
  simp only [List.length_cons, Nat.add_lt_add_iff_right, List.drop_succ_cons, gt_iff_lt]
  by_cases h1 : as.length < ps.length ∧ (!(ps.drop as.length).all (·.2)) = true
  · rw [if_pos h1, if_pos h1]; simp
  · rw [if_neg h1, if_neg h1]
    by_cases h2 : ps.length < as.length
    · rw [if_pos h2, if_pos h2]; simp
    · rw [if_neg h2, if_neg h2]
      simp only [scoreA, List.length_cons, List.map_cons, List.take_succ_cons,
        List.zipWith_cons_cons, List.any_cons, List.sum_cons]
      by_cases h3 : matchTyA a p.1 < 0
      · simp [h3]
      · simp only [h3, decide_false, Bool.false_or, ↓reduceIte]
        by_cases h4 : (List.zipWith matchTyA as (List.take as.length (List.map (·.1) ps))).any
            (fun x => decide (x < 0)) = true
        · simp [h4]
        · simp only [h4, Bool.false_eq_true, ↓reduceIte]
          have := sum_nonneg_of_not_any_neg _ (Bool.eq_false_iff.mpr h4)
          rw [if_neg (by omega)]

theorem matchParamsA_nonneg_iff : ∀ (ps : List (ATy × Bool)) (as : List ATy),
    0 ≤ matchParamsA ps as ↔ compatAllA as ps = true
  | ps, [] => by
    rw [matchParamsA_nil]; simp only [compatAllA]
    cases h : ps.all (·.2) <;> simp
  | [], a :: as => by rw [matchParamsA_cons_nil]; simp [compatAllA]
  | p :: ps, a :: as => by
    have ih := matchParamsA_nonneg_iff ps as
    have h1 := matchTyA_nonneg_iff a p.1
    rw [matchParamsA_cons_cons]
    simp only [compatAllA, Bool.and_eq_true, ← ih, ← h1]
    split
    · omega
    · split <;> omega

theorem matchParamsA_of_compat : ∀ (ps : List (ATy × Bool)) (as : List ATy),
    compatAllA as ps = true → matchParamsA ps as = (diffCountA as ps : Int)
  | ps, [], h => by
    simp only [compatAllA] at h
    rw [matchParamsA_nil, if_pos h]; simp [diffCountA]
  | [], a :: as, h => by simp [compatAllA] at h
  | p :: ps, a :: as, h => by
    simp only [compatAllA, Bool.and_eq_true] at h
    have ih := matchParamsA_of_compat ps as h.2
    have h1 := (matchTyA_nonneg_iff a p.1).mpr h.1
    have h2 := (matchParamsA_nonneg_iff ps as).mpr h.2
    rw [matchParamsA_cons_cons, if_neg (by omega), if_neg (by omega), ih,
      matchTyA_of_compat h.1]
    simp only [diffCountA]
    split <;> simp <;> omega

theorem matchSigA_nonneg_iff (s : SigA) (args : List ATy) :
    0 ≤ matchSigA s args ↔ compatAllA args s.params = true :=
  matchParamsA_nonneg_iff _ _

theorem matchSigA_of_compat {s : SigA} {args : List ATy} (h : compatAllA args s.params = true) :
    matchSigA s args = (diffCountA args s.params : Int) :=
  matchParamsA_of_compat _ _ h

/-! ### Spec side -/

theorem all_range_optional : ∀ (ps : List (ATy × Bool)),
    ((List.range ps.length).all fun i => SpecA.optionalAt ps i) = ps.all (·.2)
  | [] => by simp
  | p :: ps => by
    have ih := all_range_optional ps
    simp only [List.length_cons, List.range_succ_eq_map, List.all_cons, List.all_map, ← ih]
    simp [Function.comp_def, SpecA.optionalAt]

/-- The index-wise formulation of viability (without the name). -/
theorem all_range_compatA : ∀ (as : List ATy) (ps : List (ATy × Bool)),
    (decide (as.length ≤ ps.length) &&
      ((List.range ps.length).all fun i => decide (i < as.length) || SpecA.optionalAt ps i) &&
      ((List.range as.length).all fun i => SpecA.convertibleAt as ps i)) = compatAllA as ps
  | [], ps => by
    simp only [compatAllA, ← all_range_optional ps]
    simp
  | a :: as, [] => by simp [compatAllA]
  | a :: as, p :: ps => by
    have ih := all_range_compatA as ps
    simp only [compatAllA, ← ih, List.length_cons, List.range_succ_eq_map, List.all_cons,
      List.all_map]
    simp only [Function.comp_def, SpecA.convertibleAt, SpecA.optionalAt, List.getElem?_cons_zero,
      List.getElem?_cons_succ, Nat.add_le_add_iff_right,
      Nat.zero_lt_succ, decide_true, Bool.true_or, Bool.true_and]
    cases isCompatibleA a p.1 <;> cases decide (as.length ≤ ps.length) <;> simp

/-- The index-wise formulation of "number of differing positions". -/
theorem filter_range_diffA : ∀ (as : List ATy) (ps : List (ATy × Bool)),
    as.length ≤ ps.length →
    ((List.range as.length).filter fun i => as[i]? != (ps[i]?).map (·.1)).length =
      diffCountA as ps
  | [], _, _ => by simp [diffCountA]
  | _ :: _, [], h => by simp at h
  | a :: as, p :: ps, h => by
    have ih := filter_range_diffA as ps (by simpa using h)
    simp only [List.length_cons, List.range_succ_eq_map, List.filter_cons, List.filter_map,
      diffCountA, ← ih]
    by_cases hap : a = p.1 <;> simp [hap, Function.comp_def]
    omega

theorem viableA_iff (s : SigA) (name : String) (args : List ATy) :
    SpecA.viable s name args = true ↔ s.name = name ∧ compatAllA args s.params = true := by
  unfold SpecA.viable
  rw [← all_range_compatA]
  simp [Bool.and_assoc]

theorem costA_eq_diffCount {s : SigA} {args : List ATy} (h : compatAllA args s.params = true) :
    SpecA.cost s args = diffCountA args s.params :=
  filter_range_diffA _ _ (compatAllA_length h)

/-- The score of `Function.Match` is non-negative exactly on viable candidates … -/
theorem matchSigA_nonneg_iff_viable (s : SigA) (args : List ATy) :
    0 ≤ matchSigA s args ↔ SpecA.viable s s.name args = true := by
  rw [matchSigA_nonneg_iff, viableA_iff]; simp

/-- … and on those it is the cost. -/
theorem matchSigA_eq_cost {s : SigA} {args : List ATy} (h : 0 ≤ matchSigA s args) :
    matchSigA s args = (SpecA.cost s args : Int) := by
  rw [matchSigA_nonneg_iff] at h
  rw [matchSigA_of_compat h, costA_eq_diffCount h]

/-! ## B. The insertion sort: a sorted permutation -/

/-- Sorted by score. -/
def SortedByScoreA (l : List (Int × SigA)) : Prop := l.Pairwise (fun a b => a.1 ≤ b.1)

theorem insertByScoreA_perm (x : Int × SigA) : ∀ l, (insertByScoreA x l).Perm (x :: l)
  | [] => by simp [insertByScoreA]
  | y :: ys => by
    unfold insertByScoreA
    split
    · exact List.Perm.refl _
    · exact ((insertByScoreA_perm x ys).cons y).trans (List.Perm.swap x y ys)

theorem sortByScoreA_perm : ∀ l, (sortByScoreA l).Perm l
  | [] => by simp [sortByScoreA]
  | x :: xs => by
    unfold sortByScoreA
    exact (insertByScoreA_perm x _).trans ((sortByScoreA_perm xs).cons x)

theorem insertByScoreA_sorted (x : Int × SigA) :
    ∀ l, SortedByScoreA l → SortedByScoreA (insertByScoreA x l)
  | [], _ => by simp [insertByScoreA, SortedByScoreA]
  | y :: ys, h => by
    unfold insertByScoreA
    have h' := List.pairwise_cons.mp h
    split
    · rename_i hxy
      refine List.pairwise_cons.mpr ⟨?_, h⟩
      intro z hz
      rcases List.mem_cons.mp hz with rfl | hz
      · exact hxy
      · have := h'.1 z hz; omega
    · rename_i hxy
      refine List.pairwise_cons.mpr ⟨?_, insertByScoreA_sorted x ys h'.2⟩
      intro z hz
      rcases List.mem_cons.mp ((insertByScoreA_perm x ys).mem_iff.mp hz) with rfl | hz
      · omega
      · exact h'.1 z hz

theorem sortByScoreA_sorted : ∀ l, SortedByScoreA (sortByScoreA l)
  | [] => by simp [sortByScoreA, SortedByScoreA]
  | x :: xs => by
    unfold sortByScoreA
    exact insertByScoreA_sorted x _ (sortByScoreA_sorted xs)

/-! ## C. The specification on the list of viable candidates -/

namespace SpecA
open Spec (minOf minOf_le minOf_mem minOf_perm)

/-- `[w] ↦ w`, anything else is ambiguous. -/
def pickUnique : List SigA → Except OErr SigA
  | [w] => .ok w
  | _ => .error .ambiguous

/-- The part of `best` that only looks at the viable candidates. -/
def bestOf (vs : List SigA) (args : List ATy) : Except OErr SigA :=
  if vs.isEmpty then .error .noMatch
  else pickUnique (vs.filter fun s => cost s args == minOf (vs.map fun s => cost s args))

theorem best_eq (sc : ScopeA) (name : String) (args : List ATy) :
    best sc name args =
      if sc.all (fun s => s.name != name) then .error .unknown
      else bestOf (sc.filter fun s => viable s name args) args := by
  unfold best bestOf pickUnique
  rfl

theorem pickUnique_perm {l₁ l₂ : List SigA} (h : l₁.Perm l₂) :
    pickUnique l₁ = pickUnique l₂ := by
  match l₁, l₂, h with
  | [], l₂, h => rw [← h.nil_eq]
  | [w], l₂, h => rw [← List.singleton_perm.mp h]
  | a :: b :: l, [], h => exact absurd h.length_eq (by simp)
  | a :: b :: l, [w], h => exact absurd h.length_eq (by simp)
  | a :: b :: l, c :: d :: l', _ => rfl

/-- The specification does not depend on the order of the viable candidates. -/
theorem bestOf_perm {vs₁ vs₂ : List SigA} (h : vs₁.Perm vs₂) (args : List ATy) :
    bestOf vs₁ args = bestOf vs₂ args := by
  unfold bestOf
  have he : vs₁.isEmpty = vs₂.isEmpty := by
    cases vs₁ <;> cases vs₂ <;> first | rfl | exact absurd h.length_eq (by simp)
  rw [he, minOf_perm (h.map _)]
  split
  · rfl
  · exact pickUnique_perm (h.filter _)

/-- On a list of viable candidates sorted by cost, the specification is the decision the
Python code takes on its ranking. -/
theorem bestOf_sorted (vs : List SigA) (args : List ATy)
    (hs : vs.Pairwise (fun a b => cost a args ≤ cost b args)) :
    bestOf vs args = pickRankedA (vs.map fun s => (((cost s args : Nat) : Int), s)) := by
  match vs, hs with
  | [], _ => rfl
  | [v], _ => simp [bestOf, minOf, pickUnique, pickRankedA]
  | v :: w :: rest, hs =>
    have h1 := List.pairwise_cons.mp hs
    have h2 := List.pairwise_cons.mp h1.2
    have hmin : minOf ((v :: w :: rest).map fun s => cost s args) = cost v args := by
      apply Nat.le_antisymm
      · exact minOf_le (by simp)
      · have hm := minOf_mem (l := (v :: w :: rest).map fun s => cost s args) (by simp)
        rcases List.mem_map.mp hm with ⟨t, ht, hte⟩
        rw [← hte]
        rcases List.mem_cons.mp ht with rfl | ht
        · exact Nat.le_refl _
        · exact h1.1 t ht
    have hb : bestOf (v :: w :: rest) args =
        pickUnique ((v :: w :: rest).filter fun s => cost s args == cost v args) := by
      unfold bestOf; rw [hmin]; rfl
    rw [hb]
    simp only [pickRankedA, List.map_cons]
    by_cases hvw : cost v args = cost w args
    · simp [hvw, pickUnique]
    · have hlt : cost v args < cost w args := by
        have := h1.1 w (by simp); omega
      have hrest : rest.filter (fun s => cost s args == cost v args) = [] := by
        apply List.filter_eq_nil_iff.mpr
        intro t ht
        have := h2.1 t ht
        simp; omega
      have hw : (cost w args == cost v args) = false := by simp; omega
      have hne : ¬ ((cost v args : Nat) : Int) = ((cost w args : Nat) : Int) := by omega
      simp [hw, hrest, pickUnique, hne]

end SpecA

/-! ## D. The mirror computes the specification -/

theorem filter_name_isEmptyA (sc : ScopeA) (name : String) :
    (sc.filter fun c => c.name == name).isEmpty = sc.all (fun s => s.name != name) := by
  induction sc with
  | nil => rfl
  | cons a l ih =>
    by_cases h : a.name = name <;> simp [h, ih]

/-- Strong form: `none` exactly when the name is not registered, otherwise the specification. -/
theorem findInScopeA_eq (sc : ScopeA) (name : String) (args : List ATy) :
    findInScopeA sc name args =
      if sc.all (fun s => s.name != name) then none else some (SpecA.best sc name args) := by
  unfold findInScopeA
  simp only [filter_name_isEmptyA, SpecA.best_eq]
  split
  · rfl
  · rename_i hname
    congr 1
    -- the candidates of that name, paired with their score
    generalize hc : sc.filter (fun c => c.name == name) = cands
    have hcn : ∀ c ∈ cands, c.name = name := by
      intro c hcm; rw [← hc] at hcm; simpa using (List.mem_filter.mp hcm).2
    -- the ranking
    generalize hR : (sortByScoreA (cands.map fun c => (matchSigA c args, c))).filter
        (fun p => decide (0 ≤ p.1)) = R
    have hperm : R.Perm ((cands.map fun c => (matchSigA c args, c)).filter
        (fun p => decide (0 ≤ p.1))) := by
      rw [← hR]; exact (sortByScoreA_perm _).filter _
    have hsorted : SortedByScoreA R := by
      rw [← hR]; exact (sortByScoreA_sorted _).filter _
    -- viable candidates
    have hvs : (cands.map fun c => (matchSigA c args, c)).filter (fun p => decide (0 ≤ p.1)) =
        (sc.filter fun s => SpecA.viable s name args).map fun c => (matchSigA c args, c) := by
      rw [List.filter_map, ← hc, List.filter_filter]
      congr 1
      apply List.filter_congr
      intro s _
      by_cases hn : s.name = name
      · subst hn
        have := matchSigA_nonneg_iff_viable s args
        cases hv : SpecA.viable s s.name args <;> simp [hv] at this ⊢ <;> omega
      · have : SpecA.viable s name args = false := by
          cases hv : SpecA.viable s name args
          · rfl
          · exact absurd ((viableA_iff _ _ _).mp hv).1 hn
        simp [hn, this]
    rw [hvs] at hperm
    -- every ranked pair is (cost, viable candidate)
    have hmem : ∀ p ∈ R, p.1 = ((SpecA.cost p.2 args : Nat) : Int) := by
      intro p hp
      have hp' := hperm.mem_iff.mp hp
      rcases List.mem_map.mp hp' with ⟨c, hcm, rfl⟩
      have hv := (List.mem_filter.mp hcm).2
      have hcn' := ((viableA_iff _ _ _).mp hv).1
      apply matchSigA_eq_cost
      rw [matchSigA_nonneg_iff_viable, hcn']; exact hv
    have hRmap : R = (R.map (·.2)).map fun s => (((SpecA.cost s args : Nat) : Int), s) := by
      rw [List.map_map]
      conv => lhs; rw [← List.map_id R]
      apply List.map_congr_left
      intro p hp
      simp only [id, Function.comp]
      exact Prod.ext (hmem p hp) rfl
    have hperm2 : (R.map (·.2)).Perm (sc.filter fun s => SpecA.viable s name args) := by
      have := hperm.map (·.2)
      simpa [List.map_map, Function.comp_def] using this
    have hsorted2 :
        (R.map (·.2)).Pairwise (fun a b => SpecA.cost a args ≤ SpecA.cost b args) := by
      rw [List.pairwise_map]
      refine List.Pairwise.imp_of_mem ?_ hsorted
      intro a b ha hb hab
      have := hmem a ha; have := hmem b hb; omega
    rw [← SpecA.bestOf_perm hperm2 args, SpecA.bestOf_sorted _ _ hsorted2, ← hRmap]

theorem findFunctionA_eq_resolve (chain : List ScopeA) (name : String) (args : List ATy) :
    findFunctionA chain name args = SpecA.resolve chain name args := by
  induction chain with
  | nil => rfl
  | cons sc rest ih =>
    unfold findFunctionA SpecA.resolve
    rw [findInScopeA_eq]
    by_cases h : sc.all (fun s => s.name != name) = true
    · have h' : sc.any (fun s => s.name == name) = false := by
        rw [List.any_eq_false]; intro s hs
        simpa using List.all_eq_true.mp h s hs
      simp only [h, ↓reduceIte, List.find?_cons, h', ih, SpecA.resolve]
    · have h' : sc.any (fun s => s.name == name) = true := by
        cases ha : sc.any (fun s => s.name == name)
        · exfalso; apply h
          rw [List.all_eq_true]; intro s hs
          have := List.any_eq_false.mp ha s hs
          simpa using this
        · rfl
      simp only [h, ↓reduceIte, List.find?_cons, h', Bool.false_eq_true]

/-! ## E. What an `.ok` answer means -/

theorem SpecA.pickUnique_ok {l : List SigA} {s : SigA} (h : SpecA.pickUnique l = .ok s) :
    l = [s] := by
  match l, h with
  | [w], h => simp only [SpecA.pickUnique, Except.ok.injEq] at h; rw [h]

/-- The winner designated by the specification is declared once in the scope, is viable, and
every other viable declaration of the scope costs strictly more. -/
theorem SpecA.best_ok {sc : ScopeA} {name : String} {args : List ATy} {s : SigA}
    (h : SpecA.best sc name args = .ok s) :
    s ∈ sc ∧ SpecA.viable s name args = true ∧ sc.count s = 1 ∧
      ∀ t ∈ sc, SpecA.viable t name args = true → t ≠ s →
        SpecA.cost s args < SpecA.cost t args := by
  rw [SpecA.best_eq] at h
  split at h
  · cases h
  · unfold SpecA.bestOf at h
    split at h
    · cases h
    · have hf := SpecA.pickUnique_ok h
      generalize hvs : sc.filter (fun s => SpecA.viable s name args) = vs at hf
      generalize hm : Spec.minOf (vs.map fun s => SpecA.cost s args) = m at hf
      have hs : s ∈ vs.filter (fun s => SpecA.cost s args == m) := by rw [hf]; simp
      have hs1 := List.mem_filter.mp hs
      have hs2 : s ∈ sc ∧ SpecA.viable s name args = true := by
        rw [← hvs] at hs1; exact List.mem_filter.mp hs1.1
      have hcost : SpecA.cost s args = m := by simpa using hs1.2
      refine ⟨hs2.1, hs2.2, ?_, ?_⟩
      · have h1 := List.count_filter (l := sc) (p := fun s => SpecA.viable s name args)
          (a := s) hs2.2
        have h2 := List.count_filter (l := vs) (p := fun s => SpecA.cost s args == m)
          (a := s) hs1.2
        rw [← h1, hvs, ← h2, hf]; simp
      · intro t ht hv hne
        have htv : t ∈ vs := by rw [← hvs]; exact List.mem_filter.mpr ⟨ht, hv⟩
        have hle : m ≤ SpecA.cost t args := by
          rw [← hm]; exact Spec.minOf_le (List.mem_map.mpr ⟨t, htv, rfl⟩)
        rcases Nat.lt_or_ge (SpecA.cost s args) (SpecA.cost t args) with hlt | hge
        · exact hlt
        · exfalso
          have heq : SpecA.cost t args = m := by omega
          have : t ∈ vs.filter (fun s => SpecA.cost s args == m) :=
            List.mem_filter.mpr ⟨htv, by simp [heq]⟩
          rw [hf] at this
          exact hne (by simpa using this)

/-- Converse: a declaration that is viable, declared once, and strictly cheaper than every other
viable declaration of the scope is the winner. -/
theorem SpecA.best_of_unique_min {sc : ScopeA} {name : String} {args : List ATy} {s : SigA}
    (hs : s ∈ sc) (hv : SpecA.viable s name args = true) (hcount : sc.count s = 1)
    (hmin : ∀ t ∈ sc, SpecA.viable t name args = true → t ≠ s →
      SpecA.cost s args < SpecA.cost t args) :
    SpecA.best sc name args = .ok s := by
  rw [SpecA.best_eq]
  have hname : s.name = name := ((viableA_iff _ _ _).mp hv).1
  have hall : ¬ sc.all (fun s => s.name != name) = true := by
    intro h; have := List.all_eq_true.mp h s hs; simp [hname] at this
  rw [if_neg hall]
  generalize hvs : sc.filter (fun s => SpecA.viable s name args) = vs
  have hsv : s ∈ vs := by rw [← hvs]; exact List.mem_filter.mpr ⟨hs, hv⟩
  have hle : ∀ t ∈ vs, t = s ∨ SpecA.cost s args < SpecA.cost t args := by
    intro t ht
    rw [← hvs] at ht
    have ht' := List.mem_filter.mp ht
    by_cases hts : t = s
    · exact Or.inl hts
    · exact Or.inr (hmin t ht'.1 ht'.2 hts)
  have hm : Spec.minOf (vs.map fun s => SpecA.cost s args) = SpecA.cost s args := by
    apply Nat.le_antisymm
    · exact Spec.minOf_le (List.mem_map.mpr ⟨s, hsv, rfl⟩)
    · have hne : vs.map (fun s => SpecA.cost s args) ≠ [] := by
        intro h; rw [List.map_eq_nil_iff] at h; rw [h] at hsv; cases hsv
      rcases List.mem_map.mp (Spec.minOf_mem hne) with ⟨t, ht, hte⟩
      rw [← hte]
      rcases hle t ht with rfl | hlt
      · exact Nat.le_refl _
      · omega
  unfold SpecA.bestOf
  have hne : vs.isEmpty = false := by cases vs <;> simp_all
  rw [hne, hm]
  simp only [Bool.false_eq_true, ↓reduceIte]
  generalize hL : vs.filter (fun t => SpecA.cost t args == SpecA.cost s args) = L
  have hLall : ∀ t ∈ L, t = s := by
    intro t ht
    rw [← hL] at ht
    have ht' := List.mem_filter.mp ht
    rcases hle t ht'.1 with h | h
    · exact h
    · have : SpecA.cost t args = SpecA.cost s args := by simpa using ht'.2
      omega
  have hLcount : L.count s = 1 := by
    have h1 := List.count_filter (l := sc) (p := fun s => SpecA.viable s name args) (a := s) hv
    have h2 := List.count_filter (l := vs)
      (p := fun t => SpecA.cost t args == SpecA.cost s args) (a := s) (by simp)
    rw [← hL, h2, ← hvs, h1, hcount]
  have hrep : L = List.replicate L.length s := List.eq_replicate_iff.mpr ⟨rfl, hLall⟩
  have hlen : L.length = 1 := by
    rw [hrep, List.count_replicate_self] at hLcount; exact hLcount
  rw [hrep, hlen]; rfl

/-- An `.ok` answer of the scope walk comes from the innermost scope declaring the name. -/
theorem findFunctionA_ok_scope {chain : List ScopeA} {name : String} {args : List ATy} {s : SigA}
    (h : findFunctionA chain name args = .ok s) :
    ∃ pre sc post, chain = pre ++ sc :: post ∧ (∀ sc' ∈ pre, ∀ t ∈ sc', t.name ≠ name) ∧
      SpecA.best sc name args = .ok s := by
  induction chain with
  | nil => cases h
  | cons sc rest ih =>
    unfold findFunctionA at h
    rw [findInScopeA_eq] at h
    by_cases hall : sc.all (fun s => s.name != name) = true
    · simp only [hall, ↓reduceIte] at h
      obtain ⟨pre, sc', post, hch, hpre, hb⟩ := ih h
      refine ⟨sc :: pre, sc', post, by simp [hch], ?_, hb⟩
      intro sc'' hm t ht
      rcases List.mem_cons.mp hm with rfl | hm
      · simpa using List.all_eq_true.mp hall t ht
      · exact hpre sc'' hm t ht
    · simp only [hall] at h
      exact ⟨[], sc, rest, rfl, by simp, h⟩

theorem viableA_convertible {s : SigA} {name : String} {args : List ATy}
    (h : SpecA.viable s name args = true) {i : Nat} {a : ATy} {p : ATy × Bool}
    (ha : args[i]? = some a) (hp : s.params[i]? = some p) : isCompatibleA a p.1 = true := by
  unfold SpecA.viable at h
  simp only [Bool.and_eq_true, List.all_eq_true, List.mem_range] at h
  have hi : i < args.length := by
    rcases Nat.lt_or_ge i args.length with hlt | hge
    · exact hlt
    · rw [List.getElem?_eq_none hge] at ha; cases ha
  have := h.2 i hi
  simpa [SpecA.convertibleAt, ha, hp] using this

/-! ## F. Facts about `isCompatibleA` / `matchTyA` -/

theorem isCompatible_symm (a b : Ty) : isCompatible a b = isCompatible b a := by
  unfold isCompatible
  cases reduce1 a <;> cases reduce1 b <;> first | rfl | skip
  · rename_i c n c' m
    show (n == m) = (m == n)
    rw [Bool.beq_comm]
  · rename_i c r k c' r' k'
    show (r == r' && k == k') = (r' == r && k' == k)
    rw [Bool.beq_comm (a := r), Bool.beq_comm (a := k)]

theorem isCompatibleA_symm : ∀ (a b : ATy), isCompatibleA a b = isCompatibleA b a
  | .arr e₁ d₁, .arr e₂ d₂ => by
    simp only [isCompatibleA, isCompatibleA_symm e₁ e₂]
    rw [Bool.beq_comm]
  | .prim a, .prim b => by simp only [isCompatibleA]; exact isCompatible_symm a b
  | .struct n₁ f₁, .struct n₂ f₂ => by
    simp only [isCompatibleA]
    by_cases h : ATy.struct n₁ f₁ = ATy.struct n₂ f₂
    · rw [decide_eq_true h, decide_eq_true h.symm]
    · rw [decide_eq_false h, decide_eq_false (fun h' => h h'.symm)]
  | .arr _ _, .prim _ | .arr _ _, .struct _ _ | .prim _, .arr _ _ | .struct _ _, .arr _ _
  | .prim _, .struct _ _ | .struct _ _, .prim _ => by simp [isCompatibleA]

/-- A structure type is compatible with itself … -/
theorem isCompatibleA_refl_struct (n : String) (f : List (String × ATy)) :
    isCompatibleA (.struct n f) (.struct n f) = true := by
  rw [isCompatibleA]; exact decide_eq_true rfl

/-- … and with no other type. -/
theorem isCompatibleA_struct_iff (n : String) (f : List (String × ATy)) (b : ATy) :
    isCompatibleA (.struct n f) b = true ↔ b = .struct n f := by
  cases b with
  | prim t => simp [isCompatibleA]
  | arr e d => simp [isCompatibleA]
  | struct n' f' =>
    rw [isCompatibleA, decide_eq_true_iff]
    exact eq_comm

theorem matchTyA_self {a : ATy} (h : isCompatibleA a a = true) : matchTyA a a = 0 := by
  simp [matchTyA, h]

/-- `Match` is `0` exactly on equal, self-compatible types. -/
theorem matchTyA_eq_zero_iff (a p : ATy) : matchTyA a p = 0 ↔ a = p ∧ isCompatibleA a a = true := by
  unfold matchTyA
  by_cases hap : a = p
  · subst hap
    cases h : isCompatibleA a a <;> simp
  · have : ¬ (a = p ∧ isCompatibleA a a = true) := fun h => hap h.1
    cases h : isCompatibleA a p <;> simp [hap]

theorem reduce1_vec_ne (c : Comp) (n : Nat) (h : n ≠ 1) : reduce1 (.vec c n) = .vec c n := by
  unfold reduce1
  split
  · rename_i heq; cases heq; exact absurd rfl h
  · rfl

theorem isCompatible_refl : ∀ (t : Ty), isCompatible t t = true
  | .scalar _ => by simp [isCompatible, reduce1]
  | .vec c n => by
    by_cases h1 : n = 1
    · subst h1; simp [isCompatible, reduce1]
    · unfold isCompatible; rw [reduce1_vec_ne c n h1]; simp
  | .mat _ _ _ => by simp [isCompatible, reduce1]

/-- Every type is compatible with itself (so the hypothesis of `matchTyA_self` always holds). -/
theorem isCompatibleA_refl : ∀ (a : ATy), isCompatibleA a a = true
  | .prim t => by rw [isCompatibleA]; exact isCompatible_refl t
  | .arr e d => by rw [isCompatibleA, isCompatibleA_refl e]; simp
  | .struct n f => isCompatibleA_refl_struct n f

theorem matchTyA_refl (a : ATy) : matchTyA a a = 0 := matchTyA_self (isCompatibleA_refl a)

/-! ## G. Cost zero -/

theorem diffCountA_eq_zero_iff : ∀ (as : List ATy) (ps : List (ATy × Bool)),
    as.length ≤ ps.length →
    (diffCountA as ps = 0 ↔ (ps.map (·.1)).take as.length = as)
  | [], _, _ => by simp [diffCountA]
  | _ :: _, [], h => by simp at h
  | a :: as, p :: ps, h => by
    have ih := diffCountA_eq_zero_iff as ps (by simpa using h)
    simp only [diffCountA, List.length_cons, List.map_cons, List.take_succ_cons, List.cons.injEq]
    by_cases hap : a = p.1
    · simp [hap, ih]
    · have : ¬ p.1 = a := fun h => hap h.symm
      simp [hap, this]

/-- A viable candidate costs `0` exactly when its leading parameter types are the argument
types. -/
theorem costA_eq_zero_iff {s : SigA} {name : String} {args : List ATy}
    (hv : SpecA.viable s name args = true) :
    SpecA.cost s args = 0 ↔ (s.params.map (·.1)).take args.length = args := by
  have hc := ((viableA_iff _ _ _).mp hv).2
  rw [costA_eq_diffCount hc]
  exact diffCountA_eq_zero_iff _ _ (compatAllA_length hc)

theorem compatAllA_self : ∀ (as : List ATy), (∀ a ∈ as, isCompatibleA a a = true) →
    compatAllA as (as.map fun a => (a, false)) = true
  | [], _ => by simp [compatAllA]
  | a :: as, h => by
    simp only [List.map_cons, compatAllA, Bool.and_eq_true]
    exact ⟨h a (by simp), compatAllA_self as (fun b hb => h b (List.mem_cons_of_mem _ hb))⟩

/-! ## H. Embedding of the primitive model -/

def embedPair (p : Int × Sig) : Int × SigA := (p.1, embedSig p.2)

theorem matchTyA_prim (a p : Ty) : matchTyA (.prim a) (.prim p) = matchTy a p := by
  unfold matchTyA matchTy
  simp only [isCompatibleA, ATy.prim.injEq]

theorem zipWith_matchTyA_prim : ∀ (as ps : List Ty),
    List.zipWith matchTyA (as.map ATy.prim) (ps.map ATy.prim) = List.zipWith matchTy as ps
  | [], _ => by simp
  | _ :: _, [] => by simp
  | a :: as, p :: ps => by
    simp only [List.map_cons, List.zipWith_cons_cons, matchTyA_prim, zipWith_matchTyA_prim as ps]

theorem embed_params_fst (ps : List Ty) :
    (ps.map fun t => (ATy.prim t, false)).map (·.1) = ps.map ATy.prim := by
  simp [List.map_map, Function.comp_def]

theorem embed_drop_all (ps : List Ty) (n : Nat) (h : n < ps.length) :
    ((ps.map fun t => (ATy.prim t, false)).drop n).all (·.2) = false := by
  rw [← List.map_drop]
  cases hd : ps.drop n with
  | nil =>
    have := congrArg List.length hd
    simp at this; omega
  | cons x xs => simp

theorem matchSigA_embed (s : Sig) (args : List Ty) :
    matchSigA (embedSig s) (args.map ATy.prim) = matchSig s args := by
  show matchParamsA (s.params.map fun t => (ATy.prim t, false)) (args.map ATy.prim) = matchSig s args
  rw [matchParamsA_eq]
  simp only [List.length_map]
  rcases Nat.lt_trichotomy args.length s.params.length with h | h | h
  · rw [if_pos ⟨h, by rw [embed_drop_all _ _ h]; rfl⟩]
    unfold matchSig; rw [if_pos (by omega)]
  · have h1 : ¬ (args.length < s.params.length ∧
        (!(List.drop args.length (List.map (fun t => (ATy.prim t, false)) s.params)).all
          (·.2)) = true) := by omega
    rw [if_neg h1, if_neg (by omega)]
    unfold matchSig
    rw [if_neg (show ¬ args.length ≠ s.params.length by omega)]
    unfold scoreA
    simp only [List.length_map, embed_params_fst, h]
    rw [List.take_of_length_le (by simp), zipWith_matchTyA_prim]
  · have h1 : ¬ (args.length < s.params.length ∧
        (!(List.drop args.length (List.map (fun t => (ATy.prim t, false)) s.params)).all
          (·.2)) = true) := by omega
    rw [if_neg h1, if_pos h]
    unfold matchSig; rw [if_pos (by omega)]

theorem insertByScoreA_embed (x : Int × Sig) : ∀ (l : List (Int × Sig)),
    insertByScoreA (embedPair x) (l.map embedPair) = (insertByScore x l).map embedPair
  | [] => rfl
  | y :: ys => by
    have ih := insertByScoreA_embed x ys
    simp only [List.map_cons, insertByScore]
    unfold insertByScoreA
    have hx : (embedPair x).1 = x.1 := rfl
    have hy : (embedPair y).1 = y.1 := rfl
    rw [hx, hy]
    by_cases h : x.1 ≤ y.1
    · rw [if_pos h, if_pos h]; rfl
    · rw [if_neg h, if_neg h, ih]; rfl

theorem sortByScoreA_embed : ∀ (l : List (Int × Sig)),
    sortByScoreA (l.map embedPair) = (sortByScore l).map embedPair
  | [] => rfl
  | x :: xs => by
    simp only [List.map_cons, sortByScoreA, sortByScore, sortByScoreA_embed xs,
      insertByScoreA_embed]

theorem pickRankedA_embed : ∀ (l : List (Int × Sig)),
    pickRankedA (l.map embedPair) = (pickRanked l).map embedSig
  | [] => rfl
  | [p] => rfl
  | p :: q :: l => by
    simp only [List.map_cons, pickRankedA, pickRanked, embedPair]
    split <;> rfl

theorem findInScopeA_embed (sc : Scope) (name : String) (args : List Ty) :
    findInScopeA (sc.map embedSig) name (args.map ATy.prim) =
      (findInScope sc name args).map (Except.map embedSig) := by
  unfold findInScopeA findInScope findInScopeWith
  have hf : (sc.map embedSig).filter (fun c => c.name == name) =
      (sc.filter fun c => c.name == name).map embedSig := by
    rw [List.filter_map]; rfl
  simp only [hf, List.isEmpty_map]
  split
  · rfl
  · simp only [Option.map_some, Option.some.injEq]
    have hm : (List.map embedSig (List.filter (fun c => c.name == name) sc)).map
          (fun c => (matchSigA c (args.map ATy.prim), c)) =
        ((List.filter (fun c => c.name == name) sc).map fun c => (matchSig c args, c)).map
          embedPair := by
      simp only [List.map_map, Function.comp_def, embedPair, matchSigA_embed]
    rw [hm, sortByScoreA_embed]
    have hfl : ∀ (l : List (Int × Sig)),
        (l.map embedPair).filter (fun p => decide (0 ≤ p.1)) =
          (l.filter fun p => decide (0 ≤ p.1)).map embedPair := by
      intro l; rw [List.filter_map]; rfl
    rw [hfl, pickRankedA_embed]

theorem findFunctionA_embed_chain (chain : List Scope) (name : String) (args : List Ty) :
    findFunctionA (chain.map (·.map embedSig)) name (args.map ATy.prim) =
      (findFunction chain name args).map embedSig := by
  induction chain with
  | nil => rfl
  | cons sc rest ih =>
    simp only [List.map_cons, findFunctionA, findFunction, findInScopeA_embed]
    cases h : findInScope sc name args with
    | none => simpa using ih
    | some r => simp

end Nsl.Overload
