import Nsl.Proofs.VecExpr
import Nsl.Proofs.SimStmt
/-!
# Vector core, part 10: statements (`ssim_succV`) — the control-flow proof of `SimStmt` restated for the shape
invariant; new are the declarations of vector/matrix variables and the shape of returned values
-/
set_option linter.unusedSimpArgs false
namespace Nsl
namespace Vec
open Core VM CoreSem Lower Sim

/-- What a statement outcome means for the VM started in `c0`; `endPos` is the position after the fragment; `rs` is
the shape of the function result. -/
def SPostV (M : Core.Module) (ps : List (String × ITy)) (Γ : Map String Sh) (rs : Sh) (code : List Instr)
    (brk cont : Option Nat) (c0 : Cfg) (endPos : Nat) : SOut → Prop
  | .normal fr' g' => ∃ ρ', Steps (lowerModule M) code c0 (endPos, vf ρ' fr', g') ∧ FrTy ps Γ fr' ∧ GTy M g'
  | .brk fr' g' => ∃ b p ρ', brk = some b ∧ labelPos code b = some p ∧
      Steps (lowerModule M) code c0 (p, vf ρ' fr', g') ∧ FrTy ps Γ fr' ∧ GTy M g'
  | .cont fr' g' => ∃ b p ρ', cont = some b ∧ labelPos code b = some p ∧
      Steps (lowerModule M) code c0 (p, vf ρ' fr', g') ∧ FrTy ps Γ fr' ∧ GTy M g'
  | .ret v fr' g' => Returns (lowerModule M) code c0 v g' fr'.args ∧ fits rs v = true ∧ GTy M g'
  | .fail _ => True

def SSimV (M : Core.Module) (n : Nat) : Prop :=
  ∀ (ps : List (String × ITy)) (Γ : Map String Sh) (rs : Sh) (code : List Instr), LabelsOK code →
  ∀ (s : Stmt) (fr : Frame) (g : Globals) (inLoop : Bool), okSV M ps Γ rs inLoop s = true → FrTy ps Γ fr → GTy M g →
  ∀ (brk cont : Option Nat) (k : Nat) (c : List Instr) (k' q : Nat) (ρ : Map Nat Val),
    lowerS brk cont s k = (c, k') → At code q c →
    (inLoop = true → ∃ b cn pb pc, brk = some b ∧ cont = some cn ∧ labelPos code b = some pb ∧ labelPos code cn = some pc) →
    SPostV M ps Γ rs code brk cont (q, vf ρ fr, g) (q + c.length) (execS M n s fr g)

variable {M : Core.Module} {ps : List (String × ITy)} {Γ : Map String Sh} {rs : Sh} {code : List Instr}
  {brk cont : Option Nat}

theorem SPostV.prepend {c0 c1 : Cfg} {e : Nat} {out : SOut} (hs : Steps (lowerModule M) code c0 c1)
    (h : SPostV M ps Γ rs code brk cont c1 e out) : SPostV M ps Γ rs code brk cont c0 e out := by
  cases out with
  | normal fr' g' => obtain ⟨ρ', s, a, b⟩ := h; exact ⟨ρ', hs.trans s, a, b⟩
  | brk fr' g' => obtain ⟨b, p, ρ', h1, h2, s, h3, h4⟩ := h; exact ⟨b, p, ρ', h1, h2, hs.trans s, h3, h4⟩
  | cont fr' g' => obtain ⟨b, p, ρ', h1, h2, s, h3, h4⟩ := h; exact ⟨b, p, ρ', h1, h2, hs.trans s, h3, h4⟩
  | ret v fr' g' => exact ⟨Returns.of_steps hs h.1, h.2⟩
  | fail e => trivial

theorem SPostV.end_irrel {c0 : Cfg} {e e' : Nat} {out : SOut} (h : SPostV M ps Γ rs code brk cont c0 e out)
    (hn : Sim.SOut.isNormal out = false) : SPostV M ps Γ rs code brk cont c0 e' out := by
  cases out with
  | normal fr' g' => simp [Sim.SOut.isNormal] at hn
  | brk fr' g' => exact h
  | cont fr' g' => exact h
  | ret v fr' g' => exact h
  | fail e => trivial

theorem SPostV.then_steps {c0 : Cfg} {e e' : Nat} {out : SOut} (h : SPostV M ps Γ rs code brk cont c0 e out)
    (hk : ∀ (fr : Frame) (g : Globals), Steps (lowerModule M) code (e, fr, g) (e', fr, g)) :
    SPostV M ps Γ rs code brk cont c0 e' out := by
  cases out with
  | normal fr' g' => obtain ⟨ρ', s, a, b⟩ := h; exact ⟨ρ', s.trans (hk _ _), a, b⟩
  | brk fr' g' => exact h
  | cont fr' g' => exact h
  | ret v fr' g' => exact h
  | fail e => trivial

theorem SPostV.cast_end {c0 : Cfg} {e e' : Nat} {out : SOut} (h : SPostV M ps Γ rs code brk cont c0 e out)
    (he : e = e') : SPostV M ps Γ rs code brk cont c0 e' out := he ▸ h

/-- Optional expressions (`for` condition and increment). -/
theorem optE_simV {M : Core.Module} {n : Nat} (ihE : ESimV M n) (ps : List (String × ITy)) (Γ : Map String Sh) (code : List Instr) (oe : Option Expr) (dflt : Val)
    (fr : Frame) (g : Globals) (v : Val) (fr' : Frame) (g' : Globals)
    (h : optEval M n oe dflt fr g = .val v fr' g')
    (hok : okOptEV M ps Γ oe = true) (hf : FrTy ps Γ fr) (hg : GTy M g)
    (k : Nat) (c : List Instr) (ov : Option Opd) (k' q : Nat) (ρ : Map Nat Val)
    (hl : lowerOptE oe k = (c, ov, k')) (hat : At code q c) :
    ∃ ρ', Steps (lowerModule M) code (q, vf ρ fr, g) (q + c.length, vf ρ' fr', g') ∧
      (match ov with
       | some o => evalOpd (vf ρ' fr') o = .ok v ∧ Val.isPtr v = false
       | none => v = dflt) ∧ FrTy ps Γ fr' ∧ GTy M g' := by
  cases oe with
  | none =>
    simp only [optEval, EOut.val.injEq] at h
    obtain ⟨rfl, rfl, rfl⟩ := h
    simp only [lowerOptE, Prod.mk.injEq] at hl
    obtain ⟨rfl, rfl, rfl⟩ := hl
    exact ⟨ρ, by simpa using Steps.refl _, rfl, hf, hg⟩
  | some e =>
    simp only [optEval] at h
    rcases hel : lowerE e k with ⟨c1, v1, k1⟩
    simp only [lowerOptE, hel, Prod.mk.injEq] at hl
    obtain ⟨rfl, rfl, rfl⟩ := hl
    obtain ⟨ρ1, s1, e1, p1, _, hf1, hg1⟩ := ihE ps Γ code e fr g v fr' g' h hok hf hg k c1 v1 k1 q ρ hel hat
    exact ⟨ρ1, s1, ⟨e1, fits_noPtr p1⟩, hf1, hg1⟩

theorem ssim_succV (M : Core.Module) (n : Nat) (ihE : ESimV M n) (ihS : SSimV M n) : SSimV M (n + 1) := by
  intro ps Γ rs code hlab s fr g inLoop hok hf hg brk cont k c k' q ρ hl hat hloop
  cases s with
  | skip =>
    simp only [lowerS, Prod.mk.injEq] at hl
    obtain ⟨rfl, rfl⟩ := hl
    simp only [execS, SPostV]
    exact ⟨ρ, by simpa using Steps.refl _, hf, hg⟩
  | decl name ty init =>
    cases init with
    | none =>
      simp only [okSV, Bool.and_eq_true, beq_iff_eq] at hok
      simp only [lowerS, Prod.mk.injEq] at hl
      obtain ⟨rfl, rfl⟩ := hl
      simp only [execS, SPostV]
      have hstep := step_newVar (cf := callD (lowerModule M) 0) (fr := vf ρ fr) (g := g) hat.head
        (nonagg_of_shape hok.1)
      refine ⟨Map.set ρ k (createInstance ty), Steps.one 0 hstep, hf.setLocal ?_, hg⟩
      intro s hs
      rw [hok.2] at hs; cases hs; exact createInstance_fits hok.1
    | some e =>
      simp only [okSV, Bool.and_eq_true, beq_iff_eq] at hok
      obtain ⟨⟨⟨hnb, hΓ⟩, hsh⟩, hoke⟩ := hok
      rcases hel : lowerE e (k + 1) with ⟨c1, v1, k1⟩
      simp only [lowerS, hel, Prod.mk.injEq] at hl
      obtain ⟨rfl, rfl⟩ := hl
      have hat' : At code q (.newVar k ty name :: (c1 ++ [.store .local (.name name) v1])) := by
        simpa using hat
      have hstep := step_newVar (cf := callD (lowerModule M) 0) (fr := vf ρ fr) (g := g) hat'.head
        (nonagg_of_shape hnb)
      simp only [execS]
      generalize hfr0 : ({ fr with locals := Map.set fr.locals name (createInstance ty) } : Frame) = fr0
      have hf0 : FrTy ps Γ fr0 := by
        subst hfr0
        exact hf.setLocal (fun s hs => by rw [hΓ] at hs; cases hs; exact createInstance_fits hnb)
      cases h1 : evalE M n e fr0 g with
      | fail er => trivial
      | val a fr1 g1 =>
        obtain ⟨ρ1, s1, e1, p1, _, hf1, hg1⟩ :=
          ihE ps Γ code e fr0 g a fr1 g1 h1 hoke hf0 hg (k + 1) c1 v1 k1 (q + 1) (Map.set ρ k (createInstance ty)) hel
            hat'.tail.left
        have hpa := fits_noPtr p1
        have hnp : noPtr a = .ok a := by cases a <;> simp_all [noPtr, Val.isPtr]
        simp only [hnp, SPostV]
        have hw : writeRoot fr1 g1 (.loc name) a = .ok ({ fr1 with locals := Map.set fr1.locals name a }, g1) := rfl
        have hst := step_store (cf := callD (lowerModule M) 0) hat'.tail.right.head
          (root := .loc name) rfl e1 hpa (writeRoot_vf (ρ := ρ1) hw)
        refine ⟨ρ1, ?_, hf1.setLocal (fun s hs => by rw [hΓ] at hs; cases hs; rw [← hsh]; exact p1), hg1⟩
        have s0 : Steps (lowerModule M) code (q, vf ρ fr, g) (q + 1, vf (Map.set ρ k (createInstance ty)) fr0, g) := by
          subst hfr0; exact Steps.one 0 hstep
        have := (s0.trans s1).trans (Steps.one 0 hst)
        simpa [Nat.add_assoc, Nat.add_comm 1] using this
  | expr e =>
    simp only [okSV] at hok
    rcases hel : lowerE e k with ⟨c1, v1, k1⟩
    simp only [lowerS, hel, Prod.mk.injEq] at hl
    obtain ⟨rfl, rfl⟩ := hl
    simp only [execS]
    cases h1 : evalE M n e fr g with
    | fail er => trivial
    | val a fr1 g1 =>
      obtain ⟨ρ1, s1, _, _, _, hf1, hg1⟩ := ihE ps Γ code e fr g a fr1 g1 h1 hok hf hg k c1 v1 k1 q ρ hel hat
      exact ⟨ρ1, s1, hf1, hg1⟩
  | seq a b =>
    simp only [okSV, Bool.and_eq_true] at hok
    rcases ha : lowerS brk cont a k with ⟨ca, k1⟩
    rcases hb : lowerS brk cont b k1 with ⟨cb, k2⟩
    simp only [lowerS, ha, hb, Prod.mk.injEq] at hl
    obtain ⟨rfl, rfl⟩ := hl
    have iha := ihS ps Γ rs code hlab a fr g inLoop hok.1 hf hg brk cont k ca k1 q ρ ha hat.left hloop
    simp only [execS]
    cases hx : execS M n a fr g with
    | normal fr1 g1 =>
      rw [hx] at iha
      obtain ⟨ρ1, s1, hf1, hg1⟩ := iha
      have ihb := ihS ps Γ rs code hlab b fr1 g1 inLoop hok.2 hf1 hg1 brk cont k1 cb k2 (q + ca.length) ρ1 hb hat.right hloop
      exact (SPostV.prepend s1 ihb).cast_end (by simp [Nat.add_assoc])
    | brk fr1 g1 => rw [hx] at iha; exact SPostV.end_irrel iha rfl
    | cont fr1 g1 => rw [hx] at iha; exact SPostV.end_irrel iha rfl
    | ret v fr1 g1 => rw [hx] at iha; exact SPostV.end_irrel iha rfl
    | fail er => trivial
  | ite1 cnd t =>
    simp only [okSV, Bool.and_eq_true] at hok
    rcases hc : lowerE cnd k with ⟨cc, v, k1⟩
    rcases ht : lowerS brk cont t (k1 + 2) with ⟨ct, k2⟩
    simp only [lowerS, hc, ht, Prod.mk.injEq] at hl
    obtain ⟨rfl, rfl⟩ := hl
    have hat' : At code q (cc ++ (.brc v k1 (k1 + 1) :: .label k1 :: (ct ++ [.label (k1 + 1)]))) := by
      simpa using hat
    have hlen : q + (cc ++ [Instr.brc v k1 (k1 + 1), Instr.label k1] ++ ct ++ [Instr.label (k1 + 1)]).length
        = q + cc.length + 1 + 1 + ct.length + 1 := by simp; omega
    rw [hlen]
    have a_brc := hat'.right
    have a_lT := a_brc.tail
    have a_ct := a_lT.tail
    have a_end := a_ct.right
    simp only [execS]
    cases h1 : evalE M n cnd fr g with
    | fail er => trivial
    | val a fr1 g1 =>
      obtain ⟨ρ1, s1, e1, p1, _, hf1, hg1⟩ := ihE ps Γ code cnd fr g a fr1 g1 h1 hok.1 hf hg k cc v k1 q ρ hc hat'.left
      by_cases htr : a.truthy = true
      · simp only [htr, if_true]
        have st1 := step_brc_true (cf := callD (lowerModule M) 0) (g := g1) a_brc.head e1 (fits_noPtr p1) htr (hlab.at a_lT)
        have iht := ihS ps Γ rs code hlab t fr1 g1 inLoop hok.2 hf1 hg1 brk cont (k1 + 2) ct k2
          (q + cc.length + 1 + 1) ρ1 ht a_ct.left hloop
        have pre := (s1.trans (Steps.one 0 st1)).trans (label_steps a_lT.head _ _)
        exact SPostV.prepend pre (iht.then_steps (fun fr g => label_steps a_end.head fr g))
      · have htf : a.truthy = false := by simpa using htr
        simp only [htf, SPostV]
        have st1 := step_brc_false (cf := callD (lowerModule M) 0) (g := g1) a_brc.head e1 (fits_noPtr p1) htf (hlab.at a_end)
        exact ⟨ρ1, (s1.trans (Steps.one 0 st1)).trans (label_steps a_end.head _ _), hf1, hg1⟩
  | ite2 cnd t e =>
    simp only [okSV, Bool.and_eq_true] at hok
    rcases hc : lowerE cnd k with ⟨cc, v, k1⟩
    rcases ht : lowerS brk cont t (k1 + 3) with ⟨ct, k2⟩
    rcases hee : lowerS brk cont e k2 with ⟨ce, k3⟩
    simp only [lowerS, hc, ht, hee, Prod.mk.injEq] at hl
    obtain ⟨rfl, rfl⟩ := hl
    have hat' : At code q (cc ++ (.brc v k1 (k1 + 1) :: .label k1 :: (ct ++
        (.br (k1 + 2) :: .label (k1 + 1) :: (ce ++ [.label (k1 + 2)]))))) := by
      simpa using hat
    have hlen : q + (cc ++ [Instr.brc v k1 (k1 + 1), Instr.label k1] ++ ct ++ [Instr.br (k1 + 2), Instr.label (k1 + 1)]
        ++ ce ++ [Instr.label (k1 + 2)]).length = q + cc.length + 1 + 1 + ct.length + 1 + 1 + ce.length + 1 := by
      simp; omega
    rw [hlen]
    have a_brc := hat'.right
    have a_lT := a_brc.tail
    have a_ct := a_lT.tail
    have a_br := a_ct.right
    have a_lF := a_br.tail
    have a_ce := a_lF.tail
    have a_end := a_ce.right
    simp only [execS]
    cases h1 : evalE M n cnd fr g with
    | fail er => trivial
    | val a fr1 g1 =>
      obtain ⟨ρ1, s1, e1, p1, _, hf1, hg1⟩ := ihE ps Γ code cnd fr g a fr1 g1 h1 hok.1.1 hf hg k cc v k1 q ρ hc hat'.left
      by_cases htr : a.truthy = true
      · simp only [htr, if_true]
        have st1 := step_brc_true (cf := callD (lowerModule M) 0) (g := g1) a_brc.head e1 (fits_noPtr p1) htr (hlab.at a_lT)
        have iht := ihS ps Γ rs code hlab t fr1 g1 inLoop hok.1.2 hf1 hg1 brk cont (k1 + 3) ct k2
          (q + cc.length + 1 + 1) ρ1 ht a_ct.left hloop
        have pre := (s1.trans (Steps.one 0 st1)).trans (label_steps a_lT.head _ _)
        refine SPostV.prepend pre (iht.then_steps (fun fr g => ?_))
        exact (br_steps a_br.head (hlab.at a_end) fr g).trans (label_steps a_end.head fr g)
      · have htf : a.truthy = false := by simpa using htr
        simp only [htf, Bool.false_eq_true, if_false]
        have st1 := step_brc_false (cf := callD (lowerModule M) 0) (g := g1) a_brc.head e1 (fits_noPtr p1) htf (hlab.at a_lF)
        have ihe := ihS ps Γ rs code hlab e fr1 g1 inLoop hok.2 hf1 hg1 brk cont k2 ce k3
          (q + cc.length + 1 + 1 + ct.length + 1 + 1) ρ1 hee a_ce.left hloop
        have pre := (s1.trans (Steps.one 0 st1)).trans (label_steps a_lF.head _ _)
        exact SPostV.prepend pre (ihe.then_steps (fun fr g => label_steps a_end.head fr g))
  | whileL cnd body =>
    have hok0 := hok
    have hl0 := hl
    simp only [okSV, Bool.and_eq_true] at hok
    rcases hc : lowerE cnd (k + 3) with ⟨cc, v, k1⟩
    rcases hb : lowerS (some (k + 2)) (some k) body k1 with ⟨cb, k2⟩
    simp only [lowerS, hc, hb, Prod.mk.injEq] at hl
    obtain ⟨rfl, rfl⟩ := hl
    have hat' : At code q (.label k :: (cc ++ (.brc v (k + 1) (k + 2) :: .label (k + 1) :: (cb ++
        [.br k, .label (k + 2)])))) := by
      simpa using hat
    have hlen : q + ([Instr.label k] ++ cc ++ [Instr.brc v (k + 1) (k + 2), Instr.label (k + 1)] ++ cb ++
        [Instr.br k, Instr.label (k + 2)]).length = q + 1 + cc.length + 1 + 1 + cb.length + 1 + 1 := by
      simp; omega
    rw [hlen]
    have a_cc := hat'.tail
    have a_brc := a_cc.right
    have a_lB := a_brc.tail
    have a_cb := a_lB.tail
    have a_br := a_cb.right
    have a_end := a_br.tail
    have l_start : labelPos code k = some q := hlab.at hat'
    have l_body := hlab.at a_lB
    have l_end := hlab.at a_end
    simp only [execS]
    cases h1 : evalE M n cnd fr g with
    | fail er => trivial
    | val a fr1 g1 =>
      obtain ⟨ρ1, s1, e1, p1, _, hf1, hg1⟩ :=
        ihE ps Γ code cnd fr g a fr1 g1 h1 hok.1 hf hg (k + 3) cc v k1 (q + 1) ρ hc a_cc.left
      have s0 := (label_steps (P := lowerModule M) hat'.head (vf ρ fr) g).trans s1
      by_cases htr : a.truthy = true
      · simp only [htr, if_true]
        have st1 := step_brc_true (cf := callD (lowerModule M) 0) (g := g1) a_brc.head e1 (fits_noPtr p1) htr l_body
        have pre := (s0.trans (Steps.one 0 st1)).trans (label_steps a_lB.head _ _)
        have ihb := ihS ps Γ rs code hlab body fr1 g1 true hok.2 hf1 hg1 (some (k + 2)) (some k) k1 cb k2
          (q + 1 + cc.length + 1 + 1) ρ1 hb a_cb.left (fun _ => ⟨k + 2, k, _, _, rfl, rfl, l_end, l_start⟩)
        cases hx : execS M n body fr1 g1 with
        | normal fr2 g2 =>
          rw [hx] at ihb
          obtain ⟨ρ2, s2, hf2, hg2⟩ := ihb
          have back := br_steps (P := lowerModule M) a_br.head l_start (vf ρ2 fr2) g2
          have ihw := ihS ps Γ rs code hlab (.whileL cnd body) fr2 g2 inLoop hok0 hf2 hg2 brk cont k _ k2 q ρ2 hl0 hat hloop
          rw [hlen] at ihw
          exact SPostV.prepend ((pre.trans s2).trans back) ihw
        | cont fr2 g2 =>
          rw [hx] at ihb
          obtain ⟨b, p, ρ2, hb1, hb2, s2, hf2, hg2⟩ := ihb
          cases hb1
          rw [l_start] at hb2; cases hb2
          have ihw := ihS ps Γ rs code hlab (.whileL cnd body) fr2 g2 inLoop hok0 hf2 hg2 brk cont k _ k2 q ρ2 hl0 hat hloop
          rw [hlen] at ihw
          exact SPostV.prepend (pre.trans s2) ihw
        | brk fr2 g2 =>
          rw [hx] at ihb
          obtain ⟨b, p, ρ2, hb1, hb2, s2, hf2, hg2⟩ := ihb
          cases hb1
          rw [l_end] at hb2; cases hb2
          exact ⟨ρ2, (pre.trans s2).trans (label_steps a_end.head _ _), hf2, hg2⟩
        | ret w fr2 g2 =>
          rw [hx] at ihb
          exact SPostV.prepend pre (show SPostV M ps Γ rs code brk cont _ _ (SOut.ret w fr2 g2) from ihb)
        | fail er => trivial
      · have htf : a.truthy = false := by simpa using htr
        simp only [htf, SPostV]
        have st1 := step_brc_false (cf := callD (lowerModule M) 0) (g := g1) a_brc.head e1 (fits_noPtr p1) htf l_end
        exact ⟨ρ1, (s0.trans (Steps.one 0 st1)).trans (label_steps a_end.head _ _), hf1, hg1⟩
  | doL body cnd =>
    have hok0 := hok
    have hl0 := hl
    simp only [okSV, Bool.and_eq_true] at hok
    rcases hb : lowerS (some (k + 2)) (some (k + 1)) body (k + 3) with ⟨cb, k1⟩
    rcases hc : lowerE cnd k1 with ⟨cc, v, k2⟩
    simp only [lowerS, hc, hb, Prod.mk.injEq] at hl
    obtain ⟨rfl, rfl⟩ := hl
    have hat' : At code q (.label k :: (cb ++ (.label (k + 1) :: (cc ++ [.brc v k (k + 2), .label (k + 2)])))) := by
      simpa using hat
    have hlen : q + ([Instr.label k] ++ cb ++ [Instr.label (k + 1)] ++ cc ++
        [Instr.brc v k (k + 2), Instr.label (k + 2)]).length = q + 1 + cb.length + 1 + cc.length + 1 + 1 := by
      simp; omega
    rw [hlen]
    have a_cb := hat'.tail
    have a_lC := a_cb.right
    have a_cc := a_lC.tail
    have a_brc := a_cc.right
    have a_end := a_brc.tail
    have l_start : labelPos code k = some q := hlab.at hat'
    have l_cond := hlab.at a_lC
    have l_end := hlab.at a_end
    have pre := label_steps (P := lowerModule M) hat'.head (vf ρ fr) g
    have ihb := ihS ps Γ rs code hlab body fr g true hok.1 hf hg (some (k + 2)) (some (k + 1)) (k + 3) cb k1
      (q + 1) ρ hb a_cb.left (fun _ => ⟨k + 2, k + 1, _, _, rfl, rfl, l_end, l_cond⟩)
    -- what happens from the test label on
    have after : ∀ (ρ1 : Map Nat Val) (fr1 : Frame) (g1 : Globals), FrTy ps Γ fr1 → GTy M g1 →
        SPostV M ps Γ rs code brk cont (q + 1 + cb.length, vf ρ1 fr1, g1)
          (q + 1 + cb.length + 1 + cc.length + 1 + 1)
          (match evalE M n cnd fr1 g1 with
           | .fail er => SOut.fail er
           | .val v fr2 g2 => if v.truthy = true then execS M n (.doL body cnd) fr2 g2 else SOut.normal fr2 g2) := by
      intro ρ1 fr1 g1 hf1 hg1
      cases h1 : evalE M n cnd fr1 g1 with
      | fail er => trivial
      | val a fr2 g2 =>
        obtain ⟨ρ2, s2, e2, p2, _, hf2, hg2⟩ :=
          ihE ps Γ code cnd fr1 g1 a fr2 g2 h1 hok.2 hf1 hg1 k1 cc v k2 (q + 1 + cb.length + 1) ρ1 hc a_cc.left
        have s0 := (label_steps (P := lowerModule M) a_lC.head (vf ρ1 fr1) g1).trans s2
        by_cases htr : a.truthy = true
        · simp only [htr, if_true]
          have st1 := step_brc_true (cf := callD (lowerModule M) 0) (g := g2) a_brc.head e2 (fits_noPtr p2) htr l_start
          have ihw := ihS ps Γ rs code hlab (.doL body cnd) fr2 g2 inLoop hok0 hf2 hg2 brk cont k _ k2 q ρ2 hl0 hat hloop
          rw [hlen] at ihw
          exact SPostV.prepend (s0.trans (Steps.one 0 st1)) ihw
        · have htf : a.truthy = false := by simpa using htr
          simp only [htf, SPostV]
          have st1 := step_brc_false (cf := callD (lowerModule M) 0) (g := g2) a_brc.head e2 (fits_noPtr p2) htf l_end
          exact ⟨ρ2, (s0.trans (Steps.one 0 st1)).trans (label_steps a_end.head _ _), hf2, hg2⟩
    simp only [execS]
    cases hx : execS M n body fr g with
    | normal fr1 g1 =>
      rw [hx] at ihb
      obtain ⟨ρ1, s1, hf1, hg1⟩ := ihb
      exact SPostV.prepend (pre.trans s1) (after ρ1 fr1 g1 hf1 hg1)
    | cont fr1 g1 =>
      rw [hx] at ihb
      obtain ⟨b, p, ρ1, hb1, hb2, s1, hf1, hg1⟩ := ihb
      cases hb1
      rw [l_cond] at hb2; cases hb2
      exact SPostV.prepend (pre.trans s1) (after ρ1 fr1 g1 hf1 hg1)
    | brk fr1 g1 =>
      rw [hx] at ihb
      obtain ⟨b, p, ρ1, hb1, hb2, s1, hf1, hg1⟩ := ihb
      cases hb1
      rw [l_end] at hb2; cases hb2
      exact ⟨ρ1, (pre.trans s1).trans (label_steps a_end.head _ _), hf1, hg1⟩
    | ret w fr1 g1 =>
      rw [hx] at ihb
      exact SPostV.prepend pre (show SPostV M ps Γ rs code brk cont _ _ (SOut.ret w fr1 g1) from ihb)
    | fail er => trivial
  | forL init cnd next body =>
    simp only [okSV, Bool.and_eq_true] at hok
    obtain ⟨⟨⟨hoki, hokc⟩, hokn⟩, hokb⟩ := hok
    rcases hi : lowerS brk cont init k with ⟨ci, k0⟩
    rcases hc : lowerOptE cnd (k0 + 4) with ⟨cc, v, k1⟩
    rcases hb : lowerS (some (k0 + 3)) (some (k0 + 2)) body k1 with ⟨cb, k2⟩
    rcases hn : lowerOptE next k2 with ⟨cn, vn, k3⟩
    simp only [lowerS, hi, hc, hb, hn, Prod.mk.injEq] at hl
    obtain ⟨rfl, rfl⟩ := hl
    generalize hbranch : forBranch v (k0 + 1) (k0 + 3) = branch at hat ⊢
    -- the loop part is the lowering of `for (; c; next) body` at counter k0
    have hrest : lowerS brk cont (.forL .skip cnd next body) k0 =
        (.label k0 :: (cc ++ (branch :: .label (k0 + 1) :: (cb ++ (.label (k0 + 2) :: (cn ++
          [.br k0, .label (k0 + 3)]))))), k3) := by
      simp [lowerS, hc, hb, hn, hbranch]
    have hokw : okSV M ps Γ rs inLoop (.forL .skip cnd next body) = true := by simp [okSV, hokc, hokn, hokb]
    have hat' : At code q (ci ++ (.label k0 :: (cc ++ (branch :: .label (k0 + 1) :: (cb ++ (.label (k0 + 2) :: (cn ++
          [.br k0, .label (k0 + 3)]))))))) := by
      simpa using hat
    have hlen : q + (ci ++ [Instr.label k0] ++ cc ++ [branch, Instr.label (k0 + 1)] ++ cb ++ [Instr.label (k0 + 2)] ++ cn ++
        [Instr.br k0, Instr.label (k0 + 3)]).length
        = q + ci.length + 1 + cc.length + 1 + 1 + cb.length + 1 + cn.length + 1 + 1 := by
      simp; omega
    rw [hlen]
    have a_rest := hat'.right
    have a_cc := a_rest.tail
    have a_br := a_cc.right
    have a_lB := a_br.tail
    have a_cb := a_lB.tail
    have a_lI := a_cb.right
    have a_cn := a_lI.tail
    have a_back := a_cn.right
    have a_end := a_back.tail
    have l_cond := hlab.at a_rest
    have l_body := hlab.at a_lB
    have l_incr := hlab.at a_lI
    have l_end := hlab.at a_end
    have ihi := ihS ps Γ rs code hlab init fr g inLoop hoki hf hg brk cont k ci k0 q ρ hi hat'.left hloop
    -- after the body (normal completion or `continue`): increment, jump back, next iteration
    have afterBody : ∀ (ρ2 : Map Nat Val) (fr2 : Frame) (g2 : Globals), FrTy ps Γ fr2 → GTy M g2 →
        SPostV M ps Γ rs code brk cont (q + ci.length + 1 + cc.length + 1 + 1 + cb.length + 1, vf ρ2 fr2, g2)
          (q + ci.length + 1 + cc.length + 1 + 1 + cb.length + 1 + cn.length + 1 + 1)
          (forAfterBody M n cnd next body fr2 g2) := by
      intro ρ2 fr2 g2 hf2 hg2
      unfold forAfterBody
      cases h3 : optEval M n next .none fr2 g2 with
      | fail er => trivial
      | val w fr3 g3 =>
        obtain ⟨ρ3, s3, _, hf3, hg3⟩ := optE_simV ihE ps Γ code next .none fr2 g2 w fr3 g3 h3 hokn hf2 hg2 k2 cn vn k3 _ ρ2 hn a_cn.left
        have back := br_steps (P := lowerModule M) a_back.head l_cond (vf ρ3 fr3) g3
        have ihw := ihS ps Γ rs code hlab (.forL .skip cnd next body) fr3 g3 inLoop hokw hf3 hg3 brk cont k0 _ k3
          (q + ci.length) ρ3 hrest a_rest hloop
        exact SPostV.prepend (s3.trans back) (ihw.cast_end (by simp; omega))
    rw [execS_for]
    cases hx : execS M n init fr g with
    | normal fr0 g0 =>
      rw [hx] at ihi
      obtain ⟨ρ0, s0, hf0, hg0⟩ := ihi
      have pre0 := s0.trans (label_steps (P := lowerModule M) a_rest.head (vf ρ0 fr0) g0)
      show SPostV M ps Γ rs code brk cont _ _ (match optEval M n cnd (.int 1) fr0 g0 with
        | .fail er => SOut.fail er
        | .val v fr1 g1 =>
          if v.truthy = true then
            match execS M n body fr1 g1 with
            | .normal fr2 g2 => forAfterBody M n cnd next body fr2 g2
            | .cont fr2 g2 => forAfterBody M n cnd next body fr2 g2
            | .brk fr2 g2 => .normal fr2 g2
            | o => o
          else .normal fr1 g1)
      cases h1 : optEval M n cnd (.int 1) fr0 g0 with
      | fail er => trivial
      | val a fr1 g1 =>
        obtain ⟨ρ1, s1, hv, hf1, hg1⟩ := optE_simV ihE ps Γ code cnd (.int 1) fr0 g0 a fr1 g1 h1 hokc hf0 hg0 (k0 + 4) cc v k1 _ ρ0 hc a_cc.left
        have pre1 := pre0.trans s1
        by_cases htr : a.truthy = true
        · simp only [htr, if_true]
          have stb : Steps (lowerModule M) code (q + ci.length + 1 + cc.length, vf ρ1 fr1, g1)
              (q + ci.length + 1 + cc.length + 1, vf ρ1 fr1, g1) := by
            cases v with
            | none =>
              subst hbranch
              exact br_steps (by simpa [forBranch] using a_br.head) l_body _ _
            | some p =>
              subst hbranch
              simp only [forBranch] at a_br
              exact Steps.one 0 (step_brc_true (cf := callD (lowerModule M) 0) a_br.head hv.1 hv.2 htr l_body)
          have pre := (pre1.trans stb).trans (label_steps a_lB.head _ _)
          have ihb := ihS ps Γ rs code hlab body fr1 g1 true hokb hf1 hg1 (some (k0 + 3)) (some (k0 + 2)) k1 cb k2
            (q + ci.length + 1 + cc.length + 1 + 1) ρ1 hb a_cb.left (fun _ => ⟨k0 + 3, k0 + 2, _, _, rfl, rfl, l_end, l_incr⟩)
          cases hy : execS M n body fr1 g1 with
          | normal fr2 g2 =>
            rw [hy] at ihb
            obtain ⟨ρ2, s2, hf2, hg2⟩ := ihb
            exact SPostV.prepend ((pre.trans s2).trans (label_steps a_lI.head _ _)) (afterBody ρ2 fr2 g2 hf2 hg2)
          | cont fr2 g2 =>
            rw [hy] at ihb
            obtain ⟨b, p, ρ2, hb1, hb2, s2, hf2, hg2⟩ := ihb
            cases hb1
            rw [l_incr] at hb2; cases hb2
            exact SPostV.prepend ((pre.trans s2).trans (label_steps a_lI.head _ _)) (afterBody ρ2 fr2 g2 hf2 hg2)
          | brk fr2 g2 =>
            rw [hy] at ihb
            obtain ⟨b, p, ρ2, hb1, hb2, s2, hf2, hg2⟩ := ihb
            cases hb1
            rw [l_end] at hb2; cases hb2
            exact ⟨ρ2, (pre.trans s2).trans (label_steps a_end.head _ _), hf2, hg2⟩
          | ret w fr2 g2 =>
            rw [hy] at ihb
            exact SPostV.prepend pre (show SPostV M ps Γ rs code brk cont _ _ (SOut.ret w fr2 g2) from ihb)
          | fail er => trivial
        · have htf : a.truthy = false := by simpa using htr
          simp only [htf, Bool.false_eq_true, if_false, SPostV]
          cases v with
          | none =>
            simp only at hv
            subst hv
            simp [Val.truthy] at htf
          | some p =>
            subst hbranch
            simp only [forBranch] at a_br
            have st1 := step_brc_false (cf := callD (lowerModule M) 0) (g := g1) a_br.head hv.1 hv.2 htf l_end
            exact ⟨ρ1, (pre1.trans (Steps.one 0 st1)).trans (label_steps a_end.head _ _), hf1, hg1⟩
    | brk fr1 g1 => rw [hx] at ihi; exact SPostV.end_irrel ihi rfl
    | cont fr1 g1 => rw [hx] at ihi; exact SPostV.end_irrel ihi rfl
    | ret w fr1 g1 => rw [hx] at ihi; exact SPostV.end_irrel ihi rfl
    | fail er => trivial
  | brk =>
    simp only [okSV] at hok
    obtain ⟨b, cn, pb, pc, rfl, rfl, hpb, hpc⟩ := hloop hok
    simp only [lowerS, Prod.mk.injEq] at hl
    obtain ⟨rfl, rfl⟩ := hl
    simp only [execS, SPostV]
    exact ⟨b, pb, ρ, rfl, hpb, br_steps (by simpa using hat.head) hpb _ _, hf, hg⟩
  | cont =>
    simp only [okSV] at hok
    obtain ⟨b, cn, pb, pc, rfl, rfl, hpb, hpc⟩ := hloop hok
    simp only [lowerS, Prod.mk.injEq] at hl
    obtain ⟨rfl, rfl⟩ := hl
    simp only [execS, SPostV]
    exact ⟨cn, pc, ρ, rfl, hpc, br_steps (by simpa using hat.head) hpc _ _, hf, hg⟩
  | ret oe =>
    cases oe with
    | none =>
      simp only [okSV] at hok
      simp only [lowerS, Prod.mk.injEq] at hl
      obtain ⟨rfl, rfl⟩ := hl
      simp only [execS, SPostV]
      exact ⟨⟨q, vf ρ fr, g, 0, Steps.refl _, step_ret_none hat.head⟩, fits_slot_none hok, hg⟩
    | some e =>
      simp only [okSV, Bool.and_eq_true, beq_iff_eq] at hok
      rcases hel : lowerE e k with ⟨c1, v1, k1⟩
      simp only [lowerS, hel, Prod.mk.injEq] at hl
      obtain ⟨rfl, rfl⟩ := hl
      simp only [execS]
      cases h1 : evalE M n e fr g with
      | fail er => trivial
      | val a fr1 g1 =>
        obtain ⟨ρ1, s1, e1, p1, _, hf1, hg1⟩ := ihE ps Γ code e fr g a fr1 g1 h1 hok.2 hf hg k c1 v1 k1 q ρ hel hat.left
        have hpa := fits_noPtr p1
        have hret := step_ret_some (cf := callD (lowerModule M) 0) (g := g1) hat.right.head e1 hpa
        have : SPostV M ps Γ rs code brk cont (q, vf ρ fr, g) (q + (c1 ++ [Instr.ret (some v1)]).length)
            (SOut.ret a fr1 g1) := ⟨⟨_, _, _, 0, s1, hret⟩, by rw [← hok.1]; exact p1, hg1⟩
        cases a <;> first | exact this | (simp [Val.isPtr] at hpa)

end Vec
end Nsl
