import Nsl.Model.WF
/-!
# Helper lemmas for the IR well-formedness checker (C14)

Nothing in this file mentions `computeIn`: soundness of the checker only uses the edge-wise
conditions that `wfErr` verifies on whatever candidate the analysis returned.
-/
namespace Nsl.WF

/-! ## List sets -/

theorem subFail_none : ∀ (b a : List Nat), subFail a b = none → ∀ x ∈ a, x ∈ b := by
  intro b
  induction b with
  | nil =>
    intro a h x hx
    cases a with
    | nil => cases hx
    | cons y ys => simp [subFail] at h
  | cons y ys ih =>
    intro a h x hx
    cases a with
    | nil => cases hx
    | cons z zs =>
      simp only [subFail] at h
      by_cases hzy : z = y
      · rw [if_pos hzy] at h
        subst hzy
        rcases List.mem_cons.1 hx with rfl | hx'
        · exact List.mem_cons_self
        · exact List.mem_cons_of_mem _ (ih zs h x hx')
      · rw [if_neg hzy] at h
        by_cases hlt : z < y
        · rw [if_pos hlt] at h
          exact List.mem_cons_of_mem _ (ih (z :: zs) h x hx)
        · rw [if_neg hlt] at h
          cases h

theorem mem_insertDesc {d x : Nat} : ∀ {l : List Nat}, x ∈ insertDesc d l → x = d ∨ x ∈ l := by
  intro l
  induction l with
  | nil => intro h; simp [insertDesc] at h; exact Or.inl h
  | cons y ys ih =>
    intro h
    simp only [insertDesc] at h
    by_cases h1 : y < d
    · rw [if_pos h1] at h
      rcases List.mem_cons.1 h with rfl | h'
      · exact Or.inl rfl
      · exact Or.inr h'
    · rw [if_neg h1] at h
      by_cases h2 : y = d
      · rw [if_pos h2] at h
        exact Or.inr h
      · rw [if_neg h2] at h
        rcases List.mem_cons.1 h with rfl | h'
        · exact Or.inr List.mem_cons_self
        · rcases ih h' with rfl | h''
          · exact Or.inl rfl
          · exact Or.inr (List.mem_cons_of_mem _ h'')

theorem mem_addDef {o : Option Nat} {x : Nat} {l : List Nat} (h : x ∈ addDef o l) :
    x ∈ l ∨ o = some x := by
  cases o with
  | none => exact Or.inl h
  | some d =>
    rcases mem_insertDesc (l := l) h with rfl | h'
    · exact Or.inr rfl
    · exact Or.inl h'

/-! ## Uniqueness from `firstDup` -/

theorem firstDup_filterMap_idx {α : Type} (f : α → Option Nat) :
    ∀ (l : List α), firstDup (l.filterMap f) = none →
      ∀ (i j : Nat) (a b : α) (r : Nat),
        l[i]? = some a → l[j]? = some b → f a = some r → f b = some r → i = j := by
  intro l
  induction l with
  | nil => intro _ i j a b r hi; simp at hi
  | cons x xs ih =>
    intro h i j a b r hi hj ha hb
    -- facts extracted from `h`
    have htail : firstDup (xs.filterMap f) = none := by
      cases hx : f x with
      | none => simpa [List.filterMap_cons, hx] using h
      | some r0 =>
        simp only [List.filterMap_cons, hx, firstDup] at h
        split at h
        · cases h
        · exact h
    have hhead : ∀ (k : Nat) (c : α), f x = some r → xs[k]? = some c → f c = some r → False := by
      intro k c hx hk hc
      simp only [List.filterMap_cons, hx, firstDup] at h
      have hm : r ∈ xs.filterMap f :=
        List.mem_filterMap.2 ⟨c, List.mem_of_getElem? hk, hc⟩
      have : (xs.filterMap f).contains r = true := by simpa using hm
      rw [if_pos this] at h
      cases h
    cases i with
    | zero =>
      cases j with
      | zero => rfl
      | succ j =>
        simp only [List.getElem?_cons_zero, Option.some.injEq] at hi
        simp only [List.getElem?_cons_succ] at hj
        subst hi
        exact (hhead j b ha hj hb).elim
    | succ i =>
      cases j with
      | zero =>
        simp only [List.getElem?_cons_zero, Option.some.injEq] at hj
        simp only [List.getElem?_cons_succ] at hi
        subst hj
        exact (hhead i a hb hi ha).elim
      | succ j =>
        simp only [List.getElem?_cons_succ] at hi hj
        exact congrArg Nat.succ (ih htail i j a b r hi hj ha hb)

/-! ## Labels and successors -/

theorem labelPos_go_some (l : Nat) : ∀ (rest : List Instr) (i p : Nat),
    labelPos.go l rest i = some p → ∃ k, p = i + k ∧ rest[k]? = some (.label l) := by
  intro rest
  induction rest with
  | nil => intro i p h; simp [labelPos.go] at h
  | cons x xs ih =>
    intro i p h
    have hrec : labelPos.go l xs (i + 1) = some p →
        ∃ k, p = i + k ∧ (x :: xs)[k]? = some (.label l) := by
      intro h'
      obtain ⟨k, hk, hget⟩ := ih (i + 1) p h'
      exact ⟨k + 1, by omega, by simpa using hget⟩
    cases x with
    | label l' =>
      simp only [labelPos.go] at h
      by_cases hl : l' = l
      · rw [if_pos hl] at h
        subst hl
        exact ⟨0, by simpa using (Option.some.inj h).symm, by simp⟩
      · rw [if_neg hl] at h
        exact hrec h
    | _ => exact hrec (by simpa [labelPos.go] using h)

theorem labelPos_some {code : List Instr} {l p : Nat} (h : labelPos code l = some p) :
    code[p]? = some (.label l) := by
  obtain ⟨k, hk, hget⟩ := labelPos_go_some l code 0 p h
  have : p = k := by omega
  subst this
  exact hget

theorem succs_in_range {code : List Instr} {pc s : Nat} (h : s ∈ succs code pc) :
    pc < code.length := by
  cases hget : code[pc]? with
  | none => simp [succs, hget] at h
  | some ins =>
    have := List.getElem?_eq_some_iff.1 hget
    exact this.1

/-! ## The path invariant (definite definition on all paths) -/

/-- Core of soundness: any assignment `inn` of sets to positions that satisfies the edge condition
`inn s ⊆ inn pc ∪ def(pc)` for every CFG edge `pc → s` is, at the end of any path, covered by the
facts `D` known at its start plus the definitions executed along the path (strictly before its
last position). -/
theorem path_inv (code : List Instr) (inn : Nat → List Nat)
    (hedge : ∀ pc s, s ∈ succs code pc → ∀ r ∈ inn s, r ∈ inn pc ∨ defAt code pc = some r) :
    ∀ (p : List Nat) (a : Nat) (D : Nat → Prop),
      IsPath code (a :: p) → (∀ r ∈ inn a, D r) →
      ∀ q, (a :: p).getLast? = some q → ∀ r ∈ inn q,
        D r ∨ ∃ k d, k < p.length ∧ (a :: p)[k]? = some d ∧ defAt code d = some r := by
  intro p
  induction p with
  | nil =>
    intro a D _ hD q hq r hr
    simp at hq
    subst hq
    exact Or.inl (hD r hr)
  | cons b p' ih =>
    intro a D hpath hD q hq r hr
    have hab : b ∈ succs code a := hpath.1
    have hpath' : IsPath code (b :: p') := hpath.2
    have hq' : (b :: p').getLast? = some q := by
      simpa [List.getLast?_cons_cons] using hq
    have hD' : ∀ r ∈ inn b, (D r ∨ defAt code a = some r) := by
      intro r' hr'
      rcases hedge a b hab r' hr' with h1 | h2
      · exact Or.inl (hD r' h1)
      · exact Or.inr h2
    rcases ih b (fun r => D r ∨ defAt code a = some r) hpath' hD' q hq' r hr with h | h
    · rcases h with h | h
      · exact Or.inl h
      · exact Or.inr ⟨0, a, by simp, by simp, h⟩
    · obtain ⟨k, d, hk, hget, hdef⟩ := h
      exact Or.inr ⟨k + 1, d, by simpa using hk, by simpa using hget, hdef⟩

/-! ## Plumbing for `wfErr` -/

theorem orElse_none {a : Option Err} {b : Unit → Option Err} (h : orElse a b = none) :
    a = none ∧ b () = none := by
  cases a with
  | none => exact ⟨rfl, h⟩
  | some e => cases h

theorem lit_append_ne_ok (l s : String) (hl : 2 < l.length) : l ++ s ≠ "ok" := by
  intro h
  have h1 := congrArg String.length h
  have h2 : "ok".length = 2 := by decide
  rw [String.length_append, h2] at h1
  omega

theorem Err.msg_ne_ok (e : Err) : e.msg ≠ "ok" := by
  cases e <;> exact lit_append_ne_ok _ _ (by decide)

end Nsl.WF
