import Nsl.Proofs.Opt
namespace Nsl
namespace Opt
open VM WF

def CallRel (cf cf' : String → List Val → Globals → Res) : Prop :=
  ∀ name args g, cf name args g ≠ .fail .timeout → cf' name args g = cf name args g

def NextRel (ins : Instr) (fr fr' fr1 fr1' : Frame) : Prop :=
  fr1'.locals = fr1.locals ∧ fr1'.args = fr1.args ∧
  match WF.defOf ins with
  | some d => ∃ x, fr1.regs = Map.set fr.regs d x ∧ fr1'.regs = Map.set fr'.regs d x
  | none => fr1.regs = fr.regs ∧ fr1'.regs = fr'.regs

/-- How the outcome `o'` of the optimised step relates to the outcome of the original step.  `T` is the only
excuse for an original `timeout` that the optimised step does not reproduce (a call that ran out of budget). -/
def OutRel (T : Prop) (code : List Instr) (κ : Nat → Nat) (pc : Nat) (ins : Instr) (fr fr' : Frame) :
    StepOut → StepOut → Prop
  | .next p1 fr1 g1, o' => ∃ fr1', o' = .next (κ p1) fr1' g1 ∧ NextRel ins fr fr' fr1 fr1' ∧
      (p1 = pc + 1 ∨ ∃ l, labelPos code l = some p1)
  | .ret v g1 as, o' => o' = .ret v g1 as
  | .fail e, o' => (e = .timeout ∧ T) ∨ o' = .fail e

/-- the original step is a call whose callee ran out of budget -/
def CallTimeout (cf : String → List Val → Globals → Res) (σ : Subst) (ins : Instr) (fr fr' : Frame) (g : Globals) : Prop :=
  ∃ d ty fn args vs, ins = .call d ty fn args ∧ evalVals fr g args = .ok vs ∧
    evalVals fr' g (args.map (substOpd σ)) = .ok vs ∧ cf fn vs g = .fail .timeout

theorem readRoot_congr {fr fr' : Frame} (hL : fr'.locals = fr.locals) (hA : fr'.args = fr.args) (g : Globals) (r : Root) :
    readRoot fr' g r = readRoot fr g r := by
  cases r <;> simp [readRoot, hL, hA]

theorem evalVal_congr {fr fr' : Frame} (hL : fr'.locals = fr.locals) (hA : fr'.args = fr.args) (g : Globals)
    {o o' : Opd} (h : evalOpd fr' o' = evalOpd fr o) : evalVal fr' g o' = evalVal fr g o := by
  unfold evalVal
  rw [h]
  cases evalOpd fr o with
  | error e => rfl
  | ok v => cases v <;> simp [bind, Except.bind, readRoot_congr hL hA]

theorem evalVals_congr {fr fr' : Frame} (hL : fr'.locals = fr.locals) (hA : fr'.args = fr.args) (g : Globals)
    (σ : Subst) : ∀ (os : List Opd), (∀ r ∈ opdsRefs os, evalOpd fr' (substOpd σ (.ref r)) = evalOpd fr (.ref r)) →
      evalVals fr' g (os.map (substOpd σ)) = evalVals fr g os
  | [], _ => rfl
  | o :: os, h => by
    have h1 : evalOpd fr' (substOpd σ o) = evalOpd fr o := by
      cases o with
      | ref r => exact h r (by simp [opdsRefs, opdRefs])
      | cInt i => rfl
      | cFlt f => rfl
    have h2 := evalVals_congr hL hA g σ os (fun r hr => h r (by simp [opdsRefs]; exact Or.inr hr))
    simp only [List.map_cons, evalVals, evalVal_congr hL hA g h1, h2]

theorem writeRoot_congr {fr fr' : Frame} (hL : fr'.locals = fr.locals) (hA : fr'.args = fr.args) (g : Globals) (r : Root) (v : Val) :
    writeRoot fr' g r v = match writeRoot fr g r v with
      | .ok (f1, g1) => .ok ({ regs := fr'.regs, locals := f1.locals, args := f1.args }, g1)
      | .error e => .error e := by
  obtain ⟨R, L, A⟩ := fr
  obtain ⟨R', L', A'⟩ := fr'
  simp only at hL hA
  subst hL hA
  cases r <;> simp only [writeRoot]
  split <;> rfl

/-! ## Fuel monotonicity for every outcome except `timeout` -/

theorem stepI_callRel {cf cf' : String → List Val → Globals → Res} (hx : CallRel cf cf')
    (code : List Instr) (pc : Nat) (fr : Frame) (g : Globals)
    (h : stepI cf code pc fr g ≠ .fail .timeout) : stepI cf' code pc fr g = stepI cf code pc fr g := by
  unfold stepI at h ⊢
  cases hc : code[pc]? with
  | none => rfl
  | some ins =>
    simp only [hc] at h ⊢
    cases ins with
    | call dst ty fn args =>
      simp only [liftE] at h ⊢
      cases hv : evalVals fr g args with
      | error e => rfl
      | ok vs =>
        simp only [hv] at h ⊢
        have : cf fn vs g ≠ .fail .timeout := by
          intro hr; rw [hr] at h; exact h rfl
        rw [hx fn vs g this]
    | ret o => cases o <;> rfl
    | _ => rfl

theorem callD_callRel_of (P : Program) (D D' : Nat)
    (ih : ∀ (fn : Func) (pc : Nat) (fr : Frame) (g : Globals), run P D fn pc fr g ≠ .fail .timeout →
      run P D' fn pc fr g = run P D fn pc fr g) : CallRel (callD P D) (callD P D') := by
  intro name args g0 hc
  unfold callD at hc ⊢
  cases hf : P.find name with
  | none => rfl
  | some callee =>
    simp only [hf] at hc ⊢
    exact ih _ _ _ _ hc

theorem run_mono_ne (P : Program) : ∀ (f : Nat) (fn : Func) (pc : Nat) (fr : Frame) (g : Globals),
    run P f fn pc fr g ≠ .fail .timeout → ∀ f', f ≤ f' → run P f' fn pc fr g = run P f fn pc fr g := by
  intro f
  induction f with
  | zero => intro fn pc fr g h; rw [run_zero] at h; exact absurd rfl h
  | succ f ih =>
    intro fn pc fr g h f' hle
    obtain ⟨f'', rfl⟩ : ∃ f'', f' = f'' + 1 := ⟨f' - 1, by omega⟩
    have hle' : f ≤ f'' := by omega
    rw [run_succ] at h ⊢
    rw [run_succ]
    have hext : CallRel (callD P f) (callD P f'') :=
      callD_callRel_of P f f'' (fun fn pc fr g hne => ih fn pc fr g hne f'' hle')
    have hstep : stepI (callD P f) fn.code pc fr g ≠ .fail .timeout := by
      intro hs; rw [hs] at h; exact h rfl
    rw [stepI_callRel hext _ _ _ _ hstep]
    cases hs : stepI (callD P f) fn.code pc fr g with
    | fail e => rfl
    | next pc1 fr1 g1 =>
      simp only [hs] at h ⊢
      exact ih _ _ _ _ h f'' hle'
    | ret v1 g1 as1 => rfl

theorem callD_callRel (P : Program) {D D' : Nat} (h : D ≤ D') : CallRel (callD P D) (callD P D') :=
  callD_callRel_of P D D' (fun fn pc fr g hne => run_mono_ne P D fn pc fr g hne D' h)

/-- What holds right after a successful `store`: the variable holds the value of the stored operand. -/
theorem store_step_post {cf : String → List Val → Globals → Res} {code : List Instr} {pc : Nat} {fr : Frame}
    {g : Globals} {sc : Scope} {var : VarKey} {src : Opd} (hc : code[pc]? = some (.store sc var src))
    {p1 : Nat} {fr1 : Frame} {g1 : Globals} (h1 : stepI cf code pc fr g = .next p1 fr1 g1) :
    ∃ root v, rootOf sc var = .ok root ∧ readRoot fr1 g1 root = .ok v ∧ evalOpd fr1 src = .ok v := by
  simp only [stepI, hc, liftE] at h1
  cases hroot : rootOf sc var with
  | error e => simp [hroot] at h1
  | ok root =>
    simp only [hroot] at h1
    cases hv : evalOpd fr src with
    | error e => simp [hv] at h1
    | ok v =>
      simp only [hv] at h1
      cases hw : writeRoot fr g root v with
      | error e => cases v <;> simp_all
      | ok res =>
        obtain ⟨fr2, g2⟩ := res
        have h1' : StepOut.next (pc + 1) fr2 g2 = StepOut.next p1 fr1 g1 := by
          cases v <;> simp_all
        simp only [StepOut.next.injEq] at h1'
        obtain ⟨rfl, rfl, rfl⟩ := h1'
        have hregs : fr2.regs = fr.regs := by
          cases root <;> simp only [writeRoot] at hw
          · simp only [Except.ok.injEq, Prod.mk.injEq] at hw; obtain ⟨rfl, _⟩ := hw; rfl
          · split at hw
            · simp only [Except.ok.injEq, Prod.mk.injEq] at hw; obtain ⟨rfl, _⟩ := hw; rfl
            · cases hw
          · simp only [Except.ok.injEq, Prod.mk.injEq] at hw; obtain ⟨rfl, _⟩ := hw; rfl
        refine ⟨root, v, rfl, readRoot_writeRoot hw, ?_⟩
        rw [← hv]
        cases src <;> simp [evalOpd, hregs]

end Opt
end Nsl
