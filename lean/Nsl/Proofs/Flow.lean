/-
  Helper lemmas for property C11 (break / continue validation).
-/
import Nsl.Model.Flow

namespace Nsl.Flow

open Spec

/-- Structural induction for the nested inductive `S` (the `induction` tactic does not support
nested inductives directly). -/
theorem S.ind {motive : S → Prop}
    (other : motive .other) (brk : motive .brk) (cont : motive .cont)
    (seq : ∀ a b, motive a → motive b → motive (.seq a b))
    (ite1 : ∀ t, motive t → motive (.ite t none))
    (ite2 : ∀ t e, motive t → motive e → motive (.ite t (some e)))
    (loop : ∀ k id b, motive b → motive (.loop k id b)) : ∀ s, motive s
  | .other => other
  | .brk => brk
  | .cont => cont
  | .seq a b => seq a b (S.ind other brk cont seq ite1 ite2 loop a) (S.ind other brk cont seq ite1 ite2 loop b)
  | .ite t none => ite1 t (S.ind other brk cont seq ite1 ite2 loop t)
  | .ite t (some e) =>
    ite2 t e (S.ind other brk cont seq ite1 ite2 loop t) (S.ind other brk cont seq ite1 ite2 loop e)
  | .loop k id b => loop k id b (S.ind other brk cont seq ite1 ite2 loop b)

/-! ### `validate` -/

/-- Inside a loop nothing is ever rejected. -/
theorem validate_pos (s : S) : ∀ d, 0 < d → validate d s = true := by
  induction s using S.ind with
  | other => intro d _; rfl
  | brk => intro d h; simp [validate]; omega
  | cont => intro d h; simp [validate]; omega
  | seq a b iha ihb => intro d h; simp [validate, iha d h, ihb d h]
  | ite1 t iht => intro d h; simp [validate, iht d h]
  | ite2 t e iht ihe => intro d h; simp [validate, iht d h, ihe d h]
  | loop k id b ih => intro d h; simp [validate, ih (d + 1) (by omega)]

theorem allInLoop_seq (a b : S) : AllInLoop (.seq a b) ↔ AllInLoop a ∧ AllInLoop b := by
  simp only [AllInLoop, occs, List.mem_append]
  constructor
  · intro h; exact ⟨fun o ho => h o (Or.inl ho), fun o ho => h o (Or.inr ho)⟩
  · rintro ⟨h1, h2⟩ o (ho | ho)
    · exact h1 o ho
    · exact h2 o ho

theorem allInLoop_ite1 (t : S) : AllInLoop (.ite t none) ↔ AllInLoop t := by
  simp only [AllInLoop, occs]

theorem allInLoop_ite2 (t e : S) : AllInLoop (.ite t (some e)) ↔ AllInLoop t ∧ AllInLoop e := by
  simp only [AllInLoop, occs, List.mem_append]
  constructor
  · intro h; exact ⟨fun o ho => h o (Or.inl ho), fun o ho => h o (Or.inr ho)⟩
  · rintro ⟨h1, h2⟩ o (ho | ho)
    · exact h1 o ho
    · exact h2 o ho

theorem allInLoop_loop (k : LoopKind) (id : Nat) (b : S) : AllInLoop (.loop k id b) := by
  simp only [AllInLoop, occs, List.mem_map]
  rintro o ⟨o', _, rfl⟩
  simp

theorem validate_zero_iff (s : S) : validate 0 s = true ↔ AllInLoop s := by
  induction s using S.ind with
  | other => simp [validate, AllInLoop, occs]
  | brk => simp [validate, AllInLoop, occs]
  | cont => simp [validate, AllInLoop, occs]
  | seq a b iha ihb => simp [validate, allInLoop_seq, iha, ihb]
  | ite1 t iht => simp [validate, allInLoop_ite1, iht]
  | ite2 t e iht ihe => simp [validate, allInLoop_ite2, iht, ihe]
  | loop k id b _ => simp [validate, allInLoop_loop, validate_pos b 1]

theorem validate_iff_depth (d : Nat) (s : S) : validate d s = true ↔ (d > 0 ∨ AllInLoop s) := by
  rcases Nat.eq_zero_or_pos d with rfl | h
  · simp [validate_zero_iff]
  · simp [validate_pos s d h, h]

/-! ### `targets` -/

/-- The lowering indexes an empty loop stack exactly when the validator (started at the depth of
the current stack) rejects. -/
theorem targets_isSome (s : S) : ∀ stk, (targets stk s).isSome = validate stk.length s := by
  induction s using S.ind with
  | other => intro stk; rfl
  | brk => intro stk; cases stk <;> simp [targets, validate]
  | cont => intro stk; cases stk <;> simp [targets, validate]
  | seq a b iha ihb =>
    intro stk
    have ha := iha stk; have hb := ihb stk
    simp only [targets, validate]
    cases h1 : targets stk a <;> cases h2 : targets stk b <;> simp_all
  | ite1 t iht => intro stk; simpa [targets, validate] using iht stk
  | ite2 t e iht ihe =>
    intro stk
    have ha := iht stk; have hb := ihe stk
    simp only [targets, validate]
    cases h1 : targets stk t <;> cases h2 : targets stk e <;> simp_all
  | loop k id b ih => intro stk; simpa [targets, validate] using ih (id :: stk)

/-- What `targets` computes under an arbitrary stack: the innermost loop of each occurrence, where
the loops already on the stack (outermost first = reversed) enclose everything in `s`. -/
def resolve (stk : List Nat) (s : S) : List (Bool × Nat) :=
  (occs s).filterMap fun o => (innermost (stk.reverse ++ o.2)).map fun l => (o.1, l)

theorem resolve_seq (stk : List Nat) (a b : S) :
    resolve stk (.seq a b) = resolve stk a ++ resolve stk b := by
  simp [resolve, occs, List.filterMap_append]

theorem resolve_ite2 (stk : List Nat) (a b : S) :
    resolve stk (.ite a (some b)) = resolve stk a ++ resolve stk b := by
  simp [resolve, occs, List.filterMap_append]

theorem targets_eq_resolve (s : S) :
    ∀ stk, validate stk.length s = true → targets stk s = some (resolve stk s) := by
  induction s using S.ind with
  | other => intro stk _; rfl
  | brk =>
    intro stk h
    cases stk with
    | nil => simp [validate] at h
    | cons l r => simp [targets, resolve, occs, innermost]
  | cont =>
    intro stk h
    cases stk with
    | nil => simp [validate] at h
    | cons l r => simp [targets, resolve, occs, innermost]
  | seq a b iha ihb =>
    intro stk h
    simp only [validate, Bool.and_eq_true] at h
    simp only [targets, iha stk h.1, ihb stk h.2, resolve_seq]
  | ite1 t iht =>
    intro stk h
    simp only [validate] at h
    simpa [targets, resolve, occs] using iht stk h
  | ite2 t e iht ihe =>
    intro stk h
    simp only [validate, Bool.and_eq_true] at h
    simp only [targets, iht stk h.1, ihe stk h.2, resolve_ite2]
  | loop k id b ih =>
    intro stk h
    simp only [validate] at h
    have := ih (id :: stk) h
    simp only [targets, this]
    simp [resolve, occs, List.filterMap_map, Function.comp_def]

theorem resolve_nil (s : S) : resolve [] s = occurrences s := by
  simp [resolve, occurrences]

/-- The state-threaded walk (explicit `BeginLoop` push / `EndLoop` pop) restores the stack and
registers exactly what `targets` registers. -/
theorem targetsSt_eq (s : S) :
    ∀ stk, targetsSt s stk = (targets stk s).map fun xs => (xs, stk) := by
  induction s using S.ind with
  | other => intro stk; rfl
  | brk => intro stk; cases stk <;> rfl
  | cont => intro stk; cases stk <;> rfl
  | seq a b iha ihb =>
    intro stk
    simp only [targetsSt, targets, iha stk]
    cases h1 : targets stk a with
    | none => rfl
    | some xs =>
      simp only [Option.map_some, ihb stk]
      cases h2 : targets stk b <;> rfl
  | ite1 t iht => intro stk; simpa [targetsSt, targets] using iht stk
  | ite2 t e iht ihe =>
    intro stk
    simp only [targetsSt, targets, iht stk]
    cases h1 : targets stk t with
    | none => rfl
    | some xs =>
      simp only [Option.map_some, ihe stk]
      cases h2 : targets stk e <;> rfl
  | loop k id b ih =>
    intro stk
    simp only [targetsSt, targets, ih (id :: stk)]
    cases h1 : targets (id :: stk) b <;> rfl

/-! ### Path-based cross-check of `occs` -/

/-- The statement `break` / `continue` for a flag. -/
def leafOf (b : Bool) : S := if b then .brk else .cont

theorem mem_occs_of_path (s : S) :
    ∀ (p : List Step) (b : Bool), sub s p = some (leafOf b) → (b, enclosing s p) ∈ occs s := by
  induction s using S.ind with
  | other => intro p b h; cases p <;> cases b <;> simp [sub, leafOf] at h
  | brk => intro p b h; cases p <;> cases b <;> simp [sub, leafOf, occs, enclosing] at h ⊢
  | cont => intro p b h; cases p <;> cases b <;> simp [sub, leafOf, occs, enclosing] at h ⊢
  | seq a b iha ihb =>
    intro p f h
    cases p with
    | nil => cases f <;> simp [sub, leafOf] at h
    | cons st p =>
      cases st <;> simp only [sub, enclosing, occs, List.mem_append] at h ⊢ <;> try (cases h; done)
      · exact Or.inl (iha p f h)
      · exact Or.inr (ihb p f h)
  | ite1 t iht =>
    intro p f h
    cases p with
    | nil => cases f <;> simp [sub, leafOf] at h
    | cons st p =>
      cases st <;> simp only [sub, enclosing, occs] at h ⊢ <;> try (cases h; done)
      exact iht p f h
  | ite2 t e iht ihe =>
    intro p f h
    cases p with
    | nil => cases f <;> simp [sub, leafOf] at h
    | cons st p =>
      cases st <;> simp only [sub, enclosing, occs, List.mem_append] at h ⊢ <;> try (cases h; done)
      · exact Or.inl (iht p f h)
      · exact Or.inr (ihe p f h)
  | loop k id b ih =>
    intro p f h
    cases p with
    | nil => cases f <;> simp [sub, leafOf] at h
    | cons st p =>
      cases st <;> simp only [sub, enclosing, occs, List.mem_map] at h ⊢ <;> try (cases h; done)
      exact ⟨_, ih p f h, rfl⟩

theorem path_of_mem_occs (s : S) :
    ∀ o ∈ occs s, ∃ p, sub s p = some (leafOf o.1) ∧ enclosing s p = o.2 := by
  induction s using S.ind with
  | other => intro o h; simp [occs] at h
  | brk => intro o h; simp only [occs, List.mem_singleton] at h; subst h; exact ⟨[], rfl, rfl⟩
  | cont => intro o h; simp only [occs, List.mem_singleton] at h; subst h; exact ⟨[], rfl, rfl⟩
  | seq a b iha ihb =>
    intro o h
    simp only [occs, List.mem_append] at h
    rcases h with h | h
    · obtain ⟨p, h1, h2⟩ := iha o h; exact ⟨.seqL :: p, by simpa [sub] using h1, by simpa [enclosing] using h2⟩
    · obtain ⟨p, h1, h2⟩ := ihb o h; exact ⟨.seqR :: p, by simpa [sub] using h1, by simpa [enclosing] using h2⟩
  | ite1 t iht =>
    intro o h
    simp only [occs] at h
    obtain ⟨p, h1, h2⟩ := iht o h; exact ⟨.thenB :: p, by simpa [sub] using h1, by simpa [enclosing] using h2⟩
  | ite2 t e iht ihe =>
    intro o h
    simp only [occs, List.mem_append] at h
    rcases h with h | h
    · obtain ⟨p, h1, h2⟩ := iht o h; exact ⟨.thenB :: p, by simpa [sub] using h1, by simpa [enclosing] using h2⟩
    · obtain ⟨p, h1, h2⟩ := ihe o h; exact ⟨.elseB :: p, by simpa [sub] using h1, by simpa [enclosing] using h2⟩
  | loop k id b ih =>
    intro o h
    simp only [occs, List.mem_map] at h
    obtain ⟨o', ho', rfl⟩ := h
    obtain ⟨p, h1, h2⟩ := ih o' ho'
    exact ⟨.body :: p, by simpa [sub] using h1, by simp [enclosing, h2]⟩

/-- `occs` lists exactly the `break` / `continue` leaves of the tree, each with the loops entered
on the way down to it. -/
theorem mem_occs_iff (s : S) (b : Bool) (ls : List Nat) :
    (b, ls) ∈ occs s ↔ ∃ p, sub s p = some (leafOf b) ∧ enclosing s p = ls := by
  constructor
  · intro h; exact path_of_mem_occs s (b, ls) h
  · rintro ⟨p, h1, rfl⟩; exact mem_occs_of_path s p b h1

theorem allInLoop_iff_paths (s : S) :
    AllInLoop s ↔ ∀ p b, sub s p = some (leafOf b) → enclosing s p ≠ [] := by
  constructor
  · intro h p b hp; exact h (b, enclosing s p) (mem_occs_of_path s p b hp)
  · intro h o ho
    obtain ⟨p, h1, h2⟩ := path_of_mem_occs s o ho
    rw [← h2]; exact h p o.1 h1

/-- Under `AllInLoop` the `filterMap` in `occurrences` drops nothing. -/
theorem occurrences_eq_map (s : S) (h : AllInLoop s) :
    occurrences s = (occs s).map fun o => (o.1, o.2.getLastD 0) := by
  unfold occurrences AllInLoop at *
  generalize occs s = l at h ⊢
  induction l with
  | nil => rfl
  | cons o l ih =>
    have ho : o.2 ≠ [] := h o (by simp)
    have ih' := ih (fun o' ho' => h o' (by simp [ho']))
    obtain ⟨b, ls⟩ := o
    cases ls with
    | nil => exact absurd rfl ho
    | cons x xs =>
      simp only [innermost] at ih' ⊢
      simp [List.getLast?_cons, ih']

/-! ### Wrapping -/

theorem validate_wraps {s w : S} (h : Wraps s w) :
    ∀ d, validate d s = false → validate d w = false := by
  induction h with
  | refl => intro d h; exact h
  | seqL b _ ih => intro d h; simp [validate, ih d h]
  | seqR a _ ih => intro d h; simp [validate, ih d h]
  | thenB e _ ih => intro d h; cases e <;> simp [validate, ih d h]
  | elseB t _ ih => intro d h; simp [validate, ih d h]

/-! ### Sanity checks of the line protocol (evaluated, not proved) -/

#guard run "f s i s b o w e c b" = "accept b0,c1,b1"
#guard run "f d s b s w c c" = "accept b1,c2,c1"
#guard run "s w o b" = "reject none"
#guard run "e b f c" = "reject none"
#guard run "o" = "accept -"
#guard run "s o" = "error"
#guard run "o o" = "error"
#guard run "x" = "error"

end Nsl.Flow
