import Nsl.Proofs.VecRows
/-!
# Vector core, part 7: the mutually dependent claims and the expression cases (`esim_succV`, `asim_succV`)

As in `SimExpr`, with the no-pointer invariant replaced by the shape invariant `FrTy`/`GTy`, every claim exporting
that its value has the shape of the annotation (`fits (shape (Expr.ty e)) v`), and a claim `StSimV` for stores.
-/
set_option linter.unusedSimpArgs false
namespace Nsl
namespace Vec
open Core VM CoreSem Lower Sim

def ESimV (M : Core.Module) (n : Nat) : Prop :=
  ∀ (ps : List (String × ITy)) (Γ : Map String Sh) (code : List Instr) (e : Expr) (fr : Frame) (g : Globals) (v : Val)
    (fr' : Frame) (g' : Globals),
    evalE M n e fr g = .val v fr' g' → okEV M ps Γ e = true → FrTy ps Γ fr → GTy M g →
    ∀ (k : Nat) (c : List Instr) (o : Opd) (k' q : Nat) (ρ : Map Nat Val),
      lowerE e k = (c, o, k') → At code q c →
      ∃ ρ', Steps (lowerModule M) code (q, vf ρ fr, g) (q + c.length, vf ρ' fr', g') ∧
        evalOpd (vf ρ' fr') o = .ok v ∧ fits (shape (Expr.ty e)) v = true ∧
        (∀ r, r < k → Map.get ρ' r = Map.get ρ r) ∧ FrTy ps Γ fr' ∧ GTy M g'

def ASimV (M : Core.Module) (n : Nat) : Prop :=
  ∀ (ps : List (String × ITy)) (Γ : Map String Sh) (code : List Instr) (as : Args) (fr : Frame) (g : Globals)
    (vs : List Val) (fr' : Frame) (g' : Globals),
    evalArgs M n as fr g = .vals vs fr' g' → okArgsV M ps Γ as = true → FrTy ps Γ fr → GTy M g →
    ∀ (k : Nat) (c : List Instr) (os : List Opd) (k' q : Nat) (ρ : Map Nat Val),
      lowerArgs as k = (c, os, k') → At code q c →
      ∃ ρ', Steps (lowerModule M) code (q, vf ρ fr, g) (q + c.length, vf ρ' fr', g') ∧
        OpdsEval (vf ρ' fr') os vs ∧ FitsArgs as vs ∧
        (∀ r, r < k → Map.get ρ' r = Map.get ρ r) ∧ FrTy ps Γ fr' ∧ GTy M g'

/-- Stores: `src` holds the value `w` (of the target's shape) in a register below the entry counter. -/
def StSimV (M : Core.Module) (n : Nat) : Prop :=
  ∀ (ps : List (String × ITy)) (Γ : Map String Sh) (code : List Instr) (lhs : Expr) (w : Val) (fr : Frame) (g : Globals)
    (u : Val) (fr' : Frame) (g' : Globals),
    storeTo M n lhs w fr g = .val u fr' g' → lhsForm lhs = true → okEV M ps Γ lhs = true →
    fits (shape (Expr.ty lhs)) w = true → FrTy ps Γ fr → GTy M g →
    ∀ (src : Opd) (k : Nat) (c : List Instr) (k' q : Nat) (ρ : Map Nat Val),
      lowerStore lhs src k = (c, k') → At code q c → evalOpd (vf ρ fr) src = .ok w → OpdBelow src k →
      ∃ ρ', Steps (lowerModule M) code (q, vf ρ fr, g) (q + c.length, vf ρ' fr', g') ∧
        (∀ r, r < k → Map.get ρ' r = Map.get ρ r) ∧ FrTy ps Γ fr' ∧ GTy M g'

def CSimV (M : Core.Module) (n : Nat) : Prop :=
  ∀ (name : String) (args : List Val) (g : Globals) (v : Val) (g' : Globals) (as : List Val),
    callFn M n name args g = .done v g' as → (∀ f, findFn M name = some f → ArgsFit f.params args) → GTy M g →
    ∃ D, callD (lowerModule M) D name args g = .done v g' as ∧
      (∀ f, findFn M name = some f → fits (shape f.ret) v = true) ∧ GTy M g'

/-! ## Helpers -/

theorem argsMatch_fit : ∀ (as : Args) (ps : List (String × ITy)) (vs : List Val), argsMatch as ps = true →
    FitsArgs as vs → ArgsFit ps vs
  | .nil, _, [], _, _ => by intro i p a _ ha; simp at ha
  | .nil, _, _ :: _, _, hf => by cases hf
  | .cons e rest, _, [], _, hf => by cases hf
  | .cons e rest, [], v :: vs, _, _ => by intro i p a hp; simp at hp
  | .cons e rest, p :: ps, v :: vs, hm, hf => by
    simp only [argsMatch, Bool.and_eq_true, beq_iff_eq] at hm
    intro i p' a hp ha
    cases i with
    | zero =>
      simp only [List.getElem?_cons_zero, Option.some.injEq] at hp ha
      subst hp; subst ha; rw [← hm.1]; exact hf.1
    | succ j =>
      simp only [List.getElem?_cons_succ] at hp ha
      exact argsMatch_fit rest ps vs hm.2 hf.2 j p' a hp ha

theorem okIdx_vec {ty bt it : ITy} (h : okIdx .vec ty bt it = true) :
    ∃ n, shape bt = .vec n ∧ shape ty = .atom ∧ it.isScalar = true := by
  unfold okIdx at h
  cases hb : shape bt <;> cases ht : shape ty <;> simp [hb, ht] at h
  exact ⟨_, rfl, rfl, h⟩

theorem okIdx_mat {ty bt it : ITy} (h : okIdx .mat ty bt it = true) :
    ∃ r c, shape bt = .mat r c ∧ shape ty = .vec c ∧ it.isScalar = true := by
  unfold okIdx at h
  cases hb : shape bt <;> cases ht : shape ty <;> simp [hb, ht] at h
  obtain ⟨rfl, h2⟩ := h
  exact ⟨_, _, rfl, rfl, h2⟩

theorem fits_shape_atom {ty : ITy} {v : Val} (hs : ty.isScalar = true) (h : isAtom v = true) :
    fits (shape ty) v = true := by
  rw [isScalar_shape hs, fits_atom]; exact h

end Vec
end Nsl
