import Nsl.Model.Opt
import Nsl.Proofs.StepLemmas
/-!
# Facts about the optimiser model: what is removed, what is kept, why a rewiring is justified locally
-/
namespace Nsl
namespace Opt
open VM

/-- Value of a constant operand. -/
def constVal : Opd → Option Val
  | .cInt i => some (.int i)
  | .cFlt f => some (.flt f)
  | .ref _ => none

theorem evalOpd_const {fr : Frame} {o : Opd} {v : Val} (h : constVal o = some v) : evalOpd fr o = .ok v := by
  cases o <;> simp [constVal] at h <;> subst h <;> rfl

/-- Folding a cast of a constant gives exactly the value the VM's `CAST` computes. -/
theorem foldCast_sound {ty : ITy} {o c : Opd} (h : foldCast ty o = some c) :
    ∃ x y, constVal o = some x ∧ constVal c = some y ∧ castExec ty x = .ok y := by
  unfold foldCast at h
  split at h
  all_goals first
    | (simp only [Option.some.injEq] at h; subst h
       refine ⟨_, _, rfl, rfl, ?_⟩
       simp [castExec, castScalar])
    | (split at h
       · simp only [Option.some.injEq] at h; subst h
         refine ⟨_, _, rfl, rfl, ?_⟩
         simp_all [castExec, castScalar, bind, Except.bind]
       · cases h)
    | cases h

/-! ## `scan`: only decided instructions are removed, everything else is kept in order -/

/-- An instruction that a pass may remove: a cast or a load. -/
def removable : Instr → Bool
  | .cast _ _ _ => true
  | .load _ _ _ _ => true
  | _ => false

theorem ccDecide_removable {prev : Option Instr} {ins : Instr} {σ : Subst} {d : Nat} {o : Opd}
    (h : ccDecide prev ins σ = some (d, o)) : ∃ ty a, ins = .cast d ty a ∧ foldCast ty a = some o := by
  cases ins <;> simp [ccDecide] at h
  obtain ⟨hc, rfl⟩ := h
  exact ⟨_, _, rfl, hc⟩

theorem lasDecide_removable {prev : Option Instr} {ins : Instr} {σ : Subst} {d : Nat} {o : Opd}
    (h : lasDecide prev ins σ = some (d, o)) :
    ∃ ty sc var sc' src, ins = .load d ty sc var ∧ prev = some (.store sc' var src) ∧ o = substOpd σ src := by
  cases ins <;> simp [lasDecide] at h
  rename_i d' ty sc var
  cases prev with
  | none => simp at h
  | some p =>
    cases p <;> simp at h
    rename_i sc' var' src
    obtain ⟨hv, rfl, rfl⟩ := h
    subst hv
    exact ⟨_, _, _, _, _, rfl, rfl, rfl⟩

/-- The kept instructions are a sublist of the input. -/
theorem scan_sublist (decide : Option Instr → Instr → Subst → Option (Nat × Opd)) :
    ∀ (code : List Instr) (prev : Option Instr) (σ : Subst), (scan decide prev code σ).1.Sublist code := by
  intro code
  induction code with
  | nil => intro prev σ; simp [scan]
  | cons ins rest ih =>
    intro prev σ
    simp only [scan]
    cases hd : decide prev ins σ with
    | some p =>
      obtain ⟨d, o⟩ := p
      exact (ih _ _).cons _
    | none =>
      simp only
      exact (ih _ _).cons_cons _

/-- Every instruction the pass drops was decided (hence is a foldable cast / a forwarded load). -/
theorem scan_keeps (decide : Option Instr → Instr → Subst → Option (Nat × Opd))
    (hdec : ∀ prev ins σ p, decide prev ins σ = some p → removable ins = true) :
    ∀ (code : List Instr) (prev : Option Instr) (σ : Subst),
      code.filter (fun i => !removable i) = (scan decide prev code σ).1.filter (fun i => !removable i) := by
  intro code
  induction code with
  | nil => intro prev σ; simp [scan]
  | cons ins rest ih =>
    intro prev σ
    simp only [scan]
    cases hd : decide prev ins σ with
    | some p =>
      have := hdec prev ins σ p hd
      simp only [List.filter_cons, this, Bool.not_true, Bool.false_eq_true, if_false]
      exact ih _ _
    | none =>
      simp only [List.filter_cons]
      rw [ih (some ins) σ]

theorem removable_substInstr (σ : Subst) (i : Instr) : removable (substInstr σ i) = removable i := by
  cases i <;> first | rfl | (rename_i o; cases o <;> rfl)

theorem filter_map_subst (σ : Subst) : ∀ (l : List Instr),
    (l.map (substInstr σ)).filter (fun i => !removable i) = (l.filter (fun i => !removable i)).map (substInstr σ)
  | [] => rfl
  | i :: rest => by
    simp only [List.map_cons, List.filter_cons, removable_substInstr]
    split
    · simp only [List.map_cons, filter_map_subst σ rest]
    · exact filter_map_subst σ rest

/-- Labels, branches, stores, calls, returns … are never removed by a pass: the optimised code has the same
non-removable instructions in the same order, up to the rewiring of operands. -/
theorem pass_keeps (decide : Option Instr → Instr → Subst → Option (Nat × Opd))
    (hdec : ∀ prev ins σ p, decide prev ins σ = some p → removable ins = true) (code : List Instr) :
    ∃ σ, (pass decide code).filter (fun i => !removable i) =
      (code.filter (fun i => !removable i)).map (substInstr σ) := by
  unfold pass
  rcases hs : scan decide none code [] with ⟨out, σ⟩
  refine ⟨σ, ?_⟩
  have hk := scan_keeps decide hdec code none []
  rw [hs] at hk
  simp only
  rw [hk]
  exact filter_map_subst σ out

theorem ccDecide_dec : ∀ prev ins σ p, ccDecide prev ins σ = some p → removable ins = true := by
  intro prev ins σ p h
  obtain ⟨d, o⟩ := p
  obtain ⟨ty, a, rfl, _⟩ := ccDecide_removable h
  rfl

theorem lasDecide_dec : ∀ prev ins σ p, lasDecide prev ins σ = some p → removable ins = true := by
  intro prev ins σ p h
  obtain ⟨d, o⟩ := p
  obtain ⟨ty, sc, var, sc', src, rfl, _, _⟩ := lasDecide_removable h
  rfl

/-! ## Why forwarding is justified: the load reads what the store has just written -/

theorem readRoot_writeRoot {fr : Frame} {g : Globals} {r : Root} {v : Val} {fr1 : Frame} {g1 : Globals}
    (h : writeRoot fr g r v = .ok (fr1, g1)) : readRoot fr1 g1 r = .ok v := by
  cases r with
  | loc n =>
    simp only [writeRoot, Except.ok.injEq, Prod.mk.injEq] at h
    obtain ⟨rfl, rfl⟩ := h
    simp [readRoot]
  | arg i =>
    simp only [writeRoot] at h
    by_cases hi : i < fr.args.length
    · rw [if_pos hi] at h
      simp only [Except.ok.injEq, Prod.mk.injEq] at h
      obtain ⟨rfl, rfl⟩ := h
      simp [readRoot, hi]
    · rw [if_neg hi] at h; cases h
  | glob n =>
    simp only [writeRoot, Except.ok.injEq, Prod.mk.injEq] at h
    obtain ⟨rfl, rfl⟩ := h
    simp [readRoot]

/-- A store followed by a load of the same variable (same scope, non-aggregate type): the register of the load
receives exactly the value of the stored operand, and nothing else changes. -/
theorem store_load_forward (cf : String → List Val → Globals → Res) (code : List Instr) (pc : Nat) (fr : Frame)
    (g : Globals) (sc : Scope) (var : VarKey) (src : Opd) (d : Nat) (ty : ITy)
    (hs : code[pc]? = some (.store sc var src)) (hl : code[pc + 1]? = some (.load d ty sc var))
    (hty : ty.isAggregate = false) (pc1 : Nat) (fr1 : Frame) (g1 : Globals)
    (h1 : stepI cf code pc fr g = .next pc1 fr1 g1) :
    ∃ v, evalOpd fr src = .ok v ∧ pc1 = pc + 1 ∧ fr1.regs = fr.regs ∧
      stepI cf code (pc + 1) fr1 g1 = .next (pc + 2) (setReg fr1 d v) g1 := by
  simp only [stepI, hs, liftE] at h1
  cases hroot : rootOf sc var with
  | error e => simp [hroot] at h1
  | ok root =>
    simp only [hroot] at h1
    cases hv : evalOpd fr src with
    | error e => simp [hv] at h1
    | ok v =>
      simp only [hv] at h1
      have hnp : ∀ r p, v ≠ .ptr r p := by
        intro r p hvp; subst hvp; simp at h1
      cases hw : writeRoot fr g root v with
      | error e =>
        cases v <;> simp_all
      | ok res =>
        obtain ⟨fr2, g2⟩ := res
        have h1' : StepOut.next (pc + 1) fr2 g2 = StepOut.next pc1 fr1 g1 := by
          cases v <;> simp_all
        simp only [StepOut.next.injEq] at h1'
        obtain ⟨rfl, rfl, rfl⟩ := h1'
        have hregs : fr2.regs = fr.regs := by
          cases root <;> simp only [writeRoot] at hw
          · simp only [Except.ok.injEq, Prod.mk.injEq] at hw; obtain ⟨rfl, _⟩ := hw; rfl
          · split at hw
            · simp only [Except.ok.injEq, Prod.mk.injEq] at hw; obtain ⟨rfl, _⟩ := hw; rfl
            · cases hw
          · simp only [Except.ok.injEq, Prod.mk.injEq] at hw; obtain ⟨rfl, _⟩ := hw; rfl
        refine ⟨v, rfl, rfl, hregs, ?_⟩
        exact step_load hl hroot (readRoot_writeRoot hw) hty

end Opt
end Nsl
