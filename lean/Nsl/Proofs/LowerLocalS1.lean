import Nsl.Proofs.LowerLocal2
import Nsl.Proofs.StorShape
/-!
# The lowering of the STORAGE core produces block-local, single-definition code — part 1: expressions

Same invariants as `LowerLocal1` (`SLocal`, `ELocal`), now for `okES Γ` expressions:
* `lowerE_localS`   – value expressions, including element / field reads `a[i]…[j]`, `s.f`, `a[i].f`;
* `lowerP_local`    – access chains of aggregate type lowered for their alias (`placeRank Γ e = some d`);
* `lowerStore_localS` – assignment targets (`store`, `storeArr`, `storeMem`): the code of a target reads the assigned
  operand `v`, which is defined by the code `c0` BEFORE it, so the lemma is stated for `c0 ++ cs`.
Every auxiliary instruction (`loadArr`, `loadMem`, `storeArr`, `storeMem`) reads operands produced earlier in the same
label-free code and (if it defines anything) takes the fresh number, so `SLocal.snoc` applies everywhere.
-/
namespace Nsl
namespace Lower
open Core Opt WF

/-- Label-free code followed by one instruction that reads what the code defines and defines the fresh number `k1`:
expression code with result operand `.ref k1`. -/
theorem ELocal.snocDef {k k1 : Nat} {c : List Instr} {ins : Instr} (hc : SLocal k c k1) (hn : NoLabels c)
    (hl : labelOf ins = none) (hu : ∀ r ∈ usesOf ins, r ∈ defs c) (hd : defOf ins = some k1) :
    ELocal k (c ++ [ins]) (.ref k1) (k1 + 1) := by
  refine ⟨SLocal.snoc hc hn hl hu ?_ (by omega), hn.snoc hl, ?_⟩
  · intro d hd'
    rw [hd] at hd'
    cases hd'
    omega
  · intro x hx
    simp only [opdRefs, List.mem_cons, List.not_mem_nil, or_false] at hx
    subst hx
    exact defs_snoc_def hd

/-- A single `load`. -/
theorem ELocal.load (k : Nat) (ty : ITy) (sc : Scope) (key : VarKey) :
    ELocal k [.load k ty sc key] (.ref k) (k + 1) := by
  have := ELocal.snocDef (ins := .load k ty sc key) (SLocal.nil k) NoLabels.nil rfl (by simp [usesOf]) rfl
  simpa using this

mutual
  theorem lowerE_localS (Γ : Env) : ∀ (e : Expr), okES Γ e = true → ∀ (k : Nat) (c : List Instr) (o : Opd) (k' : Nat),
      lowerE e k = (c, o, k') → ELocal k c o k'
    | .litI i, _, k, c, o, k', h => by
      simp only [lowerE, Prod.mk.injEq] at h
      obtain ⟨rfl, rfl, rfl⟩ := h
      exact ⟨SLocal.nil k, NoLabels.nil, by simp [opdRefs]⟩
    | .litF f, _, k, c, o, k', h => by
      simp only [lowerE, Prod.mk.injEq] at h
      obtain ⟨rfl, rfl, rfl⟩ := h
      exact ⟨SLocal.nil k, NoLabels.nil, by simp [opdRefs]⟩
    | .var sc key ty, _, k, c, o, k', h => by
      simp only [lowerE, Prod.mk.injEq] at h
      obtain ⟨rfl, rfl, rfl⟩ := h
      exact ELocal.load k ty sc key
    | .bin op ty l r, hok, k, c, o, k', h => by
      simp only [okES, Bool.and_eq_true] at hok
      obtain ⟨⟨⟨⟨hty, hl⟩, hr⟩, hokl⟩, hokr⟩ := hok
      rcases hel : lowerE l k with ⟨cl, vl, k1⟩
      rcases her : lowerE r k1 with ⟨cr, vr, k2⟩
      have il := lowerE_localS Γ l hokl k cl vl k1 hel
      have ir := lowerE_localS Γ r hokr k1 cr vr k2 her
      have hml : (Expr.ty l).isMatrix = false := by cases hh : Expr.ty l <;> simp_all [ITy.isScalar, ITy.isMatrix]
      have hmr : (Expr.ty r).isMatrix = false := by cases hh : Expr.ty r <;> simp_all [ITy.isScalar, ITy.isMatrix]
      simp only [lowerE, hel, her, hml, hmr, Bool.false_and, Bool.and_false, Bool.false_eq_true, if_false,
        Prod.mk.injEq, mkBin_scalar' _ _ _ _ _ _ _ hty] at h
      obtain ⟨rfl, rfl, rfl⟩ := h
      refine ELocal.snocDef (il.sl.append ir.sl) (NoLabels.append il.noLab ir.noLab) rfl ?_ rfl
      intro x hx
      simp only [usesOf, List.mem_append] at hx
      rw [defs_append, List.mem_append]
      rcases hx with hx | hx
      · exact Or.inl (il.opd x hx)
      · exact Or.inr (ir.opd x hx)
    | .cast ty e, hok, k, c, o, k', h => by
      simp only [okES, Bool.and_eq_true] at hok
      rcases he : lowerE e k with ⟨c1, v1, k1⟩
      have ie := lowerE_localS Γ e hok.2 k c1 v1 k1 he
      simp only [lowerE, he, Prod.mk.injEq] at h
      obtain ⟨rfl, rfl, rfl⟩ := h
      exact ELocal.snocDef ie.sl ie.noLab rfl (fun x hx => ie.opd x (by simpa [usesOf] using hx)) rfl
    | .assign lhs rhs, hok, k, c, o, k', h => by
      simp only [okES, Bool.and_eq_true] at hok
      rcases he : lowerE rhs k with ⟨c1, v1, k1⟩
      rcases hs : lowerStore lhs v1 k1 with ⟨c2, k2⟩
      have ie := lowerE_localS Γ rhs hok.2 k c1 v1 k1 he
      obtain ⟨sl, nl⟩ := lowerStore_localS Γ lhs hok.1.1 hok.1.2 v1 k k1 c1 c2 k2 ie.sl ie.noLab ie.opd hs
      simp only [lowerE, he, hs, Prod.mk.injEq] at h
      obtain ⟨rfl, rfl, rfl⟩ := h
      refine ⟨sl, nl, ?_⟩
      intro x hx
      rw [defs_append]
      exact List.mem_append_left _ (ie.opd x hx)
    | .affix post inc x, hok, k, c, o, k', h => by
      simp only [okES, Bool.and_eq_true] at hok
      rcases he : lowerE x k with ⟨c1, v1, k1⟩
      rcases hs : lowerStore x (.ref k1) (k1 + 1) with ⟨c2, k2⟩
      have ie := lowerE_localS Γ x hok.2 k c1 v1 k1 he
      have i1 := ELocal.snocDef (ins := Instr.bin k1 (.s (if inc then .add else .sub)) (Expr.ty x) v1 (.cInt 1))
        ie.sl ie.noLab rfl (fun r hr => ie.opd r (by simpa [usesOf, opdRefs] using hr)) rfl
      obtain ⟨sl, nl⟩ := lowerStore_localS Γ x hok.1 hok.2 (.ref k1) k (k1 + 1) _ c2 k2 i1.sl i1.noLab i1.opd hs
      simp only [lowerE, he, hs, Prod.mk.injEq] at h
      obtain ⟨rfl, rfl, rfl⟩ := h
      refine ⟨sl, nl, ?_⟩
      intro r hr
      rw [defs_append]
      refine List.mem_append_left _ ?_
      cases post
      · exact i1.opd r (by simpa using hr)
      · exact defs_snoc_mem (ie.opd r (by simpa using hr))
    | .call fn ty args, hok, k, c, o, k', h => by
      simp only [okES] at hok
      rcases ha : lowerArgs args k with ⟨c1, vs, k1⟩
      obtain ⟨isl, inl, iop⟩ := lowerArgs_localS Γ args hok k c1 vs k1 ha
      simp only [lowerE, ha, Prod.mk.injEq] at h
      obtain ⟨rfl, rfl, rfl⟩ := h
      exact ELocal.snocDef isl inl rfl (fun x hx => iop x (by simpa [usesOf] using hx)) rfl
    | .index kd ty base idx, hok, k, c, o, k', h => by
      obtain ⟨rfl, _, hb, hi⟩ := okES_index_inv hok
      rcases heb : lowerE base k with ⟨cb, vb, k1⟩
      rcases hei : lowerE idx k1 with ⟨ci, vi, k2⟩
      have ib := lowerP_local Γ base 1 hb k cb vb k1 heb
      have ii := lowerE_localS Γ idx hi k1 ci vi k2 hei
      simp only [lowerE, heb, hei, Prod.mk.injEq] at h
      obtain ⟨rfl, rfl, rfl⟩ := h
      refine ELocal.snocDef (ib.sl.append ii.sl) (NoLabels.append ib.noLab ii.noLab) rfl ?_ rfl
      intro x hx
      simp only [usesOf, List.mem_append] at hx
      rw [defs_append, List.mem_append]
      rcases hx with hx | hx
      · exact Or.inl (ib.opd x hx)
      · exact Or.inr (ii.opd x hx)
    | .member ty base f, hok, k, c, o, k', h => by
      obtain ⟨_, hb⟩ := okES_member_inv hok
      rcases heb : lowerE base k with ⟨cb, vb, k1⟩
      have ib := lowerP_local Γ base 1 hb k cb vb k1 heb
      simp only [lowerE, heb, Prod.mk.injEq] at h
      obtain ⟨rfl, rfl, rfl⟩ := h
      exact ELocal.snocDef ib.sl ib.noLab rfl (fun x hx => ib.opd x (by simpa [usesOf] using hx)) rfl
    | .swizzle _ _ _, hok, _, _, _, _, _ => by simp [okES] at hok
    | .construct _ _, hok, _, _, _, _, _ => by simp [okES] at hok
  theorem lowerArgs_localS (Γ : Env) : ∀ (as : Args), okArgsS Γ as = true → ∀ (k : Nat) (c : List Instr)
      (os : List Opd) (k' : Nat), lowerArgs as k = (c, os, k') →
      SLocal k c k' ∧ NoLabels c ∧ ∀ r ∈ opdsRefs os, r ∈ defs c
    | .nil, _, k, c, os, k', h => by
      simp only [lowerArgs, Prod.mk.injEq] at h
      obtain ⟨rfl, rfl, rfl⟩ := h
      exact ⟨SLocal.nil k, NoLabels.nil, by simp [opdsRefs]⟩
    | .cons e rest, hok, k, c, os, k', h => by
      simp only [okArgsS, Bool.and_eq_true] at hok
      rcases he : lowerE e k with ⟨c1, v1, k1⟩
      rcases hr : lowerArgs rest k1 with ⟨c2, vs, k2⟩
      have ie := lowerE_localS Γ e hok.1 k c1 v1 k1 he
      obtain ⟨rsl, rnl, rop⟩ := lowerArgs_localS Γ rest hok.2 k1 c2 vs k2 hr
      simp only [lowerArgs, he, hr, Prod.mk.injEq] at h
      obtain ⟨rfl, rfl, rfl⟩ := h
      refine ⟨ie.sl.append rsl, NoLabels.append ie.noLab rnl, ?_⟩
      intro x hx
      simp only [opdsRefs, List.mem_append] at hx
      rw [defs_append, List.mem_append]
      rcases hx with hx | hx
      · exact Or.inl (ie.opd x hx)
      · exact Or.inr (rop x hx)
  /-- Access chains lowered for their alias. -/
  theorem lowerP_local (Γ : Env) : ∀ (e : Expr) (d : Nat), placeRank Γ e = some d → ∀ (k : Nat) (c : List Instr)
      (o : Opd) (k' : Nat), lowerE e k = (c, o, k') → ELocal k c o k'
    | .var sc key ty, _, _, k, c, o, k', h => by
      simp only [lowerE, Prod.mk.injEq] at h
      obtain ⟨rfl, rfl, rfl⟩ := h
      exact ELocal.load k ty sc key
    | .index kd ty base idx, d, hp, k, c, o, k', h => by
      obtain ⟨rfl, hb, _, hi, _⟩ := placeRank_index_inv hp
      rcases heb : lowerE base k with ⟨cb, vb, k1⟩
      rcases hei : lowerE idx k1 with ⟨ci, vi, k2⟩
      have ib := lowerP_local Γ base (d + 1) hb k cb vb k1 heb
      have ii := lowerE_localS Γ idx hi k1 ci vi k2 hei
      simp only [lowerE, heb, hei, Prod.mk.injEq] at h
      obtain ⟨rfl, rfl, rfl⟩ := h
      refine ELocal.snocDef (ib.sl.append ii.sl) (NoLabels.append ib.noLab ii.noLab) rfl ?_ rfl
      intro x hx
      simp only [usesOf, List.mem_append] at hx
      rw [defs_append, List.mem_append]
      rcases hx with hx | hx
      · exact Or.inl (ib.opd x hx)
      · exact Or.inr (ii.opd x hx)
    | .litI _, _, hp, _, _, _, _, _ => by simp [placeRank] at hp
    | .litF _, _, hp, _, _, _, _, _ => by simp [placeRank] at hp
    | .bin _ _ _ _, _, hp, _, _, _, _, _ => by simp [placeRank] at hp
    | .cast _ _, _, hp, _, _, _, _, _ => by simp [placeRank] at hp
    | .assign _ _, _, hp, _, _, _, _, _ => by simp [placeRank] at hp
    | .affix _ _ _, _, hp, _, _, _, _, _ => by simp [placeRank] at hp
    | .call _ _ _, _, hp, _, _, _, _, _ => by simp [placeRank] at hp
    | .member _ _ _, _, hp, _, _, _, _, _ => by simp [placeRank] at hp
    | .swizzle _ _ _, _, hp, _, _, _, _, _ => by simp [placeRank] at hp
    | .construct _ _, _, hp, _, _, _, _, _ => by simp [placeRank] at hp
  /-- Assignment targets: `c0` is the (label-free) code before the target, which defines the stored operand `v`. -/
  theorem lowerStore_localS (Γ : Env) : ∀ (e : Expr), isLhs e = true → okES Γ e = true → ∀ (v : Opd) (k0 k : Nat)
      (c0 cs : List Instr) (k' : Nat), SLocal k0 c0 k → NoLabels c0 → (∀ r ∈ opdRefs v, r ∈ defs c0) →
      lowerStore e v k = (cs, k') → SLocal k0 (c0 ++ cs) k' ∧ NoLabels (c0 ++ cs)
    | .var sc key ty, _, _, v, k0, k, c0, cs, k', h0, n0, hv, h => by
      simp only [lowerStore, Prod.mk.injEq] at h
      obtain ⟨rfl, rfl⟩ := h
      exact ⟨SLocal.snoc h0 n0 rfl (by simpa [usesOf] using hv) (by simp [defOf]) (by omega), n0.snoc rfl⟩
    | .index kd ty base idx, _, hok, v, k0, k, c0, cs, k', h0, n0, hv, h => by
      obtain ⟨rfl, _, hb, hi⟩ := okES_index_inv hok
      rcases heb : lowerE base k with ⟨cb, vb, k1⟩
      rcases hei : lowerE idx k1 with ⟨ci, vi, k2⟩
      have ib := lowerP_local Γ base 1 hb k cb vb k1 heb
      have ii := lowerE_localS Γ idx hi k1 ci vi k2 hei
      simp only [lowerStore, heb, hei, Prod.mk.injEq] at h
      obtain ⟨rfl, rfl⟩ := h
      have nl : NoLabels ((c0 ++ cb) ++ ci) := NoLabels.append (NoLabels.append n0 ib.noLab) ii.noLab
      have := SLocal.snoc (ins := .storeArr vb vi v) (k2 := k2 + 1) ((h0.append ib.sl).append ii.sl) nl rfl
        (by intro x hx
            simp only [usesOf, List.mem_append] at hx
            simp only [defs_append, List.mem_append]
            rcases hx with (hx | hx) | hx
            · exact Or.inl (Or.inr (ib.opd x hx))
            · exact Or.inr (ii.opd x hx)
            · exact Or.inl (Or.inl (hv x hx)))
        (by simp [defOf]) (by omega)
      exact ⟨by simpa [List.append_assoc] using this, by simpa [List.append_assoc] using nl.snoc (ins := .storeArr vb vi v) rfl⟩
    | .member ty base f, _, hok, v, k0, k, c0, cs, k', h0, n0, hv, h => by
      obtain ⟨_, hb⟩ := okES_member_inv hok
      rcases heb : lowerE base k with ⟨cb, vb, k1⟩
      have ib := lowerP_local Γ base 1 hb k cb vb k1 heb
      simp only [lowerStore, heb, Prod.mk.injEq] at h
      obtain ⟨rfl, rfl⟩ := h
      have nl : NoLabels (c0 ++ cb) := NoLabels.append n0 ib.noLab
      have := SLocal.snoc (ins := .storeMem vb f v) (k2 := k1 + 1) (h0.append ib.sl) nl rfl
        (by intro x hx
            simp only [usesOf, List.mem_append] at hx
            simp only [defs_append, List.mem_append]
            rcases hx with hx | hx
            · exact Or.inr (ib.opd x hx)
            · exact Or.inl (hv x hx))
        (by simp [defOf]) (by omega)
      exact ⟨by simpa [List.append_assoc] using this, by simpa [List.append_assoc] using nl.snoc (ins := .storeMem vb f v) rfl⟩
    | .litI _, hl, _, _, _, _, _, _, _, _, _, _, _ => by simp [isLhs] at hl
    | .litF _, hl, _, _, _, _, _, _, _, _, _, _, _ => by simp [isLhs] at hl
    | .bin _ _ _ _, hl, _, _, _, _, _, _, _, _, _, _, _ => by simp [isLhs] at hl
    | .cast _ _, hl, _, _, _, _, _, _, _, _, _, _, _ => by simp [isLhs] at hl
    | .assign _ _, hl, _, _, _, _, _, _, _, _, _, _, _ => by simp [isLhs] at hl
    | .affix _ _ _, hl, _, _, _, _, _, _, _, _, _, _, _ => by simp [isLhs] at hl
    | .call _ _ _, hl, _, _, _, _, _, _, _, _, _, _, _ => by simp [isLhs] at hl
    | .swizzle _ _ _, hl, _, _, _, _, _, _, _, _, _, _, _ => by simp [isLhs] at hl
    | .construct _ _, hl, _, _, _, _, _, _, _, _, _, _, _ => by simp [isLhs] at hl
end

end Lower
end Nsl
