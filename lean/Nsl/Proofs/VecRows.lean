import Nsl.Proofs.VecBin
/-!
# Vector core, part 6: the unrolled row loops (`rowsMM`, `rowsMS`, `rowsSM`) compute `rowsZip` / `rowsMapR`
-/
set_option linter.unusedSimpArgs false
namespace Nsl
namespace Vec
open Core VM CoreSem Lower Sim

/-! ## The generic unrolled loop -/

/-- `rowCode n k1` is the code of row `n` numbered from `k1`; it defines `k1 + w` last. -/
def rowsGen (w : Nat) (rowCode : Nat → Nat → List Instr) : Nat → Nat → List Instr × List Opd × Nat
  | 0, k => ([], [], k)
  | n + 1, k =>
    let (code, rows, k1) := rowsGen w rowCode n k
    (code ++ rowCode n k1, rows ++ [.ref (k1 + w)], k1 + w + 1)

theorem OpdsEval.append {fr : Frame} : ∀ {os : List Opd} {vs : List Val} {os' : List Opd} {vs' : List Val},
    OpdsEval fr os vs → OpdsEval fr os' vs' → OpdsEval fr (os ++ os') (vs ++ vs')
  | [], [], _, _, _, h' => by simpa using h'
  | o :: os, v :: vs, _, _, h, h' => ⟨h.1, OpdsEval.append h.2 h'⟩
  | [], _ :: _, _, _, h, _ => by cases h
  | _ :: _, [], _, _, h, _ => by cases h

theorem rowsGen_sim (P : Program) {code : List Instr} {w : Nat} {rowCode : Nat → Nat → List Instr} {fr : Frame}
    {g : Globals} {ρ : Map Nat Val} (Z : List Val) (hZ : ∀ z ∈ Z, Val.isPtr z = false) (k : Nat)
    (H : ∀ (n : Nat) (hn : n < Z.length) (k1 : Nat) (ρ1 : Map Nat Val) (q1 : Nat), k ≤ k1 → At code q1 (rowCode n k1) →
      (∀ r, r < k → Map.get ρ1 r = Map.get ρ r) →
      ∃ ρ2, Steps P code (q1, vf ρ1 fr, g) (q1 + (rowCode n k1).length, vf ρ2 fr, g) ∧
        Map.get ρ2 (k1 + w) = some Z[n] ∧ ∀ r, r < k1 → Map.get ρ2 r = Map.get ρ1 r) :
    ∀ (n : Nat), n ≤ Z.length → ∀ (rc : List Instr) (rows : List Opd) (k' q : Nat),
      rowsGen w rowCode n k = (rc, rows, k') → At code q rc →
      ∃ ρ', Steps P code (q, vf ρ fr, g) (q + rc.length, vf ρ' fr, g) ∧ OpdsEval (vf ρ' fr) rows (Z.take n) ∧
        (∀ r, r < k → Map.get ρ' r = Map.get ρ r) ∧ k ≤ k' ∧ ∀ o ∈ rows, OpdBelow o k' := by
  intro n
  induction n with
  | zero =>
    intro _ rc rows k' q h hat
    simp only [rowsGen, Prod.mk.injEq] at h
    obtain ⟨rfl, rfl, rfl⟩ := h
    exact ⟨ρ, by simpa using Steps.refl _, by simp [OpdsEval], fun _ _ => rfl, Nat.le_refl _, by simp⟩
  | succ n ih =>
    intro hn rc rows k' q h hat
    rcases h0 : rowsGen w rowCode n k with ⟨c0, rows0, k0⟩
    simp only [rowsGen, h0, Prod.mk.injEq] at h
    obtain ⟨rfl, rfl, rfl⟩ := h
    obtain ⟨ρ0, s0, e0, f0, le0, b0⟩ := ih (by omega) c0 rows0 k0 q h0 hat.left
    obtain ⟨ρ2, s2, e2, f2⟩ := H n (by omega) k0 ρ0 (q + c0.length) le0 hat.right f0
    refine ⟨ρ2, ?_, ?_, ?_, by omega, ?_⟩
    · have := s0.trans s2
      simpa [Nat.add_assoc] using this
    · have hlt : n < Z.length := by omega
      have htake : Z.take (n + 1) = Z.take n ++ [Z[n]] := by
        rw [List.take_add_one, List.getElem?_eq_getElem hlt]; rfl
      rw [htake]
      refine OpdsEval.append (OpdsEval.frame f2 e0 b0) ?_
      exact ⟨⟨by simp [evalOpd, e2], hZ _ (List.getElem_mem hlt)⟩, trivial⟩
    · intro r hr
      rw [f2 r (by omega), f0 r hr]
    · intro o ho
      rcases List.mem_append.1 ho with ho | ho
      · exact (b0 o ho).mono (by omega)
      · simp only [List.mem_singleton] at ho; subst ho; simp only [OpdBelow]; omega

/-! ## Rows of the reference results -/

theorem rowsZip_get (o : SOp) (it : Bool) : ∀ (A B Z : List Val), rowsZip o it A B = .ok Z → ∀ i, i < Z.length →
    ∃ ai bi zi, A[i]? = some (.list ai) ∧ B[i]? = some (.list bi) ∧ zipBin o it ai bi = .ok zi ∧
      Z[i]? = some (.list zi) := by
  intro A
  induction A with
  | nil => intro B Z h i hi; simp [rowsZip] at h; subst h; simp at hi
  | cons x xr ih =>
    intro B Z h i hi
    cases B with
    | nil => simp [rowsZip] at h; subst h; simp at hi
    | cons y yr =>
      simp only [rowsZip, bind, Except.bind] at h
      cases hx : asList x with
      | error e => simp [hx] at h
      | ok xl =>
        simp only [hx] at h
        cases hy : asList y with
        | error e => simp [hy] at h
        | ok yl =>
          simp only [hy] at h
          cases hz : zipBin o it xl yl with
          | error e => simp [hz] at h
          | ok z =>
            simp only [hz] at h
            cases hr : rowsZip o it xr yr with
            | error e => simp [hr] at h
            | ok rest =>
              simp only [hr, Except.ok.injEq] at h
              subst h
              cases i with
              | zero =>
                exact ⟨xl, yl, z, by simp [asList_ok hx], by simp [asList_ok hy], hz, by simp⟩
              | succ j =>
                obtain ⟨ai, bi, zi, h1, h2, h3, h4⟩ := ih yr rest hr j (by simpa using hi)
                exact ⟨ai, bi, zi, by simpa using h1, by simpa using h2, h3, by simpa using h4⟩

theorem rowsMapR_get (o : SOp) (it : Bool) (s : Val) : ∀ (A Z : List Val), rowsMapR o it s A = .ok Z → ∀ i, i < Z.length →
    ∃ ai zi, A[i]? = some (.list ai) ∧ mapBinR o it s ai = .ok zi ∧ Z[i]? = some (.list zi) := by
  intro A
  induction A with
  | nil => intro Z h i hi; simp [rowsMapR] at h; subst h; simp at hi
  | cons x xr ih =>
    intro Z h i hi
    simp only [rowsMapR, bind, Except.bind] at h
    cases hx : asList x with
    | error e => simp [hx] at h
    | ok xl =>
      simp only [hx] at h
      cases hz : mapBinR o it s xl with
      | error e => simp [hz] at h
      | ok z =>
        simp only [hz] at h
        cases hr : rowsMapR o it s xr with
        | error e => simp [hr] at h
        | ok rest =>
          simp only [hr, Except.ok.injEq] at h
          subst h
          cases i with
          | zero => exact ⟨xl, z, by simp [asList_ok hx], hz, by simp⟩
          | succ j =>
            obtain ⟨ai, zi, h1, h3, h4⟩ := ih rest hr j (by simpa using hi)
            exact ⟨ai, zi, by simpa using h1, h3, by simpa using h4⟩

/-! ## One `matGet` with a constant row number -/

theorem matGet_row (P : Program) {code : List Instr} {q dst : Nat} {ty : ITy} {m : Opd} {n : Nat} {A : List Val}
    {x : Val} {ρ : Map Nat Val} {fr : Frame} {g : Globals}
    (hc : code[q]? = some (.matGet dst ty m (.cInt (n : Int)))) (hm : evalOpd (vf ρ fr) m = .ok (.list A))
    (hx : A[n]? = some x) :
    Steps P code (q, vf ρ fr, g) (q + 1, vf (Map.set ρ dst x) fr, g) := by
  have hlt : n < A.length := (List.getElem?_eq_some_iff.1 hx).1
  have hk : indexOf (.list A) (.int (n : Int)) = .ok n := by
    simp [indexOf, normIndex, hlt]
  have hget : getKey (.list A) (.idx n) = .ok x := by simp [getKey, hx]
  have hstep := step_matGet (cf := callD P 0) (g := g) hc hm rfl (i := .int n) (by simp [evalOpd]) rfl hk hget
  rw [setReg_vf] at hstep
  exact Steps.one 0 hstep

theorem allLists_of_fitsVec {c : Nat} {Z : List Val} (h : ∀ z ∈ Z, fitsVec c z = true) :
    (Z.all fun v => match v with | .list _ => true | _ => false) = true := by
  rw [List.all_eq_true]
  intro z hz
  obtain ⟨vs, rfl, _, _⟩ := fitsVec_inv (h z hz)
  rfl

theorem noPtr_of_fitsVec {c : Nat} {Z : List Val} (h : ∀ z ∈ Z, fitsVec c z = true) :
    ∀ z ∈ Z, Val.isPtr z = false := by
  intro z hz
  obtain ⟨vs, rfl, _, _⟩ := fitsVec_inv (h z hz)
  rfl

/-- Closing step of the three row-wise cases: the rows are in registers, `construct` builds the matrix. -/
theorem rows_finish (P : Program) {code : List Instr} {q k2 k3 : Nat} {ρ ρ' : Map Nat Val} {fr : Frame} {g : Globals}
    {rc : List Instr} {rows : List Opd} {Z : List Val} {s : Sc} {r c : Nat}
    (hZ : ∀ z ∈ Z, fitsVec c z = true)
    (hat : At code q (rc ++ [.construct k3 (.mat s r c) rows]))
    (s0 : Steps P code (q, vf ρ fr, g) (q + rc.length, vf ρ' fr, g)) (e0 : OpdsEval (vf ρ' fr) rows Z)
    (f0 : ∀ r, r < k2 → Map.get ρ' r = Map.get ρ r) (le : k2 ≤ k3) :
    TailOK P code q k2 ρ fr g (.list Z) (rc ++ [.construct k3 (.mat s r c) rows], .ref k3, k3 + 1) := by
  have hcons : constructExec (.mat s r c) Z = .ok (.list Z) := by
    simp only [constructExec]
    rw [if_pos]
    rw [List.all_eq_true]
    intro z hz
    obtain ⟨vs, rfl, _, _⟩ := fitsVec_inv (hZ z hz)
    rfl
  have hstep := step_construct (cf := callD P 0) (g := g) hat.right.head e0 hcons
  rw [setReg_vf] at hstep
  refine ⟨Map.set ρ' k3 (.list Z), ?_, by simp [evalOpd], ?_⟩
  · have := s0.trans (Steps.one 0 hstep)
    simpa [Nat.add_assoc] using this
  · intro r' hr'
    rw [Map.get_set_ne _ _ _ _ (by omega), f0 r' hr']

/-! ## `M op M` -/

def rowMM (op : BOp) (lt rt resT : ITy) (l r : Opd) (n k1 : Nat) : List Instr :=
  [ .matGet k1 (rowType lt) l (.cInt (n : Int)), .matGet (k1 + 1) (rowType rt) r (.cInt (n : Int)),
    mkBin (k1 + 2) op (rowType resT) (.ref k1) (rowType lt) (.ref (k1 + 1)) (rowType rt) ]

theorem rowsMM_eq (op : BOp) (lt rt resT : ITy) (l r : Opd) : ∀ (n k : Nat),
    rowsMM op lt rt resT l r n k = rowsGen 2 (rowMM op lt rt resT l r) n k := by
  intro n
  induction n with
  | zero => intro k; rfl
  | succ n ih => intro k; simp only [rowsMM, rowsGen, ih, rowMM]

theorem bin_tail_mmRow (P : Program) {code : List Instr} {op : BOp} {s1 s2 s3 : Sc} {r c : Nat} {a b z : Val}
    {vl vr : Opd} {k2 q : Nat} {ρ : Map Nat Val} {fr : Frame} {g : Globals} (hop : op ≠ .mul)
    (ha : fits (.mat r c) a = true) (hb : fits (.mat r c) b = true)
    (hsem : binSem op (.mat s3 r c) (.mat s1 r c) (.mat s2 r c) a b = .ok z)
    (hevl : evalOpd (vf ρ fr) vl = .ok a) (hevr : evalOpd (vf ρ fr) vr = .ok b)
    (hbl : OpdBelow vl k2) (hbr : OpdBelow vr k2)
    (hat : At code q (binTail op (.mat s3 r c) (.mat s1 r c) (.mat s2 r c) vl vr k2).1) :
    TailOK P code q k2 ρ fr g z (binTail op (.mat s3 r c) (.mat s1 r c) (.mat s2 r c) vl vr k2) := by
  obtain ⟨A, rfl, hAl, hAr⟩ := fits_mat_inv ha
  obtain ⟨B, rfl, hBl, hBr⟩ := fits_mat_inv hb
  have hop' : (op == .mul) = false := by simpa using hop
  simp only [binSem, ITy.isScalar, ITy.isVector, ITy.isMatrix, asList, bind, Except.bind, Bool.and_self,
    Bool.false_and, Bool.and_false, Bool.true_and, Bool.false_eq_true, if_false, if_true, hop'] at hsem
  cases hz : rowsZip op.toSOp (scIsInt (.mat s3 r c)) A B with
  | error e => simp [hz] at hsem
  | ok Z =>
    simp only [hz, Except.ok.injEq] at hsem
    subst hsem
    obtain ⟨hZl, hZr⟩ := rowsZip_typed _ _ c _ _ _ hAr hBr hz
    rcases hrm : rowsMM op (.mat s1 r c) (.mat s2 r c) (.mat s3 r c) vl vr r k2 with ⟨rc, rows, k3⟩
    have ht : binTail op (.mat s3 r c) (.mat s1 r c) (.mat s2 r c) vl vr k2 =
        (rc ++ [.construct k3 (.mat s3 r c) rows], .ref k3, k3 + 1) := by
      simp [binTail, ITy.isMatrix, hop', rowCount, hrm]
    rw [ht] at hat ⊢
    rw [rowsMM_eq] at hrm
    have H : ∀ (n : Nat) (hn : n < Z.length) (k1 : Nat) (ρ1 : Map Nat Val) (q1 : Nat), k2 ≤ k1 →
        At code q1 (rowMM op (.mat s1 r c) (.mat s2 r c) (.mat s3 r c) vl vr n k1) →
        (∀ r, r < k2 → Map.get ρ1 r = Map.get ρ r) →
        ∃ ρ2, Steps P code (q1, vf ρ1 fr, g)
            (q1 + (rowMM op (.mat s1 r c) (.mat s2 r c) (.mat s3 r c) vl vr n k1).length, vf ρ2 fr, g) ∧
          Map.get ρ2 (k1 + 2) = some Z[n] ∧ ∀ r, r < k1 → Map.get ρ2 r = Map.get ρ1 r := by
      intro n hn k1 ρ1 q1 hk1 hat1 hfr
      obtain ⟨an, bn, zn, hA, hB, hzip, hZn⟩ := rowsZip_get _ _ _ _ _ hz n hn
      have hZn' : Z[n] = .list zn := (List.getElem?_eq_some_iff.1 hZn).2
      have hmk : mkBin (k1 + 2) op (.vec s3 c) (.ref k1) (.vec s1 c) (.ref (k1 + 1))
          (.vec s2 c) = .bin (k1 + 2) (.v op.toSOp) (.vec s3 c) (.ref k1) (.ref (k1 + 1)) := by
        simp [mkBin, fromOperation, ITy.isScalar, ITy.isVector]
      simp only [rowMM, rowType, hmk] at hat1 ⊢
      have st1 := matGet_row P (g := g) (fr := fr) hat1.head (evalOpd_frame hevl hbl hfr) hA
      have hfr1 : ∀ r, r < k2 → Map.get (Map.set ρ1 k1 (.list an)) r = Map.get ρ r := by
        intro r' hr'; rw [Map.get_set_ne _ _ _ _ (by omega), hfr r' hr']
      have st2 := matGet_row P (g := g) (fr := fr) hat1.tail.head (evalOpd_frame hevr hbr hfr1) hB
      have st3 := one_bin P (g := g) (fr := fr) (ρ := Map.set (Map.set ρ1 k1 (.list an)) (k1 + 1) (.list bn))
        (dst := k1 + 2) (o := .v op.toSOp) (ty := .vec s3 c) (x := .ref k1) (y := .ref (k1 + 1))
        (a := .list an) (b := .list bn) (z := .list zn) hat1.tail.tail.head
        (evalOpd_vf_ref _ _ k1 _ (by rw [Map.get_set_ne _ _ _ _ (by omega), Map.get_set_eq]))
        rfl (evalOpd_vf_ref _ _ (k1 + 1) _ (by rw [Map.get_set_eq])) rfl
        (by simp only [binExec, asList, bind, Except.bind, scIsInt_row s3 r c, hzip])
      refine ⟨Map.set (Map.set (Map.set ρ1 k1 (.list an)) (k1 + 1) (.list bn)) (k1 + 2) (.list zn), ?_, ?_, ?_⟩
      · have := (st1.trans st2).trans st3
        simpa [Nat.add_assoc] using this
      · rw [Map.get_set_eq, hZn']
      · intro r' hr'
        rw [Map.get_set_ne _ _ _ _ (by omega), Map.get_set_ne _ _ _ _ (by omega), Map.get_set_ne _ _ _ _ (by omega)]
    obtain ⟨ρ', s0, e0, f0, le0, _⟩ :=
      rowsGen_sim P Z (noPtr_of_fitsVec hZr) k2 H r (by omega) rc rows k3 q hrm hat.left
    rw [List.take_of_length_le (by omega)] at e0
    exact rows_finish P hZr hat s0 e0 f0 le0

/-! ## `M op s` and `s * M`: one `matGet` and one vector∘scalar opcode per row -/

def rowS (rty mty : ITy) (o' : BinOp) (m s : Opd) (n k1 : Nat) : List Instr :=
  [ .matGet k1 mty m (.cInt (n : Int)), .bin (k1 + 1) o' rty (.ref k1) s ]

theorem rowsS_sim (P : Program) {code : List Instr} {rty mty : ITy} {o' : BinOp} {o : SOp} {it : Bool} {m s : Opd}
    {A Z : List Val} {sv : Val} {c k2 : Nat} {ρ : Map Nat Val} {fr : Frame} {g : Globals}
    (hz : rowsMapR o it sv A = .ok Z) (hZr : ∀ z ∈ Z, fitsVec c z = true)
    (hexec : ∀ an zn, mapBinR o it sv an = .ok zn → binExec o' rty (.list an) sv = .ok (.list zn))
    (hm : evalOpd (vf ρ fr) m = .ok (.list A)) (hs : evalOpd (vf ρ fr) s = .ok sv) (hps : Val.isPtr sv = false)
    (hbm : OpdBelow m k2) (hbs : OpdBelow s k2) :
    ∀ (n : Nat), n ≤ Z.length → ∀ (rc : List Instr) (rows : List Opd) (k' q : Nat),
      rowsGen 1 (rowS rty mty o' m s) n k2 = (rc, rows, k') → At code q rc →
      ∃ ρ', Steps P code (q, vf ρ fr, g) (q + rc.length, vf ρ' fr, g) ∧ OpdsEval (vf ρ' fr) rows (Z.take n) ∧
        (∀ r, r < k2 → Map.get ρ' r = Map.get ρ r) ∧ k2 ≤ k' ∧ ∀ o ∈ rows, OpdBelow o k' := by
  apply rowsGen_sim P Z (noPtr_of_fitsVec hZr) k2
  intro n hn k1 ρ1 q1 hk1 hat1 hfr
  obtain ⟨an, zn, hA, hmap, hZn⟩ := rowsMapR_get _ _ _ _ _ hz n hn
  have hZn' : Z[n] = .list zn := (List.getElem?_eq_some_iff.1 hZn).2
  simp only [rowS] at hat1 ⊢
  have st1 := matGet_row P (g := g) (fr := fr) hat1.head (evalOpd_frame hm hbm hfr) hA
  have hfr1 : ∀ r, r < k2 → Map.get (Map.set ρ1 k1 (.list an)) r = Map.get ρ r := by
    intro r' hr'; rw [Map.get_set_ne _ _ _ _ (by omega), hfr r' hr']
  have st2 := one_bin P (g := g) (fr := fr) (ρ := Map.set ρ1 k1 (.list an))
    (dst := k1 + 1) (o := o') (ty := rty) (x := .ref k1) (y := s)
    (a := .list an) (b := sv) (z := .list zn) hat1.tail.head
    (evalOpd_vf_ref _ _ k1 _ (by rw [Map.get_set_eq]))
    rfl (evalOpd_frame hs hbs hfr1) hps (hexec an zn hmap)
  refine ⟨Map.set (Map.set ρ1 k1 (.list an)) (k1 + 1) (.list zn), ?_, ?_, ?_⟩
  · have := st1.trans st2
    simpa [Nat.add_assoc] using this
  · rw [Map.get_set_eq, hZn']
  · intro r' hr'
    rw [Map.get_set_ne _ _ _ _ (by omega), Map.get_set_ne _ _ _ _ (by omega)]

theorem rowsMS_eq (op : BOp) (s1 s2 s3 : Sc) (r c : Nat) (l rr : Opd) (o' : BinOp)
    (hmk : ∀ k1, mkBin (k1 + 1) op (.vec s3 c) (.ref k1) (.vec s1 c) rr (.sc s2) = .bin (k1 + 1) o' (.vec s3 c) (.ref k1) rr) :
    ∀ (n k : Nat), rowsMS op (.mat s1 r c) (.sc s2) (.mat s3 r c) l rr n k =
      rowsGen 1 (rowS (.vec s3 c) (.vec s1 c) o' l rr) n k := by
  intro n
  induction n with
  | zero => intro k; rfl
  | succ n ih => intro k; simp only [rowsMS, rowsGen, ih, rowS, rowType, hmk]

theorem rowsSM_eq (s1 s2 s3 : Sc) (r c : Nat) (l rr : Opd) :
    ∀ (n k : Nat), rowsSM .mul (.sc s1) (.mat s2 r c) (.mat s3 r c) l rr n k =
      rowsGen 1 (rowS (.vec s3 c) (.vec s2 c) .vMulS rr l) n k := by
  have hmk : ∀ k1, mkBin (k1 + 1) .mul (.vec s3 c) l (.sc s1) (.ref k1) (.vec s2 c) =
      .bin (k1 + 1) .vMulS (.vec s3 c) (.ref k1) l := by
    intro k1; simp [mkBin, fromOperation, ITy.isScalar, ITy.isVector]
  intro n
  induction n with
  | zero => intro k; rfl
  | succ n ih => intro k; simp only [rowsSM, rowsGen, ih, rowS, rowType, hmk]

theorem bin_tail_ms (P : Program) {code : List Instr} {op : BOp} {s1 s2 s3 : Sc} {r c : Nat} {a b z : Val}
    {vl vr : Opd} {k2 q : Nat} {ρ : Map Nat Val} {fr : Frame} {g : Globals} (hop : op = .mul ∨ op = .div)
    (ha : fits (.mat r c) a = true) (hpb : Val.isPtr b = false)
    (hsem : binSem op (.mat s3 r c) (.mat s1 r c) (.sc s2) a b = .ok z)
    (hevl : evalOpd (vf ρ fr) vl = .ok a) (hevr : evalOpd (vf ρ fr) vr = .ok b)
    (hbl : OpdBelow vl k2) (hbr : OpdBelow vr k2)
    (hat : At code q (binTail op (.mat s3 r c) (.mat s1 r c) (.sc s2) vl vr k2).1) :
    TailOK P code q k2 ρ fr g z (binTail op (.mat s3 r c) (.mat s1 r c) (.sc s2) vl vr k2) := by
  obtain ⟨A, rfl, hAl, hAr⟩ := fits_mat_inv ha
  have hop' : (op == .mul || op == .div) = true := by rcases hop with rfl | rfl <;> rfl
  simp only [binSem, ITy.isScalar, ITy.isVector, ITy.isMatrix, asList, bind, Except.bind, Bool.and_self,
    Bool.false_and, Bool.and_false, Bool.true_and, Bool.false_eq_true, if_false, if_true, hop'] at hsem
  cases hz : rowsMapR op.toSOp (scIsInt (.mat s3 r c)) b A with
  | error e => simp [hz] at hsem
  | ok Z =>
    simp only [hz, Except.ok.injEq] at hsem
    subst hsem
    obtain ⟨hZl, hZr⟩ := rowsMapR_typed _ _ _ c _ _ hAr hz
    rcases hrm : rowsMS op (.mat s1 r c) (.sc s2) (.mat s3 r c) vl vr r k2 with ⟨rc, rows, k3⟩
    have ht : binTail op (.mat s3 r c) (.mat s1 r c) (.sc s2) vl vr k2 =
        (rc ++ [.construct k3 (.mat s3 r c) rows], .ref k3, k3 + 1) := by
      simp [binTail, ITy.isMatrix, ITy.isScalar, ITy.isVector, rowCount, hrm]
    rw [ht] at hat ⊢
    rcases hop with rfl | rfl
    · rw [rowsMS_eq .mul s1 s2 s3 r c vl vr .vMulS
        (by intro k1; simp [mkBin, fromOperation, ITy.isScalar, ITy.isVector])] at hrm
      obtain ⟨ρ', s0, e0, f0, le0, _⟩ := rowsS_sim P (g := g) hz hZr
        (by intro an zn hm
            simp only [binExec, asList, bind, Except.bind, scIsInt_row s3 r c]
            simp only [BOp.toSOp] at hm; rw [hm])
        hevl hevr hpb hbl hbr r (by omega) rc rows k3 q hrm hat.left
      rw [List.take_of_length_le (by omega)] at e0
      exact rows_finish P hZr hat s0 e0 f0 le0
    · rw [rowsMS_eq .div s1 s2 s3 r c vl vr .vDivS
        (by intro k1; simp [mkBin, fromOperation, ITy.isScalar, ITy.isVector])] at hrm
      obtain ⟨ρ', s0, e0, f0, le0, _⟩ := rowsS_sim P (g := g) hz hZr
        (by intro an zn hm
            simp only [binExec, asList, bind, Except.bind, scIsInt_row s3 r c]
            simp only [BOp.toSOp] at hm; rw [hm])
        hevl hevr hpb hbl hbr r (by omega) rc rows k3 q hrm hat.left
      rw [List.take_of_length_le (by omega)] at e0
      exact rows_finish P hZr hat s0 e0 f0 le0

theorem bin_tail_sm (P : Program) {code : List Instr} {s1 s2 s3 : Sc} {r c : Nat} {a b z : Val}
    {vl vr : Opd} {k2 q : Nat} {ρ : Map Nat Val} {fr : Frame} {g : Globals}
    (hb : fits (.mat r c) b = true) (hpa : Val.isPtr a = false)
    (hsem : binSem .mul (.mat s3 r c) (.sc s1) (.mat s2 r c) a b = .ok z)
    (hevl : evalOpd (vf ρ fr) vl = .ok a) (hevr : evalOpd (vf ρ fr) vr = .ok b)
    (hbl : OpdBelow vl k2) (hbr : OpdBelow vr k2)
    (hat : At code q (binTail .mul (.mat s3 r c) (.sc s1) (.mat s2 r c) vl vr k2).1) :
    TailOK P code q k2 ρ fr g z (binTail .mul (.mat s3 r c) (.sc s1) (.mat s2 r c) vl vr k2) := by
  obtain ⟨B, rfl, hBl, hBr⟩ := fits_mat_inv hb
  simp only [binSem, ITy.isScalar, ITy.isVector, ITy.isMatrix, asList, bind, Except.bind, Bool.and_self,
    Bool.false_and, Bool.and_false, Bool.true_and, Bool.false_eq_true, if_false, if_true, beq_self_eq_true] at hsem
  cases hz : rowsMapR BOp.mul.toSOp (scIsInt (.mat s3 r c)) a B with
  | error e => simp [hz] at hsem
  | ok Z =>
    simp only [hz, Except.ok.injEq] at hsem
    subst hsem
    obtain ⟨hZl, hZr⟩ := rowsMapR_typed _ _ _ c _ _ hBr hz
    rcases hrm : rowsSM .mul (.sc s1) (.mat s2 r c) (.mat s3 r c) vl vr r k2 with ⟨rc, rows, k3⟩
    have ht : binTail .mul (.mat s3 r c) (.sc s1) (.mat s2 r c) vl vr k2 =
        (rc ++ [.construct k3 (.mat s3 r c) rows], .ref k3, k3 + 1) := by
      simp [binTail, ITy.isMatrix, ITy.isScalar, ITy.isVector, rowCount, hrm]
    rw [ht] at hat ⊢
    rw [rowsSM_eq] at hrm
    obtain ⟨ρ', s0, e0, f0, le0, _⟩ := rowsS_sim P (g := g) hz hZr
      (by intro an zn hm
          simp only [binExec, asList, bind, Except.bind, scIsInt_row s3 r c]
          simp only [BOp.toSOp] at hm; rw [hm])
      hevr hevl hpa hbr hbl r (by omega) rc rows k3 q hrm hat.left
    rw [List.take_of_length_le (by omega)] at e0
    exact rows_finish P hZr hat s0 e0 f0 le0

/-! ## All cases -/

theorem bin_tail (P : Program) {code : List Instr} {op : BOp} {ty lt rt : ITy} {a b z : Val} {vl vr : Opd}
    {k2 q : Nat} {ρ : Map Nat Val} {fr : Frame} {g : Globals}
    (hcase : BinCase op ty lt rt) (ha : fits (shape lt) a = true) (hb : fits (shape rt) b = true)
    (hsem : binSem op ty lt rt a b = .ok z)
    (hevl : evalOpd (vf ρ fr) vl = .ok a) (hevr : evalOpd (vf ρ fr) vr = .ok b)
    (hbl : OpdBelow vl k2) (hbr : OpdBelow vr k2)
    (hat : At code q (binTail op ty lt rt vl vr k2).1) :
    TailOK P code q k2 ρ fr g z (binTail op ty lt rt vl vr k2) := by
  have hpa := fits_noPtr ha
  have hpb := fits_noPtr hb
  cases hcase with
  | mmRow s1 s2 s3 r c hop => exact bin_tail_mmRow P hop ha hb hsem hevl hevr hbl hbr hat
  | ms s1 s2 s3 r c hop => exact bin_tail_ms P hop ha hpb hsem hevl hevr hbl hbr hat
  | sm s1 s2 s3 r c hop => subst hop; exact bin_tail_sm P hb hpa hsem hevl hevr hbl hbr hat
  | sss s1 s2 s3 =>
    exact bin_tail_simple P (.sss s1 s2 s3) (by simp [ITy.isMatrix]) (by simp [ITy.isMatrix]) (by simp [ITy.isMatrix])
      hsem hevl hpa hevr hpb hat
  | vvv s1 s2 s3 n =>
    exact bin_tail_simple P (.vvv s1 s2 s3 n) (by simp [ITy.isMatrix]) (by simp [ITy.isMatrix]) (by simp [ITy.isMatrix])
      hsem hevl hpa hevr hpb hat
  | vsv s1 s2 s3 n hop =>
    exact bin_tail_simple P (.vsv s1 s2 s3 n hop) (by simp [ITy.isMatrix]) (by simp [ITy.isMatrix])
      (by simp [ITy.isMatrix]) hsem hevl hpa hevr hpb hat
  | svv s1 s2 s3 n hop =>
    exact bin_tail_simple P (.svv s1 s2 s3 n hop) (by simp [ITy.isMatrix]) (by simp [ITy.isMatrix])
      (by simp [ITy.isMatrix]) hsem hevl hpa hevr hpb hat
  | mmMul s1 s2 s3 r k c hop =>
    exact bin_tail_simple P (.mmMul s1 s2 s3 r k c hop) (by simp [hop]) (by simp [ITy.isScalar])
      (by simp [ITy.isScalar]) hsem hevl hpa hevr hpb hat
  | mv s1 s2 s3 r c hop =>
    exact bin_tail_simple P (.mv s1 s2 s3 r c hop) (by simp [ITy.isMatrix]) (by simp [ITy.isScalar])
      (by simp [ITy.isScalar]) hsem hevl hpa hevr hpb hat

end Vec
end Nsl
