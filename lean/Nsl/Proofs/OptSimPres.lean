import Nsl.Proofs.OptSimBase
/-!
# The constant-cast pass preserves the side conditions (`blockLocal`, distinct definitions)

so that `optOK` only has to state them for the unoptimised code.
-/
namespace Nsl
namespace Opt
open VM WF

theorem defOf_substInstr (σ : Subst) (i : Instr) : defOf (substInstr σ i) = defOf i := by
  cases i <;> first | rfl | (rename_i o; cases o <;> rfl)

theorem defs_map_subst (σ : Subst) : ∀ (l : List Instr), defs (l.map (substInstr σ)) = defs l
  | [] => rfl
  | i :: rest => by
    have ih := defs_map_subst σ rest
    cases hd : defOf i with
    | none =>
      rw [List.map_cons, defs_cons_none (by rw [defOf_substInstr]; exact hd), defs_cons_none hd, ih]
    | some d =>
      rw [List.map_cons, defs_cons_some (by rw [defOf_substInstr]; exact hd), defs_cons_some hd, ih]

theorem scan_sublist' {decide : Option Instr → Instr → Subst → Option (Nat × Opd)} {prev : Option Instr}
    {code out : List Instr} {σ σ' : Subst} (h : scan decide prev code σ = (out, σ')) : out.Sublist code := by
  have := scan_sublist decide code prev σ
  rw [h] at this
  exact this

/-- A pass keeps definitions pairwise distinct (it only removes instructions). -/
theorem pass_defs_nodup (decide : Option Instr → Instr → Subst → Option (Nat × Opd)) {code : List Instr}
    (h : (defs code).Nodup) : (defs (pass decide code)).Nodup := by
  rcases hs : scan decide none code [] with ⟨out, σf⟩
  rw [pass_eq hs, defs_map_subst]
  exact List.Nodup.sublist ((scan_sublist' hs).filterMap _) h

/-! ## operands of an instruction -/

def opsOf : Instr → List Opd
  | .label _ => []
  | .load _ _ _ _ => []
  | .store _ _ src => [src]
  | .newVar _ _ _ => []
  | .bin _ _ _ a b => [a, b]
  | .cast _ _ a => [a]
  | .br _ => []
  | .brc p _ _ => [p]
  | .ret none => []
  | .ret (some v) => [v]
  | .call _ _ _ args => args
  | .loadArr _ _ arr idx => [arr, idx]
  | .storeArr arr idx src => [arr, idx, src]
  | .loadMem _ _ obj _ => [obj]
  | .storeMem obj _ src => [obj, src]
  | .vecGet _ _ v idx => [v, idx]
  | .vecSet _ _ v idx src => [v, idx, src]
  | .matGet _ _ m idx => [m, idx]
  | .matSet _ _ m idx src => [m, idx, src]
  | .shuffle _ _ a b _ => [a, b]
  | .construct _ _ vals => vals

theorem usesOf_eq_opsOf (i : Instr) : usesOf i = opdsRefs (opsOf i) := by
  cases i with
  | ret o => cases o <;> simp [usesOf, opsOf, opdsRefs]
  | _ => simp [usesOf, opsOf, opdsRefs]

theorem opsOf_substInstr (σ : Subst) (i : Instr) : opsOf (substInstr σ i) = (opsOf i).map (substOpd σ) := by
  cases i with
  | ret o => cases o <;> simp [substInstr, opsOf]
  | _ => simp [substInstr, opsOf]

/-- every image of the substitution is a constant -/
def ConstRange (σ : Subst) : Prop := ∀ r o, Map.get σ r = some o → opdRefs o = []

theorem opdRefs_subst {σ : Subst} (hσ : ConstRange σ) {r : Nat} {o : Opd} (h : r ∈ opdRefs (substOpd σ o)) :
    r ∈ opdRefs o ∧ Map.get σ r = none := by
  cases o with
  | ref s =>
    simp only [substOpd] at h
    cases hg : Map.get σ s with
    | none =>
      simp only [hg, Option.getD_none, opdRefs, List.mem_singleton] at h
      subst h
      exact ⟨by simp [opdRefs], hg⟩
    | some c =>
      simp only [hg, Option.getD_some] at h
      rw [hσ s c hg] at h
      simp at h
  | cInt i => simp [substOpd, opdRefs] at h
  | cFlt f => simp [substOpd, opdRefs] at h

theorem opdsRefs_subst {σ : Subst} (hσ : ConstRange σ) {r : Nat} : ∀ {os : List Opd},
    r ∈ opdsRefs (os.map (substOpd σ)) → r ∈ opdsRefs os ∧ Map.get σ r = none
  | [], h => by simp [opdsRefs] at h
  | o :: os, h => by
    simp only [List.map_cons, opdsRefs, List.mem_append] at h ⊢
    rcases h with h | h
    · obtain ⟨h1, h2⟩ := opdRefs_subst hσ h
      exact ⟨Or.inl h1, h2⟩
    · obtain ⟨h1, h2⟩ := opdsRefs_subst hσ h
      exact ⟨Or.inr h1, h2⟩

theorem uses_subst {σ : Subst} (hσ : ConstRange σ) {r : Nat} {i : Instr} (h : r ∈ usesOf (substInstr σ i)) :
    r ∈ usesOf i ∧ Map.get σ r = none := by
  rw [usesOf_eq_opsOf, opsOf_substInstr] at h
  rw [usesOf_eq_opsOf]
  exact opdsRefs_subst hσ h

/-! ## the range of the constant-cast substitution -/

theorem foldCast_const {ty : ITy} {a c : Opd} (h : foldCast ty a = some c) : opdRefs c = [] := by
  obtain ⟨_, y, _, hy, _⟩ := foldCast_sound h
  cases c <;> simp [constVal, opdRefs] at hy ⊢

theorem constRange_set {σ : Subst} (hσ : ConstRange σ) (d : Nat) {c : Opd} (hc : opdRefs c = []) :
    ConstRange (Map.set σ d c) := by
  intro r o h
  by_cases hd : d = r
  · subst hd
    rw [Map.get_set_eq] at h
    simp only [Option.some.injEq] at h
    subst h; exact hc
  · rw [Map.get_set_ne _ _ _ _ hd] at h
    exact hσ r o h

theorem scan_cc_range : ∀ (code : List Instr) (prev : Option Instr) (σ : Subst) (out : List Instr) (σ' : Subst),
    scan ccDecide prev code σ = (out, σ') → ConstRange σ → ConstRange σ'
  | [], prev, σ, out, σ', h, hσ => by
    simp only [scan, Prod.mk.injEq] at h
    rw [← h.2]; exact hσ
  | ins :: rest, prev, σ, out, σ', h, hσ => by
    simp only [scan] at h
    cases hd : ccDecide prev ins σ with
    | some p =>
      obtain ⟨d, c⟩ := p
      simp only [hd] at h
      obtain ⟨ty, a, _, hf⟩ := ccDecide_removable hd
      exact scan_cc_range rest _ _ _ _ h (constRange_set hσ d (foldCast_const hf))
    | none =>
      simp only [hd] at h
      rcases hr : scan ccDecide (some ins) rest σ with ⟨o2, σ2⟩
      simp only [hr, Prod.mk.injEq] at h
      obtain ⟨_, rfl⟩ := h
      exact scan_cc_range rest _ _ _ _ hr hσ

/-! ## `blockLocal` is preserved -/

theorem blockLocal_cons_nonlabel {seen : List Nat} {ins : Instr} (hnl : ∀ l, ins ≠ .label l) (rest : List Instr) :
    blockLocal seen (ins :: rest) =
      ((usesOf ins).all (fun r => seen.contains r) &&
        (match defOf ins with
         | some d => !seen.contains d && blockLocal (d :: seen) rest
         | none => blockLocal seen rest)) := by
  cases ins with
  | label l => exact absurd rfl (hnl l)
  | _ => rfl

theorem substInstr_nonlabel (σ : Subst) {ins : Instr} (hnl : ∀ l, ins ≠ .label l) :
    ∀ l, substInstr σ ins ≠ .label l :=
  fun l e => hnl l ((substInstr_label_iff σ ins l).1 e)

theorem cc_blockLocal : ∀ (code : List Instr) (prev : Option Instr) (σ : Subst) (out : List Instr) (σ' : Subst)
    (seen seen' : List Nat), scan ccDecide prev code σ = (out, σ') → ConstRange σ' → (defs code).Nodup →
    blockLocal seen code = true → (∀ r ∈ seen, r ∈ seen' ∨ Map.get σ' r ≠ none) → (∀ r ∈ seen', r ∈ seen) →
    blockLocal seen' (out.map (substInstr σ')) = true
  | [], prev, σ, out, σ', seen, seen', h, _, _, _, _, _ => by
    simp only [scan, Prod.mk.injEq] at h
    rw [← h.1]; rfl
  | ins :: rest, prev, σ, out, σ', seen, seen', h, hσ, hnd, hbl, h2, h3 => by
    simp only [scan] at h
    cases hd : ccDecide prev ins σ with
    | some p =>
      obtain ⟨d, c⟩ := p
      simp only [hd] at h
      obtain ⟨ty, a, rfl, hf⟩ := ccDecide_removable hd
      rw [defs_cons_some (d := d) rfl, List.nodup_cons] at hnd
      have hget : Map.get σ' d = some c := by
        rw [scan_get_other ccDecide_def rest _ _ _ _ h d hnd.1]
        exact Map.get_set_eq _ _ _
      simp only [blockLocal, defOf, Bool.and_eq_true] at hbl
      refine cc_blockLocal rest _ _ _ _ (d :: seen) seen' h hσ hnd.2 hbl.2.2 ?_ ?_
      · intro r hr
        rcases List.mem_cons.1 hr with rfl | hr
        · right; rw [hget]; simp
        · exact h2 r hr
      · intro r hr; exact List.mem_cons_of_mem _ (h3 r hr)
    | none =>
      simp only [hd] at h
      rcases hr : scan ccDecide (some ins) rest σ with ⟨o2, σ2⟩
      simp only [hr, Prod.mk.injEq] at h
      obtain ⟨rfl, rfl⟩ := h
      by_cases hlab : ∃ l, ins = .label l
      · obtain ⟨l, rfl⟩ := hlab
        simp only [blockLocal] at hbl
        rw [defs_cons_none (by rfl)] at hnd
        simp only [List.map_cons, substInstr, blockLocal]
        exact cc_blockLocal rest _ _ _ _ [] [] hr hσ hnd hbl (by simp) (by simp)
      · have hnl : ∀ l, ins ≠ .label l := fun l e => hlab ⟨l, e⟩
        rw [blockLocal_cons_nonlabel hnl] at hbl
        rw [List.map_cons, blockLocal_cons_nonlabel (substInstr_nonlabel σ2 hnl), defOf_substInstr]
        simp only [Bool.and_eq_true, List.all_eq_true, List.contains_iff_mem] at hbl ⊢
        obtain ⟨huse, hrest⟩ := hbl
        constructor
        · intro r hr
          obtain ⟨hr1, hr2⟩ := uses_subst hσ hr
          rcases h2 r (by simpa using huse r hr1) with h | h
          · simpa using h
          · exact absurd hr2 h
        · cases hdd : defOf ins with
          | none =>
            simp only [hdd] at hrest ⊢
            rw [defs_cons_none hdd] at hnd
            exact cc_blockLocal rest _ _ _ _ seen seen' hr hσ hnd hrest h2 h3
          | some d =>
            simp only [hdd, Bool.and_eq_true, Bool.not_eq_true', List.contains_eq_mem,
              decide_eq_false_iff_not] at hrest ⊢
            rw [defs_cons_some hdd, List.nodup_cons] at hnd
            refine ⟨fun hm => hrest.1 (h3 d hm), ?_⟩
            refine cc_blockLocal rest _ _ _ _ (d :: seen) (d :: seen') hr hσ hnd.2 hrest.2 ?_ ?_
            · intro r hr'
              rcases List.mem_cons.1 hr' with rfl | hr'
              · exact Or.inl List.mem_cons_self
              · rcases h2 r hr' with h | h
                · exact Or.inl (List.mem_cons_of_mem _ h)
                · exact Or.inr h
            · intro r hr'
              rcases List.mem_cons.1 hr' with rfl | hr'
              · exact List.mem_cons_self
              · exact List.mem_cons_of_mem _ (h3 r hr')

/-- The constant-cast pass keeps value references block-local. -/
theorem pass_cc_blockLocal {code : List Instr} (hbl : blockLocal [] code = true) (hnd : (defs code).Nodup) :
    blockLocal [] (pass ccDecide code) = true := by
  rcases hs : scan ccDecide none code [] with ⟨out, σf⟩
  rw [pass_eq hs]
  have hσ : ConstRange σf := scan_cc_range code none [] out σf hs (by intro r o h; simp at h)
  exact cc_blockLocal code none [] out σf [] [] hs hσ hnd hbl (by simp) (by simp)

end Opt
end Nsl
