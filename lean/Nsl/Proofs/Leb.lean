import Nsl.Model.Leb

namespace Nsl.Leb

/-! ### Unfolding equations (fuel elimination) -/

theorem encUAux_indep : ∀ (f1 f2 n : Nat), n ≤ f1 → n ≤ f2 → encUAux f1 n = encUAux f2 n := by
  intro f1
  induction f1 with
  | zero =>
    intro f2 n h1 h2
    have : n = 0 := by omega
    subst this
    cases f2 <;> simp [encUAux]
  | succ f1 ih =>
    intro f2 n h1 h2
    cases f2 with
    | zero =>
      have : n = 0 := by omega
      subst this
      simp [encUAux]
    | succ f2 =>
      simp only [encUAux]
      split
      · rfl
      · rw [ih f2 (n / 128) (by omega) (by omega)]

/-- Defining equation of the standard unsigned encoder, without fuel. -/
theorem encU_eq (n : Nat) :
    encU n = if n < 128 then [n] else (n % 128 + 128) :: encU (n / 128) := by
  unfold encU
  cases n with
  | zero => simp [encUAux]
  | succ n =>
    simp only [encUAux]
    split
    · rfl
    · rw [encUAux_indep n ((n + 1) / 128) ((n + 1) / 128) (by omega) (Nat.le_refl _)]

theorem encU_small {n : Nat} (h : n < 128) : encU n = [n] := by
  rw [encU_eq, if_pos h]

theorem encU_big {n : Nat} (h : ¬ n < 128) : encU n = (n % 128 + 128) :: encU (n / 128) := by
  rw [encU_eq, if_neg h]

/-- Induction principle following the recursion of `encU`. -/
theorem encU_induct (P : Nat → Prop) (base : ∀ n, n < 128 → P n)
    (step : ∀ n, ¬ n < 128 → P (n / 128) → P n) : ∀ n, P n := by
  intro n
  induction n using Nat.strongRecOn with
  | ind n ih =>
    by_cases h : n < 128
    · exact base n h
    · exact step n h (ih _ (by omega))

/-- Stop condition of the signed encoder. -/
def stopS (v : Int) : Prop :=
  (v / 128 = 0 ∧ (v % 128).toNat < 64) ∨ (v / 128 = -1 ∧ (v % 128).toNat ≥ 64)

instance (v : Int) : Decidable (stopS v) := by unfold stopS; infer_instance

theorem stopS_iff (v : Int) : stopS v ↔ (-64 ≤ v ∧ v < 64) := by
  unfold stopS; omega

theorem natAbs_div_lt {v : Int} (h : ¬ stopS v) : (v / 128).natAbs < v.natAbs := by
  rw [stopS_iff] at h; omega

theorem encSAux_indep : ∀ (f1 f2 : Nat) (v : Int), v.natAbs < f1 → v.natAbs < f2 →
    encSAux f1 v = encSAux f2 v := by
  intro f1
  induction f1 with
  | zero => intro f2 v h1; omega
  | succ f1 ih =>
    intro f2 v h1 h2
    cases f2 with
    | zero => omega
    | succ f2 =>
      simp only [encSAux]
      split
      · rfl
      · rename_i hs
        have := natAbs_div_lt (v := v) hs
        rw [ih f2 (v / 128) (by omega) (by omega)]

/-- Defining equation of the standard signed encoder, without fuel. -/
theorem encS_eq (v : Int) :
    encS v = if stopS v then [(v % 128).toNat]
             else ((v % 128).toNat + 128) :: encS (v / 128) := by
  rw [show encS v = encSAux (v.natAbs + 1) v from rfl, encSAux]
  by_cases hs : stopS v
  · have hs' := hs
    unfold stopS at hs'
    rw [if_pos hs, if_pos hs']
  · have hs' := hs
    unfold stopS at hs'
    rw [if_neg hs, if_neg hs']
    have := natAbs_div_lt (v := v) hs
    rw [show encS (v / 128) = encSAux ((v / 128).natAbs + 1) (v / 128) from rfl]
    rw [encSAux_indep v.natAbs ((v / 128).natAbs + 1) (v / 128) (by omega) (by omega)]

theorem encS_stop {v : Int} (h : stopS v) : encS v = [(v % 128).toNat] := by
  rw [encS_eq, if_pos h]

theorem encS_cont {v : Int} (h : ¬ stopS v) :
    encS v = ((v % 128).toNat + 128) :: encS (v / 128) := by
  rw [encS_eq, if_neg h]

/-- Induction principle following the recursion of `encS`. -/
theorem encS_induct (P : Int → Prop) (base : ∀ v, stopS v → P v)
    (step : ∀ v, ¬ stopS v → P (v / 128) → P v) : ∀ v, P v := by
  intro v
  generalize hn : v.natAbs = n
  induction n using Nat.strongRecOn generalizing v with
  | ind n ih =>
    by_cases h : stopS v
    · exact base v h
    · have := natAbs_div_lt h
      exact step v h (ih _ (by omega) _ rfl)

/-! ### Round trips -/

theorem decULoop_encU (rest : List Nat) : ∀ (n acc s : Nat),
    decULoop acc s (encU n ++ rest) = some (acc + n * 2 ^ s, rest) := by
  intro n
  induction n using encU_induct with
  | base n h =>
    intro acc s
    rw [encU_small h]
    simp [decULoop, h, Nat.mod_eq_of_lt h]
  | step n h ih =>
    intro acc s
    rw [encU_big h]
    have h1 : ¬ (n % 128 + 128 < 128) := by omega
    have h2 : (n % 128 + 128) % 128 = n % 128 := by omega
    simp only [List.cons_append, decULoop, h1, if_false, h2]
    rw [ih]
    have h3 : (2:Nat) ^ (s + 7) = 128 * 2 ^ s := by rw [Nat.pow_add]; omega
    rw [h3]
    have h4 : n = n % 128 + 128 * (n / 128) := by omega
    congr 2
    conv => rhs; rw [h4]
    grind

theorem decSLoop_encS (rest : List Nat) : ∀ (v acc : Int) (s : Nat),
    decSLoop acc s (encS v ++ rest) = some (acc + v * 2 ^ s, rest) := by
  intro v
  induction v using encS_induct with
  | base v h =>
    intro acc s
    rw [encS_stop h]
    rw [stopS_iff] at h
    have hb : (v % 128).toNat < 128 := by omega
    have h3 : (2:Int) ^ (s + 7) = 128 * 2 ^ s := by rw [Int.pow_add]; omega
    simp only [List.cons_append, List.nil_append, decSLoop, hb, if_true, Nat.mod_eq_of_lt hb]
    have hc : (((v % 128).toNat : Nat) : Int) = v % 128 := by omega
    rw [hc, h3]
    split
    · rename_i h64
      have : v % 128 = v + 128 := by omega
      rw [this]; congr 2; grind
    · rename_i h64
      have : v % 128 = v := by omega
      rw [this]
  | step v h ih =>
    intro acc s
    rw [encS_cont h]
    have h1 : ¬ ((v % 128).toNat + 128 < 128) := by omega
    have h2 : ((v % 128).toNat + 128) % 128 = (v % 128).toNat := by omega
    simp only [List.cons_append, decSLoop, h1, if_false, h2]
    rw [ih]
    have h3 : (2:Int) ^ (s + 7) = 128 * 2 ^ s := by rw [Int.pow_add]; omega
    have hc : (((v % 128).toNat : Nat) : Int) = v % 128 := by omega
    rw [h3, hc]
    have h4 : v = v % 128 + 128 * (v / 128) := by omega
    congr 2
    conv => rhs; rw [h4]
    grind

/-! ### `bitLength` -/

theorem bitLengthAux_indep : ∀ (f1 f2 n : Nat), n ≤ f1 → n ≤ f2 →
    bitLengthAux f1 n = bitLengthAux f2 n := by
  intro f1
  induction f1 with
  | zero =>
    intro f2 n h1 h2
    have : n = 0 := by omega
    subst this
    cases f2 <;> simp [bitLengthAux]
  | succ f1 ih =>
    intro f2 n h1 h2
    cases f2 with
    | zero =>
      have : n = 0 := by omega
      subst this
      simp [bitLengthAux]
    | succ f2 =>
      simp only [bitLengthAux]
      split
      · rfl
      · rw [ih f2 (n / 2) (by omega) (by omega)]

theorem bitLength_zero : bitLength 0 = 0 := rfl

theorem bitLength_pos {n : Nat} (h : n ≠ 0) : bitLength n = bitLength (n / 2) + 1 := by
  unfold bitLength
  cases n with
  | zero => exact absurd rfl h
  | succ n =>
    rw [bitLengthAux, if_neg h]
    rw [bitLengthAux_indep n ((n + 1) / 2) ((n + 1) / 2) (by omega) (Nat.le_refl _)]

/-- `bitLength n` is the least `L` with `n < 2 ^ L` (specification of `int.bit_length`). -/
theorem bitLength_le_iff : ∀ (L n : Nat), bitLength n ≤ L ↔ n < 2 ^ L := by
  intro L
  induction L with
  | zero =>
    intro n
    by_cases h : n = 0
    · subst h; simp [bitLength_zero]
    · rw [bitLength_pos h]; simp; omega
  | succ L ih =>
    intro n
    by_cases h : n = 0
    · subst h; simp [bitLength_zero, Nat.pow_pos]
    · rw [bitLength_pos h, Nat.pow_succ]
      have := ih (n / 2)
      omega

theorem bitLength_div128 {n : Nat} (h : ¬ n < 128) : bitLength n = bitLength (n / 128) + 7 := by
  have h1 : ∀ L, bitLength (n / 128) ≤ L ↔ bitLength n ≤ L + 7 := by
    intro L
    rw [bitLength_le_iff, bitLength_le_iff, Nat.pow_add]
    omega
  have h7 : ¬ bitLength n ≤ 7 := by rw [bitLength_le_iff]; omega
  have a := (h1 (bitLength (n / 128))).1 (Nat.le_refl _)
  have b := (h1 (bitLength n - 7)).2 (by omega)
  omega

theorem bitLength_small {n : Nat} (h : n < 128) (h0 : n ≠ 0) :
    1 ≤ bitLength n ∧ bitLength n ≤ 7 := by
  constructor
  · rw [bitLength_pos h0]; omega
  · rw [bitLength_le_iff]; omega

/-! ### The Python loop on naturals is the standard unsigned encoder -/

theorem packLoop_nat : ∀ (n : Nat), n ≠ 0 →
    packLoop ((bitLength n + 6) / 7) (n : Int) = encU n := by
  intro n
  induction n using encU_induct with
  | base n h =>
    intro h0
    have := bitLength_small h h0
    have hc : (bitLength n + 6) / 7 = 1 := by omega
    rw [hc, encU_small h]
    simp only [packLoop, if_true]
    congr 1
    omega
  | step n h ih =>
    intro _
    have h0 : n / 128 ≠ 0 := by omega
    have ih := ih h0
    have hbl := bitLength_div128 h
    have hpos : 1 ≤ bitLength (n / 128) := by rw [bitLength_pos h0]; omega
    obtain ⟨c, hc⟩ : ∃ c, (bitLength (n / 128) + 6) / 7 = c + 1 := ⟨(bitLength (n / 128) + 6) / 7 - 1, by omega⟩
    have hc' : (bitLength n + 6) / 7 = (c + 1) + 1 := by omega
    rw [hc', encU_big h]
    rw [hc] at ih
    rw [packLoop]
    have hd : (n : Int) / 128 = ((n / 128 : Nat) : Int) := by omega
    have hm : ((n : Int) % 128).toNat = n % 128 := by omega
    simp only [hd, hm, ih]
    simp

theorem packInteger_nat (n : Nat) : packInteger (n : Int) = encU n := by
  unfold packInteger
  by_cases h : n = 0
  · subst h; simp [encU_small]
  · have : (n : Int) ≠ 0 := by omega
    rw [if_neg this, Int.natAbs_natCast]
    exact packLoop_nat n h

/-! ### Byte-level shape -/

/-- A self-delimiting LEB128 byte string: every byte but the last has the continuation bit
(is in `[128, 256)`), the last byte has it clear (is `< 128`). -/
def SelfDelimiting (bs : List Nat) : Prop :=
  ∃ pre last, bs = pre ++ [last] ∧ (∀ b ∈ pre, 128 ≤ b ∧ b < 256) ∧ last < 128

theorem selfDelimiting_cons {b : Nat} {bs : List Nat} (hb : 128 ≤ b ∧ b < 256)
    (h : SelfDelimiting bs) : SelfDelimiting (b :: bs) := by
  obtain ⟨pre, last, rfl, hp, hl⟩ := h
  refine ⟨b :: pre, last, rfl, ?_, hl⟩
  intro x hx
  rcases List.mem_cons.1 hx with rfl | hx
  · exact hb
  · exact hp x hx

theorem selfDelimiting_single {b : Nat} (hb : b < 128) : SelfDelimiting [b] :=
  ⟨[], b, rfl, by simp, hb⟩

theorem SelfDelimiting.bytes {bs : List Nat} (h : SelfDelimiting bs) : ∀ b ∈ bs, b < 256 := by
  obtain ⟨pre, last, rfl, hp, hl⟩ := h
  intro b hb
  rcases List.mem_append.1 hb with hb | hb
  · exact (hp b hb).2
  · simp at hb; omega

theorem SelfDelimiting.dropLast {bs : List Nat} (h : SelfDelimiting bs) :
    ∀ b ∈ bs.dropLast, 128 ≤ b := by
  obtain ⟨pre, last, rfl, hp, hl⟩ := h
  intro b hb
  simp at hb
  exact (hp b hb).1

theorem SelfDelimiting.getLast {bs : List Nat} (h : SelfDelimiting bs) :
    ∃ l, bs.getLast? = some l ∧ l < 128 := by
  obtain ⟨pre, last, rfl, hp, hl⟩ := h
  exact ⟨last, by simp, hl⟩

theorem encU_selfDelimiting (n : Nat) : SelfDelimiting (encU n) := by
  induction n using encU_induct with
  | base n h => rw [encU_small h]; exact selfDelimiting_single h
  | step n h ih => rw [encU_big h]; exact selfDelimiting_cons (by omega) ih

theorem encS_selfDelimiting (v : Int) : SelfDelimiting (encS v) := by
  induction v using encS_induct with
  | base v h => rw [encS_stop h]; exact selfDelimiting_single (by omega)
  | step v h ih => rw [encS_cont h]; exact selfDelimiting_cons (by omega) ih

/-! ### Length bounds -/

theorem encU_length_le : ∀ (k n : Nat), n < 128 ^ (k + 1) → (encU n).length ≤ k + 1 := by
  intro k
  induction k with
  | zero => intro n h; rw [encU_small (by simpa using h)]; simp
  | succ k ih =>
    intro n h
    by_cases hs : n < 128
    · rw [encU_small hs]; simp
    · rw [encU_big hs]
      rw [Nat.pow_succ] at h
      have := ih (n / 128) (by omega)
      simp only [List.length_cons]; omega

theorem encS_length_le : ∀ (k : Nat) (v : Int), -(64 * 128 ^ k) ≤ v → v < 64 * 128 ^ k →
    (encS v).length ≤ k + 1 := by
  intro k
  induction k with
  | zero => intro v h1 h2; rw [encS_stop ((stopS_iff v).2 (by omega))]; simp
  | succ k ih =>
    intro v h1 h2
    by_cases hs : stopS v
    · rw [encS_stop hs]; simp
    · rw [encS_cont hs]
      rw [Int.pow_succ] at h1 h2
      have := ih (v / 128) (by omega) (by omega)
      simp only [List.length_cons]; omega

/-! ### Framing -/

theorem decU_encU' (n : Nat) (rest : List Nat) : decU (encU n ++ rest) = some (n, rest) := by
  unfold decU; rw [decULoop_encU]; simp

theorem unframe_frame' (p rest : List Nat) : unframe (frame p ++ rest) = some (p, rest) := by
  unfold unframe frame
  rw [List.append_assoc, decU_encU']
  simp

/-! ### Where the unsigned Python packer is (and is not) a valid signed encoding -/

/-- `PackInteger`'s block count. -/
def blockCount (v : Int) : Nat := (bitLength v.natAbs + 6) / 7

/-- `v` fits in `7 * (k + 1)` bits as a signed two's-complement number. -/
def FitsS (k : Nat) (v : Int) : Prop := -(64 * 128 ^ k) ≤ v ∧ v < 64 * 128 ^ k

theorem packLoop_length : ∀ (k : Nat) (v : Int), (packLoop k v).length = k := by
  intro k
  induction k with
  | zero => intro v; rfl
  | succ k ih => intro v; simp [packLoop, ih]

theorem encS_length_pos (v : Int) : 1 ≤ (encS v).length := by
  rw [encS_eq]; split <;> simp

/-- The signed encoder is the same block emitter as the Python loop, run for its own length. -/
theorem encS_eq_packLoop (v : Int) : encS v = packLoop (encS v).length v := by
  induction v using encS_induct with
  | base v h => rw [encS_stop h]; simp [packLoop]
  | step v h ih =>
    have hp := encS_length_pos (v / 128)
    rw [encS_cont h, List.length_cons, packLoop, ← ih]
    have : (encS (v / 128)).length ≠ 0 := by omega
    simp [this]

theorem encS_length_le_iff : ∀ (k : Nat) (v : Int), (encS v).length ≤ k + 1 ↔ FitsS k v := by
  intro k
  induction k with
  | zero =>
    intro v
    unfold FitsS
    by_cases hs : stopS v
    · rw [encS_stop hs]; rw [stopS_iff] at hs
      have e : (128 : Int) ^ 0 = 1 := rfl
      rw [e]; simp only [List.length_cons, List.length_nil]; omega
    · have hp := encS_length_pos (v / 128)
      rw [encS_cont hs]; rw [stopS_iff] at hs; simp only [List.length_cons]
      have e : (128 : Int) ^ 0 = 1 := rfl
      rw [e]; omega
  | succ k ih =>
    intro v
    have ih := ih (v / 128)
    unfold FitsS at ih ⊢
    have hpos : (0 : Int) < 128 ^ k := Int.pow_pos (by decide)
    rw [Int.pow_succ]
    by_cases hs : stopS v
    · rw [encS_stop hs]; rw [stopS_iff] at hs; simp only [List.length_cons, List.length_nil]
      omega
    · rw [encS_cont hs]; simp only [List.length_cons]
      omega

theorem packInteger_eq_encS_iff_length (v : Int) :
    packInteger v = encS v ↔ (v = 0 ∨ blockCount v = (encS v).length) := by
  by_cases h0 : v = 0
  · subst h0; simp [packInteger, encS_stop ((stopS_iff 0).2 (by omega))]
  · unfold packInteger blockCount
    rw [if_neg h0]
    constructor
    · intro h
      have := congrArg List.length h
      rw [packLoop_length] at this
      exact Or.inr this
    · intro h
      rcases h with h | h
      · exact absurd h h0
      · rw [h, ← encS_eq_packLoop]

theorem pow128 (k : Nat) : (128 : Nat) ^ k = 2 ^ (7 * k) := by
  rw [Nat.pow_mul]

theorem blockCount_le_iff (v : Int) (k : Nat) : blockCount v ≤ k ↔ v.natAbs < 128 ^ k := by
  unfold blockCount
  rw [pow128, ← bitLength_le_iff]
  omega

theorem natAbs_lt_of_fitsS {k : Nat} {v : Int} (h : FitsS k v) : v.natAbs < 128 ^ (k + 1) := by
  unfold FitsS at h
  have hc : ((128 ^ (k + 1) : Nat) : Int) = 128 ^ (k + 1) := by
    rw [Int.natCast_pow]; rfl
  have hpos : (0 : Int) < 128 ^ k := Int.pow_pos (by decide)
  rw [Int.pow_succ] at hc
  omega

/-- `PackInteger` never uses more blocks than the signed encoder. -/
theorem blockCount_le_length (v : Int) : blockCount v ≤ (encS v).length := by
  have hp := encS_length_pos v
  obtain ⟨k, hk⟩ : ∃ k, (encS v).length = k + 1 := ⟨(encS v).length - 1, by omega⟩
  rw [hk, blockCount_le_iff]
  exact natAbs_lt_of_fitsS ((encS_length_le_iff k v).1 (by omega))

theorem blockCount_pos {v : Int} (h : v ≠ 0) : 1 ≤ blockCount v := by
  have := blockCount_le_iff v 0
  simp at this
  omega

/-- For `v ≠ 0`: the Python packer's output is the signed encoding iff `v` fits in the
`7 * blockCount` bits it emits. -/
theorem packInteger_eq_encS_iff_fits {v : Int} (h0 : v ≠ 0) :
    packInteger v = encS v ↔ FitsS (blockCount v - 1) v := by
  rw [packInteger_eq_encS_iff_length]
  have h1 := blockCount_pos h0
  have h2 := blockCount_le_length v
  rw [← encS_length_le_iff]
  constructor
  · intro h; rcases h with h | h
    · exact absurd h h0
    · omega
  · intro h; right; omega

theorem mul_pow2_cancel (x y : Int) (s : Nat) : x * 2 ^ s = y * 2 ^ s ↔ x = y := by
  have hpos : (0 : Int) < 2 ^ s := Int.pow_pos (by decide)
  exact Int.mul_eq_mul_right_iff (by omega)

/-- Decoding what the Python loop emitted with the standard *signed* decoder yields the original
value exactly when the value fits in the emitted number of bits. -/
theorem decSLoop_packLoop (rest : List Nat) : ∀ (k : Nat) (v acc : Int) (s : Nat),
    decSLoop acc s (packLoop (k + 1) v ++ rest) = some (acc + v * 2 ^ s, rest) ↔ FitsS k v := by
  intro k
  induction k with
  | zero =>
    intro v acc s
    unfold FitsS
    have hb : (v % 128).toNat < 128 := by omega
    have hc : (((v % 128).toNat : Nat) : Int) = v % 128 := by omega
    have h3 : (2:Int) ^ (s + 7) = 128 * 2 ^ s := by rw [Int.pow_add]; omega
    simp only [packLoop, if_true, List.cons_append, List.nil_append, decSLoop, hb,
      Nat.mod_eq_of_lt hb, hc, h3]
    split
    · rename_i h64
      simp only [Option.some.injEq, Prod.mk.injEq, and_true]
      have e : acc + v % 128 * 2 ^ s - 128 * 2 ^ s = acc + (v % 128 - 128) * 2 ^ s := by
        rw [Int.sub_mul]; omega
      rw [e, Int.add_right_inj, mul_pow2_cancel]
      simp; omega
    · rename_i h64
      simp only [Option.some.injEq, Prod.mk.injEq, and_true]
      rw [Int.add_right_inj, mul_pow2_cancel]
      simp; omega
  | succ k ih =>
    intro v acc s
    have h1 : ¬ ((v % 128).toNat + 128 < 128) := by omega
    have h2 : ((v % 128).toNat + 128) % 128 = (v % 128).toNat := by omega
    have hc : (((v % 128).toNat : Nat) : Int) = v % 128 := by omega
    have h3 : (2:Int) ^ (s + 7) = 128 * 2 ^ s := by rw [Int.pow_add]; omega
    rw [packLoop]
    simp only [Nat.succ_ne_zero, if_false, List.cons_append,
      decSLoop, h1, h2, hc]
    have e : acc + v * 2 ^ s = (acc + v % 128 * 2 ^ s) + (v / 128) * 2 ^ (s + 7) := by
      have h4 : v = v % 128 + 128 * (v / 128) := by omega
      rw [h3]
      conv => lhs; rw [h4]
      grind
    rw [e, ih]
    unfold FitsS
    rw [Int.pow_succ]
    omega

theorem decS_packInteger_iff (v : Int) (rest : List Nat) :
    decS (packInteger v ++ rest) = some (v, rest) ↔ packInteger v = encS v := by
  by_cases h0 : v = 0
  · subst h0
    simp [packInteger, encS_stop ((stopS_iff 0).2 (by omega)), decS, decSLoop]
  · rw [packInteger_eq_encS_iff_fits h0]
    have h1 := blockCount_pos h0
    obtain ⟨k, hk⟩ : ∃ k, blockCount v = k + 1 := ⟨blockCount v - 1, by omega⟩
    have : packInteger v = packLoop (k + 1) v := by
      unfold packInteger; rw [if_neg h0]; unfold blockCount at hk; rw [hk]
    rw [this, hk, Nat.add_sub_cancel]
    have := decSLoop_packLoop rest k v 0 0
    simpa [decS] using this

/-! #### Characterisation through `bit_length` -/

theorem fitsS_nat (k n : Nat) : FitsS k (n : Int) ↔ bitLength n ≤ 7 * k + 6 := by
  unfold FitsS
  rw [bitLength_le_iff, Nat.pow_add, ← pow128]
  have hc : ((128 ^ k : Nat) : Int) = 128 ^ k := by rw [Int.natCast_pow]; rfl
  have hpos : (0 : Int) < 128 ^ k := Int.pow_pos (by decide)
  constructor
  · intro h; have := h.2; rw [← hc] at this; omega
  · intro h; rw [← hc]; omega

theorem fitsS_neg (k m : Nat) (hm : 0 < m) :
    FitsS k (-(m : Int)) ↔ bitLength (m - 1) ≤ 7 * k + 6 := by
  unfold FitsS
  rw [bitLength_le_iff, Nat.pow_add, ← pow128]
  have hc : ((128 ^ k : Nat) : Int) = 128 ^ k := by rw [Int.natCast_pow]; rfl
  have hpos : (0 : Int) < 128 ^ k := Int.pow_pos (by decide)
  constructor
  · intro h; have := h.1; rw [← hc] at this; omega
  · intro h; rw [← hc]; omega

theorem bitLength_pred_le (m : Nat) : bitLength (m - 1) ≤ bitLength m := by
  rw [bitLength_le_iff]
  have := (bitLength_le_iff (bitLength m) m).1 (Nat.le_refl _)
  omega

theorem bitLength_le_pred (m : Nat) : bitLength m ≤ bitLength (m - 1) + 1 := by
  rw [bitLength_le_iff, Nat.pow_succ]
  have := (bitLength_le_iff (bitLength (m - 1)) (m - 1)).1 (Nat.le_refl _)
  omega

/-- `bit_length(m - 1) < bit_length(m)` exactly for powers of two. -/
theorem bitLength_pred_lt_iff {m : Nat} (hm : 0 < m) :
    bitLength (m - 1) < bitLength m ↔ m = 2 ^ (bitLength m - 1) := by
  have hpos : 1 ≤ bitLength m := by rw [bitLength_pos (by omega)]; omega
  have hlow : ¬ m < 2 ^ (bitLength m - 1) := by
    rw [← bitLength_le_iff]; omega
  constructor
  · intro h
    have : bitLength (m - 1) ≤ bitLength m - 1 := by omega
    rw [bitLength_le_iff] at this
    omega
  · intro h
    have : bitLength (m - 1) ≤ bitLength m - 1 := by
      rw [bitLength_le_iff]
      have hp : 0 < 2 ^ (bitLength m - 1) := Nat.pow_pos (by decide)
      omega
    omega

theorem packInteger_eq_encS_nat (n : Nat) :
    packInteger (n : Int) = encS (n : Int) ↔ (n = 0 ∨ bitLength n % 7 ≠ 0) := by
  by_cases h0 : n = 0
  · subst h0
    simp [packInteger, encS_stop ((stopS_iff 0).2 (by omega))]
  · have h0' : (n : Int) ≠ 0 := by omega
    rw [packInteger_eq_encS_iff_fits h0', fitsS_nat]
    have h1 := blockCount_pos h0'
    unfold blockCount at h1 ⊢
    rw [Int.natAbs_natCast] at h1 ⊢
    omega

theorem packInteger_eq_encS_neg (m : Nat) (hm : 0 < m) :
    packInteger (-(m : Int)) = encS (-(m : Int)) ↔
      (bitLength m % 7 ≠ 0 ∨ bitLength (m - 1) < bitLength m) := by
  have h0' : (-(m : Int)) ≠ 0 := by omega
  rw [packInteger_eq_encS_iff_fits h0', fitsS_neg _ _ hm]
  have h1 := blockCount_pos h0'
  have ha := bitLength_pred_le m
  have hb := bitLength_le_pred m
  unfold blockCount at h1 ⊢
  have : (-(m : Int)).natAbs = m := by omega
  rw [this] at h1 ⊢
  omega

/-- Unified characterisation over all of `Int`. -/
theorem packInteger_eq_encS_iff' (v : Int) :
    packInteger v = encS v ↔
      (v = 0 ∨ bitLength v.natAbs % 7 ≠ 0 ∨
        (v < 0 ∧ bitLength (v.natAbs - 1) < bitLength v.natAbs)) := by
  by_cases hneg : v < 0
  · obtain ⟨m, hm⟩ : ∃ m : Nat, v = -(m : Int) := ⟨v.natAbs, by omega⟩
    subst hm
    have hm0 : 0 < m := by omega
    rw [packInteger_eq_encS_neg m hm0]
    have : (-(m : Int)).natAbs = m := by omega
    rw [this]
    constructor
    · intro h; rcases h with h | h
      · exact Or.inr (Or.inl h)
      · exact Or.inr (Or.inr ⟨hneg, h⟩)
    · intro h; rcases h with h | h | h
      · omega
      · exact Or.inl h
      · exact Or.inr h.2
  · obtain ⟨n, hn⟩ : ∃ n : Nat, v = (n : Int) := ⟨v.natAbs, by omega⟩
    subst hn
    rw [packInteger_eq_encS_nat n, Int.natAbs_natCast]
    constructor
    · intro h; rcases h with h | h
      · left; omega
      · exact Or.inr (Or.inl h)
    · intro h; rcases h with h | h | h
      · left; omega
      · exact Or.inr h
      · exact absurd h.1 hneg

theorem packIsSigned_iff (v : Int) : packIsSigned v = true ↔ packInteger v = encS v := by
  rw [packInteger_eq_encS_iff']
  simp [packIsSigned, or_assoc]

/-! ### Names -/

theorem utf8_length' (s : String) : (utf8 s).length = s.utf8ByteSize := by
  unfold utf8; rw [List.length_map, Array.length_toList]; exact String.size_toByteArray

theorem utf8_bytes' (s : String) : ∀ b ∈ utf8 s, b < 256 := by
  intro b hb
  simp only [utf8, List.mem_map] at hb
  obtain ⟨x, _, rfl⟩ := hb
  exact x.toNat_lt

theorem utf8_inj {s t : String} (h : utf8 s = utf8 t) : s = t := by
  unfold utf8 at h
  have h1 := (List.map_inj_right (fun a b hab => UInt8.toNat_inj.1 hab)).1 h
  apply String.toByteArray_inj.1
  have h2 : s.toUTF8.data = t.toUTF8.data := Array.toList_inj.1 h1
  simp only [String.toUTF8_eq_toByteArray] at h2
  cases hs : s.toByteArray; cases ht : t.toByteArray
  simp_all

end Nsl.Leb
