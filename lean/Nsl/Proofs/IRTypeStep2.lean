import Nsl.Proofs.IRTypeStep1
/-!
# IR typing: one instruction preserves the invariant — arrays, structs (through aliases), vector/matrix components
-/
namespace Nsl
namespace IRType
open VM

section
variable {cx : Ctx} {callf : String → List Val → Globals → Res} {pc : Nat} {st : St} {fr : Frame} {g : Globals}

theorem arr_list {e : ITy} {n : Nat} {ds : List Nat} {c : Val} (h : valOK (.arr e (n :: ds)) c = true) :
    ∃ vs, c = .list vs ∧ vs.length = n := by
  rw [valOK_arr] at h
  simp only [List.isEmpty_cons, Bool.not_false, Bool.true_and] at h
  obtain ⟨vs, rfl, hl, _⟩ := dimsOK_cons.1 h
  exact ⟨vs, rfl, hl⟩

theorem arr_key {e : ITy} {n k : Nat} {ds : List Nat} (h : k < n) :
    tyAtKey (.arr e (n :: ds)) (.idx k) = some (elemTy e ds) := by
  simp [tyAtKey, h]

theorem mkRI_ok {locs : Locs} {ty T0 : ITy} {root : Root} {p : List Key} {x : Val} (hT0 : rootTy cx locs root = some T0)
    (hp : tyAt T0 p = some ty) (hx : valOK ty x = true) :
    RegOK cx locs (if (ty.isAggregate && isAggVal x) = true then .ptr root p else x) (mkRI ty root) := by
  cases hagg : ty.isAggregate with
  | true =>
    have : isAggVal x = true := valOK_agg hagg hx
    simp only [mkRI, hagg, this, Bool.and_self, if_true]
    exact ⟨p, T0, rfl, hT0, hp⟩
  | false =>
    simp only [mkRI, hagg, Bool.false_and, Bool.false_eq_true, if_false]
    exact hx

theorem ite_next (c : Prop) [Decidable c] (pc : Nat) (fr : Frame) (d : Nat) (a b : Val) (g : Globals) :
    (if c then StepOut.next pc (VM.setReg fr d a) g else StepOut.next pc (VM.setReg fr d b) g) =
      StepOut.next pc (VM.setReg fr d (if c then a else b)) g := by
  split <;> rfl

/-! ### arrays -/

theorem step_loadArr {d : Nat} {ty : ITy} {arr idx : Opd} (hc : cx.code[pc]? = some (.loadArr d ty arr idx))
    (hinv : InvBody cx st fr g) (hok : ruleOK cx st (.loadArr d ty arr idx) = true) :
    StepPost cx st (.loadArr d ty arr idx) pc (stepI callf cx.code pc fr g) := by
  simp only [ruleOK] at hok
  cases hp : opdPtr st arr with
  | none => simp [hp] at hok
  | some q =>
    obtain ⟨ta, root⟩ := q
    simp only [hp] at hok
    cases ta with
    | arr e dims =>
      cases dims with
      | nil => simp at hok
      | cons n ds =>
        simp only [Bool.and_eq_true] at hok
        obtain ⟨hidx, hty⟩ := hok
        have := tyBeq_eq _ _ hty
        subst this
        obtain ⟨p, T0, he, hT0, hpt⟩ := opdPtr_eval hinv.regs hp
        obtain ⟨i, hi⟩ := isIntOpd_eval hinv.regs hinv.vars hidx
        obtain ⟨w, c, hw, _, hcg, hco⟩ := ptr_read hinv.vars hT0 hpt
        obtain ⟨vs, rfl, hl⟩ := arr_list hco
        have hdo : (do let root ← readRoot fr g root; getPath root p) = .ok (.list vs) := by
          simp [hw, hcg, bind, Except.bind]
        simp only [stepI, hc, he, hi, liftE_ok, hdo]
        cases hk : indexOf (.list vs) (.int i) with
        | error e' => exact ((indexOf_list vs i).2 e' hk).ok
        | ok k =>
          have hlt : k < n := by rw [← hl]; exact (indexOf_list vs i).1 k hk
          obtain ⟨x, hx, hxo⟩ := key_get hco (arr_key (e := e) (ds := ds) hlt)
          simp only [liftE_ok, hx, ite_next]
          refine Or.inl ⟨rfl, rfl, ?_⟩
          have hs : step cx st (.loadArr d (elemTy e ds) arr idx) = setReg st d (mkRI (elemTy e ds) root) := by
            simp [step, hp]
          rw [hs]
          exact inv_set hinv d (mkRI_ok hT0 (tyAt_snoc hpt (arr_key hlt)) hxo)
    | _ => simp at hok

theorem step_storeArr {arr idx src : Opd} (hc : cx.code[pc]? = some (.storeArr arr idx src))
    (hinv : InvBody cx st fr g) (hok : ruleOK cx st (.storeArr arr idx src) = true) :
    StepPost cx st (.storeArr arr idx src) pc (stepI callf cx.code pc fr g) := by
  simp only [ruleOK] at hok
  cases hp : opdPtr st arr with
  | none => simp [hp] at hok
  | some q =>
    obtain ⟨ta, root⟩ := q
    simp only [hp] at hok
    cases ta with
    | arr e dims =>
      cases dims with
      | nil => simp at hok
      | cons n ds =>
        simp only [Bool.and_eq_true] at hok
        obtain ⟨hidx, hsrc⟩ := hok
        obtain ⟨p, T0, he, hT0, hpt⟩ := opdPtr_eval hinv.regs hp
        obtain ⟨i, hi⟩ := isIntOpd_eval hinv.regs hinv.vars hidx
        rcases srcOK_eval hinv.regs hsrc with ⟨r', p', hes⟩ | ⟨v, hes, hvo⟩
        · simp only [stepI, hc, he, hi, hes, liftE_ok]
          exact (noInt_unsupported _).ok
        · obtain ⟨w, c, hw, hwo, hcg, hco⟩ := ptr_read hinv.vars hT0 hpt
          obtain ⟨vs, rfl, hl⟩ := arr_list hco
          simp only [stepI, hc, he, hi, hes, liftE_ok]
          split
          · rename_i r2 p2
            exact absurd rfl (valOK_ne_ptr hvo r2 p2)
          · simp only [hw, hcg, liftE_ok]
            cases hk : indexOf (.list vs) (.int i) with
            | error e' => exact ((indexOf_list vs i).2 e' hk).ok
            | ok k =>
              have hlt : k < n := by rw [← hl]; exact (indexOf_list vs i).1 k hk
              obtain ⟨w', hw', hwo'⟩ := path_set hwo (tyAt_snoc hpt (arr_key (e := e) (ds := ds) hlt)) hvo
              obtain ⟨fr', g', hwr, hv', hregs⟩ := vars_write hinv.vars hT0 hwo'
              simp only [liftE_ok, hw', hwr]
              exact Or.inl ⟨rfl, rfl, ⟨hinv.live, regs_frame hinv.regs hregs, hv'⟩⟩
    | _ => simp at hok

/-! ### structs -/

theorem step_loadMem {d : Nat} {ty : ITy} {obj : Opd} {field : String}
    (hc : cx.code[pc]? = some (.loadMem d ty obj field))
    (hinv : InvBody cx st fr g) (hok : ruleOK cx st (.loadMem d ty obj field) = true) :
    StepPost cx st (.loadMem d ty obj field) pc (stepI callf cx.code pc fr g) := by
  simp only [ruleOK] at hok
  cases hp : opdPtr st obj with
  | none => simp [hp] at hok
  | some q =>
    obtain ⟨ta, root⟩ := q
    simp only [hp] at hok
    cases ta with
    | struct nm fs =>
      simp only at hok
      cases hf : Map.get fs field with
      | none => simp [hf] at hok
      | some t =>
        simp only [hf] at hok
        have := tyBeq_eq _ _ hok
        subst this
        obtain ⟨p, T0, he, hT0, hpt⟩ := opdPtr_eval hinv.regs hp
        obtain ⟨w, c, hw, _, hcg, hco⟩ := ptr_read hinv.vars hT0 hpt
        have hkey : tyAtKey (.struct nm fs) (.fld field) = some ty := by simp [tyAtKey, hf]
        obtain ⟨x, hx, hxo⟩ := key_get hco hkey
        have hdo : (do let root ← readRoot fr g root; getPath root p) = .ok c := by
          simp [hw, hcg, bind, Except.bind]
        simp only [stepI, hc, he, liftE_ok, hdo, hx, ite_next]
        refine Or.inl ⟨rfl, rfl, ?_⟩
        have hs : step cx st (.loadMem d ty obj field) = setReg st d (mkRI ty root) := by
          simp [step, hp]
        rw [hs]
        exact inv_set hinv d (mkRI_ok hT0 (tyAt_snoc hpt hkey) hxo)
    | _ => simp at hok

theorem step_storeMem {obj : Opd} {field : String} {src : Opd} (hc : cx.code[pc]? = some (.storeMem obj field src))
    (hinv : InvBody cx st fr g) (hok : ruleOK cx st (.storeMem obj field src) = true) :
    StepPost cx st (.storeMem obj field src) pc (stepI callf cx.code pc fr g) := by
  simp only [ruleOK] at hok
  cases hp : opdPtr st obj with
  | none => simp [hp] at hok
  | some q =>
    obtain ⟨ta, root⟩ := q
    simp only [hp] at hok
    cases ta with
    | struct nm fs =>
      simp only at hok
      cases hf : Map.get fs field with
      | none => simp [hf] at hok
      | some t =>
        simp only [hf] at hok
        obtain ⟨p, T0, he, hT0, hpt⟩ := opdPtr_eval hinv.regs hp
        rcases srcOK_eval hinv.regs hok with ⟨r', p', hes⟩ | ⟨v, hes, hvo⟩
        · simp only [stepI, hc, he, hes, liftE_ok]
          exact (noInt_unsupported _).ok
        · obtain ⟨w, hw, hwo⟩ := vars_read hinv.vars hT0
          have hkey : tyAtKey (.struct nm fs) (.fld field) = some t := by simp [tyAtKey, hf]
          obtain ⟨w', hw', hwo'⟩ := path_set hwo (tyAt_snoc hpt hkey) hvo
          obtain ⟨fr', g', hwr, hv', hregs⟩ := vars_write hinv.vars hT0 hwo'
          simp only [stepI, hc, he, hes, liftE_ok]
          split
          · rename_i r2 p2
            exact absurd rfl (valOK_ne_ptr hvo r2 p2)
          · simp only [hw, hw', hwr, liftE_ok]
            exact Or.inl ⟨rfl, rfl, ⟨hinv.live, regs_frame hinv.regs hregs, hv'⟩⟩
    | _ => simp at hok

/-! ### components of vectors and matrices -/

theorem getElem_post {ins : Instr} {d : Nat} {ty : ITy} {v idx : Opd}
    (hstep : step cx st ins = setReg st d (.val ty)) (hnt : isTerm ins = false)
    (hinv : InvBody cx st fr g)
    (hok : (match opdTy st v with
      | some tv => isIntOpd st idx && getTyOK ty tv
      | none => false) = true) :
    StepPost cx st ins pc
      (liftE (evalVal fr g v) fun a => liftE (evalVal fr g idx) fun i => liftE (indexOf a i) fun k =>
        liftE (getKey a (.idx k)) fun x => .next (pc + 1) (VM.setReg fr d x) g) := by
  cases hv : opdTy st v with
  | none => simp [hv] at hok
  | some tv =>
    simp only [hv, Bool.and_eq_true] at hok
    obtain ⟨a, ha, hao⟩ := opdTy_eval hinv.regs hinv.vars hv
    obtain ⟨i, hi⟩ := isIntOpd_eval hinv.regs hinv.vars hok.1
    obtain ⟨e1, e2⟩ := elem_get (n := i) hok.2 hao
    simp only [ha, hi, liftE_ok]
    cases hk : indexOf a (.int i) with
    | error e => exact (e1 e hk).ok
    | ok k =>
      obtain ⟨x, hx, hxo⟩ := e2 k hk
      simp only [liftE_ok, hx]
      refine Or.inl ⟨rfl, hnt, ?_⟩
      rw [hstep]
      exact inv_set hinv d hxo

theorem step_vecGet {d : Nat} {ty : ITy} {v idx : Opd} (hc : cx.code[pc]? = some (.vecGet d ty v idx))
    (hinv : InvBody cx st fr g) (hok : ruleOK cx st (.vecGet d ty v idx) = true) :
    StepPost cx st (.vecGet d ty v idx) pc (stepI callf cx.code pc fr g) := by
  simp only [ruleOK] at hok
  simp only [stepI, hc]
  exact getElem_post rfl rfl hinv hok

theorem step_matGet {d : Nat} {ty : ITy} {v idx : Opd} (hc : cx.code[pc]? = some (.matGet d ty v idx))
    (hinv : InvBody cx st fr g) (hok : ruleOK cx st (.matGet d ty v idx) = true) :
    StepPost cx st (.matGet d ty v idx) pc (stepI callf cx.code pc fr g) := by
  simp only [ruleOK] at hok
  simp only [stepI, hc]
  exact getElem_post rfl rfl hinv hok

theorem setElem_post {ins : Instr} {d : Nat} {v idx src : Opd}
    (hstep : ∀ t, opdTy st v = some t → step cx st ins = setReg st d (.val t)) (hnt : isTerm ins = false)
    (hinv : InvBody cx st fr g)
    (hok : (match opdTy st v, opdTy st src with
      | some tv, some ts => isIntOpd st idx && setTyOK tv ts
      | _, _ => false) = true) :
    StepPost cx st ins pc
      (liftE (evalVal fr g v) fun a => liftE (evalVal fr g idx) fun i => liftE (evalVal fr g src) fun x =>
        liftE (indexOf a i) fun k => liftE (setKey a (.idx k) x) fun a' => .next (pc + 1) (VM.setReg fr d a') g) := by
  cases hv : opdTy st v with
  | none => simp [hv] at hok
  | some tv =>
    cases hs : opdTy st src with
    | none => simp [hv, hs] at hok
    | some ts =>
      simp only [hv, hs, Bool.and_eq_true] at hok
      obtain ⟨a, ha, hao⟩ := opdTy_eval hinv.regs hinv.vars hv
      obtain ⟨x, hx, hxo⟩ := opdTy_eval hinv.regs hinv.vars hs
      obtain ⟨i, hi⟩ := isIntOpd_eval hinv.regs hinv.vars hok.1
      have e1 := (elem_get (ty := ts) (n := i) (tv := tv) (a := a))
      simp only [ha, hi, hx, liftE_ok]
      cases hk : indexOf a (.int i) with
      | error e =>
        -- an index failure is never internal for a list indexed by an int
        have : noInt e := by
          unfold setTyOK at hok
          have h2 := hok.2
          split at h2
          · obtain ⟨vs, rfl, _, _⟩ := vec_iff.1 hao
            exact (indexOf_list vs i).2 e hk
          · obtain ⟨vs, rfl, _, _⟩ := mat_iff.1 hao
            exact (indexOf_list vs i).2 e hk
          · cases h2
        exact this.ok
      | ok k =>
        obtain ⟨a', ha', hao'⟩ := elem_set (n := i) hok.2 hao hxo k hk
        simp only [liftE_ok, ha']
        refine Or.inl ⟨rfl, hnt, ?_⟩
        rw [hstep tv hv]
        exact inv_set hinv d hao'

theorem step_vecSet {d : Nat} {ty : ITy} {v idx src : Opd} (hc : cx.code[pc]? = some (.vecSet d ty v idx src))
    (hinv : InvBody cx st fr g) (hok : ruleOK cx st (.vecSet d ty v idx src) = true) :
    StepPost cx st (.vecSet d ty v idx src) pc (stepI callf cx.code pc fr g) := by
  simp only [ruleOK] at hok
  simp only [stepI, hc]
  exact setElem_post (fun t ht => by simp [step, ht]) rfl hinv hok

theorem step_matSet {d : Nat} {ty : ITy} {v idx src : Opd} (hc : cx.code[pc]? = some (.matSet d ty v idx src))
    (hinv : InvBody cx st fr g) (hok : ruleOK cx st (.matSet d ty v idx src) = true) :
    StepPost cx st (.matSet d ty v idx src) pc (stepI callf cx.code pc fr g) := by
  simp only [ruleOK] at hok
  simp only [stepI, hc]
  exact setElem_post (fun t ht => by simp [step, ht]) rfl hinv hok

/-! ### swizzles, constructors -/

theorem step_shuffle {d : Nat} {ty : ITy} {a b : Opd} {idx : List Nat}
    (hc : cx.code[pc]? = some (.shuffle d ty a b idx))
    (hinv : InvBody cx st fr g) (hok : ruleOK cx st (.shuffle d ty a b idx) = true) :
    StepPost cx st (.shuffle d ty a b idx) pc (stepI callf cx.code pc fr g) := by
  simp only [ruleOK] at hok
  cases ha : opdTy st a with
  | none => simp [ha] at hok
  | some ta =>
    cases hb : opdTy st b with
    | none => simp [ha, hb] at hok
    | some tb =>
      simp only [ha, hb] at hok
      obtain ⟨x, hx, hxo⟩ := opdTy_eval hinv.regs hinv.vars ha
      obtain ⟨y, hy, hyo⟩ := opdTy_eval hinv.regs hinv.vars hb
      obtain ⟨z, hz, hzo⟩ := shuffleExec_sound hok hxo hyo
      simp only [stepI, hc, hx, hy, hz, liftE_ok]
      refine Or.inl ⟨rfl, rfl, ?_⟩
      simp only [step]
      exact inv_set hinv d hzo

theorem step_construct {d : Nat} {ty : ITy} {vals : List Opd} (hc : cx.code[pc]? = some (.construct d ty vals))
    (hinv : InvBody cx st fr g) (hok : ruleOK cx st (.construct d ty vals) = true) :
    StepPost cx st (.construct d ty vals) pc (stepI callf cx.code pc fr g) := by
  simp only [ruleOK] at hok
  cases hts : opdTys st vals with
  | none => simp [hts] at hok
  | some ts =>
    simp only [hts] at hok
    obtain ⟨vs, hvs, hvso⟩ := opdTys_eval hinv.regs hinv.vars hts
    obtain ⟨z, hz, hzo⟩ := constructExec_sound hok hvso
    simp only [stepI, hc, hvs, hz, liftE_ok]
    refine Or.inl ⟨rfl, rfl, ?_⟩
    simp only [step]
    exact inv_set hinv d hzo

end

/-! ## every instruction -/

theorem step_sound {cx : Ctx} {callf : String → List Val → Globals → Res} (hcall : CallSpec cx callf) {pc : Nat}
    {ins : Instr} (hc : cx.code[pc]? = some ins) {st : St} {fr : Frame} {g : Globals} (hinv : InvBody cx st fr g)
    (hok : ruleOK cx st ins = true) : StepPost cx st ins pc (stepI callf cx.code pc fr g) := by
  cases ins with
  | label l => exact step_label hc hinv hok
  | load d ty sc var => exact step_load hc hinv hok
  | store sc var src => exact step_store hc hinv hok
  | newVar d ty name => exact step_newVar hc hinv hok
  | bin d op ty a b => exact step_bin hc hinv hok
  | cast d ty a => exact step_cast hc hinv hok
  | br l => exact step_br hc hinv hok
  | brc p t f => exact step_brc hc hinv hok
  | ret o => exact step_ret hc hinv hok
  | call d ty fn args => exact step_call hcall hc hinv hok
  | loadArr d ty arr idx => exact step_loadArr hc hinv hok
  | storeArr arr idx src => exact step_storeArr hc hinv hok
  | loadMem d ty obj field => exact step_loadMem hc hinv hok
  | storeMem obj field src => exact step_storeMem hc hinv hok
  | vecGet d ty v idx => exact step_vecGet hc hinv hok
  | vecSet d ty v idx src => exact step_vecSet hc hinv hok
  | matGet d ty v idx => exact step_matGet hc hinv hok
  | matSet d ty v idx src => exact step_matSet hc hinv hok
  | shuffle d ty a b idx => exact step_shuffle hc hinv hok
  | construct d ty vals => exact step_construct hc hinv hok

end IRType
end Nsl
