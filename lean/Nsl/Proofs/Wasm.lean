import Nsl.Model.Wasm
import Nsl.Props.C19
/-!
# Helper lemmas for C07 (WebAssembly writer / decoder / validator / generator)
-/
set_option linter.unusedSimpArgs false

namespace Nsl.Wasm
open Nsl.Leb

/-! ## 1. The `PackInteger` mirror is the encoder -/

theorem py_wInt_eq (n : Nat) : Py.wInt n = encU n := pack_eq_encU n

theorem py_wInt_eq' : Py.wInt = encU := funext py_wInt_eq

theorem py_encVec_eq {α : Type} (f : α → List Nat) (xs : List α) :
    Py.encVec f xs = encVec f xs := by
  simp only [Py.encVec, encVec, py_wInt_eq]

theorem py_encFuncType_eq : Py.encFuncType = encFuncType := by
  funext ft; simp only [Py.encFuncType, encFuncType, py_encVec_eq]

theorem py_encTable_eq : Py.encTable = encTable := by
  funext n; simp only [Py.encTable, encTable, py_wInt_eq]

theorem py_encExport_eq : Py.encExport = encExport := by
  funext e
  simp only [Py.encExport, encExport, py_wInt_eq, writeStringPy, writeString, framePy_eq_frame]

theorem py_encLocal_eq : Py.encLocal = encLocal := by
  funext g; simp only [Py.encLocal, encLocal, py_wInt_eq]

theorem py_encInstr_eq : Py.encInstr = encInstr := by
  funext i; cases i <;> simp only [Py.encInstr, encInstr, py_wInt_eq]

theorem py_encCodeBody_eq (c : WCode) : Py.encCodeBody c = encCodeBody c := by
  simp only [Py.encCodeBody, encCodeBody, py_encVec_eq, py_encLocal_eq, py_encInstr_eq]

theorem py_encCode_eq : Py.encCode = encCode := by
  funext c; simp only [Py.encCode, encCode, py_encCodeBody_eq, framePy_eq_frame]

theorem py_encOptSection_eq {α : Type} (id : Nat) (f : α → List Nat) (xs : List α) :
    Py.encOptSection id f xs = encOptSection id f xs := by
  simp only [Py.encOptSection, encOptSection, py_encVec_eq, sectionBytesPy_eq]

theorem py_encModule_eq (m : WModule) : Py.encModule m = encModule m := by
  simp only [Py.encModule, encModule, py_encOptSection_eq, py_encVec_eq, sectionBytesPy_eq,
    py_encFuncType_eq, py_encTable_eq, py_encExport_eq, py_encCode_eq, py_wInt_eq']

/-! ## 2. Decoder ∘ encoder -/

theorem decVecN_enc {α : Type} {p : List Nat → Option (α × List Nat)} {f : α → List Nat} :
    ∀ (xs : List α), (∀ x ∈ xs, ∀ rest, p (f x ++ rest) = some (x, rest)) →
      ∀ rest, decVecN p xs.length (xs.flatMap f ++ rest) = some (xs, rest)
  | [], _, rest => by simp [decVecN]
  | x :: xs, h, rest => by
    have hx := h x (List.mem_cons_self ..) (xs.flatMap f ++ rest)
    have ih := decVecN_enc xs (fun y hy => h y (List.mem_cons_of_mem _ hy)) rest
    simp only [List.length_cons, List.flatMap_cons, List.append_assoc, decVecN, hx, ih]

theorem decVec_enc {α : Type} {p : List Nat → Option (α × List Nat)} {f : α → List Nat}
    (xs : List α) (h : ∀ x ∈ xs, ∀ rest, p (f x ++ rest) = some (x, rest)) (rest : List Nat) :
    decVec p (encVec f xs ++ rest) = some (xs, rest) := by
  simp only [decVec, encVec, List.append_assoc, decU_encU, decVecN_enc xs h rest]

theorem decVT_enc (t : VT) (rest : List Nat) : decVT (encVT t ++ rest) = some (t, rest) := by
  cases t <;> simp [decVT, encVT, VT.byte]

theorem decFuncType_enc (ft : FuncType) (rest : List Nat) :
    decFuncType (encFuncType ft ++ rest) = some (ft, rest) := by
  simp only [encFuncType, List.cons_append, List.append_assoc, decFuncType, if_true,
    decVec_enc _ (fun x _ r => decVT_enc x r)]

theorem decIdx_enc (i : Nat) (rest : List Nat) : decIdx (encU i ++ rest) = some (i, rest) :=
  decU_encU i rest

theorem decTable_enc (n : Nat) (rest : List Nat) :
    decTable (encTable n ++ rest) = some (n, rest) := by
  simp [encTable, decTable, decU_encU]

theorem bytesToString_utf8 (s : String) : bytesToString (utf8 s) = some s := by
  have hall : (utf8 s).all (· < 256) = true := by
    rw [List.all_eq_true]; intro b hb; simpa using utf8_bytes s b hb
  unfold bytesToString
  rw [hall, if_pos rfl]
  unfold utf8
  have : List.map UInt8.ofNat (List.map UInt8.toNat s.toUTF8.data.toList) =
      s.toUTF8.data.toList := by
    rw [List.map_map]
    conv => rhs; rw [← List.map_id s.toUTF8.data.toList]
    apply List.map_congr_left
    intro a _
    simp
  rw [this]
  simp only [String.toUTF8_eq_toByteArray, Array.toArray_toList]
  unfold String.fromUTF8?
  rw [dif_pos s.isValidUTF8]
  rfl

theorem decExport_enc (e : WExport) (rest : List Nat) :
    decExport (encExport e ++ rest) = some (e, rest) := by
  simp only [encExport, writeString, List.append_assoc, List.cons_append, decExport,
    unframe_frame, bytesToString_utf8, if_true, decU_encU]

theorem decLocal_enc (g : Nat × VT) (rest : List Nat) :
    decLocal (encLocal g ++ rest) = some (g, rest) := by
  have := decVT_enc g.2 rest
  simp only [encVT] at this
  simp only [encLocal, List.append_assoc, decLocal, decU_encU, this]

theorem NumOp.ofByte_byte (op : NumOp) : NumOp.ofByte op.byte = some op := by
  cases op <;> rfl

theorem le32_roundtrip (b : Nat) (h : b < 2 ^ 32) :
    b % 256 + 256 * (b / 256 % 256) + 65536 * (b / 65536 % 256) +
      16777216 * (b / 16777216 % 256) = b := by
  omega

theorem decInstr_enc (i : WInstr) (h : instrWF i = true) (rest : List Nat) :
    decInstr (encInstr i ++ rest) = some (i, rest) := by
  cases i with
  | localGet k => simp [encInstr, decInstr, decU_encU]
  | localSet k => simp [encInstr, decInstr, decU_encU]
  | i32Const v =>
    simp only [instrWF, decide_eq_true_eq] at h
    have h' : -2147483648 ≤ v ∧ v < 2147483648 := by omega
    simp [encInstr, decInstr, decS_encS, h']
  | f32Const b =>
    simp only [instrWF, decide_eq_true_eq] at h
    have h1 : b % 256 < 256 := Nat.mod_lt _ (by decide)
    have h2 : b / 256 % 256 < 256 := Nat.mod_lt _ (by decide)
    have h3 : b / 65536 % 256 < 256 := Nat.mod_lt _ (by decide)
    have h4 : b / 16777216 % 256 < 256 := Nat.mod_lt _ (by decide)
    simp [encInstr, decInstr, le32, h1, h2, h3, h4, le32_roundtrip b h]
  | num op =>
    cases op <;> simp [encInstr, decInstr, NumOp.byte, NumOp.ofByte]
  | ret => simp [encInstr, decInstr]

theorem encInstr_length_pos (i : WInstr) : 1 ≤ (encInstr i).length := by
  cases i <;> simp [encInstr]

theorem decExpr_enc : ∀ (is : List WInstr) (fuel : Nat), (∀ i ∈ is, instrWF i = true) →
    (is.flatMap encInstr).length + 1 ≤ fuel →
    decExpr fuel (is.flatMap encInstr ++ [0x0B]) = some is
  | [], fuel, _, hf => by
    obtain ⟨f, rfl⟩ : ∃ f, fuel = f + 1 := ⟨fuel - 1, by omega⟩
    simp [decExpr]
  | i :: is, fuel, hwf, hf => by
    obtain ⟨f, rfl⟩ : ∃ f, fuel = f + 1 := ⟨fuel - 1, by omega⟩
    have hlen := encInstr_length_pos i
    simp only [List.flatMap_cons, List.length_append] at hf
    have ih := decExpr_enc is f (fun j hj => hwf j (List.mem_cons_of_mem _ hj)) (by omega)
    have hne : encInstr i ++ List.flatMap encInstr is ++ [0x0B] ≠ [0x0B] := by
      intro hc
      have := congrArg List.length hc
      simp only [List.length_append, List.length_cons, List.length_nil] at this
      omega
    simp only [List.flatMap_cons, decExpr, hne, if_false, List.append_assoc,
      decInstr_enc i (hwf i (List.mem_cons_self ..)), ih]
    rw [List.append_assoc] at hne
    simp only [hne, if_false]

theorem decCodeBody_enc (c : WCode) (h : ∀ i ∈ c.body, instrWF i = true) :
    decCodeBody (encCodeBody c) = some c := by
  simp only [decCodeBody, encCodeBody, decVec_enc _ (fun g _ r => decLocal_enc g r)]
  rw [decExpr_enc c.body _ h (by simp)]

theorem decCode_enc (c : WCode) (h : ∀ i ∈ c.body, instrWF i = true) (rest : List Nat) :
    decCode (encCode c ++ rest) = some (c, rest) := by
  simp only [decCode, encCode, unframe_frame, decCodeBody_enc c h]

/-! ### Sections -/

/-- The first byte of `bs`, if any, is larger than `k`. -/
def HeadGt (k : Nat) (bs : List Nat) : Prop := ∀ b ∈ bs.head?, k < b

theorem headGt_nil (k : Nat) : HeadGt k [] := by simp [HeadGt]

theorem headGt_section {k id : Nat} (h : k < id) (p rest : List Nat) :
    HeadGt k (sectionBytes id p ++ rest) := by
  simp [HeadGt, sectionBytes, h]

theorem headGt_opt {α : Type} {k id : Nat} (h : k < id) (f : α → List Nat) (xs : List α)
    {rest : List Nat} (hr : HeadGt k rest) : HeadGt k (encOptSection id f xs ++ rest) := by
  unfold encOptSection
  split
  · simpa using hr
  · exact headGt_section h _ _

theorem HeadGt.mono {k k' : Nat} {bs : List Nat} (h : HeadGt k' bs) (hk : k ≤ k') : HeadGt k bs :=
  fun b hb => Nat.lt_of_le_of_lt hk (h b hb)

theorem decSectionOpt_present {α : Type} {p : List Nat → Option (α × List Nat)} {f : α → List Nat}
    (id : Nat) (xs : List α) (h : ∀ x ∈ xs, ∀ rest, p (f x ++ rest) = some (x, rest))
    (rest : List Nat) :
    decSectionOpt id p (sectionBytes id (encVec f xs) ++ rest) = some (xs, rest) := by
  have h1 := unsection_section id (encVec f xs) rest
  have h2 := decVec_enc xs h []
  rw [List.append_nil] at h2
  simp only [sectionBytes, List.cons_append] at h1 ⊢
  simp only [decSectionOpt, if_true, h1, h2]

theorem decSectionOpt_absent {α : Type} {p : List Nat → Option (α × List Nat)}
    (id : Nat) (bs : List Nat) (h : HeadGt id bs) :
    decSectionOpt id p bs = some ([], bs) := by
  cases bs with
  | nil => rfl
  | cons b r =>
    have : b ≠ id := by
      have := h b (by simp)
      omega
    simp [decSectionOpt, this]

theorem decSectionOpt_enc {α : Type} {p : List Nat → Option (α × List Nat)} {f : α → List Nat}
    (id : Nat) (xs : List α) (h : ∀ x ∈ xs, ∀ rest, p (f x ++ rest) = some (x, rest))
    (rest : List Nat) (hr : HeadGt id rest) :
    decSectionOpt id p (encOptSection id f xs ++ rest) = some (xs, rest) := by
  unfold encOptSection
  cases xs with
  | nil => simpa using decSectionOpt_absent id rest hr
  | cons x xs => simpa using decSectionOpt_present id (x :: xs) h rest

theorem mem_codes_wf {m : WModule} (h : WellFormed m) :
    ∀ c ∈ m.codes, ∀ i ∈ c.body, instrWF i = true := by
  intro c hc i hi
  simp only [WellFormed, wellFormed, List.all_eq_true] at h
  exact h c hc i hi

theorem dec_enc' (m : WModule) (h : WellFormed m) : decModule (encModule m) = some m := by
  have hwf := mem_codes_wf h
  have e5 : decSectionOpt 10 decCode (encOptSection 10 encCode m.codes ++ []) = some (m.codes, []) :=
    decSectionOpt_enc 10 m.codes (fun c hc r => decCode_enc c (hwf c hc) r) [] (headGt_nil _)
  rw [List.append_nil] at e5
  have g5 : HeadGt 7 (encOptSection 10 encCode m.codes) := by
    have := headGt_opt (k := 7) (id := 10) (by decide) encCode m.codes (headGt_nil 7)
    rwa [List.append_nil] at this
  have e4 := decSectionOpt_enc 7 m.exports (fun e _ r => decExport_enc e r) _ g5
  have g4 : HeadGt 4 (encOptSection 7 encExport m.exports ++ encOptSection 10 encCode m.codes) :=
    headGt_opt (by decide) _ _ (g5.mono (by decide))
  have e3 := decSectionOpt_enc 4 m.tables (fun e _ r => decTable_enc e r) _ g4
  have g3 : HeadGt 3 (encOptSection 4 encTable m.tables ++
      (encOptSection 7 encExport m.exports ++ encOptSection 10 encCode m.codes)) :=
    headGt_opt (by decide) _ _ (g4.mono (by decide))
  have e2 := decSectionOpt_enc 3 m.funcs (fun e _ r => decIdx_enc e r) _ g3
  have e1 := decSectionOpt_present 1 m.types (fun e _ r => decFuncType_enc e r)
    (encOptSection 3 encU m.funcs ++ (encOptSection 4 encTable m.tables ++
      (encOptSection 7 encExport m.exports ++ encOptSection 10 encCode m.codes)))
  unfold decModule encModule
  have htake : ∀ r : List Nat, (magic ++ (version ++ r)).take 8 =
      [0x00, 0x61, 0x73, 0x6D, 0x01, 0x00, 0x00, 0x00] := by
    intro r; simp [magic, version]
  have hdrop : ∀ r : List Nat, (magic ++ (version ++ r)).drop 8 = r := by
    intro r; simp [magic, version]
  rw [htake, hdrop, if_pos rfl]
  simp only [e1, e2, e3, e4, e5, if_true]

/-! ## 3. Section structure: ids ascending, every size field exact -/

theorem scanSections_flatMap : ∀ (secs : List (Nat × List Nat)),
    scanSections secs.length (secs.flatMap fun s => sectionBytes s.1 s.2) = some secs
  | [] => by simp [scanSections]
  | s :: secs => by
    have ih := scanSections_flatMap secs
    have h1 := unsection_section s.1 s.2 (secs.flatMap fun s => sectionBytes s.1 s.2)
    simp only [sectionBytes, List.cons_append] at h1
    simp only [List.flatMap_cons, List.length_cons, sectionBytes, List.cons_append, scanSections,
      h1]
    simp only [sectionBytes] at ih
    rw [ih]

theorem encOptSection_entries {α : Type} (id : Nat) (f : α → List Nat) (xs : List α) :
    encOptSection id f xs = (optSectionEntry id f xs).flatMap fun s => sectionBytes s.1 s.2 := by
  unfold encOptSection optSectionEntry
  split <;> simp

theorem optSectionEntry_id {α : Type} (id : Nat) (f : α → List Nat) (xs : List α) :
    ∀ s ∈ optSectionEntry id f xs, s.1 = id := by
  intro s hs
  unfold optSectionEntry at hs
  split at hs
  · simp at hs
  · simp only [List.mem_singleton] at hs; subst hs; rfl

theorem encModule_sections (m : WModule) :
    encModule m = magic ++ (version ++ (sectionsOf m).flatMap fun s => sectionBytes s.1 s.2) := by
  simp only [encModule, sectionsOf, encOptSection_entries, List.flatMap_cons, List.flatMap_append]

theorem sectionsOf_ascending (m : WModule) :
    ((sectionsOf m).map (·.1)).Pairwise (· < ·) := by
  simp only [sectionsOf, optSectionEntry]
  repeat' split
  all_goals simp

theorem code_payload_bodies (cs : List WCode) (rest : List Nat) :
    decVec unframe (encVec encCode cs ++ rest) = some (cs.map encCodeBody, rest) := by
  have h := decVec_enc (p := unframe) (f := frame) (cs.map encCodeBody)
    (fun x _ r => unframe_frame x r) rest
  simp only [encVec, List.length_map, List.flatMap_map] at h
  have he : encCode = fun a => frame (encCodeBody a) := rfl
  simpa only [encVec, he] using h

/-! ## 4. Every emitted element is a byte -/

def AllBytes (bs : List Nat) : Prop := ∀ b ∈ bs, b < 256

theorem allBytes_nil : AllBytes [] := by simp [AllBytes]

theorem allBytes_append {a b : List Nat} (ha : AllBytes a) (hb : AllBytes b) : AllBytes (a ++ b) := by
  intro x hx
  rcases List.mem_append.1 hx with h | h
  · exact ha x h
  · exact hb x h

theorem allBytes_cons {a : Nat} {b : List Nat} (ha : a < 256) (hb : AllBytes b) :
    AllBytes (a :: b) := by
  intro x hx
  rcases List.mem_cons.1 hx with h | h
  · subst h; exact ha
  · exact hb x h

theorem allBytes_flatMap {α : Type} {f : α → List Nat} {xs : List α}
    (h : ∀ x ∈ xs, AllBytes (f x)) : AllBytes (xs.flatMap f) := by
  intro b hb
  obtain ⟨x, hx, hbx⟩ := List.mem_flatMap.1 hb
  exact h x hx b hbx

theorem allBytes_encU (n : Nat) : AllBytes (encU n) := encU_bytes n

theorem allBytes_frame {p : List Nat} (h : AllBytes p) : AllBytes (frame p) :=
  allBytes_append (allBytes_encU _) h

theorem allBytes_section {id : Nat} {p : List Nat} (hid : id < 256) (h : AllBytes p) :
    AllBytes (sectionBytes id p) :=
  allBytes_cons hid (allBytes_frame h)

theorem allBytes_encVec {α : Type} {f : α → List Nat} {xs : List α}
    (h : ∀ x ∈ xs, AllBytes (f x)) : AllBytes (encVec f xs) :=
  allBytes_append (allBytes_encU _) (allBytes_flatMap h)

theorem VT.byte_lt (t : VT) : t.byte < 256 := by cases t <;> decide

theorem NumOp.byte_lt (o : NumOp) : o.byte < 256 := by cases o <;> decide

theorem allBytes_encVT (t : VT) : AllBytes (encVT t) :=
  allBytes_cons t.byte_lt allBytes_nil

theorem allBytes_encFuncType (ft : FuncType) : AllBytes (encFuncType ft) :=
  allBytes_cons (by decide) (allBytes_append (allBytes_encVec fun t _ => allBytes_encVT t)
    (allBytes_encVec fun t _ => allBytes_encVT t))

theorem allBytes_encTable (n : Nat) : AllBytes (encTable n) :=
  allBytes_cons (by decide) (allBytes_cons (by decide) (allBytes_encU n))

theorem allBytes_encExport (e : WExport) : AllBytes (encExport e) :=
  allBytes_append (allBytes_frame (utf8_bytes e.name)) (allBytes_cons (by decide) (allBytes_encU _))

theorem allBytes_encLocal (g : Nat × VT) : AllBytes (encLocal g) :=
  allBytes_append (allBytes_encU _) (allBytes_cons g.2.byte_lt allBytes_nil)

theorem allBytes_le32 (n : Nat) : AllBytes (le32 n) := by
  intro b hb
  simp only [le32, List.mem_cons, List.not_mem_nil, or_false] at hb
  omega

theorem allBytes_encInstr (i : WInstr) : AllBytes (encInstr i) := by
  cases i with
  | localGet k => exact allBytes_cons (by decide) (allBytes_encU k)
  | localSet k => exact allBytes_cons (by decide) (allBytes_encU k)
  | i32Const v => exact allBytes_cons (by decide) (encS_bytes v)
  | f32Const b => exact allBytes_cons (by decide) (allBytes_le32 b)
  | num o => exact allBytes_cons o.byte_lt allBytes_nil
  | ret => exact allBytes_cons (by decide) allBytes_nil

theorem allBytes_encCode (c : WCode) : AllBytes (encCode c) :=
  allBytes_frame (allBytes_append (allBytes_encVec fun g _ => allBytes_encLocal g)
    (allBytes_append (allBytes_flatMap fun i _ => allBytes_encInstr i)
      (allBytes_cons (by decide) allBytes_nil)))

theorem allBytes_encOptSection {α : Type} {id : Nat} {f : α → List Nat} {xs : List α}
    (hid : id < 256) (h : ∀ x ∈ xs, AllBytes (f x)) : AllBytes (encOptSection id f xs) := by
  unfold encOptSection
  split
  · exact allBytes_nil
  · exact allBytes_section hid (allBytes_encVec h)

theorem allBytes_encModule (m : WModule) : AllBytes (encModule m) := by
  unfold encModule
  refine allBytes_append (by intro b hb; simp [magic] at hb; omega)
    (allBytes_append (by intro b hb; simp [version] at hb; omega) ?_)
  refine allBytes_append (allBytes_section (by decide)
    (allBytes_encVec fun ft _ => allBytes_encFuncType ft)) ?_
  refine allBytes_append (allBytes_encOptSection (by decide) fun i _ => allBytes_encU i) ?_
  refine allBytes_append (allBytes_encOptSection (by decide) fun i _ => allBytes_encTable i) ?_
  exact allBytes_append (allBytes_encOptSection (by decide) fun e _ => allBytes_encExport e)
    (allBytes_encOptSection (by decide) fun c _ => allBytes_encCode c)

end Nsl.Wasm
