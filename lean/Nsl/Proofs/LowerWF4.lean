import Nsl.Proofs.LowerWF2
/-!
# The lowering model only produces well-formed IR — part 4: distinct labels for EVERY module of the typed core

`lowerS_shape` (scalar core) and `lowerS_shapeS` (storage core) prove that the labels of a statement fragment lie in
`[k, k')` and are pairwise distinct, using two facts about expression code: it contains no markers and the counter
is monotone.  Both facts hold for every expression of the typed core (`lowerE_mono`, and `AllE.noLabels` of
`LowerWF1`), so the labels are distinct without any restriction on the program: `lowerS_shapeG`.
-/
set_option linter.unusedSimpArgs false
namespace Nsl
namespace Lower
open Core Opt WF

/-! ## The counter is monotone (all expression forms) -/

mutual
  theorem lowerE_mono : ∀ (e : Expr) (k : Nat) (c : List Instr) (o : Opd) (k' : Nat),
      lowerE e k = (c, o, k') → k ≤ k'
    | .litI i, k, c, o, k', h => by
      simp only [lowerE, Prod.mk.injEq] at h
      obtain ⟨-, -, rfl⟩ := h
      exact Nat.le_refl _
    | .litF f, k, c, o, k', h => by
      simp only [lowerE, Prod.mk.injEq] at h
      obtain ⟨-, -, rfl⟩ := h
      exact Nat.le_refl _
    | .var sc key ty, k, c, o, k', h => by
      simp only [lowerE, Prod.mk.injEq] at h
      obtain ⟨-, -, rfl⟩ := h
      omega
    | .bin op ty l r, k, c, o, k', h => by
      rcases hel : lowerE l k with ⟨cl, vl, k1⟩
      rcases her : lowerE r k1 with ⟨cr, vr, k2⟩
      have il := lowerE_mono l k cl vl k1 hel
      have ir := lowerE_mono r k1 cr vr k2 her
      rcases hmm : rowsMM op (Expr.ty l) (Expr.ty r) ty vl vr (rowCount (Expr.ty l)) k2 with ⟨c3, r3, k3⟩
      rcases hsm : rowsSM op (Expr.ty l) (Expr.ty r) ty vl vr (rowCount (Expr.ty r)) k2 with ⟨c4, r4, k4⟩
      rcases hms : rowsMS op (Expr.ty l) (Expr.ty r) ty vl vr (rowCount (Expr.ty l)) k2 with ⟨c5, r5, k5⟩
      have i3 := (rowsMM_shape _ _ _ _ _ _ _ _ _ _ _ hmm).2
      have i4 := (rowsSM_shape _ _ _ _ _ _ _ _ _ _ _ hsm).2
      have i5 := (rowsMS_shape _ _ _ _ _ _ _ _ _ _ _ hms).2
      simp only [lowerE, hel, her, hmm, hsm, hms] at h
      split at h
      · split at h
        · simp only [Prod.mk.injEq] at h
          obtain ⟨-, -, rfl⟩ := h
          omega
        · simp only [Prod.mk.injEq] at h
          obtain ⟨-, -, rfl⟩ := h
          omega
      · split at h
        · simp only [Prod.mk.injEq] at h
          obtain ⟨-, -, rfl⟩ := h
          omega
        · split at h
          · simp only [Prod.mk.injEq] at h
            obtain ⟨-, -, rfl⟩ := h
            omega
          · split at h
            · simp only [Prod.mk.injEq] at h
              obtain ⟨-, -, rfl⟩ := h
              omega
            · simp only [Prod.mk.injEq] at h
              obtain ⟨-, -, rfl⟩ := h
              omega
    | .cast ty e, k, c, o, k', h => by
      rcases he : lowerE e k with ⟨c1, v1, k1⟩
      have ie := lowerE_mono e k c1 v1 k1 he
      simp only [lowerE, he, Prod.mk.injEq] at h
      obtain ⟨-, -, rfl⟩ := h
      omega
    | .assign lhs rhs, k, c, o, k', h => by
      rcases he : lowerE rhs k with ⟨c1, v1, k1⟩
      rcases hs : lowerStore lhs v1 k1 with ⟨c2, k2⟩
      have ie := lowerE_mono rhs k c1 v1 k1 he
      have is := lowerStore_mono lhs v1 k1 c2 k2 hs
      simp only [lowerE, he, hs, Prod.mk.injEq] at h
      obtain ⟨-, -, rfl⟩ := h
      omega
    | .affix post inc x, k, c, o, k', h => by
      rcases he : lowerE x k with ⟨c1, v1, k1⟩
      rcases hs : lowerStore x (.ref k1) (k1 + 1) with ⟨c2, k2⟩
      have ie := lowerE_mono x k c1 v1 k1 he
      have is := lowerStore_mono x (.ref k1) (k1 + 1) c2 k2 hs
      simp only [lowerE, he, hs, Prod.mk.injEq] at h
      obtain ⟨-, -, rfl⟩ := h
      omega
    | .call fn ty args, k, c, o, k', h => by
      rcases ha : lowerArgs args k with ⟨c1, vs, k1⟩
      have ia := lowerArgs_mono args k c1 vs k1 ha
      simp only [lowerE, ha, Prod.mk.injEq] at h
      obtain ⟨-, -, rfl⟩ := h
      omega
    | .index kind ty base idx, k, c, o, k', h => by
      rcases heb : lowerE base k with ⟨cb, vb, k1⟩
      rcases hei : lowerE idx k1 with ⟨ci, vi, k2⟩
      have ib := lowerE_mono base k cb vb k1 heb
      have ii := lowerE_mono idx k1 ci vi k2 hei
      simp only [lowerE, heb, hei, Prod.mk.injEq] at h
      obtain ⟨-, -, rfl⟩ := h
      omega
    | .member ty base field, k, c, o, k', h => by
      rcases heb : lowerE base k with ⟨cb, vb, k1⟩
      have ib := lowerE_mono base k cb vb k1 heb
      simp only [lowerE, heb, Prod.mk.injEq] at h
      obtain ⟨-, -, rfl⟩ := h
      omega
    | .swizzle ty base idxs, k, c, o, k', h => by
      rcases heb : lowerE base k with ⟨cb, vb, k1⟩
      have ib := lowerE_mono base k cb vb k1 heb
      simp only [lowerE, heb, Prod.mk.injEq] at h
      obtain ⟨-, -, rfl⟩ := h
      omega
    | .construct ty args, k, c, o, k', h => by
      rcases ha : lowerArgs args k with ⟨c1, vs, k1⟩
      have ia := lowerArgs_mono args k c1 vs k1 ha
      simp only [lowerE, ha, Prod.mk.injEq] at h
      obtain ⟨-, -, rfl⟩ := h
      omega
  termination_by e => (sizeOf e, 0)
  theorem lowerArgs_mono : ∀ (as : Args) (k : Nat) (c : List Instr) (os : List Opd) (k' : Nat),
      lowerArgs as k = (c, os, k') → k ≤ k'
    | .nil, k, c, os, k', h => by
      simp only [lowerArgs, Prod.mk.injEq] at h
      obtain ⟨-, -, rfl⟩ := h
      exact Nat.le_refl _
    | .cons e rest, k, c, os, k', h => by
      rcases he : lowerE e k with ⟨c1, v1, k1⟩
      rcases hr : lowerArgs rest k1 with ⟨c2, vs, k2⟩
      have ie := lowerE_mono e k c1 v1 k1 he
      have ir := lowerArgs_mono rest k1 c2 vs k2 hr
      simp only [lowerArgs, he, hr, Prod.mk.injEq] at h
      obtain ⟨-, -, rfl⟩ := h
      omega
  termination_by as => (sizeOf as, 0)
  theorem lowerStore_mono : ∀ (e : Expr) (v : Opd) (k : Nat) (c : List Instr) (k' : Nat),
      lowerStore e v k = (c, k') → k ≤ k'
    | .var sc key ty, v, k, c, k', h => by
      simp only [lowerStore, Prod.mk.injEq] at h
      obtain ⟨-, rfl⟩ := h
      omega
    | .index kind ty base idx, v, k, c, k', h => by
      rcases heb : lowerE base k with ⟨cb, vb, k1⟩
      rcases hei : lowerE idx k1 with ⟨ci, vi, k2⟩
      rcases hsb : lowerStore base (.ref k2) (k2 + 1) with ⟨cs, k3⟩
      have ib := lowerE_mono base k cb vb k1 heb
      have ii := lowerE_mono idx k1 ci vi k2 hei
      have is := lowerStore_mono base (.ref k2) (k2 + 1) cs k3 hsb
      cases kind with
      | arr =>
        simp only [lowerStore, heb, hei, Prod.mk.injEq] at h
        obtain ⟨-, rfl⟩ := h
        omega
      | vec =>
        simp only [lowerStore, heb, hei, hsb, Prod.mk.injEq] at h
        obtain ⟨-, rfl⟩ := h
        omega
      | mat =>
        simp only [lowerStore, heb, hei, hsb, Prod.mk.injEq] at h
        obtain ⟨-, rfl⟩ := h
        omega
    | .member ty base field, v, k, c, k', h => by
      rcases heb : lowerE base k with ⟨cb, vb, k1⟩
      have ib := lowerE_mono base k cb vb k1 heb
      simp only [lowerStore, heb, Prod.mk.injEq] at h
      obtain ⟨-, rfl⟩ := h
      omega
    | .swizzle ty base idxs, v, k, c, k', h => by
      rcases heb : lowerE base k with ⟨cb, vb, k1⟩
      rcases hsb : lowerStore base (.ref k1) (k1 + 1) with ⟨cs, k2⟩
      have ib := lowerE_mono base k cb vb k1 heb
      have is := lowerStore_mono base (.ref k1) (k1 + 1) cs k2 hsb
      simp only [lowerStore, heb, hsb, Prod.mk.injEq] at h
      obtain ⟨-, rfl⟩ := h
      omega
    | .litI i, v, k, c, k', h => by
      rcases he : lowerE (.litI i) k with ⟨c1, v1, k1⟩
      have ie := lowerE_mono _ k c1 v1 k1 he
      simp only [lowerStore, he, Prod.mk.injEq] at h
      obtain ⟨-, rfl⟩ := h
      exact ie
    | .litF f, v, k, c, k', h => by
      rcases he : lowerE (.litF f) k with ⟨c1, v1, k1⟩
      have ie := lowerE_mono _ k c1 v1 k1 he
      simp only [lowerStore, he, Prod.mk.injEq] at h
      obtain ⟨-, rfl⟩ := h
      exact ie
    | .bin op ty l r, v, k, c, k', h => by
      rcases he : lowerE (.bin op ty l r) k with ⟨c1, v1, k1⟩
      have ie := lowerE_mono _ k c1 v1 k1 he
      simp only [lowerStore, he, Prod.mk.injEq] at h
      obtain ⟨-, rfl⟩ := h
      exact ie
    | .cast ty e, v, k, c, k', h => by
      rcases he : lowerE (.cast ty e) k with ⟨c1, v1, k1⟩
      have ie := lowerE_mono _ k c1 v1 k1 he
      simp only [lowerStore, he, Prod.mk.injEq] at h
      obtain ⟨-, rfl⟩ := h
      exact ie
    | .assign lhs rhs, v, k, c, k', h => by
      rcases he : lowerE (.assign lhs rhs) k with ⟨c1, v1, k1⟩
      have ie := lowerE_mono _ k c1 v1 k1 he
      simp only [lowerStore, he, Prod.mk.injEq] at h
      obtain ⟨-, rfl⟩ := h
      exact ie
    | .affix post inc x, v, k, c, k', h => by
      rcases he : lowerE (.affix post inc x) k with ⟨c1, v1, k1⟩
      have ie := lowerE_mono _ k c1 v1 k1 he
      simp only [lowerStore, he, Prod.mk.injEq] at h
      obtain ⟨-, rfl⟩ := h
      exact ie
    | .call fn ty args, v, k, c, k', h => by
      rcases he : lowerE (.call fn ty args) k with ⟨c1, v1, k1⟩
      have ie := lowerE_mono _ k c1 v1 k1 he
      simp only [lowerStore, he, Prod.mk.injEq] at h
      obtain ⟨-, rfl⟩ := h
      exact ie
    | .construct ty args, v, k, c, k', h => by
      rcases he : lowerE (.construct ty args) k with ⟨c1, v1, k1⟩
      have ie := lowerE_mono _ k c1 v1 k1 he
      simp only [lowerStore, he, Prod.mk.injEq] at h
      obtain ⟨-, rfl⟩ := h
      exact ie
  termination_by e => (sizeOf e, 1)
end

/-- Expression code never contains a marker (all expression forms). -/
theorem lowerE_noLabels (e : Expr) (k : Nat) (c : List Instr) (o : Opd) (k' : Nat) (h : lowerE e k = (c, o, k')) :
    NoLabels c :=
  (lowerE_allE (fun _ _ => true) e (callsE_top e) k c o k' h).noLabels

theorem lowerE_shapeG (e : Expr) (k : Nat) (c : List Instr) (o : Opd) (k' : Nat) (h : lowerE e k = (c, o, k')) :
    NoLabels c ∧ k ≤ k' :=
  ⟨lowerE_noLabels e k c o k' h, lowerE_mono e k c o k' h⟩

theorem lowerOptE_shapeG : ∀ (oe : Option Expr) (k : Nat) (c : List Instr) (o : Option Opd) (k' : Nat),
    lowerOptE oe k = (c, o, k') → NoLabels c ∧ k ≤ k'
  | none, k, c, o, k', h => by
    simp only [lowerOptE, Prod.mk.injEq] at h
    obtain ⟨rfl, rfl, rfl⟩ := h
    exact ⟨NoLabels.nil, Nat.le_refl _⟩
  | some e, k, c, o, k', h => by
    rcases he : lowerE e k with ⟨c1, v1, k1⟩
    obtain ⟨nl, le⟩ := lowerE_shapeG e k c1 v1 k1 he
    simp only [lowerOptE, he, Prod.mk.injEq] at h
    obtain ⟨rfl, rfl, rfl⟩ := h
    exact ⟨nl, le⟩

/-! ## Statements: the labels of a fragment lie in `[k, k')` and are pairwise distinct — no hypothesis -/

theorem lowerS_shapeG : ∀ (s : Stmt) (brk cont : Option Nat) (k : Nat)
    (c : List Instr) (k' : Nat), lowerS brk cont s k = (c, k') → k ≤ k' ∧ Ranged c k k'
  | .skip, brk, cont, k, c, k', h => by
    simp only [lowerS, Prod.mk.injEq] at h
    obtain ⟨rfl, rfl⟩ := h
    exact ⟨Nat.le_refl _, Ranged.of_noLabels NoLabels.nil _ _⟩
  | .decl name ty none, brk, cont, k, c, k', h => by
    simp only [lowerS, Prod.mk.injEq] at h
    obtain ⟨rfl, rfl⟩ := h
    exact ⟨by omega, Ranged.of_noLabels (NoLabels.cons rfl NoLabels.nil) _ _⟩
  | .decl name ty (some e), brk, cont, k, c, k', h => by
    rcases he : lowerE e (k + 1) with ⟨c1, v1, k1⟩
    obtain ⟨nl, le⟩ := lowerE_shapeG e (k + 1) c1 v1 k1 he
    simp only [lowerS, he, Prod.mk.injEq] at h
    obtain ⟨rfl, rfl⟩ := h
    exact ⟨by omega, Ranged.of_noLabels (NoLabels.append (NoLabels.append (NoLabels.cons rfl NoLabels.nil) nl)
      (NoLabels.cons rfl NoLabels.nil)) _ _⟩
  | .expr e, brk, cont, k, c, k', h => by
    rcases he : lowerE e k with ⟨c1, v1, k1⟩
    obtain ⟨nl, le⟩ := lowerE_shapeG e k c1 v1 k1 he
    simp only [lowerS, he, Prod.mk.injEq] at h
    obtain ⟨rfl, rfl⟩ := h
    exact ⟨le, Ranged.of_noLabels nl _ _⟩
  | .seq a b, brk, cont, k, c, k', h => by
    rcases ha : lowerS brk cont a k with ⟨ca, k1⟩
    rcases hb : lowerS brk cont b k1 with ⟨cb, k2⟩
    obtain ⟨le1, r1, n1⟩ := lowerS_shapeG a brk cont k ca k1 ha
    obtain ⟨le2, r2, n2⟩ := lowerS_shapeG b brk cont k1 cb k2 hb
    simp only [lowerS, ha, hb, Prod.mk.injEq] at h
    obtain ⟨rfl, rfl⟩ := h
    refine ⟨by omega, ?_, ?_⟩
    · intro l hl
      simp only [labels_append, List.mem_append] at hl
      rcases hl with hl | hl
      · have := r1 l hl; omega
      · have := r2 l hl; omega
    · simp only [labels_append]
      refine List.nodup_append.2 ⟨n1, n2, ?_⟩
      intro x hx y hy hxy
      have := r1 x hx; have := r2 y hy; omega
  | .ite1 cnd t, brk, cont, k, c, k', h => by
    rcases hc : lowerE cnd k with ⟨cc, v, k1⟩
    rcases ht : lowerS brk cont t (k1 + 2) with ⟨ct, k2⟩
    obtain ⟨nl, le1⟩ := lowerE_shapeG cnd k cc v k1 hc
    obtain ⟨le2, r2, n2⟩ := lowerS_shapeG t brk cont (k1 + 2) ct k2 ht
    simp only [lowerS, hc, ht, Prod.mk.injEq] at h
    obtain ⟨rfl, rfl⟩ := h
    refine ⟨by omega, ?_⟩
    unfold Ranged
    simp only [labels_append, labels_cons_brc, labels_cons_br, labels_cons_label, labels_nil, nl.labels_eq,
      List.nil_append, List.append_nil]
    ranged_close
  | .ite2 cnd t e, brk, cont, k, c, k', h => by
    rcases hc : lowerE cnd k with ⟨cc, v, k1⟩
    rcases ht : lowerS brk cont t (k1 + 3) with ⟨ct, k2⟩
    rcases hel : lowerS brk cont e k2 with ⟨ce, k3⟩
    obtain ⟨nl, le1⟩ := lowerE_shapeG cnd k cc v k1 hc
    obtain ⟨le2, r2, n2⟩ := lowerS_shapeG t brk cont (k1 + 3) ct k2 ht
    obtain ⟨le3, r3, n3⟩ := lowerS_shapeG e brk cont k2 ce k3 hel
    simp only [lowerS, hc, ht, hel, Prod.mk.injEq] at h
    obtain ⟨rfl, rfl⟩ := h
    refine ⟨by omega, ?_⟩
    unfold Ranged
    simp only [labels_append, labels_cons_brc, labels_cons_br, labels_cons_label, labels_nil, nl.labels_eq,
      List.nil_append, List.append_nil]
    ranged_close
  | .whileL cnd body, brk, cont, k, c, k', h => by
    rcases hc : lowerE cnd (k + 3) with ⟨cc, v, k1⟩
    rcases hb : lowerS (some (k + 2)) (some k) body k1 with ⟨cb, k2⟩
    obtain ⟨nl, le1⟩ := lowerE_shapeG cnd (k + 3) cc v k1 hc
    obtain ⟨le2, r2, n2⟩ := lowerS_shapeG body (some (k + 2)) (some k) k1 cb k2 hb
    simp only [lowerS, hc, hb, Prod.mk.injEq] at h
    obtain ⟨rfl, rfl⟩ := h
    refine ⟨by omega, ?_⟩
    unfold Ranged
    simp only [labels_append, labels_cons_brc, labels_cons_br, labels_cons_label, labels_nil, nl.labels_eq,
      List.nil_append, List.append_nil]
    ranged_close
  | .doL body cnd, brk, cont, k, c, k', h => by
    rcases hb : lowerS (some (k + 2)) (some (k + 1)) body (k + 3) with ⟨cb, k1⟩
    rcases hc : lowerE cnd k1 with ⟨cc, v, k2⟩
    obtain ⟨le1, r1, n1⟩ := lowerS_shapeG body (some (k + 2)) (some (k + 1)) (k + 3) cb k1 hb
    obtain ⟨nl, le2⟩ := lowerE_shapeG cnd k1 cc v k2 hc
    simp only [lowerS, hc, hb, Prod.mk.injEq] at h
    obtain ⟨rfl, rfl⟩ := h
    refine ⟨by omega, ?_⟩
    unfold Ranged
    simp only [labels_append, labels_cons_brc, labels_cons_br, labels_cons_label, labels_nil, nl.labels_eq,
      List.nil_append, List.append_nil]
    ranged_close
  | .forL init cnd next body, brk, cont, k, c, k', h => by
    rcases hi : lowerS brk cont init k with ⟨ci, k0⟩
    rcases hc : lowerOptE cnd (k0 + 4) with ⟨cc, v, k1⟩
    rcases hb : lowerS (some (k0 + 3)) (some (k0 + 2)) body k1 with ⟨cb, k2⟩
    rcases hn : lowerOptE next k2 with ⟨cn, vn, k3⟩
    obtain ⟨le0, r0, n0⟩ := lowerS_shapeG init brk cont k ci k0 hi
    obtain ⟨nlc, le1⟩ := lowerOptE_shapeG cnd (k0 + 4) cc v k1 hc
    obtain ⟨le2, r2, n2⟩ := lowerS_shapeG body (some (k0 + 3)) (some (k0 + 2)) k1 cb k2 hb
    obtain ⟨nln, le3⟩ := lowerOptE_shapeG next k2 cn vn k3 hn
    simp only [lowerS, hi, hc, hb, hn, Prod.mk.injEq] at h
    obtain ⟨rfl, rfl⟩ := h
    refine ⟨by omega, ?_⟩
    unfold Ranged
    cases v <;>
    · simp only [forBranch, labels_append, labels_cons_brc, labels_cons_br, labels_cons_label, labels_nil, nlc.labels_eq,
        nln.labels_eq, List.nil_append, List.append_nil]
      ranged_close
  | .brk, brk, cont, k, c, k', h => by
    simp only [lowerS, Prod.mk.injEq] at h
    obtain ⟨rfl, rfl⟩ := h
    exact ⟨by omega, Ranged.of_noLabels (NoLabels.cons rfl NoLabels.nil) _ _⟩
  | .cont, brk, cont, k, c, k', h => by
    simp only [lowerS, Prod.mk.injEq] at h
    obtain ⟨rfl, rfl⟩ := h
    exact ⟨by omega, Ranged.of_noLabels (NoLabels.cons rfl NoLabels.nil) _ _⟩
  | .ret none, brk, cont, k, c, k', h => by
    simp only [lowerS, Prod.mk.injEq] at h
    obtain ⟨rfl, rfl⟩ := h
    exact ⟨by omega, Ranged.of_noLabels (NoLabels.cons rfl NoLabels.nil) _ _⟩
  | .ret (some e), brk, cont, k, c, k', h => by
    rcases he : lowerE e k with ⟨c1, v1, k1⟩
    obtain ⟨nl, le⟩ := lowerE_shapeG e k c1 v1 k1 he
    simp only [lowerS, he, Prod.mk.injEq] at h
    obtain ⟨rfl, rfl⟩ := h
    exact ⟨by omega, Ranged.of_noLabels (NoLabels.append nl (NoLabels.cons rfl NoLabels.nil)) _ _⟩

theorem lowerFn_labelsDistinct_general (f : FnDef) : labelsDistinct (lowerFn f).code = true := by
  rcases hl : lowerS none none f.body 0 with ⟨c, k'⟩
  obtain ⟨_, _, nd⟩ := lowerS_shapeG f.body none none 0 c k' hl
  simp only [lowerFn, hl]
  exact labelsDistinct_of_nodup nd

end Lower
end Nsl
