import Nsl.Model.Types

namespace Nsl.Types

theorem commonScalar_eq_wider (a b : Comp) : commonScalar a b = Spec.wider a b := by
  cases a <;> cases b <;> rfl

@[simp] theorem Spec.wider_self (a : Comp) : Spec.wider a a = a := by
  cases a <;> rfl

theorem mkVec_of_pos {c : Comp} {n : Nat} (h : 1 ≤ n) : mkVec c n = some (.vec c n) := by
  unfold mkVec; rw [if_pos (by omega)]

theorem mkMat_of_pos {c : Comp} {r k : Nat} (hr : 1 ≤ r) (hk : 1 ≤ k) :
    mkMat c r k = some (.mat c r k) := by
  unfold mkMat; rw [if_pos ⟨by omega, by omega⟩]

/-- Mirror = specification on well-formed operands.  (The matrix-comparison exclusion of the
C09 statement is not needed: the specification rejects that case and so does the code.) -/
theorem resolveBinary_eq_spec_aux (o : BOp) (l r : Ty) (hl : WF l = true) (hr : WF r = true) :
    resolveBinary o l r = Spec.binary o l r := by
  cases l <;> cases r <;> simp [WF] at hl hr <;> cases o <;>
    simp [resolveBinary, Spec.binary, isComparison, opValue, Ty.kind, Ty.isMat, Ty.isVec,
      Ty.isScalar, commonPrimitive, commonScalar_eq_wider, mkVec_of_pos, mkMat_of_pos, withComp,
      rowsColumns, Spec.classify, Spec.resultShape, Spec.shapeOf, Spec.compOf, Spec.build,
      Spec.resultComp, Spec.productShape, Ty.comp, *]
  all_goals (repeat' split) <;> simp_all <;> omega

end Nsl.Types
