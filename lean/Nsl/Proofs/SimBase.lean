import Nsl.Model.CoreSem
import Nsl.Proofs.StepLemmas
import Nsl.Proofs.LowerShape
/-!
# Basic facts for the simulation proof: related frames, the no-pointer invariant, function lookup
-/
namespace Nsl
namespace Sim
open Core VM CoreSem Lower

/-- The VM frame that corresponds to the source-level frame `fr`: same locals and arguments, registers `ρ`. -/
def vf (ρ : Map Nat Val) (fr : Frame) : Frame := { regs := ρ, locals := fr.locals, args := fr.args }

@[simp] theorem vf_locals (ρ : Map Nat Val) (fr : Frame) : (vf ρ fr).locals = fr.locals := rfl
@[simp] theorem vf_args (ρ : Map Nat Val) (fr : Frame) : (vf ρ fr).args = fr.args := rfl
@[simp] theorem vf_regs (ρ : Map Nat Val) (fr : Frame) : (vf ρ fr).regs = ρ := rfl

theorem setReg_vf (ρ : Map Nat Val) (fr : Frame) (d : Nat) (v : Val) :
    setReg (vf ρ fr) d v = vf (Map.set ρ d v) fr := rfl

theorem vf_vf (ρ ρ' : Map Nat Val) (fr : Frame) : vf ρ' (vf ρ fr) = vf ρ' fr := rfl

theorem readRoot_vf (ρ : Map Nat Val) (fr : Frame) (g : Globals) (r : Root) :
    readRoot (vf ρ fr) g r = readRoot fr g r := by
  cases r <;> rfl

theorem writeRoot_vf {ρ : Map Nat Val} {fr : Frame} {g : Globals} {r : Root} {v : Val} {fr1 : Frame}
    {g1 : Globals} (h : writeRoot fr g r v = .ok (fr1, g1)) :
    writeRoot (vf ρ fr) g r v = .ok (vf ρ fr1, g1) := by
  cases r with
  | loc n =>
    simp only [writeRoot, Except.ok.injEq, Prod.mk.injEq] at h ⊢
    obtain ⟨rfl, rfl⟩ := h
    exact ⟨rfl, rfl⟩
  | arg i =>
    simp only [writeRoot] at h ⊢
    by_cases hi : i < fr.args.length
    · rw [if_pos hi] at h
      simp only [Except.ok.injEq, Prod.mk.injEq] at h
      obtain ⟨rfl, rfl⟩ := h
      simp [vf, hi]
    · rw [if_neg hi] at h; cases h
  | glob n =>
    simp only [writeRoot, Except.ok.injEq, Prod.mk.injEq] at h ⊢
    obtain ⟨rfl, rfl⟩ := h
    exact ⟨rfl, rfl⟩

theorem evalOpd_vf_ref (ρ : Map Nat Val) (fr : Frame) (n : Nat) (v : Val) (h : Map.get ρ n = some v) :
    evalOpd (vf ρ fr) (.ref n) = .ok v := by
  simp [evalOpd, h]

/-- The value of an operand only depends on the registers below the bound of the operand. -/
theorem evalOpd_frame {ρ ρ' : Map Nat Val} {fr fr' : Frame} {o : Opd} {v : Val} {k : Nat}
    (h : evalOpd (vf ρ fr) o = .ok v) (hb : OpdBelow o k)
    (hfr : ∀ r, r < k → Map.get ρ' r = Map.get ρ r) : evalOpd (vf ρ' fr') o = .ok v := by
  cases o with
  | ref n =>
    simp only [OpdBelow] at hb
    simp only [evalOpd, vf_regs] at h ⊢
    rw [hfr n hb]; exact h
  | cInt i => simpa [evalOpd] using h
  | cFlt f => simpa [evalOpd] using h

/-! ## No-pointer invariant -/

def MapOK {κ : Type} [DecidableEq κ] (m : Map κ Val) : Prop :=
  ∀ k v, Map.get m k = some v → Val.isPtr v = false

def ListOK (l : List Val) : Prop := ∀ v ∈ l, Val.isPtr v = false

def FrOK (fr : Frame) : Prop := MapOK fr.locals ∧ ListOK fr.args

theorem MapOK.set {κ : Type} [DecidableEq κ] {m : Map κ Val} (h : MapOK m) (k : κ) {v : Val}
    (hv : Val.isPtr v = false) : MapOK (Map.set m k v) := by
  intro k' v' hg
  by_cases hk : k = k'
  · subst hk
    rw [Map.get_set_eq] at hg
    cases hg; exact hv
  · rw [Map.get_set_ne _ _ _ _ hk] at hg
    exact h k' v' hg

theorem MapOK.nil {κ : Type} [DecidableEq κ] : MapOK ([] : Map κ Val) := by
  intro k v h; simp at h

theorem ListOK.set {l : List Val} (h : ListOK l) (i : Nat) {v : Val} (hv : Val.isPtr v = false) :
    ListOK (l.set i v) := by
  intro x hx
  rcases List.mem_or_eq_of_mem_set hx with hx | rfl
  · exact h x hx
  · exact hv

theorem readRoot_noPtr {fr : Frame} {g : Globals} {r : Root} {v : Val} (hf : FrOK fr) (hg : MapOK g)
    (h : readRoot fr g r = .ok v) : Val.isPtr v = false := by
  cases r with
  | loc n =>
    simp only [readRoot] at h
    cases hm : Map.get fr.locals n with
    | none => simp [hm] at h
    | some x => simp only [hm, Except.ok.injEq] at h; subst h; exact hf.1 n x hm
  | arg i =>
    simp only [readRoot] at h
    cases hm : fr.args[i]? with
    | none => simp [hm] at h
    | some x => simp only [hm, Except.ok.injEq] at h; subst h; exact hf.2 x (List.mem_of_getElem? hm)
  | glob n =>
    simp only [readRoot] at h
    cases hm : Map.get g n with
    | none => simp [hm] at h
    | some x => simp only [hm, Except.ok.injEq] at h; subst h; exact hg n x hm

theorem writeRoot_ok {fr : Frame} {g : Globals} {r : Root} {v : Val} {fr1 : Frame} {g1 : Globals}
    (hf : FrOK fr) (hg : MapOK g) (hv : Val.isPtr v = false) (h : writeRoot fr g r v = .ok (fr1, g1)) :
    FrOK fr1 ∧ MapOK g1 := by
  cases r with
  | loc n =>
    simp only [writeRoot, Except.ok.injEq, Prod.mk.injEq] at h
    obtain ⟨rfl, rfl⟩ := h
    exact ⟨⟨hf.1.set n hv, hf.2⟩, hg⟩
  | arg i =>
    simp only [writeRoot] at h
    by_cases hi : i < fr.args.length
    · rw [if_pos hi] at h
      simp only [Except.ok.injEq, Prod.mk.injEq] at h
      obtain ⟨rfl, rfl⟩ := h
      exact ⟨⟨hf.1, hf.2.set i hv⟩, hg⟩
    · rw [if_neg hi] at h; cases h
  | glob n =>
    simp only [writeRoot, Except.ok.injEq, Prod.mk.injEq] at h
    obtain ⟨rfl, rfl⟩ := h
    exact ⟨hf, hg.set n hv⟩

theorem noPtr_ok {v v' : Val} (h : noPtr v = .ok v') : v' = v ∧ Val.isPtr v = false := by
  cases v <;> simp [noPtr] at h <;> simp [h, Val.isPtr]
  all_goals exact h.symm

theorem scalarBin_noPtr {o : SOp} {it : Bool} {a b z : Val} (h : scalarBin o it a b = .ok z) :
    Val.isPtr z = false := by
  unfold scalarBin at h
  repeat' split at h
  all_goals first
    | (simp only [Except.ok.injEq] at h; subst h; simp [Val.ofBool, Val.isPtr]; done)
    | (cases h; done)

theorem castScalar_noPtr {s : Sc} {a z : Val} (h : castScalar s a = .ok z) : Val.isPtr z = false := by
  unfold castScalar at h
  repeat' split at h
  all_goals first
    | (simp only [Except.ok.injEq] at h; subst h; simp [Val.isPtr]; done)
    | (cases h; done)
    | (simp only [bind, Except.bind] at h
       split at h
       · cases h
       · simp only [Except.ok.injEq] at h; subst h; simp [Val.isPtr])

theorem createInstance_scalar {ty : ITy} (h : ty.isScalar = true) : createInstance ty = .int 0 := by
  cases ty <;> simp [ITy.isScalar] at h
  simp [createInstance]

theorem isAggregate_of_scalar {ty : ITy} (h : ty.isScalar = true) : ty.isAggregate = false := by
  cases ty <;> simp [ITy.isScalar] at h
  rfl

theorem keyOK_rootOf {sc : Scope} {key : VarKey} (h : keyOK sc key = true) : ∃ r, rootOf sc key = .ok r := by
  cases sc <;> cases key <;> simp [keyOK] at h <;> exact ⟨_, rfl⟩

/-! ## Function lookup in the lowered program -/

theorem find_lowerModule (M : Core.Module) (name : String) :
    (lowerModule M).find name = (findFn M name).map lowerFn := by
  unfold Program.find findFn lowerModule
  simp only
  induction M.fns with
  | nil => rfl
  | cons f rest ih =>
    simp only [List.map_cons, List.find?_cons]
    have : (lowerFn f).name = f.name := rfl
    rw [this]
    cases hn : f.name == name
    · simpa using ih
    · simp

theorem findFn_mem {M : Core.Module} {name : String} {f : FnDef} (h : findFn M name = some f) : f ∈ M.fns := by
  unfold findFn at h
  exact List.mem_of_find?_eq_some h

end Sim
end Nsl
