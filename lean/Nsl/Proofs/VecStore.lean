import Nsl.Proofs.VecExpr
/-!
# Vector core, part 9: stores (`stsim_succV`): variables, elements and rows (`vecSet`/`matSet` then store back),
swizzles (store shuffle then store back)
-/
set_option linter.unusedSimpArgs false
namespace Nsl
namespace Vec
open Core VM CoreSem Lower Sim

theorem stsim_succV (M : Core.Module) (n : Nat) (ihE : ESimV M n) (ihSt : StSimV M n) : StSimV M (n + 1) := by
  intro ps Γ code lhs w fr g u fr' g' h hform hok hw hf hg src k c k' q ρ hl hat hsrc hbs
  cases lhs with
  | var sc key ty =>
    simp only [okEV, Bool.and_eq_true, beq_iff_eq] at hok
    obtain ⟨root, hroot, hnp, hwr⟩ := storeTo_var h
    simp only [lowerStore_var, Prod.mk.injEq] at hl
    obtain ⟨rfl, rfl⟩ := hl
    have hstep := step_store (cf := callD (lowerModule M) 0) hat.head hroot hsrc hnp (writeRoot_vf (ρ := ρ) hwr)
    obtain ⟨hf2, hg2⟩ := writeRoot_fits hok.2 hroot hw hwr hf hg
    exact ⟨ρ, by simpa using Steps.one 0 hstep, fun _ _ => rfl, hf2, hg2⟩
  | index kd ty base idx =>
    simp only [okEV, Bool.and_eq_true] at hok
    obtain ⟨⟨hidx, hokb⟩, hoki⟩ := hok
    rcases hel : lowerE base k with ⟨cb, vb, k1⟩
    rcases her : lowerE idx k1 with ⟨ci, vi, k2⟩
    rcases hes : lowerStore base (.ref k2) (k2 + 1) with ⟨cs, k3⟩
    have le1 := lowerE_mono base k cb vb k1 hel
    have le2 := lowerE_mono idx k1 ci vi k2 her
    have ob1 := lowerE_below base k cb vb k1 hel
    cases kd with
    | arr => simp [okIdx] at hidx
    | vec =>
      simp only [lhsForm] at hform
      obtain ⟨nn, hbt, hty, hit⟩ := okIdx_vec hidx
      simp only [storeTo] at h
      cases h1 : evalE M n base fr g with
      | fail er => simp [h1] at h
      | val b fr1 g1 =>
        simp only [h1] at h
        cases h2 : evalE M n idx fr1 g1 with
        | fail er => simp [h2] at h
        | val i fr2 g2 =>
          simp only [h2] at h
          cases hk : indexOf b i with
          | error er => simp [hk, bind, Except.bind] at h
          | ok kk =>
            cases hx : setKey b (.idx kk) w with
            | error er => simp [hk, hx, bind, Except.bind] at h
            | ok b' =>
              simp only [hk, hx, bind, Except.bind] at h
              simp only [lowerStore, hel, her, hes, Prod.mk.injEq] at hl
              obtain ⟨rfl, rfl⟩ := hl
              obtain ⟨ρ1, s1, e1, t1, f1, hf1, hg1⟩ :=
                ihE ps Γ code base fr g b fr1 g1 h1 hokb hf hg k cb vb k1 q ρ hel hat.left.left.left
              obtain ⟨ρ2, s2, e2, t2, f2, hf2, hg2⟩ :=
                ihE ps Γ code idx fr1 g1 i fr2 g2 h2 hoki hf1 hg1 k1 ci vi k2 (q + cb.length) ρ1 her hat.left.left.right
              have e1' : evalOpd (vf ρ2 fr2) vb = .ok b := evalOpd_frame e1 ob1 f2
              have hsrc2 : evalOpd (vf ρ2 fr2) src = .ok w :=
                evalOpd_frame hsrc hbs (fun r hr => by rw [f2 r (by omega), f1 r hr])
              have hc : code[q + cb.length + ci.length]? = some (.vecSet k2 ty vb vi src) := by
                have := hat.left.right.head
                simpa [Nat.add_assoc] using this
              have hstep := step_vecSet (cf := callD (lowerModule M) 0) (g := g2) hc e1' (fits_noPtr t1) e2
                (fits_noPtr t2) hsrc2 (fits_noPtr hw) hk hx
              rw [setReg_vf] at hstep
              have hwa : isAtom w = true := by
                have := hw; simp only [Expr.ty] at this; rw [hty, fits_atom] at this; exact this
              have tb' : fits (shape (Expr.ty base)) b' = true := by
                rw [hbt] at t1 ⊢; exact setKey_vec t1 hwa hx
              obtain ⟨ρ3, s3, f3, hf3, hg3⟩ :=
                ihSt ps Γ code base b' fr2 g2 u fr' g' h hform hokb tb' hf2 hg2 (.ref k2) (k2 + 1) cs k3
                  (q + cb.length + ci.length + 1) (Map.set ρ2 k2 b') hes
                  (by have := hat.right; simpa [Nat.add_assoc] using this)
                  (evalOpd_vf_ref _ _ k2 _ (by rw [Map.get_set_eq])) (by simp [OpdBelow])
              refine ⟨ρ3, ?_, ?_, hf3, hg3⟩
              · have := ((s1.trans s2).trans (Steps.one 0 hstep)).trans s3
                simpa [Nat.add_assoc, Nat.add_comm 1] using this
              · intro r' hr'
                rw [f3 r' (by omega), Map.get_set_ne _ _ _ _ (by omega), f2 r' (by omega), f1 r' hr']
    | mat =>
      simp only [lhsForm] at hform
      obtain ⟨rr, cc, hbt, hty, hit⟩ := okIdx_mat hidx
      simp only [storeTo] at h
      cases h1 : evalE M n base fr g with
      | fail er => simp [h1] at h
      | val b fr1 g1 =>
        simp only [h1] at h
        cases h2 : evalE M n idx fr1 g1 with
        | fail er => simp [h2] at h
        | val i fr2 g2 =>
          simp only [h2] at h
          cases hk : indexOf b i with
          | error er => simp [hk, bind, Except.bind] at h
          | ok kk =>
            cases hx : setKey b (.idx kk) w with
            | error er => simp [hk, hx, bind, Except.bind] at h
            | ok b' =>
              simp only [hk, hx, bind, Except.bind] at h
              simp only [lowerStore, hel, her, hes, Prod.mk.injEq] at hl
              obtain ⟨rfl, rfl⟩ := hl
              obtain ⟨ρ1, s1, e1, t1, f1, hf1, hg1⟩ :=
                ihE ps Γ code base fr g b fr1 g1 h1 hokb hf hg k cb vb k1 q ρ hel hat.left.left.left
              obtain ⟨ρ2, s2, e2, t2, f2, hf2, hg2⟩ :=
                ihE ps Γ code idx fr1 g1 i fr2 g2 h2 hoki hf1 hg1 k1 ci vi k2 (q + cb.length) ρ1 her hat.left.left.right
              have e1' : evalOpd (vf ρ2 fr2) vb = .ok b := evalOpd_frame e1 ob1 f2
              have hsrc2 : evalOpd (vf ρ2 fr2) src = .ok w :=
                evalOpd_frame hsrc hbs (fun r hr => by rw [f2 r (by omega), f1 r hr])
              have hc : code[q + cb.length + ci.length]? = some (.matSet k2 ty vb vi src) := by
                have := hat.left.right.head
                simpa [Nat.add_assoc] using this
              have hstep := step_matSet (cf := callD (lowerModule M) 0) (g := g2) hc e1' (fits_noPtr t1) e2
                (fits_noPtr t2) hsrc2 (fits_noPtr hw) hk hx
              rw [setReg_vf] at hstep
              have hwa : fitsVec cc w = true := by
                have := hw; simp only [Expr.ty] at this; rw [hty, fits_vec] at this; exact this
              have tb' : fits (shape (Expr.ty base)) b' = true := by
                rw [hbt] at t1 ⊢; exact setKey_mat t1 hwa hx
              obtain ⟨ρ3, s3, f3, hf3, hg3⟩ :=
                ihSt ps Γ code base b' fr2 g2 u fr' g' h hform hokb tb' hf2 hg2 (.ref k2) (k2 + 1) cs k3
                  (q + cb.length + ci.length + 1) (Map.set ρ2 k2 b') hes
                  (by have := hat.right; simpa [Nat.add_assoc] using this)
                  (evalOpd_vf_ref _ _ k2 _ (by rw [Map.get_set_eq])) (by simp [OpdBelow])
              refine ⟨ρ3, ?_, ?_, hf3, hg3⟩
              · have := ((s1.trans s2).trans (Steps.one 0 hstep)).trans s3
                simpa [Nat.add_assoc, Nat.add_comm 1] using this
              · intro r' hr'
                rw [f3 r' (by omega), Map.get_set_ne _ _ _ _ (by omega), f2 r' (by omega), f1 r' hr']
  | swizzle ty base idxs =>
    simp only [lhsForm, Bool.and_eq_true, decide_eq_true_eq] at hform
    obtain ⟨hnd, hformb⟩ := hform
    simp only [okEV, Bool.and_eq_true] at hok
    obtain ⟨⟨hvec, hswz⟩, hokb⟩ := hok
    obtain ⟨sb, nb, hbt⟩ := isVector_shape hvec
    rcases hel : lowerE base k with ⟨cb, vb, k1⟩
    rcases hes : lowerStore base (.ref k1) (k1 + 1) with ⟨cs, k2⟩
    have le1 := lowerE_mono base k cb vb k1 hel
    simp only [storeTo] at h
    cases h1 : evalE M n base fr g with
    | fail er => simp [h1] at h
    | val b fr1 g1 =>
      simp only [h1] at h
      cases hx : swizzleStore b idxs w with
      | error er => simp [hx] at h
      | ok b' =>
        simp only [hx] at h
        simp only [lowerStore, hel, hes, Prod.mk.injEq] at hl
        obtain ⟨rfl, rfl⟩ := hl
        obtain ⟨ρ1, s1, e1, t1, f1, hf1, hg1⟩ :=
          ihE ps Γ code base fr g b fr1 g1 h1 hokb hf hg k cb vb k1 q ρ hel hat.left.left
        have hsrc1 : evalOpd (vf ρ1 fr1) src = .ok w := evalOpd_frame hsrc hbs f1
        have t1v : fits (.vec nb) b = true := by rw [hbt, shape] at t1; exact t1
        have hw' : fits (shape ty) w = true := hw
        obtain ⟨hsh, tb'⟩ := swizzleStore_typed t1v hw' hswz hnd hx sb
        have hc : code[q + cb.length]? =
            some (.shuffle k1 (.vec sb nb) vb src (storeShuffleIdx nb idxs)) := by
          have := hat.left.right.head
          simpa [hbt, vecSize] using this
        have hstep := step_shuffle (cf := callD (lowerModule M) 0) (g := g1) hc e1 (fits_noPtr t1) hsrc1
          (fits_noPtr hw) hsh
        rw [setReg_vf] at hstep
        have tb'' : fits (shape (Expr.ty base)) b' = true := by rw [hbt, shape]; exact tb'
        obtain ⟨ρ3, s3, f3, hf3, hg3⟩ :=
          ihSt ps Γ code base b' fr1 g1 u fr' g' h hformb hokb tb'' hf1 hg1 (.ref k1) (k1 + 1) cs k2
            (q + cb.length + 1) (Map.set ρ1 k1 b') hes
            (by have := hat.right; simpa [Nat.add_assoc] using this)
            (evalOpd_vf_ref _ _ k1 _ (by rw [Map.get_set_eq])) (by simp [OpdBelow])
        refine ⟨ρ3, ?_, ?_, hf3, hg3⟩
        · have := (s1.trans (Steps.one 0 hstep)).trans s3
          simpa [Nat.add_assoc, Nat.add_comm 1] using this
        · intro r' hr'
          rw [f3 r' (by omega), Map.get_set_ne _ _ _ _ (by omega), f1 r' hr']
  | litI i => simp [lhsForm] at hform
  | litF f => simp [lhsForm] at hform
  | bin op ty l r => simp [lhsForm] at hform
  | cast ty e => simp [lhsForm] at hform
  | assign l r => simp [lhsForm] at hform
  | affix p i x => simp [lhsForm] at hform
  | call fn ty args => simp [lhsForm] at hform
  | member ty b f => simp [lhsForm] at hform
  | construct ty args => simp [lhsForm] at hform

end Vec
end Nsl
