import Nsl.Model.Names
import Nsl.Proofs.Names
import Nsl.Proofs.NamesBinding

/-! Helper lemmas for C12, stage 2: the lexically scoped RUN against the STATIC resolution table,
and uniqueness of slots. -/

namespace Nsl.Names

open Spec

/-! ### Slots are the pre-order positions -/

theorem occs_slots (s : S) : ∀ k, (occs s k).map Prod.fst = List.range' k (size s) := by
  induction s with
  | decl x => intro k; simp [occs, size]
  | use x => intro k; simp [occs, size]
  | skip => intro k; simp [occs, size]
  | seq a b iha ihb => intro k; simp [occs, size, iha, ihb]
  | block s ih => intro k; simp [occs, size, ih]
  | ite a b iha ihb => intro k; simp [occs, size, iha, ihb]
  | forL i b ih =>
    intro k
    simp only [occs, size, List.map_cons, ih]
    rw [Nat.add_comm 1 (size b), List.range'_succ]
  | whileL s ih => intro k; simp [occs, size, ih]
  | doL s ih => intro k; simp [occs, size, ih]

theorem table_slots (s : S) : ∀ k ch,
    (table s k ch).map Prod.fst = ((occs s k).filter (fun o => o.2.1)).map Prod.fst := by
  induction s with
  | decl x => intro k ch; simp [table, occs]
  | use x => intro k ch; simp [table, occs]
  | skip => intro k ch; simp [table, occs]
  | seq a b iha ihb => intro k ch; simp [table, occs, iha, ihb]
  | block s ih => intro k ch; simp [table, occs, ih]
  | ite a b iha ihb => intro k ch; simp [table, occs, iha, ihb]
  | forL i b ih => intro k ch; cases i <;> simp [table, occs, ih]
  | whileL s ih => intro k ch; simp [table, occs, ih]
  | doL s ih => intro k ch; simp [table, occs, ih]

theorem table_nodup (s : S) (k : Nat) (ch : List Scope) :
    ((table s k ch).map Prod.fst).Nodup := by
  rw [table_slots]
  have h : ((occs s k).map Prod.fst).Nodup := by
    rw [occs_slots]; exact List.nodup_range'
  exact List.Nodup.sublist (List.Sublist.map _ List.filter_sublist) h

/-! ### Shape of the chain after a lexical run -/

theorem withOracle_env {ε : Type} {f : Nat → St ε → St ε} (h : ∀ c st, (f c st).env = st.env)
    (st : St ε) : (withOracle f st).env = st.env := by
  unfold withOracle
  split
  · exact h 0 st
  · exact h _ _

theorem iter_env {ε : Type} {f : St ε → St ε} (h : ∀ st, (f st).env = st.env) :
    ∀ n st, (iter f n st).env = st.env := by
  intro n
  induction n with
  | zero => intro st; rfl
  | succ n ih => intro st; simp only [iter]; rw [ih, h]

theorem scopedRun_env (f : St (List Scope) → St (List Scope)) (st : St (List Scope)) :
    (scopedRun f st).env = st.env := rfl

theorem extend_ne_nil (A : Scope) (ch : List Scope) : extend A ch ≠ [] := by
  cases ch <;> simp [extend]

theorem extend_nil {ch : List Scope} (h : ch ≠ []) : extend [] ch = ch := by
  cases ch with
  | nil => exact absurd rfl h
  | cons sc r => simp [extend]

theorem extend_extend (A B : Scope) {ch : List Scope} (h : ch ≠ []) :
    extend B (extend A ch) = extend (B ++ A) ch := by
  cases ch with
  | nil => exact absurd rfl h
  | cons sc r => simp [extend]

theorem runL_env (s : S) : ∀ k st, st.env ≠ [] → (runL s k st).env = extend (addsT s k) st.env := by
  induction s with
  | decl x =>
    intro k st h
    cases he : st.env with
    | nil => exact absurd he h
    | cons sc r => simp [runL, bindInner, he, addsT, extend]
  | use x => intro k st h; simp [runL, emit, addsT, extend_nil h]
  | skip => intro k st h; simp [runL, addsT, extend_nil h]
  | seq a b iha ihb =>
    intro k st h
    simp only [runL, addsT]
    rw [ihb _ _ (by rw [iha k st h]; exact extend_ne_nil _ _), iha k st h, extend_extend _ _ h]
  | block s ih => intro k st h; simp only [runL, addsT, extend_nil h]; rfl
  | ite a b iha ihb =>
    intro k st h
    simp only [runL, addsT, extend_nil h]
    exact withOracle_env (fun c st => scopedRun_env _ st) st
  | forL i b ih =>
    intro k st h
    cases i <;> simp only [runL, addsT, extend_nil h] <;> exact withOracle_env (fun c st => scopedRun_env _ st) st
  | whileL s ih =>
    intro k st h
    simp only [runL, addsT, extend_nil h]
    exact withOracle_env (fun c st => iter_env (fun st => scopedRun_env _ st) c st) st
  | doL s ih =>
    intro k st h
    simp only [runL, addsT, extend_nil h]
    exact withOracle_env (fun c st => iter_env (fun st => scopedRun_env _ st) (c + 1) st) st

theorem addsT_lookup (s : S) : ∀ k x t, List.lookup x (addsT s k) = some t → x ∈ adds s := by
  induction s with
  | decl y =>
    intro k x t h
    by_cases hxy : x = y
    · simp [adds, hxy]
    · simp [addsT, lookup_cons_ne hxy] at h
  | seq a b iha ihb =>
    intro k x t h
    simp only [addsT, List.lookup_append] at h
    simp only [adds, List.mem_append]
    cases hb : List.lookup x (addsT b (k + size a)) with
    | some u => exact Or.inr (ihb _ _ _ hb)
    | none => rw [hb] at h; exact Or.inl (iha _ _ _ (by simpa using h))
  | use y => intro k x t h; simp [addsT] at h
  | skip => intro k x t h; simp [addsT] at h
  | block s ih => intro k x t h; simp [addsT] at h
  | ite a b iha ihb => intro k x t h; simp [addsT] at h
  | forL i b ih => intro k x t h; simp [addsT] at h
  | whileL s ih => intro k x t h; simp [addsT] at h
  | doL s ih => intro k x t h; simp [addsT] at h

theorem adds_sub_locals (s : S) : ∀ x, x ∈ adds s → x ∈ locals s := by
  induction s with
  | decl y => intro x h; simpa [adds, locals] using h
  | seq a b iha ihb =>
    intro x h
    simp only [adds, locals, List.mem_append] at h ⊢
    exact h.imp (iha x) (ihb x)
  | use y => intro x h; simp [adds] at h
  | skip => intro x h; simp [adds] at h
  | block s ih => intro x h; simp [adds] at h
  | ite a b iha ihb => intro x h; simp [adds] at h
  | forL i b ih => intro x h; simp [adds] at h
  | whileL s ih => intro x h; simp [adds] at h
  | doL s ih => intro x h; simp [adds] at h

/-! ### The dynamic chain is below the static chain -/

/-- Every name the dynamic chain resolves is in `V`, and the static chain resolves it alike. -/
def Le (V : List String) (d c : List Scope) : Prop :=
  ∀ x t, lookupChain d x = some t → x ∈ V ∧ lookupChain c x = some t

theorem lookupChain_extend (A : Scope) {ch : List Scope} (h : ch ≠ []) (x : String) :
    lookupChain (extend A ch) x = (List.lookup x A).or (lookupChain ch x) := by
  cases ch with
  | nil => exact absurd rfl h
  | cons sc r =>
    simp only [extend, lookupChain, List.lookup_append]
    cases List.lookup x A <;> simp

theorem lookupChain_cons (A : Scope) (ch : List Scope) (x : String) :
    lookupChain (A :: ch) x = (List.lookup x A).or (lookupChain ch x) := by
  simp only [lookupChain]
  cases List.lookup x A <;> simp

theorem Le.push {V d c} (h : Le V d c) : Le V ([] :: d) ([] :: c) := by
  intro x t hx
  rw [lookupChain_nil_cons] at hx ⊢
  exact h x t hx

theorem Le.extend {V W d c} {A : Scope} (h : Le V d c) (hd : d ≠ []) (hc : c ≠ [])
    (hA : ∀ x t, List.lookup x A = some t → x ∈ W) : Le (V ++ W) (extend A d) (extend A c) := by
  intro x t hx
  rw [lookupChain_extend A hd] at hx
  rw [lookupChain_extend A hc]
  cases hl : List.lookup x A with
  | some u =>
    rw [hl] at hx
    exact ⟨List.mem_append_right _ (hA x u hl), hx⟩
  | none =>
    rw [hl] at hx
    simp only [Option.none_or] at hx ⊢
    exact ⟨List.mem_append_left _ (h x t hx).1, (h x t hx).2⟩

/-- Pushing a scope whose names are all outside `V` on the static side only. -/
theorem Le.push_right {V d c} {A : Scope} (h : Le V d c)
    (hA : ∀ x t, List.lookup x A = some t → x ∉ V) : Le V ([] :: d) (A :: c) := by
  intro x t hx
  rw [lookupChain_nil_cons] at hx
  obtain ⟨h1, h2⟩ := h x t hx
  refine ⟨h1, ?_⟩
  rw [lookupChain_cons]
  cases hl : List.lookup x A with
  | some u => exact absurd h1 (hA x u hl)
  | none => simpa using h2

theorem Le.bind {V d c} {x : String} {t : Tag} (h : Le V d c) :
    Le (V ++ [x]) ([(x, t)] :: d) ([(x, t)] :: c) := by
  intro y u hy
  rw [lookupChain_cons] at hy ⊢
  by_cases hyx : y = x
  · subst hyx
    simp only [lookup_cons_self, Option.some_or] at hy ⊢
    exact ⟨by simp, hy⟩
  · have : List.lookup y [(x, t)] = none := by rw [lookup_cons_ne hyx]; rfl
    rw [this] at hy ⊢
    simp only [Option.none_or] at hy ⊢
    exact ⟨List.mem_append_left _ (h y u hy).1, (h y u hy).2⟩

/-! ### Every event of the lexical run is justified by the static table -/

/-- The table has an entry for the use slot, and if the run resolved the use, to that entry. -/
def Good (e : Event) (T : List Event) : Prop :=
  ∃ d', (e.1, d') ∈ T ∧ (e.2 = none ∨ e.2 = d')

theorem Good.left {e : Event} {T T' : List Event} (h : Good e T) : Good e (T ++ T') := by
  obtain ⟨d', h1, h2⟩ := h
  exact ⟨d', List.mem_append_left _ h1, h2⟩

theorem Good.right {e : Event} {T T' : List Event} (h : Good e T') : Good e (T ++ T') := by
  obtain ⟨d', h1, h2⟩ := h
  exact ⟨d', List.mem_append_right _ h1, h2⟩

def EvS (V : List String) (f : St (List Scope) → St (List Scope))
    (T : List Scope → List Event) : Prop :=
  ∀ dyn ch, dyn.env ≠ [] → ch ≠ [] → Le V dyn.env ch →
    ∀ e ∈ (f dyn).trace, e ∈ dyn.trace ∨ Good e (T ch)

theorem EvS.withOracle {V T} {f : Nat → St (List Scope) → St (List Scope)}
    (h : ∀ c, EvS V (f c) T) : EvS V (withOracle f) T := by
  intro dyn ch h1 h2 h3 e he
  unfold Names.withOracle at he
  cases ho : dyn.oracle with
  | nil => simp only [ho] at he; exact h 0 dyn ch h1 h2 h3 e he
  | cons c o => simp only [ho] at he; exact h c { dyn with oracle := o } ch h1 h2 h3 e he

theorem EvS.iter {V T} {f : St (List Scope) → St (List Scope)} (hf : ∀ st, (f st).env = st.env)
    (h : EvS V f T) : ∀ n, EvS V (iter f n) T := by
  intro n
  induction n with
  | zero => intro dyn ch _ _ _ e he; exact Or.inl he
  | succ n ih =>
    intro dyn ch h1 h2 h3 e he
    simp only [Names.iter] at he
    rcases ih (f dyn) ch (by rw [hf]; exact h1) h2 (by rw [hf]; exact h3) e he with h' | h'
    · exact h dyn ch h1 h2 h3 e h'
    · exact Or.inr h'

/-- Entering a scope on both sides. -/
theorem EvS.scoped {V T} {f : St (List Scope) → St (List Scope)} (h : EvS V f T) :
    EvS V (scopedRun f) (fun ch => T ([] :: ch)) := by
  intro dyn ch _ _ h3 e he
  exact h { dyn with env := [] :: dyn.env } ([] :: ch) (by simp) (by simp) h3.push e he

theorem static_sim (s : S) : ∀ k V, ok V s = true → EvS V (runL s k) (table s k) := by
  induction s with
  | decl x =>
    intro k V _ dyn ch h1 _ _ e he
    left
    cases hd : dyn.env with
    | nil => exact absurd hd h1
    | cons sc r => simpa [runL, bindInner, hd] using he
  | use x =>
    intro k V _ dyn ch _ _ h3 e he
    simp only [runL, emit, List.mem_append, List.mem_singleton] at he
    rcases he with he | he
    · exact Or.inl he
    · right
      subst he
      refine ⟨lookupChain ch x, by simp [table], ?_⟩
      cases hl : lookupChain dyn.env x with
      | none => exact Or.inl rfl
      | some t => exact Or.inr (h3 x t hl).2.symm
  | skip => intro k V _ dyn ch _ _ _ e he; exact Or.inl he
  | seq a b iha ihb =>
    intro k V h dyn ch h1 h2 h3 e he
    simp only [ok, Bool.and_eq_true] at h
    simp only [runL] at he
    have henv := runL_env a k dyn h1
    have hle : Le (V ++ adds a) (runL a k dyn).env (extend (addsT a k) ch) := by
      rw [henv]; exact h3.extend h1 h2 (addsT_lookup a k)
    rcases ihb (k + size a) _ h.2 (runL a k dyn) _ (by rw [henv]; exact extend_ne_nil _ _)
        (extend_ne_nil _ _) hle e he with h' | h'
    · rcases iha k V h.1 dyn ch h1 h2 h3 e h' with h'' | h''
      · exact Or.inl h''
      · exact Or.inr (by simp only [table]; exact h''.left)
    · exact Or.inr (by simp only [table]; exact h'.right)
  | block s ih =>
    intro k V h
    simp only [ok] at h
    simp only [runL]
    exact (ih k V h).scoped
  | ite t e iht ihe =>
    intro k V h
    simp only [ok, Bool.and_eq_true] at h
    have he := ok_mono e _ V (fun x hx => List.mem_append_left _ hx) h.2
    simp only [runL]
    apply EvS.withOracle
    intro c dyn ch h1 h2 h3 ev hev
    by_cases hc : c = 0
    · simp only [if_pos hc] at hev
      have hle : Le V ([] :: dyn.env) (addsT t k :: ch) :=
        h3.push_right fun x u hx =>
          ok_locals t V h.1 x (adds_sub_locals t x (addsT_lookup t k x u hx))
      rcases ihe (k + size t) V he { dyn with env := [] :: dyn.env } _ (by simp) (by simp) hle ev hev
        with h' | h'
      · exact Or.inl h'
      · exact Or.inr (by simp only [table]; exact h'.right)
    · simp only [if_neg hc] at hev
      rcases iht k V h.1 { dyn with env := [] :: dyn.env } _ (by simp) (by simp) h3.push ev hev
        with h' | h'
      · exact Or.inl h'
      · exact Or.inr (by simp only [table]; exact h'.left)
  | forL i b ih =>
    intro k V h
    cases i with
    | none =>
      simp only [ok] at h
      simp only [runL]
      apply EvS.withOracle
      intro n
      -- the body runs in `[] :: [] :: env` dynamically, in `[] :: ch` statically
      have hb : EvS V (scopedRun (runL b (k + 1))) (table b (k + 1)) := by
        intro dyn ch h1 h2 h3 e he
        have hle : Le V ([] :: dyn.env) ch := fun x t hx => h3 x t (by simpa [lookupChain_nil_cons] using hx)
        exact ih (k + 1) V h { dyn with env := [] :: dyn.env } ch (by simp) h2 hle e he
      exact (EvS.iter (fun st => scopedRun_env _ st) hb n).scoped
    | some i =>
      simp only [ok, Bool.and_eq_true, Bool.not_eq_true', List.contains_eq_mem,
        decide_eq_false_iff_not] at h
      simp only [runL]
      apply EvS.withOracle
      intro n dyn ch h1 h2 h3 e he
      have hb : EvS (V ++ [i]) (scopedRun (runL b (k + 1))) (table b (k + 1)) := by
        intro dyn ch h1 h2 h3 e he
        have hle : Le (V ++ [i]) ([] :: dyn.env) ch :=
          fun x t hx => h3 x t (by simpa [lookupChain_nil_cons] using hx)
        exact ih (k + 1) _ h.2 { dyn with env := [] :: dyn.env } ch (by simp) h2 hle e he
      have hE : (bindInner i (.loc k) { dyn with env := [] :: dyn.env }).env = [(i, .loc k)] :: dyn.env := by
        simp [bindInner]
      have hT : (bindInner i (.loc k) { dyn with env := [] :: dyn.env }).trace = dyn.trace := by
        simp [bindInner]
      have := EvS.iter (fun st => scopedRun_env _ st) hb n (bindInner i (.loc k) { dyn with env := [] :: dyn.env })
        ([(i, .loc k)] :: ch) (by rw [hE]; simp) (by simp) (by rw [hE]; exact h3.bind) e he
      rw [hT] at this
      simpa only [table] using this
  | whileL b ih =>
    intro k V h
    simp only [ok] at h
    simp only [runL]
    apply EvS.withOracle
    intro n
    exact EvS.iter (fun st => scopedRun_env _ st) (ih k V h).scoped n
  | doL b ih =>
    intro k V h
    simp only [ok] at h
    simp only [runL]
    apply EvS.withOracle
    intro n
    exact EvS.iter (fun st => scopedRun_env _ st) (ih k V h).scoped (n + 1)

theorem le_init (m : Mod) (f : Fn) :
    Le (m.globals ++ f.params) [paramScope f, globalScope m] [paramScope f, globalScope m] := by
  intro x t hx
  exact ⟨((rel_init m f []).2.1 x t hx).1, hx⟩

end Nsl.Names
