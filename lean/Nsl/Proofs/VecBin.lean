import Nsl.Proofs.VecShape
/-!
# Vector core, part 5: the tail of a lowered binary node computes `binSem` (single-opcode cases here, row-wise matrix
operations in `VecRows`)
-/
set_option linter.unusedSimpArgs false
namespace Nsl
namespace Vec
open Core VM CoreSem Lower Sim

theorem one_bin (P : Program) {code : List Instr} {q : Nat} {ρ : Map Nat Val} {fr : Frame} {g : Globals} {dst : Nat}
    {o : BinOp} {ty : ITy} {x y : Opd} {a b z : Val}
    (hc : code[q]? = some (.bin dst o ty x y)) (hx : evalOpd (vf ρ fr) x = .ok a) (hpa : Val.isPtr a = false)
    (hy : evalOpd (vf ρ fr) y = .ok b) (hpb : Val.isPtr b = false) (hz : binExec o ty a b = .ok z) :
    Steps P code (q, vf ρ fr, g) (q + 1, vf (Map.set ρ dst z) fr, g) := by
  have hstep := step_bin (cf := callD P 0) (g := g) hc hx hpa hy hpb hz
  rw [setReg_vf] at hstep
  exact Steps.one 0 hstep

theorem scIsInt_row (s : Sc) (r c : Nat) : scIsInt (.vec s c) = scIsInt (.mat s r c) := by
  cases s <;> rfl

/-- Conclusion of the tail lemma, for a tail `t`. -/
def TailOK (P : Program) (code : List Instr) (q k2 : Nat) (ρ : Map Nat Val) (fr : Frame) (g : Globals) (z : Val)
    (t : List Instr × Opd × Nat) : Prop :=
  ∃ ρ', Steps P code (q, vf ρ fr, g) (q + t.1.length, vf ρ' fr, g) ∧ evalOpd (vf ρ' fr) t.2.1 = .ok z ∧
    (∀ r, r < k2 → Map.get ρ' r = Map.get ρ r)

theorem tail_single (P : Program) {code : List Instr} {q k2 : Nat} {ρ : Map Nat Val} {fr : Frame} {g : Globals}
    {o : BinOp} {ty : ITy} {x y : Opd} {a b z : Val}
    (hat : At code q [.bin k2 o ty x y]) (hx : evalOpd (vf ρ fr) x = .ok a) (hpa : Val.isPtr a = false)
    (hy : evalOpd (vf ρ fr) y = .ok b) (hpb : Val.isPtr b = false) (hz : binExec o ty a b = .ok z) :
    TailOK P code q k2 ρ fr g z ([.bin k2 o ty x y], .ref k2, k2 + 1) := by
  refine ⟨Map.set ρ k2 z, one_bin P hat.head hx hpa hy hpb hz, by simp [evalOpd], ?_⟩
  intro r hr
  exact Map.get_set_ne _ _ _ _ (by omega)

/-- The single-opcode cases. -/
theorem bin_tail_simple (P : Program) {code : List Instr} {op : BOp} {ty lt rt : ITy} {a b z : Val} {vl vr : Opd}
    {k2 q : Nat} {ρ : Map Nat Val} {fr : Frame} {g : Globals}
    (hcase : BinCase op ty lt rt) (hrow : ¬ (lt.isMatrix = true ∧ rt.isMatrix = true ∧ op ≠ .mul))
    (hms : ¬ (lt.isMatrix = true ∧ rt.isScalar = true)) (hsm : ¬ (lt.isScalar = true ∧ rt.isMatrix = true))
    (hsem : binSem op ty lt rt a b = .ok z)
    (hevl : evalOpd (vf ρ fr) vl = .ok a) (hpa : Val.isPtr a = false)
    (hevr : evalOpd (vf ρ fr) vr = .ok b) (hpb : Val.isPtr b = false)
    (hat : At code q (binTail op ty lt rt vl vr k2).1) :
    TailOK P code q k2 ρ fr g z (binTail op ty lt rt vl vr k2) := by
  cases hcase with
  | sss s1 s2 s3 =>
    have ht : binTail op (.sc s3) (.sc s1) (.sc s2) vl vr k2 =
        ([.bin k2 (.s op.toSOp) (.sc s3) vl vr], .ref k2, k2 + 1) := by
      simp [binTail, ITy.isMatrix, ITy.isScalar, ITy.isVector, mkBin, fromOperation]
    rw [ht] at hat ⊢
    exact tail_single P hat hevl hpa hevr hpb (by simpa [binSem, binExec, ITy.isScalar] using hsem)
  | vvv s1 s2 s3 n =>
    have ht : binTail op (.vec s3 n) (.vec s1 n) (.vec s2 n) vl vr k2 =
        ([.bin k2 (.v op.toSOp) (.vec s3 n) vl vr], .ref k2, k2 + 1) := by
      simp [binTail, ITy.isMatrix, ITy.isScalar, ITy.isVector, mkBin, fromOperation]
    rw [ht] at hat ⊢
    exact tail_single P hat hevl hpa hevr hpb (by simpa [binSem, binExec, ITy.isScalar, ITy.isVector] using hsem)
  | vsv s1 s2 s3 n hop =>
    rcases hop with rfl | rfl
    · have ht : binTail .mul (.vec s3 n) (.vec s1 n) (.sc s2) vl vr k2 =
          ([.bin k2 .vMulS (.vec s3 n) vl vr], .ref k2, k2 + 1) := by
        simp [binTail, ITy.isMatrix, ITy.isScalar, ITy.isVector, mkBin, fromOperation]
      rw [ht] at hat ⊢
      exact tail_single P hat hevl hpa hevr hpb
        (by simpa [binSem, binExec, ITy.isScalar, ITy.isVector, BOp.toSOp] using hsem)
    · have ht : binTail .div (.vec s3 n) (.vec s1 n) (.sc s2) vl vr k2 =
          ([.bin k2 .vDivS (.vec s3 n) vl vr], .ref k2, k2 + 1) := by
        simp [binTail, ITy.isMatrix, ITy.isScalar, ITy.isVector, mkBin, fromOperation]
      rw [ht] at hat ⊢
      exact tail_single P hat hevl hpa hevr hpb
        (by simpa [binSem, binExec, ITy.isScalar, ITy.isVector, BOp.toSOp] using hsem)
  | svv s1 s2 s3 n hop =>
    subst hop
    have ht : binTail .mul (.vec s3 n) (.sc s1) (.vec s2 n) vl vr k2 =
        ([.bin k2 .vMulS (.vec s3 n) vr vl], .ref k2, k2 + 1) := by
      simp [binTail, ITy.isMatrix, ITy.isScalar, ITy.isVector, mkBin, fromOperation]
    rw [ht] at hat ⊢
    exact tail_single P hat hevr hpb hevl hpa
      (by simpa [binSem, binExec, ITy.isScalar, ITy.isVector, BOp.toSOp] using hsem)
  | mmMul s1 s2 s3 r k c hop =>
    subst hop
    have ht : binTail .mul (.mat s3 r c) (.mat s1 r k) (.mat s2 k c) vl vr k2 =
        ([.bin k2 .mMulM (.mat s3 r c) vl vr], .ref k2, k2 + 1) := by
      simp [binTail, ITy.isMatrix, ITy.isScalar, ITy.isVector]
    rw [ht] at hat ⊢
    exact tail_single P hat hevl hpa hevr hpb
      (by simpa [binSem, binExec, ITy.isScalar, ITy.isVector, ITy.isMatrix] using hsem)
  | mmRow s1 s2 s3 r c hop => exact absurd ⟨rfl, rfl, hop⟩ hrow
  | mv s1 s2 s3 r c hop =>
    subst hop
    have ht : binTail .mul (.vec s3 r) (.mat s1 r c) (.vec s2 c) vl vr k2 =
        ([.bin k2 .mMulV (.vec s3 r) vl vr], .ref k2, k2 + 1) := by
      simp [binTail, ITy.isMatrix, ITy.isScalar, ITy.isVector]
    rw [ht] at hat ⊢
    exact tail_single P hat hevl hpa hevr hpb
      (by simpa [binSem, binExec, ITy.isScalar, ITy.isVector, ITy.isMatrix] using hsem)
  | ms s1 s2 s3 r c hop => exact absurd ⟨rfl, rfl⟩ hms
  | sm s1 s2 s3 r c hop => exact absurd ⟨rfl, rfl⟩ hsm

end Vec
end Nsl
