import Nsl.Proofs.StorExpr
/-!
# Storage core, simulation part 2: expressions (`esim_succS`) and argument lists (`asim_succS`)
-/
set_option linter.unusedSimpArgs false
set_option linter.unusedVariables false
namespace Nsl
namespace Stor
open Core VM CoreSem Lower Sim

theorem getPath_snoc_error {v : Val} {p : List Key} {er : Err} (k : Key) (h : getPath v p = .error er) :
    getPath v (p ++ [k]) = .error er := by
  induction p generalizing v with
  | nil => simp [getPath] at h
  | cons k0 ks ih =>
    simp only [getPath, bind, Except.bind] at h
    simp only [List.cons_append, getPath, bind, Except.bind]
    cases hk0 : getKey v k0 with
    | error e => simp only [hk0] at h ⊢; exact h
    | ok y => simp only [hk0] at h ⊢; exact ih h

theorem esim_succS (M : Core.Module) (n : Nat) (ih : ∀ m, m ≤ n → ESimS M m ∧ PSimS M m) (ihA : ASimS M n)
    (ihC : CSim M n) : ESimS M (n + 1) := by
  have ihE : ESimS M n := (ih n (Nat.le_refl n)).1
  have ihSt : StSimS M n := stsim M n (fun m hm => ih m (by omega))
  intro code Γ e fr g v fr' g' h hok hf hg k c o k' q ρ hl hat
  cases e with
  | litI i =>
    simp only [evalE, EOut.val.injEq] at h
    obtain ⟨rfl, rfl, rfl⟩ := h
    simp only [lowerE, Prod.mk.injEq] at hl
    obtain ⟨rfl, rfl, rfl⟩ := hl
    exact ⟨ρ, by simpa using Steps.refl _, rfl, rfl, fun _ _ => rfl, hf, hg, DomLe.refl _ _⟩
  | litF f =>
    simp only [evalE, EOut.val.injEq] at h
    obtain ⟨rfl, rfl, rfl⟩ := h
    simp only [lowerE, Prod.mk.injEq] at hl
    obtain ⟨rfl, rfl, rfl⟩ := hl
    exact ⟨ρ, by simpa using Steps.refl _, rfl, rfl, fun _ _ => rfl, hf, hg, DomLe.refl _ _⟩
  | var sc key ty =>
    obtain ⟨hty, hkey⟩ := okES_var_inv hok
    obtain ⟨root, hroot, hr, rfl, rfl⟩ := evalE_var h
    simp only [lowerE, Prod.mk.injEq] at hl
    obtain ⟨rfl, rfl, rfl⟩ := hl
    have hstep := step_load (cf := callD (lowerModule M) 0) (g := g') (fr := vf ρ fr') hat.head hroot
      (by rw [readRoot_vf]; exact hr) (isAggregate_of_scalar hty)
    rw [setReg_vf] at hstep
    refine ⟨Map.set ρ k v, by simpa using Steps.one 0 hstep, ?_, readRoot_noPtrS hf hg hr, ?_, hf, hg, DomLe.refl _ _⟩
    · simp [evalOpd]
    · intro r hr'
      exact Map.get_set_ne _ _ _ _ (by omega)
  | bin op ty l r =>
    simp only [okES, Bool.and_eq_true] at hok
    obtain ⟨⟨⟨⟨hty, hlt⟩, hrt⟩, hokl⟩, hokr⟩ := hok
    simp only [evalE] at h
    cases h1 : evalE M n l fr g with
    | fail er => simp [h1] at h
    | val a fr1 g1 =>
      simp only [h1] at h
      cases h2 : evalE M n r fr1 g1 with
      | fail er => simp [h2] at h
      | val b fr2 g2 =>
        simp only [h2] at h
        cases h3 : binSem op ty (Expr.ty l) (Expr.ty r) a b with
        | error er => simp [h3] at h
        | ok z =>
          simp only [h3, EOut.val.injEq] at h
          obtain ⟨rfl, rfl, rfl⟩ := h
          rcases hel : lowerE l k with ⟨cl, vl, k1⟩
          rcases her : lowerE r k1 with ⟨cr, vr, k2⟩
          obtain ⟨_, le1, ob1⟩ := lowerE_shapeS Γ l hokl k cl vl k1 hel
          obtain ⟨_, le2, _⟩ := lowerE_shapeS Γ r hokr k1 cr vr k2 her
          simp only [lowerE, hel, her, isMatrix_of_scalar hlt, isMatrix_of_scalar hrt, Bool.false_and,
            Bool.and_false, Bool.false_eq_true, if_false, mkBin_scalar _ _ _ _ _ _ _ hty, Prod.mk.injEq] at hl
          obtain ⟨rfl, rfl, rfl⟩ := hl
          obtain ⟨ρ1, s1, e1, p1, f1, hf1, hg1, hd1⟩ :=
            ihE code Γ l fr g a fr1 g1 h1 hokl hf hg k cl vl k1 q ρ hel hat.left.left
          obtain ⟨ρ2, s2, e2, p2, f2, hf2, hg2, hd2⟩ :=
            ihE code Γ r fr1 g1 b fr2 g2 h2 hokr hf1 hg1 k1 cr vr k2 (q + cl.length) ρ1 her hat.left.right
          have hz : binExec (.s op.toSOp) ty a b = .ok z := by
            simpa [binSem, hlt, hrt, binExec] using h3
          have e1' : evalOpd (vf ρ2 fr2) vl = .ok a := evalOpd_frame e1 ob1 f2
          have hc : code[q + cl.length + cr.length]? = some (.bin k2 (.s op.toSOp) ty vl vr) := by
            have := hat.right.head
            simpa [Nat.add_assoc] using this
          have hstep := step_bin (cf := callD (lowerModule M) 0) (g := g2) hc e1' p1 e2 p2 hz
          rw [setReg_vf] at hstep
          have hnp : Val.isPtr z = false := by
            simp only [binExec] at hz
            exact scalarBin_noPtr hz
          refine ⟨Map.set ρ2 k2 z, ?_, by simp [evalOpd], hnp, ?_, hf2, hg2, hd2.trans hd1⟩
          · have := (s1.trans s2).trans (Steps.one 0 hstep)
            simpa [Nat.add_assoc] using this
          · intro r' hr'
            rw [Map.get_set_ne _ _ _ _ (by omega), f2 r' (by omega), f1 r' hr']
  | cast ty x =>
    simp only [okES, Bool.and_eq_true] at hok
    simp only [evalE] at h
    cases h1 : evalE M n x fr g with
    | fail er => simp [h1] at h
    | val a fr1 g1 =>
      simp only [h1] at h
      cases h3 : castExec ty a with
      | error er => simp [h3] at h
      | ok z =>
        simp only [h3, EOut.val.injEq] at h
        obtain ⟨rfl, rfl, rfl⟩ := h
        rcases hel : lowerE x k with ⟨cl, vl, k1⟩
        obtain ⟨_, le1, _⟩ := lowerE_shapeS Γ x hok.2 k cl vl k1 hel
        simp only [lowerE, hel, Prod.mk.injEq] at hl
        obtain ⟨rfl, rfl, rfl⟩ := hl
        obtain ⟨ρ1, s1, e1, p1, f1, hf1, hg1, hd1⟩ :=
          ihE code Γ x fr g a fr1 g1 h1 hok.2 hf hg k cl vl k1 q ρ hel hat.left
        have hstep := step_cast (cf := callD (lowerModule M) 0) (g := g1) hat.right.head e1 p1 h3
        rw [setReg_vf] at hstep
        have hnp : Val.isPtr z = false := by
          obtain ⟨s, rfl⟩ := scalar_inv hok.1
          exact castScalar_noPtr (by simpa [castExec] using h3)
        refine ⟨Map.set ρ1 k1 z, ?_, by simp [evalOpd], hnp, ?_, hf1, hg1, hd1⟩
        · have := s1.trans (Steps.one 0 hstep)
          simpa [Nat.add_assoc] using this
        · intro r' hr'
          rw [Map.get_set_ne _ _ _ _ (by omega), f1 r' hr']
  | assign lhs rhs =>
    simp only [okES, Bool.and_eq_true] at hok
    obtain ⟨⟨hlhs, hokl⟩, hokr⟩ := hok
    simp only [evalE] at h
    cases h1 : evalE M n rhs fr g with
    | fail er => simp [h1] at h
    | val a fr1 g1 =>
      simp only [h1] at h
      cases h2 : storeTo M n lhs a fr1 g1 with
      | fail er => simp [h2] at h
      | val w fr2 g2 =>
        simp only [h2, EOut.val.injEq] at h
        obtain ⟨rfl, rfl, rfl⟩ := h
        rcases hel : lowerE rhs k with ⟨cl, vl, k1⟩
        rcases hes : lowerStore lhs vl k1 with ⟨cs, k2⟩
        obtain ⟨_, le1, ob1⟩ := lowerE_shapeS Γ rhs hokr k cl vl k1 hel
        simp only [lowerE, hel, hes, Prod.mk.injEq] at hl
        obtain ⟨rfl, rfl, rfl⟩ := hl
        obtain ⟨ρ1, s1, e1, p1, f1, hf1, hg1, hd1⟩ :=
          ihE code Γ rhs fr g a fr1 g1 h1 hokr hf hg k cl vl k1 q ρ hel hat.left
        obtain ⟨ρ2, s2, _, f2, hf2, hg2, hd2⟩ :=
          ihSt code Γ lhs fr1 g1 a w fr2 g2 h2 hlhs hokl hf1 hg1 k1 cs vl k2 (q + cl.length) ρ1 hes hat.right e1 ob1
        refine ⟨ρ2, ?_, evalOpd_frame e1 ob1 f2, p1, ?_, hf2, hg2, hd2.trans hd1⟩
        · have := s1.trans s2
          simpa [Nat.add_assoc] using this
        · intro r' hr'
          rw [f2 r' (by omega), f1 r' hr']
  | affix post inc x =>
    simp only [okES, Bool.and_eq_true] at hok
    obtain ⟨hlhs, hokx⟩ := hok
    simp only [evalE] at h
    cases h1 : evalE M n x fr g with
    | fail er => simp [h1] at h
    | val old fr1 g1 =>
      simp only [h1] at h
      cases h3 : scalarBin (if inc then SOp.add else SOp.sub) (scIsInt (Expr.ty x)) old (.int 1) with
      | error er => simp [h3] at h
      | ok new =>
        simp only [h3] at h
        cases h2 : storeTo M n x new fr1 g1 with
        | fail er => simp [h2] at h
        | val w fr2 g2 =>
          simp only [h2, EOut.val.injEq] at h
          obtain ⟨rfl, rfl, rfl⟩ := h
          rcases hel : lowerE x k with ⟨cl, vl, k1⟩
          rcases hes : lowerStore x (.ref k1) (k1 + 1) with ⟨cs, k2⟩
          obtain ⟨_, le1, ob1⟩ := lowerE_shapeS Γ x hokx k cl vl k1 hel
          simp only [lowerE, hel, hes, Prod.mk.injEq] at hl
          obtain ⟨rfl, rfl, rfl⟩ := hl
          obtain ⟨ρ1, s1, e1, p1, f1, hf1, hg1, hd1⟩ :=
            ihE code Γ x fr g old fr1 g1 h1 hokx hf hg k cl vl k1 q ρ hel hat.left.left
          have hnew : Val.isPtr new = false := scalarBin_noPtr h3
          have hc1 : code[q + cl.length]? = some (.bin k1 (.s (if inc then SOp.add else SOp.sub)) (Expr.ty x) vl (.cInt 1)) := by
            have := hat.left.right.head; simpa using this
          have st1 := step_bin (cf := callD (lowerModule M) 0) (g := g1) (fr := vf ρ1 fr1) hc1
            (x := old) (y := .int 1) (z := new) e1 p1 (by simp [evalOpd]) rfl (by simpa [binExec] using h3)
          rw [setReg_vf] at st1
          have hat2 : At code (q + cl.length + 1) cs := by
            have := hat.right; simpa [Nat.add_assoc] using this
          obtain ⟨ρ2, s2, _, f2, hf2, hg2, hd2⟩ :=
            ihSt code Γ x fr1 g1 new w fr2 g2 h2 hlhs hokx hf1 hg1 (k1 + 1) cs (.ref k1) k2 (q + cl.length + 1)
              (Map.set ρ1 k1 new) hes hat2 (by simp [evalOpd]) (by simp [OpdBelow])
          have fr12 : ∀ r, r < k1 → Map.get ρ2 r = Map.get ρ1 r := by
            intro r hr
            rw [f2 r (by omega), Map.get_set_ne _ _ _ _ (by omega)]
          refine ⟨ρ2, ?_, ?_, ?_, ?_, hf2, hg2, hd2.trans hd1⟩
          · have := (s1.trans (Steps.one 0 st1)).trans s2
            simpa [Nat.add_assoc, Nat.add_comm 1] using this
          · cases post
            · simp only [Bool.false_eq_true, if_false]
              rw [evalOpd_vf_ref _ _ k1 new]
              rw [f2 k1 (by omega), Map.get_set_eq]
            · simp only [if_true]
              exact evalOpd_frame e1 ob1 fr12
          · cases post <;> simp [p1, hnew]
          · intro r' hr'
            rw [fr12 r' (by omega), f1 r' hr']
  | call fn ty args =>
    simp only [okES] at hok
    simp only [evalE] at h
    cases h1 : evalArgs M n args fr g with
    | fail er => simp [h1] at h
    | vals vs fr1 g1 =>
      simp only [h1] at h
      cases h2 : callFn M n fn vs g1 with
      | fail er => simp [h2] at h
      | done w g2 as =>
        simp only [h2, EOut.val.injEq] at h
        obtain ⟨rfl, rfl, rfl⟩ := h
        rcases hel : lowerArgs args k with ⟨cl, os, k1⟩
        obtain ⟨_, le1, _⟩ := lowerArgs_shapeS Γ args hok k cl os k1 hel
        simp only [lowerE, hel, Prod.mk.injEq] at hl
        obtain ⟨rfl, rfl, rfl⟩ := hl
        obtain ⟨ρ1, s1, e1, f1, hf1, hg1, hd1⟩ :=
          ihA code Γ args fr g vs fr1 g1 h1 hok hf hg k cl os k1 q ρ hel hat.left
        obtain ⟨D, hcall, hnp, hg2⟩ := ihC fn vs g1 w g2 as h2 (OpdsEval.listOK e1) hg1
        have hstep := step_call (cf := callD (lowerModule M) D) hat.right.head (evalVals_of_noPtr e1) hcall
        rw [setReg_vf] at hstep
        refine ⟨Map.set ρ1 k1 w, ?_, by simp [evalOpd], hnp, ?_, hf1, hg2, hd1⟩
        · have := s1.trans (Steps.one D hstep)
          simpa [Nat.add_assoc] using this
        · intro r' hr'
          rw [Map.get_set_ne _ _ _ _ (by omega), f1 r' hr']
  | index kd ty base idx =>
    obtain ⟨rfl, hty, hb, hi⟩ := okES_index_inv hok
    obtain ⟨r, p', root, hpl, hr, hpv⟩ := evalE_index_inv h
    cases n with
    | zero => simp [evalPlace] at hpl
    | succ m =>
    obtain ⟨ihEm, ihPm⟩ := ih m (by omega)
    rcases hlb : lowerE base k with ⟨cb, vb, k1⟩
    rcases hli : lowerE idx k1 with ⟨ci, vi, k2⟩
    simp only [lowerE, hlb, hli, Prod.mk.injEq] at hl
    obtain ⟨rfl, rfl, rfl⟩ := hl
    obtain ⟨ρ2, p0, i, root0, c0, kk, x, xn, rfl, rfl, hlen, s, eb, ei, pi, hr0, hpth, hk, hx, htx, f, le1, le2, hf2, hg2, hd⟩ :=
      index_prefix ihEm ihPm hpl hb hi hf hg ρ hlb hli hat.left
    rw [hr] at hr0; cases hr0
    have hvx : v = x := by
      rw [getPath_snoc _ hpth, hx] at hpv
      cases hpv; rfl
    subst hvx
    have hc : code[q + cb.length + ci.length]? = some (.loadArr k2 ty vb vi) := by
      have := hat.right.head
      simpa [Nat.add_assoc] using this
    have hstep := step_loadArr (cf := callD (lowerModule M) 0) (g := g') (ty := ty) (dst := k2) hc eb ei pi
      (by rw [readRoot_vf]; exact hr) hpth hk hx
    rw [setReg_vf] at hstep
    simp only [isAggregate_of_scalar hty, Bool.false_and, Bool.false_eq_true, if_false] at hstep
    refine ⟨Map.set ρ2 k2 v, ?_, by simp [evalOpd], htx, ?_, hf2, hg2, hd⟩
    · have := s.trans (Steps.one 0 hstep)
      simpa [Nat.add_assoc] using this
    · intro r' hr'
      rw [Map.get_set_ne _ _ _ _ (by omega), f r' hr']
  | member ty base fld =>
    obtain ⟨hty, hb⟩ := okES_member_inv hok
    obtain ⟨r, p', root, hpl, hr, hpv⟩ := evalE_member_inv h
    cases n with
    | zero => simp [evalPlace] at hpl
    | succ m =>
    obtain ⟨ihEm, ihPm⟩ := ih m (by omega)
    obtain ⟨p0, hpb, rfl⟩ := evalPlace_member_inv hpl
    obtain ⟨xn, rfl, hlen⟩ := evalPlace_root (Γ := Γ) m base hpb hb
    rcases hlb : lowerE base k with ⟨cb, vb, k1⟩
    obtain ⟨_, le1, _⟩ := lowerP_shape Γ base 1 hb k cb vb k1 hlb
    simp only [lowerE, hlb, Prod.mk.injEq] at hl
    obtain ⟨rfl, rfl, rfl⟩ := hl
    obtain ⟨ρ1, hc1, f1, hf1, hg1, hd1⟩ :=
      ihPm code Γ base fr g (.loc xn) p0 fr' g' 1 hpb hb hf hg k cb vb k1 q ρ hlb hat.left
    obtain ⟨s1, e1⟩ := hc1 ⟨root, hr⟩
    -- the container and the field
    have hroot_t : Tree (p0.length + 1) root := by rw [hlen]; exact readRoot_tree hf1 hr
    cases hpc : getPath root p0 with
    | error er =>
      exfalso
      have : getPath root (p0 ++ [.fld fld]) = .error er := getPath_snoc_error _ hpc
      rw [this] at hpv; cases hpv
    | ok c0 =>
      have hxv : getKey c0 (.fld fld) = .ok v := by rw [← getPath_snoc _ hpc]; exact hpv
      have htv : Tree 0 v := (Tree.path p0 hroot_t hpc).key hxv
      have hstep := step_loadMem (cf := callD (lowerModule M) 0) (g := g') (ty := ty) (dst := k1) hat.right.head e1
        (by rw [readRoot_vf]; exact hr) hpc hxv
      rw [setReg_vf] at hstep
      simp only [isAggregate_of_scalar hty, Bool.false_and, Bool.false_eq_true, if_false] at hstep
      refine ⟨Map.set ρ1 k1 v, ?_, by simp [evalOpd], htv, ?_, hf1, hg1, hd1⟩
      · have := s1.trans (Steps.one 0 hstep)
        simpa [Nat.add_assoc] using this
      · intro r' hr'
        rw [Map.get_set_ne _ _ _ _ (by omega), f1 r' hr']
  | swizzle ty b idx => simp [okES] at hok
  | construct ty as => simp [okES] at hok

theorem asim_succS (M : Core.Module) (n : Nat) (ihE : ESimS M n) (ihA : ASimS M n) : ASimS M (n + 1) := by
  intro code Γ as fr g vs fr' g' h hok hf hg k c os k' q ρ hl hat
  cases as with
  | nil =>
    simp only [evalArgs, AOut.vals.injEq] at h
    obtain ⟨rfl, rfl, rfl⟩ := h
    simp only [lowerArgs, Prod.mk.injEq] at hl
    obtain ⟨rfl, rfl, rfl⟩ := hl
    exact ⟨ρ, by simpa using Steps.refl _, trivial, fun _ _ => rfl, hf, hg, DomLe.refl _ _⟩
  | cons e rest =>
    simp only [okArgsS, Bool.and_eq_true] at hok
    simp only [evalArgs] at h
    cases h1 : evalE M n e fr g with
    | fail er => simp [h1] at h
    | val a fr1 g1 =>
      simp only [h1] at h
      cases h2 : evalArgs M n rest fr1 g1 with
      | fail er => simp [h2] at h
      | vals ws fr2 g2 =>
        simp only [h2, AOut.vals.injEq] at h
        obtain ⟨rfl, rfl, rfl⟩ := h
        rcases hel : lowerE e k with ⟨c1, v1, k1⟩
        rcases her : lowerArgs rest k1 with ⟨c2, os2, k2⟩
        obtain ⟨_, le1, ob1⟩ := lowerE_shapeS Γ e hok.1 k c1 v1 k1 hel
        simp only [lowerArgs, hel, her, Prod.mk.injEq] at hl
        obtain ⟨rfl, rfl, rfl⟩ := hl
        obtain ⟨ρ1, s1, e1, p1, f1, hf1, hg1, hd1⟩ :=
          ihE code Γ e fr g a fr1 g1 h1 hok.1 hf hg k c1 v1 k1 q ρ hel hat.left
        obtain ⟨ρ2, s2, e2, f2, hf2, hg2, hd2⟩ :=
          ihA code Γ rest fr1 g1 ws fr2 g2 h2 hok.2 hf1 hg1 k1 c2 os2 k2 (q + c1.length) ρ1 her hat.right
        refine ⟨ρ2, ?_, ⟨⟨evalOpd_frame e1 ob1 f2, p1⟩, e2⟩, ?_, hf2, hg2, hd2.trans hd1⟩
        · have := s1.trans s2
          simpa [Nat.add_assoc] using this
        · intro r' hr'
          rw [f2 r' (by omega), f1 r' hr']

end Stor
end Nsl
